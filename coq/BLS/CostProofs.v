From Coq Require Import ZArith List Bool Lia.
From PV Require Import Util.ListSet Util.Sumset BLS.Model BLS.Den BLS.Proofs BLS.ProofsMod BLS.ProofsExp BLS.Cost.
Import ListNotations.
Open Scope Z_scope.

(* the closed form counts exactly what combinations_with_replacement enumerates *)
Lemma mchoose_S s n : mchoose (S s) (S n) = mchoose (S s) n + mchoose s (S n).
Proof. reflexivity. Qed.
Lemma mchoose_0_S n : mchoose 0 (S n) = 0. Proof. reflexivity. Qed.
Lemma mchoose_n0 s : mchoose s 0 = 1. Proof. destruct s; reflexivity. Qed.

Lemma cwr_len n : forall l, zlen (cwr_sums l n) = mchoose (length l) n.
Proof.
  unfold zlen. induction n as [|n IH]; intros l; [destruct l; reflexivity|].
  rewrite cwr_S. induction l as [|x t IHl]; [reflexivity|].
  rewrite go_cons, app_length, map_length. cbn [length]. rewrite mchoose_S, Nat2Z.inj_add, IH. cbn [length].
  rewrite <- cwr_S in IHl. rewrite <- cwr_S. rewrite IHl. reflexivity.
Qed.

Lemma mchoose_nonneg s n : 0 <= mchoose s n.
Proof.
  revert s. induction n as [|n IH]; intros s; [rewrite mchoose_n0; lia|].
  induction s as [|s IHs]; [rewrite mchoose_0_S; lia|]. rewrite mchoose_S. specialize (IH (S s)). lia.
Qed.

(* a residue list never has more elements than the divisor *)
Lemma nodup_range_len (l : list Z) d : 0 <= d -> NoDup l -> (forall x, In x l -> 0 <= x < d) -> zlen l <= d.
Proof.
  intros Hd ND R. unfold zlen.
  assert (length l <= length (map Z.of_nat (seq 0 (Z.to_nat d))))%nat as H.
  { apply NoDup_incl_length; auto. intros x Hx. specialize (R x Hx). apply in_map_iff. exists (Z.to_nat x). split; [lia|]. apply in_seq. lia. }
  rewrite map_length, seq_length in H. lia.
Qed.

Theorem omod_len_bound t d : wf t -> 1 <= d -> zlen (omod t d) <= d.
Proof.
  intros W Hd. apply nodup_range_len; [lia|apply ssorted_nodup, omod_sorted|]. intros x Hx. eapply omod_range; eauto.
Qed.

(* once k >= d the reduced count depends on k mod d only *)
Lemma equiv_k_large k d : 1 <= d -> d <= k -> equiv_k k d = d + k mod d.
Proof.
  intros Hd Hk. unfold equiv_k. apply Z.min_r. pose proof (Z.div_mod k d ltac:(lia)). pose proof (Z.mod_pos_bound k d ltac:(lia)).
  assert (1 <= k / d) by (apply Z.div_le_lower_bound; lia). nia.
Qed.

Lemma equiv_k_bound k d : 1 <= d -> 0 <= k -> 0 <= equiv_k k d < 2 * d.
Proof. intros Hd Hk. unfold equiv_k. pose proof (Z.mod_pos_bound k d ltac:(lia)). lia. Qed.

Lemma equiv_k_idem k d : 1 <= d -> 0 <= k -> equiv_k (equiv_k k d) d = equiv_k k d.
Proof.
  intros Hd Hk. pose proof (equiv_k_assert_ok k d Hd Hk) as E. unfold equiv_k at 1. rewrite <- E.
  unfold equiv_k. lia.
Qed.

Theorem capacity_sweep c d k k' : 1 <= d -> d <= k -> d <= k' -> k mod d = k' mod d ->
  omod (Rep c k) d = omod (Rep c k') d /\ cost_mod (Rep c k) d = cost_mod (Rep c k') d /\
  omod (RRep c k) d = omod (RRep c k') d /\ cost_mod (RRep c k) d = cost_mod (RRep c k') d.
Proof.
  intros Hd Hk Hk' E. cbn [omod cost_mod]. rewrite !(equiv_k_large k d), !(equiv_k_large k' d), E by lia. auto.
Qed.

(* any count behaves exactly like a count below 2d: cost and result do not depend on the capacity beyond that *)
Theorem count_clamp c d k : 1 <= d -> 0 <= k ->
  0 <= equiv_k k d < 2 * d /\
  omod (Rep c k) d = omod (Rep c (equiv_k k d)) d /\ cost_mod (Rep c k) d = cost_mod (Rep c (equiv_k k d)) d /\
  omod (RRep c k) d = omod (RRep c (equiv_k k d)) d /\ cost_mod (RRep c k) d = cost_mod (RRep c (equiv_k k d)) d.
Proof.
  intros Hd Hk. split; [apply equiv_k_bound; auto|]. cbn [omod cost_mod]. rewrite equiv_k_idem by auto. auto.
Qed.

(* whole-tree version: clamp every count to the divisor that reaches its node *)
Fixpoint clamp (t : op) (d : Z) {struct t} : op :=
  match t with
  | Leaf vs => Leaf vs
  | Pad c a => Pad (clamp c (Z.lcm a d)) a
  | Cat cs => Cat (map (fun c => clamp c d) cs)
  | Rep c k => Rep (clamp c d) (equiv_k k d)
  | RRep c k => RRep (clamp c d) (equiv_k k d)
  | Uni cs => Uni (map (fun c => clamp c d) cs)
  end.

Lemma map_ext_Forall {A B} (f g : A -> B) l : Forall (fun x => f x = g x) l -> map f l = map g l.
Proof. induction 1; simpl; congruence. Qed.

Theorem clamp_same t : wf t -> forall d, 1 <= d -> omod (clamp t d) d = omod t d /\ cost_mod (clamp t d) d = cost_mod t d.
Proof.
  induction t as [vs|c a IH|cs IH|c k IH|c k IH|cs IH] using op_ind'; intros W d Hd; cbn [clamp omod cost_mod]; cbn [wf] in W.
  - auto.
  - destruct W as [Wc Ha]. destruct (IH Wc _ (lcm_pos a d Ha Hd)) as [E1 E2]. rewrite E1, E2. auto.
  - destruct W as [_ Wcs]. apply allw_Forall in Wcs. rewrite !map_map.
    assert (Forall (fun c => omod (clamp c d) d = omod c d /\ cost_mod (clamp c d) d = cost_mod c d) cs) as H.
    { rewrite Forall_forall in *. intros c Hc. apply IH; auto. }
    rewrite (map_ext_Forall (fun c => omod (clamp c d) d) (fun c => omod c d)) by (eapply Forall_impl; [|exact H]; intros ? [? ?]; assumption).
    rewrite (map_ext_Forall (fun c => cost_mod (clamp c d) d) (fun c => cost_mod c d)) by (eapply Forall_impl; [|exact H]; intros ? [? ?]; assumption).
    rewrite (map_ext_Forall (fun c => zlen (omod (clamp c d) d)) (fun c => zlen (omod c d))) by (eapply Forall_impl; [|exact H]; intros c [E _]; rewrite E; reflexivity).
    auto.
  - destruct W as [Wc Hk]. destruct (IH Wc d Hd) as [E1 E2]. rewrite E1, E2, equiv_k_idem by auto. auto.
  - destruct W as [Wc Hk]. destruct (IH Wc d Hd) as [E1 E2]. rewrite E1, E2, equiv_k_idem by auto. auto.
  - destruct W as [_ Wcs]. apply allw_Forall in Wcs. rewrite !map_map.
    assert (Forall (fun c => omod (clamp c d) d = omod c d /\ cost_mod (clamp c d) d = cost_mod c d) cs) as H.
    { rewrite Forall_forall in *. intros c Hc. apply IH; auto. }
    rewrite (map_ext_Forall (fun c => cost_mod (clamp c d) d) (fun c => cost_mod c d)) by (eapply Forall_impl; [|exact H]; intros ? [? ?]; assumption).
    split; [|reflexivity]. f_equal. rewrite !flat_map_concat_map. f_equal. rewrite map_map.
    apply map_ext_Forall. eapply Forall_impl; [|exact H]. intros ? [? ?]; assumption.
Qed.

(* all counts of a clamped tree are below twice the divisor reaching them; here: the root *)
Fixpoint counts_small (t : op) (d : Z) {struct t} : Prop :=
  match t with
  | Leaf _ => True
  | Pad c a => counts_small c (Z.lcm a d)
  | Cat cs | Uni cs => (fix all (l : list op) : Prop := match l with [] => True | c :: r => counts_small c d /\ all r end) cs
  | Rep c k | RRep c k => 0 <= k < 2 * d /\ counts_small c d
  end.

Theorem clamp_small t : wf t -> forall d, 1 <= d -> counts_small (clamp t d) d.
Proof.
  induction t as [vs|c a IH|cs IH|c k IH|c k IH|cs IH] using op_ind'; intros W d Hd; cbn [clamp counts_small]; cbn [wf] in W.
  - exact I.
  - destruct W as [Wc Ha]. apply IH; auto. apply lcm_pos; auto.
  - destruct W as [_ Wcs]. apply allw_Forall in Wcs. revert Wcs. induction IH as [|c cs Hc _ IHcs]; intros Wcs; cbn [map]; [exact I|].
    inversion Wcs as [|? ? W1 W2]; subst. split; [apply Hc; assumption|apply IHcs; assumption].
  - destruct W as [Wc Hk]. split; [apply equiv_k_bound; auto|apply IH; auto].
  - destruct W as [Wc Hk]. split; [apply equiv_k_bound; auto|apply IH; auto].
  - destruct W as [_ Wcs]. apply allw_Forall in Wcs. revert Wcs. induction IH as [|c cs Hc _ IHcs]; intros Wcs; cbn [map]; [exact I|].
    inversion Wcs as [|? ? W1 W2]; subst. split; [apply Hc; assumption|apply IHcs; assumption].
Qed.

(* the evaluator used by the case files *)
Theorem cost_modf_eq t : wf t -> forall d, 1 <= d -> cost_modf t d = cost_mod t d.
Proof.
  induction t as [vs|c a IH|cs IH|c k IH|c k IH|cs IH] using op_ind'; intros W d Hd; cbn [cost_modf cost_mod]; cbn [wf] in W.
  - reflexivity.
  - destruct W as [Wc Ha]. pose proof (lcm_pos a d Ha Hd). rewrite IH, omodf_eq by auto. reflexivity.
  - destruct W as [_ Wcs]. apply allw_Forall in Wcs.
    rewrite (map_ext_Forall (fun c => cost_modf c d) (fun c => cost_mod c d)) by (rewrite Forall_forall in *; intros c Hc; apply IH; auto).
    rewrite (map_ext_Forall (fun c => zlen (omodf c d)) (fun c => zlen (omod c d))) by (rewrite Forall_forall in *; intros c Hc; rewrite omodf_eq; auto).
    reflexivity.
  - destruct W as [Wc Hk]. rewrite IH, omodf_eq by auto. reflexivity.
  - destruct W as [Wc Hk]. rewrite IH, omodf_eq by auto. reflexivity.
  - destruct W as [_ Wcs]. apply allw_Forall in Wcs.
    rewrite (map_ext_Forall (fun c => cost_modf c d) (fun c => cost_mod c d)) by (rewrite Forall_forall in *; intros c Hc; apply IH; auto).
    reflexivity.
Qed.

(* what one call of each operator's modulo enumerates, in terms of the model's lists *)
Theorem local_cost_rep S n : zlen (cwr_sums S n) = mchoose (length S) n.
Proof. apply cwr_len. Qed.

Theorem local_cost_rrep S n : zlen (cwr_upto S n) = mchoose_upto (length S) n.
Proof.
  unfold cwr_upto, mchoose_upto, zlen. generalize (seq 0 (Datatypes.S n)). intros l.
  induction l as [|j l IH]; [reflexivity|]. cbn [flat_map map fold_right]. rewrite app_length, Nat2Z.inj_add, IH.
  pose proof (cwr_len j S) as E. unfold zlen in E. rewrite E. reflexivity.
Qed.

Theorem local_cost_cat ls : zlen (prod_sums ls) = zprod (map zlen ls).
Proof.
  unfold zlen, zprod. induction ls as [|l ls IH]; [reflexivity|]. cbn [prod_sums fold_right map]. fold (prod_sums ls).
  rewrite <- IH. clear IH. induction l as [|x l IHl]; [simpl; lia|].
  cbn [flat_map length]. rewrite app_length, map_length, Nat2Z.inj_add, IHl. lia.
Qed.
