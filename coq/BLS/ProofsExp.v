From Coq Require Import ZArith List Bool Lia Permutation.
From PV Require Import Util.ListSet Util.Sumset BLS.Model BLS.Den BLS.Proofs BLS.ProofsMod.
Import ListNotations.
Open Scope Z_scope.

(* sums of n elements drawn from a list characterised through a membership predicate *)
Lemma sums_Den (D : Z -> Prop) S n x : (forall s, In s S <-> D s) ->
  ((exists m, length m = n /\ incl m S /\ zsum m = x) <-> exists ys, length ys = n /\ Forall D ys /\ x = zsum ys).
Proof.
  intros HS. split.
  - intros (m & A & B & <-). exists m. repeat split; auto. apply Forall_forall. intros y Hy. apply HS. auto.
  - intros (ys & A & B & ->). exists ys. repeat split; auto. intros y Hy. apply HS. rewrite Forall_forall in B. auto.
Qed.

Theorem oexpand_spec t : wf t -> forall x, In x (oexpand t) <-> Den t x.
Proof.
  induction t as [vs|c a IH|cs IH|c k IH|c k IH|cs IH] using op_ind'; intros Hwf x; cbn [oexpand Den].
  - apply norm_in.
  - destruct Hwf as [Hc Ha]. rewrite norm_in, in_map_iff. split.
    + intros (y & <- & Hy). exists y. split; auto. apply IH; auto.
    + intros (y & Hy & ->). exists y. split; auto. apply IH; auto.
  - destruct Hwf as [_ Hw]. rewrite norm_in, prod_sums_in. split.
    + intros (ys & F2 & ->). exists ys. split; [|reflexivity]. revert ys F2.
      induction IH as [|c cs Hc _ IHcs]; intros ys F2; simpl in *; inversion F2; subst; [exact I|].
      destruct Hw as [Hwc Hw]. split; [apply Hc; auto|auto].
    + intros (ys & Hys & ->). exists ys. split; [|reflexivity]. revert ys Hys.
      induction IH as [|c cs Hc _ IHcs]; intros [|y ys] Hys; simpl in *; try tauto; [constructor|].
      destruct Hw as [Hwc Hw]. destruct Hys as [Hy Hys]. constructor; [apply Hc; auto|auto].
  - destruct Hwf as [Hc Hk]. rewrite norm_in, cwr_sums_spec. rewrite (sums_Den (Den c)) by (intros s; apply IH; auto). split.
    + intros (ys & A & B & ->). exists ys. repeat split; auto. lia.
    + intros (ys & A & B & ->). exists ys. repeat split; auto. lia.
  - destruct Hwf as [Hc Hk]. rewrite norm_in. unfold cwr_upto. rewrite in_flat_map. split.
    + intros (j & Hj & Hx). apply in_seq in Hj. apply cwr_sums_spec in Hx.
      apply (sums_Den (Den c)) in Hx; [|intros s; apply IH; auto]. destruct Hx as (ys & A & B & ->).
      exists ys. repeat split; auto. lia.
    + intros (ys & A & B & ->). exists (length ys). split; [apply in_seq; lia|]. apply cwr_sums_spec.
      apply (sums_Den (Den c)); [intros s; apply IH; auto|]. exists ys. auto.
  - destruct Hwf as [_ Hw]. rewrite norm_in, in_flat_map, any1_exists. apply allw_Forall in Hw. rewrite Forall_forall in IH, Hw. split.
    + intros (c & Hcin & Hx). exists c. split; auto. apply IH; auto.
    + intros (c & Hcin & Hx). exists c. split; auto. apply IH; auto.
Qed.

Lemma oexpand_sorted t : ssorted (oexpand t).
Proof. destruct t; cbn [oexpand]; apply norm_sorted. Qed.

Lemma oexpand_nodup t : NoDup (oexpand t).
Proof. apply ssorted_nodup, oexpand_sorted. Qed.

(* ---------- the fast evaluators are extensionally the model ---------- *)
Lemma sumset_mod_in d A B r : In r (sumset_mod d A B) <-> exists a b, In a A /\ In b B /\ r = (a + b) mod d.
Proof.
  unfold sumset_mod. rewrite norm_in, in_flat_map. split.
  - intros (a & Ha & Hr). apply in_map_iff in Hr. destruct Hr as (b & <- & Hb). eauto.
  - intros (a & b & Ha & Hb & ->). exists a. split; auto. apply in_map_iff. eauto.
Qed.

Lemma sumset_in A B r : In r (sumset A B) <-> exists a b, In a A /\ In b B /\ r = a + b.
Proof.
  unfold sumset. rewrite norm_in, in_flat_map. split.
  - intros (a & Ha & Hr). apply in_map_iff in Hr. destruct Hr as (b & <- & Hb). eauto.
  - intros (a & b & Ha & Hb & ->). exists a. split; auto. apply in_map_iff. eauto.
Qed.

Lemma iter_sumset_mod_in d S n r : 1 <= d -> In r (iter_sumset_mod d S n) <-> ksum d S n r.
Proof.
  intros Hd. revert r. induction n as [|n IH]; intros r; cbn [iter_sumset_mod].
  - split.
    + intros [<-|[]]. exists []. repeat split. intros x [].
    + intros (m & Hl & _ & ->). destruct m; [|discriminate]. left. reflexivity.
  - rewrite sumset_mod_in. split.
    + intros (a & b & Ha & Hb & ->). apply IH in Ha. destruct Ha as (m & Hl & Hi & ->).
      exists (b :: m). simpl. repeat split; [lia| |].
      * intros y [<-|Hy]; auto.
      * fold (zsum m). rewrite Z.add_mod_idemp_l by lia. f_equal. lia.
    + intros (m & Hl & Hi & ->). destruct m as [|s m]; [discriminate|].
      exists (zsum m mod d), s. repeat split.
      * apply IH. exists m. repeat split; [simpl in Hl; lia|]. intros y Hy. apply Hi. right. exact Hy.
      * apply Hi. left. reflexivity.
      * rewrite zsum_cons. rewrite Z.add_mod_idemp_l by lia. f_equal. lia.
Qed.

Lemma iter_sumset_in S n x : In x (iter_sumset S n) <-> exists m, length m = n /\ incl m S /\ zsum m = x.
Proof.
  revert x. induction n as [|n IH]; intros x; cbn [iter_sumset].
  - split.
    + intros [<-|[]]. exists []. repeat split. intros y [].
    + intros (m & Hl & _ & <-). destruct m; [|discriminate]. left. reflexivity.
  - rewrite sumset_in. split.
    + intros (a & b & Ha & Hb & ->). apply IH in Ha. destruct Ha as (m & Hl & Hi & <-).
      exists (b :: m). simpl. repeat split; [lia| |fold (zsum m); lia].
      intros y [<-|Hy]; auto.
    + intros (m & Hl & Hi & <-). destruct m as [|s m]; [discriminate|].
      exists (zsum m), s. repeat split.
      * apply IH. exists m. repeat split; [simpl in Hl; lia|]. intros y Hy. apply Hi. right. exact Hy.
      * apply Hi. left. reflexivity.
      * rewrite zsum_cons. lia.
Qed.

Lemma ksum_ext d S S' n r : (forall s, In s S <-> In s S') -> ksum d S n r <-> ksum d S' n r.
Proof.
  intros H. split; intros (m & A & B & C); exists m; repeat split; auto; intros y Hy; apply H; auto.
Qed.

Lemma iter_sorted_mod d S n : ssorted (iter_sumset_mod d S n).
Proof. destruct n; cbn [iter_sumset_mod]; [repeat constructor|apply norm_sorted]. Qed.
Lemma iter_sorted S n : ssorted (iter_sumset S n).
Proof. destruct n; cbn [iter_sumset]; [repeat constructor|apply norm_sorted]. Qed.

Theorem omodf_eq t : wf t -> forall d, 1 <= d -> omodf t d = omod t d.
Proof.
  induction t as [vs|c a IH|cs IH|c k IH|c k IH|cs IH] using op_ind'; intros Hwf d Hd; cbn [omodf omod].
  - reflexivity.
  - destruct Hwf as [Hc Ha]. rewrite IH; auto. apply lcm_pos; auto.
  - destruct Hwf as [_ Hw].
    apply ssorted_ext; [|apply norm_sorted|].
    { destruct cs; cbn [fold_right]; [repeat constructor|apply norm_sorted]. }
    intros r. rewrite norm_in, modl_in.
    assert (forall r, In r (fold_right (fun c acc => sumset_mod d (omodf c d) acc) [0 mod d] cs) <->
                      exists ms, Forall2 (fun m l => In m l) ms (map (fun c => omod c d) cs) /\ r = zsum ms mod d) as Hfold.
    { clear r. induction IH as [|c cs Hc _ IHcs]; intros r; cbn [fold_right map].
      - split.
        + intros [<-|[]]. exists []. split; [constructor|reflexivity].
        + intros (ms & F2 & ->). inversion F2. left. reflexivity.
      - destruct Hw as [Hwc Hw]. rewrite sumset_mod_in. rewrite (Hc Hwc d Hd). split.
        + intros (a & b & Ha & Hb & ->). apply (IHcs Hw) in Hb. destruct Hb as (ms & F2 & ->).
          exists (a :: ms). split; [constructor; auto|]. rewrite zsum_cons. rewrite Z.add_mod_idemp_r by lia. reflexivity.
        + intros (ms & F2 & ->). inversion F2 as [|m ? ms' ? Hm F2']; subst.
          exists m, (zsum ms' mod d). repeat split; auto.
          * apply (IHcs Hw). eauto.
          * rewrite zsum_cons. rewrite Z.add_mod_idemp_r by lia. reflexivity. }
    rewrite Hfold. split.
    + intros (ms & F2 & ->). exists (zsum ms). split; [|reflexivity]. apply prod_sums_in. eauto.
    + intros (x & Hx & ->). apply prod_sums_in in Hx. destruct Hx as (ms & F2 & ->). eauto.
  - destruct Hwf as [Hc Hk]. rewrite IH by auto.
    apply ssorted_ext; [apply iter_sorted_mod|apply norm_sorted|]. intros r.
    rewrite iter_sumset_mod_in by auto. rewrite norm_in, cwr_mod_in. tauto.
  - destruct Hwf as [Hc Hk]. rewrite IH by auto.
    apply ssorted_ext; [apply iter_sorted_mod|apply norm_sorted|]. intros r.
    rewrite iter_sumset_mod_in by auto. rewrite norm_in, cwr_upto_in, range_as_sumset.
    apply ksum_ext. intros s. rewrite zins_in. simpl. intuition.
  - destruct Hwf as [_ Hw].
    apply ssorted_ext; [|apply norm_sorted|].
    { clear. induction cs as [|c cs IHs]; cbn [fold_right]; [constructor|apply zunion_sorted; exact IHs]. }
    intros r. rewrite norm_in, in_flat_map.
    induction IH as [|c cs Hc _ IHcs]; cbn [fold_right].
    + split; [intros []|intros (c & [] & _)].
    + destruct Hw as [Hwc Hw]. rewrite zunion_in, (IHcs Hw), (Hc Hwc d Hd). split.
      * intros [H|(c' & Hin & H)]; [exists c; split; [left; reflexivity|exact H]|exists c'; split; [right; exact Hin|exact H]].
      * intros (c' & [<-|Hin] & H); [left; exact H|right; eauto].
Qed.

Theorem oexpandf_eq t : wf t -> oexpandf t = oexpand t.
Proof.
  induction t as [vs|c a IH|cs IH|c k IH|c k IH|cs IH] using op_ind'; intros Hwf; cbn [oexpandf oexpand].
  - reflexivity.
  - destruct Hwf as [Hc Ha]. rewrite IH; auto.
  - destruct Hwf as [_ Hw].
    apply ssorted_ext; [|apply norm_sorted|].
    { destruct cs; cbn [fold_right]; [repeat constructor|apply norm_sorted]. }
    intros r. rewrite norm_in, prod_sums_in.
    revert r. induction IH as [|c cs Hc _ IHcs]; intros r; cbn [fold_right map].
    + split.
      * intros [<-|[]]. exists []. split; [constructor|reflexivity].
      * intros (ms & F2 & ->). inversion F2. left. reflexivity.
    + destruct Hw as [Hwc Hw]. rewrite sumset_in. rewrite (Hc Hwc). split.
      * intros (a & b & Ha & Hb & ->). apply (IHcs Hw) in Hb. destruct Hb as (ms & F2 & ->).
        exists (a :: ms). split; [constructor; auto|reflexivity].
      * intros (ms & F2 & ->). inversion F2 as [|m ? ms' ? Hm F2']; subst.
        exists m, (zsum ms'). repeat split; auto. apply (IHcs Hw). eauto.
  - destruct Hwf as [Hc Hk]. rewrite IH by auto.
    apply ssorted_ext; [apply iter_sorted|apply norm_sorted|]. intros r.
    rewrite iter_sumset_in, norm_in, cwr_sums_spec. tauto.
  - destruct Hwf as [Hc Hk]. rewrite IH by auto.
    apply ssorted_ext; [apply iter_sorted|apply norm_sorted|]. intros r.
    rewrite iter_sumset_in, norm_in. unfold cwr_upto. rewrite in_flat_map. split.
    + intros (m & Hl & Hi & <-). pose proof (filter_len_le (fun z => negb (z =? 0)) m) as HF.
      set (m' := filter (fun z => negb (z =? 0)) m) in *.
      exists (length m'). split; [apply in_seq; lia|].
      apply cwr_sums_spec. exists m'. repeat split.
      * intros z Hz. apply filter_In in Hz. destruct Hz as [Hz Hnz]. apply Hi in Hz. apply zins_in in Hz.
        destruct Hz as [->|Hz]; [rewrite Z.eqb_refl in Hnz; discriminate|exact Hz].
      * subst m'. clear. induction m as [|z m IHm]; [reflexivity|]. simpl. destruct (z =? 0) eqn:E; simpl.
        -- apply Z.eqb_eq in E. subst. fold (zsum m). rewrite IHm. reflexivity.
        -- fold (zsum m). fold (zsum (filter (fun z0 => negb (z0 =? 0)) m)). rewrite IHm. reflexivity.
    + intros (j & Hj & Hx). apply in_seq in Hj. apply cwr_sums_spec in Hx. destruct Hx as (m & Hl & Hi & <-).
      exists (m ++ repeat 0 (Z.to_nat k - j)). repeat split.
      * rewrite app_length, repeat_length. lia.
      * intros z Hz. apply zins_in. apply in_app_or in Hz. destruct Hz as [Hz|Hz]; [right; auto|]. apply repeat_spec in Hz. left. auto.
      * rewrite zsum_app, zsum_repeat0. lia.
  - destruct Hwf as [_ Hw].
    apply ssorted_ext; [|apply norm_sorted|].
    { clear. induction cs as [|c cs IHs]; cbn [fold_right]; [constructor|apply zunion_sorted; exact IHs]. }
    intros r. rewrite norm_in, in_flat_map.
    induction IH as [|c cs Hc _ IHcs]; cbn [fold_right].
    + split; [intros []|intros (c & [] & _)].
    + destruct Hw as [Hwc Hw]. rewrite zunion_in, (IHcs Hw), (Hc Hwc). split.
      * intros [H|(c' & Hin & H)]; [exists c; split; [left; reflexivity|exact H]|exists c'; split; [right; exact Hin|exact H]].
      * intros (c' & [<-|Hin] & H); [left; exact H|right; eauto].
Qed.

(* ---------- memoisation is transparent for every query history ---------- *)
Definition memo_inv (t : op) (m : memo) : Prop :=
  (forall v, m_min m = Some v -> v = omin t) /\ (forall v, m_max m = Some v -> v = omax t) /\
  (forall d v, assoc d (m_mods m) = Some v -> v = omod t d) /\ (forall v, m_exp m = Some v -> v = oexpand t).

Lemma memo0_inv t : memo_inv t memo0.
Proof. unfold memo_inv, memo0; simpl. repeat split; intros; discriminate. Qed.

Lemma mstep_ok t m q : memo_inv t m -> memo_inv t (fst (mstep t m q)) /\ snd (mstep t m q) = direct t q.
Proof.
  intros Hinv. pose proof Hinv as (I1 & I2 & I3 & I4). destruct q as [| |d|]; cbn [mstep direct].
  - destruct (m_min m) as [z|] eqn:E; simpl; [split; [exact Hinv|f_equal; apply I1; reflexivity]|].
    split; [|reflexivity]. repeat split; simpl; auto. intros v [= <-]. reflexivity.
  - destruct (m_max m) as [z|] eqn:E; simpl; [split; [exact Hinv|f_equal; apply I2; reflexivity]|].
    split; [|reflexivity]. repeat split; simpl; auto. intros v [= <-]. reflexivity.
  - destruct (assoc d (m_mods m)) as [z|] eqn:E; simpl; [split; [exact Hinv|f_equal; apply (I3 d); exact E]|].
    split; [|reflexivity]. repeat split; simpl; auto. intros d' v. destruct (d =? d') eqn:Ed.
    + apply Z.eqb_eq in Ed. subst. intros [= <-]. reflexivity.
    + apply I3.
  - destruct (m_exp m) as [z|] eqn:E; simpl; [split; [exact Hinv|f_equal; apply I4; reflexivity]|].
    split; [|reflexivity]. repeat split; simpl; auto. intros v [= <-]. reflexivity.
Qed.

Theorem memo_transparent t qs : mrun t memo0 qs = map (direct t) qs.
Proof.
  assert (forall m, memo_inv t m -> mrun t m qs = map (direct t) qs) as H; [|apply H, memo0_inv].
  induction qs as [|q qs IH]; intros m Hm; cbn [mrun map]; [reflexivity|].
  destruct (mstep_ok t m q Hm) as [Hinv Hans]. destruct (mstep t m q) as [m' a]. simpl in *. rewrite Hans. f_equal. apply IH. exact Hinv.
Qed.

(* approximate equality never separates equal sets; the hash agrees *)
Theorem approx_eq_complete a b : wf a -> wf b -> (forall x, Den a x <-> Den b x) -> approx_eq a b = true /\ bls_hash a = bls_hash b.
Proof.
  intros Ha Hb H.
  destruct (omin_ok a Ha) as [A1 A2]. destruct (omin_ok b Hb) as [B1 B2].
  destruct (omax_ok a Ha) as [A3 A4]. destruct (omax_ok b Hb) as [B3 B4].
  assert (omin a = omin b) as Emin.
  { pose proof (A2 _ (proj2 (H _) B1)). pose proof (B2 _ (proj1 (H _) A1)). lia. }
  assert (omax a = omax b) as Emax.
  { pose proof (A4 _ (proj2 (H _) B3)). pose proof (B4 _ (proj1 (H _) A3)). lia. }
  split; [|unfold bls_hash; congruence].
  unfold approx_eq. rewrite Emin, Emax, !Z.eqb_refl. simpl. apply list_eqb_eq.
  apply ssorted_ext; try apply omod_sorted. intros r.
  rewrite (omod_spec a Ha 32 ltac:(lia)), (omod_spec b Hb 32 ltac:(lia)).
  split; intros (x & Hx & ->); exists x; split; auto; apply H; auto.
Qed.

Lemma wfb_wf t : wfb t = true -> wf t.
Proof.
  induction t as [vs|c a IH|cs IH|c k IH|c k IH|cs IH] using op_ind'; cbn [wfb wf]; intros H.
  - apply andb_true_iff in H. destruct H as [H1 H2]. split; [destruct vs; [discriminate|congruence]|].
    apply Forall_forall. intros v Hv. rewrite forallb_forall in H2. specialize (H2 v Hv). lia.
  - apply andb_true_iff in H. destruct H as [H1 H2]. split; [auto|lia].
  - apply andb_true_iff in H. destruct H as [H1 H2]. split; [destruct cs; [discriminate|congruence]|].
    apply allw_Forall. rewrite Forall_forall in *. rewrite forallb_forall in H2. auto.
  - apply andb_true_iff in H. destruct H as [H1 H2]. split; [auto|lia].
  - apply andb_true_iff in H. destruct H as [H1 H2]. split; [auto|lia].
  - apply andb_true_iff in H. destruct H as [H1 H2]. split; [destruct cs; [discriminate|congruence]|].
    apply allw_Forall. rewrite Forall_forall in *. rewrite forallb_forall in H2. auto.
Qed.
