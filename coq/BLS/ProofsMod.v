From Coq Require Import ZArith List Bool Lia Permutation.
From PV Require Import Util.ListSet Util.Sumset BLS.Model BLS.Den BLS.Proofs.
Import ListNotations.
Open Scope Z_scope.

Lemma modl_in d l r : In r (modl d l) <-> exists x, In x l /\ r = x mod d.
Proof. unfold modl. rewrite in_map_iff. split; intros (x & A & B); exists x; auto. Qed.

Lemma prod_sums_in ls s : In s (prod_sums ls) <-> exists ys, Forall2 (fun y l => In y l) ys ls /\ s = zsum ys.
Proof.
  revert s. induction ls as [|l ls IH]; intros s; simpl.
  - split.
    + intros [<-|[]]. exists []. split; [constructor|reflexivity].
    + intros (ys & H & ->). inversion H. left. reflexivity.
  - fold (prod_sums ls). rewrite in_flat_map. split.
    + intros (x & Hx & Hs). apply in_map_iff in Hs. destruct Hs as (s' & <- & Hs'). apply IH in Hs'.
      destruct Hs' as (ys & Hys & ->). exists (x :: ys). split; [constructor; auto|reflexivity].
    + intros (ys & Hys & ->). inversion Hys as [|y ? ys' ? Hy Hys']; subst. exists y. split; auto.
      apply in_map_iff. exists (zsum ys'). split; [reflexivity|]. apply IH. eauto.
Qed.

Lemma F2_length {A B} (R : A -> B -> Prop) l1 l2 : Forall2 R l1 l2 -> length l1 = length l2.
Proof. induction 1; simpl; congruence. Qed.

Lemma zsum_mod_F2 d ys ms : 1 <= d -> Forall2 (fun y m => m mod d = y mod d) ys ms -> zsum ms mod d = zsum ys mod d.
Proof.
  intros Hd H. induction H as [|y m ys ms E _ IH]; [reflexivity|]. rewrite !zsum_cons.
  rewrite (Z.add_mod m), (Z.add_mod y) by lia. rewrite E, IH. reflexivity.
Qed.

(* characterisation of a child's residue list, as delivered by the induction hypothesis *)
Definition res_ok (D : Z -> Prop) (d : Z) (S : list Z) : Prop := forall s, In s S <-> exists x, D x /\ s = x mod d.

Lemma ksum_Den (D : Z -> Prop) d S n r : 1 <= d -> res_ok D d S ->
  (ksum d S n r <-> exists ys, length ys = n /\ Forall D ys /\ r = zsum ys mod d).
Proof.
  intros Hd HS. split.
  - intros (m & Hl & Hi & ->).
    assert (exists ys, Forall2 (fun y s => s mod d = y mod d) ys m /\ Forall D ys) as (ys & F2 & FD).
    { clear Hl. induction m as [|s m IH]; [exists []; split; constructor|].
      destruct IH as (ys & A & B); [intros z Hz; apply Hi; right; exact Hz|].
      destruct (proj1 (HS s) (Hi s (or_introl eq_refl))) as (x & Hx & E).
      exists (x :: ys). split; constructor; auto. rewrite E. apply Z.mod_mod. lia. }
    exists ys. repeat split; auto.
    + rewrite <- Hl. eapply F2_length; eauto.
    + apply zsum_mod_F2; auto.
  - intros (ys & Hl & FD & ->). exists (map (fun y => y mod d) ys). rewrite map_length. repeat split; auto.
    + intros s Hs. apply in_map_iff in Hs. destruct Hs as (y & <- & Hy). apply HS. exists y. split; auto.
      rewrite Forall_forall in FD. auto.
    + symmetry. apply zsum_mod_F2; auto. clear Hl FD. induction ys; simpl; constructor; auto. apply Z.mod_mod. lia.
Qed.

Lemma filter_len_le {A} (f : A -> bool) l : (length (filter f l) <= length l)%nat.
Proof. induction l as [|x l IH]; simpl; [lia|]. destruct (f x); simpl; lia. Qed.

Lemma zsum_repeat0 n : zsum (repeat 0 n) = 0.
Proof. rewrite zsum_repeat. lia. Qed.

Lemma range_as_sumset d S K r :
  (exists j, (j <= K)%nat /\ ksum d S j r) <-> ksum d (0 :: S) K r.
Proof.
  split.
  - intros (j & Hj & m & Hl & Hi & ->). exists (m ++ repeat 0 (K - j)). repeat split.
    + rewrite app_length, repeat_length. lia.
    + intros z Hz. apply in_app_or in Hz. destruct Hz as [Hz|Hz]; [right; auto|]. apply repeat_spec in Hz. left. auto.
    + rewrite zsum_app, zsum_repeat0. f_equal. lia.
  - intros (m & Hl & Hi & ->).
    exists (length (filter (fun z => negb (z =? 0)) m)). split.
    + rewrite <- Hl. apply filter_len_le.
    + exists (filter (fun z => negb (z =? 0)) m). repeat split.
      * intros z Hz. apply filter_In in Hz. destruct Hz as [Hz Hnz]. destruct (Hi z Hz) as [E|E]; [|exact E].
        subst. rewrite Z.eqb_refl in Hnz. discriminate.
      * f_equal. clear. induction m as [|z m IH]; [reflexivity|]. simpl. destruct (z =? 0) eqn:E; simpl.
        -- apply Z.eqb_eq in E. subst. fold (zsum m). rewrite IH. reflexivity.
        -- fold (zsum m). fold (zsum (filter (fun z0 => negb (z0 =? 0)) m)). rewrite IH. reflexivity.
Qed.

Lemma cwr_upto_in d S n r :
  In r (modl d (cwr_upto S n)) <-> exists j, (j <= n)%nat /\ ksum d S j r.
Proof.
  rewrite modl_in. unfold cwr_upto. split.
  - intros (x & Hx & ->). apply in_flat_map in Hx. destruct Hx as (j & Hj & Hx). apply in_seq in Hj.
    apply cwr_sums_spec in Hx. destruct Hx as (m & A & B & <-). exists j. split; [lia|]. exists m. auto.
  - intros (j & Hj & m & A & B & ->). exists (zsum m). split; [|reflexivity]. apply in_flat_map. exists j. split.
    + apply in_seq. lia.
    + apply cwr_sums_spec. eauto.
Qed.

Lemma cwr_mod_in d S n r : In r (modl d (cwr_sums S n)) <-> ksum d S n r.
Proof.
  rewrite modl_in. split.
  - intros (x & Hx & ->). apply cwr_sums_spec in Hx. destruct Hx as (m & A & B & <-). exists m. auto.
  - intros (m & A & B & ->). exists (zsum m). split; [|reflexivity]. apply cwr_sums_spec. eauto.
Qed.

(* the reduction of the repetition count is sound: this is the number-theoretic heart of the solver *)
Lemma ksum_equiv_k d S k r : 1 <= d -> 0 <= k -> S <> [] ->
  (ksum d S (Z.to_nat (equiv_k k d)) r <-> ksum d S (Z.to_nat k) r).
Proof.
  intros Hd Hk HS. destruct S as [|s0 S']; [congruence|]. set (S := s0 :: S').
  destruct (equiv_k_ok d k ltac:(lia) Hk) as [E|(A & B & C)]; fold (equiv_k k d) in *.
  - rewrite E. tauto.
  - split; apply (sumset_reduce d ltac:(lia) S s0 (or_introl eq_refl)); try lia; rewrite !Z2Nat.id by lia; auto.
Qed.

Lemma ksum_range_equiv_k d S k r : 1 <= d -> 0 <= k ->
  (ksum d (0 :: S) (Z.to_nat (equiv_k k d)) r <-> ksum d (0 :: S) (Z.to_nat k) r).
Proof.
  intros Hd Hk.
  destruct (equiv_k_ok d k ltac:(lia) Hk) as [E|(A & B & C)]; fold (equiv_k k d) in *.
  - rewrite E. tauto.
  - split; apply (ksum_stable d ltac:(lia) (0 :: S) (or_introl eq_refl)); lia.
Qed.

Definition mod_ok (t : op) : Prop :=
  forall d, 1 <= d -> forall r, In r (omod t d) <-> exists x, Den t x /\ r = x mod d.

Lemma res_nonempty t d : wf t -> 1 <= d -> mod_ok t -> omod t d <> [].
Proof.
  intros Hwf Hd H. destruct (Den_nonempty t Hwf) as (x & Hx).
  intros E. assert (In (x mod d) (omod t d)) as Hin by (apply H; eauto). rewrite E in Hin. destruct Hin.
Qed.

Theorem omod_spec t : wf t -> mod_ok t.
Proof.
  unfold mod_ok.
  induction t as [vs|c a IH|cs IH|c k IH|c k IH|cs IH] using op_ind'; intros Hwf d Hd r; cbn [omod Den].
  - rewrite norm_in, modl_in. tauto.
  - destruct Hwf as [Hc Ha]. rewrite norm_in, in_map_iff. pose proof (lcm_pos a d Ha Hd) as HL. split.
    + intros (s & <- & Hs). apply (IH Hc _ HL) in Hs. destruct Hs as (x & Hx & ->).
      exists (pad a x). split; [eauto|]. apply pad_mod_lcm; auto. eapply Den_nonneg; eauto.
    + intros (x & (y & Hy & ->) & ->). exists (y mod Z.lcm a d). split.
      * apply pad_mod_lcm; auto. eapply Den_nonneg; eauto.
      * apply (IH Hc _ HL). eauto.
  - destruct Hwf as [_ Hw]. rewrite norm_in, modl_in. split.
    + intros (s & Hs & ->). apply prod_sums_in in Hs. destruct Hs as (ms & F2 & ->).
      assert (exists ys, all2 Den cs ys /\ Forall2 (fun y m => m mod d = y mod d) ys ms) as (ys & A & B).
      { revert ms F2. induction IH as [|c cs Hc _ IHcs]; intros ms F2; simpl in *.
        - inversion F2; subst. exists []. split; [exact I|constructor].
        - inversion F2 as [|m ? ms' ? Hm F2']; subst. destruct Hw as [Hwc Hw].
          destruct (IHcs Hw ms' F2') as (ys & A & B).
          apply (Hc Hwc d Hd) in Hm. destruct Hm as (x & Hx & ->).
          exists (x :: ys). split; [split; auto|constructor; auto]. apply Z.mod_mod. lia. }
      exists (zsum ys). split; [eauto|]. apply zsum_mod_F2; auto.
    + intros (x & (ys & Hys & ->) & ->).
      exists (zsum (map (fun y => y mod d) ys)). split.
      * apply prod_sums_in. exists (map (fun y => y mod d) ys). split; [|reflexivity].
        revert ys Hys. induction IH as [|c cs Hc _ IHcs]; intros [|y ys] Hys; simpl in *; try tauto; [constructor|].
        destruct Hw as [Hwc Hw]. destruct Hys as [Hy Hys]. constructor; auto. apply (Hc Hwc d Hd). eauto.
      * symmetry. apply zsum_mod_F2; auto. clear - Hd. induction ys; simpl; constructor; auto. apply Z.mod_mod. lia.
  - destruct Hwf as [Hc Hk]. rewrite norm_in, cwr_mod_in.
    assert (omod c d <> []) as Hne by (apply res_nonempty; auto; exact (IH Hc)).
    rewrite (ksum_equiv_k d _ k r Hd Hk Hne).
    rewrite (ksum_Den (Den c) d (omod c d) _ r Hd (IH Hc d Hd)). split.
    + intros (ys & A & B & ->). exists (zsum ys). split; [|reflexivity]. exists ys. repeat split; auto. lia.
    + intros (x & (ys & A & B & ->) & ->). exists ys. repeat split; auto. lia.
  - destruct Hwf as [Hc Hk]. rewrite norm_in, cwr_upto_in, range_as_sumset.
    rewrite ksum_range_equiv_k by auto. rewrite <- range_as_sumset. split.
    + intros (j & Hj & Hks). apply (ksum_Den (Den c) d (omod c d) _ r Hd (IH Hc d Hd)) in Hks.
      destruct Hks as (ys & A & B & ->). exists (zsum ys). split; [|reflexivity]. exists ys. repeat split; auto. lia.
    + intros (x & (ys & A & B & ->) & ->). exists (length ys). split; [lia|].
      apply (ksum_Den (Den c) d (omod c d) _ _ Hd (IH Hc d Hd)). exists ys. auto.
  - destruct Hwf as [_ Hw]. rewrite norm_in, in_flat_map. apply allw_Forall in Hw. rewrite Forall_forall in IH, Hw. split.
    + intros (c & Hcin & Hr). apply (IH c Hcin (Hw c Hcin) d Hd) in Hr. destruct Hr as (x & Hx & ->).
      exists x. split; [|reflexivity]. apply any1_exists. eauto.
    + intros (x & Hx & ->). apply any1_exists in Hx. destruct Hx as (c & Hcin & Hx). exists c. split; auto.
      apply (IH c Hcin (Hw c Hcin) d Hd). eauto.
Qed.

Lemma omod_sorted t d : ssorted (omod t d).
Proof. destruct t; cbn [omod]; apply norm_sorted. Qed.

Lemma omod_range t d r : wf t -> 1 <= d -> In r (omod t d) -> 0 <= r < d.
Proof. intros Hwf Hd H. apply (omod_spec t Hwf d Hd) in H. destruct H as (x & _ & ->). apply Z.mod_pos_bound. lia. Qed.

Lemma is_aligned_spec t d : wf t -> 1 <= d -> (is_aligned t d = true <-> forall x, Den t x -> (d | x)).
Proof.
  intros Hwf Hd. unfold is_aligned. rewrite list_eqb_eq. split.
  - intros E x Hx. assert (In (x mod d) (omod t d)) as Hin by (apply omod_spec; eauto).
    rewrite E in Hin. destruct Hin as [Hin|[]]. apply Z.mod_divide; lia.
  - intros H. apply ssorted_ext; [apply omod_sorted|repeat constructor|]. intros r. split.
    + intros Hr. apply (omod_spec t Hwf d Hd) in Hr. destruct Hr as (x & Hx & ->). left. symmetry. apply Z.mod_divide; [lia|auto].
    + intros [<-|[]]. destruct (Den_nonempty t Hwf) as (x & Hx). apply (omod_spec t Hwf d Hd). exists x. split; auto.
      symmetry. apply Z.mod_divide; [lia|auto].
Qed.

(* the internal assertions of PaddingOperator.modulo and of the k-reduction can never fire *)
Lemma pad_assert_ok c a d x : wf c -> 1 <= a -> 1 <= d -> In x (omod c (Z.lcm a d)) -> x <= omax (Pad c a) /\ x < Z.lcm a d.
Proof.
  intros Hc Ha Hd Hx. pose proof (lcm_pos a d Ha Hd) as HL.
  pose proof (omod_range c _ x Hc HL Hx) as R. split; [|lia].
  apply (omod_spec c Hc _ HL) in Hx. destruct Hx as (y & Hy & ->).
  destruct (omax_ok c Hc) as [_ Hle]. specialize (Hle y Hy). pose proof (Den_nonneg c Hc y Hy).
  cbn [omax]. pose proof (pad_ge a (omax c) Ha). pose proof (Z.mod_le y (Z.lcm a d) ltac:(lia) ltac:(lia)). lia.
Qed.

Lemma equiv_k_assert_ok k d : 1 <= d -> 0 <= k -> k mod d = equiv_k k d mod d.
Proof.
  intros Hd Hk. destruct (equiv_k_ok d k ltac:(lia) Hk) as [E|(A & B & C)]; fold (equiv_k k d) in *; congruence.
Qed.
