(* The mathematically defined set of an operator tree, written without reference to the algorithms. *)
From Coq Require Import ZArith List Bool Lia.
From PV Require Import Util.ListSet Util.Sumset BLS.Model.
Import ListNotations.
Open Scope Z_scope.

Section All2.
Variable D : op -> Z -> Prop.
Fixpoint all2 (cs : list op) (ys : list Z) : Prop :=
  match cs, ys with
  | [], [] => True
  | c :: cs', y :: ys' => D c y /\ all2 cs' ys'
  | _, _ => False
  end.
Fixpoint any1 (cs : list op) (x : Z) : Prop :=
  match cs with [] => False | c :: cs' => D c x \/ any1 cs' x end.
End All2.

(* Den t x : x is an element of the set denoted by t:
   leaf = the given values; padding = each element rounded up; concatenation = element-wise sums over the
   cartesian product; repetition = sums of k elements; range repetition = sums of at most k elements; union. *)
Fixpoint Den (t : op) (x : Z) {struct t} : Prop :=
  match t with
  | Leaf vs => In x vs
  | Pad c a => exists y, Den c y /\ x = pad a y
  | Cat cs => exists ys, all2 Den cs ys /\ x = zsum ys
  | Rep c k => exists ys, Z.of_nat (length ys) = k /\ Forall (Den c) ys /\ x = zsum ys
  | RRep c k => exists ys, Z.of_nat (length ys) <= k /\ Forall (Den c) ys /\ x = zsum ys
  | Uni cs => any1 Den cs x
  end.

Section Wf.
Variable W : op -> Prop.
Fixpoint allw (cs : list op) : Prop := match cs with [] => True | c :: r => W c /\ allw r end.
End Wf.

Fixpoint wf (t : op) : Prop :=
  match t with
  | Leaf vs => vs <> [] /\ Forall (fun v => 0 <= v) vs
  | Pad c a => wf c /\ 1 <= a
  | Cat cs => cs <> [] /\ allw wf cs
  | Rep c k | RRep c k => wf c /\ 0 <= k
  | Uni cs => cs <> [] /\ allw wf cs
  end.

Section Ind.
Variable P : op -> Prop.
Hypothesis HLeaf : forall vs, P (Leaf vs).
Hypothesis HPad : forall c a, P c -> P (Pad c a).
Hypothesis HCat : forall cs, Forall P cs -> P (Cat cs).
Hypothesis HRep : forall c k, P c -> P (Rep c k).
Hypothesis HRRep : forall c k, P c -> P (RRep c k).
Hypothesis HUni : forall cs, Forall P cs -> P (Uni cs).
Fixpoint op_ind' (t : op) : P t :=
  match t with
  | Leaf vs => HLeaf vs
  | Pad c a => HPad c a (op_ind' c)
  | Cat cs => HCat cs ((fix go (l : list op) : Forall P l := match l with [] => Forall_nil P | c :: r => Forall_cons c (op_ind' c) (go r) end) cs)
  | Rep c k => HRep c k (op_ind' c)
  | RRep c k => HRRep c k (op_ind' c)
  | Uni cs => HUni cs ((fix go (l : list op) : Forall P l := match l with [] => Forall_nil P | c :: r => Forall_cons c (op_ind' c) (go r) end) cs)
  end.
End Ind.

Lemma allw_Forall W cs : allw W cs <-> Forall W cs.
Proof. induction cs as [|c r IH]; simpl; split; intros H; auto. - destruct H; constructor; tauto. - inversion H; subst; tauto. Qed.
