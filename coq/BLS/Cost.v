(* Cost semantics of the analytic solver: how many tuples / multisets Operator.modulo enumerates. Definitions only. *)
From Coq Require Import ZArith List Bool.
From PV Require Import Util.ListSet Util.Sumset BLS.Model.
Import ListNotations.
Open Scope Z_scope.

(* number of multisets of size n over s symbols = len(list(combinations_with_replacement(range(s), n))) *)
Fixpoint mchoose (s n : nat) : Z :=
  match n with
  | O => 1
  | S n' => (fix go (s : nat) : Z := match s with O => 0 | S s' => mchoose (S s') n' + go s' end) s
  end.

Definition mchoose_upto (s n : nat) : Z := fold_right Z.add 0 (map (mchoose s) (seq 0 (S n))).

Definition zlen (l : list Z) : Z := Z.of_nat (length l).
Definition zprod (l : list Z) : Z := fold_right Z.mul 1 l.

(* local enumeration of one modulo() call, as a function of the sizes of the children's residue sets *)
Inductive okind := KLeaf | KPad | KCat | KRep | KRRep | KUni.
Definition local_cost (kd : okind) (child_sizes : list Z) (k d : Z) : Z :=
  match kd with
  | KLeaf => 0
  | KPad => 0   (* iterates over the child residues (at most lcm(alignment, divisor) of them) without itertools *)
  | KCat => zprod child_sizes
  | KRep => mchoose (Z.to_nat (zsum child_sizes)) (Z.to_nat (equiv_k k d))
  | KRRep => mchoose_upto (Z.to_nat (zsum child_sizes)) (Z.to_nat (equiv_k k d))
  | KUni => 0
  end.

(* total enumeration of modulo(d) on a tree without any memoisation (an upper bound for the memoised implementation) *)
Fixpoint cost_mod (t : op) (d : Z) {struct t} : Z :=
  match t with
  | Leaf vs => 0
  | Pad c a => cost_mod c (Z.lcm a d) + zlen (omod c (Z.lcm a d))
  | Cat cs => zsum (map (fun c => cost_mod c d) cs) + zprod (map (fun c => zlen (omod c d)) cs)
  | Rep c k => cost_mod c d + mchoose (length (omod c d)) (Z.to_nat (equiv_k k d))
  | RRep c k => cost_mod c d + mchoose_upto (length (omod c d)) (Z.to_nat (equiv_k k d))
  | Uni cs => zsum (map (fun c => cost_mod c d) cs)
  end.

(* the same with the fast residue evaluator (used by the generated case files) *)
Fixpoint cost_modf (t : op) (d : Z) {struct t} : Z :=
  match t with
  | Leaf vs => 0
  | Pad c a => cost_modf c (Z.lcm a d) + zlen (omodf c (Z.lcm a d))
  | Cat cs => zsum (map (fun c => cost_modf c d) cs) + zprod (map (fun c => zlen (omodf c d)) cs)
  | Rep c k => cost_modf c d + mchoose (length (omodf c d)) (Z.to_nat (equiv_k k d))
  | RRep c k => cost_modf c d + mchoose_upto (length (omodf c d)) (Z.to_nat (equiv_k k d))
  | Uni cs => zsum (map (fun c => cost_modf c d) cs)
  end.
