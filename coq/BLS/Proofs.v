From Coq Require Import ZArith List Bool Lia Permutation.
From PV Require Import Util.ListSet Util.Sumset BLS.Model BLS.Den.
Import ListNotations.
Open Scope Z_scope.

(* ---------- padding ---------- *)
Lemma pad_ge a x : 1 <= a -> x <= pad a x.
Proof. intros Ha. unfold pad. pose proof (Z.div_mod (x + a - 1) a ltac:(lia)). pose proof (Z.mod_pos_bound (x + a - 1) a ltac:(lia)). nia. Qed.

Lemma pad_lt a x : 1 <= a -> pad a x < x + a.
Proof. intros Ha. unfold pad. pose proof (Z.div_mod (x + a - 1) a ltac:(lia)). pose proof (Z.mod_pos_bound (x + a - 1) a ltac:(lia)). nia. Qed.

Lemma pad_mono a x y : 1 <= a -> x <= y -> pad a x <= pad a y.
Proof. intros Ha H. unfold pad. apply Z.mul_le_mono_nonneg_r; [lia|]. apply Z.div_le_mono; lia. Qed.

Lemma pad_divide a x : (a | pad a x).
Proof. unfold pad. apply Z.divide_factor_r. Qed.

Lemma pad_mod_lcm a d x : 1 <= a -> 1 <= d -> 0 <= x ->
  pad a (x mod Z.lcm a d) mod d = pad a x mod d.
Proof.
  intros Ha Hd Hx. set (L := Z.lcm a d).
  assert (0 < L) as HL.
  { pose proof (Z.lcm_nonneg a d). assert (L <> 0); [|lia]. unfold L. intros E. apply Z.lcm_eq_0 in E. lia. }
  destruct (Z.divide_lcm_l a d) as [qa Hqa]. fold L in Hqa.
  destruct (Z.divide_lcm_r a d) as [qd Hqd]. fold L in Hqd.
  rewrite (Z.div_mod x L) at 2 by lia.
  set (q := x / L). set (r := x mod L).
  unfold pad.
  replace (L * q + r + a - 1) with ((r + a - 1) + (q * qa) * a) by (rewrite Hqa; ring).
  rewrite Z.div_add by lia.
  assert (q * qa * a = q * qd * d) as E by (rewrite <- !Z.mul_assoc, <- Hqa, <- Hqd; reflexivity).
  replace (((r + a - 1) / a + q * qa) * a) with ((r + a - 1) / a * a + (q * qd) * d) by (rewrite Z.mul_add_distr_r; lia).
  rewrite Z.mod_add by lia. reflexivity.
Qed.

Lemma lcm_pos a d : 1 <= a -> 1 <= d -> 1 <= Z.lcm a d.
Proof.
  intros Ha Hd. pose proof (Z.lcm_nonneg a d). assert (Z.lcm a d <> 0); [|lia]. intros E. apply Z.lcm_eq_0 in E. lia.
Qed.

(* ---------- list helpers ---------- *)
Lemma all2_Forall2 (D : op -> Z -> Prop) cs ys : all2 D cs ys <-> Forall2 D cs ys.
Proof.
  revert ys; induction cs as [|c cs IH]; intros [|y ys]; simpl.
  - split; auto.
  - split; [tauto|]. intros H; inversion H.
  - split; [tauto|]. intros H; inversion H.
  - rewrite IH. split; [intros [H1 H2]; constructor; auto|]. intros H; inversion H; subst; auto.
Qed.

Lemma zsum_repeat v n : zsum (repeat v n) = v * Z.of_nat n.
Proof. induction n as [|n IH]; [simpl; lia|]. cbn [repeat zsum fold_right]. fold (zsum (repeat v n)). rewrite IH. lia. Qed.

Lemma zsum_cons x l : zsum (x :: l) = x + zsum l. Proof. reflexivity. Qed.

Lemma zsum_lower (P : Z -> Prop) m ys : (forall y, P y -> m <= y) -> Forall P ys -> m * Z.of_nat (length ys) <= zsum ys.
Proof. intros Hm H. induction H as [|y ys Hy _ IH]; [simpl; lia|]. rewrite zsum_cons. cbn [length]. specialize (Hm _ Hy). lia. Qed.

Lemma zsum_upper (P : Z -> Prop) m ys : (forall y, P y -> y <= m) -> Forall P ys -> zsum ys <= m * Z.of_nat (length ys).
Proof. intros Hm H. induction H as [|y ys Hy _ IH]; [simpl; lia|]. rewrite zsum_cons. cbn [length]. specialize (Hm _ Hy). lia. Qed.

Lemma zsum_nonneg ys : Forall (fun y => 0 <= y) ys -> 0 <= zsum ys.
Proof. induction 1; [simpl; lia|]. rewrite zsum_cons. lia. Qed.

Lemma zmin_list_spec l : l <> [] -> In (zmin_list l) l /\ forall x, In x l -> zmin_list l <= x.
Proof.
  destruct l as [|m ms]; [congruence|]. intros _. unfold zmin_list. revert m. induction ms as [|y ys IH]; intros m; simpl.
  - split; [auto|]. intros x [<-|[]]. lia.
  - destruct (IH m) as [Hin Hle]. split.
    + destruct (Z.min_spec y (fold_right Z.min m ys)) as [[_ ->]|[_ ->]]; [auto|].
      destruct Hin as [E|Hin]; [left; exact E|right; right; exact Hin].
    + intros x [<-|[<-|Hx]].
      * specialize (Hle m (or_introl eq_refl)). lia.
      * lia.
      * specialize (Hle x (or_intror Hx)). lia.
Qed.

Lemma zmax_list_spec l : l <> [] -> In (zmax_list l) l /\ forall x, In x l -> x <= zmax_list l.
Proof.
  destruct l as [|m ms]; [congruence|]. intros _. unfold zmax_list. revert m. induction ms as [|y ys IH]; intros m; simpl.
  - split; [auto|]. intros x [<-|[]]. lia.
  - destruct (IH m) as [Hin Hle]. split.
    + destruct (Z.max_spec y (fold_right Z.max m ys)) as [[_ ->]|[_ ->]]; [|auto].
      destruct Hin as [E|Hin]; [left; exact E|right; right; exact Hin].
    + intros x [<-|[<-|Hx]].
      * specialize (Hle m (or_introl eq_refl)). lia.
      * lia.
      * specialize (Hle x (or_intror Hx)). lia.
Qed.

(* ---------- non-negativity ---------- *)
Lemma Den_nonneg t : wf t -> forall x, Den t x -> 0 <= x.
Proof.
  induction t as [vs|c a IH|cs IH|c k IH|c k IH|cs IH] using op_ind'; simpl; intros Hwf x Hx.
  - destruct Hwf as [_ Hf]. rewrite Forall_forall in Hf. auto.
  - destruct Hwf as [Hc Ha]. destruct Hx as (y & Hy & ->). specialize (IH Hc y Hy). pose proof (pad_ge a y Ha). lia.
  - destruct Hwf as [_ Hw]. destruct Hx as (ys & Hys & ->). apply zsum_nonneg.
    revert ys Hys. induction IH as [|c cs Hc _ IHcs]; intros [|y ys] Hys; simpl in *; try tauto; [constructor|].
    destruct Hw as [Hwc Hw]. destruct Hys as [Hy Hys]. constructor; auto.
  - destruct Hwf as [Hc Hk]. destruct Hx as (ys & _ & Hys & ->). apply zsum_nonneg. eapply Forall_impl; [|exact Hys]. auto.
  - destruct Hwf as [Hc Hk]. destruct Hx as (ys & _ & Hys & ->). apply zsum_nonneg. eapply Forall_impl; [|exact Hys]. auto.
  - destruct Hwf as [_ Hw]. induction IH as [|c cs Hc _ IHcs]; simpl in *; [tauto|].
    destruct Hw as [Hwc Hw]. destruct Hx as [Hx|Hx]; auto.
Qed.

(* ---------- min / max ---------- *)
Definition min_ok (t : op) := Den t (omin t) /\ forall x, Den t x -> omin t <= x.
Definition max_ok (t : op) := Den t (omax t) /\ forall x, Den t x -> x <= omax t.

Lemma any1_exists (D : op -> Z -> Prop) cs x : any1 D cs x <-> exists c, In c cs /\ D c x.
Proof.
  induction cs as [|c cs IH]; simpl; [firstorder|]. rewrite IH. split.
  - intros [H|(c' & Hin & H)]; eauto.
  - intros (c' & [<-|Hin] & H); eauto.
Qed.

Lemma omin_ok t : wf t -> min_ok t.
Proof.
  unfold min_ok.
  induction t as [vs|c a IH|cs IH|c k IH|c k IH|cs IH] using op_ind'; simpl; intros Hwf.
  - destruct Hwf as [Hne _]. apply zmin_list_spec. exact Hne.
  - destruct Hwf as [Hc Ha]. destruct (IH Hc) as [H1 H2]. split; [eauto|].
    intros x (y & Hy & ->). apply pad_mono; auto.
  - destruct Hwf as [_ Hw]. split.
    + exists (map omin cs). split; [|reflexivity].
      induction IH as [|c cs Hc _ IHcs]; simpl in *; [exact I|]. destruct Hw as [Hwc Hw]. split; [apply Hc; auto|auto].
    + intros x (ys & Hys & ->). revert ys Hys.
      induction IH as [|c cs Hc _ IHcs]; intros [|y ys] Hys; simpl in *; try tauto; [lia|].
      destruct Hw as [Hwc Hw]. destruct Hys as [Hy Hys]. fold (zsum ys). fold (zsum (map omin cs)).
      specialize (IHcs Hw ys Hys). destruct (Hc Hwc) as [_ Hle]. specialize (Hle y Hy). lia.
  - destruct Hwf as [Hc Hk]. destruct (IH Hc) as [H1 H2]. split.
    + exists (repeat (omin c) (Z.to_nat k)). rewrite repeat_length, zsum_repeat. repeat split; [lia| |f_equal; lia].
      apply Forall_forall. intros y Hy. apply repeat_spec in Hy. subst. exact H1.
    + intros x (ys & Hl & Hys & ->). rewrite <- Hl. apply (zsum_lower (Den c)); auto.
  - destruct Hwf as [Hc Hk]. split.
    + exists []. simpl. repeat split; [lia|constructor].
    + intros x Hx. apply (Den_nonneg (RRep c k)); simpl; auto.
  - destruct Hwf as [Hne Hw].
    assert (map omin cs <> []) as Hne' by (destruct cs; simpl; congruence).
    destruct (zmin_list_spec _ Hne') as [Hin Hle]. rewrite Forall_forall in IH. apply allw_Forall in Hw. rewrite Forall_forall in Hw.
    split.
    + apply in_map_iff in Hin. destruct Hin as (c & Hc & Hcin). apply any1_exists. exists c. split; auto.
      rewrite <- Hc. apply IH; auto.
    + intros x Hx. apply any1_exists in Hx. destruct Hx as (c & Hcin & Hx).
      destruct (IH c Hcin (Hw c Hcin)) as [_ H2]. specialize (H2 x Hx).
      specialize (Hle (omin c) (in_map omin cs c Hcin)). lia.
Qed.

Lemma omax_ok t : wf t -> max_ok t.
Proof.
  unfold max_ok.
  induction t as [vs|c a IH|cs IH|c k IH|c k IH|cs IH] using op_ind'; simpl; intros Hwf.
  - destruct Hwf as [Hne _]. apply zmax_list_spec. exact Hne.
  - destruct Hwf as [Hc Ha]. destruct (IH Hc) as [H1 H2]. split; [eauto|].
    intros x (y & Hy & ->). apply pad_mono; auto.
  - destruct Hwf as [_ Hw]. split.
    + exists (map omax cs). split; [|reflexivity].
      induction IH as [|c cs Hc _ IHcs]; simpl in *; [exact I|]. destruct Hw as [Hwc Hw]. split; [apply Hc; auto|auto].
    + intros x (ys & Hys & ->). revert ys Hys.
      induction IH as [|c cs Hc _ IHcs]; intros [|y ys] Hys; simpl in *; try tauto; [lia|].
      destruct Hw as [Hwc Hw]. destruct Hys as [Hy Hys]. fold (zsum ys). fold (zsum (map omax cs)).
      specialize (IHcs Hw ys Hys). destruct (Hc Hwc) as [_ Hle]. specialize (Hle y Hy). lia.
  - destruct Hwf as [Hc Hk]. destruct (IH Hc) as [H1 H2]. split.
    + exists (repeat (omax c) (Z.to_nat k)). rewrite repeat_length, zsum_repeat. repeat split; [lia| |f_equal; lia].
      apply Forall_forall. intros y Hy. apply repeat_spec in Hy. subst. exact H1.
    + intros x (ys & Hl & Hys & ->). rewrite <- Hl. apply (zsum_upper (Den c)); auto.
  - destruct Hwf as [Hc Hk]. destruct (IH Hc) as [H1 H2]. split.
    + exists (repeat (omax c) (Z.to_nat k)). rewrite repeat_length, zsum_repeat. repeat split; [lia| |f_equal; lia].
      apply Forall_forall. intros y Hy. apply repeat_spec in Hy. subst. exact H1.
    + intros x (ys & Hl & Hys & ->).
      pose proof (zsum_upper (Den c) (omax c) ys H2 Hys).
      pose proof (Den_nonneg c Hc _ H1). nia.
  - destruct Hwf as [Hne Hw].
    assert (map omax cs <> []) as Hne' by (destruct cs; simpl; congruence).
    destruct (zmax_list_spec _ Hne') as [Hin Hle]. rewrite Forall_forall in IH. apply allw_Forall in Hw. rewrite Forall_forall in Hw.
    split.
    + apply in_map_iff in Hin. destruct Hin as (c & Hc & Hcin). apply any1_exists. exists c. split; auto.
      rewrite <- Hc. apply IH; auto.
    + intros x Hx. apply any1_exists in Hx. destruct Hx as (c & Hcin & Hx).
      destruct (IH c Hcin (Hw c Hcin)) as [_ H2]. specialize (H2 x Hx).
      specialize (Hle (omax c) (in_map omax cs c Hcin)). lia.
Qed.

Lemma Den_nonempty t : wf t -> exists x, Den t x.
Proof. intros H. exists (omin t). apply omin_ok. exact H. Qed.

Lemma fixed_spec t : wf t -> (fixed t = true <-> forall x y, Den t x -> Den t y -> x = y).
Proof.
  intros Hwf. destruct (omin_ok t Hwf) as [M1 M2]. destruct (omax_ok t Hwf) as [X1 X2]. unfold fixed. rewrite Z.eqb_eq. split.
  - intros E x y Hx Hy. pose proof (M2 x Hx). pose proof (X2 x Hx). pose proof (M2 y Hy). pose proof (X2 y Hy). lia.
  - intros H. apply H; auto.
Qed.
