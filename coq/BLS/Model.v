(* Executable model of pydsdl/_bit_length_set/_symbolic.py and _bit_length_set.py.  Definitions only. *)
From Coq Require Import ZArith List Bool.
From PV Require Import Util.ListSet Util.Sumset.
Import ListNotations.
Open Scope Z_scope.

(* Operator trees: Nullary / Padding / Concatenation / Repetition / RangeRepetition / Union. *)
Inductive op :=
| Leaf (vs : list Z)
| Pad (c : op) (a : Z)
| Cat (cs : list op)
| Rep (c : op) (k : Z)
| RRep (c : op) (k : Z)
| Uni (cs : list op).

(* PaddingOperator._pad *)
Definition pad (a x : Z) : Z := ((x + a - 1) / a) * a.

(* equivalent_k = min(k, divisor + k % divisor) *)
Definition equiv_k (k d : Z) : Z := Z.min k (d + k mod d).

Definition zmin_list (l : list Z) : Z := match l with [] => 0 | m :: ms => fold_right Z.min m ms end.
Definition zmax_list (l : list Z) : Z := match l with [] => 0 | m :: ms => fold_right Z.max m ms end.

Fixpoint omin (t : op) : Z :=
  match t with
  | Leaf vs => zmin_list vs
  | Pad c a => pad a (omin c)
  | Cat cs => zsum (map omin cs)
  | Rep c k => omin c * k
  | RRep c k => 0
  | Uni cs => zmin_list (map omin cs)
  end.

Fixpoint omax (t : op) : Z :=
  match t with
  | Leaf vs => zmax_list vs
  | Pad c a => pad a (omax c)
  | Cat cs => zsum (map omax cs)
  | Rep c k => omax c * k
  | RRep c k => omax c * k
  | Uni cs => zmax_list (map omax cs)
  end.

(* set(map(sum, the cartesian product of ls)) before de-duplication *)
Definition prod_sums (ls : list (list Z)) : list Z :=
  fold_right (fun l acc => flat_map (fun x => map (Z.add x) acc) l) [0] ls.

Definition modl (d : Z) (l : list Z) : list Z := map (fun x => x mod d) l.

(* for k in range(n+1): combinations_with_replacement(S, k) *)
Definition cwr_upto (l : list Z) (n : nat) : list Z := flat_map (cwr_sums l) (seq 0 (S n)).

(* Operator.modulo: residues as a strictly sorted list *)
Fixpoint omod (t : op) (d : Z) {struct t} : list Z :=
  match t with
  | Leaf vs => norm (modl d vs)
  | Pad c a => norm (map (fun x => pad a x mod d) (omod c (Z.lcm a d)))
  | Cat cs => norm (modl d (prod_sums (map (fun c => omod c d) cs)))
  | Rep c k => norm (modl d (cwr_sums (omod c d) (Z.to_nat (equiv_k k d))))
  | RRep c k => norm (modl d (cwr_upto (omod c d) (Z.to_nat (equiv_k k d))))
  | Uni cs => norm (flat_map (fun c => omod c d) cs)
  end.

(* Operator.expand *)
Fixpoint oexpand (t : op) : list Z :=
  match t with
  | Leaf vs => norm vs
  | Pad c a => norm (map (pad a) (oexpand c))
  | Cat cs => norm (prod_sums (map oexpand cs))
  | Rep c k => norm (cwr_sums (oexpand c) (Z.to_nat k))
  | RRep c k => norm (cwr_upto (oexpand c) (Z.to_nat k))
  | Uni cs => norm (flat_map oexpand cs)
  end.

Definition fixed (t : op) : bool := omin t =? omax t.
Definition is_aligned (t : op) (d : Z) : bool := list_eqb (omod t d) [0].

(* BitLengthSet.__eq__ / __hash__ *)
Definition approx_eq (a b : op) : bool :=
  (omin a =? omin b) && (omax a =? omax b) && list_eqb (omod a 32) (omod b 32).
Definition bls_hash (a : op) : Z * Z := (omin a, omax a).

(* ---- fast evaluation (proved equal to omod / oexpand in BLS/Fast.v) ---- *)
Definition sumset_mod (d : Z) (A B : list Z) : list Z :=
  norm (flat_map (fun a => map (fun b => (a + b) mod d) B) A).
Definition sumset (A B : list Z) : list Z :=
  norm (flat_map (fun a => map (fun b => a + b) B) A).

Fixpoint iter_sumset_mod (d : Z) (S : list Z) (n : nat) : list Z :=
  match n with O => [0 mod d] | Datatypes.S n' => sumset_mod d (iter_sumset_mod d S n') S end.
Fixpoint iter_sumset (S : list Z) (n : nat) : list Z :=
  match n with O => [0] | Datatypes.S n' => sumset (iter_sumset S n') S end.

Fixpoint omodf (t : op) (d : Z) {struct t} : list Z :=
  match t with
  | Leaf vs => norm (modl d vs)
  | Pad c a => norm (map (fun x => pad a x mod d) (omodf c (Z.lcm a d)))
  | Cat cs => fold_right (fun c acc => sumset_mod d (omodf c d) acc) [0 mod d] cs
  | Rep c k => iter_sumset_mod d (omodf c d) (Z.to_nat (equiv_k k d))
  | RRep c k => iter_sumset_mod d (zins 0 (omodf c d)) (Z.to_nat (equiv_k k d))
  | Uni cs => fold_right (fun c acc => zunion (omodf c d) acc) [] cs
  end.

Fixpoint oexpandf (t : op) : list Z :=
  match t with
  | Leaf vs => norm vs
  | Pad c a => norm (map (pad a) (oexpandf c))
  | Cat cs => fold_right (fun c acc => sumset (oexpandf c) acc) [0] cs
  | Rep c k => iter_sumset (oexpandf c) (Z.to_nat k)
  | RRep c k => iter_sumset (zins 0 (oexpandf c)) (Z.to_nat k)
  | Uni cs => fold_right (fun c acc => zunion (oexpandf c) acc) [] cs
  end.

(* boolean well-formedness (what the public constructors accept) *)
Fixpoint wfb (t : op) : bool :=
  match t with
  | Leaf vs => negb (match vs with [] => true | _ => false end) && forallb (fun v => 0 <=? v) vs
  | Pad c a => wfb c && (1 <=? a)
  | Cat cs => negb (match cs with [] => true | _ => false end) && forallb wfb cs
  | Rep c k | RRep c k => wfb c && (0 <=? k)
  | Uni cs => negb (match cs with [] => true | _ => false end) && forallb wfb cs
  end.

(* ---- MemoizationOperator as a state machine ---- *)
Inductive query := QMin | QMax | QMod (d : Z) | QExp.
Inductive answer := AInt (z : Z) | ASet (l : list Z).

Record memo := { m_min : option Z; m_max : option Z; m_mods : list (Z * list Z); m_exp : option (list Z) }.
Definition memo0 : memo := {| m_min := None; m_max := None; m_mods := []; m_exp := None |}.

Fixpoint assoc (d : Z) (l : list (Z * list Z)) : option (list Z) :=
  match l with [] => None | (k, v) :: r => if k =? d then Some v else assoc d r end.

Definition direct (t : op) (q : query) : answer :=
  match q with
  | QMin => AInt (omin t) | QMax => AInt (omax t) | QMod d => ASet (omod t d) | QExp => ASet (oexpand t)
  end.

Definition mstep (t : op) (m : memo) (q : query) : memo * answer :=
  match q with
  | QMin => match m_min m with
            | Some v => (m, AInt v)
            | None => let v := omin t in ({| m_min := Some v; m_max := m_max m; m_mods := m_mods m; m_exp := m_exp m |}, AInt v)
            end
  | QMax => match m_max m with
            | Some v => (m, AInt v)
            | None => let v := omax t in ({| m_min := m_min m; m_max := Some v; m_mods := m_mods m; m_exp := m_exp m |}, AInt v)
            end
  | QMod d => match assoc d (m_mods m) with
              | Some v => (m, ASet v)
              | None => let v := omod t d in ({| m_min := m_min m; m_max := m_max m; m_mods := (d, v) :: m_mods m; m_exp := m_exp m |}, ASet v)
              end
  | QExp => match m_exp m with
            | Some v => (m, ASet v)
            | None => let v := oexpand t in ({| m_min := m_min m; m_max := m_max m; m_mods := m_mods m; m_exp := Some v |}, ASet v)
            end
  end.

Fixpoint mrun (t : op) (m : memo) (qs : list query) : list answer :=
  match qs with
  | [] => []
  | q :: r => let (m', a) := mstep t m q in a :: mrun t m' r
  end.
