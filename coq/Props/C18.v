(* C18 - Model objects are immutable values with a sound equality/hash contract. Statements only.
   Aliasing of returned lists and pickling are properties of Python objects and are checked on the implementation only. *)
From Coq Require Import ZArith List Bool.
From PV Require Import Util.ListSet Util.Sumset BLS.Model BLS.Den BLS.ProofsExp Layout.Types EqHash.Model EqHash.Proofs.
Import ListNotations.
Open Scope Z_scope.

Theorem C18_refl : forall a, ty_eq a a = true.
Proof. exact ty_eq_refl. Qed.
Print Assumptions C18_refl.

Theorem C18_sym : forall a b, ty_eq a b = ty_eq b a.
Proof. exact ty_eq_sym. Qed.
Print Assumptions C18_sym.

Theorem C18_trans : forall a b c, ty_eq a b = true -> ty_eq b c = true -> ty_eq a c = true.
Proof. exact ty_eq_trans. Qed.
Print Assumptions C18_trans.

(* equal objects have equal hashes *)
Theorem C18_hash : forall a b, ty_eq a b = true -> ty_hash a = ty_hash b.
Proof. exact ty_eq_hash. Qed.
Print Assumptions C18_hash.

(* equality distinguishes types that differ in kind, normalised string form or (min, max, residues mod 32) of the set *)
Theorem C18_discriminates : forall a b, ty_eq a b = true <->
  cls a = cls b /\ show a = show b /\ omin (bls a) = omin (bls b) /\ omax (bls a) = omax (bls b) /\ omod (bls a) 32 = omod (bls b) 32.
Proof. exact ty_eq_spec. Qed.
Print Assumptions C18_discriminates.

(* BitLengthSet equality never reports two equal sets as different, and its hash agrees (uses the C01 theorems) *)
Theorem C18_bls_no_false_neg : forall s s', wf s -> wf s' -> (forall x, Den s x <-> Den s' x) ->
  approx_eq s s' = true /\ bls_hash s = bls_hash s'.
Proof. exact approx_eq_complete. Qed.
Print Assumptions C18_bls_no_false_neg.

Theorem C18_bls_equivalence : forall a b c, approx_eq a a = true /\ approx_eq a b = approx_eq b a /\
  (approx_eq a b = true -> approx_eq b c = true -> approx_eq a c = true) /\ (approx_eq a b = true -> bls_hash a = bls_hash b).
Proof.
  intros a b c. repeat split; [apply approx_eq_refl|apply approx_eq_sym|apply approx_eq_trans|].
  intros H. apply approx_eq_spec in H. unfold bls_hash. destruct H as (A & B & _). congruence.
Qed.
Print Assumptions C18_bls_equivalence.

Theorem C18_types_no_false_neg : forall a b, wft a = true -> wft b = true -> cls a = cls b -> show a = show b ->
  (forall x, Den (bls a) x <-> Den (bls b) x) -> ty_eq a b = true.
Proof. exact ty_eq_complete. Qed.
Print Assumptions C18_types_no_false_neg.

Theorem C18_attributes : forall a b c, field_eq a a = true /\ field_eq a b = field_eq b a /\
  (field_eq a b = true -> field_eq b c = true -> field_eq a c = true) /\
  (field_eq a b = true -> ty_hash (snd a) = ty_hash (snd b) /\ fst a = fst b).
Proof. exact field_eq_props. Qed.
Print Assumptions C18_attributes.

Example C18_nonvacuous :
  ty_eq (TVar (TPrim (PUInt 8 Sat)) 255) (TVar (TPrim (PUInt 8 Sat)) 255) = true /\
  ty_eq (TVar (TPrim (PUInt 8 Sat)) 255) (TVar (TPrim (PUInt 8 Sat)) 256) = false /\
  ty_eq (TStruct [110] [(Some [97], TPrim (PUInt 8 Sat))]) (TStruct [110] [(Some [98], TPrim (PSInt 8))]) = true /\
  ty_eq (TStruct [110] []) (TUnion [110] [(Some [97], TVoid 0); (Some [98], TVoid 0)]) = false.
Proof. vm_compute. repeat split; reflexivity. Qed.
