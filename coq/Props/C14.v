(* C14 - Delimited (appendable) types evolve without breaking containers or the wire. Statements only. *)
From Coq Require Import ZArith List Bool.
From PV Require Import BLS.Model Layout.Types Serdes.Model Serdes.Evolve Serdes.ProofsLayout.
Import ListNotations.
Open Scope Z_scope.

(* [evolves t t'] (Serdes/Evolve.v): t' is t with nested delimited structures replaced by revisions of the same extent
   whose field list is a prefix / an extension (hole at any position: field, array element, union variant, inside
   another delimited type).  The operator tree of the bit length set, the alignment and the extent are EQUAL. *)
Theorem C14_layout : forall t t', evolves t t' = true -> bls t = bls t' /\ align t = align t' /\ extent t = extent t'.
Proof. intros t t' H. destruct (evolves_lay_eq t t' H). auto using evolves_extent. Qed.
Print Assumptions C14_layout.

(* every field offset of a structure (union) container is a function of the bit length sets and alignments of the
   fields (before it) only, and those are pairwise equal *)
Theorem C14_layout_struct_fields : forall nm nm' fs gs, evolves (TStruct nm fs) (TStruct nm' gs) = true ->
  map (fun f => bls (snd f)) fs = map (fun f => bls (snd f)) gs /\ map (fun f => align (snd f)) fs = map (fun f => align (snd f)) gs.
Proof. exact evolves_struct_fields. Qed.
Print Assumptions C14_layout_struct_fields.

Theorem C14_layout_union_fields : forall nm nm' fs gs, evolves (TUnion nm fs) (TUnion nm' gs) = true ->
  map (fun f => bls (snd f)) fs = map (fun f => bls (snd f)) gs /\ map (fun f => align (snd f)) fs = map (fun f => align (snd f)) gs.
Proof. exact evolves_union_fields. Qed.
Print Assumptions C14_layout_union_fields.

(* non-vacuity: a container with the hole in an array, something after it, and a revision that appends two fields *)
Definition ex_old : ty := TDelim (TStruct [] [(Some [100], TPrim (PUInt 8 Sat))]) 64.
Definition ex_new : ty := TDelim (TStruct [] [(Some [100], TPrim (PUInt 8 Sat)); (Some [101], TPrim (PSInt 16)); (Some [102], TVar (TPrim PUtf8) 3)]) 64.
Definition ex_cont (d : ty) : ty := TStruct [] [(Some [1], TPrim (PUInt 3 Trunc)); (Some [2], TVar d 2); (Some [3], TPrim PBool)].
Example C14_nonvacuous : evolves (ex_cont ex_old) (ex_cont ex_new) = true /\ evolves (ex_cont ex_new) (ex_cont ex_old) = true
  /\ wft (ex_cont ex_new) = true.
Proof. vm_compute. auto. Qed.
