(* C14 - Delimited (appendable) types evolve without breaking containers or the wire. Statements only.

   [evolves t t'] (Serdes/Evolve.v, decidable): t' is t with nested delimited structures replaced by revisions of the same
   extent whose field list is a prefix or an extension (the hole at any position: field, array element, union variant,
   inside another delimited type; nested holes allowed).
   [conv t t' v] (Serdes/Evolve.v): v with, at every hole, the common leading fields kept, the fields unknown to the
   writer set to the zero value [default_value], the fields unknown to the reader dropped; identical elsewhere.
   [framed t hdr]: the byte string is the representation of t itself (sealed type without header flag, delimited type with). *)
From Coq Require Import ZArith List Bool.
From PV Require Import BLS.Model Layout.Types Serdes.Model Serdes.Bits Serdes.Spec Serdes.Evolve Serdes.ProofsLayout
  Serdes.Roundtrip Serdes.ZeroDecode Serdes.EvolveProofs Serdes.EvolveTop Serdes.DeserProofs Serdes.ConvProofs.
Import ListNotations.
Open Scope Z_scope.

(* the operator tree of the bit length set, the alignment and the extent of a container are EQUAL for both revisions *)
Theorem C14_layout : forall t t', evolves t t' = true -> bls t = bls t' /\ align t = align t' /\ extent t = extent t'.
Proof. intros t t' H. destruct (evolves_lay_eq t t' H). auto using evolves_extent. Qed.
Print Assumptions C14_layout.

(* every field offset of a structure (union) container is a function of the bit length sets and alignments of the
   fields (before it) only, and those are pairwise equal *)
Theorem C14_layout_struct_fields : forall nm nm' fs gs, evolves (TStruct nm fs) (TStruct nm' gs) = true ->
  map (fun f => bls (snd f)) fs = map (fun f => bls (snd f)) gs /\ map (fun f => align (snd f)) fs = map (fun f => align (snd f)) gs.
Proof. exact evolves_struct_fields. Qed.
Print Assumptions C14_layout_struct_fields.

Theorem C14_layout_union_fields : forall nm nm' fs gs, evolves (TUnion nm fs) (TUnion nm' gs) = true ->
  map (fun f => bls (snd f)) fs = map (fun f => bls (snd f)) gs /\ map (fun f => align (snd f)) fs = map (fun f => align (snd f)) gs.
Proof. exact evolves_union_fields. Qed.
Print Assumptions C14_layout_union_fields.

(* old -> new and new -> old in one statement ([evolves] is symmetric in what it allows): data written with t is read
   with t' as conv t t' (canon t v); bytes after the representation are ignored *)
Theorem C14_cross_version : forall t t' v hdr bytes extra,
  wft t = true -> is_composite t = true -> framed t hdr = true -> validb t v = true ->
  wft t' = true -> serializable t' = true -> evolves t t' = true ->
  bytes_ok extra -> serialize t v hdr = Ok bytes ->
  deserialize t' (bytes ++ extra) hdr = Ok (conv t t' (canon t v)).
Proof. exact cross_version. Qed.
Print Assumptions C14_cross_version.

(* the same at any position inside any reader state: the reader of t' consumes exactly the representation written with t
   - every field after the nested object, including further array elements, is therefore read from the right offset *)
Theorem C14_cross_version_nested : forall t, wft t = true -> forall t', evolves t t' = true ->
  wft t' = true -> serializable t' = true ->
  forall v r rest, validb t v = true -> rok r -> roff r mod align t = 0 ->
  sees r (enc t v (roff r) ++ rest) -> roff r + zlen (enc t v (roff r)) <= rend r ->
  deser t' r = Ok (conv t t' (canon t v), r_adv r (zlen (enc t v (roff r)))).
Proof. intros t Hw t' He Hw' Hs'. exact (proj1 (evolve_deser t) Hw t' He (conj Hw' (or_introl Hs'))). Qed.
Print Assumptions C14_cross_version_nested.

(* the relation covers exactly the situation of the property: D' = D ++ appended fields (either direction), same extent;
   and every type evolves into itself (so the containers around the hole are unconstrained) *)
Theorem C14_hole_evolves : forall nm nm' fs gs x,
  evolves (TDelim (TStruct nm fs) x) (TDelim (TStruct nm' (fs ++ gs)) x) = true /\
  evolves (TDelim (TStruct nm (fs ++ gs)) x) (TDelim (TStruct nm' fs) x) = true.
Proof. exact hole_evolves. Qed.
Print Assumptions C14_hole_evolves.

Theorem C14_evolves_refl : forall t, evolves t t = true.
Proof. exact evolves_refl. Qed.
Print Assumptions C14_evolves_refl.

(* what [conv] yields: nothing changes between equal types ... *)
Theorem C14_conv_same : forall t v, validb t v = true -> conv t t (canon t v) = canon t v.
Proof. exact conv_refl. Qed.
Print Assumptions C14_conv_same.

(* ... old -> new: common leading fields keep their values, the fields unknown to the writer read as the zero value ... *)
Theorem C14_old_to_new : forall nm nm' fs gs x vs, valid_fields validb fs vs = true ->
  conv (TDelim (TStruct nm fs) x) (TDelim (TStruct nm' (fs ++ gs)) x) (canon (TDelim (TStruct nm fs) x) (VStruct vs)) =
  VStruct (canon_fields canon fs vs ++ default_fields default_value gs).
Proof. exact conv_old_to_new. Qed.
Print Assumptions C14_old_to_new.

(* ... new -> old: the fields unknown to the reader are skipped *)
Theorem C14_new_to_old : forall nm nm' fs gs x vs, valid_fields validb (fs ++ gs) vs = true ->
  conv (TDelim (TStruct nm (fs ++ gs)) x) (TDelim (TStruct nm' fs) x) (canon (TDelim (TStruct nm (fs ++ gs)) x) (VStruct vs)) =
  VStruct (canon_fields canon fs vs).
Proof. exact conv_new_to_old. Qed.
Print Assumptions C14_new_to_old.

(* what "read as zero / empty / first variant" means: zero bits decode to default_value, for every type, at every offset *)
Theorem C14_zero_decode : forall t, wft t = true -> serializable t = true ->
  forall r, ZR r -> exists r', deser t r = Ok (default_value t, r') /\ ZR r'.
Proof. intros t Hw Hs. exact (zero_decode t Hw (or_introl Hs)). Qed.
Print Assumptions C14_zero_decode.

Theorem C14_zero_bytes : forall t n hdr, wft t = true -> serializable t = true -> is_composite t = true -> hdr_ok t hdr = true ->
  deserialize t (zeros n) hdr = Ok (default_value t).
Proof. exact zero_bytes_decode. Qed.
Print Assumptions C14_zero_bytes.

(* non-vacuity: the hole as element of a variable-length array with a field after it; the new revision appends a signed
   integer and a string.  Old data read by the new reader and new data read by the old reader. *)
Definition ex_old : ty := TDelim (TStruct [] [(Some [100], TPrim (PUInt 8 Sat))]) 64.
Definition ex_new : ty := TDelim (TStruct [] [(Some [100], TPrim (PUInt 8 Sat)); (Some [101], TPrim (PSInt 16)); (Some [102], TVar (TPrim PUtf8) 3)]) 64.
Definition ex_cont (d : ty) : ty := TStruct [] [(Some [1], TPrim (PUInt 3 Trunc)); (Some [2], TVar d 2); (Some [3], TPrim PBool)].
Definition ex_vo : val := VStruct [VInt 5; VList [VStruct [VInt 7]; VStruct [VInt 9]]; VBool true].
Definition ex_vn : val := VStruct [VInt 5; VList [VStruct [VInt 7; VInt (-2); VList [VInt 97]]; VStruct [VInt 9; VInt 300; VList []]]; VBool true].
Example C14_nonvacuous :
  evolves (ex_cont ex_old) (ex_cont ex_new) = true /\ evolves (ex_cont ex_new) (ex_cont ex_old) = true /\
  wft (ex_cont ex_new) = true /\ serializable (ex_cont ex_new) = true /\ wft (ex_cont ex_old) = true /\ serializable (ex_cont ex_old) = true /\
  validb (ex_cont ex_old) ex_vo = true /\ validb (ex_cont ex_new) ex_vn = true /\
  conv (ex_cont ex_old) (ex_cont ex_new) (canon (ex_cont ex_old) ex_vo) =
    VStruct [VInt 5; VList [VStruct [VInt 7; VInt 0; VList []]; VStruct [VInt 9; VInt 0; VList []]]; VBool true] /\
  conv (ex_cont ex_new) (ex_cont ex_old) (canon (ex_cont ex_new) ex_vn) = ex_vo /\
  (match serialize (ex_cont ex_new) ex_vn false with Ok bs => deserialize (ex_cont ex_old) bs false | Err e => Err e end) = Ok ex_vo.
Proof. vm_compute. repeat split; reflexivity. Qed.
