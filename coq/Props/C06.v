(* C06 - serialize/deserialize round-trip and produce the Specification's wire encoding. Statements only.

   Vocabulary (definitions in Serdes/): [serialize]/[deserialize] - the executable model of pydsdl/_serdes.py
   (byte-buffer writer with aligned fast path and bit-wise slow path, offset/limit reader);  [spec_enc t v hdr] - the
   Specification's encoding as a bit list (Serdes/Spec.v);  [packs bytes bits] - bytes is the byte string carrying bits
   (bit j is bit j mod 8 of byte j / 8);  [canon t v] - v with casts applied and defaults filled in;  [validb t v] - v has
   the shape of t;  [wft], [serializable], [is_composite] - the type is constructible / only uses void, byte, utf8 where
   pydsdl allows them / is a structure, union or delimited type;  [hdr_ok] - the header flag only with delimited types. *)
From Coq Require Import ZArith List Bool.
From PV Require Import BLS.Model Layout.Types Serdes.Model Serdes.Bits Serdes.BitsProofs Serdes.WriterProofs Serdes.ReaderProofs
  Serdes.Spec Serdes.SerProofs Serdes.DeserProofs Serdes.Roundtrip Serdes.ProofsReject Serdes.LenProofs Serdes.Exact Serdes.CanonProofs.
From PV Require Import BLS.Den.
Import ListNotations.
Open Scope Z_scope.

(* the writer (fast and slow path, any offset, any width) appends the n low bits of the value, least significant first *)
Theorem C06_writer_refines : forall w bs value n, 0 <= n -> WR w bs -> WR (write_bits w value n) (bs ++ low_bits (Z.to_nat n) value).
Proof. exact write_bits_WR. Qed.
Print Assumptions C06_writer_refines.

(* align_to writes zero bits up to the next multiple of the alignment *)
Theorem C06_writer_align : forall w bs a, 1 <= a -> WR w bs -> WR (w_align_to w a) (bs ++ zero_bits (pad_len a (zlen bs))).
Proof. exact w_align_to_WR. Qed.
Print Assumptions C06_writer_align.

(* the reader (both paths, with or without limit) returns the zero-extended, limit-clipped slice and advances by n *)
Theorem C06_reader_refines : forall r n, bytes_ok (rdata r) -> 0 <= n -> 0 <= roff r ->
  snd (read_bits r n) = r_adv r n /\ 0 <= fst (read_bits r n) < 2 ^ n /\
  forall k, 0 <= k < n -> Z.testbit (fst (read_bits r n)) k = rbit r (roff r + k).
Proof. exact read_bits_spec. Qed.
Print Assumptions C06_reader_refines.

(* serialize succeeds on every valid value and produces exactly the Specification's encoding *)
Theorem C06_wire_spec : forall t v hdr, wft t = true -> is_composite t = true -> hdr_ok t hdr = true -> validb t v = true ->
  exists bytes, serialize t v hdr = Ok bytes /\ packs bytes (spec_enc t v hdr).
Proof. exact serialize_spec. Qed.
Print Assumptions C06_wire_spec.

(* ... and [packs] pins the byte string down *)
Theorem C06_wire_unique : forall b1 b2 bits, packs b1 bits -> packs b2 bits -> b1 = b2.
Proof. exact packs_unique. Qed.
Print Assumptions C06_wire_unique.

(* deserialize (serialize v) = canon v, for every serializable composite type and every valid value, with and without header *)
Theorem C06_roundtrip : forall t v hdr bytes,
  wft t = true -> serializable t = true -> is_composite t = true -> hdr_ok t hdr = true -> validb t v = true ->
  serialize t v hdr = Ok bytes -> deserialize t bytes hdr = Ok (canon t v).
Proof. exact roundtrip. Qed.
Print Assumptions C06_roundtrip.

(* the produced bit length is an element of the bit length set of the type (of the inner type when a delimited type is
   written without its header): [Den] is the mathematically defined set of the operator tree (C01), [bls] the tree pydsdl builds *)
Theorem C06_length_in_bls : forall t v hdr bytes,
  wft t = true -> serializable t = true -> is_composite t = true -> hdr_ok t hdr = true -> validb t v = true ->
  serialize t v hdr = Ok bytes -> Den (bls (payload_type t hdr)) (8 * zlen bytes).
Proof. exact length_in_bls. Qed.
Print Assumptions C06_length_in_bls.

(* [validb] of a delimited type contains one semantic side condition: the byte length of the inner representation fits the
   32-bit header.  The inner representation never exceeds the extent, so the condition is vacuous for extents < 2^35 bits. *)
Theorem C06_inner_within_extent : forall i ext v, wft (TDelim i ext) = true -> serializable i = true -> validb i v = true ->
  zlen (enc i v 0) <= ext.
Proof. exact inner_le_extent. Qed.
Print Assumptions C06_inner_within_extent.

(* "deserialize (serialize v) returns v": values that need no clamping / wrapping / rounding / defaults are canonical *)
Theorem C06_roundtrip_exact : forall t v hdr bytes,
  wft t = true -> serializable t = true -> is_composite t = true -> hdr_ok t hdr = true -> validb t v = true -> exactb t v = true ->
  serialize t v hdr = Ok bytes -> deserialize t bytes hdr = Ok v.
Proof. intros t v hdr bytes Hw Hs Hc Hh Hv Hx E. pose proof (roundtrip t v hdr bytes Hw Hs Hc Hh Hv E) as R. rewrite (canon_exact t Hw v Hx) in R. exact R. Qed.
Print Assumptions C06_roundtrip_exact.

(* integer cast modes: what the reader gets back for an out-of-range number ([cast_int] is what [canon] applies) *)
Theorem C06_cast_in_range : forall p z,
  (match p with PUInt w _ => 0 <= z < 2 ^ w | PSInt w => - 2 ^ (w - 1) <= z < 2 ^ (w - 1) | PByte | PUtf8 => 0 <= z < 256 | _ => True end) ->
  cast_int p z = z.
Proof. exact cast_in_range. Qed.
Print Assumptions C06_cast_in_range.

Theorem C06_cast_saturated_unsigned : forall w z, 0 <= w ->
  cast_int (PUInt w Sat) z = if z <? 0 then 0 else if 2 ^ w - 1 <? z then 2 ^ w - 1 else z.
Proof. exact cast_saturated_unsigned. Qed.
Print Assumptions C06_cast_saturated_unsigned.

Theorem C06_cast_saturated_signed : forall w z, 1 <= w ->
  cast_int (PSInt w) z = if z <? - 2 ^ (w - 1) then - 2 ^ (w - 1) else if 2 ^ (w - 1) - 1 <? z then 2 ^ (w - 1) - 1 else z.
Proof. exact cast_saturated_signed. Qed.
Print Assumptions C06_cast_saturated_signed.

Theorem C06_cast_truncated : forall w z, cast_int (PUInt w Trunc) z = z mod 2 ^ w.
Proof. exact cast_truncated. Qed.
Print Assumptions C06_cast_truncated.

(* defaults: an omitted structure field is serialized exactly like the explicit zero value (0 / false / +0.0 / zero-filled
   fixed array / empty variable array / first variant, recursively), which is itself valid and canonical *)
Theorem C06_defaults_omitted : forall nm t r vs w,
  ser_fields ser ((Some nm, t) :: r) (VOmit :: vs) w = ser_fields ser ((Some nm, t) :: r) (default_value t :: vs) w.
Proof. intros. cbn [ser_fields]. destruct (default_value t); reflexivity. Qed.
Print Assumptions C06_defaults_omitted.

Theorem C06_defaults_valid : forall t, wft t = true -> serializable t = true -> small_ext t = true ->
  validb t (default_value t) = true /\ canon t (default_value t) = default_value t.
Proof. exact default_good. Qed.
Print Assumptions C06_defaults_valid.

Theorem C06_header_flag_sealed : forall t v, (match t with TDelim _ _ => false | _ => true end) = true -> serialize t v true = Err EValue.
Proof. exact serialize_header_flag_sealed. Qed.
Print Assumptions C06_header_flag_sealed.

(* non-vacuity: sub-byte field, signed clamp, variable array of a delimited structure, omitted field, truncated float overflow *)
Definition ex_d : ty := TDelim (TStruct [] [(Some [1], TPrim (PUInt 3 Trunc)); (Some [2], TPrim (PFloat 16 Trunc))]) 24.
Definition ex_t : ty := TStruct [] [(Some [1], TPrim (PSInt 5)); (None, TVoid 2); (Some [2], TVar ex_d 2); (Some [3], TVar (TPrim PUtf8) 4)].
Definition ex_v : val := VStruct [VInt (-100); VList [VStruct [VInt 13; VFlt 4681608360884174848 (* 1e5 *)]; VStruct [VOmit; VOmit]]; VList [VInt 226; VInt 130; VInt 172]].
Example C06_nonvacuous :
  wft ex_t = true /\ serializable ex_t = true /\ is_composite ex_t = true /\ validb ex_t ex_v = true /\
  serialize ex_t ex_v false = Ok [16; 2; 3; 0; 0; 0; 5; 224; 3; 3; 0; 0; 0; 0; 0; 0; 3; 226; 130; 172] /\
  canon ex_t ex_v = VStruct [VInt (-16); VList [VStruct [VInt 5; VFlt 9218868437227405312 (* +inf *)]; VStruct [VInt 0; VFlt 0]]; VList [VInt 226; VInt 130; VInt 172]].
Proof. vm_compute. repeat split; reflexivity. Qed.

(* float casts are modelled by integer arithmetic (Serdes/Float.v: round to nearest even, clamp to +-max finite when saturated,
   +-infinity on overflow when truncated, NaN and infinities pass) and compared bit-exactly with struct.pack on every case.
   PROVED (Serdes/FloatIdem.v, arithmetic on the integer model, binary16/32/64, both cast modes): every non-NaN value of the
   field's format - zero, subnormal, normal, infinite, either sign - is a fixed point of the cast (what "representable values are
   encoded exactly" means); NaN becomes the canonical quiet NaN; the written pattern is a w-bit number; decoding a pattern and
   encoding it again is the identity.
   The saturated mode never yields an infinity from a finite value (Serdes/FloatSat.v).
   PARTIAL - not proved: that for non-representable values fcast returns the nearest neighbour / is monotone, and that the
   truncated mode yields infinity exactly from max + ulp/2 on;
   these are covered by the bit-exact comparison with struct.pack (FLOAT_SPECIALS boundary values at every width and cast mode in
   every run) and by the concrete boundary cases below. *)
From PV Require Import Serdes.Float Serdes.FloatProofs Serdes.FloatIdem Serdes.FloatSat.
Theorem C06_cast_float_range : forall c w b, w = 16 \/ w = 32 \/ w = 64 -> 0 <= fcast c w b < 2 ^ w.
Proof. exact fcast_range. Qed.
Print Assumptions C06_cast_float_range.

Theorem C06_cast_float_representable_partial : forall w c bits, w = 16 \/ w = 32 \/ w = 64 -> 0 <= bits < 2 ^ w -> fdecode w bits <> FNaN ->
  fcast c w (fwiden w bits) = bits.
Proof. exact cast_representable. Qed.
Print Assumptions C06_cast_float_representable_partial.

(* saturated: a finite Python float never becomes an infinity (the pattern written has the sign of the value and an exponent field
   below all-ones) *)
Theorem C06_cast_float_saturated : forall w b s m e, w = 16 \/ w = 32 \/ w = 64 -> fdecode 64 b = FFin s m e ->
  fcast Sat w b < f_sign w s + f_inf w.
Proof. exact sat_never_inf. Qed.
Print Assumptions C06_cast_float_saturated.

Theorem C06_cast_float_nan_inf : forall c w s, w = 16 \/ w = 32 \/ w = 64 ->
  fcast c w (fencode 64 FNaN) = f_nan w /\ fcast c w (fencode 64 (FInf s)) = fencode w (FInf s).
Proof. intros c w s H. split; [apply cast_nan|apply cast_inf]; exact H. Qed.
Print Assumptions C06_cast_float_nan_inf.

Theorem C06_float_decode_encode : forall w bits, w = 16 \/ w = 32 \/ w = 64 -> 0 <= bits < 2 ^ w -> fdecode w bits <> FNaN ->
  fencode w (fdecode w bits) = bits.
Proof.
  intros w bits [ -> | [ -> | -> ] ] Hb Hn; [pose proof (dec_enc_16 bits Hb) as D|pose proof (dec_enc_32 bits Hb) as D|pose proof (dec_enc_64 bits Hb) as D];
    destruct (fdecode _ bits); try congruence; apply D.
Qed.
Print Assumptions C06_float_decode_encode.

(* REMARK / refuted assumption.  The delimiter header is 32 bits wide and holds the BYTE length of the nested object.  write_bits
   keeps the low 32 bits only, so an inner representation of 2^32 bytes or more would get a header that is too small (pydsdl does
   the same: value & mask).  This is why [validb] of a delimited type carries the conjunct "the byte length fits the header";
   C06_inner_within_extent shows the conjunct is implied by extent < 2^35 bits.  Witness at the writer level: *)
Theorem C06_header_wraps_refuted : exists n, 2 ^ 32 <= n /\ w_finish (write_bits w_new n 32) = w_finish (write_bits w_new (n - 2 ^ 32) 32).
Proof. exists (2 ^ 32 + 5). split; [vm_compute; discriminate|vm_compute; reflexivity]. Qed.
Print Assumptions C06_header_wraps_refuted.

Example C06_float_cases :
  (* 65520.0 is the rounding boundary of binary16: truncated -> +inf, saturated -> 65504 = 0x7BFF; just below rounds to 65504 *)
  fcast Trunc 16 4679237813814689792 = 31744 /\ fcast Sat 16 4679237813814689792 = 31743 /\ fcast Trunc 16 4679237812440300257 = 31743 /\
  (* -1e39 overflows binary32: truncated -> -inf, saturated -> -max *)
  fcast Trunc 32 14413632652858640925 = 4286578688 /\ fcast Sat 32 14413632652858640925 = 4286578687 /\
  (* infinities and NaN pass in both modes; tiny values become subnormal / zero *)
  fcast Sat 16 9218868437227405312 = 31744 /\ fcast Sat 32 18442240474082181120 = 4286578688 /\ fcast Sat 16 9221120237041090560 = 32256 /\
  fcast Trunc 16 4487126258331716666 = 0 /\ fcast Trunc 64 1 = 1 /\ fwiden 16 1 = 4499096027743125504.
Proof. vm_compute. repeat split; reflexivity. Qed.
