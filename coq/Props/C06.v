(* C06 - serialize/deserialize round-trip and produce the Specification's wire encoding. Statements only. *)
From Coq Require Import ZArith List Bool.
From PV Require Import BLS.Model Layout.Types Serdes.Model Serdes.ProofsReject.
Import ListNotations.
Open Scope Z_scope.

Theorem C06_header_flag_sealed : forall t v, (match t with TDelim _ _ => false | _ => true end) = true -> serialize t v true = Err EValue.
Proof. exact serialize_header_flag_sealed. Qed.
Print Assumptions C06_header_flag_sealed.
