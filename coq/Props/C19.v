(* C19 - Definitions outside the dependency closure cannot influence the result. Statements only. *)
From Coq Require Import ZArith List Bool.
From PV Require Import Namespace.Reader Namespace.ReaderProofs Namespace.Listing Namespace.ListingProofs.
Import ListNotations.
Open Scope Z_scope.

(* Only a malformed file NAME under a listed directory is reported, whatever the texts are (the listing does not
   take the texts as an argument at all) *)
Theorem C19_names_matter : forall roots files r f,
  In r roots -> In f files -> globbed f = true -> is_prefix r (fdir f) = true -> fbad f = true ->
  listing roots files = Err EFileName.
Proof. exact listing_bad_name. Qed.
Print Assumptions C19_names_matter.
