(* C19 - Definitions outside the dependency closure cannot influence the result. Statements only.
   Model: Namespace/Reader.v, Listing.v - the text of a definition is a function `txt` of the file id that the model
   consults only when the implementation opens the file.  Proofs: Namespace/Closure.v, ClosureRun.v, Scope.v. *)
From Coq Require Import ZArith List Bool.
From PV Require Import Namespace.Reader Namespace.ReaderProofs Namespace.ReadPure Namespace.Listing Namespace.ListingProofs
                       Namespace.Closure Namespace.ClosureRun Namespace.Scope.
Import ListNotations.
Open Scope Z_scope.

(* closure = the targets and, transitively, every lookup whose lower-cased name and version match a reference
   written in a member.  Two assignments of texts that agree on the closure give the same outcome of
   _complete_read_function: the same types or the same error, the same calls of the print handler, the same set
   of opened files. *)
Theorem C19_noninterference : forall txt txt' L T,
  (forall d, reach txt L T d -> txt (mfile d) = txt' (mfile d)) ->
  complete_read txt T L = complete_read txt' T L.
Proof. exact complete_read_agree. Qed.
Print Assumptions C19_noninterference.

(* the same for read_namespace / read_files on a directory tree: only the file NAMES of everything else matter *)
Theorem C19_noninterference_api : forall txt txt' files q,
  (forall targets L, call_lists files q = Some (targets, L) ->
     forall d, reach txt L targets d -> txt (mfile d) = txt' (mfile d)) ->
  run_query txt files q = run_query txt' files q.
Proof. exact run_query_agree. Qed.
Print Assumptions C19_noninterference_api.

(* no file outside the closure is opened and the handler is never called for a directive outside the closure *)
Theorem C19_opened_in_closure : forall txt L T out, complete_read txt T L = Ok out ->
  (forall f, In f (oopened out) -> exists x, reach txt L T x /\ mfile x = f) /\
  (forall h f l, In (h, f, l) (odeliv out) -> exists x, reach txt L T x /\ mfile x = f).
Proof. exact complete_read_opened. Qed.
Print Assumptions C19_opened_in_closure.

(* The cross-definition checks see direct (port-IDs) and transitive + direct (minor versions) only: lookup
   definitions (all those with file ef) that are no candidates for any reference of the closure can be removed
   from / added to the lookup list without changing the outcome, whatever their version, port-ID or text. *)
Theorem C19_checks_scope : forall txt L T ef,
  (forall d, reach txt (drop ef L) T d -> forall n a b arr, In (Ref n a b arr) (txt (mfile d)) ->
     forall y, In y L -> mfile y = ef -> cand (complete d n) a b y = false) ->
  (forall d, In d T -> mfile d <> ef) ->
  complete_read txt T L = complete_read txt T (drop ef L).
Proof. exact complete_read_drop. Qed.
Print Assumptions C19_checks_scope.

(* Only a malformed file NAME under a listed directory is reported, whatever the texts are (the listing does not
   take the texts as an argument at all) *)
Theorem C19_names_matter : forall roots files r f,
  In r roots -> In f files -> globbed f = true -> is_prefix r (fdir f) = true -> fbad f = true ->
  listing roots files = Err EFileName.
Proof. exact listing_bad_name. Qed.
Print Assumptions C19_names_matter.

(* non-vacuity: target A refers to lk.L.1.0; the unreferenced lookup lk.Unused.1.0 (file 3) is outside the closure, so
   two texts that differ there (a valid definition / a fault / a print) give the same outcome; file 3 is not opened *)
Definition nv_A := mkMeta [110; 115] [65] 1 0 (Some 7000) 0.
Definition nv_L := mkMeta [108; 107] [76] 1 0 None 2.
Definition nv_U := mkMeta [108; 107] [85] 1 0 (Some 7000) 3.
Definition nv_lookups := [nv_L; nv_U; nv_A].
Definition nv_txt (bad : list item) (f : Z) : list item :=
  if f =? 0 then [Ref [108; 107; 46; 76] 1 0 0; Print] else if f =? 2 then [Print; Plain 8] else bad.
Example C19_nonvacuous :
  complete_read (nv_txt [Plain 8]) [nv_A] nv_lookups = complete_read (nv_txt [Fault; Print]) [nv_A] nv_lookups /\
  exists out, complete_read (nv_txt [Fault; Print]) [nv_A] nv_lookups = Ok out /\ oopened out = [0; 2] /\
              odeliv out = [(0, 2, 1); (0, 0, 2)].
Proof.
  split; [vm_compute; reflexivity|]. eexists. split; [vm_compute; reflexivity|]. split; reflexivity.
Qed.
