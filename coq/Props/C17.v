(* C17 - errors and @print output are attributed to the right file and line.  Statements only.
   Machine: Builder/Lines.v (one definition), Builder/Reader.v (namespace).  All theorems hold for every payload type,
   every dependency reader / print handler (T V D W read_dep emit are universally quantified). *)
From Coq Require Import ZArith List Bool.
From PV Require Import Builder.Lines Builder.Basics Builder.LineProofs Builder.Reader Builder.ReaderProofs Builder.PrintProofs Builder.Witness.
Import ListNotations.
Open Scope Z_scope.

Section S.
Variables T V D W : Type.
Variable read_dep : D -> W -> W * option eloc.
Variable emit : Z -> text -> W -> W.
Notation line := (line T V D).
Notation run_upto := (run_upto T V D W read_dep emit).
Notation step_line := (step_line T V D W read_dep emit).
Notation run := (run T V D W read_dep emit).
Notation phys := (phys_after T V D 1).

(* the line counter while the line that follows ls is visited equals the physical line on which that line starts,
   whatever ls contains: comments, blank lines, statements, string literals that span several lines (l_extra) *)
Theorem C17_line_counter : forall (ls : list line) (w : W) (s : st T V W),
  run_upto ls (init T V W w) = Ok s -> line_no T V W s = phys ls.
Proof. intros. apply (line_counter T V D W read_dep emit ls _ _ H). Qed.

(* complete characterisation of the location of an error raised while line l (preceded by p) is visited:
   (1) the physical line of l itself, or (2) the physical line of an earlier attribute statement that has been waiting
   for its doc comment since (only comment/blank lines in between), or (3) an error that came out of a nested read *)
Theorem C17_line_immediate : forall (p : list line) (l : line) (w : W) (s : st T V W) (e : eloc) (w' : W),
  run_upto p (init T V W w) = Ok s -> step_line l s = Err e w' ->
  e = ELoc None (Some (phys p))
  \/ (exists q, queued_at T V D p 1 q /\ e = ELoc None (Some (snd q)))
  \/ (exists d w0 w1 e0, read_dep d w0 = (w1, Some e0) /\ e = inject_line e0 (phys p)).
Proof. exact (error_location T V D W read_dep emit). Qed.

(* ... in particular with nothing queued and no failing dependency the reported line is the line of the statement *)
Theorem C17_line_immediate_here : forall (p : list line) (l : line) (w : W) (s : st T V W) (e : eloc) (w' : W),
  run_upto p (init T V W w) = Ok s -> pending T V W s = None -> (forall d w0, snd (read_dep d w0) = None) ->
  step_line l s = Err e w' -> e = ELoc None (Some (phys p)).
Proof. exact (error_location_here T V D W read_dep emit). Qed.

(* the line remembered with a queued attribute is the physical line of its statement; nothing but comment lines and
   blanks-only lines lies between that statement and the current position *)
Theorem C17_line_commit_origin : forall (p : list line) (w : W) (s : st T V W) q,
  run_upto p (init T V W w) = Ok s -> pending T V W s = Some q -> queued_at T V D p 1 q.
Proof. exact (pending_line T V D W read_dep emit). Qed.

(* an attribute statement whose construction raises (bad name, constant out of range, ...) is reported at its own
   physical line, whatever follows it - comments, blank lines, further statements, the end of the text with or without
   a final line feed *)
Theorem C17_line_commit : forall (p : list line) (l : line) (r : list line) pre a (w : W) (s0 s1 : st T V W),
  run_upto p (init T V W w) = Ok s0 -> l_stmt T V D l = Some (Stmt pre (XAttr a true)) -> step_line l s0 = Ok s1 ->
  Forall (fun l' => forall x, l_stmt T V D l' = Some x -> flush_first T V D x) r ->
  exists w', run (p ++ l :: r) w = Err (ELoc None (Some (phys p))) w'.
Proof. exact (commit_line T V D W read_dep emit). Qed.

(* ... and without any assumption on what follows it is never accepted *)
Theorem C17_commit_not_lost : forall (p : list line) (l : line) (r : list line) pre a (w : W),
  l_stmt T V D l = Some (Stmt pre (XAttr a true)) -> forall m w', run (p ++ l :: r) w <> Ok (m, w').
Proof. exact (commit_not_lost T V D W read_dep emit). Qed.

(* errors raised after the last line: only finalize() (no line) or the construction of the last queued attribute *)
Theorem C17_line_finish : forall (ls : list line) (w : W) (s : st T V W) e w',
  run_upto ls (init T V W w) = Ok s -> finish T V W s = Err e w' ->
  e = no_loc \/ (exists q, queued_at T V D ls 1 q /\ e = ELoc None (Some (snd q))).
Proof. exact (finish_location T V D W read_dep emit). Qed.

(* exactly one call of the print handler per evaluated @print, with the line of the directive and str(value) *)
Theorem C17_print_once_here_stmt : forall (l : line) pre g shown (s s1 : st T V W),
  l_stmt T V D l = Some (Stmt pre (XDir KPrint g shown)) -> step_line l s = Ok s1 ->
  exists s2, run_pre T V D W read_dep pre s = Ok s2 /\ Lines.world T V W s1 = emit (line_no T V W s) shown (Lines.world T V W s2).
Proof. exact (print_once_here T V D W read_dep emit). Qed.

End S.
Print Assumptions C17_line_counter.
Print Assumptions C17_line_immediate.
Print Assumptions C17_line_immediate_here.
Print Assumptions C17_line_commit_origin.
Print Assumptions C17_line_commit.
Print Assumptions C17_commit_not_lost.
Print Assumptions C17_line_finish.
Print Assumptions C17_print_once_here_stmt.

(* the error that comes out of read_namespace, at whatever depth it was raised, is the error of the file in which it was
   raised - raised by parsimonious, or by that file's own statements / final flush / finalize - with that file's path and
   the line (or the absence of a line, F12) it had there: outer frames change nothing *)
Theorem C17_path_innermost : forall (T V : Type) (fs : list (file T V)) lk ts ps e,
  resolvable T V fs lk -> resolvable T V fs ts -> (length lk <= length fs)%nat ->
  read_ns T V fs lk ts = (ps, Some e) -> origin T V fs e.
Proof. exact read_ns_origin. Qed.
Print Assumptions C17_path_innermost.

(* the repaired finding F12 as an instance: the error of a dependency's finalize() has the dependency's path and no line *)
Theorem C17_finalize_line : read_ns unit unit [fA3; fZbad] [1; 2] [1; 2] = ([], Some (ELoc (Some pZ) None)).
Proof. exact finalize_line_example. Qed.
Print Assumptions C17_finalize_line.

(* full statement "each evaluated @print is delivered exactly once with the path of its own file and its own line":
   FALSE of the faithful model (open finding F3) - the handler is bound to the path of the target being read and handed
   down unchanged, and a target is parsed again through its lookup twin *)
Theorem C17_print_refuted : exists (fs : list ufile) lk ts ps,
  read_ns unit unit fs lk ts = (ps, None) /\ deliveries_ok fs ps = false.
Proof. exact print_refuted. Qed.
Print Assumptions C17_print_refuted.

Theorem C17_print_twice_refuted : exists (fs : list ufile) lk ts ps, read_ns unit unit fs lk ts = (ps, None)
  /\ forallb (fun d => match d with (_, _, s) => Nat.eqb (count_text s ps) 1 end) ps = false.
Proof. exact print_refuted_twice. Qed.
Print Assumptions C17_print_twice_refuted.

(* partial, and the exact boundary of F3: in every namespace in which no definition that contains a @print is referred to
   by another definition, a successful read_namespace delivers exactly the directives of the targets - target by target in
   reading order, each directive once, with the path of its own file and its own physical line.
   Missing for the full statement: @print inside referenced definitions - there it is false (C17_print_refuted). *)
Theorem C17_print_once_here_partial : forall (T V : Type) (fs : list (file T V)),
  (forall d f, referenced T V fs d -> find_file T V fs d = Some f -> print_free T V f) ->
  forall lk ts ps, NoDup ts -> read_ns T V fs lk ts = (ps, None) -> ps = flat_map (target_deliveries T V fs) ts.
Proof. exact prints_outside_f3. Qed.
Print Assumptions C17_print_once_here_partial.

(* partial, inside arbitrary namespaces: a definition without versioned types that is read as a target gets each of its
   directives delivered exactly once, in order, with its own path and its own physical line *)
Theorem C17_print_leaf_target_partial : forall (T V : Type) fuel (fs : list (file T V)) lk t f w w',
  find_file T V fs t = Some f -> f_syntax T V f = None -> f_lines T V f <> [] -> Forall (no_reads T V Z) (f_lines T V f) ->
  memz t (pool w) = false ->
  read_targets T V (S fuel) fs lk [t] w = (w', None) ->
  prints w' = prints w ++ map (fun ns => (f_path T V f, fst ns, snd ns)) (print_dirs T V 1 (f_lines T V f)).
Proof. exact leaf_target_prints. Qed.
Print Assumptions C17_print_leaf_target_partial.

(* non-vacuity: the hypotheses of the line theorems are satisfiable and the model computes on them (repaired F2, F1, F8) *)
Example C17_nonvacuous :
  read_ns unit unit [File 1 pA None [L (fld [116] true); Lc [32; 99]; Lc [32; 100]; L (fld [98] false); L sealed]] [1] [1] = ([], Some (ELoc (Some pA) (Some 1)))
  /\ read_ns unit unit [File 1 pA None [Line (Some (print [97])) false None 1; L (Stmt [PIdent] (XDir KAssert (GBool false) []))]] [1] [1]
     = ([(pA, 1, [97])], Some (ELoc (Some pA) (Some 3))).
Proof. split; [exact f2_example|exact f8_example]. Qed.
