(* C17 - errors and @print output are attributed to the right file and line.  Statements only. *)
From Coq Require Import ZArith List Bool.
From PV Require Import Builder.Lines Builder.Basics Builder.LineProofs.
Import ListNotations.
Open Scope Z_scope.

(* the line counter while the line that follows ls is visited equals the physical line on which that line starts,
   whatever ls contains: comments, blank lines, statements, string literals that span several lines (l_extra) *)
Theorem C17_line_counter : forall (T V D W : Type) (read_dep : D -> W -> W * option eloc) (emit : Z -> text -> W -> W)
  (ls : list (line T V D)) (w : W) (s : st T V W),
  run_upto T V D W read_dep emit ls (init T V W w) = Ok s -> line_no T V W s = phys_after T V D 1 ls.
Proof. intros. apply (line_counter T V D W read_dep emit ls _ _ H). Qed.
Print Assumptions C17_line_counter.
