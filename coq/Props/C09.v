(* C09 - Versioned references resolve to exactly the named definition or fail cleanly. Statements only.
   Model: Namespace/Reader.v (resolve, read = reading one definition without cache, readS = with the per-object
   cache / visitor / handler).  Proofs: Namespace/ReaderProofs.v, ReadPure.v, ReadCache.v. *)
From Coq Require Import ZArith List Bool Permutation.
From PV Require Import Namespace.Reader Namespace.ReaderProofs Namespace.ReadPure Namespace.ReadCache Namespace.LoopProofs Namespace.FilesProofs.
Import ListNotations.
Open Scope Z_scope.

(* A reference is resolved to d exactly when d is the ONLY lookup whose lower-cased full name equals the lower-cased
   completed reference (a name without dots is relative to the referrer's namespace) and whose version is the
   requested one, and d's name is spelled exactly like the reference *)
Theorem C09_resolve_exact : forall me n a b L d,
  resolve me n a b L = RFound d <->
  filter (cand (complete me n) a b) L = [d] /\ mname d = complete me n.
Proof. exact resolve_found_iff. Qed.
Print Assumptions C09_resolve_exact.

(* ... hence never to another version, another namespace, or one of several candidates *)
Theorem C09_resolve_never_other : forall me n a b L d,
  resolve me n a b L = RFound d ->
  In d L /\ mname d = complete me n /\ mmaj d = a /\ mmin d = b /\
  forall e, In e L -> lower (mname e) = lower (complete me n) -> mmaj e = a -> mmin e = b -> e = d.
Proof. exact resolve_found_props. Qed.
Print Assumptions C09_resolve_never_other.

(* missing => Undefined; two or more candidates => a collision error; one candidate in another letter case => error *)
Theorem C09_errors : forall me n a b L,
  (resolve me n a b L = RUndefined <-> forall e, In e L -> cand (complete me n) a b e = false) /\
  (forall x y r, filter (cand (complete me n) a b) L = x :: y :: r ->
     resolve me n a b L = RCollision \/ resolve me n a b L = RCaseCollision) /\
  (forall d, filter (cand (complete me n) a b) L = [d] -> mname d <> complete me n -> resolve me n a b L = RCaseCollision).
Proof.
  intros. split; [apply resolve_undefined_iff|]. split; [apply resolve_many|apply resolve_single_wrong_case].
Qed.
Print Assumptions C09_errors.

(* fuel = length of the lookup list + 1 always suffices: the list shrinks with every level of recursion (this is
   what stops self references and cycles), without and with the cache *)
Theorem C09_terminates : forall txt d L tk c,
  read_top txt d L <> Err EFuel /\ readS txt (S (length L)) tk d L c <> Err EFuel.
Proof. intros. split; [apply read_top_terminates|apply readS_top_terminates]. Qed.
Print Assumptions C09_terminates.

(* a definition that reaches its own name and version through exactly spelled references (self reference included)
   is reported as invalid from every entry point of the cycle, whatever else the lookup list contains *)
Theorem C09_cycles : forall txt L d e,
  reaches txt L d e -> mkey e = mkey d ->
  (forall f K t, read txt f d (fk K L) <> Ok t) /\ exists err, read_top txt d L = Err err /\ err <> EFuel.
Proof. intros. split; [eapply read_cycle; eassumption|eapply read_top_cycle; eassumption]. Qed.
Print Assumptions C09_cycles.

(* the nested type of every field, at any depth, is what reading that definition on its own yields *)
Theorem C09_standalone : forall txt L, case_unique L -> forall d t, read_top txt d L = Ok t ->
  forall t', sdesc t' t -> exists d', In d' L /\ tkey t' = mkey d' /\ tfile t' = mfile d' /\ read_top txt d' L = Ok t'.
Proof. exact read_standalone. Qed.
Print Assumptions C09_standalone.

(* along every path of a returned tree all (name, version) pairs differ *)
Theorem C09_acyclic : forall txt L d t t', read_top txt d L = Ok t -> sdesc t' t -> tkey t' <> mkey d.
Proof.
  intros txt L d t t' H Hd. unfold read_top in H. rewrite <- (fk_all L) in H.
  exact (proj2 (read_desc_key txt L t' t Hd _ _ _ H)).
Qed.
Print Assumptions C09_acyclic.

(* any sequence of top-level reads - target objects or lookup objects, any order, repetitions - threading the
   per-object cache returns, up to the first failure, exactly what reading each definition on its own returns,
   and fails exactly where that fails *)
Theorem C09_cache_order : forall txt L, case_unique L -> files_unique L -> forall os,
  (forall o, In o os -> In (snd o) L) ->
  read_seq txt L [] os = pure_seq txt L (map snd os).
Proof. intros. apply read_seq_pure; try assumption. apply cinv_nil. Qed.
Print Assumptions C09_cache_order.

(* the loop of _read_definitions over a list of targets fails exactly when one of the targets cannot be read on its
   own (missing / ambiguous / wrongly spelled / cyclic reference, invalid text), independent of the order of the
   targets; strict_unique = case_unique and no duplicates *)
Theorem C09_reported : forall txt L, strict_unique L -> files_unique L -> forall targets,
  NoDup targets -> (forall d, In d targets -> In d L) ->
  ((exists st, run_targets txt L st0 targets = Ok st) <-> forall d, In d targets -> exists t, read_top txt d L = Ok t).
Proof. exact run_targets_ok_iff. Qed.
Print Assumptions C09_reported.

(* ... and what _complete_read_function returns does not depend on the order in which the targets are read *)
Theorem C09_target_order : forall txt L, strict_unique L -> files_unique L -> forall T1 T2,
  Permutation T1 T2 -> NoDup T1 -> (forall d, In d T1 -> In d L) ->
  match complete_read txt T1 L, complete_read txt T2 L with
  | Ok o1, Ok o2 => odirect o1 = odirect o2 /\ otrans o1 = otrans o2
  | Err _, Err _ => True
  | _, _ => False
  end.
Proof. exact complete_read_target_order. Qed.
Print Assumptions C09_target_order.

(* Without case_unique the statement of C09_standalone is false (open finding F7): ns.A.1.0 has a field X.1.0,
   ns.X.1.0 has a field ns.a.1.0, and ns.a.1.0 exists next to ns.A.1.0.  Reading A succeeds (A itself is not a
   candidate while X is resolved below it), but X read on its own is ambiguous. *)
Definition f7_ns : str := [110; 115].
Definition f7_A := mkMeta f7_ns [65] 1 0 None 0.
Definition f7_a := mkMeta f7_ns [97] 1 0 None 1.
Definition f7_X := mkMeta f7_ns [88] 1 0 None 2.
Definition f7_L := [f7_A; f7_X; f7_a].
Definition f7_txt (f : Z) : list item :=
  if f =? 0 then [Ref [88] 1 0 0] else if f =? 2 then [Ref [110; 115; 46; 97] 1 0 0] else [Plain 8].

Theorem C09_standalone_refuted : exists txt L d t t',
  read_top txt d L = Ok t /\ sdesc t' t /\
  ~ exists d', In d' L /\ tkey t' = mkey d' /\ read_top txt d' L = Ok t'.
Proof.
  exists f7_txt, f7_L, f7_A.
  exists (Node 0 (mname f7_A) 1 0 8 [Node 2 (mname f7_X) 1 0 8 [Node 1 (mname f7_a) 1 0 8 []]]).
  exists (Node 2 (mname f7_X) 1 0 8 [Node 1 (mname f7_a) 1 0 8 []]).
  split; [vm_compute; reflexivity|]. split; [apply sd_kid; left; reflexivity|].
  intros [d' [Hin [Hk Hr]]]. simpl in Hin. destruct Hin as [E|[E|[E|[]]]]; subst d'; vm_compute in Hr; discriminate.
Qed.
Print Assumptions C09_standalone_refuted.

(* non-vacuity: a diamond with two versions and a relative reference satisfies the hypotheses; the model computes *)
Definition ex_ns : str := [110; 115].
Definition ex_A := mkMeta ex_ns [65] 1 0 None 0.
Definition ex_B := mkMeta ex_ns [66] 1 0 None 1.
Definition ex_C := mkMeta ex_ns [67] 1 0 None 2.
Definition ex_D := mkMeta ex_ns [68] 1 0 None 3.
Definition ex_D2 := mkMeta ex_ns [68] 1 1 None 4.
Definition ex_L := [ex_A; ex_B; ex_C; ex_D2; ex_D].
Definition ex_txt (f : Z) : list item :=
  if f =? 0 then [Ref [66] 1 0 0; Ref [110; 115; 46; 67] 1 0 2]
  else if f =? 1 then [Ref [68] 1 0 0] else if f =? 2 then [Ref [68] 1 0 0; Print] else [Plain 16].
Example C09_nonvacuous :
  case_unique ex_L /\ files_unique ex_L /\
  read_top ex_txt ex_A ex_L =
    Ok (Node 0 (mname ex_A) 1 0 48 [Node 1 (mname ex_B) 1 0 16 [Node 3 (mname ex_D) 1 0 16 []];
                                     Node 2 (mname ex_C) 1 0 16 [Node 3 (mname ex_D) 1 0 16 []]]).
Proof.
  split; [apply case_uniqueb_ok; vm_compute; reflexivity|]. split; [|vm_compute; reflexivity].
  unfold files_unique. simpl. repeat constructor; simpl; intuition discriminate.
Qed.
