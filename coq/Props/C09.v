(* C09 - Versioned references resolve to exactly the named definition or fail cleanly. Statements only. *)
From Coq Require Import ZArith List Bool.
From PV Require Import Namespace.Reader Namespace.ReaderProofs.
Import ListNotations.
Open Scope Z_scope.

(* A reference is resolved to d exactly when d is the ONLY lookup whose lower-cased full name equals the lower-cased
   completed reference and whose version is the requested one, and d's name is spelled exactly like the reference *)
Theorem C09_resolve_exact : forall me n a b L d,
  resolve me n a b L = RFound d <->
  filter (cand (complete me n) a b) L = [d] /\ mname d = complete me n.
Proof. exact resolve_found_iff. Qed.
Print Assumptions C09_resolve_exact.

(* ... hence never to another version, another namespace, or one of several candidates *)
Theorem C09_resolve_never_other : forall me n a b L d,
  resolve me n a b L = RFound d ->
  In d L /\ mname d = complete me n /\ mmaj d = a /\ mmin d = b /\
  forall e, In e L -> lower (mname e) = lower (complete me n) -> mmaj e = a -> mmin e = b -> e = d.
Proof. exact resolve_found_props. Qed.
Print Assumptions C09_resolve_never_other.
