(* C04 - Constant expressions evaluate exactly, with the Specification's precedence.  Statements only.

   eval  = the mechanism of pydsdl/_expression (per-class methods, _auto_swap, element-wise sets, Python Fraction % and ** )
   sem   = the Specification's operator tables in exact rational arithmetic (stdlib Q)
   Derives = the Expressions section of grammar.parsimonious as a derivation relation over tokens
   Unspec (powers with non-integer exponents, min/max over two or more sets) is outside the property's quantifier. *)
From Coq Require Import ZArith QArith Qround List Bool.
From PV Require Import Expr.Values Expr.Syntax Expr.Literals Expr.Sem Expr.Eval Expr.Grammar Expr.Spec
  Expr.Parser Expr.ProofsArith Expr.ProofsEval Expr.ProofsGrammar Expr.ProofsRejects Expr.ProofsLit Expr.ProofsSet
  Expr.ProofsParser Expr.ProofsRoundtrip.
Import ListNotations.
Open Scope Q_scope.

(* the dispatch incl. operand swapping computes the Specification's table - for all expression trees and environments *)
Theorem C04_eval_exact : forall g e, eval g e = sem g e.
Proof. exact eval_exact. Qed.
Print Assumptions C04_eval_exact.

Theorem C04_eval_exact_op : forall o l r, disp o l r = sem_bin o l r.
Proof. exact disp_sem. Qed.
Print Assumptions C04_eval_exact_op.

(* exact rational arithmetic: Python's Fraction % is a - b*floor(a/b), Fraction ** n is the n-th power, and
   ZeroDivisionError arises exactly for 0 ** negative *)
Theorem C04_mod_exact : forall p q, (Qnum q <> 0)%Z -> py_mod p q == p - q * inject_Z (Qfloor (p / q)).
Proof. exact py_mod_correct. Qed.
Print Assumptions C04_mod_exact.

Theorem C04_pow_exact : forall a n,
  match py_pow_int a n with
  | Some x => x == Qpower a n /\ ~ (a == 0 /\ (n < 0)%Z)
  | None => a == 0 /\ (n < 0)%Z
  end.
Proof. exact py_pow_correct. Qed.
Print Assumptions C04_pow_exact.

(* exactly the operand combinations outside the table are rejected (operands that are not sets) *)
Theorem C04_rejects : forall o a b, is_set a = false -> is_set b = false ->
  (sem_scalar o a b = Rej <-> ~ Defined o a b).
Proof. exact scalar_rejects. Qed.
Print Assumptions C04_rejects.

(* two sets: defined for comparison and algebra operators on equal element kinds; empty results are rejected *)
Theorem C04_rejects_sets : forall o la lb, wf_set la -> wf_set lb ->
  (sem_setset o la lb = Rej <->
   is_setop o = false \/ opt_kind_eqb (elem_kind la) (elem_kind lb) = false
   \/ (o = BBand /\ vinter la lb = []) \/ (o = BXor /\ vsymdiff la lb = [])).
Proof. exact setset_rejects. Qed.
Print Assumptions C04_rejects_sets.

(* a set and a scalar: only arithmetic operators, applied element by element with the scalar on its own side;
   one failing element rejects the whole *)
Theorem C04_rejects_set_scalar : forall o l b, is_set b = false ->
  (sem_bin o (VSet l) b = (if is_arith o then set_of (map (fun x => lift_l o b x) l) else Rej)
   /\ sem_bin o b (VSet l) = (if is_arith o then set_of (map (fun x => lift_r o b x) l) else Rej))
  /\ (forall rs, In Rej rs -> set_of rs = Rej).
Proof. intros o l b H. split; [apply setscalar; assumption|exact set_of_rej_elem]. Qed.
Print Assumptions C04_rejects_set_scalar.

(* unary operators, attributes of non-sets, unknown attributes, the empty set literal, unknown identifiers,
   heterogeneous sets *)
Theorem C04_rejects_misc :
  (forall o v, sem_un o v <> Rej <-> (o = UNot /\ exists b, v = VBool b) \/ (o <> UNot /\ exists q, v = VRat q))
  /\ (forall bin n v, is_set v = false -> attr bin n v = Rej)
  /\ (forall bin n l, text_eqb n name_min = false -> text_eqb n name_max = false -> text_eqb n name_count = false ->
        attr bin n (VSet l) = Rej)
  /\ (forall bin g, eval_with bin g (ESet []) = Rej)
  /\ (forall bin n, eval_with bin [] (EIdent n) = Rej)
  /\ (forall l, homogeneous l = false -> mkset l = Rej).
Proof. exact misc_rejects. Qed.
Print Assumptions C04_rejects_misc.

(* the text we feed has, by the grammar's own rules, the tree that is evaluated; parentheses only group *)
Theorem C04_precedence : forall e,
  Derives 0 (render_min e) (parenthesize e)
  /\ strip (parenthesize e) = strip e
  /\ (forall g, eval g (parenthesize e) = eval g e).
Proof.
  intros e. split; [apply render_min_derives|]. split; [apply strip_parenthesize|]. intros g. apply eval_parenthesize.
Qed.
Print Assumptions C04_precedence.

(* The expression rules as a deterministic parser with PEG semantics (ordered choice, greedy repetition, optional
   group): whatever it returns is a derivation of the grammar, and it reads the rendering of ANY tree back as exactly
   that tree - so the rendered text has no second reading under the model of the PEG. *)
Theorem C04_parser_sound : forall ts e, parse_expr ts = Some e -> Derives 0 ts e.
Proof. exact parse_sound. Qed.
Print Assumptions C04_parser_sound.

Theorem C04_precedence_roundtrip : forall e, parse_expr (render_min e) = Some (parenthesize e).
Proof. exact parse_render. Qed.
Print Assumptions C04_precedence_roundtrip.

(* consequently two trees that differ by more than parentheses never render to the same text *)
Theorem C04_render_injective : forall e1 e2, render_min e1 = render_min e2 -> strip e1 = strip e2.
Proof. exact render_injective. Qed.
Print Assumptions C04_render_injective.

(* a-b-c groups left, a**b**c groups right, -a**b is -(a**b), a**-b is allowed, || and && share one level,
   * binds tighter than +, ! applies to the whole comparison *)
Theorem C04_precedence_probes :
  Derives 0 [t1; TSym (SBin BSub); t2; TSym (SBin BSub); t3] (EBin BSub (EBin BSub n1 n2) n3)
  /\ render_min (EBin BSub n1 (EBin BSub n2 n3)) = [t1; TSym (SBin BSub); TSym SLPar; t2; TSym (SBin BSub); t3; TSym SRPar]
  /\ Derives 0 [t1; TSym (SBin BPow); t2; TSym (SBin BPow); t3] (EBin BPow n1 (EBin BPow n2 n3))
  /\ Derives 0 [TSym (SBin BSub); t1; TSym (SBin BPow); t2] (EUn UNeg (EBin BPow n1 n2))
  /\ Derives 0 [t1; TSym (SBin BPow); TSym (SBin BSub); t2] (EBin BPow n1 (EUn UNeg n2))
  /\ Derives 0 [TLit (LBool true); TSym (SBin BOr); TLit (LBool false); TSym (SBin BAnd); TLit (LBool false)]
               (EBin BAnd (EBin BOr bt bf) bf)
  /\ Derives 0 [t1; TSym (SBin BAdd); t2; TSym (SBin BMul); t3] (EBin BAdd n1 (EBin BMul n2 n3))
  /\ Derives 0 [TSym SBang; TLit (LBool true); TSym (SBin BEq); TLit (LBool false)] (EUn UNot (EBin BEq bt bf)).
Proof.
  repeat split.
  - exact probe_sub_left. - exact probe_pow_right. - exact probe_neg_pow. - exact probe_pow_neg.
  - exact probe_or_and_one_level. - exact probe_mul_over_add. - exact probe_not_over_cmp.
Qed.
Print Assumptions C04_precedence_probes.

(* literals: positional value in the four bases with separators; every literal the grammar accepts has a value;
   plain strings decode to themselves; reals are decimal fractions *)
Theorem C04_literals :
  (forall base l acc, digits_val base acc l = option_map (positional base acc) (digit_list base l))
  /\ (forall text, int_wf text = true -> exists z, int_value text = Some z)
  /\ (forall ds, int_value (48 :: 120 :: ds)%Z = digits_val 16 0 ds /\ int_value (48 :: 111 :: ds)%Z = digits_val 8 0 ds
                 /\ int_value (48 :: 98 :: ds)%Z = digits_val 2 0 ds)
  /\ (forall q s, is_quote q = true -> forallb (fun c => negb (c =? 92)%Z) s = true -> str_value (q :: s ++ [q]) = Some s).
Proof.
  split; [exact digits_positional|]. split; [exact int_wf_decodes|]. split; [|exact str_plain].
  intros ds. destruct (int_prefixes ds) as [A [_ [B [_ [C _]]]]]. auto.
Qed.
Print Assumptions C04_literals.

Theorem C04_literal_escapes :
  str_value [39; 92; 110; 92; 114; 92; 116; 92; 92; 92; 39; 92; 34; 39]%Z = Some [10; 13; 9; 92; 39; 34]%Z
  /\ str_value [34; 92; 78; 92; 82; 92; 84; 34]%Z = Some [10; 13; 9]%Z
  /\ str_value [39; 92; 117; 48; 48; 101; 57; 39]%Z = Some [233]%Z
  /\ str_value [39; 92; 85; 48; 48; 49; 48; 70; 70; 70; 70; 39]%Z = Some [1114111]%Z
  /\ str_value [39; 92; 85; 48; 48; 49; 49; 48; 48; 48; 48; 39]%Z = None
  /\ str_value [39; 92; 120; 52; 49; 39]%Z = None
  /\ str_value [39; 92; 117; 49; 50; 39]%Z = None.
Proof. exact str_escapes. Qed.
Print Assumptions C04_literal_escapes.

Theorem C04_literal_reals : forall text iv fv,
  opt_val (rp_int (real_split text)) = Some iv -> opt_val (rp_frac (real_split text)) = Some fv ->
  rp_exp (real_split text) = None ->
  exists q, real_value text = Some q
            /\ q == inject_Z iv + inject_Z fv / inject_Z (10 ^ ndigits (rp_frac (real_split text))).
Proof. intros text iv fv H1 H2 H3. exact (real_value_formula text iv fv H1 H2 H3). Qed.
Print Assumptions C04_literal_reals.

(* sets: value equality is an equivalence; | & ^ are union, intersection, symmetric difference; <= is subset;
   == is set equality; results carry no duplicates; element-wise application is the map *)
Theorem C04_set_laws :
  (forall v, value_eqb v v = true)
  /\ (forall a b, value_eqb a b = value_eqb b a)
  /\ (forall a b c, value_eqb a b = true -> value_eqb b c = true -> value_eqb a c = true)
  /\ (forall x a b, vmem x (vunion a b) = vmem x a || vmem x b)
  /\ (forall x a b, vmem x (vinter a b) = vmem x a && vmem x b)
  /\ (forall x a b, vmem x (vsymdiff a b) = xorb (vmem x a) (vmem x b))
  /\ (forall a b, vsubset a b = true <-> forall x, vmem x a = true -> vmem x b = true)
  /\ (forall a b, value_eqb (VSet a) (VSet b) = true <-> forall x, vmem x a = vmem x b)
  /\ (forall l, vnodup (vdedup l) = true)
  /\ (forall o b l, lift_l o b (VSet l) = set_of (map (lift_l o b) l) /\ lift_r o b (VSet l) = set_of (map (lift_r o b) l)).
Proof.
  split; [exact value_eqb_refl|]. split; [exact value_eqb_sym|]. split; [exact value_eqb_trans|].
  split; [exact vmem_union|]. split; [exact vmem_inter|]. split; [exact vmem_symdiff|]. split; [exact vsubset_spec|].
  split; [intros a b; rewrite set_value_eqb; apply vseteq_spec|]. split; [exact vnodup_dedup|exact elementwise_is_map].
Qed.
Print Assumptions C04_set_laws.

(* min / max of a set of rationals are the least / greatest element, independent of the element order *)
Theorem C04_min_max : forall a qs,
  (exists m, reduce_with (sem_bin BLt) (map VRat (a :: qs)) = Ok (VRat m) /\ In m (a :: qs) /\ forall x, In x (a :: qs) -> m <= x)
  /\ (exists m, reduce_with (sem_bin BGt) (map VRat (a :: qs)) = Ok (VRat m) /\ In m (a :: qs) /\ forall x, In x (a :: qs) -> x <= m).
Proof. intros a qs. split; [apply min_of_rationals|apply max_of_rationals]. Qed.
Print Assumptions C04_min_max.

(* non-vacuity: a tree with every level of the grammar evaluates, and its minimal rendering needs parentheses only
   around the unary minus under ** *)
Definition ex_expr : expr :=
  EBin BOr (EBin BLt (EBin BAdd n1 (EBin BMul n2 (EBin BPow (EUn UNeg n2) n3))) (EAttr (ESet [n1; n2; n3]) name_max))
           (EUn UNot bt).
Example C04_nonvacuous :
  eval [] ex_expr = Ok (VBool true)
  /\ sem [] ex_expr = Ok (VBool true)
  /\ Derives 0 (render_min ex_expr) (parenthesize ex_expr)
  /\ List.length (filter (fun t => token_eqb t (TSym SLPar)) (render_min ex_expr)) = 1%nat.
Proof.
  split; [vm_compute; reflexivity|]. split; [vm_compute; reflexivity|]. split; [apply render_min_derives|vm_compute; reflexivity].
Qed.
