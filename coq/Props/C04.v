(* C04 - placeholder while the proofs are being written *)
From Coq Require Import ZArith QArith List Bool.
From PV Require Import Expr.Values Expr.Syntax Expr.Sem Expr.Eval Expr.Grammar.
Theorem C04_par_transparent : forall g e, eval g (EPar e) = eval g e.
Proof. reflexivity. Qed.
Print Assumptions C04_par_transparent.
