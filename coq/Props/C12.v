(* C12 - Constants are always compliant with their declared type. Statements only. *)
From Coq Require Import ZArith QArith List Bool.
From PV Require Import Expr.Values Const.Model Const.Spec Const.Proofs.
Import ListNotations.

(* inclusive_value_range of the integer types is the textbook range, for every width (no upper bound on w needed) *)
Theorem C12_int_ranges : forall w tr,
  value_range (TUInt w tr) = Some (inject_Z 0, inject_Z (2 ^ w - 1))
  /\ ((1 <= w)%Z -> value_range (TSInt w tr) = Some (inject_Z (- 2 ^ (w - 1)), inject_Z (2 ^ (w - 1) - 1))).
Proof. intros. split; [apply int_ranges_u|apply int_ranges_s]. Qed.
Print Assumptions C12_int_ranges.

(* the float limit computed by the code's formula is the largest finite IEEE 754 value, an exact integer *)
Theorem C12_float_ranges : forall w m, float_mag w = Some m ->
  exists emax p, float_params w = Some (emax, p)
    /\ m == inject_Z (2 ^ emax) * (2 - Qpower 2 (- p))
    /\ m = inject_Z ((2 ^ (p + 1) - 1) * 2 ^ (emax - p)).
Proof. exact float_ranges. Qed.
Print Assumptions C12_float_ranges.

(* accepted if and only if the declarative rules hold - every width, signedness, cast mode, both sides of every boundary *)
Theorem C12_accept_iff : forall t v v', ctype_ok t = true -> (const_check t v = COk v' <-> ConstSpec t v v').
Proof. exact accept_iff. Qed.
Print Assumptions C12_accept_iff.

Theorem C12_compliant : forall t v v', ctype_ok t = true -> const_check t v = COk v' -> Compliant t v'.
Proof. exact compliant. Qed.
Print Assumptions C12_compliant.

(* never rounded or converted *)
Theorem C12_exact : forall t q v', const_check t (VRat q) = COk v' -> v' = VRat q.
Proof. exact exact. Qed.
Print Assumptions C12_exact.

(* only boolean, integer and float types carry constants; what is stored is a rational or (for bool only) a boolean *)
Theorem C12_only_prims : forall t v v', const_check t v = COk v' ->
  t <> TNonPrim /\ (exists q, v' = VRat q) \/ (t = TBool /\ exists b, v' = VBool b).
Proof. exact only_prims. Qed.
Print Assumptions C12_only_prims.

Theorem C12_nonprim_rejected : forall v, const_check TNonPrim v = CRej.
Proof. exact nonprim_rejected. Qed.
Print Assumptions C12_nonprim_rejected.

(* strings that cannot be encoded (lone surrogates) are rejected for every type (repaired F9) *)
Theorem C12_surrogate_rejected : forall t s, lone_surrogate s -> const_check t (VStr s) = CRej.
Proof. exact surrogate_rejected. Qed.
Print Assumptions C12_surrogate_rejected.

(* through definition text: exactly the constructor's verdict, for types that can be constructed and aggregated *)
Theorem C12_text_channel : forall t v v', const_text t v = COk v' <->
  ctype_ok t = true /\ t <> TByte /\ t <> TUtf8 /\ const_check t v = COk v'.
Proof. exact text_channel. Qed.
Print Assumptions C12_text_channel.

(* non-vacuity: both sides of a boundary, a character constant, a float limit *)
Example C12_nonvacuous :
  const_check (TSInt 64 false) (VRat (inject_Z (- 2 ^ 63))) = COk (VRat (inject_Z (- 2 ^ 63)))
  /\ const_check (TSInt 64 false) (VRat (inject_Z (- 2 ^ 63 - 1))) = CRej
  /\ const_check (TUInt 8 true) (VStr [97%Z]) = COk (VRat (inject_Z 97))
  /\ const_check (TFloat 16 false) (VRat (655040001 # 10000)) = CRej
  /\ const_check (TFloat 16 false) (VRat (65504 # 1)) = COk (VRat (65504 # 1)).
Proof. repeat split; vm_compute; reflexivity. Qed.
