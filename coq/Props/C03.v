(* C03 - the model mirrors the source text, independent of formatting.  Statements only. *)
From Coq Require Import ZArith List Bool.
From PV Require Import Builder.Lines Builder.Basics.
Import ListNotations.
Open Scope Z_scope.

(* every way the text can end: a final line feed (an additional empty last line) changes neither the model nor the
   world nor an error, for every line list, all payloads, all dependency readers and print handlers *)
Theorem C03_final_newline : forall (T V D W : Type) (read_dep : D -> W -> W * option eloc) (emit : Z -> text -> W -> W)
  (ls : list (line T V D)) (w : W), ls <> [] ->
  run T V D W read_dep emit (ls ++ [empty_line]) w = run T V D W read_dep emit ls w.
Proof. exact final_newline. Qed.
Print Assumptions C03_final_newline.
