(* C03 - the model mirrors the source text, independent of formatting.  Statements only.
   Machine: Builder/Lines.v; declarative content of a text: Builder/Spec.v.  All theorems hold for every payload type,
   every dependency reader and print handler. *)
From Coq Require Import ZArith List Bool.
From PV Require Import Builder.Lines Builder.Basics Builder.Spec Builder.Mirror Builder.Blank Builder.Extra Builder.ExtraFull Builder.Render Builder.RenderProofs.
Import ListNotations.
Open Scope Z_scope.

Section S.
Variables T V D W : Type.
Variable read_dep : D -> W -> W * option eloc.
Variable emit : Z -> text -> W -> W.
Notation line := (line T V D).
Notation run := (run T V D W read_dep emit).

(* whenever a text is accepted, the returned model is the declaratively defined content of the text:
   - fields/paddings and constants are the attribute statements of the section in source order (attrs_of), each with the
     doc that doc_of assigns: the comment on its own line and the comment lines that follow up to the next statement or
     empty line;
   - the header doc is made of the comment lines in front of the first statement / empty line of the section (for the
     response: starting with the comment on the marker line);
   - union / extent-or-sealed / deprecated are exactly the directives of the section (exactly one mode directive);
   - the text is a service iff it has a marker line, the sections are the lines before and after the first marker, and
     there is no second one *)
Theorem C03_mirror : forall (ls : list line) (w : W) (m : model T V) (w' : W), run ls w = Ok (m, w') ->
  m_deprecated T V m = has_dir T V D KDeprecated ls
  /\ match split_marker T V D ls with
     | (rq, None) => mirrors T V D (lead T V D rq) rq (m_req T V m) /\ m_resp T V m = None
     | (rq, Some (ml, rs)) => mirrors T V D (lead T V D rq) rq (m_req T V m)
                              /\ exists k, m_resp T V m = Some k /\ mirrors T V D (own T V D ml ++ lead T V D rs) rs k
                                           /\ no_marker T V D rs
     end.
Proof. exact (mirror T V D W read_dep emit). Qed.

(* "each exactly once, in source order": the attributes of a mirrored section, docs dropped, are the attribute statements *)
Theorem C03_mirror_once : forall hdr (ls : list line) (k : sect T V), mirrors T V D hdr ls k ->
  map fst (k_fields T V k) = filter (fieldlike T V) (stmt_attrs T V D ls)
  /\ map fst (k_consts T V k) = filter (fun a => negb (fieldlike T V a)) (stmt_attrs T V D ls).
Proof. exact (mirrors_once T V D). Qed.

(* every way the text can end: a final line feed (an additional empty last line) changes neither the model nor the
   world nor an error *)
Theorem C03_final_newline : forall (ls : list line) (w : W), ls <> [] -> run (ls ++ [empty_line]) w = run ls w.
Proof. exact (final_newline T V D W read_dep emit). Qed.

(* a blanks-only line inserted anywhere (also as the last line) changes neither acceptance nor the model nor the world,
   provided the world does not record the line numbers passed to the print handler (they do shift) *)
Theorem C03_blank_lines : (forall n n' t w, emit n t w = emit n' t w) ->
  forall (p r : list line) (w : W), p ++ r <> [] ->
  outcome T V W (run (p ++ blank_line T V D :: r) w) = outcome T V W (run (p ++ r) w).
Proof. exact (blank_lines T V D W read_dep emit). Qed.

(* an extra comment line inserted anywhere changes neither acceptance nor the world nor anything in the model but docs
   (same proviso about line numbers passed to the print handler) *)
Theorem C03_extra_comment_lines : (forall n n' t w, emit n t w = emit n' t w) ->
  forall (p : list line) (x : line) (r : list line) (w : W),
  l_stmt T V D x = None -> l_comment T V D x <> None -> p ++ r <> [] ->
  outcome_undoc T V W (run (p ++ x :: r) w) = outcome_undoc T V W (run (p ++ r) w).
Proof. exact (comment_lines T V D W read_dep emit). Qed.

(* an extra empty line inserted anywhere (an earlier flush) changes neither acceptance nor the world nor anything in the
   model but docs, provided no later statement evaluates _offset_ before it has visited an identifier (gl_line: true of
   every statement of the grammar, where _offset_ is itself an identifier) *)
Theorem C03_extra_empty_lines : (forall n n' t w, emit n t w = emit n' t w) ->
  forall (p r : list line) (w : W), Forall (gl_line T V D) r -> p ++ r <> [] ->
  outcome_undoc T V W (run (p ++ empty_line :: r) w) = outcome_undoc T V W (run (p ++ r) w).
Proof. exact (empty_lines T V D W read_dep emit). Qed.

(* any two accepted texts with the same statements (comments moved, removed, added; separator lines changed) yield models
   that differ in docs only.  Partial: acceptance of both is assumed here (for single inserted lines it is proved above) *)
Theorem C03_same_statements_partial : forall (ls1 ls2 : list line) (w1 w2 : W) m1 m2 w1' w2',
  sk T V D ls1 = sk T V D ls2 -> run ls1 w1 = Ok (m1, w1') -> run ls2 w2 = Ok (m2, w2') -> undoc T V m1 = undoc T V m2.
Proof. exact (same_statements T V D W read_dep emit). Qed.

(* rendering a model back to canonical DSDL (header comments, @deprecated, @union, every attribute with its doc as the
   comment on its line and on the following lines, @sealed / @extent, --- and the response likewise) and reading that
   again yields the same model - for every model the machine can produce (wf_model: fields are fields, constants are
   constants, no doc starts with a line feed, unions have two variants) *)
Theorem C03_render : forall (m : model T V) (w : W), wf_model T V m -> exists w', run (render T V D m) w = Ok (m, w').
Proof. exact (render_reads_back T V D W read_dep emit). Qed.

End S.
Print Assumptions C03_render.
Print Assumptions C03_mirror.
Print Assumptions C03_mirror_once.
Print Assumptions C03_final_newline.
Print Assumptions C03_blank_lines.
Print Assumptions C03_extra_comment_lines.
Print Assumptions C03_extra_empty_lines.
Print Assumptions C03_same_statements_partial.

(* non-vacuity: a service definition with header docs, a field whose doc continues on a comment line, a padding, a
   constant, a union response, and no final line feed ("# h / @deprecated / uint8 a # d / # d2 / void3 / X = 5 / @extent 64 /
   --- # rh / @union / a / b / @sealed"): the machine accepts it, the hypotheses of C03_mirror and C03_render are met *)
Definition ex_lines : list (line unit Z unit) :=
  [ Line None false (Some [32; 104]) 0;
    Line (Some (Stmt [PIdent] (XDir KDeprecated GNone []))) false None 0;
    Line (Some (Stmt [PIdent] (XAttr (AField tt [97]) false))) false (Some [32; 100]) 0;
    Line None false (Some [32; 100; 50]) 0;
    Line (Some (Stmt [] (XAttr (APad tt) false))) false None 0;
    Line None true None 0;
    Line (Some (Stmt [PIdent] (XAttr (AConst tt [88] 5) false))) false None 0;
    Line (Some (Stmt [PIdent] (XDir KExtent (GInt 64) []))) false None 0;
    Line (Some (Stmt [] XMarker)) false (Some [32; 114; 104]) 0;
    Line (Some (Stmt [PIdent] (XDir KUnion GNone []))) false None 0;
    Line (Some (Stmt [PIdent] (XAttr (AField tt [97]) false))) false None 0;
    Line (Some (Stmt [PIdent] (XAttr (AField tt [98]) false))) false None 0;
    Line (Some (Stmt [PIdent] (XDir KSealed GNone []))) false None 0 ].
Definition ex_model : model unit Z :=
  Model unit Z true
    (Sect unit Z false (Some 64) [104] [(AField tt [97], [100; 10; 100; 50]); (APad tt, [])] [(AConst tt [88] 5, [])])
    (Some (Sect unit Z true None [114; 104] [(AField tt [97], []); (AField tt [98], [])] [])).
Example C03_nonvacuous :
  run unit Z unit unit (fun _ w => (w, None)) (fun _ _ w => w) ex_lines tt = Ok (ex_model, tt)
  /\ run unit Z unit unit (fun _ w => (w, None)) (fun _ _ w => w) (render unit Z unit ex_model) tt = Ok (ex_model, tt).
Proof. split; vm_compute; reflexivity. Qed.
