(* C02 - Every type's layout (lengths, alignment, extent, prefixes) is the Specification. Statements only. *)
From Coq Require Import ZArith List Bool.
From PV Require Import Util.ListSet Util.Sumset BLS.Model BLS.Den Layout.Types Layout.Spec Layout.Proofs Layout.ProofsSpec.
Import ListNotations.
Open Scope Z_scope.

(* the operator tree built by the constructors denotes exactly the lengths the Specification assigns (LenSpec is
   written positionally, without operator trees) - for every type expression, every nesting, every capacity *)
Theorem C02_spec : forall t, wft t = true -> forall x, Den (bls t) x <-> LenSpec t x.
Proof. exact bls_is_spec. Qed.
Print Assumptions C02_spec.

Theorem C02_wf : forall t, wft t = true -> wf (bls t) /\ 0 <= omax (bls t).
Proof. exact wf_bls. Qed.
Print Assumptions C02_wf.

Theorem C02_align_divides : forall t, wft t = true -> forall x, Den (bls t) x -> (align t | x).
Proof. exact align_divides. Qed.
Print Assumptions C02_align_divides.

Theorem C02_align_values : forall t, (align t = 1 \/ align t = 8) /\ (wft t = true -> is_composite t = true -> align t = 8).
Proof. intros t. split; [exact (align_values t)|exact (composite_align t)]. Qed.
Print Assumptions C02_align_values.

(* array length prefix: the code's formula is "the smallest of 8/16/32/64 bits that can hold the capacity" *)
Theorem C02_prefix_width : forall e n, 1 <= n -> bitlen n <= 64 ->
  prefix_width (align e) n = spec_prefix n /\
  (n < 2 ^ 64 -> n < 2 ^ spec_prefix n /\ forall w, In w [8; 16; 32; 64] -> n < 2 ^ w -> spec_prefix n <= w).
Proof. intros e n H1 H2. split; [exact (prefix_width_eq e n H1 H2)|exact (spec_prefix_least n)]. Qed.
Print Assumptions C02_prefix_width.

(* union tag: "the smallest of 8/16/32/64 bits that can hold the largest variant index" *)
Theorem C02_tag_width : forall fs, 2 <= Z.of_nat (length fs) -> bitlen (Z.of_nat (length fs) - 1) <= 64 ->
  union_tag_width fs = spec_tag (Z.of_nat (length fs)) /\
  (Z.of_nat (length fs) <= 2 ^ 64 -> Z.of_nat (length fs) <= 2 ^ spec_tag (Z.of_nat (length fs)) /\
     forall w, In w [8; 16; 32; 64] -> Z.of_nat (length fs) <= 2 ^ w -> spec_tag (Z.of_nat (length fs)) <= w).
Proof. intros fs H1 H2. split; [exact (union_tag_eq fs H1 H2)|exact (spec_tag_least _)]. Qed.
Print Assumptions C02_tag_width.

Theorem C02_sealed_extent : forall t, wft t = true -> (match t with TDelim _ _ => False | _ => True end) ->
  extent t = omax (bls t) /\ Den (bls t) (extent t) /\ forall x, Den (bls t) x -> x <= extent t.
Proof. exact sealed_extent. Qed.
Print Assumptions C02_sealed_extent.

(* a delimited composite's set is header + {0, 8, ..., extent}, irrespective of its fields *)
Theorem C02_delimited : forall i ext, wft (TDelim i ext) = true ->
  forall x, Den (bls (TDelim i ext)) x <-> exists j, 0 <= j <= ext / 8 /\ x = 32 + 8 * j.
Proof. exact delimited_spec. Qed.
Print Assumptions C02_delimited.

Theorem C02_extent_rules : forall i ext, wft (TDelim i ext) = true <->
  (wft i = true /\ (exists nm fs, i = TStruct nm fs \/ i = TUnion nm fs) /\ (8 | ext) /\ extent i <= ext).
Proof. exact extent_rules. Qed.
Print Assumptions C02_extent_rules.

(* non-vacuity: a nested type with sub-byte fields, a variable array at the 255/256 prefix boundary and a delimited member *)
Definition ex_inner : ty := TStruct [110] [(Some [97], TPrim (PUInt 3 Sat)); (Some [98], TVar (TPrim (PSInt 16)) 256)].
Definition ex_outer : ty := TUnion [111] [(Some [120], TDelim ex_inner 8192); (Some [121], TFix (TPrim PBool) 9); (Some [122], TVar ex_inner 255)].
Example C02_nonvacuous : wft ex_outer = true /\ omin (bls ex_outer) = 16 /\ omodf (bls ex_outer) 16 = [0; 8] /\ prefix_width 1 256 = 16 /\ prefix_width 1 255 = 8.
Proof. vm_compute. repeat split; reflexivity. Qed.
