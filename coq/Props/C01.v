(* C01 - Bit length set algebra is exact for every composition and every divisor. Statements only. *)
From Coq Require Import ZArith List Bool Sorted.
From PV Require Import Util.ListSet Util.Sumset BLS.Model BLS.Den BLS.Proofs BLS.ProofsMod BLS.ProofsExp.
Import ListNotations.
Open Scope Z_scope.

Theorem C01_nonneg : forall t, wf t -> forall x, Den t x -> 0 <= x.
Proof. exact Den_nonneg. Qed.
Print Assumptions C01_nonneg.

Theorem C01_min : forall t, wf t -> Den t (omin t) /\ forall x, Den t x -> omin t <= x.
Proof. exact omin_ok. Qed.
Print Assumptions C01_min.

Theorem C01_max : forall t, wf t -> Den t (omax t) /\ forall x, Den t x -> x <= omax t.
Proof. exact omax_ok. Qed.
Print Assumptions C01_max.

Theorem C01_fixed : forall t, wf t -> (fixed t = true <-> forall x y, Den t x -> Den t y -> x = y).
Proof. exact fixed_spec. Qed.
Print Assumptions C01_fixed.

(* every divisor d >= 1, every repetition count k >= 0: no bound anywhere *)
Theorem C01_mod : forall t, wf t -> forall d, 1 <= d -> forall r, In r (omod t d) <-> exists x, Den t x /\ r = x mod d.
Proof. exact omod_spec. Qed.
Print Assumptions C01_mod.

Theorem C01_mod_sorted : forall t d, StronglySorted Z.lt (omod t d).
Proof. exact omod_sorted. Qed.
Print Assumptions C01_mod_sorted.

Theorem C01_aligned : forall t d, wf t -> 1 <= d -> (is_aligned t d = true <-> forall x, Den t x -> (d | x)).
Proof. exact is_aligned_spec. Qed.
Print Assumptions C01_aligned.

Theorem C01_expand : forall t, wf t -> (forall x, In x (oexpand t) <-> Den t x) /\ NoDup (oexpand t).
Proof. intros t H. split; [exact (oexpand_spec t H)|exact (oexpand_nodup t)]. Qed.
Print Assumptions C01_expand.

(* the memoisation wrapper is transparent for every history of queries *)
Theorem C01_memo : forall t qs, mrun t memo0 qs = map (direct t) qs.
Proof. exact memo_transparent. Qed.
Print Assumptions C01_memo.

(* internal assertions of the solver never fire *)
Theorem C01_asserts_pad : forall c a d x, wf c -> 1 <= a -> 1 <= d -> In x (omod c (Z.lcm a d)) -> x <= omax (Pad c a) /\ x < Z.lcm a d.
Proof. exact pad_assert_ok. Qed.
Print Assumptions C01_asserts_pad.

Theorem C01_asserts_k : forall k d, 1 <= d -> 0 <= k -> k mod d = equiv_k k d mod d.
Proof. exact equiv_k_assert_ok. Qed.
Print Assumptions C01_asserts_k.

(* the evaluators used by the correspondence check are the model *)
Theorem C01_fast_mod : forall t, wf t -> forall d, 1 <= d -> omodf t d = omod t d.
Proof. exact omodf_eq. Qed.
Print Assumptions C01_fast_mod.

Theorem C01_fast_expand : forall t, wf t -> oexpandf t = oexpand t.
Proof. exact oexpandf_eq. Qed.
Print Assumptions C01_fast_expand.

Theorem C01_wfb : forall t, wfb t = true -> wf t.
Proof. exact wfb_wf. Qed.
Print Assumptions C01_wfb.

(* non-vacuity: a nested tree with a count far beyond what can be expanded satisfies the hypotheses,
   and the model computes on it *)
Definition ex_tree : op := Cat [Leaf [32]; RRep (Pad (Cat [Leaf [16]; RRep (Uni [Leaf [8]; Leaf [3; 5]]) 256]) 8) (2 ^ 63)].
Example C01_nonvacuous : wf ex_tree /\ omodf ex_tree 32 = [0; 8; 16; 24] /\ omax ex_tree = 32 + (pad 8 (16 + 8 * 256)) * 2 ^ 63.
Proof. split; [apply wfb_wf; vm_compute; reflexivity|]. split; vm_compute; reflexivity. Qed.
