(* C13 - Bad input yields InvalidDefinitionError with a path, never a crash/InternalError.  Statements only.

   PARTIAL BY NATURE: the theorems cover the layers that are modelled - expression evaluation (C04's model), the
   exception handlers inside Rational._generic_arithmetic and _parse_string_literal, and the exception funnel
   parse -> DSDLDefinition.read -> _read_definitions.  The PEG engine on arbitrary text, CPython's recursion limit and
   the file system are not modelled; that part of the property is searched on the implementation side only
   (harness/props/c13.py) and is where the open findings are (see C13_unmodelled_leaks). *)
From Coq Require Import ZArith QArith List Bool.
From PV Require Import Expr.Values Expr.Syntax Expr.Literals Expr.Sem Expr.Eval Outcome.Model Outcome.Proofs.
Import ListNotations.

(* for every expression tree, environment and statement position the predicted outcome is a model or an invalid
   definition; a rejection reaches the caller as InvalidDefinitionError with the path of the file *)
Theorem C13_no_internal_partial : forall g e acc o st,
  In o (predicted (eval g e) acc) ->
  (o = OValue \/ o = OInvalid) /\ surfaced st XInvalid = (OInvalid, true).
Proof. intros g e acc o st H. split; [eapply predicted_classes; eassumption|apply rejection_surfaces]. Qed.
Print Assumptions C13_no_internal_partial.

(* the arithmetic layer: whatever binary floating point does (any function fl), only InvalidOperandError leaves
   Rational._generic_arithmetic, and never a complex value *)
Theorem C13_arith_handlers : forall fl o p q,
  is_arith o = true ->
  (forall x, generic_arithmetic fl HCurrent o p q = RExc x -> x = XInvalid)
  /\ generic_arithmetic fl HCurrent o p q <> RComplexVal.
Proof. intros. split; [intros x; apply arith_only_invalid; assumption|apply arith_never_complex]. Qed.
Print Assumptions C13_arith_handlers.

(* ... and the evaluation model of C04 classifies exactly these behaviours (value / invalid / unspecified float path) *)
Theorem C13_arith_agrees : forall fl o p q, is_arith o = true ->
  match meth_rat o p (VRat q) with
  | DOk v => exists x, generic_arithmetic fl HCurrent o p q = RVal x /\ v = qnorm x
  | DInvalid => generic_arithmetic fl HCurrent o p q = RExc XInvalid
  | DUnspec => (exists x, generic_arithmetic fl HCurrent o p q = RVal x) \/ generic_arithmetic fl HCurrent o p q = RExc XInvalid
  | DUndef => False
  end.
Proof. exact arith_agrees. Qed.
Print Assumptions C13_arith_agrees.

(* string literals: only DSDLSyntaxError leaves the escape decoder, exactly when the literal model has no value *)
Theorem C13_literal_handlers : forall l st,
  (forall x, str_run_x HCurrent st l = Some x -> x = XInvalid)
  /\ (forall out, str_run_x HCurrent st l = None <-> str_run st l out <> None).
Proof. intros. split; [intros x; apply str_only_invalid|intros out; apply str_agrees]. Qed.
Print Assumptions C13_literal_handlers.

(* the funnel: which exceptions raised at which stage surface as what *)
Theorem C13_funnel : forall st x,
  (fst (surfaced st x) = OInvalid <-> x = XInvalid \/ (handled_in_parser x = true /\ st <> SVisit))
  /\ (fst (surfaced st x) = OOther <-> x = XSystemExit)
  /\ (fst (surfaced st x) = OInternal <-> x <> XInvalid /\ x <> XSystemExit /\ (handled_in_parser x = true -> st = SVisit))
  /\ (fst (surfaced st x) <> OOther -> snd (surfaced st x) = true).
Proof.
  intros. split; [apply funnel_invalid|]. split; [apply funnel_other|]. split; [apply funnel_internal|apply funnel_path].
Qed.
Print Assumptions C13_funnel.

(* regression of F4 (repaired): without the handlers added by the repair the same inputs surface as InternalError *)
Theorem C13_before_F4_refuted :
  (forall fl p q, is_int q = false -> fl p q = FComplex -> generic_arithmetic fl HBeforeF4 BPow p q = RExc XValueError)
  /\ (forall fl p q, is_int q = false -> fl p q = FOverflow -> generic_arithmetic fl HBeforeF4 BPow p q = RExc XOverflow)
  /\ surfaced SVisit XValueError = (OInternal, true) /\ surfaced SVisit XOverflow = (OInternal, true).
Proof. exact before_F4_leaks. Qed.
Print Assumptions C13_before_F4_refuted.

(* failure modes of the unmodelled layers.  Repaired (F17, F19): a RecursionError of the PEG engine and a file
   that is not UTF-8 surface as InvalidDefinitionError with the path. *)
Theorem C13_repaired_leaks :
  surfaced SGrammar XRecursion = (OInvalid, true)
  /\ surfaced SFlush XRecursion = (OInvalid, true)
  /\ surfaced_outside_parser XUnicodeDecode = (OInvalid, true).
Proof. exact repaired_leaks. Qed.
Print Assumptions C13_repaired_leaks.

(* What the funnel still does not handle: a RecursionError while visiting or in finalize becomes InternalError, an
   OSError while the file is read becomes InternalError, an exception raised outside every try block of
   _read_definitions reaches the caller raw, and a ValueError / OverflowError / MemoryError raised inside a visitor
   or in finalize becomes InternalError.  Witnesses on the implementation side (open findings):
     - a structure with 200 fields: raw RecursionError while hashing the new composite (F20);
     - "@print 10**4300": ValueError of CPython's 4300-digit limit of int <-> str conversion, in a visitor; the same
       from error messages built in finalize ("uint8 x / @extent 8*10**5000+1");
     - "uint8[2**63] x / @print _offset_": OverflowError (or MemoryError) of the numerical expansion behind _offset_.
   So the unrestricted statement of C13 is false of the current tree: this is its refutation in terms of the funnel. *)
Theorem C13_unmodelled_leaks_refuted :
  surfaced SVisit XRecursion = (OInternal, true)
  /\ surfaced_outside_parser XOSError = (OInternal, true)
  /\ surfaced_outside_parser XRecursion = (OInternal, true)
  /\ surfaced_outside_funnel XRecursion = (OOther, false)
  /\ surfaced SVisit XValueError = (OInternal, true)
  /\ surfaced_outside_parser XValueError = (OInternal, true)
  /\ surfaced SVisit XOverflow = (OInternal, true)
  /\ surfaced SVisit XMemoryOrSystem = (OInternal, true).
Proof. exact remaining_leaks. Qed.
Print Assumptions C13_unmodelled_leaks_refuted.

(* non-vacuity *)
Example C13_nonvacuous :
  exists g e, eval g e = Rej /\ In OInvalid (predicted (eval g e) (fun _ => true)).
Proof.
  exists [], (EBin BDiv (ELit (LInt [49%Z])) (ELit (LInt [48%Z]))). split; [vm_compute; reflexivity|]. vm_compute. left. reflexivity.
Qed.
