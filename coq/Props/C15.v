(* C15 - A type's name, version and port-ID are exactly those encoded in its file path. Statements only. *)
From Coq Require Import ZArith List Bool.
From PV Require Import Util.ListSet Namespace.Paths Namespace.PathsProofs.
Import ListNotations.
Open Scope Z_scope.

(* numeric fields: exactly the non-empty ASCII digit strings are accepted (fix F6), with their positional value *)
Theorem C15_decimal : forall s v, parse_decimal s = Some v <-> digits s /\ v = dec_value s.
Proof. exact parse_decimal_some. Qed.
Print Assumptions C15_decimal.
