(* C15 - A type's name, version and port-ID are exactly those encoded in its file path. Statements only.
   Partial (not modelled): Path.resolve beyond "make absolute" (symbolic links, ".."), case-insensitive file systems,
   the 4300-digit limit of int().  The file system listing and the working directory are explicit arguments. *)
From Coq Require Import ZArith List Bool Lia.
From PV Require Import Util.ListSet Namespace.Paths Namespace.PathsProofs.
Import ListNotations.
Open Scope Z_scope.

(* numeric fields: exactly the non-empty ASCII digit strings are accepted (fix F6), with their positional value *)
Theorem C15_decimal : forall s v, parse_decimal s = Some v <-> digits s /\ v = dec_value s.
Proof. exact parse_decimal_some. Qed.
Print Assumptions C15_decimal.

Theorem C15_decimal_render : forall n, 0 <= n -> parse_decimal (render_dec n) = Some n /\ digits (render_dec n).
Proof. exact parse_render_dec. Qed.
Print Assumptions C15_decimal_render.

(* parse (render) = identity: <root>/<ns>/.../[<port>.]<Short>.<major>.<minor>.<suffix> yields exactly the encoded
   full name (root directory name, directories, short name), version and port-ID *)
Theorem C15_roundtrip : forall fs root ds sp short smj smn sfx,
  let file := root ++ ds ++ [render_basename sp short smj smn sfx] in
  no_dot (pname root) -> Forall no_dot ds -> wf_fields sp short smj smn sfx -> exists_ fs file = true ->
  mk_definition fs file root =
  Ok (mkDef file root (join_with dot ((pname root :: ds) ++ [short])) (dec_value smj) (dec_value smn) (option_map dec_value sp)).
Proof. exact mk_definition_render. Qed.
Print Assumptions C15_roundtrip.

(* a definition is constructed iff the file exists and its path has that shape, with decimal-digit numbers *)
Theorem C15_shape : forall fs file root d,
  mk_definition fs file root = Ok d <->
  exists_ fs file = true /\
  exists ds sp short smj smn sfx,
    file = root ++ ds ++ [render_basename sp short smj smn sfx] /\
    no_dot (pname root) /\ Forall no_dot ds /\ wf_fields sp short smj smn sfx /\
    d = mkDef file root (join_with dot ((pname root :: ds) ++ [short])) (dec_value smj) (dec_value smn) (option_map dec_value sp).
Proof. exact mk_definition_shape. Qed.
Print Assumptions C15_shape.

(* the composite-level checks accept a message definition of that shape iff names, length, version and port-ID are
   valid, and then source_file_path and source_file_path_to_root are the file and the root it was parsed against *)
Theorem C15_points_back_message : forall rp rn ds short b mj mn port,
  let root := rp ++ [rn] in
  let file := root ++ ds ++ [b] in
  let cs := (rn :: ds) ++ [short] in
  Forall no_dot cs ->
  composite_of false (mkDef file root (join_with dot cs) mj mn port) =
  if msg_checks cs mj mn port then Ok (mkId (join_with dot cs) mj mn port file root) else Err RInvalid.
Proof. exact composite_of_msg. Qed.
Print Assumptions C15_points_back_message.

Theorem C15_points_back_service : forall rp rn ds short b mj mn port,
  let root := rp ++ [rn] in
  let file := root ++ ds ++ [b] in
  let cs := (rn :: ds) ++ [short] in
  Forall no_dot cs ->
  composite_of true (mkDef file root (join_with dot cs) mj mn port) =
  if svc_checks cs mj mn port then Ok (mkId (join_with dot cs) mj mn port file root) else Err RInvalid.
Proof. exact composite_of_svc. Qed.
Print Assumptions C15_points_back_service.

(* the request and the response section of an accepted service are named <service>.Request / <service>.Response and
   report the same file and the same root namespace directory as the service *)
Theorem C15_points_back_sections : forall rp rn ds short b mj mn port,
  let root := rp ++ [rn] in
  let file := root ++ ds ++ [b] in
  let cs := (rn :: ds) ++ [short] in
  Forall no_dot cs ->
  svc_checks cs mj mn port = true ->
  composite_init (join_with dot cs ++ REQUEST) mj mn None file true false = Ok (join_with dot cs ++ REQUEST, root) /\
  composite_init (join_with dot cs ++ RESPONSE) mj mn None file true false = Ok (join_with dot cs ++ RESPONSE, root).
Proof. exact composite_sections. Qed.
Print Assumptions C15_points_back_sections.

(* both layers together: what a reader observes of one file under one root *)
Theorem C15_identity : forall fs rp rn file i,
  let root := rp ++ [rn] in
  identity_of fs file root = Ok i <->
  exists_ fs file = true /\
  exists ds sp short smj smn sfx,
    file = root ++ ds ++ [render_basename sp short smj smn sfx] /\
    no_dot rn /\ Forall no_dot ds /\ wf_fields sp short smj smn sfx /\
    kind_checks (file_is_service fs file) ((rn :: ds) ++ [short]) (dec_value smj) (dec_value smn) (option_map dec_value sp) = true /\
    i = mkId (join_with dot ((rn :: ds) ++ [short])) (dec_value smj) (dec_value smn) (option_map dec_value sp) file root.
Proof. exact identity_of_spec. Qed.
Print Assumptions C15_identity.

(* root inference.  (1) roots designated by paths, absolute or relative to the working directory; target absolute
   or relative to the working directory: if the target lies under exactly one of the given roots, the definition is
   the one of (target, that root) whatever the spellings, the order of the list and the other roots *)
Theorem C15_strategies_paths : forall fs cwd t roots r0,
  let f := resolve cwd t in
  (is_abs t = true \/ exists_ fs f = true) ->
  In r0 roots -> covers cwd f r0 = true ->
  (forall r, In r roots -> covers cwd f r = true -> resolve cwd r = resolve cwd r0) ->
  from_first_in fs cwd roots t = mk_definition fs f (resolve cwd r0).
Proof. exact from_first_in_paths. Qed.
Print Assumptions C15_strategies_paths.

(* (2) no roots, relative target: the first component is the root *)
Theorem C15_strategies_inferred : forall fs cwd c rest,
  exists_ fs (cwd ++ [c]) = true ->
  from_first_in fs cwd [] (P false (c :: rest)) = mk_definition fs (cwd ++ c :: rest) (cwd ++ [c]).
Proof. exact from_first_in_no_roots. Qed.
Print Assumptions C15_strategies_inferred.

(* (3) bare root names, absolute target not covered by any root path: the first directory of the target that
   carries one of the names is the root *)
Theorem C15_strategies_bare_name : forall fs cwd f roots pre n post b,
  f = pre ++ n :: post ++ [b] ->
  roots <> [] ->
  (forall r, In r roots -> covers cwd f r = false) ->
  str_in n (bare_names roots) = true ->
  (forall x, In x pre -> str_in x (bare_names roots) = false) ->
  from_first_in fs cwd roots (P true f) = mk_definition fs f (pre ++ [n]).
Proof. exact from_first_in_bare_name. Qed.
Print Assumptions C15_strategies_bare_name.

(* (3') the same for a target relative to the working directory - provided the walk of inference 3 finds nothing,
   which is exactly what fails in the open finding F16 *)
Theorem C15_strategies_bare_name_relative : forall fs cwd tc roots pre n post b,
  tc = pre ++ n :: post ++ [b] ->
  roots <> [] ->
  exists_ fs (cwd ++ tc) = true ->
  (forall r, In r roots -> covers cwd (cwd ++ tc) r = false) ->
  strategy3 fs cwd (P false tc) roots = None ->
  str_in n (bare_names roots) = true ->
  (forall x, In x pre -> str_in x (bare_names roots) = false) ->
  from_first_in fs cwd roots (P false tc) = mk_definition fs (cwd ++ tc) (cwd ++ pre ++ [n]).
Proof. exact from_first_in_bare_name_relative. Qed.
Print Assumptions C15_strategies_bare_name_relative.

(* (4) a relative target that begins with the name of its root (relative to the directory that contains the root)
   and does not exist relative to the working directory; the root given as a path *)
Theorem C15_strategies_name_relative : forall fs cwd a pre n rest roots,
  let r0 := P a (pre ++ [n]) in
  let t := P false (n :: rest) in
  exists_ fs (cwd ++ n :: rest) = false ->
  exists_ fs (resolve cwd (P a (pre ++ n :: rest))) = true ->
  In r0 roots ->
  (forall r, In r roots -> relative_to t r = None) ->
  (forall r p, In r roots -> walk_up fs cwd t (is_abs r) (rev (comps r)) = Some p -> p = r0) ->
  from_first_in fs cwd roots t = mk_definition fs (resolve cwd (P a (pre ++ n :: rest))) (resolve cwd r0).
Proof. exact from_first_in_name_relative. Qed.
Print Assumptions C15_strategies_name_relative.

(* read_files with one target and one root path: the answer is the identity of (file, root directory) *)
Theorem C15_read_files_single : forall fs cwd t r0,
  let f := resolve cwd t in
  let R := resolve cwd r0 in
  (is_abs t = true \/ exists_ fs f = true) ->
  covers cwd f r0 = true ->
  exists_ fs R = true ->
  (exists ds, definitions_of_namespaces fs [R] = Ok ds) ->
  read_files fs cwd [t] [r0] [] = bind (identity_of fs f R) (fun i => Ok [i]).
Proof. exact read_files_single. Qed.
Print Assumptions C15_read_files_single.

(* "the mapping is the same however the root is designated": two designations (absolute / relative to two different
   working directories) of the same file and the same root directory give the same answer *)
Theorem C15_designations_agree : forall fs cwd cwd' t t' r r',
  resolve cwd t = resolve cwd' t' -> resolve cwd r = resolve cwd' r' ->
  (is_abs t = true \/ exists_ fs (resolve cwd t) = true) ->
  (is_abs t' = true \/ exists_ fs (resolve cwd' t') = true) ->
  covers cwd (resolve cwd t) r = true ->
  exists_ fs (resolve cwd r) = true ->
  (exists ds, definitions_of_namespaces fs [resolve cwd r] = Ok ds) ->
  read_files fs cwd [t] [r] [] = read_files fs cwd' [t'] [r'] [].
Proof. exact designations_agree. Qed.
Print Assumptions C15_designations_agree.

(* read_namespace returns, for every *.dsdl / *.uavcan file below the root, exactly the identity encoded by its path *)
Theorem C15_read_namespace : forall fs cwd r ids,
  let R := resolve cwd r in
  read_namespace fs cwd r [] = Ok ids ->
  Forall2 (fun g i => identity_of fs g R = Ok i) (globbed fs R) ids.
Proof. exact read_namespace_identities. Qed.
Print Assumptions C15_read_namespace.

(* ---------------------------------------------------------------------------------------------------------- *)
(* witnesses                                                                                                   *)

Definition s_workspace := [119; 111; 114; 107; 115; 112; 97; 99; 101].
Definition s_project := [112; 114; 111; 106; 101; 99; 116].
Definition s_types := [116; 121; 112; 101; 115].
Definition s_animals := [97; 110; 105; 109; 97; 108; 115].
Definition s_felines := [102; 101; 108; 105; 110; 101; 115].
Definition s_Tabby := [84; 97; 98; 98; 121; 46; 49; 46; 48; 46; 100; 115; 100; 108].
Definition s_plants := [112; 108; 97; 110; 116; 115].
Definition s_trees := [116; 114; 101; 101; 115].
Definition s_Fir := [68; 111; 117; 103; 108; 97; 115; 70; 105; 114; 46; 49; 46; 48; 46; 100; 115; 100; 108].
Definition d_animals := [s_workspace; s_project; s_types; s_animals].
Definition d_plants := [s_workspace; s_project; s_types; s_plants].
Definition f_Tabby := d_animals ++ [s_felines; s_Tabby].
Definition f_Fir := d_plants ++ [s_trees; s_Fir].
Definition doc_fs : fsys :=
  mkFs [(f_Tabby, false); (f_Fir, false)]
       [[]; [s_workspace]; [s_workspace; s_project]; [s_workspace; s_project; s_types]; d_animals; d_plants;
        d_animals ++ [s_felines]; d_plants ++ [s_trees]].
Definition id_Tabby : ident :=
  mkId [97; 110; 105; 109; 97; 108; 115; 46; 102; 101; 108; 105; 110; 101; 115; 46; 84; 97; 98; 98; 121] 1 0 None f_Tabby d_animals.

(* the example of the read_files docstring: four of the spellings give the encoded identity ... (F13, fixed) *)
Example C15_doc_example_agrees :
  read_files doc_fs [] [P false f_Tabby] [P false [s_animals]; P false [s_plants]] [] = Ok [id_Tabby] /\
  read_files doc_fs [] [P false f_Tabby] [P false d_animals; P false d_plants] [] = Ok [id_Tabby] /\
  read_files doc_fs [] [P true f_Tabby] [P false d_plants; P false d_animals] [] = Ok [id_Tabby] /\
  read_files doc_fs [s_workspace] [P false [s_animals; s_felines; s_Tabby]] [P true d_animals; P true d_plants] [] = Ok [id_Tabby].
Proof. repeat split; vm_compute; reflexivity. Qed.

(* ... but the third documented spelling does not (open finding F16): the relative target exists, lies under exactly
   one of the designated roots (animals, by bare name), no other given root covers it, and still the inference returns
   the directory `workspace` - an ancestor of the OTHER root - so that the call is rejected (nested root namespaces).
   The full-strength "every designation yields the same identity" is therefore false of the code as it is. *)
Theorem C15_strategy3_ancestor_refuted :
  exists fs cwd t roots own,
    exists_ fs (resolve cwd t) = true /\ is_prefix own (resolve cwd t) = true /\
    In (P false [pname own]) roots /\
    (forall r, In r roots -> covers cwd (resolve cwd t) r = false) /\
    read_files fs cwd [t] [P true own] [] = Ok [id_Tabby] /\
    infer_root fs cwd t roots = Ok (P false [s_workspace]) /\
    read_files fs cwd [t] roots [] = Err RInvalid.
Proof.
  exists doc_fs, [], (P false f_Tabby), [P false [s_animals]; P false d_plants], d_animals.
  split; [vm_compute; reflexivity|]. split; [vm_compute; reflexivity|]. split; [left; reflexivity|].
  split; [intros r [<-|[<-|[]]]; vm_compute; reflexivity|].
  split; [vm_compute; reflexivity|]. split; vm_compute; reflexivity.
Qed.
Print Assumptions C15_strategy3_ancestor_refuted.

(* F15 (fixed): a blank before the first dot is no longer stripped: the file is rejected *)
Example C15_trailing_blank_rejected :
  let ns := [110; 115] in
  let foo := [70; 111; 111; 32; 46; 49; 46; 48; 46; 100; 115; 100; 108] in
  read_namespace (mkFs [([ns; foo], false)] [[]; [ns]]) [] (P false [ns]) [] = Err RInvalid.
Proof. vm_compute. reflexivity. Qed.

(* non-vacuity of the hypotheses of C15_identity / C15_roundtrip: ns/sub/7.Abc.1.2.dsdl *)
Example C15_nonvacuous :
  let ns := [110; 115] in let sub := [115; 117; 98] in
  let b := [55; 46; 65; 98; 99; 46; 49; 46; 50; 46; 100; 115; 100; 108] in
  let fs := mkFs [([ns; sub; b], false)] [[]; [ns]; [ns; sub]] in
  b = render_basename (Some [55]) [65; 98; 99] [49] [50] [100; 115; 100; 108] /\
  wf_fields (Some [55]) [65; 98; 99] [49] [50] [100; 115; 100; 108] /\
  identity_of fs [ns; sub; b] [ns] = Ok (mkId [110; 115; 46; 115; 117; 98; 46; 65; 98; 99] 1 2 (Some 7) [ns; sub; b] [ns]).
Proof.
  cbv zeta. split; [reflexivity|]. split; [|vm_compute; reflexivity].
  unfold wf_fields, no_dot, digits, dot. simpl. repeat split; try discriminate; intros; intuition (subst; lia).
Qed.
