(* C11 - Port-ID and minor-version consistency rules hold for every set of definitions. Statements only. *)
From Coq Require Import ZArith List Bool Permutation.
From PV Require Import Util.ListSet Namespace.CrossRules Namespace.CrossProofs.
Import ListNotations.
Open Scope Z_scope.

(* the double loop of _ensure_no_fixed_port_id_collisions accepts exactly the sets in which two definitions of the
   same kind share a port-ID only if they have the same name and the same major version or a major of 0 on a side *)
Theorem C11_ports : forall ds, wf ds ->
  (check_ports ds = true <->
   forall a b, In a ds -> In b ds -> same_kind a b -> forall p, port a = Some p -> port b = Some p ->
   name a = name b /\ (major a = major b \/ major a = 0 \/ major b = 0)).
Proof. exact check_ports_spec. Qed.
Print Assumptions C11_ports.

(* grouping by name and major + the pairwise function, under "no two definitions share name and version" *)
Theorem C11_minor : forall ds, VersionsUnique ds ->
  (check_minor ds = true <->
   forall a b, In a ds -> In b ds -> name a = name b /\ major a = major b -> minor a <> minor b ->
   same_kind a b /\ port_rule a b /\ (1 <= major a -> lays_equal a b)).
Proof. exact check_minor_spec_unique. Qed.
Print Assumptions C11_minor.

(* without that hypothesis: two distinct definitions of one name and version are rejected (fix F5a) *)
Theorem C11_minor_full : forall ds, check_minor ds = true <-> VersionsUnique ds /\ MinorsConform ds.
Proof. exact check_minor_spec. Qed.
Print Assumptions C11_minor_full.

(* the loops of the code, read literally: every two distinct objects of one (name, major) group *)
Theorem C11_minor_loops : forall ds,
  check_minor ds = true <->
  forall a b, two_of ds a b -> same_series a b -> minor a <> minor b /\ pair_ok a b = true.
Proof. exact check_minor_positions. Qed.
Print Assumptions C11_minor_loops.

Theorem C11_pairwise : forall a b, minor a <> minor b -> (pair_ok a b = true <-> compatible a b).
Proof. exact pair_ok_spec. Qed.
Print Assumptions C11_pairwise.

(* every violating set is rejected and every conforming set is accepted *)
Theorem C11_iff : forall direct transitive, wf direct ->
  (run direct transitive = Accept <-> Conforming direct (transitive ++ direct)).
Proof. exact run_spec. Qed.
Print Assumptions C11_iff.

(* the verdict does not depend on the order in which the definitions are listed (the lists come out of Python sets) *)
Theorem C11_order_irrelevant : forall d d' t t', Permutation d d' -> Permutation t t' -> run d t = run d' t'.
Proof. exact run_perm. Qed.
Print Assumptions C11_order_irrelevant.

(* non-vacuity: a conforming set with a port added in a newer minor, a major-0 sibling sharing the port and a
   service with a delimited response; and a violating one *)
Definition nA : list Z := [110; 115; 46; 65].
Definition nB : list Z := [110; 115; 46; 66].
Definition ex_ok : list summary :=
  [ mkSum nA 1 0 (Msg (mkLay 16 true)) None; mkSum nA 1 1 (Msg (mkLay 16 true)) (Some 7);
    mkSum nA 0 1 (Msg (mkLay 8 false)) (Some 7);
    mkSum nB 1 0 (Svc (mkLay 8 true) (mkLay 64 false)) (Some 7); mkSum nB 1 2 (Svc (mkLay 8 true) (mkLay 64 false)) (Some 7) ].
Example C11_nonvacuous :
  wf ex_ok /\ Conforming ex_ok ([] ++ ex_ok) /\
  run [mkSum nA 1 0 (Msg (mkLay 16 true)) (Some 7); mkSum nA 1 1 (Msg (mkLay 16 true)) None] [] = Reject.
Proof.
  assert (W : wf ex_ok). { intros a H. simpl in H. repeat (destruct H as [<-|H]; [simpl; discriminate|]). destruct H. }
  split; [exact W|]. split; [|vm_compute; reflexivity].
  apply (proj1 (run_spec ex_ok [] W)). vm_compute. reflexivity.
Qed.
