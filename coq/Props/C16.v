(* C16 - Layout analysis is symbolic: cost does not grow with capacities or extents. Statements only.
   A statement about wall time is not a theorem; its logical core is: which sets are ever enumerated and how big. *)
From Coq Require Import ZArith List Bool.
From PV Require Import Util.ListSet Util.Sumset BLS.Model BLS.Den BLS.ProofsMod BLS.Cost BLS.CostProofs
  Layout.Types Layout.Proofs Layout.ProofsSpec Layout.Offsets Layout.CostProofs Layout.CostLinear.
Import ListNotations.
Open Scope Z_scope.

(* no residue set is larger than the queried divisor *)
Theorem C16_residue_sets_bounded : forall t d, wf t -> 1 <= d -> zlen (omod t d) <= d.
Proof. exact omod_len_bound. Qed.
Print Assumptions C16_residue_sets_bounded.

(* what a single modulo() call enumerates, in closed form (multiset coefficients / products) *)
Theorem C16_local_rep : forall S n, zlen (cwr_sums S n) = mchoose (length S) n.
Proof. exact local_cost_rep. Qed.
Print Assumptions C16_local_rep.
Theorem C16_local_rrep : forall S n, zlen (cwr_upto S n) = mchoose_upto (length S) n.
Proof. exact local_cost_rrep. Qed.
Print Assumptions C16_local_rrep.
Theorem C16_local_cat : forall ls, zlen (prod_sums ls) = zprod (map zlen ls).
Proof. exact local_cost_cat. Qed.
Print Assumptions C16_local_cat.

(* once the capacity is at least the divisor, result and cost depend on capacity mod divisor only *)
Theorem C16_capacity_sweep : forall c d k k', 1 <= d -> d <= k -> d <= k' -> k mod d = k' mod d ->
  omod (Rep c k) d = omod (Rep c k') d /\ cost_mod (Rep c k) d = cost_mod (Rep c k') d /\
  omod (RRep c k) d = omod (RRep c k') d /\ cost_mod (RRep c k) d = cost_mod (RRep c k') d.
Proof. exact capacity_sweep. Qed.
Print Assumptions C16_capacity_sweep.

(* every capacity behaves exactly like one below twice the divisor *)
Theorem C16_count_clamp : forall c d k, 1 <= d -> 0 <= k ->
  0 <= equiv_k k d < 2 * d /\
  omod (Rep c k) d = omod (Rep c (equiv_k k d)) d /\ cost_mod (Rep c k) d = cost_mod (Rep c (equiv_k k d)) d /\
  omod (RRep c k) d = omod (RRep c (equiv_k k d)) d /\ cost_mod (RRep c k) d = cost_mod (RRep c (equiv_k k d)) d.
Proof. exact count_clamp. Qed.
Print Assumptions C16_count_clamp.

(* whole trees: replacing every count by its reduced value changes neither the answer nor the enumeration cost,
   and all remaining counts are below twice the divisor that reaches their node *)
Theorem C16_clamp_tree : forall t, wf t -> forall d, 1 <= d ->
  omod (clamp t d) d = omod t d /\ cost_mod (clamp t d) d = cost_mod t d /\ counts_small (clamp t d) d.
Proof. intros t W d Hd. destruct (clamp_same t W d Hd) as [A B]. repeat split; auto. exact (clamp_small t W d Hd). Qed.
Print Assumptions C16_clamp_tree.

Theorem C16_cost_eval : forall t, wf t -> forall d, 1 <= d -> cost_modf t d = cost_mod t d.
Proof. exact cost_modf_eq. Qed.
Print Assumptions C16_cost_eval.

(* array elements of DSDL types have a single residue modulo the byte: one multiset per repetition count *)
Theorem C16_byte_aligned_single_residue : forall t, wft t = true -> align t = 8 -> omod (bls t) 8 = [0].
Proof. exact aligned8_mod8. Qed.
Print Assumptions C16_byte_aligned_single_residue.

(* pairwise (left-nested) aggregation: every concatenation node of a type's set - and of the offsets of its fields - has at
   most two operands, and one modulo() call on such a node enumerates at most divisor^2 tuples *)
Theorem C16_pairwise_aggregation : forall t, binary_cats (bls t).
Proof. exact bls_binary. Qed.
Print Assumptions C16_pairwise_aggregation.

Theorem C16_pairwise_offsets : forall fs, Forall (fun f => binary_cats (bls (snd f))) fs -> forall acc, binary_cats acc ->
  Forall (fun fo => binary_cats (snd fo)) (struct_offsets_from acc fs).
Proof. exact offsets_binary. Qed.
Print Assumptions C16_pairwise_offsets.

Theorem C16_pair_bound : forall a b d, wf a -> wf b -> 1 <= d -> local_cost KCat [zlen (omod a d); zlen (omod b d)] 0 d <= d * d.
Proof. exact cat2_local_bound. Qed.
Print Assumptions C16_pair_bound.

(* a concrete bound: for every type that DSDL text can express (an array element is never itself an array), a byte-alignment
   query on the type's set enumerates at most 64 tuples per node of its operator tree - capacities and extents do not occur *)
Theorem C16_byte_alignment_linear : forall t, wft t = true -> flat t -> cost_mod (bls t) 8 <= 64 * size_op (bls t).
Proof. exact byte_alignment_linear. Qed.
Print Assumptions C16_byte_alignment_linear.

Theorem C16_light_trees : forall t, wf t -> light t -> cost_mod t 8 <= 64 * size_op t.
Proof. exact light_cost. Qed.
Print Assumptions C16_light_trees.

Example C16_nonvacuous :
  let t := bls (TVar (TStruct [110] [(Some [97], TVar (TPrim (PUInt 8 Sat)) (2 ^ 63))]) (2 ^ 63)) in
  cost_modf t 32 = cost_modf (clamp t 32) 32 /\ cost_modf t 32 = 58950 /\ omodf t 32 = [0; 8; 16; 24].
Proof. vm_compute. repeat split; reflexivity. Qed.
