(* C07 - Deserialization is total and obeys implicit truncation / zero extension. Statements only.

   Totality: [deserialize : ty -> list Z -> bool -> res val] is a total function of the model whose errors are
   EArrayLength, EUnionTag, EDelimHeader (SerDesError), EUtf8 / EValue (ValueError); that the implementation raises
   nothing else is established by the correspondence on hostile inputs (every case's exception class is compared).
   [rbit r j]: the bit reader r sees at absolute position j (the data bit when inside the data and below the limit, else 0). *)
From Coq Require Import ZArith List Bool.
From PV Require Import BLS.Model Layout.Types Serdes.Model Serdes.Bits Serdes.ReaderProofs Serdes.Spec Serdes.DeserProofs
  Serdes.Roundtrip Serdes.DeserSim Serdes.ZeroExt Serdes.ProofsReject Serdes.DecodedValid Serdes.DeserTrunc Serdes.DeserSimConv.
Import ListNotations.
Open Scope Z_scope.

(* the reader (both paths) returns the zero-extended, limit-clipped slice: out-of-bounds and beyond-limit bits read as 0 *)
Theorem C07_reader_zero_extends : forall r n, bytes_ok (rdata r) -> 0 <= n -> 0 <= roff r ->
  snd (read_bits r n) = r_adv r n /\ 0 <= fst (read_bits r n) < 2 ^ n /\
  forall k, 0 <= k < n -> Z.testbit (fst (read_bits r n)) k = rbit r (roff r + k).
Proof. exact read_bits_spec. Qed.
Print Assumptions C07_reader_zero_extends.

(* whatever deserialize returns is valid for the type, canonical, and a fixed point of serialize -> deserialize - for every
   type, float fields included (re-encoding a decoded float is exact: Serdes/FloatIdem.v, proved by arithmetic on the integer
   model for binary16/32/64).  [plain t]: every extent is below 2^35 bits, so that the byte length of every nested object fits
   its 32-bit delimiter header (see C06_header_wraps_refuted for what happens otherwise). *)
Theorem C07_valid_fixpoint : forall t b hdr v,
  wft t = true -> serializable t = true -> is_composite t = true -> hdr_ok t hdr = true -> plain t = true -> bytes_ok b ->
  deserialize t b hdr = Ok v ->
  validb t v = true /\ canon t v = v /\ exists bs, serialize t v hdr = Ok bs /\ deserialize t bs hdr = Ok v.
Proof. exact valid_fixpoint. Qed.
Print Assumptions C07_valid_fixpoint.

(* implicit truncation, the form users rely on: bytes after a complete representation are ignored *)
Theorem C07_truncation_ser : forall t v hdr bytes junk,
  wft t = true -> serializable t = true -> is_composite t = true -> hdr_ok t hdr = true -> validb t v = true ->
  bytes_ok junk -> serialize t v hdr = Ok bytes -> deserialize t (bytes ++ junk) hdr = Ok (canon t v).
Proof. exact roundtrip_junk. Qed.
Print Assumptions C07_truncation_ser.

(* implicit truncation in general: when deserialization of b succeeds and stops inside b ([consumed] = final reader offset,
   i.e. b contains a complete representation, canonical or not), appended bytes are ignored.  Without the bound the
   statement would be false - a short b that relies on zero extension reads the appended bytes instead - and the property
   does not claim it. *)
Theorem C07_truncation : forall t b hdr v c junk, wft t = true -> bytes_ok b -> bytes_ok junk ->
  deserialize t b hdr = Ok v -> consumed t b hdr = Some c -> c <= 8 * zlen b ->
  deserialize t (b ++ junk) hdr = Ok v.
Proof. exact truncation. Qed.
Print Assumptions C07_truncation.

(* the reader only moves forward *)
Theorem C07_reader_monotone : forall t, wft t = true -> forall r v r', rok r -> deser t r = Ok (v, r') -> roff r <= roff r' /\ rok r'.
Proof. exact deser_mono. Qed.
Print Assumptions C07_reader_monotone.

(* implicit zero extension: b and b followed by zero bytes decode alike (a successful result never changes) *)
Theorem C07_zero_ext : forall t b n hdr v, wft t = true -> bytes_ok b ->
  deserialize t b hdr = Ok v -> deserialize t (b ++ zeros n) hdr = Ok v.
Proof. exact zero_ext. Qed.
Print Assumptions C07_zero_ext.

(* ... and conversely: if b followed by zero bytes decodes, b itself decodes alike - unless a delimiter header then
   exceeds the available data (the one exception the property names); no other outcome is possible *)
Theorem C07_zero_ext_conv : forall t b n hdr v, wft t = true -> bytes_ok b ->
  deserialize t (b ++ zeros n) hdr = Ok v -> deserialize t b hdr = Ok v \/ deserialize t b hdr = Err EDelimHeader.
Proof. exact zero_ext_conv. Qed.
Print Assumptions C07_zero_ext_conv.

(* more generally: a reader that sees the same bits from its position on and has at least as much data left decodes alike *)
Theorem C07_same_bits_same_value : forall t, wft t = true -> forall r1 r2 v r1', RS r1 r2 -> deser t r1 = Ok (v, r1') ->
  exists r2', deser t r2 = Ok (v, r2') /\ RS r1' r2'.
Proof. exact deser_sim. Qed.
Print Assumptions C07_same_bits_same_value.

(* no dependence on data outside a bounded sub-reader's window *)
Theorem C07_confinement : forall t r1 r2 n v r1', wft t = true -> rok r1 -> rok r2 -> roff r1 = roff r2 -> 0 <= n ->
  (forall j, roff r1 <= j < roff r1 + n -> getbit (rdata r1) j = getbit (rdata r2) j) ->
  deser t (fst (bounded_subreader r1 n)) = Ok (v, r1') ->
  exists r2', deser t (fst (bounded_subreader r2 n)) = Ok (v, r2').
Proof. exact confinement. Qed.
Print Assumptions C07_confinement.

(* lengths, tags and headers above the limit are rejected, never clamped; accepted ones are within the limit *)
Theorem C07_rejects_array : forall e n r, n < fst (read_bits r (prefix_width (align e) n)) -> deser (TVar e n) r = Err EArrayLength.
Proof. exact rejects_array. Qed.
Print Assumptions C07_rejects_array.

Theorem C07_rejects_tag : forall nm fs r, zlen fs <= fst (read_bits r (union_tag_width fs)) -> deser (TUnion nm fs) r = Err EUnionTag.
Proof. exact rejects_tag. Qed.
Print Assumptions C07_rejects_tag.

Theorem C07_rejects_header : forall i ext r,
  remaining_bits (snd (read_bits r (header_width (align i)))) < 8 * fst (read_bits r (header_width (align i))) ->
  deser (TDelim i ext) r = Err EDelimHeader.
Proof. exact rejects_header. Qed.
Print Assumptions C07_rejects_header.

Theorem C07_accepts_array : forall e n r v r', deser (TVar e n) r = Ok (v, r') -> fst (read_bits r (prefix_width (align e) n)) <= n.
Proof. exact accepts_array. Qed.
Print Assumptions C07_accepts_array.

Theorem C07_accepts_tag : forall nm fs r v r', deser (TUnion nm fs) r = Ok (v, r') -> fst (read_bits r (union_tag_width fs)) < zlen fs.
Proof. exact accepts_tag. Qed.
Print Assumptions C07_accepts_tag.

Theorem C07_accepts_header : forall i ext r v r', deser (TDelim i ext) r = Ok (v, r') ->
  8 * fst (read_bits r (header_width (align i))) <= remaining_bits (snd (read_bits r (header_width (align i)))).
Proof. exact accepts_header. Qed.
Print Assumptions C07_accepts_header.

Example C07_nonvacuous :
  deserialize (TStruct [] [(Some [1], TVar (TPrim PByte) 3)]) [4; 1; 2; 3; 4] false = Err EArrayLength /\
  deserialize (TStruct [] [(Some [1], TVar (TPrim PByte) 3)]) [3; 1; 2] false = Ok (VStruct [VList [VInt 1; VInt 2; VInt 0]]) /\
  deserialize (TStruct [] [(Some [1], TVar (TPrim PByte) 3)]) ([3; 1; 2] ++ zeros 5) false = Ok (VStruct [VList [VInt 1; VInt 2; VInt 0]]) /\
  deserialize (TStruct [] [(Some [1], TDelim (TStruct [] [(Some [2], TPrim (PUInt 8 Sat))]) 8)]) [2; 0; 0; 0; 7] false = Err EDelimHeader /\
  deserialize (TStruct [] [(Some [1], TDelim (TStruct [] [(Some [2], TPrim (PUInt 8 Sat))]) 8)]) ([2; 0; 0; 0; 7] ++ zeros 1) false = Ok (VStruct [VStruct [VInt 7]]).
Proof. vm_compute. repeat split; reflexivity. Qed.
