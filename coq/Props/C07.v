(* C07 - Deserialization is total and obeys implicit truncation / zero extension. Statements only. *)
From Coq Require Import ZArith List Bool.
From PV Require Import BLS.Model Layout.Types Serdes.Model Serdes.ProofsReject.
Import ListNotations.
Open Scope Z_scope.

(* Totality: [deserialize : ty -> list Z -> bool -> res val] is a total function whose errors are EArrayLength, EUnionTag,
   EDelimHeader (SerDesError), EUtf8 / EValue (ValueError); that the implementation raises nothing else is established by
   the correspondence on hostile inputs. *)

(* lengths, tags and headers above the limit are rejected, never clamped; accepted ones are within the limit *)
Theorem C07_rejects_array : forall e n r, n < fst (read_bits r (prefix_width (align e) n)) -> deser (TVar e n) r = Err EArrayLength.
Proof. exact rejects_array. Qed.
Print Assumptions C07_rejects_array.

Theorem C07_rejects_tag : forall nm fs r, zlen fs <= fst (read_bits r (union_tag_width fs)) -> deser (TUnion nm fs) r = Err EUnionTag.
Proof. exact rejects_tag. Qed.
Print Assumptions C07_rejects_tag.

Theorem C07_rejects_header : forall i ext r,
  remaining_bits (snd (read_bits r (header_width (align i)))) < 8 * fst (read_bits r (header_width (align i))) ->
  deser (TDelim i ext) r = Err EDelimHeader.
Proof. exact rejects_header. Qed.
Print Assumptions C07_rejects_header.

Theorem C07_accepts_array : forall e n r v r', deser (TVar e n) r = Ok (v, r') -> fst (read_bits r (prefix_width (align e) n)) <= n.
Proof. exact accepts_array. Qed.
Print Assumptions C07_accepts_array.

Theorem C07_accepts_tag : forall nm fs r v r', deser (TUnion nm fs) r = Ok (v, r') -> fst (read_bits r (union_tag_width fs)) < zlen fs.
Proof. exact accepts_tag. Qed.
Print Assumptions C07_accepts_tag.

Theorem C07_accepts_header : forall i ext r v r', deser (TDelim i ext) r = Ok (v, r') ->
  8 * fst (read_bits r (header_width (align i))) <= remaining_bits (snd (read_bits r (header_width (align i)))).
Proof. exact accepts_header. Qed.
Print Assumptions C07_accepts_header.

Example C07_nonvacuous :
  deserialize (TStruct [] [(Some [1], TVar (TPrim PByte) 3)]) [4; 1; 2; 3; 4] false = Err EArrayLength /\
  deserialize (TStruct [] [(Some [1], TVar (TPrim PByte) 3)]) [3; 1; 2] false = Ok (VStruct [VList [VInt 1; VInt 2; VInt 0]]).
Proof. vm_compute. auto. Qed.
