(* C10 - Namespace reading is complete, ordered and deterministic. Statements only.
   Model: Namespace/Listing.v (read_namespace / read_files on an abstract directory tree) over Namespace/Reader.v
   (_read_definitions with file_pool, direct / transitive sets, promotion, pending definitions).
   Proofs: Namespace/SortProofs.v, ListingProofs.v, ReadEvents.v, LoopProofs.v, FilesProofs.v, ApiProofs.v.
   strict_unique L = no two lookups are equal up to letter case with the same version (excludes the open findings
   F7 and F5b, which the model mirrors); files_unique L = every lookup has its own file. *)
From Coq Require Import ZArith List Bool Sorted Permutation.
From PV Require Import Namespace.Reader Namespace.ReaderProofs Namespace.ReadPure Namespace.ReadCache Namespace.SortProofs
                       Namespace.LoopProofs Namespace.FilesProofs Namespace.Listing Namespace.ListingProofs Namespace.ApiProofs.
Import ListNotations.
Open Scope Z_scope.

(* read_namespace returns exactly one composite per definition file (.dsdl and .uavcan) under the root directory -
   none missing, none duplicated, none from the lookup directories -, each equal to what reading that definition on
   its own yields, sorted *)
Theorem C10_complete : forall txt files root lookups allow out,
  NoDup (map fid files) ->
  (forall L, listing (dedupe_dirs (lookups ++ [root])) files = Ok L -> strict_unique L) ->
  run_namespace txt files root lookups allow = Ok out ->
  Permutation (map tfile (odirect out)) (map fid (filter (fun f => globbed f && is_prefix root (fdir f)) files)) /\
  StronglySorted (fun a b => rank_lt (tkey a) (tkey b)) (odirect out) /\
  (forall L, listing (dedupe_dirs (lookups ++ [root])) files = Ok L -> forall t, In t (odirect out) -> genuine txt L t).
Proof. intros txt files root lookups allow out NF. exact (run_namespace_complete txt files NF root lookups allow out). Qed.
Print Assumptions C10_complete.

(* both result lists are always sorted by (full name, newest major first, newest minor first) ... *)
Theorem C10_sorted : forall txt targets L out, complete_read txt targets L = Ok out ->
  StronglySorted (fun a b => rleb (tkey a) (tkey b) = true) (odirect out) /\
  StronglySorted (fun a b => rleb (tkey a) (tkey b) = true) (otrans out).
Proof. exact complete_read_sorted. Qed.
Print Assumptions C10_sorted.

(* ... strictly, when no two list members share (name, version) *)
Theorem C10_sorted_strict : forall (l : list ctree), NoDup (map tkey l) ->
  StronglySorted (fun a b => rank_lt (tkey a) (tkey b)) (sort_trees l).
Proof. exact sort_trees_strict. Qed.
Print Assumptions C10_sorted_strict.

(* the order in which the files are enumerated (operating system, iteration order of a set, hash seed) is irrelevant *)
Theorem C10_perm : forall txt f1 f2,
  Permutation f1 f2 -> NoDup (map fid f1) ->
  (forall root lookups allow, ukeys [root] f1 -> ukeys (dedupe_dirs (lookups ++ [root])) f1 ->
     run_namespace txt f1 root lookups allow = run_namespace txt f2 root lookups allow) /\
  (forall ids roots lookups, (forall dirs, ukeys (dedupe_dirs dirs) f1) ->
     run_files txt f1 ids roots lookups = run_files txt f2 ids roots lookups).
Proof.
  intros txt f1 f2 P N. split.
  - intros. apply run_namespace_perm; assumption.
  - intros. apply run_files_perm; assumption.
Qed.
Print Assumptions C10_perm.

(* read_files / _complete_read_function: direct = exactly the requested definitions (one composite each, equal to
   reading it alone), transitive = exactly the rest of their dependency closure, disjoint, both strictly sorted *)
Theorem C10_files : forall txt L, strict_unique L -> files_unique L -> forall targets out,
  NoDup targets -> (forall d, In d targets -> In d L) ->
  complete_read txt targets L = Ok out ->
  (forall t, In t (odirect out) <-> exists d, In d targets /\ read_top txt d L = Ok t) /\
  Permutation (map tfile (odirect out)) (map mfile targets) /\
  (forall t, In t (otrans out) <-> ~ In t (odirect out) /\ exists t0, In t0 (odirect out) /\ sdesc t t0) /\
  (forall t, In t (otrans out) -> genuine txt L t) /\
  (forall t, In t (odirect out) -> ~ In t (otrans out)) /\
  StronglySorted (fun a b => rank_lt (tkey a) (tkey b)) (odirect out) /\
  StronglySorted (fun a b => rank_lt (tkey a) (tkey b)) (otrans out).
Proof. exact complete_read_spec. Qed.
Print Assumptions C10_files.

(* the same on the directory tree: however often and in whatever order a file is requested *)
Theorem C10_files_api : forall txt files, NoDup (map fid files) -> forall ids roots lookups out,
  (forall dirs L, listing (dedupe_dirs dirs) files = Ok L -> strict_unique L) ->
  (forall f, In f files -> In (fid f) ids -> globbed f = true) ->
  run_files txt files ids roots lookups = Ok out ->
  (forall i, In i (map tfile (odirect out)) <-> In i ids) /\
  NoDup (map tfile (odirect out)) /\
  (forall t, In t (otrans out) <-> ~ In t (odirect out) /\ exists t0, In t0 (odirect out) /\ sdesc t t0) /\
  (forall t, In t (odirect out) -> ~ In t (otrans out)) /\
  StronglySorted (fun a b => rank_lt (tkey a) (tkey b)) (odirect out) /\
  StronglySorted (fun a b => rank_lt (tkey a) (tkey b)) (otrans out).
Proof. intros txt files NF. exact (run_files_spec txt files NF). Qed.
Print Assumptions C10_files_api.

(* order and duplication of the directory arguments are irrelevant: lookups of both entry points, roots of read_files *)
Theorem C10_dir_args : forall txt files, NoDup (map fid files) -> forall a1 a2, (forall x, In x a1 <-> In x a2) ->
  (forall root allow, ukeys (dedupe_dirs (a1 ++ [root])) files ->
     run_namespace txt files root a1 allow = run_namespace txt files root a2 allow) /\
  (forall ids roots, (forall dirs, ukeys (dedupe_dirs dirs) files) ->
     run_files txt files ids roots a1 = run_files txt files ids roots a2) /\
  (forall ids lookups, (forall dirs, ukeys (dedupe_dirs dirs) files) ->
     run_files txt files ids a1 lookups = run_files txt files ids a2 lookups).
Proof.
  intros txt files NF a1 a2 H. split; [|split].
  - intros. apply run_namespace_dir_args; assumption.
  - intros. apply run_files_dir_args; assumption.
  - intros. apply run_files_root_args; assumption.
Qed.
Print Assumptions C10_dir_args.

(* a set of root / lookup directories is rejected exactly when one lies inside another or - if name collisions are
   disallowed - two distinct ones have the same name ignoring case *)
Theorem C10_reject_dirs : forall allow dirs,
  dirs_rejected allow dirs = true <->
  exists a b, In a dirs /\ In b dirs /\ a <> b /\
              ((allow = false /\ lower (dname a) = lower (dname b)) \/ inside a b).
Proof. exact dirs_rejected_spec. Qed.
Print Assumptions C10_reject_dirs.

(* the recursion of _read_definitions has exactly one level below the targets: what is pending there is cached *)
Theorem C10_level1_cached : forall txt L, strict_unique L -> files_unique L -> forall targets,
  NoDup targets -> (forall d, In d targets -> In d L) -> complete_read txt targets L <> Err EUnreachable.
Proof. exact complete_read_reachable. Qed.
Print Assumptions C10_level1_cached.

(* Without the hypothesis of unique (name, version) "one composite per file" is false (open finding F5b):
   ns/A.1.0.dsdl and ns/7000.A.1.0.dsdl with equal texts yield ONE composite. *)
Definition f5b_files : list fent :=
  [mkF [[97]; [110; 115]] [65] 1 0 None XDsdl false 0; mkF [[97]; [110; 115]] [65] 1 0 (Some 7000) XDsdl false 1].
Theorem C10_complete_refuted : exists txt files root out,
  NoDup (map fid files) /\ run_namespace txt files root [] true = Ok out /\
  length (odirect out) <> length (filter (fun f => globbed f && is_prefix root (fdir f)) files).
Proof.
  exists (fun _ => [Plain 8]), f5b_files, [[97]; [110; 115]].
  eexists. split; [repeat constructor; simpl; intuition discriminate|]. split; [vm_compute; reflexivity|].
  vm_compute. discriminate.
Qed.
Print Assumptions C10_complete_refuted.

(* non-vacuity: two versions, a nested namespace, a lookup directory; the hypotheses hold and the model computes *)
Definition nv_files : list fent :=
  [mkF [[97]; [110; 115]] [90] 1 0 None XDsdl false 0;            (* a/ns/Z.1.0.dsdl   refers to A.1.5 and lk.L.1.0 *)
   mkF [[97]; [110; 115]] [65] 1 5 None XDsdl false 1;            (* a/ns/A.1.5.dsdl *)
   mkF [[97]; [110; 115]] [65] 1 10 None XUavcan false 2;         (* a/ns/A.1.10.uavcan *)
   mkF [[97]; [110; 115]; [115]] [65] 2 0 None XDsdl false 3;     (* a/ns/s/A.2.0.dsdl *)
   mkF [[98]; [108; 107]] [76] 1 0 None XDsdl false 4;            (* b/lk/L.1.0.dsdl *)
   mkF [[97]; [110; 115]] [78] 1 0 None XOther false 5].          (* a/ns/N.1.0.txt *)
Definition nv_txt (f : Z) : list item :=
  if f =? 0 then [Ref [65] 1 5 0; Ref [108; 107; 46; 76] 1 0 2] else [Plain 8].
Example C10_nonvacuous :
  NoDup (map fid nv_files) /\
  (forall L, listing (dedupe_dirs ([[[98]; [108; 107]]] ++ [[[97]; [110; 115]]])) nv_files = Ok L -> strict_unique L) /\
  exists out, run_namespace nv_txt nv_files [[97]; [110; 115]] [[[98]; [108; 107]]] true = Ok out /\
              map tfile (odirect out) = [2; 1; 0; 3].
Proof.
  split; [repeat constructor; simpl; intuition discriminate|]. split.
  - intros L H. vm_compute in H. inversion H; subst L. clear H.
    intros a b Ha Hb. simpl in Ha, Hb.
    repeat (destruct Ha as [Ha|Ha]; [subst a|]); try contradiction;
      repeat (destruct Hb as [Hb|Hb]; [subst b|]); try contradiction; vm_compute; intros; try reflexivity; try discriminate.
  - eexists. split; vm_compute; reflexivity.
Qed.
