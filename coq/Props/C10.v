(* C10 - Namespace reading is complete, ordered and deterministic. Statements only. *)
From Coq Require Import ZArith List Bool Sorted Permutation.
From PV Require Import Namespace.Reader Namespace.ReaderProofs Namespace.Listing Namespace.ListingProofs.
Import ListNotations.
Open Scope Z_scope.

(* a set of root / lookup directories is rejected exactly when one lies inside another or - if name collisions are
   disallowed - two distinct ones have the same name ignoring case *)
Theorem C10_reject_dirs : forall allow dirs,
  dirs_rejected allow dirs = true <->
  exists a b, In a dirs /\ In b dirs /\ a <> b /\
              ((allow = false /\ lower (dname a) = lower (dname b)) \/ inside a b).
Proof. exact dirs_rejected_spec. Qed.
Print Assumptions C10_reject_dirs.
