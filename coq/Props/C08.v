(* C08 - Field offsets and in-language layout intrinsics equal the real bit positions. Statements only. *)
From Coq Require Import ZArith List Bool.
From PV Require Import Util.ListSet Util.Sumset BLS.Model BLS.Den BLS.ProofsExp Layout.Types Layout.Spec Layout.Proofs Layout.ProofsSpec
  Layout.Offsets Layout.OffsetsProofs.
Import ListNotations.
Open Scope Z_scope.

(* every field exactly once, in order; the offset set of field i is exactly the set of positions at which it can start:
   base padded to 8, then the preceding fields laid out one after another (each aligned, any of its lengths), then
   aligned for field i itself - for every structure and every base offset set *)
Theorem C08_struct : forall nm fs B, wft (TStruct nm fs) = true ->
  map fst (field_offsets (TStruct nm fs) B) = fs /\
  forall i f O, nth_error (field_offsets (TStruct nm fs) B) i = Some (f, O) -> forall x, Den O x <-> StructOff fs (Den B) i x.
Proof. exact struct_offsets_spec. Qed.
Print Assumptions C08_struct.

(* all variants of a union share base (padded) + tag width *)
Theorem C08_union : forall nm fs B, wft (TUnion nm fs) = true ->
  map fst (field_offsets (TUnion nm fs) B) = fs /\
  forall f O, In (f, O) (field_offsets (TUnion nm fs) B) -> forall x, Den O x <-> UnionOff fs (Den B) x.
Proof. exact union_offsets_spec. Qed.
Print Assumptions C08_union.

(* a delimited type adds its 32-bit header and delegates to the inner type *)
Theorem C08_delimited : forall i ext B, wft (TDelim i ext) = true ->
  field_offsets (TDelim i ext) B = field_offsets i (Cat [B; Leaf [32]]) /\
  forall x, Den (Cat [B; Leaf [32]]) x <-> exists b, Den B b /\ x = b + 32.
Proof. exact delim_offsets_spec. Qed.
Print Assumptions C08_delimited.

Theorem C08_elements : forall e n B, wft (TFix e n) = true ->
  map fst (elem_offsets (TFix e n) B) = map Z.of_nat (seq 0 (Z.to_nat n)) /\
  forall i O, In (i, O) (elem_offsets (TFix e n) B) -> 0 <= i < n /\ forall x, Den O x <-> ElemOff e (Den B) i x.
Proof. exact elem_offsets_spec. Qed.
Print Assumptions C08_elements.

(* `_offset_` in a structure = lengths of everything before that point, before any padding for the next field *)
Theorem C08_offset_intrinsic_struct : forall fs, forallb (fun f => wft (snd f)) fs = true ->
  forall x, Den (offset_intrinsic false fs) x <-> thread_ok LenSpec spec_align fs 0 x.
Proof. exact offset_intrinsic_struct. Qed.
Print Assumptions C08_offset_intrinsic_struct.

(* `_offset_` after the last variant of a union = tag + union of the variants *)
Theorem C08_offset_intrinsic_union : forall fs, forallb (fun f => wft (snd f)) fs = true -> 2 <= Z.of_nat (length fs) ->
  bitlen (Z.of_nat (length fs) - 1) <= 64 ->
  forall x, Den (offset_intrinsic true fs) x <-> exists l, variant_ok LenSpec fs l /\ x = spec_tag (Z.of_nat (length fs)) + l.
Proof. exact offset_intrinsic_union. Qed.
Print Assumptions C08_offset_intrinsic_union.

(* T._bit_length_ enumerates exactly the Specification's lengths of T; T._extent_ is extent T (by definition of the model) *)
Theorem C08_attrs : forall t, wft t = true -> forall x, In x (oexpand (bls t)) <-> LenSpec t x.
Proof. intros t W x. rewrite (oexpand_spec (bls t) (proj1 (wf_bls t W))). exact (bls_is_spec t W x). Qed.
Print Assumptions C08_attrs.

Theorem C08_offsets_wf : forall fs, forallb (fun f => wft (snd f)) fs = true -> forall acc, wf acc ->
  Forall (fun fo => wf (snd fo)) (struct_offsets_from acc fs).
Proof. exact wf_sof. Qed.
Print Assumptions C08_offsets_wf.

Definition ex_s : ty := TStruct [115] [(Some [97], TPrim (PUInt 3 Sat)); (Some [98], TVar (TPrim (PUInt 8 Sat)) 2); (None, TVoid 5); (Some [99], TStruct [116] [])].
Example C08_nonvacuous : wft ex_s = true /\
  map (fun fo => oexpandf (snd fo)) (field_offsets ex_s (Leaf [1; 16])) = [[8; 16]; [11; 19]; [19; 27; 35; 43]; [24; 32; 40; 48]].
Proof. vm_compute. split; reflexivity. Qed.

(* ---- soundness of the offsets with respect to the codec (appended by the Serdes builder; proofs in Serdes/OffsetsSound.v) ----
   [ser_fields_tr] is [ser_fields] of the codec model (Serdes/Model.v) instrumented to record the writer's bit offset at the
   moment every field is written (after its alignment step); [WR w bs]: writer w holds exactly the bit list bs.  The enclosing
   composite / array / top level aligns the writer to 8 before a nested composite is written (w_align_to w 8). *)
From PV Require Import Serdes.Model Serdes.Bits Serdes.WriterProofs Serdes.Spec Serdes.OffsetsSound.

(* structures: the instrumented serializer is the serializer; every field gets a recorded start; the start of field i is an
   element of the i-th offset set, for every valid value and every base set B containing the writer's bit length *)
Theorem C08_sound_wrt_codec : forall nm fs B vs w bs,
  wft (TStruct nm fs) = true -> serializable (TStruct nm fs) = true -> validb (TStruct nm fs) (VStruct vs) = true ->
  WR w bs -> Den B (zlen bs) ->
  let tr := snd (ser_fields_tr fs vs (w_align_to w 8)) in
  fst (ser_fields_tr fs vs (w_align_to w 8)) = ser_fields ser fs vs (w_align_to w 8) /\
  length tr = length fs /\
  forall i f O x, nth_error (field_offsets (TStruct nm fs) B) i = Some (f, O) -> nth_error tr i = Some x -> Den O x.
Proof. exact struct_offsets_sound. Qed.
Print Assumptions C08_sound_wrt_codec.

(* unions: the selected variant is written right after the tag, at an element of the (common) offset set *)
Theorem C08_sound_wrt_codec_union : forall nm fs B k w bs f O,
  wft (TUnion nm fs) = true -> WR w bs -> Den B (zlen bs) -> In (f, O) (field_offsets (TUnion nm fs) B) ->
  Den O (woff (write_bits (w_align_to w 8) k (union_tag_width fs))).
Proof. exact union_offsets_sound. Qed.
Print Assumptions C08_sound_wrt_codec_union.

(* delimited structures: the inner fields (serialized through a temporary writer, offsets from 0) are copied right after the
   header: field i lands at (offset after the header) + (its offset in the temporary writer), an element of the i-th offset set *)
Theorem C08_sound_wrt_codec_delimited : forall nm fs ext B vs w bs,
  wft (TDelim (TStruct nm fs) ext) = true -> serializable (TStruct nm fs) = true -> validb (TStruct nm fs) (VStruct vs) = true ->
  WR w bs -> Den B (zlen bs) ->
  let after_header := woff (write_bits (w_align_to w 8) 0 (header_width (align (TStruct nm fs)))) in
  let tr := snd (ser_fields_tr fs vs w_new) in
  length tr = length fs /\
  forall i f O x, nth_error (field_offsets (TDelim (TStruct nm fs) ext) B) i = Some (f, O) -> nth_error tr i = Some x -> Den O (after_header + x).
Proof. exact delim_offsets_sound. Qed.
Print Assumptions C08_sound_wrt_codec_delimited.

(* non-vacuity: the structure of C08_nonvacuous written at bit 16 (in B = {1, 16}): the recorded starts lie in the computed sets *)
Example C08_sound_nonvacuous :
  snd (ser_fields_tr [(Some [97], TPrim (PUInt 3 Sat)); (Some [98], TVar (TPrim (PUInt 8 Sat)) 2); (None, TVoid 5); (Some [99], TStruct [116] [])]
         [VInt 5; VList [VInt 1]; VStruct []] (w_align_to (write_bits w_new 0 16) 8)) = [16; 19; 35; 40].
Proof. vm_compute. reflexivity. Qed.
