(* C08 - Field offsets and in-language layout intrinsics equal the real bit positions. Statements only. *)
From Coq Require Import ZArith List Bool.
From PV Require Import Util.ListSet Util.Sumset BLS.Model BLS.Den BLS.ProofsExp Layout.Types Layout.Spec Layout.Proofs Layout.ProofsSpec
  Layout.Offsets Layout.OffsetsProofs.
Import ListNotations.
Open Scope Z_scope.

(* every field exactly once, in order; the offset set of field i is exactly the set of positions at which it can start:
   base padded to 8, then the preceding fields laid out one after another (each aligned, any of its lengths), then
   aligned for field i itself - for every structure and every base offset set *)
Theorem C08_struct : forall nm fs B, wft (TStruct nm fs) = true ->
  map fst (field_offsets (TStruct nm fs) B) = fs /\
  forall i f O, nth_error (field_offsets (TStruct nm fs) B) i = Some (f, O) -> forall x, Den O x <-> StructOff fs (Den B) i x.
Proof. exact struct_offsets_spec. Qed.
Print Assumptions C08_struct.

(* all variants of a union share base (padded) + tag width *)
Theorem C08_union : forall nm fs B, wft (TUnion nm fs) = true ->
  map fst (field_offsets (TUnion nm fs) B) = fs /\
  forall f O, In (f, O) (field_offsets (TUnion nm fs) B) -> forall x, Den O x <-> UnionOff fs (Den B) x.
Proof. exact union_offsets_spec. Qed.
Print Assumptions C08_union.

(* a delimited type adds its 32-bit header and delegates to the inner type *)
Theorem C08_delimited : forall i ext B, wft (TDelim i ext) = true ->
  field_offsets (TDelim i ext) B = field_offsets i (Cat [B; Leaf [32]]) /\
  forall x, Den (Cat [B; Leaf [32]]) x <-> exists b, Den B b /\ x = b + 32.
Proof. exact delim_offsets_spec. Qed.
Print Assumptions C08_delimited.

Theorem C08_elements : forall e n B, wft (TFix e n) = true ->
  map fst (elem_offsets (TFix e n) B) = map Z.of_nat (seq 0 (Z.to_nat n)) /\
  forall i O, In (i, O) (elem_offsets (TFix e n) B) -> 0 <= i < n /\ forall x, Den O x <-> ElemOff e (Den B) i x.
Proof. exact elem_offsets_spec. Qed.
Print Assumptions C08_elements.

(* `_offset_` in a structure = lengths of everything before that point, before any padding for the next field *)
Theorem C08_offset_intrinsic_struct : forall fs, forallb (fun f => wft (snd f)) fs = true ->
  forall x, Den (offset_intrinsic false fs) x <-> thread_ok LenSpec spec_align fs 0 x.
Proof. exact offset_intrinsic_struct. Qed.
Print Assumptions C08_offset_intrinsic_struct.

(* `_offset_` after the last variant of a union = tag + union of the variants *)
Theorem C08_offset_intrinsic_union : forall fs, forallb (fun f => wft (snd f)) fs = true -> 2 <= Z.of_nat (length fs) ->
  bitlen (Z.of_nat (length fs) - 1) <= 64 ->
  forall x, Den (offset_intrinsic true fs) x <-> exists l, variant_ok LenSpec fs l /\ x = spec_tag (Z.of_nat (length fs)) + l.
Proof. exact offset_intrinsic_union. Qed.
Print Assumptions C08_offset_intrinsic_union.

(* T._bit_length_ enumerates exactly the Specification's lengths of T; T._extent_ is extent T (by definition of the model) *)
Theorem C08_attrs : forall t, wft t = true -> forall x, In x (oexpand (bls t)) <-> LenSpec t x.
Proof. intros t W x. rewrite (oexpand_spec (bls t) (proj1 (wf_bls t W))). exact (bls_is_spec t W x). Qed.
Print Assumptions C08_attrs.

Theorem C08_offsets_wf : forall fs, forallb (fun f => wft (snd f)) fs = true -> forall acc, wf acc ->
  Forall (fun fo => wf (snd fo)) (struct_offsets_from acc fs).
Proof. exact wf_sof. Qed.
Print Assumptions C08_offsets_wf.

Definition ex_s : ty := TStruct [115] [(Some [97], TPrim (PUInt 3 Sat)); (Some [98], TVar (TPrim (PUInt 8 Sat)) 2); (None, TVoid 5); (Some [99], TStruct [116] [])].
Example C08_nonvacuous : wft ex_s = true /\
  map (fun fo => oexpandf (snd fo)) (field_offsets ex_s (Leaf [1; 16])) = [[8; 16]; [11; 19]; [19; 27; 35; 43]; [24; 32; 40; 48]].
Proof. vm_compute. split; reflexivity. Qed.
