(* C05 - a definition is accepted iff it obeys the static rules.  Statements only (work in progress). *)
From Coq Require Import ZArith List Bool Lia.
From PV Require Import Util.ListSet BLS.Model Layout.Types Rules.Names Rules.Defn Rules.Accept.
Import ListNotations.
Open Scope Z_scope.

Theorem C05_width_uint : forall e i w c, scalar_ok e i (XUInt w c) = true <-> 1 <= w <= 64.
Proof. intros. cbn. unfold width_ok. rewrite andb_true_iff, !Z.leb_le. tauto. Qed.
Print Assumptions C05_width_uint.
