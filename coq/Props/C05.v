(* C05 - a definition is accepted if and only if it obeys the static rules of DSDL.  Statements only.

   accept (Rules/Accept.v) replays the checks of pydsdl where the code makes them; Valid (Rules/Spec.v) is the
   declarative conjunction of the rules as the property lists them.  The correspondence check (Check/C05.v) compares
   the implementation's verdict with accept on generated definitions. *)
From Coq Require Import ZArith List Bool Lia.
From PV Require Import Util.ListSet Util.Sumset BLS.Model BLS.Den Layout.Types
  Rules.Names Rules.NamesSpec Rules.NamesProofs Rules.Defn Rules.Accept Rules.Spec
  Rules.ProofsLocal Rules.ProofsRun Rules.Proofs Rules.ProofsExtra Rules.Boundaries Rules.ExtentLayout.
Import ListNotations.
Open Scope Z_scope.

(* the main statement: for every environment and every definition of the abstract syntax *)
Theorem C05_iff : forall e d, accept e d = true <-> Valid e d.
Proof. exact accept_iff_valid. Qed.
Print Assumptions C05_iff.

(* check_name = identifier syntax [a-zA-Z_][a-zA-Z0-9_]* and the lowered name is not reserved
   (Reserved: the 22 words, void\d*, u?int\d*, u?q\d+_\d+, float\d*, com\d, lpt\d, _.*_) *)
Theorem C05_names : forall s, name_ok s = true <-> IdentSyntax s /\ ~ Reserved (lower s).
Proof. exact name_ok_spec. Qed.
Print Assumptions C05_names.

(* reserved words and patterns are case-insensitive *)
Theorem C05_names_case : forall s t, lower s = lower t -> name_ok s = name_ok t.
Proof. exact name_ok_case_insensitive. Qed.
Print Assumptions C05_names_case.

(* the handlers, run in statement order from the initial state, succeed exactly when the positional rules hold, and
   then the builder's final state is the summary of the section *)
Theorem C05_handlers : forall e i first depr0 sec b, (first = true -> depr0 = false) ->
  (run e i first (init_state depr0) sec = Some b <-> Positional e i first sec /\ b = summary depr0 sec).
Proof. exact run_init. Qed.
Print Assumptions C05_handlers.

(* "exactly one of @sealed / @extent per schema": the two clauses of SectionRules amount to a unique position *)
Theorem C05_exactly_one_mode : forall sec,
  ((exists m, In m sec /\ IsMode m)
   /\ (forall l1 m l2, sec = l1 ++ m :: l2 -> IsMode m -> Forall (fun s => ~ IsMode s) l1))
  <-> exists l1 m l2, sec = l1 ++ m :: l2 /\ IsMode m
                      /\ Forall (fun s => ~ IsMode s) l1 /\ Forall (fun s => ~ IsMode s) l2.
Proof. exact exactly_one_mode. Qed.
Print Assumptions C05_exactly_one_mode.

(* a reference that resolves names a dependency with exactly that spelling and version, and no other dependency has
   the same version and a name equal up to letter case *)
Theorem C05_resolve : forall e i c M m p, resolve e i c M m = Some p ->
  In p (e_deps e) /\ p_name p = resolve_name i c /\ p_major p = M /\ p_minor p = m
  /\ (forall q, In q (e_deps e) -> map lower (p_name q) = map lower (resolve_name i c) ->
                p_major q = M -> p_minor q = m -> q = p).
Proof. exact resolve_spec. Qed.
Print Assumptions C05_resolve.

(* readable consequences of Valid: deprecation is transitive also through arrays; a union has no padding and at
   least two variants *)
Theorem C05_deprecation_transitive : forall e d sec t n,
  Valid e d -> (sec = d_first d \/ In sec (d_more d)) -> In (SField t n) sec ->
  ref_deprecated e (d_id d) (elem_of t) = true -> has_dir DDeprecated (d_first d) = true.
Proof. exact valid_deprecation_transitive. Qed.
Print Assumptions C05_deprecation_transitive.

Theorem C05_union_shape : forall e i first depr k sec,
  SectionRules e i first depr k sec -> has_dir DUnion sec = true ->
  (forall w, ~ In (SPad w) sec) /\ (2 <= length (filter is_fieldb sec))%nat.
Proof. exact valid_union_shape. Qed.
Print Assumptions C05_union_shape.

(* boundaries of the type parameters: width 0/1/64/65, signed 1/2/64/65 and never truncated, float 16/32/64 only,
   void 0/1/64/65, capacity 0/1 (and 1/2 for the exclusive form), 2^64-1 / 2^64 for the length prefix *)
Theorem C05_boundaries_types : forall e i,
  (forall c, scalar_ok e i (XUInt 0 c) = false /\ scalar_ok e i (XUInt 1 c) = true
             /\ scalar_ok e i (XUInt 64 c) = true /\ scalar_ok e i (XUInt 65 c) = false)
  /\ (scalar_ok e i (XSInt 1 Sat) = false /\ scalar_ok e i (XSInt 2 Sat) = true
      /\ scalar_ok e i (XSInt 64 Sat) = true /\ scalar_ok e i (XSInt 65 Sat) = false
      /\ forall w, scalar_ok e i (XSInt w Trunc) = false)
  /\ (forall w c, scalar_ok e i (XFloat w c) = true <-> w = 16 \/ w = 32 \/ w = 64)
  /\ (scalar_ok e i (XVoid 0) = false /\ scalar_ok e i (XVoid 1) = true
      /\ scalar_ok e i (XVoid 64) = true /\ scalar_ok e i (XVoid 65) = false)
  /\ (forall s, scalar_ok e i s = true -> is_service_ref e i s = false ->
        type_ok e i (TxFix s 0) = false /\ type_ok e i (TxFix s 1) = true
        /\ type_ok e i (TxVarI s 0) = false /\ type_ok e i (TxVarI s 1) = true
        /\ type_ok e i (TxVarE s 1) = false /\ type_ok e i (TxVarE s 2) = true
        /\ type_ok e i (TxVarI s (2 ^ 64 - 1)) = true /\ type_ok e i (TxVarI s (2 ^ 64)) = false).
Proof. exact type_boundaries. Qed.
Print Assumptions C05_boundaries_types.

Theorem C05_boundaries_version : forall r ns s p,
  version_ok (mkId r ns s 0 0 p) = false /\ version_ok (mkId r ns s 0 1 p) = true
  /\ version_ok (mkId r ns s 1 0 p) = true /\ version_ok (mkId r ns s 255 255 p) = true
  /\ version_ok (mkId r ns s 256 0 p) = false /\ version_ok (mkId r ns s 0 256 p) = false
  /\ version_ok (mkId r ns s (-1) 1 p) = false.
Proof. exact version_boundaries. Qed.
Print Assumptions C05_boundaries_version.

Theorem C05_boundaries_ports :
  (subject_port_ok (Some 0) = true /\ subject_port_ok (Some 8191) = true /\ subject_port_ok (Some 8192) = false
   /\ subject_port_ok (Some (-1)) = false
   /\ service_port_ok (Some 0) = true /\ service_port_ok (Some 511) = true /\ service_port_ok (Some 512) = false
   /\ subject_port_ok None = true /\ service_port_ok None = true)
  /\ (reg false [110;115] 6143 false = false /\ reg false [110;115] 6144 false = true
      /\ reg false [110;115] 7167 false = true /\ reg false [110;115] 7168 false = false
      /\ reg false w_uavcan 7167 false = false /\ reg false w_uavcan 7168 false = true
      /\ reg false w_cyphal 8191 false = true /\ reg false w_cyphal 8192 false = false
      /\ reg false [110;115] 255 true = false /\ reg false [110;115] 256 true = true
      /\ reg false [110;115] 383 true = true /\ reg false [110;115] 384 true = false
      /\ reg false w_uavcan 383 true = false /\ reg false w_uavcan 384 true = true
      /\ reg false w_cyphal 511 true = true /\ reg false w_cyphal 512 true = false
      /\ (forall root p service, reg true root p service = true)).
Proof. exact (conj port_boundaries regulated_boundaries). Qed.
Print Assumptions C05_boundaries_ports.

(* the extent: accepted iff a multiple of 8 and >= the inner extent M; M and M+8 pass, M-8 and M+1..M+7 do not *)
Theorem C05_boundaries_extent : forall e i dp un at_ z,
  let M := extent (inner_ty e i (mkB dp MNone un at_)) in
  M mod 8 = 0 ->
  (mode_ok e i (mkB dp (MDelim z) un at_) = true <-> z mod 8 = 0 /\ M <= z)
  /\ (z = M -> mode_ok e i (mkB dp (MDelim z) un at_) = true)
  /\ (z = M + 8 -> mode_ok e i (mkB dp (MDelim z) un at_) = true)
  /\ (z = M - 8 -> mode_ok e i (mkB dp (MDelim z) un at_) = false)
  /\ (M < z < M + 8 -> mode_ok e i (mkB dp (MDelim z) un at_) = false).
Proof. exact extent_boundaries. Qed.
Print Assumptions C05_boundaries_extent.

(* "not smaller than the longest representation": the inner extent bounds every member of the bit length set (C01) *)
Theorem C05_extent_longest : forall e i b z, wf (bls (inner_ty e i b)) ->
  (extent (inner_ty e i b) <= z <-> forall x, Den (bls (inner_ty e i b)) x -> x <= z).
Proof. exact extent_longest. Qed.
Print Assumptions C05_extent_longest.

(* ... and unconditionally for a section that obeys the other rules, given well-formed dependencies (C02 layout
   theorems): the extent rule says "z is a multiple of 8 and bounds every possible serialized length of the schema";
   the bound itself (the longest representation) is a possible length and a multiple of 8 *)
Theorem C05_extent_rule : forall e i depr sec z,
  env_wf e -> Forall (StmtOK e i) sec ->
  Forall (AttrPlacementOK e i depr (negb (has_dir DUnion sec))) (attrs_of sec) ->
  (has_dir DUnion sec = true -> 2 <= Z.of_nat (length (layout_fields e i (attrs_of sec)))) ->
  Z.of_nat (length (layout_fields e i (attrs_of sec))) <= 2 ^ 64 ->
  let t := inner_ty e i (summary false sec) in
  ((z mod 8 = 0 /\ extent t <= z) <-> ((8 | z) /\ forall x, Den (bls t) x -> x <= z))
  /\ Den (bls t) (extent t) /\ (8 | extent t).
Proof. exact extent_rule_lengths. Qed.
Print Assumptions C05_extent_rule.

Theorem C05_valid_extent : forall e i first depr k sec z,
  env_wf e -> SectionRules e i first depr k sec -> mode_of sec = MDelim z ->
  Z.of_nat (length (layout_fields e i (attrs_of sec))) <= 2 ^ 64 ->
  (8 | z) /\ forall x, Den (bls (inner_ty e i (summary false sec))) x -> x <= z.
Proof. exact valid_extent_bounds. Qed.
Print Assumptions C05_valid_extent.

(* the request / response schemas of a service are named Name.Request / Name.Response: 8 / 9 more characters count
   against the limit of 255 *)
Theorem C05_name_length_service : forall i,
  joined_length (composite_name i KRequest) = joined_length (full_name i) + 8
  /\ joined_length (composite_name i KResponse) = joined_length (full_name i) + 9.
Proof. exact name_length_service. Qed.
Print Assumptions C05_name_length_service.

(* ---- non-vacuity: a valid service definition with a dependency, and an invalid neighbour ---------------------- *)
Definition ex_dep : dep := mkDep [[110;115]; [68]] 1 0 true false (TStruct [] [(Some [102], TPrim (PUInt 8 Sat))]).
Definition ex_env : env := mkEnv [ex_dep] false.
Definition ex_id : ident := mkId [110;115] [] [84] 1 0 (Some 300).
Definition ex_defn (ext : Z) : defn :=
  mkDefn ex_id
    [SDir DDeprecated None; SDir DUnion None; SField (TxVarI (XRef [[68]] 1 0) 3) [97]; SField (TxS (XUInt 7 Trunc)) [98];
     SConst (TxS (XUInt 8 Sat)) [67] (VStr [97]); SDir DExtent (Some (VRat ext 1))]
    [[SField (TxVarI XUtf8 10) [115]; SPad 3; SDir DSealed None; SDir DAssert (Some (VBool true))]].

Example C05_nonvacuous : Valid ex_env (ex_defn 40) /\ ~ Valid ex_env (ex_defn 32) /\ ~ Valid ex_env (ex_defn 44).
Proof.
  rewrite <- !C05_iff. split; [vm_compute; reflexivity|]. split; vm_compute; discriminate.
Qed.
