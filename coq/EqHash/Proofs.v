From Coq Require Import ZArith List Bool Lia.
From PV Require Import Util.ListSet Util.Sumset BLS.Model BLS.Den BLS.ProofsExp Layout.Types Layout.ProofsSpec EqHash.Model.
Import ListNotations.
Open Scope Z_scope.

Lemma list_eqb_refl l : list_eqb l l = true. Proof. apply list_eqb_eq. reflexivity. Qed.
Lemma list_eqb_sym a b : list_eqb a b = list_eqb b a.
Proof. destruct (list_eqb a b) eqn:E. - apply list_eqb_eq in E. subst. symmetry. apply list_eqb_refl. - destruct (list_eqb b a) eqn:E'; auto. apply list_eqb_eq in E'. subst. rewrite list_eqb_refl in E. discriminate. Qed.

Lemma tok_eqb_eq a b : tok_eqb a b = true <-> a = b.
Proof.
  destruct a, b; simpl; split; intros H; try discriminate; try congruence.
  - apply list_eqb_eq in H. congruence.
  - inversion H. apply list_eqb_refl.
  - apply Z.eqb_eq in H. congruence.
  - inversion H. apply Z.eqb_refl.
Qed.

Lemma toks_eqb_eq a b : toks_eqb a b = true <-> a = b.
Proof.
  revert b. induction a as [|x a IH]; intros [|y b]; simpl; split; intros H; try discriminate; try congruence.
  - apply andb_true_iff in H. destruct H as [H1 H2]. apply tok_eqb_eq in H1. apply IH in H2. congruence.
  - inversion H; subst. apply andb_true_iff. split; [apply tok_eqb_eq; auto|apply IH; auto].
Qed.

Lemma approx_eq_refl a : approx_eq a a = true.
Proof. unfold approx_eq. rewrite !Z.eqb_refl, list_eqb_refl. reflexivity. Qed.
Lemma approx_eq_sym a b : approx_eq a b = approx_eq b a.
Proof. unfold approx_eq. rewrite (Z.eqb_sym (omin a)), (Z.eqb_sym (omax a)), (list_eqb_sym (omod a 32)). reflexivity. Qed.
Lemma approx_eq_spec a b : approx_eq a b = true <-> omin a = omin b /\ omax a = omax b /\ omod a 32 = omod b 32.
Proof.
  unfold approx_eq. rewrite !andb_true_iff, !Z.eqb_eq, list_eqb_eq. tauto.
Qed.
Lemma approx_eq_trans a b c : approx_eq a b = true -> approx_eq b c = true -> approx_eq a c = true.
Proof. rewrite !approx_eq_spec. intros (A & B & C) (A' & B' & C'). repeat split; congruence. Qed.

Theorem ty_eq_refl a : ty_eq a a = true.
Proof. unfold ty_eq. rewrite Z.eqb_refl, approx_eq_refl. simpl. apply toks_eqb_eq. reflexivity. Qed.

Theorem ty_eq_sym a b : ty_eq a b = ty_eq b a.
Proof.
  unfold ty_eq. rewrite (Z.eqb_sym (cls a)), (approx_eq_sym (bls a) (bls b)). f_equal.
  destruct (toks_eqb (show a) (show b)) eqn:E.
  - apply toks_eqb_eq in E. symmetry. apply toks_eqb_eq. auto.
  - destruct (toks_eqb (show b) (show a)) eqn:E'; auto. apply toks_eqb_eq in E'. rewrite E' in E.
    assert (toks_eqb (show a) (show a) = true) by (apply toks_eqb_eq; reflexivity). congruence.
Qed.

Theorem ty_eq_spec a b : ty_eq a b = true <->
  cls a = cls b /\ show a = show b /\ omin (bls a) = omin (bls b) /\ omax (bls a) = omax (bls b) /\ omod (bls a) 32 = omod (bls b) 32.
Proof. unfold ty_eq. rewrite !andb_true_iff, Z.eqb_eq, approx_eq_spec, toks_eqb_eq. tauto. Qed.

Theorem ty_eq_trans a b c : ty_eq a b = true -> ty_eq b c = true -> ty_eq a c = true.
Proof. rewrite !ty_eq_spec. intros (A & B & C & D & E) (A' & B' & C' & D' & E'). repeat split; congruence. Qed.

Theorem ty_eq_hash a b : ty_eq a b = true -> ty_hash a = ty_hash b.
Proof. rewrite ty_eq_spec. intros (A & B & C & D & E). unfold ty_hash, bls_hash. congruence. Qed.

(* types whose Specification length sets differ in min, max or residues modulo 32 are never equal;
   equal length sets never separate types of the same class and string form *)
Theorem ty_eq_complete a b : wft a = true -> wft b = true -> cls a = cls b -> show a = show b ->
  (forall x, Den (bls a) x <-> Den (bls b) x) -> ty_eq a b = true.
Proof.
  intros Wa Wb C S H. apply ty_eq_spec.
  destruct (approx_eq_complete (bls a) (bls b) (proj1 (wf_bls a Wa)) (proj1 (wf_bls b Wb)) H) as [E _].
  apply approx_eq_spec in E. tauto.
Qed.

Theorem field_eq_props a b c : field_eq a a = true /\ field_eq a b = field_eq b a /\
  (field_eq a b = true -> field_eq b c = true -> field_eq a c = true) /\
  (field_eq a b = true -> ty_hash (snd a) = ty_hash (snd b) /\ fst a = fst b).
Proof.
  unfold field_eq.
  assert (forall x, name_eqb x x = true) as NR by (intros [x|]; simpl; auto using list_eqb_refl).
  assert (forall x y, name_eqb x y = true <-> x = y) as NE.
  { intros [x|] [y|]; simpl; split; intros H; try discriminate; try congruence. - apply list_eqb_eq in H. congruence. - inversion H. apply list_eqb_refl. }
  repeat split.
  - rewrite ty_eq_refl, NR. reflexivity.
  - rewrite ty_eq_sym. f_equal. destruct (name_eqb (fst a) (fst b)) eqn:E.
    + apply NE in E. symmetry. apply NE. auto.
    + destruct (name_eqb (fst b) (fst a)) eqn:E'; auto. apply NE in E'. rewrite E', NR in E. discriminate.
  - rewrite !andb_true_iff, !NE. intros [A B] [A' B']. split; [eapply ty_eq_trans; eauto|congruence].
  - rewrite andb_true_iff in H. apply ty_eq_hash. tauto.
  - rewrite andb_true_iff, NE in H. tauto.
Qed.
