(* Equality / hash contract of type-model objects (SerializableType.__eq__/__hash__, Attribute, Constant). Definitions only. *)
From Coq Require Import ZArith List Bool.
From PV Require Import Util.ListSet Util.Sumset BLS.Model Layout.Types.
Import ListNotations.
Open Scope Z_scope.

(* normalised string form as a token list (numbers stay numbers: rendering digits is injective and irrelevant here) *)
Inductive tok := KS (s : list Z) | KN (n : Z).
Definition tok_eqb (a b : tok) : bool :=
  match a, b with KS x, KS y => list_eqb x y | KN x, KN y => x =? y | _, _ => false end.
Fixpoint toks_eqb (a b : list tok) : bool :=
  match a, b with
  | [], [] => true
  | x :: a', y :: b' => tok_eqb x y && toks_eqb a' b'
  | _, _ => false
  end.

Definition cast_tok (c : cast) : tok := KS (match c with Sat => [115] | Trunc => [116] end).   (* "saturated " / "truncated " *)

Fixpoint show (t : ty) : list tok :=
  match t with
  | TPrim PBool => [KS [98]]
  | TPrim PByte => [KS [121]]
  | TPrim PUtf8 => [KS [56]]
  | TPrim (PUInt w c) => [cast_tok c; KS [117]; KN w]
  | TPrim (PSInt w) => [cast_tok Sat; KS [105]; KN w]
  | TPrim (PFloat w c) => [cast_tok c; KS [102]; KN w]
  | TVoid w => [KS [118]; KN w]
  | TFix e n => show e ++ [KS [91]; KN n; KS [93]]            (* T[n] *)
  | TVar e n => show e ++ [KS [91; 60; 61]; KN n; KS [93]]    (* T[<=n] *)
  | TStruct nm _ => [KS nm]
  | TUnion nm _ => [KS nm]
  | TDelim i _ => show i
  end.

(* the Python class of the object *)
Definition cls (t : ty) : Z :=
  match t with
  | TPrim PBool => 0 | TPrim (PUInt _ _) => 1 | TPrim (PSInt _) => 2 | TPrim (PFloat _ _) => 3
  | TPrim PByte => 4 | TPrim PUtf8 => 5 | TVoid _ => 6 | TFix _ _ => 7 | TVar _ _ => 8
  | TStruct _ _ => 9 | TUnion _ _ => 10 | TDelim _ _ => 11
  end.

Definition ty_eq (a b : ty) : bool := (cls a =? cls b) && approx_eq (bls a) (bls b) && toks_eqb (show a) (show b).
Definition ty_hash (a : ty) : list tok * (Z * Z) := (show a, bls_hash (bls a)).
Definition hash_eqb (x y : list tok * (Z * Z)) : bool :=
  toks_eqb (fst x) (fst y) && (fst (snd x) =? fst (snd y)) && (snd (snd x) =? snd (snd y)).

(* attributes: fields compare by (type, name); constants additionally by value *)
(* expression values: rationals in lowest terms, booleans, strings as code point lists (equality of String objects is
   the equality of their code points - the NFC-normalising comparison is the DSDL operator `==`, not `__eq__`) *)
Inductive cval := CRat (num den : Z) | CBool (b : bool) | CStr (s : list Z).
Definition cval_eqb (a b : cval) : bool :=
  match a, b with
  | CRat n d, CRat n' d' => (n =? n') && (d =? d')
  | CBool x, CBool y => Bool.eqb x y
  | CStr x, CStr y => list_eqb x y
  | _, _ => false
  end.
Definition name_eqb (a b : option str) : bool :=
  match a, b with Some x, Some y => list_eqb x y | None, None => true | _, _ => false end.
Definition field_eq (a b : option str * ty) : bool := ty_eq (snd a) (snd b) && name_eqb (fst a) (fst b).
Definition const_eq (a b : (option str * ty) * cval) : bool := field_eq (fst a) (fst b) && cval_eqb (snd a) (snd b).
