(* C04 - the dispatch mechanism (Expr/Eval.v) computes the Specification's operator tables (Expr/Sem.v) *)
From Coq Require Import ZArith QArith List Bool Lia.
From PV Require Import Expr.Values Expr.Syntax Expr.Literals Expr.Sem Expr.Eval Expr.ProofsArith.
Import ListNotations.

(* ---- induction principles for the nested inductives ---- *)
Section ValueInd.
Variable P : value -> Prop.
Hypothesis Hr : forall q, P (VRat q).
Hypothesis Hb : forall b, P (VBool b).
Hypothesis Hs : forall s, P (VStr s).
Hypothesis Hset : forall l, Forall P l -> P (VSet l).
Fixpoint value_ind' (v : value) : P v :=
  match v with
  | VRat q => Hr q
  | VBool b => Hb b
  | VStr s => Hs s
  | VSet l => Hset l ((fix go (l : list value) : Forall P l :=
                         match l with [] => Forall_nil P | x :: r => Forall_cons x (value_ind' x) (go r) end) l)
  end.
End ValueInd.

Section ExprInd.
Variable P : expr -> Prop.
Hypothesis Hlit : forall l, P (ELit l).
Hypothesis Hid : forall n, P (EIdent n).
Hypothesis Hset : forall es, Forall P es -> P (ESet es).
Hypothesis Hun : forall o a, P a -> P (EUn o a).
Hypothesis Hbin : forall o a b, P a -> P b -> P (EBin o a b).
Hypothesis Hattr : forall a n, P a -> P (EAttr a n).
Hypothesis Hpar : forall a, P a -> P (EPar a).
Fixpoint expr_ind' (e : expr) : P e :=
  match e with
  | ELit l => Hlit l
  | EIdent n => Hid n
  | ESet es => Hset es ((fix go (l : list expr) : Forall P l :=
                           match l with [] => Forall_nil P | x :: r => Forall_cons x (expr_ind' x) (go r) end) es)
  | EUn o a => Hun o a (expr_ind' a)
  | EBin o a b => Hbin o a b (expr_ind' a) (expr_ind' b)
  | EAttr a n => Hattr a n (expr_ind' a)
  | EPar a => Hpar a (expr_ind' a)
  end.
End ExprInd.

Lemma map_ext_Forall : forall (A B : Type) (f g : A -> B) l, Forall (fun x => f x = g x) l -> map f l = map g l.
Proof. intros A B f g l H. induction H; cbn; [reflexivity|]. rewrite H, IHForall. reflexivity. Qed.

(* ---- scalars ---- *)
Definition is_set (v : value) : bool := match v with VSet _ => true | _ => false end.

Lemma meth_scalar_on_set : forall o a l, is_set a = false -> meth_scalar o a (VSet l) = DUndef.
Proof. intros o a l H. destruct a; try discriminate; destruct o; reflexivity. Qed.

Lemma meth_set_on_scalar : forall o la r, is_set r = false -> meth_set o la r = DUndef.
Proof. intros o la r H. destruct r; try discriminate; reflexivity. Qed.

(* the wrapper of _auto_swap on two scalars is the scalar table *)
Lemma swap_scalar_sem : forall o a b, o <> BNe -> is_set a = false -> is_set b = false ->
  swap_scalar o a b = sem_scalar o a b.
Proof.
  intros o a b Hne Ha Hb.
  destruct a as [p|x|s|la]; try discriminate; destruct b as [q|y|t|lb]; try discriminate.
  - (* rational, rational *)
    destruct o; try congruence; try reflexivity.
    + unfold swap_scalar, sem_scalar. cbn [meth_scalar meth_rat rat_bitwise bitop].
      destruct (is_int p); destruct (is_int q); reflexivity.
    + unfold swap_scalar, sem_scalar. cbn [meth_scalar meth_rat rat_bitwise bitop].
      destruct (is_int p); destruct (is_int q); reflexivity.
    + unfold swap_scalar, sem_scalar. cbn [meth_scalar meth_rat rat_bitwise bitop].
      destruct (is_int p); destruct (is_int q); reflexivity.
    + unfold swap_scalar, sem_scalar. cbn [meth_scalar meth_rat rat_arith]. destruct (q_is_zero q); reflexivity.
    + unfold swap_scalar, sem_scalar. cbn [meth_scalar meth_rat rat_arith]. destruct (q_is_zero q) eqn:Z; [reflexivity|].
      cbn [to_res]. rewrite (py_mod_qnorm p q Z). reflexivity.
    + unfold swap_scalar, sem_scalar. cbn [meth_scalar meth_rat rat_arith].
      destruct (is_int q) eqn:Iq.
      * rewrite <- (py_pow_sem p q Iq). destruct (py_pow_int p (qnum q)); reflexivity.
      * unfold sem_pow. rewrite Iq. reflexivity.
  - destruct o; try congruence; reflexivity.
  - destruct o; try congruence; reflexivity.
  - destruct o; try congruence; reflexivity.
  - destruct o; try congruence; reflexivity.
  - destruct o; try congruence; reflexivity.
  - destruct o; try congruence; reflexivity.
  - destruct o; try congruence; reflexivity.
  - destruct o; try congruence; reflexivity.
Qed.

(* ---- element-wise application ---- *)
Lemma ew_l_lift : forall o r, o <> BNe -> is_set r = false -> forall x, ew_l o r x = lift_l o r x.
Proof.
  intros o r Hne Hr. induction x using value_ind'.
  - cbn. apply swap_scalar_sem; auto.
  - cbn. apply swap_scalar_sem; auto.
  - cbn. apply swap_scalar_sem; auto.
  - cbn [ew_l lift_l]. f_equal. apply map_ext_Forall. exact H.
Qed.

Lemma ew_r_lift : forall o l, o <> BNe -> is_set l = false -> forall x, ew_r o l x = lift_r o l x.
Proof.
  intros o l Hne Hl. induction x using value_ind'.
  - cbn. apply swap_scalar_sem; auto.
  - cbn. apply swap_scalar_sem; auto.
  - cbn. apply swap_scalar_sem; auto.
  - cbn [ew_r lift_r]. f_equal. apply map_ext_Forall. exact H.
Qed.

(* ---- sets with sets ---- *)
Lemma to_res_of_res : forall r, to_res (of_res r) = r.
Proof. destruct r; reflexivity. Qed.

Lemma setset_sem : forall o la lb, o <> BNe ->
  match meth_set o la (VSet lb) with DUndef => Rej | d => to_res d end = sem_setset o la lb.
Proof.
  intros o la lb Hne. unfold sem_setset, homotypic.
  destruct o; try congruence; try reflexivity; cbn [meth_set]; unfold homotypic;
    destruct (opt_kind_eqb (elem_kind la) (elem_kind lb)); cbn [negb]; try reflexivity.
  - destruct (mkset (vunion la lb)); reflexivity.
  - destruct (mkset (vsymdiff la lb)); reflexivity.
  - destruct (mkset (vinter la lb)); reflexivity.
Qed.

Lemma arith_not_ne : forall o, is_arith o = true -> o <> BNe.
Proof. intros o H E. subst. discriminate. Qed.

Lemma alt_right_scalar : forall o, is_arith o = true -> alt_of o = AltRight.
Proof. destruct o; try discriminate; reflexivity. Qed.

(* ---- the decorated operators ---- *)
Lemma disp1_sem : forall o l r, o <> BNe -> disp1 o l r = sem_bin o l r.
Proof.
  intros o l r Hne.
  destruct l as [p|x|s|la] eqn:El; destruct r as [q|y|t|lb] eqn:Er;
    try (unfold disp1, sem_bin; apply swap_scalar_sem; auto; fail).
  (* scalar on the left, set on the right *)
  1-3: unfold disp1, sem_bin; rewrite meth_scalar_on_set by reflexivity;
       destruct (is_arith o) eqn:A;
       [ rewrite (alt_right_scalar o A); apply ew_r_lift; auto
       | destruct o; try discriminate A; try congruence; reflexivity ].
  (* set on the left, scalar on the right *)
  1-3: unfold disp1, sem_bin; destruct (is_arith o) eqn:A;
       [ apply ew_l_lift; auto
       | rewrite meth_set_on_scalar by reflexivity; destruct o; try discriminate A; try congruence; reflexivity ].
  (* two sets *)
  unfold disp1, sem_bin. apply setset_sem. assumption.
Qed.

Lemma sem_bin_ne : forall l r,
  match sem_bin BEq l r with Ok (VBool b) => Ok (VBool (negb b)) | Ok _ => Rej | x => x end = sem_bin BNe l r.
Proof.
  intros l r. destruct l as [p|x|s|la]; destruct r as [q|y|t|lb]; try reflexivity.
  unfold sem_bin, sem_setset. destruct (opt_kind_eqb (elem_kind la) (elem_kind lb)); reflexivity.
Qed.

(* C04_eval_exact, operator level *)
Theorem disp_sem : forall o l r, disp o l r = sem_bin o l r.
Proof.
  intros o l r. destruct o; try (apply disp1_sem; discriminate).
  unfold disp. rewrite disp1_sem by discriminate. apply sem_bin_ne.
Qed.

(* ---- expressions ---- *)
Lemma attr_ext : forall bin1 bin2, (forall o a b, bin1 o a b = bin2 o a b) ->
  forall n v, attr bin1 n v = attr bin2 n v.
Proof.
  intros bin1 bin2 H n v. unfold attr. destruct v; try reflexivity.
  assert (forall f g l, (forall a b, f a b = g a b) -> reduce_with f l = reduce_with g l) as R.
  { intros f g l E. unfold reduce_with. destruct l as [|x r]; [reflexivity|].
    generalize (Ok x). induction r as [|y r IH]; intros acc; cbn; [reflexivity|].
    rewrite IH. f_equal. destruct acc; try reflexivity. rewrite E. reflexivity. }
  rewrite (R (bin1 BLt) (bin2 BLt)) by (intros; apply H).
  rewrite (R (bin1 BGt) (bin2 BGt)) by (intros; apply H). reflexivity.
Qed.

Lemma eval_with_ext : forall bin1 bin2, (forall o a b, bin1 o a b = bin2 o a b) ->
  forall g e, eval_with bin1 g e = eval_with bin2 g e.
Proof.
  intros bin1 bin2 H g. induction e using expr_ind'; cbn [eval_with]; try reflexivity.
  - f_equal. apply map_ext_Forall. exact H0.
  - rewrite IHe. reflexivity.
  - rewrite IHe1, IHe2. destruct (eval_with bin2 g e1); destruct (eval_with bin2 g e2); try reflexivity. apply H.
  - rewrite IHe. destruct (eval_with bin2 g e); try reflexivity. apply attr_ext. exact H.
  - exact IHe.
Qed.

(* C04_eval_exact: what the implementation's mechanism computes is the Specification's meaning, for every tree *)
Theorem eval_exact : forall g e, eval g e = sem g e.
Proof. intros g e. unfold eval, sem. apply eval_with_ext. exact disp_sem. Qed.
