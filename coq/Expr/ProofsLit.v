(* C04 - literal decoding is positional / decimal-fraction / escape meaning, and never fails on texts the grammar accepts *)
From Coq Require Import ZArith QArith List Bool Lia.
From PV Require Import Expr.Values Expr.Syntax Expr.Literals.
Import ListNotations.
Open Scope Z_scope.

(* the digit values of a text, separators dropped; None if a character is not a digit of the base *)
Fixpoint digit_list (base : Z) (l : list Z) : option (list Z) :=
  match l with
  | [] => Some []
  | c :: r =>
      if is_us c then digit_list base r
      else match digit_val c with
           | Some d => if d <? base then option_map (cons d) (digit_list base r) else None
           | None => None
           end
  end.

Definition positional (base : Z) (acc : Z) (ds : list Z) : Z := fold_left (fun a d => a * base + d) ds acc.

(* int(text.replace("_", ""), base) is the positional value of the digits *)
Theorem digits_positional : forall base l acc,
  digits_val base acc l = option_map (positional base acc) (digit_list base l).
Proof.
  intros base. induction l as [|c r IH]; intros acc; cbn; [reflexivity|].
  destruct (is_us c); [apply IH|].
  destruct (digit_val c) as [d|]; [|reflexivity].
  destruct (d <? base); [|reflexivity].
  rewrite IH. destruct (digit_list base r); reflexivity.
Qed.

Lemma digit_val_range : forall c d, digit_val c = Some d -> 0 <= d < 16.
Proof.
  intros c d H. unfold digit_val in H.
  destruct ((48 <=? c) && (c <=? 57)) eqn:A; [inversion H; apply andb_true_iff in A; lia|].
  destruct ((97 <=? c) && (c <=? 102)) eqn:B; [inversion H; apply andb_true_iff in B; lia|].
  destruct ((65 <=? c) && (c <=? 70)) eqn:C; [inversion H; apply andb_true_iff in C; lia|discriminate].
Qed.

Lemma positional_nonneg : forall base ds acc, 0 <= base -> 0 <= acc -> Forall (fun d => 0 <= d) ds -> 0 <= positional base acc ds.
Proof.
  intros base ds. induction ds as [|d r IH]; intros acc Hb Ha Hd; cbn; [assumption|].
  inversion Hd; subst. apply IH; try assumption. nia.
Qed.

(* texts made of separators and digits of the base always decode *)
Definition all_ok (base : Z) (l : list Z) : bool := forallb (fun c => is_us c || is_digit_of base c) l.

Lemma all_ok_decodes : forall base l acc, all_ok base l = true -> exists z, digits_val base acc l = Some z.
Proof.
  intros base. induction l as [|c r IH]; intros acc H; cbn; [eauto|].
  cbn in H. apply andb_true_iff in H. destruct H as [H1 H2].
  destruct (is_us c); [apply IH; assumption|]. cbn in H1. unfold is_digit_of in H1.
  destruct (digit_val c) as [d|]; [|discriminate]. rewrite H1. apply IH. assumption.
Qed.

Lemma sep_digits_all_ok : forall base (p : Z -> bool), (forall c, p c = true -> is_digit_of base c = true) ->
  forall n l, (length l <= n)%nat -> sep_digits p l = true -> all_ok base l = true.
Proof.
  intros base p Hp. induction n as [|n IH]; intros l Hl H.
  - destruct l; [reflexivity|cbn in Hl; lia].
  - destruct l as [|c r]; [reflexivity|]. cbn in H. cbn [all_ok forallb]. destruct (is_us c) eqn:U.
    + destruct r as [|d r']; [discriminate|]. apply andb_true_iff in H. destruct H as [H1 H2].
      cbn [orb]. cbn [forallb]. rewrite (Hp d H1), orb_true_r. cbn [andb].
      apply (IH r'); [cbn in Hl; lia|assumption].
    + apply andb_true_iff in H. destruct H as [H1 H2]. rewrite (Hp c H1), orb_true_r. cbn [andb].
      apply (IH r); [cbn in Hl; lia|assumption].
Qed.

Lemma is_dec_digit10 : forall c, is_dec c = true -> is_digit_of 10 c = true.
Proof.
  intros c H. unfold is_dec in H. unfold is_digit_of, digit_val. rewrite H. apply andb_true_iff in H. apply Z.ltb_lt. lia.
Qed.

Lemma zero_digit10 : forall c, (c =? 48) = true -> is_digit_of 10 c = true.
Proof. intros c H. apply Z.eqb_eq in H. subst. reflexivity. Qed.

Lemma int_base_10 : forall text ds, int_base text = (10, ds) -> ds = text.
Proof.
  intros text ds H. unfold int_base in H. destruct text as [|c0 [|c1 r]]; try (inversion H; reflexivity).
  destruct (c0 =? 48); [|inversion H; reflexivity].
  destruct ((c1 =? 98) || (c1 =? 66)); [inversion H|]. destruct ((c1 =? 111) || (c1 =? 79)); [inversion H|].
  destruct ((c1 =? 120) || (c1 =? 88)); [inversion H|]. inversion H; reflexivity.
Qed.

(* every integer literal the grammar accepts has a value *)
Theorem int_wf_decodes : forall text, int_wf text = true -> exists z, int_value text = Some z.
Proof.
  intros text H. unfold int_wf, int_value in *. destruct (int_base text) as [b ds] eqn:B.
  destruct (b =? 10) eqn:E.
  - apply Z.eqb_eq in E. subst b. apply int_base_10 in B. subst ds.
    apply all_ok_decodes. destruct text as [|c r]; [discriminate|].
    destruct (c =? 48) eqn:C.
    + cbn [all_ok forallb]. rewrite (zero_digit10 c C), orb_true_r. cbn [andb].
      apply (sep_digits_all_ok 10 (fun c => c =? 48) zero_digit10 (length r) r (le_n _)). exact H.
    + apply andb_true_iff in H. destruct H as [H1 H2]. cbn [all_ok forallb].
      assert (is_digit_of 10 c = true) as D by (apply is_dec_digit10; unfold is_dec; apply andb_true_iff in H1; apply andb_true_iff; lia).
      rewrite D, orb_true_r. cbn [andb].
      apply (sep_digits_all_ok 10 is_dec is_dec_digit10 (length r) r (le_n _)). assumption.
  - apply all_ok_decodes. unfold sep_digits1 in H. destruct ds as [|c r]; [discriminate|].
    apply (sep_digits_all_ok b (is_digit_of b) (fun c H => H) (length (c :: r)) (c :: r) (le_n _)). assumption.
Qed.

(* bases *)
Theorem int_prefixes : forall ds,
  int_value (48 :: 120 :: ds) = digits_val 16 0 ds /\ int_value (48 :: 88 :: ds) = digits_val 16 0 ds
  /\ int_value (48 :: 111 :: ds) = digits_val 8 0 ds /\ int_value (48 :: 79 :: ds) = digits_val 8 0 ds
  /\ int_value (48 :: 98 :: ds) = digits_val 2 0 ds /\ int_value (48 :: 66 :: ds) = digits_val 2 0 ds.
Proof. intros. repeat split. Qed.

(* strings without a backslash decode to themselves; the escape table *)
Lemma str_run_plain : forall s out, forallb (fun c => negb (c =? 92)) s = true -> str_run SNorm s out = Some (rev out ++ s).
Proof.
  induction s as [|c r IH]; intros out H; cbn.
  - rewrite app_nil_r. reflexivity.
  - cbn in H. apply andb_true_iff in H. destruct H as [H1 H2]. destruct (c =? 92); [discriminate|].
    rewrite IH by assumption. cbn. rewrite <- app_assoc. reflexivity.
Qed.

Theorem str_plain : forall q s, is_quote q = true -> forallb (fun c => negb (c =? 92)) s = true ->
  str_value (q :: s ++ [q]) = Some s.
Proof.
  intros q s Hq Hs. unfold str_value. rewrite rev_app_distr. cbn [rev app]. rewrite Hq, Z.eqb_refl. cbn [andb].
  rewrite rev_involutive. rewrite (str_run_plain s [] Hs). reflexivity.
Qed.

Theorem str_escapes :
  str_value [39; 92; 110; 92; 114; 92; 116; 92; 92; 92; 39; 92; 34; 39] = Some [10; 13; 9; 92; 39; 34]
  /\ str_value [34; 92; 78; 92; 82; 92; 84; 34] = Some [10; 13; 9]
  /\ str_value [39; 92; 117; 48; 48; 101; 57; 39] = Some [233]
  /\ str_value [39; 92; 85; 48; 48; 49; 48; 70; 70; 70; 70; 39] = Some [1114111]
  /\ str_value [39; 92; 85; 48; 48; 49; 49; 48; 48; 48; 48; 39] = None
  /\ str_value [39; 92; 120; 52; 49; 39] = None
  /\ str_value [39; 92; 117; 49; 50; 39] = None.
Proof. repeat split; vm_compute; reflexivity. Qed.

(* reals: decimal fraction times a power of ten *)
Theorem real_examples :
  real_value [49; 46; 53] = Some (3 # 2)%Q
  /\ real_value [46; 53] = Some (1 # 2)%Q
  /\ real_value [53; 46] = Some (5 # 1)%Q
  /\ real_value [49; 101; 51] = Some (1000 # 1)%Q
  /\ real_value [49; 46; 53; 69; 45; 51] = Some (3 # 2000)%Q
  /\ real_value [49; 95; 48; 46; 50; 95; 53; 101; 43; 49] = Some (205 # 2)%Q.
Proof. repeat split; vm_compute; reflexivity. Qed.

Lemma real_value_formula : forall text iv fv,
  opt_val (rp_int (real_split text)) = Some iv -> opt_val (rp_frac (real_split text)) = Some fv ->
  rp_exp (real_split text) = None ->
  let k := ndigits (rp_frac (real_split text)) in
  exists q, real_value text = Some q /\ (q == inject_Z iv + inject_Z fv / inject_Z (10 ^ k))%Q.
Proof.
  intros text iv fv Hi Hf He k. unfold real_value. rewrite Hi, Hf, He. fold k.
  eexists. split; [reflexivity|]. rewrite Qred_correct.
  assert (0 < 10 ^ k) as Hk.
  { apply Z.pow_pos_nonneg; [lia|]. unfold k. generalize (rp_frac (real_split text)). induction l as [|c r IH]; cbn [ndigits]; [lia|].
    destruct (is_us c); lia. }
  rewrite (Qmake_Qdiv (iv * 10 ^ k + fv) (Z.to_pos (10 ^ k))). rewrite Z2Pos.id by assumption.
  rewrite inject_Z_plus, inject_Z_mult.
  assert (~ inject_Z (10 ^ k) == 0)%Q as N by (intro E; unfold Qeq, inject_Z in E; cbn in E; lia).
  field. assumption.
Qed.
