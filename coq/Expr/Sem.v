(* C04 - the meaning of constant expressions, operator by operator, as the Specification's tables give it:
   exact rational arithmetic (stdlib Q), two's-complement bitwise operations on integers, comparisons, string
   concatenation/equality, set algebra, element-wise application of arithmetic operators between a set and a scalar
   (either side), min/max/count.  Everything else is undefined (Rej).  Definitions only. *)
From Coq Require Import ZArith QArith Qround List Bool.
From PV Require Import Expr.Values Expr.Syntax Expr.Literals Expr.Nfc.
Import ListNotations.

(* result of evaluating an expression:
   Ok v    the value
   Rej     the definition is invalid (undefined operator/operand, zero divisor, empty or heterogeneous set, unknown name ...)
   Unspec  neither the Specification nor this model pins the outcome: a power with a non-integer exponent (the
           implementation goes through binary floating point) and min/max over two or more sets (the result of folding
           the non-total order "proper subset" depends on the iteration order of a hash set) *)
Inductive res := Ok (v : value) | Rej | Unspec.

Inductive lres := LOk (vs : list value) | LRej | LUnspec.

(* results of the elements of a set literal / of an element-wise application: the first failure wins *)
Fixpoint collect (l : list res) : lres :=
  match l with
  | [] => LOk []
  | r :: rest =>
      match r, collect rest with
      | Rej, _ => LRej
      | _, LRej => LRej
      | Unspec, _ => LUnspec
      | _, LUnspec => LUnspec
      | Ok v, LOk vs => LOk (v :: vs)
      end
  end.

(* Set.__init__: at least one element, all of one class *)
Definition mkset (l : list value) : res :=
  match l with
  | [] => Rej
  | _ => if homogeneous l then Ok (VSet (vdedup l)) else Rej
  end.

Definition set_of (l : list res) : res :=
  match collect l with LOk vs => mkset vs | LRej => Rej | LUnspec => Unspec end.

(* equality of strings is equality of their NFC-normalised texts (elements of sets are compared raw, see value_eqb) *)
Definition str_eqb (s t : list Z) : bool := zlist_eqb (nfc s) (nfc t).

Definition qnorm (q : Q) : value := VRat (Qred q).
Definition q_is_zero (q : Q) : bool := Qeq_bool q 0.

(* a mod b = a - b * floor(a / b) *)
Definition sem_mod (a b : Q) : Q := a - b * inject_Z (Qfloor (a / b)).

Definition sem_pow (a b : Q) : res :=
  if is_int b then
    let n := qnum b in
    if q_is_zero a && (n <? 0)%Z then Rej else Ok (qnorm (Qpower a n))
  else Unspec.

Definition is_arith (o : binop) : bool :=
  match o with BAdd | BSub | BMul | BDiv | BMod | BPow => true | _ => false end.

Definition bitop (o : binop) : Z -> Z -> Z :=
  match o with BBor => Z.lor | BXor => Z.lxor | _ => Z.land end.

(* both operands are not sets *)
Definition sem_scalar (o : binop) (a b : value) : res :=
  match a, b with
  | VRat p, VRat q =>
      match o with
      | BOr | BAnd => Rej
      | BEq => Ok (VBool (Qeq_bool p q))
      | BNe => Ok (VBool (negb (Qeq_bool p q)))
      | BLe => Ok (VBool (Qle_bool p q))
      | BGe => Ok (VBool (Qle_bool q p))
      | BLt => Ok (VBool (negb (Qle_bool q p)))
      | BGt => Ok (VBool (negb (Qle_bool p q)))
      | BBor | BXor | BBand =>
          if is_int p && is_int q then Ok (qint (bitop o (qnum p) (qnum q))) else Rej
      | BAdd => Ok (qnorm (p + q))
      | BSub => Ok (qnorm (p - q))
      | BMul => Ok (qnorm (p * q))
      | BDiv => if q_is_zero q then Rej else Ok (qnorm (p / q))
      | BMod => if q_is_zero q then Rej else Ok (qnorm (sem_mod p q))
      | BPow => sem_pow p q
      end
  | VBool x, VBool y =>
      match o with
      | BOr => Ok (VBool (x || y))
      | BAnd => Ok (VBool (x && y))
      | BEq => Ok (VBool (Bool.eqb x y))
      | BNe => Ok (VBool (negb (Bool.eqb x y)))
      | _ => Rej
      end
  | VStr s, VStr t =>
      match o with
      | BEq => Ok (VBool (str_eqb s t))
      | BNe => Ok (VBool (negb (str_eqb s t)))
      | BAdd => Ok (VStr (s ++ t))
      | _ => Rej
      end
  | _, _ => Rej
  end.

Definition opt_kind_eqb (a b : option kind) : bool :=
  match a, b with
  | Some x, Some y => kind_eqb x y
  | None, None => true
  | _, _ => false
  end.

(* both operands are sets: defined for sets of the same element kind *)
Definition sem_setset (o : binop) (la lb : list value) : res :=
  match o with
  | BEq | BNe | BLe | BGe | BLt | BGt | BBor | BXor | BBand =>
      if negb (opt_kind_eqb (elem_kind la) (elem_kind lb)) then Rej
      else match o with
           | BEq => Ok (VBool (vseteq la lb))
           | BNe => Ok (VBool (negb (vseteq la lb)))
           | BLe => Ok (VBool (vsubset la lb))
           | BGe => Ok (VBool (vsubset lb la))
           | BLt => Ok (VBool (vsubset la lb && negb (vseteq la lb)))
           | BGt => Ok (VBool (vsubset lb la && negb (vseteq lb la)))
           | BBor => mkset (vunion la lb)
           | BXor => mkset (vsymdiff la lb)
           | _ => mkset (vinter la lb)
           end
  | _ => Rej
  end.

(* element-wise application, set on the left / on the right; sets of sets are mapped recursively *)
Fixpoint lift_l (o : binop) (b : value) (v : value) : res :=
  match v with
  | VSet l => set_of (map (lift_l o b) l)
  | _ => sem_scalar o v b
  end.

Fixpoint lift_r (o : binop) (a : value) (v : value) : res :=
  match v with
  | VSet l => set_of (map (lift_r o a) l)
  | _ => sem_scalar o a v
  end.

Definition sem_bin (o : binop) (a b : value) : res :=
  match a, b with
  | VSet la, VSet lb => sem_setset o la lb
  | VSet _, _ => if is_arith o then lift_l o b a else Rej
  | _, VSet _ => if is_arith o then lift_r o a b else Rej
  | _, _ => sem_scalar o a b
  end.

Definition sem_un (o : unop) (v : value) : res :=
  match o, v with
  | UNot, VBool b => Ok (VBool (negb b))
  | UPos, VRat q => Ok (qnorm q)
  | UNeg, VRat q => Ok (qnorm (- q))
  | _, _ => Rej
  end.

(* ---- attributes of sets ---- *)
Definition name_min : list Z := [109; 105; 110]%Z.
Definition name_max : list Z := [109; 97; 120]%Z.
Definition name_count : list Z := [99; 111; 117; 110; 116]%Z.

(* functools.reduce(lambda a, b: a if pick(a, b) else b, elements) *)
Definition reduce_with (pick : value -> value -> res) (l : list value) : res :=
  match l with
  | [] => Rej
  | x :: r =>
      fold_left (fun acc y =>
                   match acc with
                   | Ok a => match pick a y with
                             | Ok (VBool true) => Ok a
                             | Ok (VBool false) => Ok y
                             | Ok _ => Rej
                             | e => e
                             end
                   | e => e
                   end) r (Ok x)
  end.

Definition order_sensitive (l : list value) : bool :=
  match l with
  | VSet _ :: _ :: _ => true
  | _ => false
  end.

Section Attr.
Variable bin : binop -> value -> value -> res.
Definition attr (name : list Z) (v : value) : res :=
  match v with
  | VSet l =>
      if text_eqb name name_min then (if order_sensitive l then Unspec else reduce_with (bin BLt) l)
      else if text_eqb name name_max then (if order_sensitive l then Unspec else reduce_with (bin BGt) l)
      else if text_eqb name name_count then Ok (qint (Z.of_nat (length l)))
      else Rej
  | _ => Rej
  end.
End Attr.

(* ---- expressions ---- *)
Definition env := list (list Z * value).

Fixpoint lookup (n : list Z) (g : env) : res :=
  match g with
  | [] => Rej
  | (m, v) :: r => if text_eqb n m then Ok v else lookup n r
  end.

Section EvalWith.
Variable bin : binop -> value -> value -> res.
Variable g : env.

Fixpoint eval_with (e : expr) : res :=
  match e with
  | ELit l => if lit_wf l then match lit_value l with Some v => Ok v | None => Rej end else Rej   (* not a literal of the grammar: syntax error *)
  | EIdent n => lookup n g
  | ESet es => set_of (map eval_with es)
  | EUn o a => match eval_with a with Ok v => sem_un o v | r => r end
  | EBin o a b =>
      match eval_with a, eval_with b with
      | Rej, _ => Rej
      | _, Rej => Rej
      | Unspec, _ => Unspec
      | _, Unspec => Unspec
      | Ok x, Ok y => bin o x y
      end
  | EAttr a n => match eval_with a with Ok v => attr bin n v | r => r end
  | EPar a => eval_with a
  end.
End EvalWith.

(* the Specification's meaning *)
Definition sem (g : env) (e : expr) : res := eval_with sem_bin g e.
