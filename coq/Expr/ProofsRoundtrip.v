(* C04 - the deterministic PEG model parses the rendering of a tree back to exactly that tree (with the parentheses
   the renderer inserted): completeness of Expr/Parser.v on rendered token lists, with an explicit fuel bound. *)
From Coq Require Import ZArith List Bool Arith Lia.
From PV Require Import Expr.Syntax Expr.Grammar Expr.Parser Expr.ProofsEval Expr.ProofsGrammar Expr.ProofsParser.
Import ListNotations.
Open Scope nat_scope.

(* ---- trees in which every operand sits at a level its position allows (the image of parenthesize) ---- *)
Fixpoint wfpb (e : expr) : bool :=
  match e with
  | ELit _ | EIdent _ => true
  | ESet es => forallb wfpb es
  | EUn UNot a => (1 <=? level a) && wfpb a
  | EUn _ a => (7 <=? level a) && wfpb a
  | EBin BPow a b => (8 <=? level a) && (6 <=? level b) && wfpb a && wfpb b
  | EBin o a b => (oplevel o <=? level a) && (S (oplevel o) <=? level b) && wfpb a && wfpb b
  | EAttr a _ => (8 <=? level a) && wfpb a
  | EPar a => wfpb a
  end.

Lemma level_wrap : forall L x, L <= 9 -> L <= level (wrap L x).
Proof. intros L x H. unfold wrap. destruct (L <=? level x) eqn:E; [apply Nat.leb_le; assumption|cbn; lia]. Qed.

Lemma wfpb_wrap : forall L x, wfpb x = true -> wfpb (wrap L x) = true.
Proof. intros L x H. unfold wrap. destruct (L <=? level x); assumption. Qed.

Lemma wfpb_parenthesize : forall e, wfpb (parenthesize e) = true.
Proof.
  induction e using expr_ind'; try reflexivity.
  - cbn [parenthesize wfpb]. rewrite forallb_forall. intros x Hx. apply in_map_iff in Hx. destruct Hx as [y [<- Hy]].
    rewrite Forall_forall in H. apply H. assumption.
  - destruct o; cbn [parenthesize wfpb]; rewrite (wfpb_wrap _ _ IHe), andb_true_r; apply Nat.leb_le; apply level_wrap; lia.
  - destruct o; cbn [parenthesize wfpb oplevel];
      rewrite (wfpb_wrap _ _ IHe1), (wfpb_wrap _ _ IHe2), !andb_true_r; apply andb_true_iff; split; apply Nat.leb_le; apply level_wrap; lia.
  - cbn [parenthesize wfpb]. rewrite (wfpb_wrap _ _ IHe), andb_true_r. apply Nat.leb_le. apply level_wrap. lia.
  - exact IHe.
Qed.

(* ---- the first token of a rendering ---- *)
Definition head_ok (j : nat) (ts : list token) : bool :=
  match j, ts with
  | 1, TSym SBang :: _ => false
  | 6, TSym (SBin BAdd) :: _ => false
  | 6, TSym (SBin BSub) :: _ => false
  | _, [] => false
  | _, _ => true
  end.

Lemma head_ok_app : forall j a b, head_ok j a = true -> head_ok j (a ++ b) = true.
Proof. intros j a b H. destruct a as [|t r]; [destruct j as [|[|[|[|[|[|[|j]]]]]]]; discriminate|]. exact H. Qed.

Lemma head_render : forall e, wfpb e = true -> forall j, j < level e -> head_ok j (render e) = true.
Proof.
  induction e using expr_ind'; intros W j Hj.
  - cbn. destruct j as [|[|[|[|[|[|[|j]]]]]]]; reflexivity.
  - cbn. destruct j as [|[|[|[|[|[|[|j]]]]]]]; reflexivity.
  - cbn. destruct j as [|[|[|[|[|[|[|j]]]]]]]; reflexivity.
  - destruct o; cbn [level] in Hj; cbn [render].
    + assert (j = 0) as -> by lia. reflexivity.
    + destruct j as [|[|[|[|[|[|j]]]]]]; try reflexivity; lia.
    + destruct j as [|[|[|[|[|[|j]]]]]]; try reflexivity; lia.
  - cbn [render]. apply head_ok_app. cbn [level] in Hj.
    assert (oplevel o <= level e1 /\ wfpb e1 = true) as [L1 W1].
    { destruct o; cbn [wfpb oplevel] in *; repeat (apply andb_true_iff in W; destruct W as [W ?]); split; try assumption;
        try (apply Nat.leb_le in W; lia); try (apply andb_true_iff in W; destruct W as [W ?]; apply Nat.leb_le in W; lia). }
    apply IHe1; [assumption|lia].
  - cbn [render]. apply head_ok_app. cbn [wfpb] in W. apply andb_true_iff in W. destruct W as [W1 W2]. apply Nat.leb_le in W1.
    cbn [level] in Hj. apply IHe; [assumption|lia].
  - cbn. destruct j as [|[|[|[|[|[|[|j]]]]]]]; reflexivity.
Qed.

(* ---- what may follow a phrase of rule L without being absorbed by it ---- *)
Definition follow_ok (L : nat) (rest : list token) : bool :=
  match rest with
  | TSym (SBin o) :: _ => oplevel o <? L
  | TSym SDot :: TId _ :: _ => 9 <=? L
  | _ => true
  end.

Lemma follow_mono : forall L L' rest, follow_ok L rest = true -> L <= L' -> follow_ok L' rest = true.
Proof.
  intros L L' rest H Hle. destruct rest as [|t r]; [reflexivity|]. destruct t as [l|s|n]; try reflexivity.
  destruct s; try reflexivity; unfold follow_ok in *.
  - apply Nat.ltb_lt in H. apply Nat.ltb_lt. lia.
  - destruct r as [|t2 r2]; [reflexivity|]. destruct t2; try reflexivity. apply Nat.leb_le in H. apply Nat.leb_le. lia.
Qed.

Lemma follow_9 : forall rest, follow_ok 9 rest = true.
Proof.
  intros rest. destruct rest as [|t r]; [reflexivity|]. destruct t as [l|s|n]; try reflexivity.
  destruct s; try reflexivity; unfold follow_ok.
  - destruct o; reflexivity.
  - destruct r as [|t2 r2]; [reflexivity|]. destruct t2; reflexivity.
Qed.

Lemma follow_7_6 : forall rest, follow_ok 7 rest = true -> follow_ok 6 rest = true.
Proof.
  intros rest H. destruct rest as [|t r]; [reflexivity|]. destruct t as [l|s|n]; try reflexivity.
  destruct s; try reflexivity; unfold follow_ok in *; [|exact H]. destruct o; cbn in *; try reflexivity; discriminate.
Qed.

(* ---- stopping of the three loops ---- *)
Lemma chain_stops : forall L a rest f, follow_ok L rest = true -> run (S f) (RChain L a) rest = POk (AExpr a rest).
Proof.
  intros L a rest f H. cbn [run]. destruct rest as [|t r]; [reflexivity|]. destruct t as [l|s|n]; try reflexivity.
  destruct s; try reflexivity. unfold follow_ok in H. apply Nat.ltb_lt in H.
  destruct (oplevel o =? L) eqn:E; [apply Nat.eqb_eq in E; lia|reflexivity].
Qed.

Lemma attr_stops : forall a rest f, follow_ok 8 rest = true -> run (S f) (RAttr a) rest = POk (AExpr a rest).
Proof.
  intros a rest f H. cbn [run]. destruct rest as [|t r]; [reflexivity|]. destruct t as [l|s|n]; try reflexivity.
  destruct s; try reflexivity. destruct r as [|t2 r2]; [reflexivity|]. destruct t2; try reflexivity. cbn in H. discriminate.
Qed.

(* ---- one step down: a phrase of rule S j is a phrase of rule j when nothing of rule j can start or continue it ---- *)
Lemma descend_one : forall j f ts e rest, j < 9 ->
  run f (RLevel (S j)) ts = POk (AExpr e rest) -> head_ok j ts = true -> follow_ok j rest = true -> 1 <= f ->
  run (S f) (RLevel j) ts = POk (AExpr e rest).
Proof.
  intros j f ts e rest Hj R Hh Hf Hf1. destruct f as [|f']; [lia|].
  destruct j as [|[|[|[|[|[|[|[|[|j]]]]]]]]]; try lia.
  - cbn [run]. cbn [run] in R. rewrite R. apply chain_stops. assumption.
  - change (run (S (S f')) (RLevel 1) ts) with
      (match ts with
       | TSym SBang :: rest0 => match run (S f') (RLevel 1) rest0 with
                                | POk (AExpr a rest') => POk (AExpr (EUn UNot a) rest') | POk _ => PFail | x => x end
       | _ => run (S f') (RLevel 2) ts end).
    destruct ts as [|t r]; [discriminate Hh|]. destruct t as [l|s|n]; try exact R. destruct s; try exact R. discriminate Hh.
  - cbn [run]. cbn [run] in R. rewrite R. apply chain_stops. assumption.
  - cbn [run]. cbn [run] in R. rewrite R. apply chain_stops. assumption.
  - cbn [run]. cbn [run] in R. rewrite R. apply chain_stops. assumption.
  - cbn [run]. cbn [run] in R. rewrite R. apply chain_stops. assumption.
  - change (run (S (S f')) (RLevel 6) ts) with
      (match ts with
       | TSym (SBin BAdd) :: rest0 => match run (S f') (RLevel 7) rest0 with
                                      | POk (AExpr a rest') => POk (AExpr (EUn UPos a) rest') | POk _ => PFail | x => x end
       | TSym (SBin BSub) :: rest0 => match run (S f') (RLevel 7) rest0 with
                                      | POk (AExpr a rest') => POk (AExpr (EUn UNeg a) rest') | POk _ => PFail | x => x end
       | _ => run (S f') (RLevel 7) ts end).
    destruct ts as [|t r]; [discriminate Hh|]. destruct t as [l|s|n]; try exact R. destruct s; try exact R.
    destruct o; try exact R; discriminate Hh.
  - cbn [run]. cbn [run] in R. rewrite R.
    destruct rest as [|t r]; [reflexivity|]. destruct t as [l|s|n]; try reflexivity. destruct s; try reflexivity.
    destruct o; try reflexivity. cbn in Hf. discriminate.
  - cbn [run]. cbn [run] in R. rewrite R. apply attr_stops. assumption.
Qed.

(* down from the own level M of a phrase to any lower rule L *)
Lemma descend : forall d M L f ts e rest, M = L + d -> M <= 9 ->
  run f (RLevel M) ts = POk (AExpr e rest) ->
  (forall j, L <= j < M -> head_ok j ts = true) -> follow_ok L rest = true -> 1 <= f ->
  run (d + f) (RLevel L) ts = POk (AExpr e rest).
Proof.
  induction d as [|d IH]; intros M L f ts e rest HM H9 R Hh Hf Hf1.
  - rewrite Nat.add_0_r in HM. subst. exact R.
  - cbn [Nat.add]. apply descend_one; try lia.
    + apply (IH M (S L)); try lia; try assumption.
      * intros j Hj. apply Hh. lia.
      * eapply follow_mono; [eassumption|lia].
    + apply Hh. lia.
    + assumption.
Qed.

(* ---- fuel accounting ---- *)
Fixpoint cost (e : expr) : nat :=
  match e with
  | ELit _ | EIdent _ => 12
  | ESet es => 12 + list_sum (map (fun x => 12 + cost x) es)
  | EUn _ a => 12 + cost a
  | EBin _ a b => 12 + cost a + cost b
  | EAttr a _ => 12 + cost a
  | EPar a => 12 + cost a
  end.

(* steps before the loop of chain rule l has folded e / before the attribute loop has folded e *)
Fixpoint steps (l : nat) (e : expr) : nat :=
  match e with
  | EBin o a _ => if (oplevel o =? l) && is_chain_level l then S (steps l a) else 1
  | _ => 1
  end.

Fixpoint steps8 (e : expr) : nat :=
  match e with EAttr a _ => S (steps8 a) | _ => 1 end.

Lemma cost_pos : forall e, 12 <= cost e.
Proof. destruct e; cbn; lia. Qed.

Lemma steps_le_cost : forall l e, steps l e <= cost e.
Proof.
  intros l. induction e using expr_ind'; cbn [steps cost]; try lia.
  destruct ((oplevel o =? l) && is_chain_level l); lia.
Qed.

Lemma steps8_le_cost : forall e, steps8 e <= cost e.
Proof. induction e using expr_ind'; cbn [steps8 cost]; lia. Qed.

Lemma steps_other : forall l e, is_chain_level l = true -> l < level e -> steps l e = 1.
Proof.
  intros l e Hc Hl. destruct e; try reflexivity. cbn [steps]. cbn [level] in Hl.
  destruct (oplevel o =? l) eqn:E; [apply Nat.eqb_eq in E; lia|reflexivity].
Qed.

Lemma steps8_other : forall e, level e = 9 -> steps8 e = 1.
Proof. intros e H. destruct e; try reflexivity. cbn in H. discriminate. Qed.

(* ---- the three invariants ---- *)
Definition T (e : expr) : Prop :=
  forall L rest f, L <= level e -> follow_ok L rest = true -> cost e + 9 <= f ->
  run f (RLevel L) (render e ++ rest) = POk (AExpr e rest).

Definition Pc (e : expr) : Prop :=
  forall l rest f, is_chain_level l = true -> l <= level e -> follow_ok (S l) rest = true ->
  (if l <? level e then cost e + 9 <= f else cost e <= steps l e + f) ->
  run (steps l e + f) (RLevel l) (render e ++ rest) = run f (RChain l e) rest.

Definition Pa (e : expr) : Prop :=
  forall rest f, 8 <= level e ->
  (if 8 <? level e then cost e + 9 <= f else cost e <= steps8 e + f) ->
  run (steps8 e + f) (RLevel 8) (render e ++ rest) = run f (RAttr e) rest.

Definition Own (e : expr) : Prop :=
  forall rest f, follow_ok (level e) rest = true -> cost e <= f ->
  run f (RLevel (level e)) (render e ++ rest) = POk (AExpr e rest).

Lemma T_from_own : forall e, wfpb e = true -> Own e -> T e.
Proof.
  intros e W O L rest f HL Hf Hc. pose proof (level_le9 e) as H9.
  replace f with ((level e - L) + (f - (level e - L))) by lia.
  apply (descend (level e - L) (level e) L); try lia.
  - apply O; [eapply follow_mono; [eassumption|lia]|lia].
  - intros j Hj. apply head_ok_app. apply head_render; [assumption|lia].
  - assumption.
  - pose proof (cost_pos e). lia.
Qed.

(* unfolding one step of a chain rule *)
Lemma run_chain_level : forall l f ts, is_chain_level l = true ->
  run (S f) (RLevel l) ts =
  match run f (RLevel (S l)) ts with
  | POk (AExpr a rest) => run f (RChain l a) rest
  | POk _ => PFail
  | x => x
  end.
Proof. intros l f ts H. destruct l as [|[|[|[|[|[|l]]]]]]; try discriminate; reflexivity. Qed.

Lemma Pc_low : forall e, T e -> forall l rest f, is_chain_level l = true -> l < level e -> follow_ok (S l) rest = true ->
  cost e + 9 <= f -> run (steps l e + f) (RLevel l) (render e ++ rest) = run f (RChain l e) rest.
Proof.
  intros e HT l rest f Hc Hl Hf Hb. rewrite (steps_other l e Hc Hl). cbn [Nat.add].
  rewrite (run_chain_level l f _ Hc). rewrite (HT (S l) rest f); try assumption; try lia. reflexivity.
Qed.

Lemma Pa_low : forall e, T e -> level e = 9 -> forall rest f, cost e + 9 <= f ->
  run (steps8 e + f) (RLevel 8) (render e ++ rest) = run f (RAttr e) rest.
Proof.
  intros e HT H9 rest f Hb. rewrite (steps8_other e H9). cbn [Nat.add].
  change (run (S f) (RLevel 8) (render e ++ rest)) with
    (match run f (RLevel 9) (render e ++ rest) with
     | POk (AExpr a rest0) => run f (RAttr a) rest0 | POk _ => PFail | x => x end).
  rewrite (HT 9 rest f); try lia; try apply follow_9. reflexivity.
Qed.

(* everything about e follows from its behaviour at its own level, for levels that are neither chains nor 8 *)
Lemma all_from_own : forall e, wfpb e = true -> Own e ->
  is_chain_level (level e) = false -> level e <> 8 -> T e /\ Pc e /\ Pa e.
Proof.
  intros e W O Hnc Hn8. pose proof (T_from_own e W O) as HT. split; [assumption|]. split.
  - intros l rest f Hc Hl Hf Hb. assert (l < level e) as Hlt.
    { destruct (Nat.eq_dec l (level e)) as [->|]; [congruence|lia]. }
    assert ((l <? level e) = true) as E by (apply Nat.ltb_lt; assumption). rewrite E in Hb.
    apply Pc_low; assumption.
  - intros rest f H8 Hb. assert (level e = 9) as E9 by (pose proof (level_le9 e); lia).
    assert ((8 <? level e) = true) as E by (apply Nat.ltb_lt; lia). rewrite E in Hb. apply Pa_low; assumption.
Qed.

(* ---- set literals ---- *)
Lemma fail_on_rbrace : forall f rest, 10 <= f -> run f (RLevel 0) (TSym SRBrace :: rest) = PFail.
Proof. intros f rest H. do 10 (destruct f as [|f]; [lia|]). reflexivity. Qed.

Lemma follow_comma_join : forall L tss rest, follow_ok L (comma_join tss ++ TSym SRBrace :: rest) = true.
Proof. intros L tss rest. destruct tss as [|ts r]; reflexivity. Qed.

Lemma list_loop : forall r acc f rest,
  Forall (fun x => wfpb x = true /\ T x) r -> list_sum (map (fun x => 12 + cost x) r) + 1 <= f ->
  run f (RList acc) (comma_join (map render r) ++ TSym SRBrace :: rest) = POk (AList (rev acc ++ r) (TSym SRBrace :: rest)).
Proof.
  induction r as [|x r IH]; intros acc f rest HF Hb.
  - destruct f as [|f]; [cbn in Hb; lia|]. cbn. rewrite app_nil_r. reflexivity.
  - inversion HF as [|? ? [Wx Tx] HF']; subst. cbn [map list_sum fold_right] in Hb. fold (list_sum (map (fun x => 12 + cost x) r)) in Hb.
    destruct f as [|f]; [lia|]. cbn [map comma_join flat_map]. fold (comma_join (map render r)).
    rewrite <- app_assoc. cbn [app run].
    rewrite (Tx 0 (comma_join (map render r) ++ TSym SRBrace :: rest) f); [|lia|apply follow_comma_join|lia].
    rewrite (IH (x :: acc) f rest HF'); [|lia]. cbn [rev]. rewrite <- app_assoc. reflexivity.
Qed.

(* ---- the induction ---- *)
Lemma wfpb_bin : forall o a b, o <> BPow ->
  wfpb (EBin o a b) = (oplevel o <=? level a) && (S (oplevel o) <=? level b) && wfpb a && wfpb b.
Proof. intros o a b H. destruct o; try reflexivity. congruence. Qed.

Lemma chain_op : forall o, o <> BPow -> is_chain_level (oplevel o) = true.
Proof. intros o H. destruct o; try reflexivity. congruence. Qed.

Lemma own_lit : forall l, Own (ELit l).
Proof. intros l rest f _ Hc. destruct f as [|f]; [cbn in Hc; lia|]. reflexivity. Qed.

Lemma own_ident : forall n, Own (EIdent n).
Proof. intros n rest f _ Hc. destruct f as [|f]; [cbn in Hc; lia|]. reflexivity. Qed.

Lemma own_par : forall a, T a -> Own (EPar a).
Proof.
  intros a Ta rest f _ Hc. cbn [cost] in Hc. destruct f as [|f]; [lia|].
  cbn [render level]. cbn [app]. rewrite <- app_assoc. cbn [app run].
  rewrite (Ta 0 (TSym SRPar :: rest) f); [reflexivity|lia|reflexivity|lia].
Qed.

Lemma own_set : forall es, Forall (fun x => wfpb x = true /\ T x) es -> Own (ESet es).
Proof.
  intros es HF rest f _ Hc. cbn [cost] in Hc. destruct f as [|f]; [lia|]. cbn [render level].
  destruct es as [|a r].
  - cbn [map join_comma app run]. rewrite fail_on_rbrace by lia. reflexivity.
  - inversion HF as [|? ? [Wa Ta] HF']; subst. cbn [map]. rewrite join_comma_cons.
    cbn [map list_sum fold_right] in Hc. fold (list_sum (map (fun x => 12 + cost x) r)) in Hc.
    cbn [app]. rewrite <- !app_assoc. cbn [app run].
    rewrite (Ta 0 (comma_join (map render r) ++ TSym SRBrace :: rest) f); [|lia|apply follow_comma_join|lia].
    rewrite (list_loop r [a] f rest HF'); [|lia]. reflexivity.
Qed.

Lemma own_not : forall a, 1 <= level a -> T a -> Own (EUn UNot a).
Proof.
  intros a La Ta rest f Hf Hc. cbn [cost] in Hc. destruct f as [|f]; [lia|]. cbn [render level app].
  change (run (S f) (RLevel 1) (TSym SBang :: render a ++ rest)) with
    (match run f (RLevel 1) (render a ++ rest) with
     | POk (AExpr x rest') => POk (AExpr (EUn UNot x) rest') | POk _ => PFail | y => y end).
  rewrite (Ta 1 rest f); [reflexivity|lia|exact Hf|lia].
Qed.

Lemma own_pos : forall a, 7 <= level a -> T a -> Own (EUn UPos a).
Proof.
  intros a La Ta rest f Hf Hc. cbn [cost] in Hc. destruct f as [|f]; [lia|]. cbn [render level app].
  change (run (S f) (RLevel 6) (TSym (SBin BAdd) :: render a ++ rest)) with
    (match run f (RLevel 7) (render a ++ rest) with
     | POk (AExpr x rest') => POk (AExpr (EUn UPos x) rest') | POk _ => PFail | y => y end).
  rewrite (Ta 7 rest f); [reflexivity|lia|eapply follow_mono; [exact Hf|cbn; lia]|lia].
Qed.

Lemma own_neg : forall a, 7 <= level a -> T a -> Own (EUn UNeg a).
Proof.
  intros a La Ta rest f Hf Hc. cbn [cost] in Hc. destruct f as [|f]; [lia|]. cbn [render level app].
  change (run (S f) (RLevel 6) (TSym (SBin BSub) :: render a ++ rest)) with
    (match run f (RLevel 7) (render a ++ rest) with
     | POk (AExpr x rest') => POk (AExpr (EUn UNeg x) rest') | POk _ => PFail | y => y end).
  rewrite (Ta 7 rest f); [reflexivity|lia|eapply follow_mono; [exact Hf|cbn; lia]|lia].
Qed.

Lemma own_pow : forall a b, 8 <= level a -> 6 <= level b -> T a -> T b -> Own (EBin BPow a b).
Proof.
  intros a b La Lb Ta Tb rest f Hf Hc. cbn [cost] in Hc. destruct f as [|f]; [lia|]. cbn [render level oplevel].
  rewrite <- app_assoc. cbn [app].
  change (run (S f) (RLevel 7) (render a ++ TSym (SBin BPow) :: render b ++ rest)) with
    (match run f (RLevel 8) (render a ++ TSym (SBin BPow) :: render b ++ rest) with
     | POk (AExpr x r0) =>
         match r0 with
         | TSym (SBin BPow) :: r1 =>
             match run f (RLevel 6) r1 with
             | POk (AExpr y r2) => POk (AExpr (EBin BPow x y) r2) | PFuel => PFuel | _ => POk (AExpr x r0) end
         | _ => POk (AExpr x r0)
         end
     | POk _ => PFail | z => z end).
  rewrite (Ta 8 (TSym (SBin BPow) :: render b ++ rest) f); [|lia|reflexivity|lia].
  rewrite (Tb 6 rest f); [reflexivity|lia|apply follow_7_6; exact Hf|lia].
Qed.

Lemma pc_own_chain : forall o a b, o <> BPow -> oplevel o <= level a -> S (oplevel o) <= level b ->
  Pc a -> T b ->
  forall rest f, follow_ok (S (oplevel o)) rest = true -> cost (EBin o a b) <= steps (oplevel o) (EBin o a b) + f ->
  run (steps (oplevel o) (EBin o a b) + f) (RLevel (oplevel o)) (render (EBin o a b) ++ rest) = run f (RChain (oplevel o) (EBin o a b)) rest.
Proof.
  intros o a b Ho La Lb Pca Tb rest f Hf Hc. pose proof (chain_op o Ho) as Hch.
  set (l := oplevel o) in *. cbn [steps cost render] in *. fold l in Hc |- *.
  rewrite Nat.eqb_refl, Hch in Hc |- *. cbn [andb] in Hc |- *.
  rewrite <- app_assoc. cbn [app].
  replace (S (steps l a) + f) with (steps l a + S f) by lia.
  pose proof (steps_le_cost l a) as SA.
  rewrite (Pca l (TSym (SBin o) :: render b ++ rest) (S f) Hch La).
  - cbn [run]. fold l. rewrite Nat.eqb_refl, Hch. cbn [andb].
    rewrite (Tb (S l) rest f); [reflexivity|exact Lb|exact Hf|pose proof (cost_pos a); lia].
  - unfold follow_ok. fold l. apply Nat.ltb_lt. lia.
  - destruct (l <? level a) eqn:E.
    + apply Nat.ltb_lt in E. rewrite (steps_other l a Hch E) in Hc. pose proof (cost_pos b). lia.
    + lia.
Qed.

Lemma pa_own_attr : forall a n, 8 <= level a -> Pa a ->
  forall rest f, cost (EAttr a n) <= steps8 (EAttr a n) + f ->
  run (steps8 (EAttr a n) + f) (RLevel 8) (render (EAttr a n) ++ rest) = run f (RAttr (EAttr a n)) rest.
Proof.
  intros a n La Paa rest f Hc. cbn [steps8 cost render] in *. rewrite <- app_assoc. cbn [app].
  replace (S (steps8 a) + f) with (steps8 a + S f) by lia.
  rewrite (Paa (TSym SDot :: TId n :: rest) (S f) La).
  - reflexivity.
  - destruct (8 <? level a) eqn:E.
    + apply Nat.ltb_lt in E. assert (level a = 9) as E9 by (pose proof (level_le9 a); lia).
      rewrite (steps8_other a E9) in Hc. lia.
    + lia.
Qed.

Theorem roundtrip_inv : forall e, wfpb e = true -> T e /\ Pc e /\ Pa e.
Proof.
  induction e using expr_ind'; intros W.
  - apply all_from_own; [assumption|apply own_lit|reflexivity|discriminate].
  - apply all_from_own; [assumption|apply own_ident|reflexivity|discriminate].
  - apply all_from_own; [assumption| |reflexivity|discriminate].
    apply own_set. cbn [wfpb] in W. rewrite forallb_forall in W. rewrite Forall_forall in *.
    intros x Hx. split; [apply W; assumption|]. apply (H x Hx). apply W. assumption.
  - destruct o; cbn [wfpb] in W; apply andb_true_iff in W; destruct W as [W1 W2]; apply Nat.leb_le in W1;
      destruct (IHe W2) as [Ta _].
    + apply all_from_own; [cbn [wfpb]; apply andb_true_iff; split; [apply Nat.leb_le|]; assumption|apply own_not; assumption|reflexivity|discriminate].
    + apply all_from_own; [cbn [wfpb]; apply andb_true_iff; split; [apply Nat.leb_le|]; assumption|apply own_pos; assumption|reflexivity|discriminate].
    + apply all_from_own; [cbn [wfpb]; apply andb_true_iff; split; [apply Nat.leb_le|]; assumption|apply own_neg; assumption|reflexivity|discriminate].
  - destruct (binop_eqb o BPow) eqn:EP.
    + (* power *)
      assert (o = BPow) as -> by (destruct o; try discriminate; reflexivity).
      pose proof W as W0. cbn [wfpb] in W. repeat (apply andb_true_iff in W; destruct W as [W ?]).
      apply Nat.leb_le in W. apply Nat.leb_le in H1.
      destruct (IHe1 H0) as [Ta _]. destruct (IHe2 H) as [Tb _].
      apply all_from_own; [exact W0|apply own_pow; assumption|reflexivity|discriminate].
    + (* chain *)
      assert (o <> BPow) as Ho by (intros ->; discriminate).
      pose proof W as W0. rewrite (wfpb_bin o e1 e2 Ho) in W. repeat (apply andb_true_iff in W; destruct W as [W ?]).
      apply Nat.leb_le in W. apply Nat.leb_le in H1.
      destruct (IHe1 H0) as [_ [Pca _]]. destruct (IHe2 H) as [Tb _].
      pose proof (chain_op o Ho) as Hch.
      pose proof (pc_own_chain o e1 e2 Ho W H1 Pca Tb) as PcOwn.
      assert (Own (EBin o e1 e2)) as O.
      { intros rest F Hf Hc. cbn [level] in *.
        pose proof (steps_le_cost (oplevel o) e1) as SA.
        assert (steps (oplevel o) (EBin o e1 e2) = S (steps (oplevel o) e1)) as ES
          by (cbn [steps]; rewrite Nat.eqb_refl, Hch; reflexivity).
        assert (S (steps (oplevel o) e1) < F) as HF by (cbn [cost] in Hc; pose proof (cost_pos e2); lia).
        replace F with (steps (oplevel o) (EBin o e1 e2) + (F - steps (oplevel o) (EBin o e1 e2))) by lia.
        rewrite PcOwn; [|eapply follow_mono; [exact Hf|lia]|lia].
        rewrite ES. destruct (F - S (steps (oplevel o) e1)) as [|f'] eqn:EF; [lia|].
        apply chain_stops. exact Hf. }
      pose proof (T_from_own _ W0 O) as HT. split; [exact HT|]. split.
      * intros l rest f Hc Hl Hf Hb. cbn [level] in Hl, Hb.
        destruct (l <? oplevel o) eqn:E.
        -- apply Nat.ltb_lt in E. apply Pc_low; try assumption.
        -- apply Nat.ltb_ge in E. assert (l = oplevel o) as -> by lia. apply PcOwn; assumption.
      * intros rest f H8. cbn [level] in H8. exfalso. destruct o; cbn in H8; lia.
  - (* attribute *)
    pose proof W as W0. cbn [wfpb] in W. apply andb_true_iff in W. destruct W as [W1 W2]. apply Nat.leb_le in W1.
    destruct (IHe W2) as [_ [_ Paa]].
    pose proof (pa_own_attr e n W1 Paa) as PaOwn.
    assert (Own (EAttr e n)) as O.
    { intros rest F Hf Hc. cbn [level] in *. pose proof (steps8_le_cost e) as SA.
      assert (steps8 (EAttr e n) = S (steps8 e)) as ES by reflexivity.
      assert (S (steps8 e) < F) as HF by (cbn [cost] in Hc; lia).
      replace F with (steps8 (EAttr e n) + (F - steps8 (EAttr e n))) by lia.
      rewrite PaOwn; [|lia]. rewrite ES. destruct (F - S (steps8 e)) as [|f'] eqn:EF; [lia|].
      apply attr_stops. exact Hf. }
    pose proof (T_from_own _ W0 O) as HT. split; [exact HT|]. split.
    + intros l rest f Hc Hl Hf Hb. cbn [level] in Hl, Hb.
      assert (l < 8) as Hl8 by (destruct l as [|[|[|[|[|[|l]]]]]]; try discriminate; lia).
      assert ((l <? 8) = true) as E by (apply Nat.ltb_lt; assumption). rewrite E in Hb.
      apply Pc_low; try assumption.
    + intros rest f H8 Hb. cbn [level] in Hb. rewrite Nat.ltb_irrefl in Hb. apply PaOwn. exact Hb.
  - (* parentheses *)
    cbn [wfpb] in W. destruct (IHe W) as [Ta _].
    apply all_from_own; [exact W|apply own_par; assumption|reflexivity|discriminate].
Qed.

(* ---- the theorem ---- *)
Lemma nodes_le_tokens : forall e, cost e <= 12 * length (render e).
Proof.
  induction e using expr_ind'; cbn [cost render length]; try lia.
  - rewrite app_length. cbn [length].
    assert (list_sum (map (fun x => 12 + cost x) es) <= 12 * length (join_comma (map render es)) + 12) as A.
    { induction H as [|x r Hx Hr IH]; [cbn; lia|]. cbn [map list_sum fold_right]. fold (list_sum (map (fun x => 12 + cost x) r)).
      rewrite join_comma_cons, app_length. destruct r as [|y r'].
      - cbn. lia.
      - assert (length (comma_join (map render (y :: r'))) = S (length (join_comma (map render (y :: r'))))) as E.
        { cbn [map]. rewrite join_comma_cons. cbn [comma_join flat_map]. cbn [length]. rewrite !app_length. reflexivity. }
        rewrite E. lia. }
    lia.
  - destruct o; cbn [render length]; lia.
  - rewrite app_length. cbn [length]. lia.
  - rewrite app_length. cbn [length]. lia.
  - rewrite app_length. cbn [length]. lia.
Qed.

(* C04_precedence, strongest form: the PEG model reads the rendering of any tree back as exactly that tree *)
Theorem parse_render : forall e, parse_expr (render_min e) = Some (parenthesize e).
Proof.
  intros e. unfold parse_expr, render_min, parse_fuel.
  destruct (roundtrip_inv (parenthesize e) (wfpb_parenthesize e)) as [HT _].
  pose proof (HT 0 [] (20 * (length (render (parenthesize e)) + 2))) as R.
  rewrite app_nil_r in R. rewrite R; [reflexivity|lia|reflexivity|].
  pose proof (nodes_le_tokens (parenthesize e)). lia.
Qed.

(* distinct trees (up to parentheses) never render to the same token list *)
Theorem render_injective : forall e1 e2, render_min e1 = render_min e2 -> strip e1 = strip e2.
Proof.
  intros e1 e2 H. pose proof (parse_render e1) as P1. rewrite H, parse_render in P1. inversion P1 as [E].
  rewrite <- (strip_parenthesize e1), <- (strip_parenthesize e2), E. reflexivity.
Qed.
