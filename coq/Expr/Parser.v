(* C04 - the expression rules of grammar.parsimonious as a deterministic parser over tokens (PEG semantics: ordered
   choice, greedy repetition that backtracks one iteration on failure, optional groups).  Definitions only.
   Fuel: every step either consumes a token or descends one rule level. *)
From Coq Require Import ZArith List Bool Arith.
From PV Require Import Expr.Syntax Expr.Grammar.
Import ListNotations.
Open Scope nat_scope.

Inductive req :=
| RLevel (L : nat)                      (* parse one phrase of rule L *)
| RChain (L : nat) (a : expr)           (* the (op Y)* part of chain rule L, a = value folded so far *)
| RAttr (a : expr)                      (* the ("." identifier)* part of ex_attribute *)
| RList (acc : list expr).              (* the ("," expression)* part of expression_list, acc reversed *)

Inductive ans := AExpr (e : expr) (rest : list token) | AList (es : list expr) (rest : list token).

(* PFail = the rule does not match here (PEG failure, triggers backtracking); PFuel = out of fuel (propagated, so
   that a result never depends on the amount of fuel once there is enough) *)
Inductive pres := POk (a : ans) | PFail | PFuel.

Fixpoint run (fuel : nat) (r : req) (ts : list token) : pres :=
  match fuel with
  | O => PFuel
  | S f =>
    match r with
    | RLevel L =>
        match L with
        | 0 | 2 | 3 | 4 | 5 =>                                    (* X = Y (op Y)* *)
            match run f (RLevel (S L)) ts with
            | POk (AExpr a rest) => run f (RChain L a) rest
            | POk _ => PFail
            | x => x
            end
        | 1 =>                                                     (* op1_form_log_not / ex_comparison *)
            match ts with
            | TSym SBang :: rest =>
                match run f (RLevel 1) rest with
                | POk (AExpr a rest') => POk (AExpr (EUn UNot a) rest')
                | POk _ => PFail
                | x => x
                end
            | _ => run f (RLevel 2) ts
            end
        | 6 =>                                                     (* op1_form_inv_pos / op1_form_inv_neg / ex_exponential *)
            match ts with
            | TSym (SBin BAdd) :: rest =>
                match run f (RLevel 7) rest with
                | POk (AExpr a rest') => POk (AExpr (EUn UPos a) rest')
                | POk _ => PFail
                | x => x
                end
            | TSym (SBin BSub) :: rest =>
                match run f (RLevel 7) rest with
                | POk (AExpr a rest') => POk (AExpr (EUn UNeg a) rest')
                | POk _ => PFail
                | x => x
                end
            | _ => run f (RLevel 7) ts
            end
        | 7 =>                                                     (* ex_attribute ("**" ex_inversion)? *)
            match run f (RLevel 8) ts with
            | POk (AExpr a rest) =>
                match rest with
                | TSym (SBin BPow) :: rest' =>
                    match run f (RLevel 6) rest' with
                    | POk (AExpr b rest'') => POk (AExpr (EBin BPow a b) rest'')
                    | PFuel => PFuel
                    | _ => POk (AExpr a rest)                      (* the optional group does not match *)
                    end
                | _ => POk (AExpr a rest)
                end
            | POk _ => PFail
            | x => x
            end
        | 8 =>                                                     (* expression_atom ("." identifier)* *)
            match run f (RLevel 9) ts with
            | POk (AExpr a rest) => run f (RAttr a) rest
            | POk _ => PFail
            | x => x
            end
        | 9 =>                                                     (* parenthesized / literal / identifier *)
            match ts with
            | TSym SLPar :: rest =>
                match run f (RLevel 0) rest with
                | POk (AExpr a (TSym SRPar :: rest')) => POk (AExpr (EPar a) rest')
                | POk _ => PFail
                | x => x
                end
            | TSym SLBrace :: rest =>                              (* literal_set = "{" expression_list "}" *)
                match run f (RLevel 0) rest with
                | POk (AExpr a rest') =>
                    match run f (RList [a]) rest' with
                    | POk (AList es (TSym SRBrace :: rest'')) => POk (AExpr (ESet es) rest'')
                    | POk _ => PFail
                    | x => x
                    end
                | PFuel => PFuel
                | _ =>
                    match rest with
                    | TSym SRBrace :: rest' => POk (AExpr (ESet []) rest')
                    | _ => PFail
                    end
                end
            | TLit l :: rest => POk (AExpr (ELit l) rest)
            | TId n :: rest => POk (AExpr (EIdent n) rest)
            | _ => PFail
            end
        | _ => PFail
        end
    | RChain L a =>
        match ts with
        | TSym (SBin o) :: rest =>
            if (oplevel o =? L) && is_chain_level L then
              match run f (RLevel (S L)) rest with
              | POk (AExpr b rest') => run f (RChain L (EBin o a b)) rest'
              | PFuel => PFuel
              | _ => POk (AExpr a ts)                              (* this iteration fails: the repetition ends before the operator *)
              end
            else POk (AExpr a ts)
        | _ => POk (AExpr a ts)
        end
    | RAttr a =>
        match ts with
        | TSym SDot :: TId n :: rest => run f (RAttr (EAttr a n)) rest
        | _ => POk (AExpr a ts)
        end
    | RList acc =>
        match ts with
        | TSym SComma :: rest =>
            match run f (RLevel 0) rest with
            | POk (AExpr e rest') => run f (RList (e :: acc)) rest'
            | PFuel => PFuel
            | _ => POk (AList (rev acc) ts)
            end
        | _ => POk (AList (rev acc) ts)
        end
    end
  end.

(* parse a complete expression *)
Definition parse_fuel (ts : list token) : nat := 20 * (length ts + 2).

Definition parse_expr (ts : list token) : option expr :=
  match run (parse_fuel ts) (RLevel 0) ts with
  | POk (AExpr e []) => Some e
  | _ => None
  end.

(* structural equality of trees *)
Fixpoint expr_eqb (a b : expr) : bool :=
  match a, b with
  | ELit l, ELit m => lit_eqb l m
  | EIdent n, EIdent m => text_eqb n m
  | ESet es, ESet fs =>
      (fix go (xs ys : list expr) : bool :=
         match xs, ys with
         | [], [] => true
         | x :: xr, y :: yr => expr_eqb x y && go xr yr
         | _, _ => false
         end) es fs
  | EUn o x, EUn p y => unop_eqb o p && expr_eqb x y
  | EBin o x1 x2, EBin p y1 y2 => binop_eqb o p && expr_eqb x1 y1 && expr_eqb x2 y2
  | EAttr x n, EAttr y m => expr_eqb x y && text_eqb n m
  | EPar x, EPar y => expr_eqb x y
  | _, _ => false
  end.
