(* C04 - declarative side conditions: which operand combinations the Specification defines. *)
From Coq Require Import ZArith QArith List Bool.
From PV Require Import Expr.Values Expr.Syntax Expr.Sem.
Import ListNotations.

Definition is_logic (o : binop) : bool := match o with BOr | BAnd => true | _ => false end.
Definition is_eqop (o : binop) : bool := match o with BEq | BNe => true | _ => false end.
Definition is_ordop (o : binop) : bool := match o with BLe | BGe | BLt | BGt => true | _ => false end.
Definition is_bitop (o : binop) : bool := match o with BBor | BXor | BBand => true | _ => false end.

(* the table of binary operators on operands that are not sets *)
Inductive Defined : binop -> value -> value -> Prop :=
| Def_logic : forall o x y, is_logic o = true -> Defined o (VBool x) (VBool y)
| Def_eq_rat : forall o p q, is_eqop o = true -> Defined o (VRat p) (VRat q)
| Def_eq_bool : forall o x y, is_eqop o = true -> Defined o (VBool x) (VBool y)
| Def_eq_str : forall o s t, is_eqop o = true -> Defined o (VStr s) (VStr t)
| Def_ord : forall o p q, is_ordop o = true -> Defined o (VRat p) (VRat q)
| Def_bit : forall o p q, is_bitop o = true -> is_int p = true -> is_int q = true -> Defined o (VRat p) (VRat q)
| Def_add : forall p q, Defined BAdd (VRat p) (VRat q)
| Def_concat : forall s t, Defined BAdd (VStr s) (VStr t)
| Def_sub : forall p q, Defined BSub (VRat p) (VRat q)
| Def_mul : forall p q, Defined BMul (VRat p) (VRat q)
| Def_div : forall p q, ~ q == 0 -> Defined BDiv (VRat p) (VRat q)
| Def_mod : forall p q, ~ q == 0 -> Defined BMod (VRat p) (VRat q)
| Def_pow : forall p q, ~ (p == 0 /\ is_int q = true /\ (qnum q < 0)%Z) -> Defined BPow (VRat p) (VRat q).

Definition is_set (v : value) : bool := match v with VSet _ => true | _ => false end.

(* operators between two sets *)
Definition is_setop (o : binop) : bool := is_eqop o || is_ordop o || is_bitop o.

(* well-formed set values: what Set.__init__ guarantees *)
Definition wf_set (l : list value) : Prop := l <> [] /\ homogeneous l = true.
