(* C04 - Unicode canonical composition (NFC) restricted to the alphabet the generators use, written as the standard
   algorithm (full canonical decomposition, canonical ordering of combining marks, canonical composition incl. the
   algorithmic Hangul syllables) over finite tables.  Tables generated from Python's unicodedata (digest a2878c886d8e0a65700ff5ac128cca8e8ed052c7);
   harness/props/c04.py re-derives them on every run and refuses to generate when they differ.  Definitions only.

   Alphabet: ASCII, the combining marks U+0301 (ccc 230), U+0327 (ccc 202), U+0308 (ccc 230), every precomposed letter
   reachable from ASCII with these marks, Hangul jamo L/V/T and syllables, and a few inert characters. *)
From Coq Require Import ZArith List Bool.
Import ListNotations.
Open Scope Z_scope.

(* canonical combining class *)
Definition ccc (c : Z) : Z := if c =? 769 then 230 else if c =? 807 then 202 else if c =? 776 then 230 else 0.

(* primary composites: starter, mark -> composite *)
Definition compose_pair (s m : Z) : option Z :=
  match s, m with
  | 65, 769 => Some 193
  | 65, 776 => Some 196
  | 67, 769 => Some 262
  | 67, 807 => Some 199
  | 68, 807 => Some 7696
  | 69, 769 => Some 201
  | 69, 776 => Some 203
  | 69, 807 => Some 552
  | 71, 769 => Some 500
  | 71, 807 => Some 290
  | 72, 776 => Some 7718
  | 72, 807 => Some 7720
  | 73, 769 => Some 205
  | 73, 776 => Some 207
  | 75, 769 => Some 7728
  | 75, 807 => Some 310
  | 76, 769 => Some 313
  | 76, 807 => Some 315
  | 77, 769 => Some 7742
  | 78, 769 => Some 323
  | 78, 807 => Some 325
  | 79, 769 => Some 211
  | 79, 776 => Some 214
  | 80, 769 => Some 7764
  | 82, 769 => Some 340
  | 82, 807 => Some 342
  | 83, 769 => Some 346
  | 83, 807 => Some 350
  | 84, 807 => Some 354
  | 85, 769 => Some 218
  | 85, 776 => Some 220
  | 87, 769 => Some 7810
  | 87, 776 => Some 7812
  | 88, 776 => Some 7820
  | 89, 769 => Some 221
  | 89, 776 => Some 376
  | 90, 769 => Some 377
  | 97, 769 => Some 225
  | 97, 776 => Some 228
  | 99, 769 => Some 263
  | 99, 807 => Some 231
  | 100, 807 => Some 7697
  | 101, 769 => Some 233
  | 101, 776 => Some 235
  | 101, 807 => Some 553
  | 103, 769 => Some 501
  | 103, 807 => Some 291
  | 104, 776 => Some 7719
  | 104, 807 => Some 7721
  | 105, 769 => Some 237
  | 105, 776 => Some 239
  | 107, 769 => Some 7729
  | 107, 807 => Some 311
  | 108, 769 => Some 314
  | 108, 807 => Some 316
  | 109, 769 => Some 7743
  | 110, 769 => Some 324
  | 110, 807 => Some 326
  | 111, 769 => Some 243
  | 111, 776 => Some 246
  | 112, 769 => Some 7765
  | 114, 769 => Some 341
  | 114, 807 => Some 343
  | 115, 769 => Some 347
  | 115, 807 => Some 351
  | 116, 776 => Some 7831
  | 116, 807 => Some 355
  | 117, 769 => Some 250
  | 117, 776 => Some 252
  | 119, 769 => Some 7811
  | 119, 776 => Some 7813
  | 120, 776 => Some 7821
  | 121, 769 => Some 253
  | 121, 776 => Some 255
  | 122, 769 => Some 378
  | 199, 769 => Some 7688
  | 207, 769 => Some 7726
  | 220, 769 => Some 471
  | 231, 769 => Some 7689
  | 239, 769 => Some 7727
  | 252, 769 => Some 472
  | 262, 807 => Some 7688
  | 263, 807 => Some 7689
  | _, _ => None
  end.

(* full canonical decomposition of the precomposed letters *)
Definition decompose_table (c : Z) : list Z :=
  match c with
  | 193 => [65; 769]
  | 196 => [65; 776]
  | 199 => [67; 807]
  | 201 => [69; 769]
  | 203 => [69; 776]
  | 205 => [73; 769]
  | 207 => [73; 776]
  | 211 => [79; 769]
  | 214 => [79; 776]
  | 218 => [85; 769]
  | 220 => [85; 776]
  | 221 => [89; 769]
  | 225 => [97; 769]
  | 228 => [97; 776]
  | 231 => [99; 807]
  | 233 => [101; 769]
  | 235 => [101; 776]
  | 237 => [105; 769]
  | 239 => [105; 776]
  | 243 => [111; 769]
  | 246 => [111; 776]
  | 250 => [117; 769]
  | 252 => [117; 776]
  | 253 => [121; 769]
  | 255 => [121; 776]
  | 262 => [67; 769]
  | 263 => [99; 769]
  | 290 => [71; 807]
  | 291 => [103; 807]
  | 310 => [75; 807]
  | 311 => [107; 807]
  | 313 => [76; 769]
  | 314 => [108; 769]
  | 315 => [76; 807]
  | 316 => [108; 807]
  | 323 => [78; 769]
  | 324 => [110; 769]
  | 325 => [78; 807]
  | 326 => [110; 807]
  | 340 => [82; 769]
  | 341 => [114; 769]
  | 342 => [82; 807]
  | 343 => [114; 807]
  | 346 => [83; 769]
  | 347 => [115; 769]
  | 350 => [83; 807]
  | 351 => [115; 807]
  | 354 => [84; 807]
  | 355 => [116; 807]
  | 376 => [89; 776]
  | 377 => [90; 769]
  | 378 => [122; 769]
  | 471 => [85; 776; 769]
  | 472 => [117; 776; 769]
  | 500 => [71; 769]
  | 501 => [103; 769]
  | 552 => [69; 807]
  | 553 => [101; 807]
  | 7688 => [67; 807; 769]
  | 7689 => [99; 807; 769]
  | 7696 => [68; 807]
  | 7697 => [100; 807]
  | 7718 => [72; 776]
  | 7719 => [104; 776]
  | 7720 => [72; 807]
  | 7721 => [104; 807]
  | 7726 => [73; 776; 769]
  | 7727 => [105; 776; 769]
  | 7728 => [75; 769]
  | 7729 => [107; 769]
  | 7742 => [77; 769]
  | 7743 => [109; 769]
  | 7764 => [80; 769]
  | 7765 => [112; 769]
  | 7810 => [87; 769]
  | 7811 => [119; 769]
  | 7812 => [87; 776]
  | 7813 => [119; 776]
  | 7820 => [88; 776]
  | 7821 => [120; 776]
  | 7831 => [116; 776]
  | _ => [c]
  end.

(* Hangul: SBase AC00, LBase 1100 (19), VBase 1161 (21), TBase 11A7 (28), NCount 588 *)
Definition is_L (c : Z) : bool := (4352 <=? c) && (c <? 4371).
Definition is_V (c : Z) : bool := (4449 <=? c) && (c <? 4470).
Definition is_T (c : Z) : bool := (4520 <=? c) && (c <? 4547).        (* 11A8 .. 11C2 *)
Definition is_S (c : Z) : bool := (44032 <=? c) && (c <? 55204).
Definition is_LV (c : Z) : bool := is_S c && ((c - 44032) mod 28 =? 0).

Definition decompose (c : Z) : list Z :=
  if is_S c then
    let i := c - 44032 in
    let l := 4352 + i / 588 in
    let v := 4449 + (i mod 588) / 28 in
    let t := i mod 28 in
    if t =? 0 then [l; v] else [l; v; 4519 + t]
  else decompose_table c.

Definition compose (s c : Z) : option Z :=
  if is_L s && is_V c then Some (44032 + ((s - 4352) * 21 + (c - 4449)) * 28)
  else if is_LV s && is_T c then Some (s + (c - 4519))
  else compose_pair s c.

(* canonical ordering: a mark moves left over marks of a greater class (stable) *)
Fixpoint insert_mark (c k : Z) (out_rev : list Z) : list Z :=
  match out_rev with
  | m :: r => if k <? ccc m then m :: insert_mark c k r else c :: out_rev
  | [] => [c]
  end.

Fixpoint reorder (l : list Z) (out_rev : list Z) : list Z :=
  match l with
  | [] => rev out_rev
  | c :: r => if ccc c =? 0 then reorder r (c :: out_rev) else reorder r (insert_mark c (ccc c) out_rev)
  end.

Definition nfd (s : list Z) : list Z := reorder (flat_map decompose s) [].

(* canonical composition: st = the last starter (if any), pend = characters after it that did not compose (reversed),
   last = class of the last of them *)
Fixpoint compose_run (l : list Z) (done_rev : list Z) (st : option Z) (pend : list Z) (last : Z) : list Z :=
  match l with
  | [] => rev done_rev ++ match st with Some s => s :: rev pend | None => rev pend end
  | c :: r =>
      let k := ccc c in
      let blocked := match pend with [] => false | _ => (k =? 0) || (k <=? last) end in
      match st with
      | Some s =>
          match (if blocked then None else compose s c) with
          | Some s' => compose_run r done_rev (Some s') pend last
          | None =>
              if k =? 0 then compose_run r (pend ++ s :: done_rev) (Some c) [] 0
              else compose_run r done_rev st (c :: pend) k
          end
      | None =>
          if k =? 0 then compose_run r (pend ++ done_rev) (Some c) [] 0
          else compose_run r done_rev None (c :: pend) k
      end
  end.

Definition nfc (s : list Z) : list Z := compose_run (nfd s) [] None [] 0.

(* characters >= 128 for which the tables are complete *)
Definition inert_chars : list Z := [128; 160; 2047; 2048; 8364; 55295; 55296; 56319; 57343; 57344; 65535; 65536; 128512; 1114111].
Definition nfc_supported_char (c : Z) : bool :=
  (c <? 128) || (0 <? ccc c) || is_L c || is_V c || is_T c || is_S c
  || negb (match decompose_table c with [x] => x =? c | _ => false end) || existsb (Z.eqb c) inert_chars.
