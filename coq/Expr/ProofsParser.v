(* C04 - the deterministic parser (Expr/Parser.v) only produces trees the grammar derives: soundness w.r.t. Derives *)
From Coq Require Import ZArith List Bool Arith Lia.
From PV Require Import Expr.Syntax Expr.Grammar Expr.Parser.
Import ListNotations.
Open Scope nat_scope.

Definition comma_join (tss : list (list token)) : list token := flat_map (fun ts => TSym SComma :: ts) tss.

Lemma join_comma_cons : forall u tss, join_comma (u :: tss) = u ++ comma_join tss.
Proof.
  intros u tss. revert u. induction tss as [|v r IH]; intros u; cbn.
  - rewrite app_nil_r. reflexivity.
  - cbn in IH. rewrite (IH v). reflexivity.
Qed.

Lemma derives_list_app : forall tss1 es1 tss2 es2,
  DerivesList tss1 es1 -> DerivesList tss2 es2 -> DerivesList (tss1 ++ tss2) (es1 ++ es2).
Proof. intros tss1 es1 tss2 es2 H1 H2. induction H1; cbn; [assumption|]. constructor; assumption. Qed.

(* what a successful run means *)
Definition sound_ans (r : req) (ts : list token) (res : ans) : Prop :=
  match r, res with
  | RLevel L, AExpr e rest => exists used, ts = used ++ rest /\ Derives L used e
  | RChain L a, AExpr e rest =>
      exists used, ts = used ++ rest /\ forall pre, Derives L pre a -> Derives L (pre ++ used) e
  | RAttr a, AExpr e rest =>
      exists used, ts = used ++ rest /\ forall pre, Derives 8 pre a -> Derives 8 (pre ++ used) e
  | RList acc, AList es rest =>
      exists tss news, ts = comma_join tss ++ rest /\ es = rev acc ++ news /\ DerivesList tss news
  | _, _ => False
  end.

Ltac inv_some :=
  match goal with
  | H : POk _ = POk _ |- _ => inversion H; subst; clear H
  | H : PFail = POk _ |- _ => discriminate H
  | H : PFuel = POk _ |- _ => discriminate H
  end.

Lemma run_sound : forall fuel r ts res, run fuel r ts = POk res -> sound_ans r ts res.
Proof.
  induction fuel as [|f IH]; intros r ts res H; [discriminate|].
  destruct r as [L|L a|a|acc]; cbn [run] in H.
  - (* RLevel *)
    destruct L as [|[|[|[|[|[|[|[|[|[|L]]]]]]]]]]; try discriminate.
    + (* 0 *)
      destruct (run f (RLevel 1) ts) as [[a rest|? ?]| |] eqn:E1; try discriminate.
      apply IH in E1. destruct E1 as [u1 [-> D1]]. apply IH in H. destruct res as [e rest'|]; [|destruct H].
      destruct H as [u2 [-> D2]]. exists (u1 ++ u2). split; [rewrite app_assoc; reflexivity|].
      apply D2. apply D_down; [lia|assumption].
    + (* 1 *)
      destruct ts as [|t rest]; [apply IH in H; destruct res; [|destruct H]; destruct H as [u [-> D]]; exists u; split; [reflexivity|apply D_down; [lia|assumption]]|].
      destruct t as [l|s|n];
        try (apply IH in H; destruct res; [|destruct H]; destruct H as [u [E D]]; exists u; split; [assumption|apply D_down; [lia|assumption]]).
      destruct s;
        try (apply IH in H; destruct res; [|destruct H]; destruct H as [u [E D]]; exists u; split; [assumption|apply D_down; [lia|assumption]]).
      destruct (run f (RLevel 1) rest) as [[a rest'|? ?]| |] eqn:E1; try discriminate. inv_some.
      apply IH in E1. destruct E1 as [u [-> D]]. exists (TSym SBang :: u). split; [reflexivity|apply D_not; assumption].
    + (* 2 *)
      destruct (run f (RLevel 3) ts) as [[a rest|? ?]| |] eqn:E1; try discriminate.
      apply IH in E1. destruct E1 as [u1 [-> D1]]. apply IH in H. destruct res as [e rest'|]; [|destruct H].
      destruct H as [u2 [-> D2]]. exists (u1 ++ u2). split; [rewrite app_assoc; reflexivity|].
      apply D2. apply D_down; [lia|assumption].
    + (* 3 *)
      destruct (run f (RLevel 4) ts) as [[a rest|? ?]| |] eqn:E1; try discriminate.
      apply IH in E1. destruct E1 as [u1 [-> D1]]. apply IH in H. destruct res as [e rest'|]; [|destruct H].
      destruct H as [u2 [-> D2]]. exists (u1 ++ u2). split; [rewrite app_assoc; reflexivity|].
      apply D2. apply D_down; [lia|assumption].
    + (* 4 *)
      destruct (run f (RLevel 5) ts) as [[a rest|? ?]| |] eqn:E1; try discriminate.
      apply IH in E1. destruct E1 as [u1 [-> D1]]. apply IH in H. destruct res as [e rest'|]; [|destruct H].
      destruct H as [u2 [-> D2]]. exists (u1 ++ u2). split; [rewrite app_assoc; reflexivity|].
      apply D2. apply D_down; [lia|assumption].
    + (* 5 *)
      destruct (run f (RLevel 6) ts) as [[a rest|? ?]| |] eqn:E1; try discriminate.
      apply IH in E1. destruct E1 as [u1 [-> D1]]. apply IH in H. destruct res as [e rest'|]; [|destruct H].
      destruct H as [u2 [-> D2]]. exists (u1 ++ u2). split; [rewrite app_assoc; reflexivity|].
      apply D2. apply D_down; [lia|assumption].
    + (* 6 *)
      assert (forall ts', run f (RLevel 7) ts' = POk res -> sound_ans (RLevel 6) ts' res) as Fall.
      { intros ts' H'. apply IH in H'. destruct res; [|destruct H']. destruct H' as [u [E D]]. exists u. split; [assumption|apply D_down; [lia|assumption]]. }
      destruct ts as [|t rest]; [apply Fall; assumption|].
      destruct t as [l|s|n]; try (apply Fall; assumption).
      destruct s as [o| | | | | | |]; try (apply Fall; assumption).
      destruct o; try (apply Fall; assumption).
      * destruct (run f (RLevel 7) rest) as [[a rest'|? ?]| |] eqn:E1; try discriminate. inv_some.
        apply IH in E1. destruct E1 as [u [-> D]]. exists (TSym (SBin BAdd) :: u). split; [reflexivity|apply D_pos; assumption].
      * destruct (run f (RLevel 7) rest) as [[a rest'|? ?]| |] eqn:E1; try discriminate. inv_some.
        apply IH in E1. destruct E1 as [u [-> D]]. exists (TSym (SBin BSub) :: u). split; [reflexivity|apply D_neg; assumption].
    + (* 7 *)
      destruct (run f (RLevel 8) ts) as [[a rest|? ?]| |] eqn:E1; try discriminate.
      apply IH in E1. destruct E1 as [u1 [-> D1]].
      assert (sound_ans (RLevel 7) (u1 ++ rest) (AExpr a rest)) as Plain.
      { exists u1. split; [reflexivity|apply D_down; [lia|assumption]]. }
      destruct rest as [|t rest']; [inv_some; exact Plain|].
      destruct t as [l|s|n]; try (inv_some; exact Plain).
      destruct s as [o| | | | | | |]; try (inv_some; exact Plain).
      destruct o; try (inv_some; exact Plain).
      destruct (run f (RLevel 6) rest') as [[b rest''|? ?]| |] eqn:E2; try (inv_some; exact Plain); try discriminate.
      inv_some. apply IH in E2. destruct E2 as [u2 [-> D2]].
      exists (u1 ++ TSym (SBin BPow) :: u2). split; [rewrite <- app_assoc; reflexivity|apply D_pow; assumption].
    + (* 8 *)
      destruct (run f (RLevel 9) ts) as [[a rest|? ?]| |] eqn:E1; try discriminate.
      apply IH in E1. destruct E1 as [u1 [-> D1]]. apply IH in H. destruct res as [e rest'|]; [|destruct H].
      destruct H as [u2 [-> D2]]. exists (u1 ++ u2). split; [rewrite app_assoc; reflexivity|].
      apply D2. apply D_down; [lia|assumption].
    + (* 9 *)
      destruct ts as [|t rest]; [discriminate|]. destruct t as [l|s|n].
      * inv_some. exists [TLit l]. split; [reflexivity|apply D_lit].
      * destruct s; try discriminate.
        -- (* parenthesis *)
           destruct (run f (RLevel 0) rest) as [[a rest'|? ?]| |] eqn:E1; try discriminate.
           destruct rest' as [|t' rest'']; [discriminate|]. destruct t' as [|s'|]; try discriminate. destruct s'; try discriminate.
           inv_some. apply IH in E1. destruct E1 as [u [-> D]].
           exists (TSym SLPar :: u ++ [TSym SRPar]). split; [cbn; rewrite <- app_assoc; reflexivity|apply D_par; assumption].
        -- (* set literal *)
           destruct (run f (RLevel 0) rest) as [[a rest'|? ?]| |] eqn:E1.
           ++ destruct (run f (RList [a]) rest') as [[? ?|es rest'']| |] eqn:E2; try discriminate.
              destruct rest'' as [|t' rest3]; [discriminate|]. destruct t' as [|s'|]; try discriminate. destruct s'; try discriminate.
              inv_some. apply IH in E1. destruct E1 as [u [-> D]]. apply IH in E2. destruct E2 as [tss [news [-> [-> DL]]]].
              exists (TSym SLBrace :: join_comma (u :: tss) ++ [TSym SRBrace]). split.
              ** rewrite join_comma_cons. cbn. rewrite <- !app_assoc. reflexivity.
              ** cbn [rev app]. apply (D_set (u :: tss) (a :: news)). constructor; assumption.
           ++ destruct rest as [|t' rest']; [discriminate|]. destruct t' as [|s'|]; try discriminate. destruct s'; try discriminate.
              inv_some. exists [TSym SLBrace; TSym SRBrace]. split; [reflexivity|]. apply (D_set [] []). constructor.
           ++ destruct rest as [|t' rest']; [discriminate|]. destruct t' as [|s'|]; try discriminate. destruct s'; try discriminate.
              inv_some. exists [TSym SLBrace; TSym SRBrace]. split; [reflexivity|]. apply (D_set [] []). constructor.
           ++ discriminate.
      * inv_some. exists [TId n]. split; [reflexivity|apply D_ident].
  - (* RChain *)
    assert (sound_ans (RChain L a) ts (AExpr a ts)) as Stop.
    { exists []. split; [reflexivity|]. intros pre D. rewrite app_nil_r. assumption. }
    destruct ts as [|t rest]; [inv_some; exact Stop|].
    destruct t as [l|s|n]; try (inv_some; exact Stop).
    destruct s as [o| | | | | | |]; try (inv_some; exact Stop).
    destruct ((oplevel o =? L) && is_chain_level L) eqn:C; [|inv_some; exact Stop].
    apply andb_true_iff in C. destruct C as [C1 C2]. apply Nat.eqb_eq in C1.
    destruct (run f (RLevel (S L)) rest) as [[b rest'|? ?]| |] eqn:E1; try (inv_some; exact Stop); try discriminate.
    apply IH in E1. destruct E1 as [u1 [-> D1]]. apply IH in H. destruct res as [e rest''|]; [|destruct H].
    destruct H as [u2 [-> D2]]. exists ((TSym (SBin o) :: u1) ++ u2). split; [cbn; rewrite <- app_assoc; reflexivity|].
    intros pre Dp. rewrite app_assoc. apply D2. apply D_chain; assumption.
  - (* RAttr *)
    assert (sound_ans (RAttr a) ts (AExpr a ts)) as Stop.
    { exists []. split; [reflexivity|]. intros pre D. rewrite app_nil_r. assumption. }
    destruct ts as [|t rest]; [inv_some; exact Stop|].
    destruct t as [l|s|n]; try (inv_some; exact Stop).
    destruct s; try (inv_some; exact Stop).
    destruct rest as [|t2 rest2]; [inv_some; exact Stop|].
    destruct t2 as [|?|n]; try (inv_some; exact Stop).
    apply IH in H. destruct res as [e rest'|]; [|destruct H]. destruct H as [u [-> D]].
    exists ([TSym SDot; TId n] ++ u). split; [reflexivity|].
    intros pre Dp. rewrite app_assoc. apply D. apply D_attr. assumption.
  - (* RList *)
    assert (sound_ans (RList acc) ts (AList (rev acc) ts)) as Stop.
    { exists [], []. split; [reflexivity|]. split; [rewrite app_nil_r; reflexivity|constructor]. }
    destruct ts as [|t rest]; [inv_some; exact Stop|].
    destruct t as [l|s|n]; try (inv_some; exact Stop).
    destruct s; try (inv_some; exact Stop).
    destruct (run f (RLevel 0) rest) as [[e rest'|? ?]| |] eqn:E1; try (inv_some; exact Stop); try discriminate.
    apply IH in E1. destruct E1 as [u [-> D]]. apply IH in H. destruct res as [|es rest'']; [destruct H|].
    destruct H as [tss [news [-> [-> DL]]]].
    exists (u :: tss), (e :: news). split; [cbn; rewrite <- app_assoc; reflexivity|].
    split; [cbn; rewrite <- app_assoc; reflexivity|constructor; assumption].
Qed.

(* whatever the parser returns for a complete token list is a derivation of the grammar *)
Theorem parse_sound : forall ts e, parse_expr ts = Some e -> Derives 0 ts e.
Proof.
  intros ts e H. unfold parse_expr in H.
  destruct (run (parse_fuel ts) (RLevel 0) ts) as [[e' rest|? ?]| |] eqn:E; try discriminate.
  destruct rest; [|discriminate]. inversion H; subst. apply run_sound in E. destruct E as [u [-> D]].
  rewrite app_nil_r. assumption.
Qed.

(* equality test of trees *)
Lemma text_eqb_eq : forall a b, text_eqb a b = true -> a = b.
Proof.
  induction a as [|x r IH]; destruct b as [|y s]; cbn; try discriminate; [reflexivity|].
  intros H. apply andb_true_iff in H. destruct H as [H1 H2]. apply Z.eqb_eq in H1. apply IH in H2. subst. reflexivity.
Qed.

Lemma lit_eqb_eq : forall a b, lit_eqb a b = true -> a = b.
Proof.
  destruct a as [s|s|s|x], b as [t|t|t|y]; cbn; try discriminate; intros H; try (apply text_eqb_eq in H; subst; reflexivity).
  destruct x, y; try discriminate; reflexivity.
Qed.
