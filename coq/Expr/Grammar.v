(* C04 - the Expressions section of grammar.parsimonious as a derivation relation over token lists, and the renderer
   (expression tree -> tokens) whose Python twin produces the texts fed to the implementation.  Definitions only.

   Rule levels (low binds loosest):
     0 ex_logical  1 ex_logical_not  2 ex_comparison  3 ex_bitwise  4 ex_additive  5 ex_multiplicative
     6 ex_inversion  7 ex_exponential  8 ex_attribute  9 expression_atom *)
From Coq Require Import ZArith List Bool Arith.
From PV Require Import Expr.Syntax.
Import ListNotations.

(* the chain rule an operator belongs to *)
Definition oplevel (o : binop) : nat :=
  match o with
  | BOr | BAnd => 0
  | BEq | BNe | BLe | BGe | BLt | BGt => 2
  | BBor | BXor | BBand => 3
  | BAdd | BSub => 4
  | BMul | BDiv | BMod => 5
  | BPow => 7
  end.

(* the lowest rule that produces the root of e without parentheses *)
Definition level (e : expr) : nat :=
  match e with
  | EBin o _ _ => oplevel o
  | EUn UNot _ => 1
  | EUn _ _ => 6
  | EAttr _ _ => 8
  | _ => 9
  end.

(* an operand that has to be derivable from rule L *)
Definition wrap (L : nat) (e : expr) : expr := if L <=? level e then e else EPar e.

(* insert exactly the parentheses the grammar requires; EPar nodes already present are kept (redundant parentheses) *)
Fixpoint parenthesize (e : expr) : expr :=
  match e with
  | ELit _ | EIdent _ => e
  | ESet es => ESet (map parenthesize es)
  | EUn UNot a => EUn UNot (wrap 1 (parenthesize a))             (* "!" ex_logical_not *)
  | EUn o a => EUn o (wrap 7 (parenthesize a))                   (* "+"/"-" ex_exponential *)
  | EBin BPow a b => EBin BPow (wrap 8 (parenthesize a)) (wrap 6 (parenthesize b))   (* ex_attribute "**" ex_inversion *)
  | EBin o a b => EBin o (wrap (oplevel o) (parenthesize a)) (wrap (S (oplevel o)) (parenthesize b))
  | EAttr a n => EAttr (wrap 8 (parenthesize a)) n
  | EPar a => EPar (parenthesize a)
  end.

Fixpoint join_comma (tss : list (list token)) : list token :=
  match tss with
  | [] => []
  | [ts] => ts
  | ts :: r => ts ++ TSym SComma :: join_comma r
  end.

(* print the tree as it is *)
Fixpoint render (e : expr) : list token :=
  match e with
  | ELit l => [TLit l]
  | EIdent n => [TId n]
  | ESet es => TSym SLBrace :: join_comma (map render es) ++ [TSym SRBrace]
  | EUn UNot a => TSym SBang :: render a
  | EUn UPos a => TSym (SBin BAdd) :: render a
  | EUn UNeg a => TSym (SBin BSub) :: render a
  | EBin o a b => render a ++ TSym (SBin o) :: render b
  | EAttr a n => render a ++ [TSym SDot; TId n]
  | EPar a => TSym SLPar :: render a ++ [TSym SRPar]
  end.

Definition render_min (e : expr) : list token := render (parenthesize e).

(* remove all parentheses *)
Fixpoint strip (e : expr) : expr :=
  match e with
  | ELit _ | EIdent _ => e
  | ESet es => ESet (map strip es)
  | EUn o a => EUn o (strip a)
  | EBin o a b => EBin o (strip a) (strip b)
  | EAttr a n => EAttr (strip a) n
  | EPar a => strip a
  end.

(* ---- the grammar ---- *)
Definition is_chain_level (L : nat) : bool :=
  match L with 0 | 2 | 3 | 4 | 5 => true | _ => false end.

Inductive Derives : nat -> list token -> expr -> Prop :=
(* a rule can reduce to a single element of the next rule: chains with zero repetitions, the last alternative of
   ex_logical_not and ex_inversion, ex_exponential without "**", ex_attribute without "." *)
| D_down : forall L ts e, L < 9 -> Derives (S L) ts e -> Derives L ts e
(* X = Y (op Y)*, folded from the left by _visit_binary_operator_chain *)
| D_chain : forall L o ts1 ts2 a b,
    is_chain_level L = true -> oplevel o = L ->
    Derives L ts1 a -> Derives (S L) ts2 b ->
    Derives L (ts1 ++ TSym (SBin o) :: ts2) (EBin o a b)
(* op1_form_log_not = "!" ex_logical_not *)
| D_not : forall ts a, Derives 1 ts a -> Derives 1 (TSym SBang :: ts) (EUn UNot a)
(* op1_form_inv_pos / op1_form_inv_neg = "+"/"-" ex_exponential *)
| D_pos : forall ts a, Derives 7 ts a -> Derives 6 (TSym (SBin BAdd) :: ts) (EUn UPos a)
| D_neg : forall ts a, Derives 7 ts a -> Derives 6 (TSym (SBin BSub) :: ts) (EUn UNeg a)
(* ex_exponential = ex_attribute ("**" ex_inversion)?  - right recursion *)
| D_pow : forall ts1 ts2 a b,
    Derives 8 ts1 a -> Derives 6 ts2 b -> Derives 7 (ts1 ++ TSym (SBin BPow) :: ts2) (EBin BPow a b)
(* ex_attribute = expression_atom ("." identifier)* *)
| D_attr : forall ts a n, Derives 8 ts a -> Derives 8 (ts ++ [TSym SDot; TId n]) (EAttr a n)
(* expression_atom *)
| D_par : forall ts a, Derives 0 ts a -> Derives 9 (TSym SLPar :: ts ++ [TSym SRPar]) (EPar a)
| D_lit : forall l, Derives 9 [TLit l] (ELit l)
| D_ident : forall n, Derives 9 [TId n] (EIdent n)
| D_set : forall tss es, DerivesList tss es -> Derives 9 (TSym SLBrace :: join_comma tss ++ [TSym SRBrace]) (ESet es)
(* expression_list = (expression ("," expression)* )? *)
with DerivesList : list (list token) -> list expr -> Prop :=
| DL_nil : DerivesList [] []
| DL_cons : forall ts e tss es, Derives 0 ts e -> DerivesList tss es -> DerivesList (ts :: tss) (e :: es).
