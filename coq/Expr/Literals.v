(* Decoding of literal texts (pydsdl/_parser.py visit_literal_*, _parse_string_literal) and the shape the grammar
   accepts for each literal kind (grammar.parsimonious, Literals section).  Definitions only. *)
From Coq Require Import ZArith QArith List Bool.
From PV Require Import Expr.Values Expr.Syntax.
Import ListNotations.
Open Scope Z_scope.

Definition is_dec (c : Z) : bool := (48 <=? c) && (c <=? 57).
Definition is_us (c : Z) : bool := c =? 95.                       (* "_" *)

(* value of one digit character in base <= 16 *)
Definition digit_val (c : Z) : option Z :=
  if (48 <=? c) && (c <=? 57) then Some (c - 48)
  else if (97 <=? c) && (c <=? 102) then Some (c - 87)
  else if (65 <=? c) && (c <=? 70) then Some (c - 55)
  else None.

Definition is_digit_of (base : Z) (c : Z) : bool :=
  match digit_val c with Some d => d <? base | None => false end.

(* positional value of a digit string with "_" removed: int(text.replace("_", ""), base) *)
Fixpoint digits_val (base : Z) (acc : Z) (l : list Z) : option Z :=
  match l with
  | [] => Some acc
  | c :: r =>
      if is_us c then digits_val base acc r
      else match digit_val c with
           | Some d => if d <? base then digits_val base (acc * base + d) r else None
           | None => None
           end
  end.

(* number of digit characters (separators not counted) *)
Fixpoint ndigits (l : list Z) : Z :=
  match l with [] => 0 | c :: r => if is_us c then ndigits r else 1 + ndigits r end.

(* optional-separator digit groups, possibly none: every "_" is followed by a digit, everything else is a digit *)
Fixpoint sep_digits (p : Z -> bool) (l : list Z) : bool :=
  match l with
  | [] => true
  | c :: r =>
      if is_us c then match r with d :: r' => p d && sep_digits p r' | [] => false end
      else p c && sep_digits p r
  end.

(* at least one group *)
Definition sep_digits1 (p : Z -> bool) (l : list Z) : bool :=
  match l with [] => false | _ => sep_digits p l end.

(* a digit, then groups: literal_real_digits *)
Definition plain_digits (p : Z -> bool) (l : list Z) : bool :=
  match l with c :: r => p c && sep_digits p r | [] => false end.

(* ---- integers ---- *)
Definition int_base (text : list Z) : Z * list Z :=
  match text with
  | c0 :: c :: r =>
      if c0 =? 48 then
        if (c =? 98) || (c =? 66) then (2, r)
        else if (c =? 111) || (c =? 79) then (8, r)
        else if (c =? 120) || (c =? 88) then (16, r)
        else (10, text)
      else (10, text)
  | _ => (10, text)
  end.

Definition int_value (text : list Z) : option Z :=
  let (b, ds) := int_base text in digits_val b 0 ds.

(* literal_integer_binary / octal / hexadecimal / decimal *)
Definition int_wf (text : list Z) : bool :=
  let (b, ds) := int_base text in
  if b =? 10 then
    match text with
    | c :: r =>
        if c =? 48 then sep_digits (fun c => c =? 48) r                (* zeros with single separators *)
        else (49 <=? c) && (c <=? 57) && sep_digits is_dec r           (* 1-9 then digits with single separators *)
    | [] => false
    end
  else sep_digits1 (is_digit_of b) ds.

(* ---- reals ---- *)
Definition is_dec_us (c : Z) : bool := is_dec c || is_us c.

Fixpoint span (p : Z -> bool) (l : list Z) : list Z * list Z :=
  match l with
  | c :: r => if p c then let (a, b) := span p r in (c :: a, b) else ([], l)
  | [] => ([], [])
  end.

(* parts of a real literal: integer digits, has point, fraction digits, exponent (sign, digits) *)
Record real_parts := { rp_int : list Z; rp_point : bool; rp_frac : list Z; rp_exp : option (bool * list Z); rp_rest : list Z }.

Definition real_split (text : list Z) : real_parts :=
  let (ip, r1) := span is_dec_us text in
  let '(pt, fp, r2) :=
    match r1 with
    | 46 :: r => let (f, r') := span is_dec_us r in (true, f, r')
    | _ => (false, [], r1)
    end in
  match r2 with
  | c :: r =>
      if (c =? 101) || (c =? 69) then
        match r with
        | 43 :: ds => let (e, r') := span is_dec_us ds in {| rp_int := ip; rp_point := pt; rp_frac := fp; rp_exp := Some (false, e); rp_rest := r' |}
        | 45 :: ds => let (e, r') := span is_dec_us ds in {| rp_int := ip; rp_point := pt; rp_frac := fp; rp_exp := Some (true, e); rp_rest := r' |}
        | ds => let (e, r') := span is_dec_us ds in {| rp_int := ip; rp_point := pt; rp_frac := fp; rp_exp := Some (false, e); rp_rest := r' |}
        end
      else {| rp_int := ip; rp_point := pt; rp_frac := fp; rp_exp := None; rp_rest := r2 |}
  | [] => {| rp_int := ip; rp_point := pt; rp_frac := fp; rp_exp := None; rp_rest := [] |}
  end.

Definition opt_digits (l : list Z) : bool := match l with [] => true | _ => plain_digits is_dec l end.

(* literal_real_point_notation / literal_real_exponent_notation *)
Definition real_wf (text : list Z) : bool :=
  let p := real_split text in
  match rp_rest p with
  | [] =>
      opt_digits (rp_int p) && opt_digits (rp_frac p)
      && (if rp_point p then negb (match rp_int p, rp_frac p with [], [] => true | _, _ => false end)
          else match rp_int p, rp_exp p with _ :: _, Some _ => true | _, _ => false end)
      && match rp_exp p with Some (_, e) => plain_digits is_dec e | None => true end
  | _ => false
  end.

Definition opt_val (l : list Z) : option Z := digits_val 10 0 l.

(* Fraction(text.replace("_", "")): decimal fraction times power of ten *)
Definition real_value (text : list Z) : option Q :=
  let p := real_split text in
  match opt_val (rp_int p), opt_val (rp_frac p) with
  | Some iv, Some fv =>
      let k := ndigits (rp_frac p) in
      let m := Qmake (iv * 10 ^ k + fv) (Z.to_pos (10 ^ k)) in
      match rp_exp p with
      | None => Some (Qred m)
      | Some (neg, e) =>
          match opt_val e with
          | Some ev => Some (Qred (Qmult m (Qpower (inject_Z 10) (if neg then - ev else ev))))
          | None => None
          end
      end
  | _, _ => None
  end.

(* ---- strings ---- *)
Inductive sstate := SNorm | SEsc | SHex (n : nat) (acc : Z).

(* the table of _parse_string_literal: key is s.lower() *)
Definition simple_escape (c : Z) : option Z :=
  if (c =? 114) || (c =? 82) then Some 13          (* r R *)
  else if (c =? 110) || (c =? 78) then Some 10     (* n N *)
  else if (c =? 116) || (c =? 84) then Some 9      (* t T *)
  else if c =? 34 then Some 34
  else if c =? 39 then Some 39
  else if c =? 92 then Some 92
  else None.

(* None = DSDLSyntaxError (bad escape, bad hex digit, code point out of range, text ends inside an escape) *)
Fixpoint str_run (st : sstate) (l : list Z) (out : list Z) : option (list Z) :=
  match l with
  | [] => match st with SNorm => Some (rev out) | _ => None end
  | c :: r =>
      match st with
      | SNorm => if c =? 92 then str_run SEsc r out else str_run SNorm r (c :: out)
      | SEsc =>
          if c =? 117 then str_run (SHex 4 0) r out
          else if c =? 85 then str_run (SHex 8 0) r out
          else match simple_escape c with Some x => str_run SNorm r (x :: out) | None => None end
      | SHex (S n) acc =>
          match digit_val c with
          | Some d =>
              let acc' := acc * 16 + d in
              match n with
              | O => if acc' <=? 1114111 then str_run SNorm r (acc' :: out) else None       (* chr() range *)
              | _ => str_run (SHex n acc') r out
              end
          | None => None
          end
      | SHex O _ => None
      end
  end.

Definition is_quote (c : Z) : bool := (c =? 39) || (c =? 34).

Definition str_value (text : list Z) : option (list Z) :=
  match text with
  | q :: r =>
      match rev r with
      | q' :: inner_rev => if is_quote q && (q =? q') then str_run SNorm (rev inner_rev) [] else None
      | [] => None
      end
  | [] => None
  end.

(* literal_string_single_quoted / double_quoted: no unescaped quote inside, a backslash is followed by something
   that is not CR/LF *)
Fixpoint str_shape (q : Z) (esc : bool) (l : list Z) : bool :=
  match l with
  | [] => negb esc
  | c :: r =>
      if esc then negb ((c =? 13) || (c =? 10)) && str_shape q false r
      else if c =? 92 then str_shape q true r
      else negb (c =? q) && str_shape q false r
  end.

Definition str_wf (text : list Z) : bool :=
  match text with
  | q :: r =>
      match rev r with
      | q' :: inner_rev => is_quote q && (q =? q') && str_shape q false (rev inner_rev)
      | [] => false
      end
  | [] => false
  end.

(* ---- all kinds ---- *)
Definition lit_value (l : lit) : option value :=
  match l with
  | LInt t => match int_value t with Some z => Some (VRat (inject_Z z)) | None => None end
  | LReal t => match real_value t with Some q => Some (VRat q) | None => None end
  | LStr t => match str_value t with Some s => Some (VStr s) | None => None end
  | LBool b => Some (VBool b)
  end.

Definition lit_wf (l : lit) : bool :=
  match l with LInt t => int_wf t | LReal t => real_wf t | LStr t => str_wf t | LBool _ => true end.
