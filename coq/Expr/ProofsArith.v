(* C04 - Python's Fraction formulas for % and ** (Expr/Eval.v) compute the mathematical operations (Expr/Sem.v) *)
From Coq Require Import ZArith QArith Qround Qpower Qreduction Qfield List Bool Lia.
From PV Require Import Expr.Values Expr.Syntax Expr.Sem Expr.Eval.
Import ListNotations.

Lemma inject_Z_pos_neq0 : forall d : positive, ~ inject_Z (Zpos d) == 0.
Proof. intros d H. unfold Qeq, inject_Z in H. cbn in H. lia. Qed.

Lemma q_is_zero_false : forall q, q_is_zero q = false -> (Qnum q <> 0)%Z.
Proof.
  intros q H E. unfold q_is_zero in H. assert (q == 0) as Z by (unfold Qeq; cbn; lia).
  apply Qeq_eq_bool in Z. congruence.
Qed.

Lemma q_is_zero_true : forall q, q_is_zero q = true -> (Qnum q = 0)%Z.
Proof. intros q H. apply Qeq_bool_eq in H. unfold Qeq in H. cbn in H. lia. Qed.

Lemma Qdiv_as_Z : forall p q, (Qnum q <> 0)%Z ->
  p / q == inject_Z (Qnum p * QDen q) / inject_Z (Qnum q * QDen p).
Proof.
  intros [np dp] [nq dq] H. cbn [Qnum Qden] in *.
  rewrite (Qmake_Qdiv np dp), (Qmake_Qdiv nq dq), !inject_Z_mult.
  assert (~ inject_Z nq == 0) as Hn by (intro E; unfold Qeq, inject_Z in E; cbn in E; lia).
  pose proof (inject_Z_pos_neq0 dp). pose proof (inject_Z_pos_neq0 dq).
  field. repeat split; assumption.
Qed.

Lemma Qfloor_div : forall p q, (Qnum q <> 0)%Z ->
  Qfloor (p / q) = ((Qnum p * QDen q) / (Qnum q * QDen p))%Z.
Proof. intros p q H. rewrite (Qfloor_comp _ _ (Qdiv_as_Z p q H)). symmetry. apply Zdiv_Qdiv. Qed.

(* Fraction.__mod__ is a - b * floor(a / b) *)
Lemma py_mod_correct : forall p q, (Qnum q <> 0)%Z -> py_mod p q == sem_mod p q.
Proof.
  intros p q H. unfold sem_mod. rewrite (Qfloor_div p q H). unfold py_mod.
  destruct p as [np dp], q as [nq dq]. cbn [Qnum Qden] in *.
  set (A := (np * Zpos dq)%Z). set (B := (nq * Zpos dp)%Z).
  assert (B <> 0)%Z as HB by (unfold B; lia).
  rewrite (Z.mod_eq A B HB).
  rewrite (Qmake_Qdiv (A - B * (A / B)) (dp * dq)), (Qmake_Qdiv np dp), (Qmake_Qdiv nq dq).
  rewrite Pos2Z.inj_mul. unfold Z.sub. rewrite inject_Z_plus, inject_Z_opp, !inject_Z_mult.
  unfold A at 1, B at 1. rewrite !inject_Z_mult.
  pose proof (inject_Z_pos_neq0 dp). pose proof (inject_Z_pos_neq0 dq).
  field. split; assumption.
Qed.

Lemma py_mod_qnorm : forall p q, q_is_zero q = false -> qnorm (py_mod p q) = qnorm (sem_mod p q).
Proof.
  intros p q H. unfold qnorm. f_equal. apply Qred_complete. apply py_mod_correct. apply q_is_zero_false. assumption.
Qed.

(* ---- powers ---- *)
Lemma to_pos_pow : forall (d : positive) (n : Z), (0 <= n)%Z -> Zpos (Z.to_pos (Zpos d ^ n)) = (Zpos d ^ n)%Z.
Proof. intros d n H. apply Z2Pos.id. apply Z.pow_pos_nonneg; lia. Qed.

Lemma Qpower_nonneg_decomp : forall (a : Z) (d : positive) (n : Z), (0 <= n)%Z ->
  Qpower (a # d) n == Qmake (a ^ n) (Z.to_pos (Zpos d ^ n)).
Proof.
  intros a d n H. destruct n as [|p|p]; [reflexivity| |lia].
  cbn [Qpower]. rewrite Qpower_decomp_positive. unfold Qeq. cbn [Qnum Qden].
  rewrite to_pos_pow by lia. rewrite Pos2Z.inj_pow. reflexivity.
Qed.

Lemma Qinv_unique : forall x y, x * y == 1 -> x == / y.
Proof.
  intros x y H. assert (~ y == 0) as Hy.
  { intro E. rewrite E in H. rewrite Qmult_0_r in H. discriminate H. }
  rewrite <- (Qmult_1_r x). rewrite <- (Qmult_inv_r y Hy). rewrite Qmult_assoc, H. apply Qmult_1_l.
Qed.

Lemma Qpower_neg : forall a (n : Z), (n < 0)%Z -> Qpower a n == / Qpower a (- n).
Proof. intros a n H. destruct n as [|p|p]; try lia. reflexivity. Qed.

(* Fraction.__pow__ with an integer exponent is the power; ZeroDivisionError exactly for 0 ** negative *)
Lemma py_pow_correct : forall a n,
  match py_pow_int a n with
  | Some x => x == Qpower a n /\ ~ (a == 0 /\ (n < 0)%Z)
  | None => a == 0 /\ (n < 0)%Z
  end.
Proof.
  intros a n. unfold py_pow_int.
  assert (Qpower a n == Qpower (Qred a) n) as E by (rewrite (Qred_correct a); reflexivity).
  assert (a == 0 <-> Qnum (Qred a) = 0%Z) as Z0.
  { rewrite <- (Qred_correct a) at 1. unfold Qeq. cbn. split; lia. }
  destruct (Qred a) as [m d]. cbn [Qnum Qden] in *.
  destruct (0 <=? n)%Z eqn:N0.
  - apply Z.leb_le in N0. split; [|intros [_ X]; lia]. rewrite E. symmetry. apply Qpower_nonneg_decomp. assumption.
  - apply Z.leb_gt in N0. destruct (0 <? m)%Z eqn:M0.
    + apply Z.ltb_lt in M0. split; [|intros [X _]; apply Z0 in X; lia].
      rewrite E, (Qpower_neg _ n N0). apply Qinv_unique.
      rewrite (Qpower_nonneg_decomp m d (- n)) by lia.
      assert (0 < m ^ (- n))%Z by (apply Z.pow_pos_nonneg; lia).
      unfold Qeq, Qmult. cbn [Qnum Qden]. rewrite !Pos2Z.inj_mul, to_pos_pow by lia.
      rewrite Z2Pos.id by assumption. ring.
    + apply Z.ltb_ge in M0. destruct (m =? 0)%Z eqn:M1.
      * apply Z.eqb_eq in M1. split; [apply Z0; assumption|assumption].
      * apply Z.eqb_neq in M1. split; [|intros [X _]; apply Z0 in X; lia].
        rewrite E, (Qpower_neg _ n N0). apply Qinv_unique.
        rewrite (Qpower_nonneg_decomp m d (- n)) by lia.
        assert (0 < (- m) ^ (- n))%Z by (apply Z.pow_pos_nonneg; lia).
        unfold Qeq, Qmult. cbn [Qnum Qden]. rewrite !Pos2Z.inj_mul, to_pos_pow by lia.
        rewrite Z2Pos.id by assumption.
        rewrite Z.mul_1_l, Z.mul_1_r, <- !Z.pow_mul_l. f_equal. ring.
Qed.

Lemma py_pow_sem : forall p q, is_int q = true ->
  match py_pow_int p (qnum q) with Some x => Ok (qnorm x) | None => Rej end = sem_pow p q.
Proof.
  intros p q Hq. unfold sem_pow. rewrite Hq. pose proof (py_pow_correct p (qnum q)) as H.
  destruct (py_pow_int p (qnum q)) as [x|].
  - destruct H as [Hx Hn]. destruct (q_is_zero p && (qnum q <? 0)%Z) eqn:Zc.
    + exfalso. apply andb_true_iff in Zc. destruct Zc as [Z1 Z2]. apply Hn. split.
      * apply Qeq_bool_eq. exact Z1.
      * apply Z.ltb_lt. exact Z2.
    + unfold qnorm. do 2 f_equal. apply Qred_complete. exact Hx.
  - destruct H as [H1 H2]. unfold q_is_zero. rewrite (Qeq_eq_bool _ _ H1). apply Z.ltb_lt in H2. rewrite H2. reflexivity.
Qed.
