(* Values of DSDL constant expressions (pydsdl/_expression): rational, boolean, string, set.
   Definitions only.  Rationals are stdlib Q (kept reduced with Qred by every producer); strings are lists of Unicode
   code points; a set is a duplicate-free list of values of one kind, compared as a set (order irrelevant). *)
From Coq Require Import ZArith QArith List Bool.
Import ListNotations.

Inductive value :=
| VRat (q : Q)
| VBool (b : bool)
| VStr (s : list Z)
| VSet (els : list value).

(* the Python class of a value: what Set.__init__ compares for homogeneity and what _auto_swap compares *)
Inductive kind := KRat | KBool | KStr | KSet.

Definition kind_of (v : value) : kind :=
  match v with VRat _ => KRat | VBool _ => KBool | VStr _ => KStr | VSet _ => KSet end.

Definition kind_eqb (a b : kind) : bool :=
  match a, b with KRat, KRat | KBool, KBool | KStr, KStr | KSet, KSet => true | _, _ => false end.

Fixpoint zlist_eqb (a b : list Z) : bool :=
  match a, b with
  | [], [] => true
  | x :: r, y :: s => Z.eqb x y && zlist_eqb r s
  | _, _ => false
  end.

(* __eq__ of the value classes: Fraction equality, bool equality, str equality (raw code points), frozenset equality *)
Fixpoint value_eqb (a b : value) : bool :=
  match a, b with
  | VRat p, VRat q => Qeq_bool p q
  | VBool x, VBool y => Bool.eqb x y
  | VStr s, VStr t => zlist_eqb s t
  | VSet l, VSet m =>
      forallb (fun x => existsb (fun y => value_eqb x y) m) l
      && forallb (fun y => existsb (fun x => value_eqb x y) l) m
  | _, _ => false
  end.

Definition vmem (x : value) (l : list value) : bool := existsb (value_eqb x) l.

Fixpoint vdedup (l : list value) : list value :=
  match l with
  | [] => []
  | x :: r => if vmem x r then vdedup r else x :: vdedup r
  end.

Definition vsubset (a b : list value) : bool := forallb (fun x => vmem x b) a.
Definition vseteq (a b : list value) : bool := vsubset a b && vsubset b a.
Definition vunion (a b : list value) : list value := vdedup (a ++ b).
Definition vinter (a b : list value) : list value := filter (fun x => vmem x b) a.
Definition vsymdiff (a b : list value) : list value :=
  filter (fun x => negb (vmem x b)) a ++ filter (fun x => negb (vmem x a)) b.

(* all elements have the kind of the first one *)
Definition homogeneous (l : list value) : bool :=
  match l with
  | [] => true
  | x :: r => forallb (fun y => kind_eqb (kind_of x) (kind_of y)) r
  end.

Definition elem_kind (l : list value) : option kind :=
  match l with [] => None | x :: _ => Some (kind_of x) end.

Definition is_int (q : Q) : bool := (Zpos (Qden (Qred q)) =? 1)%Z.
Definition qnum (q : Q) : Z := Qnum (Qred q).
Definition qint (z : Z) : value := VRat (inject_Z z).
