(* C04 - the rendered tokens derive, by the grammar's own rules, exactly the tree that is evaluated *)
From Coq Require Import ZArith List Bool Arith Lia.
From PV Require Import Expr.Values Expr.Syntax Expr.Literals Expr.Sem Expr.Eval Expr.Grammar Expr.ProofsEval.
Import ListNotations.
Open Scope nat_scope.

Lemma derives_le9 : forall L ts e, Derives L ts e -> L <= 9.
Proof. intros L ts e H. induction H; lia. Qed.

Lemma derives_mono : forall L ts e, Derives L ts e -> forall k, k <= L -> Derives (L - k) ts e.
Proof.
  intros L ts e H k. pose proof (derives_le9 _ _ _ H) as H9. induction k as [|k IH]; intros Hk.
  - rewrite Nat.sub_0_r. assumption.
  - replace (L - S k) with (L - k - 1) by lia. assert (Derives (L - k) ts e) as D by (apply IH; lia).
    apply D_down; [lia|]. replace (S (L - k - 1)) with (L - k) by lia. exact D.
Qed.

Lemma derives_weaken : forall L L' ts e, Derives L ts e -> L' <= L -> Derives L' ts e.
Proof. intros L L' ts e H Hle. replace L' with (L - (L - L')) by lia. apply derives_mono; [assumption|lia]. Qed.

Lemma level_le9 : forall e, level e <= 9.
Proof. destruct e; cbn; try lia. - destruct o; lia. - destruct o; cbn; lia. Qed.

(* an operand placed under a rule of level L *)
Lemma wrap_derives : forall L x, L <= 9 -> Derives (level x) (render x) x -> Derives L (render (wrap L x)) (wrap L x).
Proof.
  intros L x HL H. unfold wrap. destruct (L <=? level x) eqn:E.
  - apply Nat.leb_le in E. eapply derives_weaken; eassumption.
  - cbn [render]. apply (derives_weaken 9); [|assumption]. apply D_par. eapply derives_weaken; [eassumption|lia].
Qed.

Lemma level_parenthesize : forall e, level (parenthesize e) = level e.
Proof. destruct e; try reflexivity. - destruct o; reflexivity. - destruct o; reflexivity. Qed.

Lemma derives_list : forall es,
  Forall (fun e => Derives (level (parenthesize e)) (render (parenthesize e)) (parenthesize e)) es ->
  DerivesList (map render (map parenthesize es)) (map parenthesize es).
Proof.
  intros es H. induction H as [|e r He Hr IH]; cbn; [constructor|].
  constructor; [|exact IH]. eapply derives_weaken; [exact He|lia].
Qed.

(* the core: the rendering of the parenthesised tree is derivable, at the level of its root, to that tree *)
Lemma render_derives : forall e, Derives (level (parenthesize e)) (render (parenthesize e)) (parenthesize e).
Proof.
  induction e using expr_ind'.
  - apply D_lit.
  - apply D_ident.
  - cbn [parenthesize level render]. apply D_set. apply derives_list. assumption.
  - destruct o; cbn [parenthesize level render].
    + apply D_not. apply wrap_derives; [lia|assumption].
    + apply D_pos. apply wrap_derives; [lia|assumption].
    + apply D_neg. apply wrap_derives; [lia|assumption].
  - destruct o; cbn [parenthesize level render oplevel];
      try (apply D_chain; [reflexivity|reflexivity|apply wrap_derives; [lia|assumption]|apply wrap_derives; [lia|assumption]]).
    apply D_pow; apply wrap_derives; try lia; assumption.
  - cbn [parenthesize level render]. apply D_attr. apply wrap_derives; [lia|assumption].
  - cbn [parenthesize level render]. apply D_par. eapply derives_weaken; [eassumption|lia].
Qed.

(* C04_precedence, part 1 *)
Theorem render_min_derives : forall e, Derives 0 (render_min e) (parenthesize e).
Proof. intros e. unfold render_min. eapply derives_weaken; [apply render_derives|lia]. Qed.

(* ---- parentheses change nothing but grouping ---- *)
Lemma strip_wrap : forall L x, strip (wrap L x) = strip x.
Proof. intros L x. unfold wrap. destruct (L <=? level x); reflexivity. Qed.

Lemma map_map_ext_Forall : forall (A : Type) (f g : A -> A) l, Forall (fun x => f (g x) = f x) l -> map f (map g l) = map f l.
Proof. intros A f g l H. induction H; cbn; [reflexivity|]. rewrite H, IHForall. reflexivity. Qed.

Theorem strip_parenthesize : forall e, strip (parenthesize e) = strip e.
Proof.
  induction e using expr_ind'; try reflexivity.
  - cbn [parenthesize strip]. f_equal. apply map_map_ext_Forall. assumption.
  - destruct o; cbn [parenthesize strip]; rewrite strip_wrap, IHe; reflexivity.
  - destruct o; cbn [parenthesize strip]; rewrite !strip_wrap, IHe1, IHe2; reflexivity.
  - cbn [parenthesize strip]. rewrite strip_wrap, IHe. reflexivity.
  - cbn [parenthesize strip]. exact IHe.
Qed.

Theorem eval_strip : forall bin g e, eval_with bin g (strip e) = eval_with bin g e.
Proof.
  intros bin g. induction e using expr_ind'; try reflexivity.
  - cbn [strip eval_with]. f_equal. rewrite map_map. apply map_ext_Forall. assumption.
  - cbn [strip eval_with]. rewrite IHe. reflexivity.
  - cbn [strip eval_with]. rewrite IHe1, IHe2. reflexivity.
  - cbn [strip eval_with]. rewrite IHe. reflexivity.
  - cbn [strip eval_with]. exact IHe.
Qed.

Theorem eval_parenthesize : forall g e, eval g (parenthesize e) = eval g e.
Proof.
  intros g e. unfold eval. rewrite <- (eval_strip disp g (parenthesize e)), strip_parenthesize. apply eval_strip.
Qed.

(* ---- the classical precedence probes, as derivations of concrete token lists ---- *)
Definition n1 := ELit (LInt [49%Z]).
Definition n2 := ELit (LInt [50%Z]).
Definition n3 := ELit (LInt [51%Z]).
Definition t1 := TLit (LInt [49%Z]).
Definition t2 := TLit (LInt [50%Z]).
Definition t3 := TLit (LInt [51%Z]).
Definition bt := ELit (LBool true).
Definition bf := ELit (LBool false).

Lemma probe_sub_left : Derives 0 [t1; TSym (SBin BSub); t2; TSym (SBin BSub); t3] (EBin BSub (EBin BSub n1 n2) n3).
Proof. exact (render_min_derives (EBin BSub (EBin BSub n1 n2) n3)). Qed.

Lemma probe_sub_right_needs_parens :
  render_min (EBin BSub n1 (EBin BSub n2 n3)) = [t1; TSym (SBin BSub); TSym SLPar; t2; TSym (SBin BSub); t3; TSym SRPar].
Proof. reflexivity. Qed.

Lemma probe_pow_right : Derives 0 [t1; TSym (SBin BPow); t2; TSym (SBin BPow); t3] (EBin BPow n1 (EBin BPow n2 n3)).
Proof. exact (render_min_derives (EBin BPow n1 (EBin BPow n2 n3))). Qed.

Lemma probe_neg_pow : Derives 0 [TSym (SBin BSub); t1; TSym (SBin BPow); t2] (EUn UNeg (EBin BPow n1 n2)).
Proof. exact (render_min_derives (EUn UNeg (EBin BPow n1 n2))). Qed.

Lemma probe_pow_neg : Derives 0 [t1; TSym (SBin BPow); TSym (SBin BSub); t2] (EBin BPow n1 (EUn UNeg n2)).
Proof. exact (render_min_derives (EBin BPow n1 (EUn UNeg n2))). Qed.

Lemma probe_or_and_one_level :
  Derives 0 [TLit (LBool true); TSym (SBin BOr); TLit (LBool false); TSym (SBin BAnd); TLit (LBool false)]
            (EBin BAnd (EBin BOr bt bf) bf).
Proof. exact (render_min_derives (EBin BAnd (EBin BOr bt bf) bf)). Qed.

Lemma probe_mul_over_add : Derives 0 [t1; TSym (SBin BAdd); t2; TSym (SBin BMul); t3] (EBin BAdd n1 (EBin BMul n2 n3)).
Proof. exact (render_min_derives (EBin BAdd n1 (EBin BMul n2 n3))). Qed.

Lemma probe_not_over_cmp :
  Derives 0 [TSym SBang; TLit (LBool true); TSym (SBin BEq); TLit (LBool false)] (EUn UNot (EBin BEq bt bf)).
Proof. exact (render_min_derives (EUn UNot (EBin BEq bt bf))). Qed.
