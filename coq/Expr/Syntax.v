(* Abstract syntax of DSDL constant expressions and the token alphabet of grammar.parsimonious (Expressions and
   Literals sections).  Definitions only.  Texts are lists of Unicode code points. *)
From Coq Require Import ZArith List Bool.
Import ListNotations.

(* a literal keeps its source text: decoding is part of what is modelled (Expr/Literals.v) *)
Inductive lit :=
| LInt (text : list Z)        (* literal_integer: binary / octal / hexadecimal / decimal, with digit separators *)
| LReal (text : list Z)       (* literal_real: point or exponent notation *)
| LStr (text : list Z)        (* literal_string including its quotes *)
| LBool (b : bool).           (* true / false *)

Inductive unop := UNot | UPos | UNeg.

Inductive binop :=
| BOr | BAnd                                   (* op2_log:  ||  && *)
| BEq | BNe | BLe | BGe | BLt | BGt            (* op2_cmp:  ==  !=  <=  >=  <  > *)
| BBor | BXor | BBand                          (* op2_bit:  |  ^  & *)
| BAdd | BSub                                  (* op2_add:  +  - *)
| BMul | BDiv | BMod                           (* op2_mul:  *  /  % *)
| BPow.                                        (* op2_exp:  ** *)

Inductive expr :=
| ELit (l : lit)
| EIdent (name : list Z)                       (* identifier atom: a constant of the current schema *)
| ESet (es : list expr)                        (* literal_set *)
| EUn (o : unop) (e : expr)
| EBin (o : binop) (a b : expr)
| EAttr (e : expr) (name : list Z)             (* ex_attribute: e . name *)
| EPar (e : expr).                             (* expression_parenthesized *)

(* symbols (everything that is not a literal or an identifier) *)
Inductive sym :=
| SBin (o : binop)                             (* "+" and "-" also serve as the unary forms *)
| SBang | SDot | SLPar | SRPar | SLBrace | SRBrace | SComma.

Inductive token := TLit (l : lit) | TSym (s : sym) | TId (name : list Z).

Definition unop_eqb (a b : unop) : bool :=
  match a, b with UNot, UNot | UPos, UPos | UNeg, UNeg => true | _, _ => false end.

Definition binop_idx (o : binop) : Z :=
  match o with
  | BOr => 0 | BAnd => 1 | BEq => 2 | BNe => 3 | BLe => 4 | BGe => 5 | BLt => 6 | BGt => 7 | BBor => 8 | BXor => 9
  | BBand => 10 | BAdd => 11 | BSub => 12 | BMul => 13 | BDiv => 14 | BMod => 15 | BPow => 16
  end%Z.
Definition binop_eqb (a b : binop) : bool := Z.eqb (binop_idx a) (binop_idx b).

Fixpoint text_eqb (a b : list Z) : bool :=
  match a, b with
  | [], [] => true
  | x :: r, y :: s => Z.eqb x y && text_eqb r s
  | _, _ => false
  end.

Definition lit_eqb (a b : lit) : bool :=
  match a, b with
  | LInt s, LInt t | LReal s, LReal t | LStr s, LStr t => text_eqb s t
  | LBool x, LBool y => Bool.eqb x y
  | _, _ => false
  end.

Definition sym_eqb (a b : sym) : bool :=
  match a, b with
  | SBin o, SBin p => binop_eqb o p
  | SBang, SBang | SDot, SDot | SLPar, SLPar | SRPar, SRPar | SLBrace, SLBrace | SRBrace, SRBrace | SComma, SComma => true
  | _, _ => false
  end.

Definition token_eqb (a b : token) : bool :=
  match a, b with
  | TLit l, TLit m => lit_eqb l m
  | TSym s, TSym t => sym_eqb s t
  | TId s, TId t => text_eqb s t
  | _, _ => false
  end.

Fixpoint tokens_eqb (a b : list token) : bool :=
  match a, b with
  | [], [] => true
  | x :: r, y :: s => token_eqb x y && tokens_eqb r s
  | _, _ => false
  end.
