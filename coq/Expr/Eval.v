(* C04 - the mechanism pydsdl uses to evaluate operators (pydsdl/_expression): per-class methods (_add, _add_right,
   ...), the _auto_swap wrapper of _operator.py (try the direct method of the left operand; on UndefinedOperatorError
   and different operand classes call the alternative method of the right operand with swapped arguments),
   not_equal as !equal, Set._elementwise(swap), Python's Fraction arithmetic.  Definitions only. *)
From Coq Require Import ZArith QArith List Bool.
From PV Require Import Expr.Values Expr.Syntax Expr.Literals Expr.Sem.
Import ListNotations.

(* what a method returns / raises *)
Inductive dres :=
| DOk (v : value)
| DUndef           (* UndefinedOperatorError: the only exception _auto_swap reacts to *)
| DInvalid         (* any other InvalidOperandError *)
| DUnspec.         (* float path of Fraction.__pow__ *)

Definition to_res (d : dres) : res :=
  match d with DOk v => Ok v | DUnspec => Unspec | DUndef | DInvalid => Rej end.

(* ---- fractions.Fraction ---- *)
(* Fraction.__mod__: Fraction((na * db) % (nb * da), da * db); int % follows the sign of the divisor like Z.modulo *)
Definition py_mod (a b : Q) : Q :=
  Qmake ((Qnum a * QDen b) mod (Qnum b * QDen a))%Z (Qden a * Qden b).

(* Fraction.__pow__ for an exponent with denominator 1; None = ZeroDivisionError *)
Definition py_pow_int (a : Q) (n : Z) : option Q :=
  let a := Qred a in
  if (0 <=? n)%Z then Some (Qmake (Qnum a ^ n) (Z.to_pos (QDen a ^ n)))
  else if (0 <? Qnum a)%Z then Some (Qmake (QDen a ^ (- n)) (Z.to_pos (Qnum a ^ (- n))))
  else if (Qnum a =? 0)%Z then None
  else Some (Qmake ((- QDen a) ^ (- n)) (Z.to_pos ((- Qnum a) ^ (- n)))).

(* ---- class Rational ---- *)
Definition rat_compare (impl : Q -> Q -> bool) (p : Q) (r : value) : dres :=
  match r with VRat q => DOk (VBool (impl p q)) | _ => DUndef end.

(* _generic_bitwise: as_native_integer() of both operands raises InvalidOperandError for non-integers *)
Definition rat_bitwise (impl : Z -> Z -> Z) (p : Q) (r : value) : dres :=
  match r with
  | VRat q => if is_int p then (if is_int q then DOk (qint (impl (qnum p) (qnum q))) else DInvalid) else DInvalid
  | _ => DUndef
  end.

(* _generic_arithmetic: ZeroDivisionError / OverflowError / ValueError / complex -> InvalidOperandError *)
Definition rat_arith (impl : Q -> Q -> dres) (p : Q) (r : value) : dres :=
  match r with VRat q => impl p q | _ => DUndef end.

Definition meth_rat (o : binop) (p : Q) (r : value) : dres :=
  match o with
  | BOr | BAnd | BNe => DUndef
  | BEq => rat_compare Qeq_bool p r
  | BLe => rat_compare Qle_bool p r
  | BGe => rat_compare (fun a b => Qle_bool b a) p r
  | BLt => rat_compare (fun a b => negb (Qle_bool b a)) p r
  | BGt => rat_compare (fun a b => negb (Qle_bool a b)) p r
  | BBor => rat_bitwise Z.lor p r
  | BXor => rat_bitwise Z.lxor p r
  | BBand => rat_bitwise Z.land p r
  | BAdd => rat_arith (fun a b => DOk (qnorm (Qplus a b))) p r
  | BSub => rat_arith (fun a b => DOk (qnorm (Qminus a b))) p r
  | BMul => rat_arith (fun a b => DOk (qnorm (Qmult a b))) p r
  | BDiv => rat_arith (fun a b => if q_is_zero b then DInvalid else DOk (qnorm (Qdiv a b))) p r
  | BMod => rat_arith (fun a b => if q_is_zero b then DInvalid else DOk (qnorm (py_mod a b))) p r
  | BPow => rat_arith (fun a b => if is_int b then match py_pow_int a (qnum b) with
                                                   | Some x => DOk (qnorm x)
                                                   | None => DInvalid
                                                   end
                                  else DUnspec) p r
  end.

(* ---- class Boolean ---- *)
Definition meth_bool (o : binop) (x : bool) (r : value) : dres :=
  match o, r with
  | BOr, VBool y => DOk (VBool (x || y))
  | BAnd, VBool y => DOk (VBool (x && y))
  | BEq, VBool y => DOk (VBool (Bool.eqb x y))
  | _, _ => DUndef
  end.

(* ---- class String ---- *)
Definition meth_str (o : binop) (s : list Z) (r : value) : dres :=
  match o, r with
  | BAdd, VStr t => DOk (VStr (s ++ t))
  | BEq, VStr t => DOk (VBool (str_eqb s t))       (* unicodedata.normalize("NFC", .) on both sides *)
  | _, _ => DUndef
  end.

(* the direct method _<o> of a non-set left operand *)
Definition meth_scalar (o : binop) (a r : value) : dres :=
  match a with
  | VRat p => meth_rat o p r
  | VBool x => meth_bool o x r
  | VStr s => meth_str o s r
  | VSet _ => DUndef
  end.

(* ---- class Set: comparison and algebra (right operand a Set; otherwise UndefinedOperatorError) ---- *)
Definition of_res (r : res) : dres := match r with Ok v => DOk v | Rej => DInvalid | Unspec => DUnspec end.

(* homotypic_binary_operator: InvalidOperandError when the element types differ *)
Definition homotypic (la lb : list value) (f : dres) : dres :=
  if opt_kind_eqb (elem_kind la) (elem_kind lb) then f else DInvalid.

Definition meth_set (o : binop) (la : list value) (r : value) : dres :=
  match r with
  | VSet lb =>
      match o with
      | BEq => homotypic la lb (DOk (VBool (vseteq la lb)))
      | BLe => homotypic la lb (DOk (VBool (vsubset la lb)))
      | BGe => homotypic la lb (DOk (VBool (vsubset lb la)))
      | BLt => homotypic la lb (DOk (VBool (vsubset la lb && negb (vseteq la lb))))
      | BGt => homotypic la lb (DOk (VBool (vsubset lb la && negb (vseteq lb la))))
      | BBor => homotypic la lb (of_res (mkset (vunion la lb)))
      | BXor => homotypic la lb (of_res (mkset (vsymdiff la lb)))
      | BBand => homotypic la lb (of_res (mkset (vinter la lb)))
      | _ => DUndef                      (* _elementwise with a Set on the other side; logical operators *)
      end
  | _ => DUndef                          (* for arithmetic operators the element-wise path below applies instead *)
  end.

(* ---- _auto_swap ---- *)
Inductive altm := AltSame (o : binop) | AltRight.

(* the alternative method named in the decorator; default "_<name>_right" *)
Definition alt_of (o : binop) : altm :=
  match o with
  | BOr => AltSame BOr | BAnd => AltSame BAnd | BEq => AltSame BEq
  | BLe => AltSame BGe | BGe => AltSame BLe | BLt => AltSame BGt | BGt => AltSame BLt
  | _ => AltRight
  end.

(* wrapper(left, right) for two operands that are not sets; no class but Set defines a _<name>_right method *)
Definition swap_scalar (o : binop) (l r : value) : res :=
  match meth_scalar o l r with
  | DUndef =>
      if kind_eqb (kind_of l) (kind_of r) then Rej
      else match alt_of o with
           | AltSame o' => to_res (meth_scalar o' r l)
           | AltRight => Rej
           end
  | d => to_res d
  end.

(* Set._<o>(right) for an arithmetic o and a right operand that is not a Set: Set(dispatch(x, right) for x in self);
   the dispatcher applied to an element that is itself a set lands here again *)
Fixpoint ew_l (o : binop) (r : value) (x : value) : res :=
  match x with
  | VSet l => set_of (map (ew_l o r) l)
  | _ => swap_scalar o x r
  end.

(* Set._<o>_right(left), swap=True: Set(dispatch(left, x) for x in self); for an element that is a set the direct
   method of the scalar left operand is undefined, the classes differ, and the element's _<o>_right is called *)
Fixpoint ew_r (o : binop) (l : value) (x : value) : res :=
  match x with
  | VSet els => set_of (map (ew_r o l) els)
  | _ => swap_scalar o l x
  end.

(* the decorated operator functions of _operator.py except not_equal *)
Definition disp1 (o : binop) (l r : value) : res :=
  match l, r with
  | VSet la, VSet _ =>
      match meth_set o la r with
      | DUndef => Rej                                         (* same class: re-raised *)
      | d => to_res d
      end
  | VSet la, _ =>
      if is_arith o then ew_l o r l
      else match meth_set o la r with
           | DUndef => match alt_of o with
                       | AltSame o' => to_res (meth_scalar o' r l)
                       | AltRight => Rej                      (* e.g. Rational has no _bitwise_or_right *)
                       end
           | d => to_res d
           end
  | _, VSet lb =>
      match meth_scalar o l r with
      | DUndef => match alt_of o with
                  | AltSame o' => to_res (meth_set o' lb l)
                  | AltRight => if is_arith o then ew_r o l r else Rej
                  end
      | d => to_res d
      end
  | _, _ => swap_scalar o l r
  end.

(* not_equal(l, r) = logical_not(equal(l, r)) *)
Definition disp (o : binop) (l r : value) : res :=
  match o with
  | BNe => match disp1 BEq l r with
           | Ok (VBool b) => Ok (VBool (negb b))
           | Ok _ => Rej
           | x => x
           end
  | _ => disp1 o l r
  end.

(* what the implementation computes *)
Definition eval (g : env) (e : expr) : res := eval_with disp g e.
