(* C04 - exactly the operand combinations the Specification leaves undefined are rejected *)
From Coq Require Import ZArith QArith List Bool Lia.
From PV Require Import Expr.Values Expr.Syntax Expr.Literals Expr.Sem Expr.Spec.
Import ListNotations.

Lemma q_zero_iff : forall q, q_is_zero q = true <-> q == 0.
Proof. intros q. unfold q_is_zero. apply Qeq_bool_iff. Qed.

Lemma sem_pow_rej : forall p q, sem_pow p q = Rej <-> (p == 0 /\ is_int q = true /\ (qnum q < 0)%Z).
Proof.
  intros p q. unfold sem_pow. destruct (is_int q) eqn:I.
  - destruct (q_is_zero p) eqn:Z; cbn [andb].
    + destruct (qnum q <? 0)%Z eqn:N.
      * split; [intros _|reflexivity]. split; [apply q_zero_iff; assumption|]. split; [reflexivity|apply Z.ltb_lt; assumption].
      * split; [discriminate|]. intros [_ [_ H]]. apply Z.ltb_ge in N. lia.
    + split; [discriminate|]. intros [H _]. apply q_zero_iff in H. congruence.
  - split; [discriminate|]. intros [_ [H _]]. discriminate.
Qed.

Lemma defined_not_rej : forall o a b, Defined o a b -> sem_scalar o a b <> Rej.
Proof.
  intros o a b H. destruct H; cbn [sem_scalar].
  - destruct o; try discriminate; discriminate.
  - destruct o; try discriminate; discriminate.
  - destruct o; try discriminate; discriminate.
  - destruct o; try discriminate; discriminate.
  - destruct o; try discriminate; discriminate.
  - destruct o; try discriminate; rewrite H0, H1; discriminate.
  - discriminate.
  - discriminate.
  - discriminate.
  - discriminate.
  - destruct (q_is_zero q) eqn:Z; [apply q_zero_iff in Z; contradiction|discriminate].
  - destruct (q_is_zero q) eqn:Z; [apply q_zero_iff in Z; contradiction|discriminate].
  - intros E. apply sem_pow_rej in E. contradiction.
Qed.

Lemma not_rej_defined : forall o a b, is_set a = false -> is_set b = false -> sem_scalar o a b <> Rej -> Defined o a b.
Proof.
  intros o a b Ha Hb H.
  destruct a as [p|x|s|la]; try discriminate; destruct b as [q|y|t|lb]; try discriminate; cbn [sem_scalar] in H;
    try (exfalso; apply H; reflexivity).
  - destruct o; try (exfalso; apply H; reflexivity).
    + apply Def_eq_rat; reflexivity.
    + apply Def_eq_rat; reflexivity.
    + apply Def_ord; reflexivity.
    + apply Def_ord; reflexivity.
    + apply Def_ord; reflexivity.
    + apply Def_ord; reflexivity.
    + destruct (is_int p) eqn:I1; destruct (is_int q) eqn:I2; cbn [andb] in H; try (exfalso; apply H; reflexivity). apply Def_bit; auto.
    + destruct (is_int p) eqn:I1; destruct (is_int q) eqn:I2; cbn [andb] in H; try (exfalso; apply H; reflexivity). apply Def_bit; auto.
    + destruct (is_int p) eqn:I1; destruct (is_int q) eqn:I2; cbn [andb] in H; try (exfalso; apply H; reflexivity). apply Def_bit; auto.
    + apply Def_add.
    + apply Def_sub.
    + apply Def_mul.
    + destruct (q_is_zero q) eqn:Z; [exfalso; apply H; reflexivity|]. apply Def_div. intros E. apply q_zero_iff in E. congruence.
    + destruct (q_is_zero q) eqn:Z; [exfalso; apply H; reflexivity|]. apply Def_mod. intros E. apply q_zero_iff in E. congruence.
    + apply Def_pow. intros E. apply H. apply sem_pow_rej. assumption.
  - destruct o; try (exfalso; apply H; reflexivity).
    + apply Def_logic; reflexivity.
    + apply Def_logic; reflexivity.
    + apply Def_eq_bool; reflexivity.
    + apply Def_eq_bool; reflexivity.
  - destruct o; try (exfalso; apply H; reflexivity).
    + apply Def_eq_str; reflexivity.
    + apply Def_eq_str; reflexivity.
    + apply Def_concat.
Qed.

(* C04_rejects, scalar operands: rejected iff outside the table *)
Theorem scalar_rejects : forall o a b, is_set a = false -> is_set b = false ->
  (sem_scalar o a b = Rej <-> ~ Defined o a b).
Proof.
  intros o a b Ha Hb. split.
  - intros E D. apply (defined_not_rej _ _ _ D E).
  - intros N. destruct (sem_scalar o a b) eqn:E; try reflexivity; exfalso; apply N; apply not_rej_defined; auto; rewrite E; discriminate.
Qed.

(* sets *)
Lemma mkset_rej : forall l, mkset l = Rej <-> l = [] \/ homogeneous l = false.
Proof.
  intros l. unfold mkset. destruct l as [|x r]; [tauto|].
  destruct (homogeneous (x :: r)); split; try discriminate; try tauto.
  intros [H|H]; discriminate.
Qed.

Lemma forallb_filter : forall (A : Type) (p f : A -> bool) l, forallb p l = true -> forallb p (filter f l) = true.
Proof.
  intros A p f l. induction l as [|x r IH]; cbn; [reflexivity|]. intros H. apply andb_true_iff in H. destruct H as [H1 H2].
  destruct (f x); cbn; [rewrite H1, IH by assumption; reflexivity|apply IH; assumption].
Qed.

Lemma kind_eqb_refl : forall k, kind_eqb k k = true.
Proof. destruct k; reflexivity. Qed.

Lemma kind_eqb_eq : forall a b, kind_eqb a b = true -> a = b.
Proof. destruct a, b; try discriminate; reflexivity. Qed.

Definition all_kind (k : kind) (l : list value) : bool := forallb (fun y => kind_eqb k (kind_of y)) l.

Lemma homogeneous_all_kind : forall x r, homogeneous (x :: r) = true -> all_kind (kind_of x) (x :: r) = true.
Proof. intros x r H. cbn. rewrite kind_eqb_refl. exact H. Qed.

Lemma all_kind_homogeneous : forall k l, all_kind k l = true -> homogeneous l = true.
Proof.
  intros k l H. destruct l as [|x r]; [reflexivity|]. cbn in *. apply andb_true_iff in H. destruct H as [H1 H2].
  apply kind_eqb_eq in H1. subst. exact H2.
Qed.

Lemma all_kind_filter : forall k f l, all_kind k l = true -> all_kind k (filter f l) = true.
Proof. intros. apply forallb_filter. assumption. Qed.

Lemma all_kind_app : forall k a b, all_kind k a = true -> all_kind k b = true -> all_kind k (a ++ b) = true.
Proof. intros k a b Ha Hb. unfold all_kind in *. rewrite forallb_app, Ha, Hb. reflexivity. Qed.

Lemma all_kind_dedup : forall k l, all_kind k l = true -> all_kind k (vdedup l) = true.
Proof.
  intros k l. induction l as [|x r IH]; cbn; [reflexivity|]. intros H. apply andb_true_iff in H. destruct H as [H1 H2].
  destruct (vmem x r); [apply IH; assumption|]. cbn. rewrite H1. cbn. apply IH. assumption.
Qed.

Lemma vdedup_nonempty : forall l, l <> [] -> vdedup l <> [].
Proof.
  induction l as [|x r IH]; [congruence|]. intros _. cbn. destruct (vmem x r) eqn:M; [|discriminate].
  apply IH. intros E. subst. discriminate.
Qed.

(* two sets: comparison and algebra are defined exactly for equal element kinds; the algebraic results must be non-empty *)
Theorem setset_rejects : forall o la lb, wf_set la -> wf_set lb ->
  (sem_setset o la lb = Rej <->
   is_setop o = false \/ opt_kind_eqb (elem_kind la) (elem_kind lb) = false
   \/ (o = BBand /\ vinter la lb = []) \/ (o = BXor /\ vsymdiff la lb = [])).
Proof.
  intros o la lb [Na Ha] [Nb Hb]. unfold sem_setset.
  destruct la as [|xa ra]; [congruence|]. destruct lb as [|xb rb]; [congruence|].
  destruct (opt_kind_eqb (elem_kind (xa :: ra)) (elem_kind (xb :: rb))) eqn:K; cbn [negb].
  2: { destruct o; cbn; split; intros; auto. }
  cbn in K. apply kind_eqb_eq in K.
  pose proof (homogeneous_all_kind _ _ Ha) as Aa. pose proof (homogeneous_all_kind _ _ Hb) as Ab. rewrite <- K in Ab.
  destruct o; cbn [is_setop is_eqop is_ordop is_bitop orb];
    try (split; [discriminate|intros [H|[H|[[H _]|[H _]]]]; discriminate]);
    try (split; [auto|reflexivity]).
  - (* union: never rejected *)
    split; [|intros [H|[H|[[H _]|[H _]]]]; discriminate].
    intros E. apply mkset_rej in E. exfalso. destruct E as [E|E].
    + unfold vunion in E. apply (vdedup_nonempty ((xa :: ra) ++ xb :: rb)); [discriminate|assumption].
    + assert (homogeneous (vunion (xa :: ra) (xb :: rb)) = true); [|congruence].
      apply (all_kind_homogeneous (kind_of xa)). apply all_kind_dedup. apply all_kind_app; assumption.
  - (* symmetric difference *)
    split.
    + intros E. apply mkset_rej in E. destruct E as [E|E]; [right; right; right; split; [reflexivity|assumption]|].
      exfalso. assert (homogeneous (vsymdiff (xa :: ra) (xb :: rb)) = true); [|congruence].
      apply (all_kind_homogeneous (kind_of xa)). unfold vsymdiff. apply all_kind_app; apply all_kind_filter; assumption.
    + intros [H|[H|[[H _]|[_ H]]]]; try discriminate. apply mkset_rej. left. assumption.
  - (* intersection *)
    split.
    + intros E. apply mkset_rej in E. destruct E as [E|E]; [right; right; left; split; [reflexivity|assumption]|].
      exfalso. assert (homogeneous (vinter (xa :: ra) (xb :: rb)) = true); [|congruence].
      apply (all_kind_homogeneous (kind_of xa)). unfold vinter. apply all_kind_filter; assumption.
    + intros [H|[H|[[_ H]|[H _]]]]; try discriminate. apply mkset_rej. left. assumption.
Qed.

(* a set and a scalar: only the arithmetic operators, applied element by element *)
Theorem setscalar : forall o l b, is_set b = false ->
  sem_bin o (VSet l) b = (if is_arith o then set_of (map (fun x => lift_l o b x) l) else Rej)
  /\ sem_bin o b (VSet l) = (if is_arith o then set_of (map (fun x => lift_r o b x) l) else Rej).
Proof. intros o l b Hb. destruct b; try discriminate; split; reflexivity. Qed.

Lemma collect_rej : forall rs, collect rs = LRej <-> In Rej rs.
Proof.
  induction rs as [|r rest IH]; cbn; [split; [discriminate|tauto]|].
  destruct r; destruct (collect rest) eqn:C; split; intros H; try discriminate; try tauto; try reflexivity.
  all: try (right; apply IH; reflexivity).
  all: try (destruct H as [H|H]; [discriminate|apply IH in H; discriminate]).
Qed.

(* the first failing element rejects the whole literal / element-wise application *)
Theorem set_of_rej_elem : forall rs, In Rej rs -> set_of rs = Rej.
Proof. intros rs H. unfold set_of. apply collect_rej in H. rewrite H. reflexivity. Qed.

(* unary operators, attributes, identifiers, set literals *)
Theorem misc_rejects :
  (forall o v, sem_un o v <> Rej <-> (o = UNot /\ exists b, v = VBool b) \/ (o <> UNot /\ exists q, v = VRat q))
  /\ (forall bin n v, is_set v = false -> attr bin n v = Rej)
  /\ (forall bin n l, text_eqb n name_min = false -> text_eqb n name_max = false -> text_eqb n name_count = false ->
        attr bin n (VSet l) = Rej)
  /\ (forall bin g, eval_with bin g (ESet []) = Rej)
  /\ (forall bin n, eval_with bin [] (EIdent n) = Rej)
  /\ (forall l, homogeneous l = false -> mkset l = Rej).
Proof.
  repeat split.
  - intros H. destruct o; destruct v; cbn in H; try (exfalso; apply H; reflexivity).
    + left. split; [reflexivity|eauto].
    + right. split; [discriminate|eauto].
    + right. split; [discriminate|eauto].
  - intros [[-> [b ->]]|[Ho [q ->]]]; [discriminate|]. destruct o; try congruence; discriminate.
  - intros bin n v H. destruct v; try discriminate; reflexivity.
  - intros bin n l H1 H2 H3. cbn. rewrite H1, H2, H3. reflexivity.
  - intros l H. apply mkset_rej. right. assumption.
Qed.
