(* C04 - set values: equality of values is an equivalence; | & ^ are union, intersection, symmetric difference;
   <= < are subset / proper subset; min and max of rational sets are the least / greatest element *)
From Coq Require Import ZArith QArith List Bool Lia.
From PV Require Import Expr.Values Expr.Syntax Expr.Literals Expr.Sem Expr.ProofsEval.
Import ListNotations.
Open Scope Q_scope.

Lemma forallb_ext_in : forall (A : Type) (f g : A -> bool) l, (forall x, In x l -> f x = g x) -> forallb f l = forallb g l.
Proof.
  intros A f g l H. induction l as [|x r IH]; [reflexivity|]. cbn. rewrite (H x (or_introl eq_refl)), IH; [reflexivity|].
  intros y Hy. apply H. right. assumption.
Qed.

Lemma existsb_ext_in : forall (A : Type) (f g : A -> bool) l, (forall x, In x l -> f x = g x) -> existsb f l = existsb g l.
Proof.
  intros A f g l H. induction l as [|x r IH]; [reflexivity|]. cbn. rewrite (H x (or_introl eq_refl)), IH; [reflexivity|].
  intros y Hy. apply H. right. assumption.
Qed.

Lemma zlist_eqb_refl : forall s, zlist_eqb s s = true.
Proof. induction s; cbn; [reflexivity|]. rewrite Z.eqb_refl, IHs. reflexivity. Qed.

Lemma zlist_eqb_eq : forall s t, zlist_eqb s t = true <-> s = t.
Proof.
  induction s as [|x r IH]; destruct t as [|y u]; cbn; split; try discriminate; try reflexivity.
  - intros H. apply andb_true_iff in H. destruct H as [H1 H2]. apply Z.eqb_eq in H1. apply IH in H2. subst. reflexivity.
  - intros H. inversion H; subst. rewrite Z.eqb_refl. apply IH. reflexivity.
Qed.

Lemma zlist_eqb_sym : forall s t, zlist_eqb s t = zlist_eqb t s.
Proof. induction s as [|x r IH]; destruct t as [|y u]; cbn; try reflexivity. rewrite Z.eqb_sym, IH. reflexivity. Qed.

Theorem value_eqb_refl : forall v, value_eqb v v = true.
Proof.
  induction v using value_ind'; cbn.
  - apply Qeq_bool_refl.
  - destruct b; reflexivity.
  - apply zlist_eqb_refl.
  - assert (forallb (fun x => existsb (fun y => value_eqb x y) l) l = true) as A.
    { apply forallb_forall. intros x Hx. apply existsb_exists. exists x. split; [assumption|].
      rewrite Forall_forall in H. apply H. assumption. }
    assert (forallb (fun y => existsb (fun x => value_eqb x y) l) l = true) as B.
    { apply forallb_forall. intros x Hx. apply existsb_exists. exists x. split; [assumption|].
      rewrite Forall_forall in H. apply H. assumption. }
    rewrite A, B. reflexivity.
Qed.

Theorem value_eqb_sym : forall a b, value_eqb a b = value_eqb b a.
Proof.
  induction a using value_ind'; intros c; destruct c as [q'|b'|s'|m]; try reflexivity.
  - cbn. apply Qeq_bool_comm.
  - cbn. destruct b, b'; reflexivity.
  - cbn. apply zlist_eqb_sym.
  - rewrite Forall_forall in H. cbn [value_eqb].
    rewrite (andb_comm (forallb (fun x => existsb (fun y => value_eqb x y) l) m)).
    f_equal.
    + apply forallb_ext_in. intros x Hx. apply existsb_ext_in. intros y _. apply H. assumption.
    + apply forallb_ext_in. intros y _. apply existsb_ext_in. intros x Hx. apply H. assumption.
Qed.

Theorem value_eqb_trans : forall a b c, value_eqb a b = true -> value_eqb b c = true -> value_eqb a c = true.
Proof.
  induction a using value_ind'; intros b' c H1 H2.
  - destruct b'; try discriminate; destruct c; try discriminate. cbn in *. eapply Qeq_bool_trans; eassumption.
  - destruct b'; try discriminate; destruct c; try discriminate. cbn in *. destruct b, b0, b1; try discriminate; reflexivity.
  - destruct b'; try discriminate; destruct c; try discriminate. cbn in *.
    apply zlist_eqb_eq in H1. apply zlist_eqb_eq in H2. subst. apply zlist_eqb_refl.
  - destruct b' as [| | |m]; try discriminate; destruct c as [| | |n]; try discriminate.
    rewrite Forall_forall in H. cbn [value_eqb] in *.
    apply andb_true_iff in H1. destruct H1 as [A1 A2]. apply andb_true_iff in H2. destruct H2 as [B1 B2].
    rewrite forallb_forall in A1, A2, B1, B2. apply andb_true_iff. split; apply forallb_forall.
    + intros x Hx. specialize (A1 x Hx). apply existsb_exists in A1. destruct A1 as [y [Hy Exy]].
      specialize (B1 y Hy). apply existsb_exists in B1. destruct B1 as [z [Hz Eyz]].
      apply existsb_exists. exists z. split; [assumption|]. eapply H; eassumption.
    + intros z Hz. specialize (B2 z Hz). apply existsb_exists in B2. destruct B2 as [y [Hy Eyz]].
      specialize (A2 y Hy). apply existsb_exists in A2. destruct A2 as [x [Hx Exy]].
      apply existsb_exists. exists x. split; [assumption|]. eapply H; eassumption.
Qed.

(* membership respects equality of values *)
Lemma vmem_compat : forall x y l, value_eqb x y = true -> vmem x l = vmem y l.
Proof.
  intros x y l E. unfold vmem. apply existsb_ext_in. intros z _.
  destruct (value_eqb x z) eqn:A; destruct (value_eqb y z) eqn:B; try reflexivity.
  - rewrite value_eqb_sym in E. rewrite (value_eqb_trans _ _ _ E A) in B. discriminate.
  - rewrite (value_eqb_trans _ _ _ E B) in A. discriminate.
Qed.

Lemma vmem_app : forall x a b, vmem x (a ++ b) = vmem x a || vmem x b.
Proof. intros. unfold vmem. apply existsb_app. Qed.

Lemma vmem_cons : forall x y r, vmem x (y :: r) = value_eqb x y || vmem x r.
Proof. reflexivity. Qed.

Lemma vmem_dedup : forall x l, vmem x (vdedup l) = vmem x l.
Proof.
  intros x. induction l as [|y r IH]; [reflexivity|]. cbn [vdedup]. destruct (vmem y r) eqn:M.
  - rewrite IH, vmem_cons. destruct (value_eqb x y) eqn:E; [|reflexivity]. cbn [orb]. rewrite (vmem_compat x y r E). exact M.
  - rewrite !vmem_cons, IH. reflexivity.
Qed.

Lemma vmem_filter : forall x f l, (forall a b, value_eqb a b = true -> f a = f b) -> vmem x (filter f l) = vmem x l && f x.
Proof.
  intros x f l Hf. induction l as [|y r IH]; [reflexivity|]. cbn [filter]. destruct (f y) eqn:F.
  - rewrite !vmem_cons, IH. destruct (value_eqb x y) eqn:E; cbn [orb]; [|reflexivity]. rewrite (Hf x y E), F. reflexivity.
  - rewrite vmem_cons, IH. destruct (value_eqb x y) eqn:E; cbn [orb]; [|reflexivity]. rewrite (Hf x y E), F. rewrite andb_false_r. reflexivity.
Qed.

(* C04_set_laws: | & ^ on sets are union, intersection and symmetric difference *)
Theorem vmem_union : forall x a b, vmem x (vunion a b) = vmem x a || vmem x b.
Proof. intros. unfold vunion. rewrite vmem_dedup. apply vmem_app. Qed.

Theorem vmem_inter : forall x a b, vmem x (vinter a b) = vmem x a && vmem x b.
Proof. intros. unfold vinter. apply vmem_filter. intros u v E. apply vmem_compat. assumption. Qed.

Theorem vmem_symdiff : forall x a b, vmem x (vsymdiff a b) = xorb (vmem x a) (vmem x b).
Proof.
  intros. unfold vsymdiff. rewrite vmem_app.
  rewrite (vmem_filter x (fun y => negb (vmem y b)) a) by (intros u v E; rewrite (vmem_compat u v b E); reflexivity).
  rewrite (vmem_filter x (fun y => negb (vmem y a)) b) by (intros u v E; rewrite (vmem_compat u v a E); reflexivity).
  destruct (vmem x a), (vmem x b); reflexivity.
Qed.

Theorem vsubset_spec : forall a b, vsubset a b = true <-> forall x, vmem x a = true -> vmem x b = true.
Proof.
  intros a b. unfold vsubset. rewrite forallb_forall. split.
  - intros H x Hx. unfold vmem in Hx. apply existsb_exists in Hx. destruct Hx as [y [Hy E]].
    rewrite (vmem_compat x y b E). apply H. assumption.
  - intros H x Hx. apply H. unfold vmem. apply existsb_exists. exists x. split; [assumption|apply value_eqb_refl].
Qed.

Theorem vseteq_spec : forall a b, vseteq a b = true <-> forall x, vmem x a = vmem x b.
Proof.
  intros a b. unfold vseteq. rewrite andb_true_iff, !vsubset_spec. split.
  - intros [H1 H2] x. destruct (vmem x a) eqn:A; destruct (vmem x b) eqn:B; try reflexivity.
    + rewrite (H1 x A) in B. discriminate.
    + rewrite (H2 x B) in A. discriminate.
  - intros H. split; intros x Hx; [rewrite <- H|rewrite H]; assumption.
Qed.

(* equality of two set values is equality of the sets *)
Theorem set_value_eqb : forall a b, value_eqb (VSet a) (VSet b) = vseteq a b.
Proof.
  intros a b. cbn [value_eqb]. unfold vseteq, vsubset, vmem. f_equal.
  apply forallb_ext_in. intros y _. apply existsb_ext_in. intros x _. apply value_eqb_sym.
Qed.

(* the result of a set operation has no duplicates *)
Fixpoint vnodup (l : list value) : bool :=
  match l with [] => true | x :: r => negb (vmem x r) && vnodup r end.

Lemma vnodup_dedup : forall l, vnodup (vdedup l) = true.
Proof.
  induction l as [|x r IH]; [reflexivity|]. cbn [vdedup]. destruct (vmem x r) eqn:M; [assumption|].
  cbn [vnodup]. rewrite vmem_dedup, M, IH. reflexivity.
Qed.

(* element-wise application is the map over the elements (scalar on either side) *)
Theorem elementwise_is_map : forall o b l,
  lift_l o b (VSet l) = set_of (map (lift_l o b) l) /\ lift_r o b (VSet l) = set_of (map (lift_r o b) l).
Proof. intros. split; reflexivity. Qed.

(* min / max of a set of rationals: the least / greatest element, whatever the order of the elements *)
Lemma fold_min : forall qs a,
  exists m, fold_left (fun acc y => match acc with
                                    | Ok a => match sem_bin BLt a y with
                                              | Ok (VBool true) => Ok a | Ok (VBool false) => Ok y | Ok _ => Rej | e => e end
                                    | e => e end) (map VRat qs) (Ok (VRat a)) = Ok (VRat m)
            /\ In m (a :: qs) /\ forall x, In x (a :: qs) -> m <= x.
Proof.
  induction qs as [|y r IH]; intros a; cbn [map fold_left].
  - exists a. split; [reflexivity|]. split; [left; reflexivity|]. intros x [<-|[]]. apply Qle_refl.
  - cbn [sem_bin sem_scalar]. destruct (Qle_bool y a) eqn:E; cbn [negb].
    + destruct (IH y) as [m [F [I L]]]. exists m. split; [exact F|]. split.
      * destruct I as [<-|I]; [right; left; reflexivity|right; right; assumption].
      * intros x [<-|[<-|Hx]].
        -- apply Qle_trans with y; [apply L; left; reflexivity|apply Qle_bool_iff; assumption].
        -- apply L. left. reflexivity.
        -- apply L. right. assumption.
    + destruct (IH a) as [m [F [I L]]]. exists m. split; [exact F|]. split.
      * destruct I as [<-|I]; [left; reflexivity|right; right; assumption].
      * intros x [<-|[<-|Hx]].
        -- apply L. left. reflexivity.
        -- apply Qle_trans with a; [apply L; left; reflexivity|].
           destruct (Qlt_le_dec a y) as [Hl|Hl]; [apply Qlt_le_weak; assumption|].
           apply Qle_bool_iff in Hl. congruence.
        -- apply L. right. assumption.
Qed.

Theorem min_of_rationals : forall a qs,
  exists m, reduce_with (sem_bin BLt) (map VRat (a :: qs)) = Ok (VRat m) /\ In m (a :: qs) /\ forall x, In x (a :: qs) -> m <= x.
Proof. intros a qs. unfold reduce_with. cbn [map]. apply fold_min. Qed.

Lemma fold_max : forall qs a,
  exists m, fold_left (fun acc y => match acc with
                                    | Ok a => match sem_bin BGt a y with
                                              | Ok (VBool true) => Ok a | Ok (VBool false) => Ok y | Ok _ => Rej | e => e end
                                    | e => e end) (map VRat qs) (Ok (VRat a)) = Ok (VRat m)
            /\ In m (a :: qs) /\ forall x, In x (a :: qs) -> x <= m.
Proof.
  induction qs as [|y r IH]; intros a; cbn [map fold_left].
  - exists a. split; [reflexivity|]. split; [left; reflexivity|]. intros x [<-|[]]. apply Qle_refl.
  - cbn [sem_bin sem_scalar]. destruct (Qle_bool a y) eqn:E; cbn [negb].
    + destruct (IH y) as [m [F [I L]]]. exists m. split; [exact F|]. split.
      * destruct I as [<-|I]; [right; left; reflexivity|right; right; assumption].
      * intros x [<-|[<-|Hx]].
        -- apply Qle_trans with y; [apply Qle_bool_iff; assumption|apply L; left; reflexivity].
        -- apply L. left. reflexivity.
        -- apply L. right. assumption.
    + destruct (IH a) as [m [F [I L]]]. exists m. split; [exact F|]. split.
      * destruct I as [<-|I]; [left; reflexivity|right; right; assumption].
      * intros x [<-|[<-|Hx]].
        -- apply L. left. reflexivity.
        -- apply Qle_trans with a; [|apply L; left; reflexivity].
           destruct (Qlt_le_dec y a) as [Hl|Hl]; [apply Qlt_le_weak; assumption|].
           apply Qle_bool_iff in Hl. congruence.
        -- apply L. right. assumption.
Qed.

Theorem max_of_rationals : forall a qs,
  exists m, reduce_with (sem_bin BGt) (map VRat (a :: qs)) = Ok (VRat m) /\ In m (a :: qs) /\ forall x, In x (a :: qs) -> x <= m.
Proof. intros a qs. unfold reduce_with. cbn [map]. apply fold_max. Qed.
