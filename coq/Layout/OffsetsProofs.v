From Coq Require Import ZArith List Bool Lia ZifyBool.
From PV Require Import Util.ListSet Util.Sumset BLS.Model BLS.Den BLS.Proofs BLS.ProofsMod BLS.ProofsExp
  Layout.Types Layout.Spec Layout.Proofs Layout.ProofsSpec Layout.Offsets.
Import ListNotations.
Open Scope Z_scope.

(* ---------- specification of offsets: positions at which a field / element can start ---------- *)
(* B is the set of base offsets; the base is first padded to the composite's alignment (8) *)
Definition StructOff (fs : list field) (B : Z -> Prop) (i : nat) (x : Z) : Prop :=
  exists f b e, nth_error fs i = Some f /\ B b /\
    thread_ok LenSpec spec_align (firstn i fs) (pad 8 b) e /\ x = pad (spec_align (snd f)) e.
Definition UnionOff (fs : list field) (B : Z -> Prop) (x : Z) : Prop :=
  exists b, B b /\ x = pad 8 b + spec_tag (Z.of_nat (length fs)).
Definition ElemOff (e : ty) (B : Z -> Prop) (i : Z) (x : Z) : Prop :=
  exists b ys, B b /\ Z.of_nat (length ys) = i /\ Forall (LenSpec e) ys /\ x = pad (spec_align e) b + zsum ys.

Lemma sof_fst acc fs : map fst (struct_offsets_from acc fs) = fs.
Proof. revert acc. induction fs as [|f r IH]; intros acc; cbn [struct_offsets_from map]; [reflexivity|]. rewrite IH. reflexivity. Qed.

Lemma sof_spec fs : forallb (fun f => wft (snd f)) fs = true ->
  forall acc i f O, nth_error (struct_offsets_from acc fs) i = Some (f, O) ->
  nth_error fs i = Some f /\
  forall x, Den O x <-> exists y e, Den acc y /\ thread_ok LenSpec spec_align (firstn i fs) y e /\ x = pad (spec_align (snd f)) e.
Proof.
  induction fs as [|g r IH]; intros W acc i f O Hn; cbn [struct_offsets_from] in Hn.
  - destruct i; discriminate.
  - cbn [forallb] in W. apply andb_true_iff in W. destruct W as [Wg Wr].
    destruct i as [|j]; cbn [nth_error firstn thread_ok] in *.
    + inversion Hn; subst. split; [reflexivity|]. intros x. rewrite Den_pad. rewrite (align_is_spec _ Wg). split.
      * intros (y & Dy & ->). exists y, y. auto.
      * intros (y & e & Dy & -> & ->). exists y. auto.
    + destruct (IH Wr _ _ _ _ Hn) as [Hnth Hden]. split; [exact Hnth|]. intros x. rewrite Hden. split.
      * intros (y' & e & Dy' & T & ->). apply Den_cat2 in Dy'. destruct Dy' as (p & l & (y & Dy & ->) & Dl & ->).
        exists y, e. split; auto. split; auto. exists l. rewrite <- (align_is_spec _ Wg). split; [apply bls_is_spec; auto|exact T].
      * intros (y & e & Dy & (l & Ll & T) & ->). exists (pad (align (snd g)) y + l), e. rewrite (align_is_spec _ Wg). repeat split; auto.
        apply Den_cat2. exists (pad (spec_align (snd g)) y), l. repeat split; [exists y; rewrite <- (align_is_spec _ Wg); auto|apply bls_is_spec; auto].
Qed.

Theorem struct_offsets_spec nm fs B : wft (TStruct nm fs) = true ->
  map fst (field_offsets (TStruct nm fs) B) = fs /\
  forall i f O, nth_error (field_offsets (TStruct nm fs) B) i = Some (f, O) -> forall x, Den O x <-> StructOff fs (Den B) i x.
Proof.
  cbn [wft field_offsets]. unfold all_fields_ok. intros W. split; [apply sof_fst|].
  intros i f O Hn x. destruct (sof_spec fs W _ _ _ _ Hn) as [Hnth Hden]. rewrite Hden, max_align_fields. unfold StructOff. split.
  - intros (y & e & (b & Db & ->) & T & ->). exists f, b, e. auto.
  - intros (f' & b & e & Hf' & Db & T & ->). assert (f' = f) by (unfold field in *; congruence). subst f'. exists (pad 8 b), e. repeat split; auto. exists b. auto.
Qed.

Theorem union_offsets_spec nm fs B : wft (TUnion nm fs) = true ->
  map fst (field_offsets (TUnion nm fs) B) = fs /\
  forall f O, In (f, O) (field_offsets (TUnion nm fs) B) -> forall x, Den O x <-> UnionOff fs (Den B) x.
Proof.
  cbn [wft field_offsets]. intros W. split.
  - rewrite map_map. simpl. apply map_id.
  - intros f O Hin x. apply in_map_iff in Hin. destruct Hin as (f' & E & _). inversion E; subst. clear E.
    rewrite union_tag_eq by lia. rewrite max_align_fields, Den_cat2. unfold UnionOff. split.
    + intros (y & z & (b & Db & ->) & Dz & ->). apply Den_leaf1 in Dz. subst. eauto.
    + intros (b & Db & ->). exists (pad 8 b), (spec_tag (Z.of_nat (length fs))). repeat split; [exists b; auto|apply Den_leaf1; auto].
Qed.

(* a delimited type adds its header to the base and delegates to the inner type *)
Theorem delim_offsets_spec i ext B : wft (TDelim i ext) = true ->
  field_offsets (TDelim i ext) B = field_offsets i (Cat [B; Leaf [32]]) /\
  forall x, Den (Cat [B; Leaf [32]]) x <-> exists b, Den B b /\ x = b + 32.
Proof.
  intros W. cbn [wft] in W. assert (align i = 8) as A8 by (apply composite_align; [lia|destruct i; simpl in *; auto; lia]).
  cbn [field_offsets]. rewrite A8. unfold header_width. rewrite Z.max_l by lia. split; [reflexivity|].
  intros x. rewrite Den_cat2. split.
  - intros (y & z & Dy & Dz & ->). apply Den_leaf1 in Dz. subst. eauto.
  - intros (b & Db & ->). exists b, 32. repeat split; auto. apply Den_leaf1. auto.
Qed.

Theorem elem_offsets_spec e n B : wft (TFix e n) = true ->
  map fst (elem_offsets (TFix e n) B) = map Z.of_nat (seq 0 (Z.to_nat n)) /\
  forall i O, In (i, O) (elem_offsets (TFix e n) B) -> 0 <= i < n /\ forall x, Den O x <-> ElemOff e (Den B) i x.
Proof.
  cbn [wft elem_offsets]. intros W. split; [rewrite map_map; reflexivity|].
  intros i O Hin. apply in_map_iff in Hin. destruct Hin as (k & E & Hk). inversion E; subst. clear E. apply in_seq in Hk.
  split; [lia|]. intros x. unfold elem_offset, ElemOff. rewrite Den_cat2. assert (wft e = true) as We by lia.
  rewrite (align_is_spec _ We). split.
  - intros (y & z & (b & Db & ->) & (ys & Hl & F & ->) & ->). exists b, ys. repeat split; auto.
    eapply Forall_impl; [|exact F]. intros a. apply bls_is_spec; auto.
  - intros (b & ys & Db & Hl & F & ->). exists (pad (spec_align e) b), (zsum ys). repeat split; [exists b; auto|].
    exists ys. repeat split; auto. eapply Forall_impl; [|exact F]. intros a. apply bls_is_spec; auto.
Qed.

(* `_offset_` after the fields fs of a structure: the end offsets of laying out fs from 0, before any padding *)
Theorem offset_intrinsic_struct fs : forallb (fun f => wft (snd f)) fs = true ->
  forall x, Den (offset_intrinsic false fs) x <-> thread_ok LenSpec spec_align fs 0 x.
Proof.
  intros W x. unfold offset_intrinsic.
  assert (Forall (fun f => forall l, Den (bls (snd f)) l <-> LenSpec (snd f) l) fs) as Hf.
  { rewrite forallb_forall in W. apply Forall_forall. intros f Hin. apply bls_is_spec; auto. }
  assert (Forall (fun f => spec_align (snd f) = align (snd f)) fs) as HA.
  { rewrite forallb_forall in W. apply Forall_forall. intros f Hin. symmetry. apply align_is_spec; auto. }
  destruct fs as [|f r]; cbn [struct_agg thread_ok].
  - rewrite Den_leaf1. tauto.
  - inversion Hf as [|? ? Hf1 Hfr]; inversion HA as [|? ? HA1 HAr]; subst.
    rewrite (Den_struct_from LenSpec spec_align r Hfr HAr). rewrite pad_0 by (rewrite HA1; apply align_pos). split.
    + intros (off & D & T). exists off. split; [apply Hf1; auto|exact T].
    + intros (l & Ll & T). exists l. split; [apply Hf1; auto|exact T].
Qed.

(* `_offset_` after the last variant of a union: tag + union of the variants *)
Theorem offset_intrinsic_union fs : forallb (fun f => wft (snd f)) fs = true -> 2 <= Z.of_nat (length fs) ->
  bitlen (Z.of_nat (length fs) - 1) <= 64 ->
  forall x, Den (offset_intrinsic true fs) x <-> exists l, variant_ok LenSpec fs l /\ x = spec_tag (Z.of_nat (length fs)) + l.
Proof.
  intros W H2 H3 x. unfold offset_intrinsic. rewrite union_agg_eq by lia. rewrite Den_cat2.
  assert (forall l, any1 Den (map (fun f => bls (snd f)) fs) l <-> variant_ok LenSpec fs l) as Hv.
  { clear - W. induction fs as [|f r IHr]; intros l; cbn [map any1 variant_ok]; [tauto|].
    cbn [forallb] in W. apply andb_true_iff in W. destruct W as [W1 W2]. rewrite (bls_is_spec _ W1), (IHr W2). tauto. }
  split.
  - intros (y & z & Dy & Dz & ->). apply Den_leaf1 in Dy. subst. exists z. split; auto. apply Hv. exact Dz.
  - intros (l & Vl & ->). exists (spec_tag (Z.of_nat (length fs))), l. repeat split; [apply Den_leaf1; auto|apply Hv; auto].
Qed.

(* wf of the offset trees, so that the C01 theorems apply to every query on them *)
Lemma wf_sof fs : forallb (fun f => wft (snd f)) fs = true -> forall acc, wf acc -> Forall (fun fo => wf (snd fo)) (struct_offsets_from acc fs).
Proof.
  induction fs as [|g r IH]; intros W acc Ha; cbn [struct_offsets_from]; [constructor|].
  cbn [forallb] in W. apply andb_true_iff in W. destruct W as [Wg Wr]. pose proof (align_pos (snd g)).
  constructor; [cbn [snd wf]; auto|]. apply IH; auto. cbn [wf allw]. split; [discriminate|]. repeat split; auto. apply wf_bls; auto.
Qed.
