From Coq Require Import ZArith List Bool Lia ZifyBool.
From PV Require Import Util.ListSet Util.Sumset BLS.Model BLS.Den BLS.Proofs BLS.ProofsMod BLS.ProofsExp
  Layout.Types Layout.Spec Layout.Proofs.
Import ListNotations.
Open Scope Z_scope.

(* ---------- denotation of the small shapes the constructors build ---------- *)
Lemma Den_leaf1 w x : Den (Leaf [w]) x <-> x = w.
Proof. simpl. split; [intros [H|[]]; auto|auto]. Qed.

Lemma Den_cat2 a b x : Den (Cat [a; b]) x <-> exists y z, Den a y /\ Den b z /\ x = y + z.
Proof.
  cbn [Den]. split.
  - intros (ys & H & ->). destruct ys as [|y [|z [|? ?]]]; simpl in H; try tauto.
    exists y, z. simpl. repeat split; try tauto. lia.
  - intros (y & z & Hy & Hz & ->). exists [y; z]. simpl. repeat split; auto. lia.
Qed.

Lemma Den_pad c a x : Den (Pad c a) x <-> exists y, Den c y /\ x = pad a y.
Proof. reflexivity. Qed.

Lemma pad_0 a : 1 <= a -> pad a 0 = 0.
Proof. intros. unfold pad. rewrite Z.div_small by lia. lia. Qed.

Lemma pad_aligned a x : 1 <= a -> (a | x) -> pad a x = x.
Proof.
  intros Ha [q ->]. unfold pad. replace (q * a + a - 1) with ((a - 1) + q * a) by lia.
  rewrite Z.div_add by lia. rewrite Z.div_small by lia. lia.
Qed.

(* ---------- well-formedness of the generated operator trees ---------- *)
Lemma wf_struct_from acc fs :
  wf acc -> Forall (fun f => wf (bls (snd f))) fs -> wf (struct_agg_from bls align acc fs).
Proof.
  intros Ha H. revert acc Ha. induction H as [|f r Hf _ IH]; intros acc Ha; cbn [struct_agg_from]; [exact Ha|].
  apply IH. cbn [wf allw]. split; [discriminate|]. pose proof (align_pos (snd f)). repeat split; auto.
Qed.

Lemma pow2_ceil8_ge8 b : 0 <= b <= 64 -> 8 <= pow2_ceil8 b /\ (8 | pow2_ceil8 b).
Proof.
  intros H. rewrite pow2_ceil8_table by lia. unfold width_table.
  destruct (b <=? 8); [split; [lia|exists 1; lia]|]. destruct (b <=? 16); [split; [lia|exists 2; lia]|].
  destruct (b <=? 32); [split; [lia|exists 4; lia]|split; [lia|exists 8; lia]].
Qed.

Lemma bitlen_nonneg n : 0 <= bitlen n.
Proof. unfold bitlen. destruct (n <=? 0); [lia|]. pose proof (Z.log2_nonneg n). lia. Qed.

Lemma prefix_width_eq e n : 1 <= n -> bitlen n <= 64 -> prefix_width (align e) n = spec_prefix n.
Proof.
  intros Hn Hb. unfold prefix_width. pose proof (bitlen_nonneg n).
  destruct (pow2_ceil8_ge8 (bitlen n) ltac:(lia)) as [G _]. destruct (align_values e) as [E|E]; rewrite E.
  - rewrite Z.max_l by lia. apply prefix_is_spec; auto.
  - rewrite Z.max_l by lia. apply prefix_is_spec; auto.
Qed.

Lemma fold_align_le8 fs : 0 <= fold_right (fun (f : option str * ty) acc => Z.max (align (snd f)) acc) 0 fs <= 8.
Proof. induction fs as [|f r IH]; simpl; [lia|]. destruct (align_values (snd f)) as [E|E]; rewrite E; lia. Qed.

Lemma union_tag_eq fs : 2 <= Z.of_nat (length fs) -> bitlen (Z.of_nat (length fs) - 1) <= 64 ->
  union_tag_width fs = spec_tag (Z.of_nat (length fs)).
Proof.
  intros Hn Hb. unfold union_tag_width, tag_width. pose proof (bitlen_nonneg (Z.of_nat (length fs) - 1)).
  destruct (pow2_ceil8_ge8 (bitlen (Z.of_nat (length fs) - 1)) ltac:(lia)) as [G _].
  pose proof (fold_align_le8 fs). rewrite Z.max_l by lia. apply tag_is_spec; auto.
Qed.

Lemma spec_prefix_pos n : 8 <= spec_prefix n /\ (8 | spec_prefix n).
Proof. unfold spec_prefix. destruct (least_width_values (fun w => n <? 2 ^ w)) as [<-|[<-|[<-|[<-|[]]]]]; split; try lia; [exists 1|exists 2|exists 4|exists 8]; lia. Qed.
Lemma spec_tag_pos n : 8 <= spec_tag n /\ (8 | spec_tag n).
Proof. unfold spec_tag. destruct (least_width_values (fun w => n <=? 2 ^ w)) as [<-|[<-|[<-|[<-|[]]]]]; split; try lia; [exists 1|exists 2|exists 4|exists 8]; lia. Qed.

Lemma union_agg_eq fs : 2 <= Z.of_nat (length fs) -> bitlen (Z.of_nat (length fs) - 1) <= 64 ->
  union_agg bls align fs = Cat [Leaf [spec_tag (Z.of_nat (length fs))]; Uni (map (fun f => bls (snd f)) fs)].
Proof.
  intros H2 H3. destruct fs as [|f1 [|f2 r]]; [simpl in H2; lia|simpl in H2; lia|].
  cbn [union_agg]. fold (union_tag_width (f1 :: f2 :: r)). rewrite union_tag_eq by lia. reflexivity.
Qed.

Lemma wf_bls t : wft t = true -> wf (bls t) /\ 0 <= omax (bls t).
Proof.
  assert (forall t, wf (bls t) -> wf (bls t) /\ 0 <= omax (bls t)) as K.
  { intros t0 W. split; auto. destruct (omax_ok _ W) as [D _]. eapply Den_nonneg; eauto. }
  induction t as [p|w|e n IH|e n IH|nm fs IH|nm fs IH|i ext IH] using ty_ind'; cbn [wft]; intros H; apply K; cbn [bls].
  - cbn [wf]. split; [discriminate|]. constructor; [|constructor].
    destruct p; simpl in H |- *; lia.
  - cbn [wf]. apply andb_true_iff in H. split; [discriminate|]. constructor; [lia|constructor].
  - apply andb_true_iff in H. destruct H as [H1 H2]. cbn [wf]. split; [apply IH; auto|lia].
  - apply andb_true_iff in H. destruct H as [H H3]. apply andb_true_iff in H. destruct H as [H1 H2].
    cbn [wf allw]. split; [discriminate|]. repeat split.
    + discriminate.
    + constructor; [|constructor]. rewrite prefix_width_eq by lia. pose proof (spec_prefix_pos n). lia.
    + apply IH; auto.
    + lia.
  - cbn [wf]. rewrite max_align_fields. split; [|lia].
    assert (Forall (fun f => wf (bls (snd f))) fs) as Hf.
    { unfold all_fields_ok in H. rewrite forallb_forall in H. rewrite Forall_forall in *. intros f Hin. apply IH; auto. }
    destruct fs as [|f r]; cbn [struct_agg]; [cbn [wf]; split; [discriminate|repeat constructor; lia]|].
    inversion Hf; subst. apply wf_struct_from; auto.
  - cbn [wf]. rewrite max_align_fields. split; [|lia].
    apply andb_true_iff in H. destruct H as [H H3]. apply andb_true_iff in H. destruct H as [H H2].
    assert (Forall (fun f => wf (bls (snd f))) fs) as Hf.
    { unfold all_fields_ok in H. rewrite forallb_forall in H. rewrite Forall_forall in *. intros f Hin. apply IH; auto. }
    rewrite union_agg_eq by lia.
    assert (fs <> []) as Hne by (destruct fs; [simpl in H2; lia|discriminate]).
    cbn [wf allw]. split; [discriminate|]. split; [|split; [|exact I]].
    + split; [discriminate|]. constructor; [|constructor]. pose proof (spec_tag_pos (Z.of_nat (length fs))). lia.
    + split; [destruct fs; [congruence|discriminate]|].
      apply allw_Forall. apply Forall_forall. intros c Hc. apply in_map_iff in Hc. destruct Hc as (f & <- & Hin).
      rewrite Forall_forall in Hf. auto.
  - repeat (apply andb_true_iff in H; destruct H as [H ?]).
    destruct (IH H) as [Wi Mi]. pose proof (align_pos i).
    assert (0 <= ext) as Hext. { destruct i; try discriminate; cbn [extent] in *; lia. }
    cbn [wf allw]. split; [discriminate|]. repeat split.
    + discriminate.
    + constructor; [|constructor]. unfold header_width. lia.
    + discriminate.
    + constructor; [lia|constructor].
    + apply Z.div_pos; lia.
Qed.

(* ---------- structure aggregation = positional threading ---------- *)
Lemma Den_struct_from (L : ty -> Z -> Prop) (A : ty -> Z) fs :
  Forall (fun f => forall l, Den (bls (snd f)) l <-> L (snd f) l) fs ->
  Forall (fun f => A (snd f) = align (snd f)) fs ->
  forall acc x, Den (struct_agg_from bls align acc fs) x <-> exists off, Den acc off /\ thread_ok L A fs off x.
Proof.
  intros H HA. induction H as [|f r Hf _ IH]; intros acc x; cbn [struct_agg_from thread_ok].
  - split; [intros D; exists x; auto|intros (off & D & ->); exact D].
  - inversion HA as [|? ? HAf HAr]; subst. rewrite (IH HAr). split.
    + intros (off' & D & T). apply Den_cat2 in D. destruct D as (y & z & (off & Doff & ->) & Dz & ->).
      exists off. split; auto. exists z. rewrite HAf. split; [apply Hf; auto|exact T].
    + intros (off & Doff & l & Ll & T). exists (pad (A (snd f)) off + l). split; [|exact T].
      apply Den_cat2. exists (pad (align (snd f)) off), l. rewrite HAf. repeat split; [exists off; auto|apply Hf; auto].
Qed.

Lemma zsum_all8 ys : Forall (fun y => In y [8]) ys -> zsum ys = 8 * Z.of_nat (length ys).
Proof. induction 1 as [|y ys [<-|[]] _ IH]; [reflexivity|]. rewrite zsum_cons, IH. cbn [length]. lia. Qed.

(* ---------- C02: the operator tree of every type denotes exactly the Specification's lengths ---------- *)
Theorem bls_is_spec t : wft t = true -> forall x, Den (bls t) x <-> LenSpec t x.
Proof.
  induction t as [p|w|e n IH|e n IH|nm fs IH|nm fs IH|i ext IH] using ty_ind'; cbn [wft]; intros H x; cbn [bls LenSpec].
  - apply Den_leaf1.
  - apply Den_leaf1.
  - apply andb_true_iff in H. destruct H as [H1 H2]. cbn [Den]. split; intros (ys & A & B & ->); exists ys; repeat split; auto;
      (eapply Forall_impl; [|exact B]); intros y; apply IH; auto.
  - apply andb_true_iff in H. destruct H as [H H3]. apply andb_true_iff in H. destruct H as [H1 H2].
    rewrite Den_cat2. rewrite prefix_width_eq by lia. split.
    + intros (y & z & Dy & (ys & A & B & ->) & ->). apply Den_leaf1 in Dy. subst y. exists ys. repeat split; auto.
      eapply Forall_impl; [|exact B]. intros y; apply IH; auto.
    + intros (ys & A & B & ->). exists (spec_prefix n), (zsum ys). repeat split; [apply Den_leaf1; reflexivity|].
      exists ys. repeat split; auto. eapply Forall_impl; [|exact B]. intros y; apply IH; auto.
  - rewrite max_align_fields, Den_pad.
    assert (Forall (fun f => forall l, Den (bls (snd f)) l <-> LenSpec (snd f) l) fs) as Hf.
    { unfold all_fields_ok in H. rewrite forallb_forall in H. rewrite Forall_forall in *. intros f Hin. apply IH; auto. }
    assert (Forall (fun f => spec_align (snd f) = align (snd f)) fs) as HA.
    { unfold all_fields_ok in H. rewrite forallb_forall in H. apply Forall_forall. intros f Hin. symmetry. apply align_is_spec; auto. }
    destruct fs as [|f r]; cbn [struct_agg thread_ok].
    + split; [intros (y & Dy & ->); apply Den_leaf1 in Dy; subst; exists 0; auto|intros (e & -> & ->); exists 0; split; auto; apply Den_leaf1; auto].
    + inversion Hf as [|? ? Hf1 Hfr]; inversion HA as [|? ? HA1 HAr]; subst. split.
      * intros (y & Dy & ->). apply (Den_struct_from LenSpec spec_align r Hfr HAr) in Dy. destruct Dy as (off & Doff & T).
        exists y. split; auto. exists off. rewrite pad_0 by (rewrite HA1; apply align_pos). split; [apply Hf1; auto|exact T].
      * intros (e & (l & Ll & T) & ->). exists e. split; auto. apply (Den_struct_from LenSpec spec_align r Hfr HAr).
        exists l. rewrite pad_0 in T by (rewrite HA1; apply align_pos). split; [apply Hf1; auto|exact T].
  - apply andb_true_iff in H. destruct H as [H H3]. apply andb_true_iff in H. destruct H as [H H2].
    rewrite max_align_fields, Den_pad.
    assert (Forall (fun f => forall l, Den (bls (snd f)) l <-> LenSpec (snd f) l) fs) as Hf.
    { unfold all_fields_ok in H. rewrite forallb_forall in H. rewrite Forall_forall in *. intros f Hin. apply IH; auto. }
    assert (forall l, any1 Den (map (fun f => bls (snd f)) fs) l <-> variant_ok LenSpec fs l) as Hv.
    { clear - Hf. induction Hf as [|f r Hf1 _ IHr]; intros l; cbn [map any1 variant_ok]; [tauto|]. rewrite Hf1, IHr. tauto. }
    rewrite union_agg_eq by lia. split.
    + intros (y & Dy & ->). apply Den_cat2 in Dy. destruct Dy as (a & b & Da & Db & ->). apply Den_leaf1 in Da. subst a.
      exists b. split; auto. apply Hv. exact Db.
    + intros (l & Vl & ->). exists (spec_tag (Z.of_nat (length fs)) + l). split; auto. apply Den_cat2.
      exists (spec_tag (Z.of_nat (length fs))), l. repeat split; [apply Den_leaf1; auto|]. apply Hv. exact Vl.
  - repeat (apply andb_true_iff in H; destruct H as [H ?]).
    assert (align i = 8) as A8 by (apply composite_align; auto; destruct i; auto).
    rewrite A8. unfold header_width. rewrite Z.max_l by lia. rewrite Den_cat2. split.
    + intros (y & z & Dy & (ys & A & B & ->) & ->). apply Den_leaf1 in Dy. subst y.
      exists (Z.of_nat (length ys)). rewrite (zsum_all8 ys B). split; lia.
    + intros (j & Hj & ->). exists 32, (8 * j). repeat split; [apply Den_leaf1; auto|].
      exists (repeat 8 (Z.to_nat j)). rewrite repeat_length, zsum_repeat. repeat split; [lia| |lia].
      apply Forall_forall. intros y Hy. apply repeat_spec in Hy. subst. left. reflexivity.
Qed.

(* every possible length is a multiple of the type's alignment *)
Theorem align_divides t : wft t = true -> forall x, Den (bls t) x -> (align t | x).
Proof.
  intros W x D. destruct (align_values t) as [E|E]; rewrite E; [apply Z.divide_1_l|].
  revert W x D E.
  induction t as [p|w|e n IH|e n IH|nm fs IH|nm fs IH|i ext IH] using ty_ind'; cbn [wft align]; intros W x D E; try lia.
  - apply andb_true_iff in W. destruct W as [W1 W2]. cbn [bls Den] in D. destruct D as (ys & _ & B & ->).
    clear - IH W1 B E. induction B as [|y ys Dy _ IHys]; [exists 0; reflexivity|]. rewrite zsum_cons. apply Z.divide_add_r; auto.
  - apply andb_true_iff in W. destruct W as [W W3]. apply andb_true_iff in W. destruct W as [W1 W2].
    cbn [bls] in D. apply Den_cat2 in D. destruct D as (y & z & Dy & (ys & _ & B & ->) & ->). apply Den_leaf1 in Dy. subst y.
    rewrite prefix_width_eq by lia. apply Z.divide_add_r; [apply spec_prefix_pos|].
    clear - IH W1 B E. induction B as [|y ys Dy _ IHys]; [exists 0; reflexivity|]. rewrite zsum_cons. apply Z.divide_add_r; auto.
  - cbn [bls] in D. rewrite max_align_fields in D. destruct D as (y & _ & ->). apply pad_divide.
  - cbn [bls] in D. rewrite max_align_fields in D. destruct D as (y & _ & ->). apply pad_divide.
  - apply (bls_is_spec (TDelim i ext) W) in D. cbn [LenSpec] in D. destruct D as (j & _ & ->). exists (4 + j). lia.
Qed.

Theorem sealed_extent t : wft t = true -> (match t with TDelim _ _ => False | _ => True end) ->
  extent t = omax (bls t) /\ Den (bls t) (extent t) /\ forall x, Den (bls t) x -> x <= extent t.
Proof.
  intros W S. destruct (wf_bls t W) as [Wf _]. destruct (omax_ok _ Wf) as [A B].
  destruct t; try contradiction; cbn [extent]; auto.
Qed.

Theorem delimited_spec i ext : wft (TDelim i ext) = true ->
  forall x, Den (bls (TDelim i ext)) x <-> exists j, 0 <= j <= ext / 8 /\ x = 32 + 8 * j.
Proof. intros W x. rewrite (bls_is_spec _ W). reflexivity. Qed.

Theorem extent_rules i ext : wft (TDelim i ext) = true <->
  (wft i = true /\ (exists nm fs, i = TStruct nm fs \/ i = TUnion nm fs) /\ (8 | ext) /\ extent i <= ext).
Proof.
  cbn [wft]. split.
  - intros H. repeat (apply andb_true_iff in H; destruct H as [H ?]).
    assert (align i = 8) as A8 by (apply composite_align; auto; destruct i; auto). rewrite A8 in *.
    repeat split; auto; [destruct i; try discriminate; eauto|apply Z.mod_divide; lia|lia].
  - intros (W & (nm & fs & [->| ->]) & D & E); cbn [align]; rewrite max_align_fields;
      rewrite W; simpl; apply andb_true_iff; (split; [apply Z.eqb_eq, Z.mod_divide; [lia|auto]|apply Z.leb_le; exact E]).
Qed.
