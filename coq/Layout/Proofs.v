From Coq Require Import ZArith List Bool Lia.
From PV Require Import Util.ListSet Util.Sumset BLS.Model BLS.Den BLS.Proofs BLS.ProofsMod BLS.ProofsExp Layout.Types Layout.Spec.
Import ListNotations.
Open Scope Z_scope.

(* ---------- induction principle for the nested type AST ---------- *)
Section TyInd.
Variable P : ty -> Prop.
Hypothesis HPrim : forall p, P (TPrim p).
Hypothesis HVoid : forall w, P (TVoid w).
Hypothesis HFix : forall e n, P e -> P (TFix e n).
Hypothesis HVar : forall e n, P e -> P (TVar e n).
Hypothesis HStruct : forall nm fs, Forall (fun f => P (snd f)) fs -> P (TStruct nm fs).
Hypothesis HUnion : forall nm fs, Forall (fun f => P (snd f)) fs -> P (TUnion nm fs).
Hypothesis HDelim : forall i ext, P i -> P (TDelim i ext).
Fixpoint ty_ind' (t : ty) : P t :=
  match t with
  | TPrim p => HPrim p
  | TVoid w => HVoid w
  | TFix e n => HFix e n (ty_ind' e)
  | TVar e n => HVar e n (ty_ind' e)
  | TStruct nm fs => HStruct nm fs ((fix go (l : list (option str * ty)) : Forall (fun f => P (snd f)) l :=
      match l with [] => Forall_nil _ | f :: r => Forall_cons f (ty_ind' (snd f)) (go r) end) fs)
  | TUnion nm fs => HUnion nm fs ((fix go (l : list (option str * ty)) : Forall (fun f => P (snd f)) l :=
      match l with [] => Forall_nil _ | f :: r => Forall_cons f (ty_ind' (snd f)) (go r) end) fs)
  | TDelim i ext => HDelim i ext (ty_ind' i)
  end.
End TyInd.

(* ---------- prefix / tag widths: a finite table lifted by a lemma ---------- *)
Definition width_table (b : Z) : Z := if b <=? 8 then 8 else if b <=? 16 then 16 else if b <=? 32 then 32 else 64.

Lemma pow2_ceil8_sweep : forallb (fun b => pow2_ceil8 (Z.of_nat b) =? width_table (Z.of_nat b)) (seq 0 65) = true.
Proof. vm_compute. reflexivity. Qed.

Lemma pow2_ceil8_table b : 0 <= b <= 64 -> pow2_ceil8 b = width_table b.
Proof.
  intros H. pose proof pow2_ceil8_sweep as S. rewrite forallb_forall in S.
  specialize (S (Z.to_nat b)). rewrite Z2Nat.id in S by lia. apply Z.eqb_eq. apply S. apply in_seq. lia.
Qed.

Lemma bitlen_spec n : 1 <= n -> 2 ^ (bitlen n - 1) <= n < 2 ^ bitlen n /\ 1 <= bitlen n.
Proof.
  intros H. unfold bitlen. destruct (n <=? 0) eqn:E; [lia|].
  pose proof (Z.log2_spec n ltac:(lia)) as [A B]. pose proof (Z.log2_nonneg n).
  replace (Z.log2 n + 1 - 1) with (Z.log2 n) by lia. replace (Z.succ (Z.log2 n)) with (Z.log2 n + 1) in B by lia. lia.
Qed.

Lemma bitlen_0 : bitlen 0 = 0. Proof. reflexivity. Qed.

Lemma pow2_le a b : 0 <= a <= b -> 2 ^ a <= 2 ^ b.
Proof. intros. apply Z.pow_le_mono_r; lia. Qed.

Lemma least_width_values f : In (least_width f) [8; 16; 32; 64].
Proof. unfold least_width. destruct (f 8), (f 16), (f 32); simpl; auto. Qed.

(* the code's float-free formula agrees with "smallest of 8/16/32/64 that can hold the capacity" *)
Lemma prefix_is_spec n : 1 <= n -> bitlen n <= 64 -> pow2_ceil8 (bitlen n) = spec_prefix n.
Proof.
  intros Hn Hb. destruct (bitlen_spec n Hn) as [[Lo Hi] B1]. rewrite pow2_ceil8_table by lia.
  unfold width_table, spec_prefix, least_width.
  destruct (bitlen n <=? 8) eqn:E8.
  { assert (n < 2 ^ 8) by (pose proof (pow2_le (bitlen n) 8); lia). destruct (n <? 2 ^ 8) eqn:F; [reflexivity|lia]. }
  assert (2 ^ 8 <= n) by (pose proof (pow2_le 8 (bitlen n - 1)); lia).
  destruct (n <? 2 ^ 8) eqn:F8; [lia|].
  destruct (bitlen n <=? 16) eqn:E16.
  { assert (n < 2 ^ 16) by (pose proof (pow2_le (bitlen n) 16); lia). destruct (n <? 2 ^ 16) eqn:F; [reflexivity|lia]. }
  assert (2 ^ 16 <= n) by (pose proof (pow2_le 16 (bitlen n - 1)); lia).
  destruct (n <? 2 ^ 16) eqn:F16; [lia|].
  destruct (bitlen n <=? 32) eqn:E32.
  { assert (n < 2 ^ 32) by (pose proof (pow2_le (bitlen n) 32); lia). destruct (n <? 2 ^ 32) eqn:F; [reflexivity|lia]. }
  assert (2 ^ 32 <= n) by (pose proof (pow2_le 32 (bitlen n - 1)); lia).
  destruct (n <? 2 ^ 32) eqn:F32; [lia|reflexivity].
Qed.

Lemma tag_is_spec n : 2 <= n -> bitlen (n - 1) <= 64 -> pow2_ceil8 (bitlen (n - 1)) = spec_tag n.
Proof.
  intros Hn Hb. destruct (bitlen_spec (n - 1) ltac:(lia)) as [[Lo Hi] B1]. rewrite pow2_ceil8_table by lia.
  unfold width_table, spec_tag, least_width.
  destruct (bitlen (n - 1) <=? 8) eqn:E8.
  { assert (n <= 2 ^ 8) by (pose proof (pow2_le (bitlen (n - 1)) 8); lia). destruct (n <=? 2 ^ 8) eqn:F; [reflexivity|lia]. }
  assert (2 ^ 8 < n) by (pose proof (pow2_le 8 (bitlen (n - 1) - 1)); lia).
  destruct (n <=? 2 ^ 8) eqn:F8; [lia|].
  destruct (bitlen (n - 1) <=? 16) eqn:E16.
  { assert (n <= 2 ^ 16) by (pose proof (pow2_le (bitlen (n - 1)) 16); lia). destruct (n <=? 2 ^ 16) eqn:F; [reflexivity|lia]. }
  assert (2 ^ 16 < n) by (pose proof (pow2_le 16 (bitlen (n - 1) - 1)); lia).
  destruct (n <=? 2 ^ 16) eqn:F16; [lia|].
  destruct (bitlen (n - 1) <=? 32) eqn:E32.
  { assert (n <= 2 ^ 32) by (pose proof (pow2_le (bitlen (n - 1)) 32); lia). destruct (n <=? 2 ^ 32) eqn:F; [reflexivity|lia]. }
  assert (2 ^ 32 < n) by (pose proof (pow2_le 32 (bitlen (n - 1) - 1)); lia).
  destruct (n <=? 2 ^ 32) eqn:F32; [lia|reflexivity].
Qed.

(* "smallest that can hold": minimality of least_width for monotone predicates *)
Lemma spec_prefix_least n : n < 2 ^ 64 -> n < 2 ^ spec_prefix n /\ forall w, In w [8; 16; 32; 64] -> n < 2 ^ w -> spec_prefix n <= w.
Proof.
  intros H. unfold spec_prefix, least_width.
  destruct (n <? 2 ^ 8) eqn:F8; [split; [lia|intros w [<-|[<-|[<-|[<-|[]]]]] _; lia]|].
  destruct (n <? 2 ^ 16) eqn:F16; [split; [lia|intros w [<-|[<-|[<-|[<-|[]]]]] ?; lia]|].
  destruct (n <? 2 ^ 32) eqn:F32; [split; [lia|intros w [<-|[<-|[<-|[<-|[]]]]] ?; lia]|].
  split; [lia|intros w [<-|[<-|[<-|[<-|[]]]]] ?; lia].
Qed.

Lemma spec_tag_least n : n <= 2 ^ 64 -> n <= 2 ^ spec_tag n /\ forall w, In w [8; 16; 32; 64] -> n <= 2 ^ w -> spec_tag n <= w.
Proof.
  intros H. unfold spec_tag, least_width.
  destruct (n <=? 2 ^ 8) eqn:F8; [split; [lia|intros w [<-|[<-|[<-|[<-|[]]]]] _; lia]|].
  destruct (n <=? 2 ^ 16) eqn:F16; [split; [lia|intros w [<-|[<-|[<-|[<-|[]]]]] ?; lia]|].
  destruct (n <=? 2 ^ 32) eqn:F32; [split; [lia|intros w [<-|[<-|[<-|[<-|[]]]]] ?; lia]|].
  split; [lia|intros w [<-|[<-|[<-|[<-|[]]]]] ?; lia].
Qed.

(* ---------- alignment ---------- *)
Lemma spec_align_values t : spec_align t = 1 \/ spec_align t = 8.
Proof. induction t; simpl; auto. Qed.

Lemma max_align_8 (A : ty -> Z) fs : Forall (fun f => A (snd f) = 1 \/ A (snd f) = 8) fs -> max_align A fs = 8.
Proof. unfold max_align. induction 1 as [|f r Hf _ IH]; cbn [fold_right]; [reflexivity|]. rewrite IH. lia. Qed.

Lemma align_values t : align t = 1 \/ align t = 8.
Proof.
  induction t as [p|w|e n IH|e n IH|nm fs IH|nm fs IH|i ext IH] using ty_ind'; cbn [align]; auto.
  - right. apply max_align_8. exact IH.
  - right. apply max_align_8. exact IH.
Qed.

Lemma align_pos t : 1 <= align t.
Proof. destruct (align_values t); lia. Qed.

Lemma max_align_fields fs : max_align align fs = 8.
Proof. apply max_align_8. apply Forall_forall. intros f _. apply align_values. Qed.

Lemma align_is_spec t : wft t = true -> align t = spec_align t.
Proof.
  induction t as [p|w|e n IH|e n IH|nm fs IH|nm fs IH|i ext IH] using ty_ind'; cbn [align spec_align wft]; intros H; auto.
  - apply andb_true_iff in H. apply IH. tauto.
  - apply andb_true_iff in H. destruct H as [H _]. apply andb_true_iff in H. apply IH. tauto.
  - apply max_align_fields.
  - apply max_align_fields.
  - repeat (apply andb_true_iff in H; destruct H as [H ?]). destruct i; try discriminate; cbn [align]; apply max_align_fields.
Qed.

Lemma composite_align t : wft t = true -> is_composite t = true -> align t = 8.
Proof. intros W C. rewrite align_is_spec by auto. destruct t; try discriminate; reflexivity. Qed.
