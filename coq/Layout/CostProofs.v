(* The third mechanism behind C16: structures are aggregated pairwise (left-nested), so every concatenation node of a
   type's operator tree has at most two operands and a single modulo() call enumerates at most divisor^2 tuples. *)
From Coq Require Import ZArith List Bool Lia.
From PV Require Import Util.ListSet Util.Sumset BLS.Model BLS.Den BLS.Proofs BLS.ProofsMod BLS.Cost BLS.CostProofs
  Layout.Types Layout.Proofs Layout.ProofsSpec Layout.Offsets.
Import ListNotations.
Open Scope Z_scope.

Fixpoint binary_cats (t : op) : Prop :=
  match t with
  | Leaf _ => True
  | Pad c _ | Rep c _ | RRep c _ => binary_cats c
  | Cat cs => (length cs <= 2)%nat /\ (fix all (l : list op) : Prop := match l with [] => True | c :: r => binary_cats c /\ all r end) cs
  | Uni cs => (fix all (l : list op) : Prop := match l with [] => True | c :: r => binary_cats c /\ all r end) cs
  end.

Lemma binary_struct_from acc fs : binary_cats acc -> Forall (fun f => binary_cats (bls (snd f))) fs ->
  binary_cats (struct_agg_from bls align acc fs).
Proof.
  intros Ha H. revert acc Ha. induction H as [|f r Hf _ IH]; intros acc Ha; cbn [struct_agg_from]; [exact Ha|].
  apply IH. cbn [binary_cats]. split; [cbn [length]; lia|]. repeat split; auto.
Qed.

Lemma binary_all_map fs : Forall (fun f : option str * ty => binary_cats (bls (snd f))) fs ->
  (fix all (l : list op) : Prop := match l with [] => True | c :: r => binary_cats c /\ all r end) (map (fun f => bls (snd f)) fs).
Proof. induction 1; cbn [map]; auto. Qed.

Theorem bls_binary t : binary_cats (bls t).
Proof.
  induction t as [p|w|e n IH|e n IH|nm fs IH|nm fs IH|i ext IH] using ty_ind'; cbn [bls binary_cats]; auto.
  - destruct fs as [|f r]; cbn [struct_agg]; [exact I|]. inversion IH; subst. apply binary_struct_from; auto.
  - destruct fs as [|f1 [|f2 r]]; cbn [union_agg].
    + exact I.
    + inversion IH; subst. assumption.
    + cbn [binary_cats length]. split; [lia|]. split; [exact I|]. split; [|exact I]. apply (binary_all_map (f1 :: f2 :: r)). exact IH.
Qed.

(* one modulo() call on a two-operand concatenation enumerates at most divisor^2 tuples *)
Theorem cat2_local_bound a b d : wf a -> wf b -> 1 <= d ->
  local_cost KCat [zlen (omod a d); zlen (omod b d)] 0 d <= d * d.
Proof.
  intros Wa Wb Hd. cbn [local_cost zprod fold_right].
  pose proof (omod_len_bound a d Wa Hd). pose proof (omod_len_bound b d Wb Hd).
  assert (0 <= zlen (omod a d)) by (unfold zlen; lia). assert (0 <= zlen (omod b d)) by (unfold zlen; lia). nia.
Qed.

(* the offsets yielded for the fields of a structure are built pairwise as well *)
Theorem offsets_binary fs : Forall (fun f => binary_cats (bls (snd f))) fs -> forall acc, binary_cats acc ->
  Forall (fun fo => binary_cats (snd fo)) (struct_offsets_from acc fs).
Proof.
  induction 1 as [|f r Hf _ IH]; intros acc Ha; cbn [struct_offsets_from]; constructor; [exact Ha|].
  apply IH. cbn [binary_cats]. split; [cbn [length]; lia|]. repeat split; auto.
Qed.

(* byte-aligned types have the single residue 0 modulo 8: one multiset per repetition count *)
Lemma aligned8_mod8 t : wft t = true -> align t = 8 -> omod (bls t) 8 = [0].
Proof.
  intros W A. pose proof (is_aligned_spec (bls t) 8 (proj1 (wf_bls t W)) ltac:(discriminate)) as [_ H].
  unfold is_aligned in H. apply list_eqb_eq. apply H. intros x D. rewrite <- A. exact (align_divides t W x D).
Qed.
