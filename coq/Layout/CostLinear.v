(* A concrete bound behind C16: for every type that DSDL text can express (array elements are primitives, voids or
   composites), answering a byte-alignment query on its bit length set enumerates at most 64 tuples per node of the
   operator tree - whatever the capacities and extents. *)
From Coq Require Import ZArith List Bool Lia.
From PV Require Import Util.ListSet Util.Sumset BLS.Model BLS.Den BLS.Proofs BLS.ProofsMod BLS.Cost BLS.CostProofs
  Layout.Types Layout.Proofs Layout.ProofsSpec Layout.CostProofs.
Import ListNotations.
Open Scope Z_scope.

Fixpoint size_op (t : op) : Z :=
  match t with
  | Leaf _ => 1
  | Pad c _ | Rep c _ | RRep c _ => 1 + size_op c
  | Cat cs | Uni cs => 1 + zsum (map size_op cs)
  end.

Lemma size_op_pos t : 1 <= size_op t.
Proof.
  induction t as [vs|c a IH|cs IH|c k IH|c k IH|cs IH] using op_ind'; cbn [size_op]; try lia.
  - assert (0 <= zsum (map size_op cs)); [|lia]. induction IH as [|c cs Hc _ IHcs]; cbn [map]; [simpl; lia|]. rewrite zsum_cons. lia.
  - assert (0 <= zsum (map size_op cs)); [|lia]. induction IH as [|c cs Hc _ IHcs]; cbn [map]; [simpl; lia|]. rewrite zsum_cons. lia.
Qed.

(* operator trees in which byte-alignment queries stay at divisor 8 and repetitions see a single residue *)
Fixpoint light (t : op) : Prop :=
  match t with
  | Leaf _ => True
  | Pad c a => (a = 1 \/ a = 8) /\ light c
  | Cat cs => (length cs <= 2)%nat /\ (fix all (l : list op) : Prop := match l with [] => True | c :: r => light c /\ all r end) cs
  | Rep c k | RRep c k => light c /\ zlen (omod c 8) = 1
  | Uni cs => (fix all (l : list op) : Prop := match l with [] => True | c :: r => light c /\ all r end) cs
  end.

Lemma mchoose_1 n : mchoose 1 n = 1.
Proof. induction n as [|n IH]; [reflexivity|]. rewrite mchoose_S, IH, mchoose_0_S. lia. Qed.

Lemma mchoose_upto_1 n : mchoose_upto 1 n = Z.of_nat n + 1.
Proof.
  unfold mchoose_upto. assert (forall a m, fold_right Z.add 0 (map (mchoose 1) (seq a m)) = Z.of_nat m) as H.
  { intros a m. revert a. induction m as [|m IH]; intros a; [reflexivity|]. cbn [seq map fold_right]. rewrite mchoose_1, IH. lia. }
  rewrite H. lia.
Qed.

Lemma lcm_1_8 : Z.lcm 1 8 = 8. Proof. reflexivity. Qed.
Lemma lcm_8_8 : Z.lcm 8 8 = 8. Proof. reflexivity. Qed.

Theorem light_cost t : wf t -> light t -> cost_mod t 8 <= 64 * size_op t.
Proof.
  induction t as [vs|c a IH|cs IH|c k IH|c k IH|cs IH] using op_ind'; intros W L; cbn [cost_mod size_op]; cbn [wf] in W; cbn [light] in L.
  - lia.
  - destruct W as [Wc _]. destruct L as [La Lc].
    assert (Z.lcm a 8 = 8) as E by (destruct La as [->| ->]; reflexivity). rewrite E.
    pose proof (omod_len_bound c 8 Wc ltac:(lia)). specialize (IH Wc Lc). lia.
  - destruct W as [_ Wcs]. apply allw_Forall in Wcs. destruct L as [Llen Lall].
    assert (zsum (map (fun c => cost_mod c 8) cs) <= 64 * zsum (map size_op cs) /\
            Forall (fun c => 0 <= zlen (omod c 8) <= 8) cs) as [A B].
    { clear Llen. induction IH as [|c cs Hc _ IHcs]; cbn [map]; [simpl; split; [lia|constructor]|].
      inversion Wcs as [|? ? Wc Wr]; subst. destruct Lall as [Lc Lr]. destruct (IHcs Wr Lr) as [A B].
      rewrite !zsum_cons. specialize (Hc Wc Lc). pose proof (omod_len_bound c 8 Wc ltac:(lia)).
      split; [lia|constructor; [unfold zlen in *; lia|exact B]]. }
    assert (zprod (map (fun c => zlen (omod c 8)) cs) <= 64) as P.
    { destruct cs as [|c1 [|c2 [|c3 r]]]; cbn [length] in Llen; try lia; cbn [map zprod fold_right].
      - lia.
      - inversion B; subst. lia.
      - inversion B as [|? ? B1 B']; subst. inversion B' as [|? ? B2 _]; subst. nia. }
    lia.
  - destruct W as [Wc Hk]. destruct L as [Lc L1]. specialize (IH Wc Lc).
    replace (length (omod c 8)) with 1%nat by (unfold zlen in L1; lia). rewrite mchoose_1. lia.
  - destruct W as [Wc Hk]. destruct L as [Lc L1]. specialize (IH Wc Lc).
    replace (length (omod c 8)) with 1%nat by (unfold zlen in L1; lia). rewrite mchoose_upto_1.
    pose proof (equiv_k_bound k 8 ltac:(lia) Hk). lia.
  - destruct W as [_ Wcs]. apply allw_Forall in Wcs.
    assert (zsum (map (fun c => cost_mod c 8) cs) <= 64 * zsum (map size_op cs)); [|lia].
    induction IH as [|c cs Hc _ IHcs]; cbn [map]; [simpl; lia|].
    inversion Wcs as [|? ? Wc Wr]; subst. destruct L as [Lc Lr]. rewrite !zsum_cons. specialize (Hc Wc Lc). specialize (IHcs Wr Lr). lia.
Qed.

(* types expressible in DSDL text: an array element is never itself an array *)
Fixpoint flat (t : ty) : Prop :=
  match t with
  | TPrim _ | TVoid _ => True
  | TFix e _ | TVar e _ => flat e /\ (match e with TFix _ _ | TVar _ _ => False | _ => True end)
  | TStruct _ fs | TUnion _ fs => (fix all (l : list (option str * ty)) : Prop := match l with [] => True | f :: r => flat (snd f) /\ all r end) fs
  | TDelim i _ => flat i
  end.

Lemma leaf1_len w d : zlen (omod (Leaf [w]) d) = 1.
Proof. reflexivity. Qed.

Lemma elem_single_residue e : wft e = true -> (match e with TFix _ _ | TVar _ _ => False | _ => True end) -> zlen (omod (bls e) 8) = 1.
Proof.
  intros W NA. destruct e as [p|w|e n|e n|nm fs|nm fs|i ext]; try contradiction; try reflexivity.
  - rewrite (aligned8_mod8 (TStruct nm fs) W (composite_align _ W eq_refl)); reflexivity.
  - rewrite (aligned8_mod8 (TUnion nm fs) W (composite_align _ W eq_refl)); reflexivity.
  - rewrite (aligned8_mod8 (TDelim i ext) W (composite_align _ W eq_refl)); reflexivity.
Qed.

Lemma light_struct_from acc fs : light acc -> Forall (fun f => light (bls (snd f))) fs -> light (struct_agg_from bls align acc fs).
Proof.
  intros Ha H. revert acc Ha. induction H as [|f r Hf _ IH]; intros acc Ha; cbn [struct_agg_from]; [exact Ha|].
  apply IH. cbn [light]. split; [cbn [length]; lia|]. split; [split; [destruct (align_values (snd f)); auto|exact Ha]|]. split; [exact Hf|exact I].
Qed.

Lemma light_all_map fs : Forall (fun f : option str * ty => light (bls (snd f))) fs ->
  (fix all (l : list op) : Prop := match l with [] => True | c :: r => light c /\ all r end) (map (fun f => bls (snd f)) fs).
Proof. induction 1; cbn [map]; auto. Qed.

Theorem bls_light t : wft t = true -> flat t -> light (bls t).
Proof.
  induction t as [p|w|e n IH|e n IH|nm fs IH|nm fs IH|i ext IH] using ty_ind'; cbn [wft flat]; intros W F; cbn [bls light].
  - exact I.
  - exact I.
  - apply andb_true_iff in W. destruct W as [We _]. destruct F as [Fe NA]. split; [apply IH; auto|apply elem_single_residue; auto].
  - apply andb_true_iff in W. destruct W as [W _]. apply andb_true_iff in W. destruct W as [We _]. destruct F as [Fe NA].
    split; [cbn [length]; lia|]. split; [exact I|]. split; [|exact I]. split; [apply IH; auto|apply elem_single_residue; auto].
  - rewrite max_align_fields. split; [right; reflexivity|].
    assert (Forall (fun f => light (bls (snd f))) fs) as Hf.
    { unfold all_fields_ok in W. rewrite forallb_forall in W. clear - IH W F.
      induction IH as [|f r Hf _ IHr]; [constructor|]. destruct F as [Ff Fr]. constructor.
      - apply Hf; auto. apply W. left. reflexivity.
      - apply IHr; auto. intros x Hx. apply W. right. exact Hx. }
    destruct fs as [|f r]; cbn [struct_agg]; [exact I|]. inversion Hf; subst. apply light_struct_from; auto.
  - rewrite max_align_fields. split; [right; reflexivity|].
    apply andb_true_iff in W. destruct W as [W H3]. apply andb_true_iff in W. destruct W as [W H2].
    assert (Forall (fun f => light (bls (snd f))) fs) as Hf.
    { unfold all_fields_ok in W. rewrite forallb_forall in W. clear - IH W F.
      induction IH as [|f r Hf _ IHr]; [constructor|]. destruct F as [Ff Fr]. constructor.
      - apply Hf; auto. apply W. left. reflexivity.
      - apply IHr; auto. intros x Hx. apply W. right. exact Hx. }
    rewrite union_agg_eq by lia. cbn [light]. split; [cbn [length]; lia|]. split; [exact I|]. split; [|exact I].
    apply light_all_map. exact Hf.
  - split; [cbn [length]; lia|]. split; [exact I|]. split; [|exact I]. split; [exact I|reflexivity].
Qed.

(* byte-alignment queries on any text-expressible type: at most 64 enumerated tuples per node, capacities irrelevant *)
Theorem byte_alignment_linear t : wft t = true -> flat t -> cost_mod (bls t) 8 <= 64 * size_op (bls t).
Proof. intros W F. apply light_cost; [apply wf_bls; exact W|apply bls_light; assumption]. Qed.
