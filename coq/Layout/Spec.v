(* The Specification's layout rules, written positionally and WITHOUT operator trees:
   LenSpec t x  -  x is the length in bits of some serialized representation of t. *)
From Coq Require Import ZArith List Bool Lia.
From PV Require Import Util.ListSet Util.Sumset BLS.Model Layout.Types.
Import ListNotations.
Open Scope Z_scope.

(* "the smallest of 8/16/32/64 bits that can hold ..." *)
Definition least_width (fits : Z -> bool) : Z :=
  if fits 8 then 8 else if fits 16 then 16 else if fits 32 then 32 else 64.
(* array length prefix: holds every length 0..capacity *)
Definition spec_prefix (capacity : Z) : Z := least_width (fun w => capacity <? 2 ^ w).
(* union tag: holds every variant index 0..n-1 *)
Definition spec_tag (nvariants : Z) : Z := least_width (fun w => nvariants <=? 2 ^ w).

Section Thread.
Variable L : ty -> Z -> Prop.
Variable A : ty -> Z.
(* laying out the fields one after another starting at bit offset [off]: each field is first aligned, then occupies
   one of its possible lengths; x is a possible end offset *)
Fixpoint thread_ok (fs : list (option str * ty)) (off : Z) (x : Z) : Prop :=
  match fs with
  | [] => x = off
  | f :: r => exists l, L (snd f) l /\ thread_ok r (pad (A (snd f)) off + l) x
  end.
Fixpoint variant_ok (fs : list (option str * ty)) (l : Z) : Prop :=
  match fs with
  | [] => False
  | f :: r => L (snd f) l \/ variant_ok r l
  end.
End Thread.

(* alignment as the Specification states it: composites are byte aligned, arrays like their element, the rest 1 *)
Fixpoint spec_align (t : ty) : Z :=
  match t with
  | TPrim _ | TVoid _ => 1
  | TFix e _ | TVar e _ => spec_align e
  | TStruct _ _ | TUnion _ _ | TDelim _ _ => 8
  end.

Fixpoint LenSpec (t : ty) (x : Z) {struct t} : Prop :=
  match t with
  | TPrim p => x = prim_width p
  | TVoid w => x = w
  | TFix e n => exists ys, Z.of_nat (length ys) = n /\ Forall (LenSpec e) ys /\ x = zsum ys
  | TVar e n => exists ys, Z.of_nat (length ys) <= n /\ Forall (LenSpec e) ys /\ x = spec_prefix n + zsum ys
  | TStruct _ fs => exists e, thread_ok LenSpec spec_align fs 0 e /\ x = pad 8 e
  | TUnion _ fs => exists l, variant_ok LenSpec fs l /\ x = pad 8 (spec_tag (Z.of_nat (length fs)) + l)
  | TDelim _ ext => exists j, 0 <= j <= ext / 8 /\ x = 32 + 8 * j
  end.
