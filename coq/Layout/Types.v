(* Executable model of the type AST of pydsdl/_serializable (layout part): primitives, void, arrays, sealed
   structures and unions, delimited wrappers.  Definitions only.  Shared by C02, C06, C07, C08, C14, C16, C18. *)
From Coq Require Import ZArith List Bool.
From PV Require Import Util.ListSet Util.Sumset BLS.Model.
Import ListNotations.
Open Scope Z_scope.

Inductive cast := Sat | Trunc.

Inductive prim :=
| PBool
| PUInt (w : Z) (c : cast)
| PSInt (w : Z)                 (* signed integers are always saturated *)
| PFloat (w : Z) (c : cast)
| PByte
| PUtf8.

(* Names are lists of Unicode code points. A field name of None denotes a padding (void) field. *)
Definition str := list Z.

Inductive ty :=
| TPrim (p : prim)
| TVoid (w : Z)
| TFix (e : ty) (n : Z)                         (* T[n] *)
| TVar (e : ty) (n : Z)                         (* T[<=n] *)
| TStruct (nm : str) (fs : list (option str * ty))   (* sealed structure; nm = "full.Name.major.minor" *)
| TUnion (nm : str) (fs : list (option str * ty))    (* sealed tagged union *)
| TDelim (inner : ty) (ext : Z).                (* delimited (appendable) wrapper around a structure or union *)

Definition prim_width (p : prim) : Z :=
  match p with
  | PBool => 1 | PUInt w _ => w | PSInt w => w | PFloat w _ => w | PByte => 8 | PUtf8 => 8
  end.

(* int.bit_length() for non-negative integers *)
Definition bitlen (n : Z) : Z := if n <=? 0 then 0 else Z.log2 n + 1.

(* 2 ** ceil(log2(max(8, x))) *)
Definition pow2_ceil8 (x : Z) : Z := 2 ^ Z.log2_up (Z.max 8 x).

Section Aligns.
Variable A : ty -> Z.
Definition max_align (fs : list (option str * ty)) : Z := fold_right (fun f acc => Z.max (A (snd f)) acc) 8 fs.
End Aligns.

(* alignment_requirement *)
Fixpoint align (t : ty) : Z :=
  match t with
  | TPrim _ => 1
  | TVoid _ => 1
  | TFix e _ => align e
  | TVar e _ => align e
  | TStruct _ fs => max_align align fs
  | TUnion _ fs => max_align align fs
  | TDelim i _ => align i
  end.

(* VariableLengthArrayType.length_field_type.bit_length *)
Definition prefix_width (e_align n : Z) : Z := Z.max (pow2_ceil8 (bitlen n)) e_align.

(* UnionType._compute_tag_bit_length *)
Definition tag_width (falign : Z) (nvariants : Z) : Z := Z.max (pow2_ceil8 (bitlen (nvariants - 1))) falign.

(* DelimitedType.delimiter_header_type.bit_length *)
Definition header_width (a : Z) : Z := Z.max 32 a.

Section Agg.
Variable B : ty -> op.
Variable A : ty -> Z.
(* StructureType.aggregate_bit_length_sets: left-nested pad/concatenate; the first field is not padded *)
Fixpoint struct_agg_from (acc : op) (fs : list (option str * ty)) : op :=
  match fs with
  | [] => acc
  | f :: r => struct_agg_from (Cat [Pad acc (A (snd f)); B (snd f)]) r
  end.
Definition struct_agg (fs : list (option str * ty)) : op :=
  match fs with
  | [] => Leaf [0]
  | f :: r => struct_agg_from (B (snd f)) r
  end.
(* UnionType.aggregate_bit_length_sets *)
Definition union_agg (fs : list (option str * ty)) : op :=
  match fs with
  | [] => Leaf [0]
  | [f] => B (snd f)
  | _ => Cat [Leaf [tag_width (fold_right (fun f acc => Z.max (A (snd f)) acc) 0 fs) (Z.of_nat (length fs))];
              Uni (map (fun f => B (snd f)) fs)]
  end.
End Agg.

(* bit_length_set as an operator tree, built exactly as the constructors build it *)
Fixpoint bls (t : ty) : op :=
  match t with
  | TPrim p => Leaf [prim_width p]
  | TVoid w => Leaf [w]
  | TFix e n => Rep (bls e) n
  | TVar e n => Cat [Leaf [prefix_width (align e) n]; RRep (bls e) n]
  | TStruct _ fs => Pad (struct_agg bls align fs) (max_align align fs)
  | TUnion _ fs => Pad (union_agg bls align fs) (max_align align fs)
  | TDelim i ext => Cat [Leaf [header_width (align i)]; RRep (Leaf [align i]) (ext / align i)]
  end.

(* CompositeType.extent / DelimitedType.extent *)
Definition extent (t : ty) : Z :=
  match t with
  | TDelim _ ext => ext
  | _ => omax (bls t)
  end.

Definition is_composite (t : ty) : bool :=
  match t with TStruct _ _ | TUnion _ _ | TDelim _ _ => true | _ => false end.

(* the fields that occupy space: padding fields included, constants are not part of [fs] at all *)
Definition union_tag_width (fs : list (option str * ty)) : Z :=
  tag_width (fold_right (fun f acc => Z.max (align (snd f)) acc) 0 fs) (Z.of_nat (length fs)).

(* construction-time checks of the layout-relevant parameters *)
Definition prim_ok (p : prim) : bool :=
  match p with
  | PBool | PByte | PUtf8 => true
  | PUInt w _ => (1 <=? w) && (w <=? 64)
  | PSInt w => (2 <=? w) && (w <=? 64)
  | PFloat w _ => (w =? 16) || (w =? 32) || (w =? 64)
  end.

Section WfFields.
Variable W : ty -> bool.
Definition all_fields_ok (fs : list (option str * ty)) : bool := forallb (fun f => W (snd f)) fs.
End WfFields.

Fixpoint wft (t : ty) : bool :=
  match t with
  | TPrim p => prim_ok p
  | TVoid w => (1 <=? w) && (w <=? 64)
  | TFix e n => wft e && (1 <=? n)
  | TVar e n => wft e && (1 <=? n) && (bitlen n <=? 64)
  | TStruct _ fs => all_fields_ok wft fs
  | TUnion _ fs => all_fields_ok wft fs && (2 <=? Z.of_nat (length fs)) && (bitlen (Z.of_nat (length fs) - 1) <=? 64)
  | TDelim i ext =>
      wft i && (match i with TStruct _ _ | TUnion _ _ => true | _ => false end)
      && (ext mod align i =? 0) && (extent i <=? ext)
  end.
