(* iterate_fields_with_offsets / enumerate_elements_with_offsets / the _offset_ intrinsic. Definitions only. *)
From Coq Require Import ZArith List Bool.
From PV Require Import Util.ListSet Util.Sumset BLS.Model Layout.Types.
Import ListNotations.
Open Scope Z_scope.

Definition field := (option str * ty)%type.

(* StructureType.iterate_fields_with_offsets, after the base has been padded *)
Fixpoint struct_offsets_from (offset : op) (fs : list field) : list (field * op) :=
  match fs with
  | [] => []
  | f :: r => let o := Pad offset (align (snd f)) in (f, o) :: struct_offsets_from (Cat [o; bls (snd f)]) r
  end.

Fixpoint field_offsets (t : ty) (base : op) : list (field * op) :=
  match t with
  | TStruct _ fs => struct_offsets_from (Pad base (max_align align fs)) fs
  | TUnion _ fs => let o := Cat [Pad base (max_align align fs); Leaf [union_tag_width fs]] in map (fun f => (f, o)) fs
  | TDelim i _ => field_offsets i (Cat [base; Leaf [header_width (align i)]])
  | _ => []
  end.

(* FixedLengthArrayType.enumerate_elements_with_offsets *)
Definition elem_offset (e : ty) (base : op) (i : Z) : op := Cat [Pad base (align e); Rep (bls e) i].
Definition elem_offsets (t : ty) (base : op) : list (Z * op) :=
  match t with
  | TFix e n => map (fun i => (Z.of_nat i, elem_offset e base (Z.of_nat i))) (seq 0 (Z.to_nat n))
  | _ => []
  end.

(* DataSchemaBuilder.offset: what `_offset_` evaluates to after the given fields *)
Definition offset_intrinsic (is_union : bool) (fs : list field) : op :=
  if is_union then union_agg bls align fs else struct_agg bls align fs.
