(* ===== Sumset.v ===== *)
From Coq Require Import ZArith List Bool Lia Permutation.
Import ListNotations.
Open Scope Z_scope.

Section Chain.
Variable d : Z.
Hypothesis dpos : 0 < d.
Variable S0 : list Z.                     (* residues, 0 among them *)
Hypothesis S0_range : forall s, In s S0 -> 0 <= s < d.
Hypothesis S0_zero : In 0 S0.

Definition chain_step (chainT : list Z) : list Z :=
  nodup Z.eq_dec (flat_map (fun t => map (fun s => (t + s) mod d) S0) chainT).

Fixpoint chainT (n : nat) : list Z := match n with O => [0] | S n' => chain_step (chainT n') end.

Lemma step_in T0 r : In r (chain_step T0) <-> exists t s, In t T0 /\ In s S0 /\ r = (t + s) mod d.
Proof.
  unfold chain_step. rewrite nodup_In, in_flat_map. split.
  - intros (t & Ht & Hr). apply in_map_iff in Hr. destruct Hr as (s & <- & Hs). eauto.
  - intros (t & s & Ht & Hs & ->). exists t. split; auto. apply in_map_iff. eauto.
Qed.

Lemma step_range T0 r : In r (chain_step T0) -> 0 <= r < d.
Proof. rewrite step_in. intros (t & s & _ & _ & ->). apply Z.mod_pos_bound; lia. Qed.

Lemma step_mono A B : incl A B -> incl (chain_step A) (chain_step B).
Proof. intros H r. rewrite !step_in. intros (t & s & Ht & Hs & ->). exists t, s. auto. Qed.

Lemma T_range n r : In r (chainT n) -> 0 <= r < d.
Proof. destruct n; simpl. - intros [<-|[]]; lia. - apply step_range. Qed.

Lemma T_nodup n : NoDup (chainT n).
Proof. destruct n; simpl. - constructor; [intros []|constructor]. - apply NoDup_nodup. Qed.

Lemma T_incr n : incl (chainT n) (chainT (S n)).
Proof.
  intros r Hr. simpl. apply step_in. exists r, 0. repeat split; auto.
  rewrite Z.add_0_r, Z.mod_small; auto. eapply T_range; eauto.
Qed.

Definition chain_stable_at n := incl (chainT (S n)) (chainT n).

Lemma stable_next n : chain_stable_at n -> chain_stable_at (S n).
Proof. unfold chain_stable_at. intros H. simpl. apply step_mono. exact H. Qed.

Lemma stable_from n m : chain_stable_at n -> (n <= m)%nat -> incl (chainT m) (chainT n) /\ incl (chainT n) (chainT m).
Proof.
  intros Hs Hle. induction Hle as [|m Hle IH].
  - split; apply incl_refl.
  - destruct IH as [IH1 IH2]. split.
    + assert (chain_stable_at m) as Hm.
      { clear IH1 IH2. induction Hle; auto using stable_next. }
      eapply incl_tran; [exact Hm | exact IH1].
    + eapply incl_tran; [exact IH2 | apply T_incr].
Qed.

Lemma incl_dec_Z (A B : list Z) : {incl A B} + {~ incl A B}.
Proof.
  induction A as [|a A IH].
  - left. intros x [].
  - destruct (in_dec Z.eq_dec a B) as [Ha|Ha].
    + destruct IH as [IH|IH].
      * left. intros x [<-|Hx]; auto.
      * right. intros H. apply IH. intros x Hx. apply H. right. exact Hx.
    + right. intros H. apply Ha. apply H. left. reflexivity.
Qed.

Lemma grow_or_stable n : (n + 1 <= length (chainT n))%nat \/ chain_stable_at n.
Proof.
  induction n as [|n IH].
  - left. simpl. lia.
  - destruct IH as [IH|IH]; [|right; apply stable_next; exact IH].
    destruct (incl_dec_Z (chainT (S n)) (chainT n)) as [Hs|Hs].
    + right. apply stable_next. exact Hs.
    + left. assert (length (chainT n) < length (chainT (S n)))%nat; [|lia].
      destruct (Nat.lt_ge_cases (length (chainT n)) (length (chainT (S n)))) as [|Hge]; auto.
      exfalso. apply Hs. apply NoDup_length_incl; auto using T_nodup, T_incr.
Qed.

Definition range_d : list Z := map Z.of_nat (seq 0 (Z.to_nat d)).
Lemma range_d_in r : In r range_d <-> 0 <= r < d.
Proof.
  unfold range_d. rewrite in_map_iff. split.
  - intros (k & <- & Hk). apply in_seq in Hk. lia.
  - intros H. exists (Z.to_nat r). split; [lia|]. apply in_seq. lia.
Qed.
Lemma range_d_len : length range_d = Z.to_nat d.
Proof. unfold range_d. now rewrite map_length, seq_length. Qed.

Lemma stable_at_d : chain_stable_at (Z.to_nat d - 1).
Proof.
  set (n := (Z.to_nat d - 1)%nat).
  destruct (grow_or_stable n) as [Hlen|]; auto.
  unfold chain_stable_at. intros r Hr.
  assert (incl range_d (chainT n)) as Hall.
  { apply NoDup_length_incl.
    - apply T_nodup.
    - rewrite range_d_len. subst n. lia.
    - intros x Hx. apply range_d_in. eapply T_range; eauto. }
  apply Hall. apply range_d_in. eapply T_range; eauto.
Qed.

Theorem chain_stable n m : (Z.to_nat d - 1 <= n)%nat -> (Z.to_nat d - 1 <= m)%nat ->
  forall r, In r (chainT n) <-> In r (chainT m).
Proof.
  intros Hn Hm r.
  destruct (stable_from _ n stable_at_d Hn) as [A1 A2].
  destruct (stable_from _ m stable_at_d Hm) as [B1 B2].
  split; intros H; auto.
Qed.
End Chain.

Definition zsum := fold_right Z.add 0.

(* sums of multisets of size n drawn from l: mirrors {sum(el) for el in combinations_with_replacement(l, n)} *)
Fixpoint cwr_sums (l : list Z) (n : nat) : list Z :=
  match n with
  | O => [0]
  | S n' => (fix cwr_go (l : list Z) : list Z :=
               match l with
               | [] => []
               | x :: t => map (Z.add x) (cwr_sums l n') ++ cwr_go t
               end) l
  end.

Definition cwr_go (n' : nat) := fix cwr_go (l : list Z) : list Z :=
               match l with
               | [] => []
               | x :: t => map (Z.add x) (cwr_sums l n') ++ cwr_go t
               end.
Lemma cwr_S l n : cwr_sums l (S n) = cwr_go n l. Proof. reflexivity. Qed.
Lemma go_cons n x t : cwr_go n (x :: t) = map (Z.add x) (cwr_sums (x :: t) n) ++ cwr_go n t. Proof. reflexivity. Qed.

Lemma zsum_app a b : zsum (a ++ b) = zsum a + zsum b.
Proof. induction a; simpl; lia. Qed.
Lemma zsum_perm a b : Permutation a b -> zsum a = zsum b.
Proof. induction 1; simpl; lia. Qed.

(* soundness: every enumerated sum is the sum of n elements of l *)
Lemma cwr_sound n : forall l s, In s (cwr_sums l n) -> exists m, length m = n /\ incl m l /\ zsum m = s.
Proof.
  induction n as [|n IH]; intros l s H.
  - simpl in H. destruct H as [<-|[]]. exists []. repeat split. intros x [].
  - rewrite cwr_S in H. induction l as [|x t IHl].
    + destruct H.
    + rewrite go_cons in H. apply in_app_or in H. destruct H as [H|H].
      * apply in_map_iff in H. destruct H as (s' & <- & Hs').
        destruct (IH _ _ Hs') as (m & Hlen & Hincl & Hsum).
        exists (x :: m). simpl. repeat split; try lia.
        intros y [<-|Hy]; [left; reflexivity | apply Hincl; exact Hy].
      * destruct (IHl H) as (m & Hlen & Hincl & Hsum).
        exists m. repeat split; auto. intros y Hy. right. apply Hincl. exact Hy.
Qed.

(* completeness: split a list over (x::t) into its x's and the rest *)
Lemma split_head x (m : list Z) :
  exists k rest, Permutation m (repeat x k ++ rest) /\ ~ In x rest.
Proof.
  induction m as [|y m (k & rest & Hp & Hn)].
  - exists O, []. split; [constructor | intros []].
  - destruct (Z.eq_dec y x) as [->|Hne].
    + exists (S k), rest. split; auto. simpl. constructor. exact Hp.
    + exists k, (y :: rest). split.
      * eapply perm_trans; [constructor; exact Hp|]. apply Permutation_middle.
      * intros [H|H]; [congruence | contradiction].
Qed.

Lemma cwr_complete n : forall l m, length m = n -> incl m l -> In (zsum m) (cwr_sums l n).
Proof.
  induction n as [|n IH]; intros l m Hlen Hincl.
  - destruct m; [left; reflexivity | discriminate].
  - rewrite cwr_S. revert m Hlen Hincl. induction l as [|x t IHl]; intros m Hlen Hincl.
    + destruct m; [discriminate|]. exfalso. apply (Hincl z). left. reflexivity.
    + rewrite go_cons. apply in_or_app.
      destruct (in_dec Z.eq_dec x m) as [Hx|Hx].
      * left. apply in_split in Hx. destruct Hx as (m1 & m2 & ->).
        assert (zsum (m1 ++ x :: m2) = x + zsum (m1 ++ m2)) as ->.
        { rewrite !zsum_app. simpl. lia. }
        apply in_map. apply IH.
        -- rewrite app_length in *. simpl in Hlen. lia.
        -- intros y Hy. apply Hincl. apply in_app_or in Hy. apply in_or_app. destruct Hy; [left|right; right]; auto.
      * right. apply IHl; auto. intros y Hy. destruct (Hincl y Hy) as [<-|]; [contradiction|auto].
Qed.

Theorem cwr_sums_spec l n s :
  In s (cwr_sums l n) <-> exists m, length m = n /\ incl m l /\ zsum m = s.
Proof.
  split; [apply cwr_sound|]. intros (m & Hl & Hi & <-). apply cwr_complete; auto.
Qed.

(* ksum S n r : r is the residue of a sum of n elements of S *)
Definition ksum (d : Z) (S : list Z) (n : nat) (r : Z) : Prop :=
  exists m, length m = n /\ incl m S /\ r = zsum m mod d.

Section WithZero.
Variable d : Z. Hypothesis dpos : 0 < d.
Variable S0 : list Z. Hypothesis S0_zero : In 0 S0.

Lemma T_spec n r : In r (chainT d S0 n) <-> ksum d S0 n r.
Proof.
  revert r. induction n as [|n IH]; intros r.
  - simpl. split.
    + intros [<-|[]]. exists []. repeat split. intros x [].
    + intros (m & Hl & _ & ->). destruct m; [|discriminate]. simpl. left. now rewrite Z.mod_0_l by lia.
  - cbn [chainT]. rewrite step_in. split.
    + intros (t & s & Ht & Hs & ->). apply IH in Ht. destruct Ht as (m & Hl & Hi & ->).
      exists (s :: m). simpl. repeat split; [lia| |].
      * intros y [<-|Hy]; auto.
      * rewrite Z.add_mod_idemp_l by lia. f_equal. lia.
    + intros (m & Hl & Hi & ->). destruct m as [|s m]; [discriminate|].
      exists (zsum m mod d), s. repeat split.
      * apply IH. exists m. repeat split; [simpl in Hl; lia|]. intros y Hy. apply Hi. right. exact Hy.
      * apply Hi. left. reflexivity.
      * simpl. rewrite Z.add_mod_idemp_l by lia. f_equal. lia.
Qed.

Lemma ksum_stable n m r : (Z.to_nat d - 1 <= n)%nat -> (Z.to_nat d - 1 <= m)%nat -> ksum d S0 n r -> ksum d S0 m r.
Proof. intros Hn Hm H. apply T_spec. apply (chain_stable d dpos S0 S0_zero n m Hn Hm). apply T_spec. exact H. Qed.
End WithZero.

(* general S: shift by a fixed element *)
Section Shift.
Variable d : Z. Hypothesis dpos : 0 < d.
Variable S : list Z. Variable s0 : Z. Hypothesis s0_in : In s0 S.
Definition Ssh := map (fun s => s - s0) S.
Lemma Ssh_zero : In 0 Ssh.
Proof. unfold Ssh. apply in_map_iff. exists s0. split; [lia|auto]. Qed.

Lemma zsum_shift m : zsum (map (fun s => s - s0) m) = zsum m - Z.of_nat (length m) * s0.
Proof. induction m; simpl zsum; simpl length; [lia|]. rewrite IHm. lia. Qed.

Lemma ksum_shift n r : ksum d S n r <-> ksum d Ssh n ((r - Z.of_nat n * s0) mod d) /\ 0 <= r < d.
Proof.
  split.
  - intros (m & Hl & Hi & ->). split; [|apply Z.mod_pos_bound; lia].
    exists (map (fun s => s - s0) m). rewrite map_length. repeat split; auto.
    + intros y Hy. apply in_map_iff in Hy. destruct Hy as (x & <- & Hx). unfold Ssh. apply in_map_iff. exists x. split; auto.
    + rewrite zsum_shift, Hl. rewrite Zminus_mod_idemp_l. reflexivity.
  - intros ((m & Hl & Hi & He) & Hr).
    assert (exists m', length m' = n /\ incl m' S /\ m = map (fun s => s - s0) m') as (m' & Hl' & Hi' & ->).
    { clear He. revert n Hl. induction m as [|y m IH]; intros n Hl.
      - exists []. subst n. repeat split. intros x [].
      - destruct n; [discriminate|]. destruct (IH (fun z Hz => Hi z (or_intror Hz)) n) as (m' & A & B & C); [simpl in Hl; lia|].
        assert (In y Ssh) as Hy by (apply Hi; left; reflexivity).
        apply in_map_iff in Hy. destruct Hy as (x & <- & Hx).
        exists (x :: m'). simpl. repeat split; [lia| |congruence].
        intros z [<-|Hz]; auto. }
    exists m'. repeat split; auto.
    rewrite zsum_shift, Hl' in He.
    (* (r - n s0) mod d = (zsum m' - n s0) mod d  ->  r = zsum m' mod d *)
    assert ((r - Z.of_nat n * s0 + Z.of_nat n * s0) mod d = (zsum m' - Z.of_nat n * s0 + Z.of_nat n * s0) mod d) as H.
    { rewrite <- Z.add_mod_idemp_l by lia. rewrite He. rewrite Z.add_mod_idemp_l by lia. reflexivity. }
    replace (r - Z.of_nat n * s0 + Z.of_nat n * s0) with r in H by lia.
    replace (zsum m' - Z.of_nat n * s0 + Z.of_nat n * s0) with (zsum m') in H by lia.
    rewrite Z.mod_small in H by lia. exact H.
Qed.

Theorem sumset_reduce n m r :
  (Z.to_nat d - 1 <= n)%nat -> (Z.to_nat d - 1 <= m)%nat -> Z.of_nat n mod d = Z.of_nat m mod d ->
  ksum d S n r -> ksum d S m r.
Proof.
  intros Hn Hm Hc H. apply ksum_shift in H. destruct H as [H Hr]. apply ksum_shift. split; auto.
  assert ((r - Z.of_nat n * s0) mod d = (r - Z.of_nat m * s0) mod d) as E.
  { rewrite Zminus_mod. rewrite (Zminus_mod r (Z.of_nat m * s0)).
    rewrite (Zmult_mod (Z.of_nat n)), (Zmult_mod (Z.of_nat m)), Hc. reflexivity. }
  rewrite <- E. exact (ksum_stable d dpos Ssh Ssh_zero n m _ Hn Hm H).
Qed.
End Shift.

(* the reduction used by the code *)
Lemma equiv_k_ok d k : 0 < d -> 0 <= k -> let k' := Z.min k (d + k mod d) in
  k' = k \/ (d <= k' /\ d <= k /\ k' mod d = k mod d).
Proof.
  intros Hd Hk k'. subst k'. destruct (Z.min_spec k (d + k mod d)) as [[H ->]|[H ->]]; [left; reflexivity|right].
  pose proof (Z.mod_pos_bound k d Hd). repeat split; try lia.
  rewrite Z.add_mod by lia. rewrite Z.mod_same by lia. rewrite Z.add_0_l. rewrite Z.mod_mod by lia. rewrite Z.mod_mod by lia. reflexivity.
Qed.
