(* Finite sets of integers as strictly increasing lists.  [norm] = sort + de-duplicate. *)
From Coq Require Import ZArith List Bool Lia Sorted.
Import ListNotations.
Open Scope Z_scope.

Fixpoint zins (x : Z) (l : list Z) : list Z :=
  match l with
  | [] => [x]
  | y :: t => if x <? y then x :: l else if x =? y then l else y :: zins x t
  end.

Definition norm (l : list Z) : list Z := fold_right zins [] l.

Definition zunion (a b : list Z) : list Z := fold_right zins b a.

Fixpoint list_eqb (a b : list Z) : bool :=
  match a, b with
  | [], [] => true
  | x :: a', y :: b' => (x =? y) && list_eqb a' b'
  | _, _ => false
  end.

Lemma list_eqb_eq a b : list_eqb a b = true <-> a = b.
Proof.
  revert b; induction a as [|x a IH]; intros [|y b]; simpl; split; intros H; try congruence; try discriminate.
  - apply andb_true_iff in H. destruct H as [H1 H2]. apply Z.eqb_eq in H1. apply IH in H2. congruence.
  - inversion H; subst. rewrite Z.eqb_refl. simpl. apply IH. reflexivity.
Qed.

Lemma zins_in x l y : In y (zins x l) <-> y = x \/ In y l.
Proof.
  induction l as [|z t IH]; simpl.
  - intuition.
  - destruct (x <? z) eqn:E1; [simpl; intuition|].
    destruct (x =? z) eqn:E2.
    + apply Z.eqb_eq in E2. subst. simpl. intuition.
    + simpl. rewrite IH. intuition.
Qed.

Definition ssorted (l : list Z) : Prop := StronglySorted Z.lt l.

Lemma zins_sorted x l : ssorted l -> ssorted (zins x l).
Proof.
  unfold ssorted. induction l as [|z t IH]; simpl; intros H.
  - repeat constructor.
  - inversion H as [|? ? Ht Hz]; subst.
    destruct (x <? z) eqn:E1.
    + apply Z.ltb_lt in E1. constructor; [exact H|]. constructor; [exact E1|].
      rewrite Forall_forall in *. intros y Hy. specialize (Hz y Hy). lia.
    + destruct (x =? z) eqn:E2; [exact H|].
      apply Z.ltb_ge in E1. apply Z.eqb_neq in E2.
      constructor; [apply IH; exact Ht|].
      rewrite Forall_forall in *. intros y Hy. apply zins_in in Hy. destruct Hy as [->|Hy]; [lia|auto].
Qed.

Lemma norm_in l y : In y (norm l) <-> In y l.
Proof.
  induction l as [|x t IH]; simpl; [tauto|]. rewrite zins_in, IH. intuition.
Qed.

Lemma norm_sorted l : ssorted (norm l).
Proof. induction l as [|x t IH]; simpl; [constructor|apply zins_sorted; exact IH]. Qed.

Lemma zunion_in a b y : In y (zunion a b) <-> In y a \/ In y b.
Proof. induction a as [|x t IH]; simpl; [tauto|]. rewrite zins_in, IH. intuition. Qed.

Lemma zunion_sorted a b : ssorted b -> ssorted (zunion a b).
Proof. intros Hb. induction a as [|x t IH]; simpl; [exact Hb|apply zins_sorted; exact IH]. Qed.

Lemma ssorted_ext a b : ssorted a -> ssorted b -> (forall x, In x a <-> In x b) -> a = b.
Proof.
  unfold ssorted. revert b. induction a as [|x a IH]; intros [|y b] Ha Hb H.
  - reflexivity.
  - exfalso. apply (proj2 (H y)). left; reflexivity.
  - exfalso. apply (proj1 (H x)). left; reflexivity.
  - inversion Ha as [|? ? Ha' Hxa]; inversion Hb as [|? ? Hb' Hyb]; subst.
    rewrite Forall_forall in Hxa, Hyb.
    assert (x = y) as ->.
    { destruct (proj1 (H x) (or_introl eq_refl)) as [E|E]; [congruence|].
      destruct (proj2 (H y) (or_introl eq_refl)) as [E'|E']; [congruence|].
      specialize (Hxa _ E'). specialize (Hyb _ E). lia. }
    f_equal. apply IH; auto. intros z. split; intros Hz.
    + destruct (proj1 (H z) (or_intror Hz)) as [E|E]; [|exact E]. subst. specialize (Hxa _ Hz). lia.
    + destruct (proj2 (H z) (or_intror Hz)) as [E|E]; [|exact E]. subst. specialize (Hyb _ Hz). lia.
Qed.

Lemma norm_ext a b : (forall x, In x a <-> In x b) -> norm a = norm b.
Proof.
  intros H. apply ssorted_ext; try apply norm_sorted. intros x. rewrite !norm_in. apply H.
Qed.

Lemma ssorted_nodup l : ssorted l -> NoDup l.
Proof.
  unfold ssorted. induction 1 as [|x l Hs IH Hx]; constructor; auto.
  rewrite Forall_forall in Hx. intros Hin. specialize (Hx _ Hin). lia.
Qed.

Lemma norm_idem l : ssorted l -> norm l = l.
Proof. intros H. apply ssorted_ext; auto using norm_sorted. intros x. apply norm_in. Qed.
