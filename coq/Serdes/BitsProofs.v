(* Lemmas on bits of integers, bytes and bit lists. *)
From Coq Require Import ZArith List Bool Lia ZifyBool.
From PV Require Import Serdes.Model Serdes.Bits.
Import ListNotations.
Open Scope Z_scope.

Ltac Zify.zify_post_hook ::= Z.to_euclidean_division_equations.

(* ---------- lengths ---------- *)
Lemma zlen_nonneg {A} (l : list A) : 0 <= zlen l.
Proof. unfold zlen. lia. Qed.
Lemma zlen_nil {A} : zlen (@nil A) = 0. Proof. reflexivity. Qed.
Lemma zlen_cons {A} (x : A) l : zlen (x :: l) = 1 + zlen l.
Proof. unfold zlen. simpl length. lia. Qed.
Lemma zlen_app {A} (l m : list A) : zlen (l ++ m) = zlen l + zlen m.
Proof. unfold zlen. rewrite app_length. lia. Qed.
Lemma zlen_repeat {A} (x : A) n : zlen (repeat x n) = Z.of_nat n.
Proof. unfold zlen. rewrite repeat_length. reflexivity. Qed.
Lemma zlen_zeros n : 0 <= n -> zlen (zeros n) = n.
Proof. intros. unfold zeros. rewrite zlen_repeat. lia. Qed.
Lemma zlen_zero_bits n : 0 <= n -> zlen (zero_bits n) = n.
Proof. intros. unfold zero_bits. rewrite zlen_repeat. lia. Qed.
Lemma zlen_map {A B} (f : A -> B) l : zlen (map f l) = zlen l.
Proof. unfold zlen. rewrite map_length. reflexivity. Qed.
Lemma zlen_low_bits n v : zlen (low_bits n v) = Z.of_nat n.
Proof. unfold low_bits, zlen. rewrite map_length, seq_length. reflexivity. Qed.

(* ---------- bit lists ---------- *)
Lemma bit_at_beyond bs j : zlen bs <= j -> bit_at bs j = false.
Proof. intros H. unfold bit_at. apply nth_overflow. unfold zlen in H. lia. Qed.

Lemma bit_at_app bs cs j : 0 <= j -> bit_at (bs ++ cs) j = if j <? zlen bs then bit_at bs j else bit_at cs (j - zlen bs).
Proof.
  intros H. unfold bit_at, zlen. destruct (j <? Z.of_nat (length bs)) eqn:E.
  - apply app_nth1. lia.
  - rewrite app_nth2 by lia. f_equal. lia.
Qed.

Lemma bit_at_low_bits n v j : 0 <= j -> bit_at (low_bits n v) j = (j <? Z.of_nat n) && Z.testbit v j.
Proof.
  intros H. unfold bit_at, low_bits. destruct (j <? Z.of_nat n) eqn:E; simpl.
  - rewrite (nth_indep _ false ((fun k => Z.testbit v (Z.of_nat k)) 0%nat)) by (rewrite map_length, seq_length; lia).
    rewrite (map_nth (fun k => Z.testbit v (Z.of_nat k))). rewrite seq_nth by lia. f_equal. lia.
  - apply nth_overflow. rewrite map_length, seq_length. lia.
Qed.

Lemma bit_at_zero_bits n j : bit_at (zero_bits n) j = false.
Proof.
  unfold bit_at, zero_bits. destruct (Nat.lt_ge_cases (Z.to_nat j) (Z.to_nat n)).
  - apply nth_repeat.
  - apply nth_overflow. rewrite repeat_length. lia.
Qed.

Lemma bits_ext (a b : list bool) : zlen a = zlen b -> (forall j, 0 <= j < zlen a -> bit_at a j = bit_at b j) -> a = b.
Proof.
  intros L H. apply (nth_ext _ _ false false). { unfold zlen in L. lia. }
  intros n Hn. specialize (H (Z.of_nat n)). unfold bit_at in H. rewrite Nat2Z.id in H. apply H. unfold zlen. lia.
Qed.

(* ---------- bits of integers ---------- *)
Lemma testbit_1 m : Z.testbit 1 m = (m =? 0).
Proof. destruct m; reflexivity. Qed.

Lemma bounded_by_bits n v : 0 <= n -> 0 <= v -> (forall i, n <= i -> Z.testbit v i = false) -> v < 2 ^ n.
Proof.
  intros Hn Hv H. assert (E : v = v mod 2 ^ n).
  { apply Z.bits_inj'. intros i Hi. destruct (Z.lt_ge_cases i n).
    - rewrite Z.mod_pow2_bits_low by lia. reflexivity.
    - rewrite Z.mod_pow2_bits_high by lia. apply H. lia. }
  rewrite E. apply Z.mod_pos_bound. apply Z.pow_pos_nonneg; lia.
Qed.

Lemma bits_above n v i : 0 <= v < 2 ^ n -> 0 <= n <= i -> Z.testbit v i = false.
Proof.
  intros Hv Hi. rewrite <- (Z.mod_small v (2 ^ n)) by lia. apply Z.mod_pow2_bits_high. lia.
Qed.

Lemma byte_ok_bits b : byte_ok b <-> 0 <= b /\ forall i, 8 <= i -> Z.testbit b i = false.
Proof.
  unfold byte_ok. split.
  - intros H. split; [lia|]. intros i Hi. apply (bits_above 8); [change (2 ^ 8) with 256|]; lia.
  - intros [H0 H]. split; [lia|]. change 256 with (2 ^ 8). apply bounded_by_bits; auto; lia.
Qed.

Lemma testbit_set x k i : 0 <= k -> 0 <= i -> Z.testbit (Z.lor x (Z.shiftl 1 k)) i = Z.testbit x i || (i =? k).
Proof.
  intros Hk Hi. rewrite Z.lor_spec, Z.shiftl_spec by lia. rewrite testbit_1. f_equal. lia.
Qed.

Lemma testbit_clear x k i : 0 <= k -> 0 <= i -> Z.testbit (Z.land x (Z.lnot (Z.shiftl 1 k))) i = Z.testbit x i && negb (i =? k).
Proof.
  intros Hk Hi. rewrite Z.land_spec, Z.lnot_spec, Z.shiftl_spec by lia. rewrite testbit_1. f_equal. f_equal. lia.
Qed.

Lemma testbit_add_byte b x j : byte_ok b -> 0 <= j -> Z.testbit (b + 256 * x) j = if j <? 8 then Z.testbit b j else Z.testbit x (j - 8).
Proof.
  intros Hb Hj. unfold byte_ok in Hb. destruct (j <? 8) eqn:E.
  - rewrite <- (Z.mod_pow2_bits_low (b + 256 * x) 8 j) by lia. change (2 ^ 8) with 256.
    replace ((b + 256 * x) mod 256) with b by lia. reflexivity.
  - replace j with ((j - 8) + 8) at 1 by lia. rewrite <- Z.div_pow2_bits by lia. change (2 ^ 8) with 256.
    replace ((b + 256 * x) / 256) with x by lia. reflexivity.
Qed.

Lemma land_1 x : Z.land x 1 = Z.b2z (Z.testbit x 0).
Proof. change 1 with (Z.ones 1). rewrite Z.land_ones by lia. change (2 ^ 1) with 2. rewrite Z.bit0_mod. reflexivity. Qed.

(* ---------- bytes ---------- *)
Lemma getbit_cons x rest j : 0 <= j -> getbit (x :: rest) j = if j <? 8 then Z.testbit x j else getbit rest (j - 8).
Proof.
  intros H. unfold getbit. destruct (j <? 8) eqn:E.
  - replace (j / 8) with 0 by lia. replace (j mod 8) with j by lia. reflexivity.
  - replace (Z.to_nat (j / 8)) with (S (Z.to_nat ((j - 8) / 8))) by lia. replace ((j - 8) mod 8) with (j mod 8) by lia. reflexivity.
Qed.

Lemma getbit_beyond buf j : 8 * zlen buf <= j -> getbit buf j = false.
Proof.
  intros H. unfold getbit. rewrite nth_overflow. { apply Z.testbit_0_l. } unfold zlen in H. lia.
Qed.

Lemma getbit_app_l buf more j : 0 <= j < 8 * zlen buf -> getbit (buf ++ more) j = getbit buf j.
Proof. intros H. unfold getbit. rewrite app_nth1; [reflexivity|]. unfold zlen in H. lia. Qed.

Lemma getbit_app_r buf more j : 8 * zlen buf <= j -> getbit (buf ++ more) j = getbit more (j - 8 * zlen buf).
Proof.
  intros H. unfold getbit. pose proof (zlen_nonneg buf). rewrite app_nth2 by (unfold zlen in *; lia).
  f_equal; [f_equal; unfold zlen in *; lia|]. lia.
Qed.

Lemma bytes_ok_app a b : bytes_ok a -> bytes_ok b -> bytes_ok (a ++ b).
Proof. intros; apply Forall_app; auto. Qed.

Lemma bytes_ok_nth buf i : bytes_ok buf -> byte_ok (nth i buf 0).
Proof.
  intros H. destruct (Nat.lt_ge_cases i (length buf)).
  - apply (proj1 (Forall_forall _ _) H). apply nth_In. assumption.
  - rewrite nth_overflow by assumption. unfold byte_ok. lia.
Qed.

Lemma to_bytes_le_length n v : length (to_bytes_le n v) = n.
Proof. revert v. induction n; intros; simpl; auto. Qed.

Lemma to_bytes_le_ok n : forall v, bytes_ok (to_bytes_le n v).
Proof.
  induction n as [|k IH]; intros v; cbn [to_bytes_le]; constructor.
  - unfold byte_ok. pose proof (Z.mod_pos_bound v 256 ltac:(lia)). lia.
  - apply IH.
Qed.

Lemma getbit_to_bytes_le n : forall v j, 0 <= j < 8 * Z.of_nat n -> getbit (to_bytes_le n v) j = Z.testbit v j.
Proof.
  induction n as [|k IH]; intros v j H; [lia|]. cbn [to_bytes_le]. rewrite getbit_cons by lia. destruct (j <? 8) eqn:E.
  - change 256 with (2 ^ 8). apply Z.mod_pow2_bits_low. lia.
  - rewrite IH by lia. change 256 with (2 ^ 8). rewrite Z.div_pow2_bits by lia. f_equal. lia.
Qed.

Lemma from_bytes_le_nonneg bs : bytes_ok bs -> 0 <= from_bytes_le bs.
Proof. induction 1; cbn [from_bytes_le]; [lia|]. unfold byte_ok in *. lia. Qed.

Lemma testbit_from_bytes_le bs : bytes_ok bs -> forall j, 0 <= j -> Z.testbit (from_bytes_le bs) j = getbit bs j.
Proof.
  induction 1 as [|b r Hb Hr IH]; intros j Hj.
  - simpl. rewrite Z.testbit_0_l. symmetry. apply getbit_beyond. unfold zlen. simpl. lia.
  - cbn [from_bytes_le]. rewrite testbit_add_byte by assumption. rewrite getbit_cons by assumption.
    destruct (j <? 8) eqn:E; [reflexivity|]. apply IH. lia.
Qed.

Lemma from_bytes_le_bound bs : bytes_ok bs -> from_bytes_le bs < 2 ^ (8 * zlen bs).
Proof.
  intros H. pose proof (zlen_nonneg bs). apply bounded_by_bits; [lia|apply from_bytes_le_nonneg; assumption|].
  intros i Hi. rewrite testbit_from_bytes_le by (auto; lia). apply getbit_beyond. lia.
Qed.

(* ---------- update_nth ---------- *)
Lemma update_nth_length n f l : length (update_nth n f l) = length l.
Proof. revert n. induction l; intros [|n]; simpl; auto. Qed.

Lemma nth_update_nth n f l i : (n < length l)%nat -> nth i (update_nth n f l) 0 = if Nat.eqb i n then f (nth n l 0) else nth i l 0.
Proof.
  revert n i. induction l as [|x r IH]; intros n i H; simpl in H; [lia|].
  destruct n as [|n]; destruct i as [|i]; simpl; auto. apply IH. lia.
Qed.

Lemma update_nth_ok n f l : bytes_ok l -> (forall x, byte_ok x -> byte_ok (f x)) -> bytes_ok (update_nth n f l).
Proof.
  intros H Hf. revert n. induction H as [|x r Hx Hr IH]; intros [|n]; cbn [update_nth]; try constructor; auto.
  apply IH.
Qed.

(* two byte strings that carry the same bits are equal *)
Lemma bytes_ext a b : bytes_ok a -> bytes_ok b -> zlen a = zlen b -> (forall j, 0 <= j -> getbit a j = getbit b j) -> a = b.
Proof.
  intros Ha Hb L H. apply (nth_ext _ _ 0 0). { unfold zlen in L. lia. }
  intros n Hn. apply Z.bits_inj'. intros i Hi. destruct (Z.lt_ge_cases i 8).
  - specialize (H (8 * Z.of_nat n + i) ltac:(lia)). unfold getbit in H.
    replace ((8 * Z.of_nat n + i) / 8) with (Z.of_nat n) in H by lia.
    replace ((8 * Z.of_nat n + i) mod 8) with i in H by lia. rewrite Nat2Z.id in H. exact H.
  - pose proof (bytes_ok_nth a n Ha) as A. pose proof (bytes_ok_nth b n Hb) as B.
    apply byte_ok_bits in A. apply byte_ok_bits in B. rewrite (proj2 A), (proj2 B) by lia. reflexivity.
Qed.

Lemma packs_unique b1 b2 bs : packs b1 bs -> packs b2 bs -> b1 = b2.
Proof.
  intros (A1 & L1 & H1) (A2 & L2 & H2). apply bytes_ext; auto; [lia|]. intros j Hj. rewrite H1, H2 by assumption. reflexivity.
Qed.
