(* serialize refines the bit-list specification: for every valid value the writer ends up representing
   (bits so far) ++ enc t v (offset). *)
From Coq Require Import ZArith List Bool Lia ZifyBool.
From PV Require Import BLS.Model Layout.Types Layout.Spec Layout.Proofs.
From PV Require Import Serdes.Float Serdes.Utf8 Serdes.Model Serdes.Bits Serdes.BitsProofs Serdes.WriterProofs Serdes.Spec.
Import ListNotations.
Open Scope Z_scope.

Ltac Zify.zify_post_hook ::= Z.to_euclidean_division_equations.

(* ---------- low bits ---------- *)
Lemma low_bits_ext n a b : (forall j, 0 <= j < Z.of_nat n -> Z.testbit a j = Z.testbit b j) -> low_bits n a = low_bits n b.
Proof.
  intros H. apply bits_ext. { rewrite !zlen_low_bits. reflexivity. }
  rewrite zlen_low_bits. intros j Hj. rewrite !bit_at_low_bits by lia. replace (j <? Z.of_nat n) with true by lia. apply H. lia.
Qed.

Lemma low_bits_mod n w z : Z.of_nat n = w -> low_bits n (z mod 2 ^ w) = low_bits n z.
Proof. intros E. apply low_bits_ext. intros j Hj. apply Z.mod_pow2_bits_low. lia. Qed.

Lemma low_bits_land n w z : Z.of_nat n = w -> low_bits n (Z.land z (Z.shiftl 1 w - 1)) = low_bits n z.
Proof.
  intros E. apply low_bits_ext. intros j Hj. rewrite testbit_land_mask by lia. replace (j <? w) with true by lia. reflexivity.
Qed.

Lemma bits_of_to_bytes_le n x : bits_of_bytes (to_bytes_le n x) = low_bits (8 * n) x.
Proof.
  apply bits_ext. { rewrite zlen_bits_of_bytes, zlen_low_bits. unfold zlen. rewrite to_bytes_le_length. lia. }
  rewrite zlen_bits_of_bytes. unfold zlen at 1. rewrite to_bytes_le_length. intros j Hj.
  rewrite bit_at_bits_of_bytes by (try apply to_bytes_le_ok; lia). rewrite getbit_to_bytes_le by lia.
  rewrite bit_at_low_bits by lia. replace (j <? Z.of_nat (8 * n)) with true by lia. reflexivity.
Qed.

Lemma low_bits_zero n w : Z.to_nat w = n -> low_bits n 0 = zero_bits w.
Proof. intros E. rewrite low_bits_0. unfold zero_bits. rewrite E. reflexivity. Qed.

(* ---------- widths are non-negative ---------- *)
Lemma prefix_width_pos a n : 1 <= a -> 1 <= prefix_width a n.
Proof. intros. unfold prefix_width. lia. Qed.

Lemma pow2_ceil8_nonneg x : 0 <= pow2_ceil8 x.
Proof. unfold pow2_ceil8. apply Z.pow_nonneg. lia. Qed.

Lemma union_tag_width_nonneg fs : 0 <= union_tag_width fs.
Proof. unfold union_tag_width, tag_width. pose proof (pow2_ceil8_nonneg (bitlen (Z.of_nat (length fs) - 1))). lia. Qed.

Lemma header_width_pos a : 32 <= header_width a.
Proof. unfold header_width. lia. Qed.

Lemma prim_width_pos p : prim_ok p = true -> 1 <= prim_width p <= 64.
Proof. destruct p; simpl; lia. Qed.

(* ---------- primitives ---------- *)
Lemma ser_prim_enc p v w bs : prim_ok p = true -> valid_prim p v = true -> WR w bs ->
  exists w', ser_prim p v w = Ok w' /\ WR w' (bs ++ enc_prim p v).
Proof.
  intros Hp Hv HW. destruct p as [ | wd c | wd | wd c | | ]; unfold valid_prim in Hv; unfold ser_prim, enc_prim, canon_prim.
  - (* bool *)
    destruct v; try discriminate; cbn [bool_of].
    + eexists; split; [reflexivity|]. pose proof (write_bits_WR w bs (if b then 1 else 0) 1 ltac:(lia) HW) as H.
      destruct b; exact H.
    + eexists; split; [reflexivity|]. pose proof (write_bits_WR w bs (if z =? 0 then 0 else 1) 1 ltac:(lia) HW) as H.
      destruct (z =? 0); exact H.
  - (* unsigned *)
    simpl in Hp. destruct (as_int v) as [z|] eqn:Ez; [|discriminate]. eexists; split; [reflexivity|].
    cbn [prim_width]. rewrite (low_bits_mod (Z.to_nat wd) wd) by lia. destruct c; unfold cast_int.
    + apply write_bits_WR; [lia|assumption].
    + rewrite (low_bits_mod (Z.to_nat wd) wd) by lia.
      rewrite <- (low_bits_land (Z.to_nat wd) wd z) by lia. apply write_bits_WR; [lia|assumption].
  - (* signed *)
    simpl in Hp. destruct (as_int v) as [z|] eqn:Ez; [|discriminate]. eexists; split; [reflexivity|].
    cbn [prim_width]. rewrite (low_bits_mod (Z.to_nat wd) wd) by lia. unfold cast_int.
    rewrite <- (low_bits_land (Z.to_nat wd) wd) by lia. apply write_bits_WR; [lia|assumption].
  - (* float *)
    destruct v; try discriminate. eexists; split; [reflexivity|].
    pose proof (write_bytes_WR (to_bytes_le (Z.to_nat (wd / 8)) (fcast c wd bits)) w bs HW) as H.
    rewrite bits_of_to_bytes_le in H. replace (8 * Z.to_nat (wd / 8))%nat with (Z.to_nat wd) in H; [exact H|].
    simpl in Hp. assert (wd = 16 \/ wd = 32 \/ wd = 64) by lia. destruct H0 as [ -> | [ -> | -> ] ]; reflexivity.
  - (* byte *)
    destruct (as_int v) as [z|] eqn:Ez; [|discriminate]. eexists; split; [reflexivity|].
    cbn [prim_width]. unfold cast_int. change (Z.to_nat 8) with 8%nat.
    rewrite (low_bits_mod 8 8) by reflexivity. change 256 with (2 ^ 8). rewrite (low_bits_mod 8 8) by reflexivity.
    rewrite <- (low_bits_land 8 8 z) by reflexivity. change (Z.shiftl 1 8 - 1) with 255.
    apply (write_bits_WR w bs (Z.land z 255) 8 ltac:(lia) HW).
  - (* utf8 *)
    destruct (as_int v) as [z|] eqn:Ez; [|discriminate]. eexists; split; [reflexivity|].
    cbn [prim_width]. unfold cast_int. change (Z.to_nat 8) with 8%nat.
    rewrite (low_bits_mod 8 8) by reflexivity. change 256 with (2 ^ 8). rewrite (low_bits_mod 8 8) by reflexivity.
    rewrite <- (low_bits_land 8 8 z) by reflexivity. change (Z.shiftl 1 8 - 1) with 255.
    apply (write_bits_WR w bs (Z.land z 255) 8 ltac:(lia) HW).
Qed.

Lemma WR_eq w a b : WR w a -> a = b -> WR w b.
Proof. intros H E. subst. exact H. Qed.

Ltac norm := repeat rewrite zlen_app; repeat rewrite <- app_assoc; repeat rewrite Z.add_assoc.
Ltac finish_WR W := eapply WR_eq; [exact W|]; norm; reflexivity.

(* the property proved by induction over the type *)
Definition ser_ok (t : ty) : Prop :=
  forall v w bs, validb t v = true -> WR w bs -> exists w', ser t v w = Ok w' /\ WR w' (bs ++ enc t v (zlen bs)).

Lemma ser_elems_enc e : ser_ok e -> forall vs w bs, forallb (validb e) vs = true -> WR w bs ->
  exists w', ser_elems (ser e) vs w = Ok w' /\ WR w' (bs ++ enc_elems (enc e) vs (zlen bs)).
Proof.
  intros He. induction vs as [|v r IH]; intros w bs Hv HW; cbn [ser_elems enc_elems].
  - eexists; split; [reflexivity|]. rewrite app_nil_r. exact HW.
  - cbn [forallb] in Hv. apply andb_prop in Hv. destruct Hv as [Hv1 Hv2].
    destruct (He v w bs Hv1 HW) as (w1 & E1 & W1). rewrite E1.
    destruct (IH w1 _ Hv2 W1) as (w2 & E2 & W2). exists w2. split; [exact E2|].
    rewrite zlen_app in W2. rewrite app_assoc. exact W2.
Qed.

Lemma ser_fields_enc fs : Forall (fun f => ser_ok (snd f)) fs -> all_fields_ok wft fs = true ->
  forall vs w bs, valid_fields validb fs vs = true -> WR w bs ->
  exists w', ser_fields ser fs vs w = Ok w' /\ WR w' (bs ++ enc_fields enc fs vs (zlen bs)).
Proof.
  induction 1 as [|[nm t] r Ht Hr IH]; intros Hwf vs w bs Hv HW; cbn [ser_fields enc_fields valid_fields] in *.
  - destruct vs; [|discriminate]. eexists; split; [reflexivity|]. rewrite app_nil_r. exact HW.
  - unfold all_fields_ok in Hwf. cbn [forallb snd] in Hwf. apply andb_prop in Hwf. destruct Hwf as [Hwt Hwr].
    pose proof (align_pos t) as Ha. cbn [snd] in Ht.
    pose proof (w_align_to_WR w bs (align t) Ha HW) as W1.
    destruct nm as [nm|].
    + destruct vs as [|v vs']; [discriminate|]. apply andb_prop in Hv. destruct Hv as [Hv1 Hv2].
      destruct (Ht _ _ _ Hv1 W1) as (w2 & E2 & W2). rewrite E2.
      destruct (IH Hwr vs' w2 _ Hv2 W2) as (w3 & E3 & W3). exists w3. split; [exact E3|]. finish_WR W3.
    + assert (Hvw : 0 <= void_width t).
      { destruct t; cbn [void_width]; try lia. simpl in Hwt. lia. }
      pose proof (write_bits_WR _ _ 0 (void_width t) Hvw W1) as W2.
      rewrite (low_bits_zero _ (void_width t) eq_refl) in W2.
      destruct (IH Hwr vs _ _ Hv W2) as (w3 & E3 & W3). exists w3. split; [exact E3|]. finish_WR W3.
Qed.

Lemma ser_variant_enc fs : Forall (fun f => ser_ok (snd f)) fs ->
  forall k v w bs, valid_variant validb fs k v = true -> WR w bs ->
  exists w', ser_variant ser fs k v w = Ok w' /\ WR w' (bs ++ enc_variant enc fs k v (zlen bs)).
Proof.
  induction 1 as [|f r Hf Hr IH]; intros k v w bs Hv HW; cbn [ser_variant enc_variant valid_variant] in *; [discriminate|].
  destruct k as [|k]; [apply Hf; assumption|apply IH; assumption].
Qed.

(* the representation of a structure or union ends on a multiple of its alignment *)
Lemma enc_composite_len t v o : (match t with TStruct _ _ | TUnion _ _ => true | _ => false end) = true ->
  (o + zlen (enc t v o)) mod 8 = 0 \/ enc t v o = [].
Proof.
  destruct t; try discriminate; intros _; cbn [enc]; destruct v; auto; left; rewrite max_align_fields;
    rewrite zlen_app, zlen_zero_bits by (apply pad_len_range; lia); rewrite Z.add_assoc; apply pad_len_aligned; lia.
Qed.

Theorem ser_enc : forall t, wft t = true -> ser_ok t.
Proof.
  induction t as [p|wd|e n IHe|e n IHe|nm fs IHfs|nm fs IHfs|i ext IHi] using ty_ind'; intros Hwf; unfold ser_ok; intros v w bs Hv HW;
    cbn [wft] in Hwf; cbn [validb] in Hv; cbn [ser enc].
  - apply ser_prim_enc; assumption.
  - eexists; split; [reflexivity|]. rewrite <- (low_bits_zero (Z.to_nat wd) wd eq_refl). apply write_bits_WR; [lia|assumption].
  - apply andb_prop in Hwf. destruct Hwf as [Hwe Hn]. destruct v; try discriminate.
    apply andb_prop in Hv. destruct Hv as [Hl Hvs]. rewrite Hl. apply ser_elems_enc; auto.
  - apply andb_prop in Hwf. destruct Hwf as [Hwf Hb]. apply andb_prop in Hwf. destruct Hwf as [Hwe Hn].
    destruct v; try discriminate. apply andb_prop in Hv. destruct Hv as [Hv Hu]. apply andb_prop in Hv. destruct Hv as [Hl Hvs].
    assert (U : is_utf8 e && negb match byte_values vs with Some bs0 => utf8_valid bs0 | None => false end = false).
    { destruct (is_utf8 e); [|reflexivity]. rewrite Hu. reflexivity. }
    rewrite U, Hl. pose proof (prefix_width_pos (align e) n (align_pos e)) as Hp.
    pose proof (write_bits_WR w bs (zlen vs) (prefix_width (align e) n) ltac:(lia) HW) as W1.
    destruct (ser_elems_enc e (IHe Hwe) vs _ _ Hvs W1) as (w2 & E2 & W2). exists w2. split; [exact E2|].
    rewrite zlen_app, zlen_low_bits in W2. rewrite <- app_assoc in W2.
    replace (Z.of_nat (Z.to_nat (prefix_width (align e) n))) with (prefix_width (align e) n) in W2 by lia. exact W2.
  - destruct v; try discriminate.
    assert (IH' : Forall (fun f => ser_ok (snd f)) fs).
    { apply Forall_forall. intros f Hf. apply (proj1 (Forall_forall _ _) IHfs f Hf).
      unfold all_fields_ok in Hwf. rewrite forallb_forall in Hwf. apply Hwf. assumption. }
    destruct (ser_fields_enc fs IH' Hwf vs w bs Hv HW) as (w1 & E1 & W1). rewrite E1.
    eexists; split; [reflexivity|].
    pose proof (w_align_to_WR w1 _ (max_align align fs) ltac:(rewrite max_align_fields; lia) W1) as W2.
    rewrite zlen_app in W2. rewrite <- app_assoc in W2. exact W2.
  - destruct v; try discriminate. apply andb_prop in Hv. destruct Hv as [Hk Hvv]. rewrite Hk.
    apply andb_prop in Hwf. destruct Hwf as [Hwf _]. apply andb_prop in Hwf. destruct Hwf as [Hwf _].
    assert (IH' : Forall (fun f => ser_ok (snd f)) fs).
    { apply Forall_forall. intros f Hf. apply (proj1 (Forall_forall _ _) IHfs f Hf).
      unfold all_fields_ok in Hwf. rewrite forallb_forall in Hwf. apply Hwf. assumption. }
    pose proof (union_tag_width_nonneg fs) as Htw.
    pose proof (write_bits_WR w bs k (union_tag_width fs) Htw HW) as W1.
    destruct (ser_variant_enc fs IH' (Z.to_nat k) v _ _ Hvv W1) as (w2 & E2 & W2). rewrite E2.
    eexists; split; [reflexivity|].
    pose proof (w_align_to_WR w2 _ (max_align align fs) ltac:(rewrite max_align_fields; lia) W2) as W3.
    rewrite !zlen_app, zlen_low_bits in W3. rewrite <- !app_assoc in W3.
    replace (Z.of_nat (Z.to_nat (union_tag_width fs))) with (union_tag_width fs) in W3 by lia.
    rewrite zlen_app, zlen_low_bits. rewrite <- !app_assoc.
    replace (Z.of_nat (Z.to_nat (union_tag_width fs))) with (union_tag_width fs) by lia.
    replace (zlen bs + (union_tag_width fs + zlen (enc_variant enc fs (Z.to_nat k) v (zlen bs + union_tag_width fs))))
      with (zlen bs + union_tag_width fs + zlen (enc_variant enc fs (Z.to_nat k) v (zlen bs + union_tag_width fs))) by lia.
    exact W3.
  - (* delimited: the inner object goes through a temporary writer *)
    apply andb_prop in Hwf. destruct Hwf as [Hwf _]. apply andb_prop in Hwf. destruct Hwf as [Hwf _].
    apply andb_prop in Hwf. destruct Hwf as [Hwi Hc]. apply andb_prop in Hv. destruct Hv as [Hv Hfit].
    destruct (IHi Hwi v w_new [] Hv WR_new) as (wi & Ei & Wi). rewrite Ei. cbn [app] in Wi.
    change (zlen (@nil bool)) with 0 in Wi.
    assert (M8 : zlen (enc i v 0) mod 8 = 0).
    { destruct (enc_composite_len i v 0 ltac:(destruct i; try discriminate; reflexivity)) as [H|H]; [exact H|rewrite H; reflexivity]. }
    pose proof (WR_packs wi _ Wi M8) as Pk. pose proof (packs_eq _ _ Pk) as Eb. destruct Pk as (Ob & Lb & _).
    eexists; split; [reflexivity|].
    pose proof (header_width_pos (align i)) as Hh.
    pose proof (write_bits_WR w bs (zlen (w_finish wi)) (header_width (align i)) ltac:(lia) HW) as W1.
    pose proof (write_bytes_WR (w_finish wi) _ _ W1) as W2. rewrite Eb in W2. rewrite <- app_assoc in W2.
    replace (zlen (enc i v 0) / 8) with (zlen (w_finish wi)) by lia. exact W2.
Qed.
