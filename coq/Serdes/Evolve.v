(* "t2 is t1 with nested delimited structures replaced by revisions that append or remove trailing fields, the extent
   kept": a decidable relation on types.  Definitions only. *)
From Coq Require Import ZArith List Bool.
From PV Require Import BLS.Model Layout.Types.
Import ListNotations.
Open Scope Z_scope.

Definition cast_eqb (c d : cast) : bool := match c, d with Sat, Sat | Trunc, Trunc => true | _, _ => false end.

Definition prim_eqb (p q : prim) : bool :=
  match p, q with
  | PBool, PBool | PByte, PByte | PUtf8, PUtf8 => true
  | PUInt w c, PUInt w' c' | PFloat w c, PFloat w' c' => (w =? w') && cast_eqb c c'
  | PSInt w, PSInt w' => w =? w'
  | _, _ => false
  end.

Definition same_kind (a b : option str) : bool :=
  match a, b with None, None => true | Some _, Some _ => true | _, _ => false end.

Section Ev.
Variable E : ty -> ty -> bool.
(* field lists of equal length, pairwise related *)
Fixpoint fields_evolve (a b : list (option str * ty)) : bool :=
  match a, b with
  | [], [] => true
  | x :: a', y :: b' => same_kind (fst x) (fst y) && E (snd x) (snd y) && fields_evolve a' b'
  | _, _ => false
  end.
(* pairwise related on the common prefix; one list may continue with anything *)
Fixpoint fields_prefix_evolve (a b : list (option str * ty)) : bool :=
  match a, b with
  | [], _ => true
  | _, [] => true
  | x :: a', y :: b' => same_kind (fst x) (fst y) && E (snd x) (snd y) && fields_prefix_evolve a' b'
  end.
End Ev.

Fixpoint evolves (t1 t2 : ty) {struct t1} : bool :=
  match t1, t2 with
  | TPrim p, TPrim q => prim_eqb p q
  | TVoid w, TVoid w' => w =? w'
  | TFix e n, TFix e' n' => (n =? n') && evolves e e'
  | TVar e n, TVar e' n' => (n =? n') && evolves e e'
  | TStruct _ fs, TStruct _ gs => fields_evolve evolves fs gs
  | TUnion _ fs, TUnion _ gs => fields_evolve evolves fs gs
  | TDelim (TStruct _ fs) x, TDelim (TStruct _ gs) x' => (x =? x') && fields_prefix_evolve evolves fs gs
  | TDelim i x, TDelim i' x' => (x =? x') && evolves i i'
  | _, _ => false
  end.

(* ---------- values across revisions ---------- *)
From PV Require Import Serdes.Model.

(* [conv t t' v]: what a reader of type t' makes of the (canonical) value v written with type t when [evolves t t']:
   common leading fields of a nested delimited structure keep their values, fields the writer does not know read as
   the zero value, fields the reader does not know are dropped; everything else is unchanged. *)
Section ConvHelpers.
Variable C : ty -> ty -> val -> val.
Fixpoint conv_fields (fs gs : list (option str * ty)) (vs : list val) : list val :=
  match fs with
  | [] => default_fields default_value gs
  | (None, _) :: fr => match gs with [] => [] | _ :: gr => conv_fields fr gr vs end
  | (Some _, t) :: fr =>
      match gs with
      | [] => []
      | g :: gr => match vs with [] => [] | v :: vs' => C t (snd g) v :: conv_fields fr gr vs' end
      end
  end.
Fixpoint conv_variant (fs gs : list (option str * ty)) (k : nat) (x : val) : val :=
  match fs with
  | [] => x
  | f :: fr =>
      match gs with
      | [] => x
      | g :: gr => match k with O => C (snd f) (snd g) x | S k' => conv_variant fr gr k' x end
      end
  end.
End ConvHelpers.

Fixpoint conv (t t' : ty) (v : val) {struct t} : val :=
  match t with
  | TFix e _ =>
      match t', v with (TFix e' _ | TVar e' _), VList vs => VList (map (conv e e') vs) | _, _ => v end
  | TVar e _ =>
      match t', v with (TFix e' _ | TVar e' _), VList vs => VList (map (conv e e') vs) | _, _ => v end
  | TStruct _ fs =>
      match t', v with TStruct _ gs, VStruct vs => VStruct (conv_fields conv fs gs vs) | _, _ => v end
  | TUnion _ fs =>
      match t', v with TUnion _ gs, VUnion k x => VUnion k (conv_variant conv fs gs (Z.to_nat k) x) | _, _ => v end
  | TDelim i _ => match t' with TDelim i' _ => conv i i' v | _ => v end
  | _ => v
  end.
