(* "t2 is t1 with nested delimited structures replaced by revisions that append or remove trailing fields, the extent
   kept": a decidable relation on types.  Definitions only. *)
From Coq Require Import ZArith List Bool.
From PV Require Import BLS.Model Layout.Types.
Import ListNotations.
Open Scope Z_scope.

Definition cast_eqb (c d : cast) : bool := match c, d with Sat, Sat | Trunc, Trunc => true | _, _ => false end.

Definition prim_eqb (p q : prim) : bool :=
  match p, q with
  | PBool, PBool | PByte, PByte | PUtf8, PUtf8 => true
  | PUInt w c, PUInt w' c' | PFloat w c, PFloat w' c' => (w =? w') && cast_eqb c c'
  | PSInt w, PSInt w' => w =? w'
  | _, _ => false
  end.

Definition same_kind (a b : option str) : bool :=
  match a, b with None, None => true | Some _, Some _ => true | _, _ => false end.

Section Ev.
Variable E : ty -> ty -> bool.
(* field lists of equal length, pairwise related *)
Fixpoint fields_evolve (a b : list (option str * ty)) : bool :=
  match a, b with
  | [], [] => true
  | x :: a', y :: b' => same_kind (fst x) (fst y) && E (snd x) (snd y) && fields_evolve a' b'
  | _, _ => false
  end.
(* pairwise related on the common prefix; one list may continue with anything *)
Fixpoint fields_prefix_evolve (a b : list (option str * ty)) : bool :=
  match a, b with
  | [], _ => true
  | _, [] => true
  | x :: a', y :: b' => same_kind (fst x) (fst y) && E (snd x) (snd y) && fields_prefix_evolve a' b'
  end.
End Ev.

Fixpoint evolves (t1 t2 : ty) {struct t1} : bool :=
  match t1, t2 with
  | TPrim p, TPrim q => prim_eqb p q
  | TVoid w, TVoid w' => w =? w'
  | TFix e n, TFix e' n' => (n =? n') && evolves e e'
  | TVar e n, TVar e' n' => (n =? n') && evolves e e'
  | TStruct _ fs, TStruct _ gs => fields_evolve evolves fs gs
  | TUnion _ fs, TUnion _ gs => fields_evolve evolves fs gs
  | TDelim (TStruct _ fs) x, TDelim (TStruct _ gs) x' => (x =? x') && fields_prefix_evolve evolves fs gs
  | TDelim i x, TDelim i' x' => (x =? x') && evolves i i'
  | _, _ => false
  end.
