(* The wire format as the Specification states it, on bit lists, written without reference to writers, readers or
   buffers.  Definitions only.

   enc t v o : the bits of value v of type t when its first bit is placed at a bit offset congruent to o
     - unsigned n-bit field: the n low bits, least significant first (little-endian bytes, LSB first within a byte);
     - signed: two's complement, i.e. the value reduced modulo 2^n;
     - float: the IEEE 754 pattern of the value converted to the field's format (Float.v);
     - out-of-range integers: clamped (saturated) or reduced modulo 2^n (truncated);
     - fixed array: the elements; variable array: the length prefix, then the elements;
     - structure: every field preceded by zero bits up to its alignment, zero bits up to the structure's alignment at the
       end; absent fields hold the zero value;
     - union: the tag (index of the variant), the variant, zero bits up to the union's alignment;
     - delimited: the header = number of BYTES of the inner representation, then the inner representation.
   canon t v : the value a reader gets back (defaults filled in, numbers cast).
   validb t v : v has the shape of t (what serialize accepts without raising). *)
From Coq Require Import ZArith List Bool.
From PV Require Import BLS.Model Layout.Types Serdes.Float Serdes.Utf8 Serdes.Model Serdes.Bits.
Import ListNotations.
Open Scope Z_scope.

(* ---------- casts ---------- *)
Definition bool_of (v : val) : option bool :=
  match v with VBool b => Some b | VInt z => Some (negb (z =? 0)) | _ => None end.

(* the integer a field of primitive type p holds after the cast, as the reader reports it *)
Definition cast_int (p : prim) (z : Z) : Z :=
  match p with
  | PUInt w Sat => clamp 0 (2 ^ w - 1) z
  | PUInt w Trunc => z mod 2 ^ w
  | PSInt w => clamp (- 2 ^ (w - 1)) (2 ^ (w - 1) - 1) z
  | PByte | PUtf8 => z mod 256
  | _ => z
  end.

Definition canon_prim (p : prim) (v : val) : val :=
  match p with
  | PBool => match bool_of v with Some b => VBool b | None => v end
  | PFloat w c => match v with VFlt b => VFlt (fwiden w (fcast c w b)) | _ => v end
  | _ => match as_int v with Some z => VInt (cast_int p z) | None => v end
  end.

(* the bits of a (cast) primitive *)
Definition enc_prim (p : prim) (v : val) : list bool :=
  match canon_prim p v with
  | VBool b => [b]
  | VInt z => low_bits (Z.to_nat (prim_width p)) (z mod 2 ^ prim_width p)    (* two's complement *)
  | VFlt _ => match p, v with PFloat w c, VFlt b => low_bits (Z.to_nat w) (fcast c w b) | _, _ => [] end
  | _ => []
  end.

Definition valid_prim (p : prim) (v : val) : bool :=
  match p with
  | PBool => match bool_of v with Some _ => true | None => false end
  | PFloat _ _ => match v with VFlt b => (0 <=? b) && (b <? 2 ^ 64) | _ => false end
  | _ => match as_int v with Some _ => true | None => false end
  end.

(* ---------- canonical value ---------- *)
Section CanonFields.
Variable C : ty -> val -> val.
Fixpoint canon_fields (fs : list (option str * ty)) (vs : list val) : list val :=
  match fs with
  | [] => []
  | (None, _) :: r => canon_fields r vs
  | (Some _, t) :: r =>
      match vs with
      | [] => []
      | v :: vs' => C t (match v with VOmit => default_value t | _ => v end) :: canon_fields r vs'
      end
  end.
Fixpoint canon_variant (fs : list (option str * ty)) (k : nat) (v : val) : val :=
  match fs with
  | [] => v
  | f :: r => match k with O => C (snd f) v | S k' => canon_variant r k' v end
  end.
End CanonFields.

Fixpoint canon (t : ty) (v : val) {struct t} : val :=
  match t with
  | TPrim p => canon_prim p v
  | TVoid _ => VOmit
  | TFix e _ | TVar e _ => match v with VList vs => VList (map (canon e) vs) | _ => v end
  | TStruct _ fs => match v with VStruct vs => VStruct (canon_fields canon fs vs) | _ => v end
  | TUnion _ fs => match v with VUnion k x => VUnion k (canon_variant canon fs (Z.to_nat k) x) | _ => v end
  | TDelim i _ => canon i v
  end.

(* ---------- the encoding ---------- *)
Section EncHelpers.
Variable E : ty -> val -> Z -> list bool.

Section Elems.
Variable Ee : val -> Z -> list bool.
Fixpoint enc_elems (vs : list val) (o : Z) : list bool :=
  match vs with
  | [] => []
  | v :: r => let b := Ee v o in b ++ enc_elems r (o + zlen b)
  end.
End Elems.

Fixpoint enc_fields (fs : list (option str * ty)) (vs : list val) (o : Z) : list bool :=
  match fs with
  | [] => []
  | (None, t) :: r =>
      let p := zero_bits (pad_len (align t) o) ++ zero_bits (void_width t) in
      p ++ enc_fields r vs (o + zlen p)
  | (Some _, t) :: r =>
      match vs with
      | [] => []
      | v :: vs' =>
          let p := zero_bits (pad_len (align t) o) in
          let b := E t (match v with VOmit => default_value t | _ => v end) (o + zlen p) in
          p ++ b ++ enc_fields r vs' (o + zlen p + zlen b)
      end
  end.

Fixpoint enc_variant (fs : list (option str * ty)) (k : nat) (v : val) (o : Z) : list bool :=
  match fs with
  | [] => []
  | f :: r => match k with O => E (snd f) v o | S k' => enc_variant r k' v o end
  end.
End EncHelpers.

Fixpoint enc (t : ty) (v : val) (o : Z) {struct t} : list bool :=
  match t with
  | TPrim p => enc_prim p v
  | TVoid w => zero_bits w
  | TFix e _ => match v with VList vs => enc_elems (enc e) vs o | _ => [] end
  | TVar e n =>
      match v with
      | VList vs =>
          let pw := prefix_width (align e) n in
          low_bits (Z.to_nat pw) (zlen vs) ++ enc_elems (enc e) vs (o + pw)
      | _ => []
      end
  | TStruct _ fs =>
      match v with
      | VStruct vs => let b := enc_fields enc fs vs o in b ++ zero_bits (pad_len (max_align align fs) (o + zlen b))
      | _ => []
      end
  | TUnion _ fs =>
      match v with
      | VUnion k x =>
          let tw := union_tag_width fs in
          let b := low_bits (Z.to_nat tw) k ++ enc_variant enc fs (Z.to_nat k) x (o + tw) in
          b ++ zero_bits (pad_len (max_align align fs) (o + zlen b))
      | _ => []
      end
  | TDelim i _ =>
      let b := enc i v 0 in
      low_bits (Z.to_nat (header_width (align i))) (zlen b / 8) ++ b
  end.

(* ---------- validity ---------- *)
Section ValidFields.
Variable V : ty -> val -> bool.
Fixpoint valid_fields (fs : list (option str * ty)) (vs : list val) : bool :=
  match fs with
  | [] => match vs with [] => true | _ => false end
  | (None, _) :: r => valid_fields r vs
  | (Some _, t) :: r =>
      match vs with
      | [] => false
      | v :: vs' => V t (match v with VOmit => default_value t | _ => v end) && valid_fields r vs'
      end
  end.
Fixpoint valid_variant (fs : list (option str * ty)) (k : nat) (v : val) : bool :=
  match fs with
  | [] => false
  | f :: r => match k with O => V (snd f) v | S k' => valid_variant r k' v end
  end.
End ValidFields.

Fixpoint validb (t : ty) (v : val) {struct t} : bool :=
  match t with
  | TPrim p => valid_prim p v
  | TVoid _ => true
  | TFix e n => match v with VList vs => (zlen vs =? n) && forallb (validb e) vs | _ => false end
  | TVar e n =>
      match v with
      | VList vs =>
          (zlen vs <=? n) && forallb (validb e) vs &&
          (if is_utf8 e then match byte_values vs with Some bs => utf8_valid bs | None => false end else true)
      | _ => false
      end
  | TStruct _ fs => match v with VStruct vs => valid_fields validb fs vs | _ => false end
  | TUnion _ fs => match v with VUnion k x => (0 <=? k) && (k <? zlen fs) && valid_variant validb fs (Z.to_nat k) x | _ => false end
  | TDelim i _ =>
      (* the byte length of the inner representation must fit the header (always the case when the extent is below 2^35
         bits); pydsdl would silently truncate the header otherwise *)
      validb i v && (zlen (enc i v 0) / 8 <? 2 ^ header_width (align i))
  end.

(* the top level: a delimited type is written without its header unless asked for *)
Definition spec_enc (t : ty) (v : val) (hdr : bool) : list bool :=
  match t with
  | TDelim i _ => if hdr then enc t v 0 else enc i v 0
  | _ => enc t v 0
  end.

(* the type whose bit length set contains the produced length *)
Definition payload_type (t : ty) (hdr : bool) : ty :=
  match t with
  | TDelim i _ => if hdr then t else i
  | _ => t
  end.
