(* Bit-level vocabulary of the wire format. Definitions only.
   A serialized representation is a list of bits; bit j of a byte string is bit (j mod 8) of byte (j / 8)
   (least significant bit first); an n-bit field holding v is the list of the n low bits of v, least significant first
   (little-endian, two's complement when v is reduced modulo 2^n). *)
From Coq Require Import ZArith List Bool.
From PV Require Import Serdes.Model.
Import ListNotations.
Open Scope Z_scope.

Definition getbit (buf : list Z) (j : Z) : bool := Z.testbit (nth (Z.to_nat (j / 8)) buf 0) (j mod 8).

Definition byte_ok (b : Z) : Prop := 0 <= b < 256.
Definition bytes_ok (buf : list Z) : Prop := Forall byte_ok buf.

(* the n low bits of v, least significant first *)
Definition low_bits (n : nat) (v : Z) : list bool := map (fun k => Z.testbit v (Z.of_nat k)) (seq 0 n).

Definition bit_at (bs : list bool) (j : Z) : bool := nth (Z.to_nat j) bs false.

(* [bytes] is the byte string that carries exactly the bit list [bs] (whose length is a multiple of 8) *)
Definition packs (bytes : list Z) (bs : list bool) : Prop :=
  bytes_ok bytes /\ 8 * zlen bytes = zlen bs /\ forall j, 0 <= j -> getbit bytes j = bit_at bs j.

Definition zero_bits (n : Z) : list bool := repeat false (Z.to_nat n).

(* number of pad bits that bring offset o to a multiple of a *)
Definition pad_len (a o : Z) : Z := (- o) mod a.
