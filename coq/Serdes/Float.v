(* IEEE 754 binary16/32/64 as bit patterns (Z). Definitions only.
   A Python float is its binary64 pattern.  [fcast] models what _serialize_primitive does with a Python float for a
   FloatType field: optional clamp to +-max finite (saturated), then struct.pack('<e'/'<f'/'<d') which rounds to nearest
   even and raises OverflowError when a finite value rounds to infinity - the code then writes the infinity of that sign.
   [fwiden] models struct.unpack (exact widening to binary64).  NaN: every NaN is represented by ONE canonical quiet
   NaN (positive, zero payload); the harness maps every NaN it observes to that pattern (payload/sign of NaN are not
   pinned by the property). *)
From Coq Require Import ZArith Bool.
From PV Require Import Layout.Types.
Open Scope Z_scope.

Inductive fval :=
| FNaN
| FInf (s : bool)
| FFin (s : bool) (m e : Z).      (* (-1)^s * m * 2^e with m >= 0 *)

(* exponent / mantissa field widths of the format with w bits in total *)
Definition f_ebits (w : Z) : Z := if w =? 16 then 5 else if w =? 32 then 8 else 11.
Definition f_mbits (w : Z) : Z := if w =? 16 then 10 else if w =? 32 then 23 else 52.

Definition fdecode (w bits : Z) : fval :=
  let eb := f_ebits w in let mb := f_mbits w in
  let s := Z.testbit bits (eb + mb) in
  let e := (bits / 2 ^ mb) mod 2 ^ eb in
  let m := bits mod 2 ^ mb in
  let bias := 2 ^ (eb - 1) - 1 in
  if e =? 2 ^ eb - 1 then (if m =? 0 then FInf s else FNaN)
  else if e =? 0 then FFin s m (1 - bias - mb)
  else FFin s (2 ^ mb + m) (e - bias - mb).

(* round(m * 2^k) to nearest, ties to even *)
Definition rne_shift (m k : Z) : Z :=
  if 0 <=? k then m * 2 ^ k
  else let d := 2 ^ (- k) in
       let q := m / d in let r := m mod d in
       if 2 * r <? d then q else if d <? 2 * r then q + 1 else if Z.even q then q else q + 1.

Definition f_inf (w : Z) : Z := (2 ^ f_ebits w - 1) * 2 ^ f_mbits w.
Definition f_sign (w : Z) (s : bool) : Z := if s then 2 ^ (w - 1) else 0.
Definition f_nan (w : Z) : Z := f_inf w + 2 ^ (f_mbits w - 1).

Definition fencode (w : Z) (x : fval) : Z :=
  let eb := f_ebits w in let mb := f_mbits w in
  match x with
  | FNaN => f_nan w
  | FInf s => f_sign w s + f_inf w
  | FFin s m e =>
      if m <=? 0 then f_sign w s
      else
        let bias := 2 ^ (eb - 1) - 1 in
        let emin := 1 - bias in
        let p := Z.log2 m + e in                 (* floor(log2 |x|) *)
        let pe := Z.max p emin in
        let mant := rne_shift m (e - (pe - mb)) in  (* in units of 2^(pe-mb); 2^mb <= mant <= 2^(mb+1) when normal *)
        let body := if mant <? 2 ^ mb then mant else (pe + bias) * 2 ^ mb + (mant - 2 ^ mb) in
        f_sign w s + Z.min body (f_inf w)          (* a carry into / an exponent beyond the top is infinity *)
  end.

(* |m * 2^e| > |M * 2^E| *)
Definition mag_gt (m e M E : Z) : bool :=
  if E <=? e then M <? m * 2 ^ (e - E) else M * 2 ^ (E - e) <? m.

(* max finite magnitude of the format *)
Definition f_max_m (w : Z) : Z := 2 ^ (f_mbits w + 1) - 1.
Definition f_max_e (w : Z) : Z := (2 ^ (f_ebits w - 1) - 1) - f_mbits w.

Definition fclamp (w : Z) (x : fval) : fval :=
  match x with
  | FFin s m e => if mag_gt m e (f_max_m w) (f_max_e w) then FFin s (f_max_m w) (f_max_e w) else x
  | _ => x
  end.

(* binary64 pattern of the Python float -> pattern written into a float field of width w *)
Definition fcast (c : cast) (w : Z) (b64 : Z) : Z :=
  let x := fdecode 64 b64 in
  fencode w (match c with Sat => fclamp w x | Trunc => x end).

(* pattern read from a float field of width w -> binary64 pattern of the Python float returned *)
Definition fwiden (w : Z) (bits : Z) : Z := fencode 64 (fdecode w bits).
