(* The offset/limit reader returns the zero-extended, limit-clipped slice of the data bits: both read paths. *)
From Coq Require Import ZArith List Bool Lia ZifyBool.
From PV Require Import Serdes.Model Serdes.Bits Serdes.BitsProofs.
Import ListNotations.
Open Scope Z_scope.

Ltac Zify.zify_post_hook ::= Z.to_euclidean_division_equations.

(* the bit a reader sees at absolute position j: the data bit when j is inside the data and below the limit, else 0 *)
Definition within (r : reader) (j : Z) : bool := match rlimit r with Some l => j <? rstart r + l | None => true end.
Definition rbit (r : reader) (j : Z) : bool := within r j && getbit (rdata r) j.

Lemma testbit_b2z b m : Z.testbit (Z.b2z b) m = b && (m =? 0).
Proof. destruct b.
  - change (Z.b2z true) with 1. rewrite testbit_1. reflexivity.
  - change (Z.b2z false) with 0. rewrite Z.testbit_0_l. reflexivity.
Qed.

Lemma byte_at_getbit data p : 0 <= p -> Z.land (Z.shiftr (byte_at data (p / 8)) (p mod 8)) 1 = Z.b2z (getbit data p).
Proof.
  intros Hp. rewrite land_1. rewrite Z.shiftr_spec by lia. unfold byte_at, getbit. replace (0 + p mod 8) with (p mod 8) by lia. reflexivity.
Qed.

Lemma read_loop_spec n : forall i data off acc, 0 <= i -> 0 <= off -> 0 <= acc ->
  0 <= read_loop n i data off acc /\
  forall k, 0 <= k -> Z.testbit (read_loop n i data off acc) k =
                      if (i <=? k) && (k <? i + Z.of_nat n) then Z.testbit acc k || getbit data (off + k) else Z.testbit acc k.
Proof.
  induction n as [|n IH]; intros i data off acc Hi Hoff Hacc.
  - cbn [read_loop]. split; [assumption|]. intros k Hk. replace ((i <=? k) && (k <? i + Z.of_nat 0)) with false by lia. reflexivity.
  - cbn [read_loop]. rewrite byte_at_getbit by lia.
    set (acc' := Z.lor acc (Z.shiftl (Z.b2z (getbit data (off + i))) i)).
    assert (Hacc' : 0 <= acc').
    { subst acc'. apply Z.lor_nonneg. split; [assumption|]. apply Z.shiftl_nonneg. destruct (getbit data (off + i)); simpl; lia. }
    destruct (IH (i + 1) data off acc' ltac:(lia) Hoff Hacc') as [N T]. split; [assumption|].
    intros k Hk. rewrite T by assumption. subst acc'. rewrite Z.lor_spec, Z.shiftl_spec by lia. rewrite testbit_b2z.
    destruct (Z.eq_dec k i) as [->|Ne].
    + replace ((i + 1 <=? i) && (i <? i + 1 + Z.of_nat n)) with false by lia.
      replace ((i <=? i) && (i <? i + Z.of_nat (S n))) with true by lia. replace (i - i =? 0) with true by lia.
      rewrite andb_true_r. reflexivity.
    + replace (k - i =? 0) with false by lia. rewrite andb_false_r, orb_false_r.
      replace ((i + 1 <=? k) && (k <? i + 1 + Z.of_nat n)) with ((i <=? k) && (k <? i + Z.of_nat (S n))) by lia. reflexivity.
Qed.

Lemma read_slow_spec r n : 0 <= n -> 0 <= roff r ->
  snd (read_slow r n) = r_adv r n /\ 0 <= fst (read_slow r n) < 2 ^ n /\
  forall k, 0 <= k < n -> Z.testbit (fst (read_slow r n)) k = getbit (rdata r) (roff r + k).
Proof.
  intros Hn Hoff. unfold read_slow. cbn [fst snd]. split; [reflexivity|].
  destruct (read_loop_spec (Z.to_nat n) 0 (rdata r) (roff r) 0 ltac:(lia) Hoff ltac:(lia)) as [N T].
  split; [split; [assumption|]|].
  - apply bounded_by_bits; [assumption|assumption|]. intros i Hi. rewrite T by lia.
    replace ((0 <=? i) && (i <? 0 + Z.of_nat (Z.to_nat n))) with false by lia. apply Z.testbit_0_l.
  - intros k Hk. rewrite T by lia. replace ((0 <=? k) && (k <? 0 + Z.of_nat (Z.to_nat n))) with true by lia.
    rewrite Z.testbit_0_l. reflexivity.
Qed.

Lemma nth_skipn {A} s : forall (l : list A) i d, nth i (skipn s l) d = nth (s + i) l d.
Proof. induction s as [|s IH]; intros [|x l] i d; simpl; auto. destruct i; reflexivity. Qed.

Lemma nth_firstn_lt {A} n : forall (l : list A) i d, (i < n)%nat -> nth i (firstn n l) d = nth i l d.
Proof. induction n as [|n IH]; intros [|x l] [|i] d H; simpl; auto; try lia. apply IH. lia. Qed.

Lemma nth_chunk full s data i : (i < full)%nat ->
  nth i (firstn full (skipn s data) ++ zeros (Z.of_nat full - zlen (firstn full (skipn s data)))) 0 = nth (s + i) data 0.
Proof.
  intros H. set (c := firstn full (skipn s data)). destruct (Nat.lt_ge_cases i (length c)) as [L|L].
  - rewrite app_nth1 by assumption. subst c. rewrite nth_firstn_lt by assumption. apply nth_skipn.
  - rewrite app_nth2 by assumption. unfold zeros.
    assert (E : nth (s + i) data 0 = 0).
    { apply nth_overflow. subst c. rewrite firstn_length, skipn_length in L. lia. }
    rewrite E. destruct (Nat.lt_ge_cases (i - length c) (Z.to_nat (Z.of_nat full - zlen c))).
    + apply nth_repeat.
    + apply nth_overflow. rewrite repeat_length. lia.
Qed.

Lemma bytes_ok_skipn s : forall l, bytes_ok l -> bytes_ok (skipn s l).
Proof. induction s as [|s IH]; intros [|x l] H; simpl; auto. inversion H; subst. apply IH. assumption. Qed.

Lemma bytes_ok_firstn n : forall l, bytes_ok l -> bytes_ok (firstn n l).
Proof.
  induction n as [|n IH]; intros l H; [constructor|]. destruct l as [|x l]; [constructor|].
  cbn [firstn]. inversion H; subst. constructor; [assumption|]. apply IH. assumption.
Qed.

Lemma bytes_ok_zeros k : bytes_ok (zeros k).
Proof. apply Forall_forall. intros x Hx. apply repeat_spec in Hx. subst. unfold byte_ok. lia. Qed.

Lemma read_raw_spec r n : bytes_ok (rdata r) -> 0 <= n -> 0 <= roff r ->
  snd (read_raw r n) = r_adv r n /\ 0 <= fst (read_raw r n) < 2 ^ n /\ forall k, 0 <= k < n -> Z.testbit (fst (read_raw r n)) k = getbit (rdata r) (roff r + k).
Proof.
  intros Hd Hn Hoff. unfold read_raw. destruct ((roff r mod 8 =? 0) && (8 <=? n)) eqn:C; [|apply read_slow_spec; assumption].
  apply andb_prop in C. destruct C as [C1 C2].
  set (full := n / 8). set (rem := n mod 8). set (s := roff r / 8).
  set (c0 := firstn (Z.to_nat full) (skipn (Z.to_nat s) (rdata r))).
  set (chunk := c0 ++ zeros (full - zlen c0)).
  assert (Hfull : 0 <= full) by (subst full; lia).
  assert (Lc0 : zlen c0 <= full) by (subst c0; unfold zlen; rewrite firstn_length; lia).
  assert (Lc : zlen chunk = full) by (subst chunk; rewrite zlen_app, zlen_zeros; lia).
  assert (Oc : bytes_ok chunk).
  { subst chunk c0. apply bytes_ok_app; [apply bytes_ok_firstn, bytes_ok_skipn; assumption|apply bytes_ok_zeros]. }
  assert (Gc : forall j, 0 <= j < 8 * full -> getbit chunk j = getbit (rdata r) (roff r + j)).
  { intros j Hj. unfold getbit. replace ((roff r + j) mod 8) with (j mod 8) by lia. f_equal.
    subst chunk c0. replace (full - zlen (firstn (Z.to_nat full) (skipn (Z.to_nat s) (rdata r))))
      with (Z.of_nat (Z.to_nat full) - zlen (firstn (Z.to_nat full) (skipn (Z.to_nat s) (rdata r)))) by lia.
    rewrite nth_chunk by lia. f_equal. subst s. lia. }
  pose proof (from_bytes_le_nonneg chunk Oc) as N0.
  pose proof (from_bytes_le_bound chunk Oc) as B0. rewrite Lc in B0.
  assert (T0 : forall j, 0 <= j -> Z.testbit (from_bytes_le chunk) j = if j <? 8 * full then getbit (rdata r) (roff r + j) else false).
  { intros j Hj. rewrite testbit_from_bytes_le by assumption. destruct (j <? 8 * full) eqn:D; [apply Gc; lia|].
    apply getbit_beyond. lia. }
  destruct (0 <? rem) eqn:R.
  - pose proof (read_slow_spec (r_adv r (full * 8)) rem ltac:(subst rem; lia) ltac:(cbn [roff r_adv]; lia)) as (S1 & S2 & S3).
    destruct (read_slow (r_adv r (full * 8)) rem) as [hi r2] eqn:E. cbn [fst snd] in *.
    split. { rewrite S1. unfold r_adv. cbn [rdata rstart roff rlimit]. f_equal. subst full rem. lia. }
    assert (T : forall k, 0 <= k -> Z.testbit (Z.lor (from_bytes_le chunk) (Z.shiftl hi (full * 8))) k =
                 if k <? 8 * full then getbit (rdata r) (roff r + k) else Z.testbit hi (k - full * 8)).
    { intros k Hk. rewrite Z.lor_spec, Z.shiftl_spec by lia. rewrite T0 by assumption.
      destruct (k <? 8 * full) eqn:D; [|reflexivity]. rewrite (Z.testbit_neg_r hi) by lia. apply orb_false_r. }
    split.
    + split. { apply Z.lor_nonneg. split; [assumption|]. apply Z.shiftl_nonneg. lia. }
      apply bounded_by_bits; [assumption| |].
      { apply Z.lor_nonneg. split; [assumption|]. apply Z.shiftl_nonneg. lia. }
      intros i Hi. rewrite T by lia. replace (i <? 8 * full) with false by (subst full; lia).
      apply (bits_above rem); [lia|subst full rem; lia].
    + intros k Hk. rewrite T by lia. destruct (k <? 8 * full) eqn:D; [reflexivity|].
      rewrite S3 by (subst full rem; lia). cbn [rdata roff r_adv]. f_equal. lia.
  - cbn [fst snd]. assert (n = full * 8) by (subst full rem; lia). split; [rewrite H; reflexivity|].
    split. { split; [assumption|]. rewrite H. replace (full * 8) with (8 * full) by lia. assumption. }
    intros k Hk. rewrite T0 by lia. replace (k <? 8 * full) with true by lia. reflexivity.
Qed.

Theorem read_bits_spec r n : bytes_ok (rdata r) -> 0 <= n -> 0 <= roff r ->
  snd (read_bits r n) = r_adv r n /\ 0 <= fst (read_bits r n) < 2 ^ n /\ forall k, 0 <= k < n -> Z.testbit (fst (read_bits r n)) k = rbit r (roff r + k).
Proof.
  intros Hd Hn Hoff. unfold read_bits, rbit, within. destruct (rlimit r) as [lim|] eqn:EL.
  - set (avail := Z.max 0 (lim - (roff r - rstart r))). destruct (avail =? 0) eqn:A0.
    + cbn [fst snd]. split; [reflexivity|]. split. { split; [lia|]. apply Z.pow_pos_nonneg; lia. }
      intros k Hk. rewrite Z.testbit_0_l. replace (roff r + k <? rstart r + lim) with false by lia. reflexivity.
    + destruct (avail <? n) eqn:A1.
      * pose proof (read_raw_spec r avail Hd ltac:(lia) Hoff) as (S1 & S2 & S3).
        destruct (read_raw r avail) as [v r1]. cbn [fst snd] in *. subst r1.
        split. { unfold r_adv. cbn [rdata rstart roff rlimit]. f_equal. lia. }
        split. { split; [lia|]. assert (2 ^ avail <= 2 ^ n) by (apply Z.pow_le_mono_r; lia). lia. }
        intros k Hk. destruct (k <? avail) eqn:D.
        -- rewrite S3 by lia. replace (roff r + k <? rstart r + lim) with true by lia. reflexivity.
        -- rewrite (bits_above avail) by lia. replace (roff r + k <? rstart r + lim) with false by lia. reflexivity.
      * pose proof (read_raw_spec r n Hd Hn Hoff) as (S1 & S2 & S3). split; [assumption|]. split; [assumption|].
        intros k Hk. rewrite S3 by assumption. replace (roff r + k <? rstart r + lim) with true by lia. reflexivity.
  - pose proof (read_raw_spec r n Hd Hn Hoff) as (S1 & S2 & S3). split; [assumption|]. split; [assumption|].
    intros k Hk. rewrite S3 by assumption. reflexivity.
Qed.
