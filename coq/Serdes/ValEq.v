(* Boolean equality of values (used by the comparers). Definitions only. *)
From Coq Require Import ZArith List Bool.
From PV Require Import Serdes.Model.
Import ListNotations.
Open Scope Z_scope.

Section LE.
Variable E : val -> val -> bool.
Fixpoint vlist_eqb (l1 l2 : list val) : bool :=
  match l1, l2 with
  | [], [] => true
  | a :: r1, b :: r2 => E a b && vlist_eqb r1 r2
  | _, _ => false
  end.
End LE.

Fixpoint val_eqb (a b : val) {struct a} : bool :=
  match a, b with
  | VBool x, VBool y => Bool.eqb x y
  | VInt x, VInt y => x =? y
  | VFlt x, VFlt y => x =? y
  | VList l1, VList l2 => vlist_eqb val_eqb l1 l2
  | VStruct l1, VStruct l2 => vlist_eqb val_eqb l1 l2
  | VUnion k x, VUnion j y => (k =? j) && val_eqb x y
  | VOmit, VOmit => true
  | _, _ => false
  end.
