(* C07 (first clause): whatever deserialize returns is valid for the type and canonical, hence a fixed point of
   serialize -> deserialize.  For all types whose extents are below 2^35 bits (so that every delimiter header fits its
   32 bits); float fields are covered by FloatIdem.fwiden_idem. *)
From Coq Require Import ZArith List Bool Lia ZifyBool.
From PV Require Import Util.ListSet Util.Sumset BLS.Model BLS.Den BLS.Proofs Layout.Types Layout.Spec Layout.Proofs Layout.ProofsSpec.
From PV Require Import Serdes.Float Serdes.Utf8 Serdes.Model Serdes.Bits Serdes.BitsProofs Serdes.WriterProofs Serdes.ReaderProofs
  Serdes.Spec Serdes.SerProofs Serdes.EncProofs Serdes.DeserProofs Serdes.Roundtrip Serdes.LenProofs Serdes.FloatProofs Serdes.FloatIdem.
Import ListNotations.
Open Scope Z_scope.

Ltac Zify.zify_post_hook ::= Z.to_euclidean_division_equations.

(* every extent below 2^35 bits *)
Fixpoint plain (t : ty) : bool :=
  match t with
  | TPrim _ | TVoid _ => true
  | TFix e _ | TVar e _ => plain e
  | TStruct _ fs | TUnion _ fs => forallb (fun f => plain (snd f)) fs
  | TDelim i ext => plain i && (ext <? 2 ^ 35)
  end.

Definition good (t : ty) (v : val) : Prop := validb t v = true /\ canon t v = v /\ v <> VOmit.

Definition dec_ok (t : ty) : Prop := forall r v r', rok r -> deser t r = Ok (v, r') -> good t v /\ rok r'.

Lemma read_ok r n : rok r -> 0 <= n -> 0 <= fst (read_bits r n) < 2 ^ n /\ snd (read_bits r n) = r_adv r n.
Proof. intros [A B] Hn. destruct (read_bits_spec r n A Hn B) as (S1 & R & _). auto. Qed.

Lemma read_bytes_ok k : forall r, rok r ->
  bytes_ok (fst (read_bytes k r)) /\ length (fst (read_bytes k r)) = k /\ snd (read_bytes k r) = r_adv r (8 * Z.of_nat k).
Proof.
  induction k as [|k IH]; intros r Hr; cbn [read_bytes].
  - cbn [fst snd]. repeat split; [constructor|]. symmetry. apply r_adv_0.
  - destruct (read_ok r 8 Hr ltac:(lia)) as [R S1]. destruct (read_bits r 8) as [b r1]. cbn [fst snd] in *. subst r1.
    destruct (IH (r_adv r 8) (rok_adv r 8 Hr ltac:(lia))) as (A & B & C).
    destruct (read_bytes k (r_adv r 8)) as [bs r2]. cbn [fst snd] in *. subst r2. repeat split.
    + constructor; [unfold byte_ok; change (2 ^ 8) with 256 in R; lia|assumption].
    + simpl. lia.
    + rewrite r_adv_adv. f_equal. lia.
Qed.

Lemma dec_elems e : dec_ok e -> forall n r vs r', rok r -> deser_elems (deser e) n r = Ok (vs, r') ->
  length vs = n /\ Forall (good e) vs /\ rok r'.
Proof.
  intros He. induction n as [|n IH]; intros r vs r' Hr E; cbn [deser_elems] in E.
  - inversion E; subst. auto.
  - destruct (deser e r) as [[v ra]|] eqn:E1; [|discriminate].
    destruct (deser_elems (deser e) n ra) as [[vs' rb]|] eqn:E2; [|discriminate]. inversion E; subst.
    destruct (He _ _ _ Hr E1) as [G1 R1]. destruct (IH _ _ _ R1 E2) as (L & F & R2). simpl. auto.
Qed.

Lemma good_list e vs : Forall (good e) vs -> forallb (validb e) vs = true /\ map (canon e) vs = vs.
Proof.
  induction 1 as [|v r (A & B & _) Hr [IH1 IH2]]; [auto|]. cbn [forallb map]. rewrite A, B, IH1, IH2. auto.
Qed.

Lemma dec_fields fs : Forall (fun f => fst f <> None -> dec_ok (snd f)) fs -> all_fields_ok wft fs = true ->
  forall r vs r', rok r -> deser_fields deser fs r = Ok (vs, r') ->
  valid_fields validb fs vs = true /\ canon_fields canon fs vs = vs /\ rok r'.
Proof.
  induction 1 as [|[nm t] fr Ht Hfr IH]; intros Hwf r vs r' Hr E; cbn [deser_fields valid_fields canon_fields] in *.
  - inversion E; subst. auto.
  - unfold all_fields_ok in Hwf. cbn [forallb snd] in Hwf. apply andb_prop in Hwf. destruct Hwf as [Hwt Hwr]. cbn [snd] in Ht.
    assert (Ra : rok (r_align_to r (align t))).
    { rewrite r_align_to_adv by apply align_pos. apply rok_adv; [assumption|]. apply pad_len_range. apply align_pos. }
    destruct nm as [nm|].
    + destruct (deser t (r_align_to r (align t))) as [[v ra]|] eqn:E1; [|discriminate].
      destruct (deser_fields deser fr ra) as [[vs' rb]|] eqn:E2; [|discriminate]. inversion E; subst.
      cbn [fst] in Ht. destruct (Ht ltac:(discriminate) _ _ _ Ra E1) as [(A & B & C) R1]. destruct (IH Hwr _ _ _ R1 E2) as (V & K & R2).
      assert (Ev : match v with VOmit => default_value t | _ => v end = v) by (destruct v; auto; congruence).
      rewrite Ev, A, B, V, K. auto.
    + assert (Hvw : 0 <= void_width t). { destruct t; cbn [void_width]; try lia. simpl in Hwt. lia. }
      destruct (read_ok _ (void_width t) Ra Hvw) as [_ S1]. rewrite S1 in E.
      apply (IH Hwr _ _ _ (rok_adv _ _ Ra Hvw) E).
Qed.

Lemma dec_variant fs : Forall (fun f => dec_ok (snd f)) fs ->
  forall k r v r', rok r -> deser_variant deser fs k r = Ok (v, r') ->
  valid_variant validb fs k v = true /\ canon_variant canon fs k v = v /\ rok r'.
Proof.
  induction 1 as [|f fr Hf Hfr IH]; intros k r v r' Hr E; cbn [deser_variant valid_variant canon_variant] in *; [discriminate|].
  destruct k as [|k]; [|apply (IH _ _ _ _ Hr E)]. destruct (Hf _ _ _ Hr E) as [(A & B & _) R]. auto.
Qed.

Lemma finish_array_good e vs v : finish_array e vs = Ok v ->
  v = VList vs /\ (if is_utf8 e then match byte_values vs with Some bs => utf8_valid bs | None => false end else true) = true.
Proof.
  unfold finish_array. destruct (is_utf8 e); [|intros E; inversion E; auto].
  destruct (byte_values vs); [|discriminate]. destruct (utf8_valid l) eqn:U; [|discriminate]. intros E; inversion E; auto.
Qed.

Theorem decoded_good : forall t, wft t = true -> serializable t = true \/ is_void t = true -> plain t = true -> is_void t = false -> dec_ok t.
Proof.
  induction t as [p|wd|e n IHe|e n IHe|nm fs IHfs|nm fs IHfs|i ext IHi] using ty_ind'; intros Hwf Hsz Hpl Hnv; unfold dec_ok; intros r v r' Hr E;
    pose proof Hwf as Hwf0; cbn [wft] in Hwf; cbn [deser] in E; try discriminate.
  - (* primitives *)
    inversion E as [E']. clear E. pose proof (prim_width_pos p Hwf) as Hp. unfold good. cbn [validb canon].
    destruct p as [ | wd c | wd | wd c | | ]; cbn [deser_prim prim_width plain] in *.
    + destruct (read_ok r 1 Hr ltac:(lia)) as [R S1]. destruct (read_bits r 1) as [x r1]. cbn [fst snd] in *. inversion E'; subst.
      split; [|apply rok_adv; [assumption|lia]]. repeat split; try discriminate.
    + destruct (read_ok r wd Hr ltac:(lia)) as [R S1]. destruct (read_bits r wd) as [x r1]. cbn [fst snd] in *. inversion E'; subst.
      split; [|apply rok_adv; [assumption|lia]]. repeat split; try discriminate.
      unfold canon_prim, cast_int, clamp. cbn [as_int]. f_equal. destruct c; [lia|]. apply Z.mod_small. lia.
    + destruct (read_ok r wd Hr ltac:(lia)) as [R S1]. destruct (read_bits r wd) as [x r1]. cbn [fst snd] in *. inversion E'; subst.
      split; [|apply rok_adv; [assumption|lia]]. repeat split; try discriminate.
      unfold canon_prim, cast_int, clamp. cbn [as_int]. f_equal. rewrite !shiftl_1 by lia. pose proof (pow2_double wd ltac:(lia)).
      assert (0 < 2 ^ (wd - 1)) by (apply Z.pow_pos_nonneg; lia).
      destruct (2 ^ (wd - 1) <=? x) eqn:C; lia.
    + simpl in Hwf. assert (Hw : wd = 16 \/ wd = 32 \/ wd = 64) by lia.
      destruct (read_bytes_ok (Z.to_nat (wd / 8)) r Hr) as (Ob & Lb & Sb).
      destruct (read_bytes (Z.to_nat (wd / 8)) r) as [bs r1]. cbn [fst snd] in *. inversion E'; subst.
      assert (Rx : 0 <= from_bytes_le bs < 2 ^ wd).
      { split; [apply from_bytes_le_nonneg; assumption|]. pose proof (from_bytes_le_bound bs Ob) as Bd. unfold zlen in Bd. rewrite Lb in Bd.
        replace (8 * Z.of_nat (Z.to_nat (wd / 8))) with wd in Bd by (destruct Hw as [ -> | [ -> | -> ] ]; reflexivity). exact Bd. }
      split; [|apply rok_adv; [assumption|lia]]. repeat split; try discriminate.
      * unfold valid_prim, fwiden. pose proof (fencode_range 64 (fdecode wd (from_bytes_le bs)) ltac:(auto) (fdecode_nonneg _ _)) as Rg.
        replace ((0 <=? fencode 64 (fdecode wd (from_bytes_le bs))) && (fencode 64 (fdecode wd (from_bytes_le bs)) <? 2 ^ 64)) with true by lia. reflexivity.
      * unfold canon_prim. rewrite (fwiden_idem wd c _ Hw Rx). reflexivity.
    + destruct (read_ok r 8 Hr ltac:(lia)) as [R S1]. destruct (read_bits r 8) as [x r1]. cbn [fst snd] in *. inversion E'; subst.
      split; [|apply rok_adv; [assumption|lia]]. repeat split; try discriminate.
      unfold canon_prim, cast_int. cbn [as_int]. f_equal. apply Z.mod_small. change (2 ^ 8) with 256 in R. lia.
    + destruct (read_ok r 8 Hr ltac:(lia)) as [R S1]. destruct (read_bits r 8) as [x r1]. cbn [fst snd] in *. inversion E'; subst.
      split; [|apply rok_adv; [assumption|lia]]. repeat split; try discriminate.
      unfold canon_prim, cast_int. cbn [as_int]. f_equal. apply Z.mod_small. change (2 ^ 8) with 256 in R. lia.
  - (* fixed array *)
    apply andb_prop in Hwf. destruct Hwf as [Hwe Hn].
    destruct Hsz as [Hsz|Hsz]; [|discriminate]. cbn [serializable] in Hsz. apply andb_prop in Hsz. destruct Hsz as [Hu Hse].
    assert (Hve : is_void e = false) by (destruct e; try reflexivity; discriminate).
    destruct (deser_elems (deser e) (Z.to_nat n) r) as [[vs ra]|] eqn:E1; [|discriminate].
    destruct (dec_elems e (IHe Hwe (or_introl Hse) Hpl Hve) _ _ _ _ Hr E1) as (L & F & R1).
    destruct (finish_array e vs) as [v0|] eqn:Ef; [|discriminate]. inversion E; subst.
    destruct (finish_array_good _ _ _ Ef) as [-> _]. destruct (good_list e vs F) as [G1 G2].
    split; [|assumption]. unfold good. cbn [validb canon]. rewrite G1, G2.
    replace (zlen vs =? n) with true by (unfold zlen; lia). repeat split. discriminate.
  - (* variable array *)
    pose proof (prefix_width_mod8 e n Hwf0) as [_ P2].
    apply andb_prop in Hwf. destruct Hwf as [Hwf Hb]. apply andb_prop in Hwf. destruct Hwf as [Hwe Hn].
    destruct Hsz as [Hsz|Hsz]; [|discriminate]. cbn [serializable] in Hsz.
    assert (Hve : is_void e = false) by (destruct e; try reflexivity; discriminate).
    destruct (read_ok r (prefix_width (align e) n) Hr ltac:(lia)) as [R S1].
    destruct (read_bits r (prefix_width (align e) n)) as [len r0]. cbn [fst snd] in *. subst r0.
    destruct (n <? len) eqn:C; [discriminate|].
    destruct (deser_elems (deser e) (Z.to_nat len) (r_adv r (prefix_width (align e) n))) as [[vs ra]|] eqn:E1; [|discriminate].
    destruct (dec_elems e (IHe Hwe (or_introl Hsz) Hpl Hve) _ _ _ _ (rok_adv r (prefix_width (align e) n) Hr ltac:(lia)) E1) as (L & F & R1).
    destruct (finish_array e vs) as [v0|] eqn:Ef; [|discriminate]. inversion E; subst.
    destruct (finish_array_good _ _ _ Ef) as [-> U]. destruct (good_list e vs F) as [G1 G2].
    split; [|assumption]. unfold good. cbn [validb canon]. rewrite G1, G2, U.
    replace (zlen vs <=? n) with true by (unfold zlen; lia). repeat split. discriminate.
  - (* structure *)
    destruct Hsz as [Hsz|Hsz]; [|discriminate]. cbn [serializable] in Hsz. cbn [plain] in Hpl.
    assert (IH' : Forall (fun f => fst f <> None -> dec_ok (snd f)) fs).
    { apply Forall_forall. intros f Hf Hnm. apply (proj1 (Forall_forall _ _) IHfs f Hf).
      - unfold all_fields_ok in Hwf. rewrite forallb_forall in Hwf. apply Hwf. assumption.
      - destruct (serializable_fields_struct fs f Hsz Hf) as [[A _]|[_ A]]; [congruence|auto].
      - rewrite forallb_forall in Hpl. apply Hpl. assumption.
      - unfold struct_fields_ok in Hsz. rewrite forallb_forall in Hsz. specialize (Hsz f Hf). destruct (fst f); [|congruence].
        unfold named_field_ok in Hsz. apply andb_prop in Hsz. destruct Hsz as [Hsz _]. apply andb_prop in Hsz. destruct Hsz as [Hsz _].
        destruct (is_void (snd f)); [discriminate|reflexivity]. }
    destruct (deser_fields deser fs r) as [[vs ra]|] eqn:E1; [|discriminate]. inversion E; subst.
    destruct (dec_fields fs IH' Hwf _ _ _ Hr E1) as (V & K & R1).
    split.
    + unfold good. cbn [validb canon]. rewrite V, K. repeat split. discriminate.
    + rewrite r_align_to_adv by (rewrite max_align_fields; lia). apply rok_adv; [assumption|]. apply pad_len_range. rewrite max_align_fields. lia.
  - (* union *)
    pose proof (tag_width_mod8 nm fs Hwf0) as [_ T2].
    apply andb_prop in Hwf. destruct Hwf as [Hwf _]. apply andb_prop in Hwf. destruct Hwf as [Hwf _].
    destruct Hsz as [Hsz|Hsz]; [|discriminate]. cbn [serializable] in Hsz. cbn [plain] in Hpl.
    assert (IH' : Forall (fun f => dec_ok (snd f)) fs).
    { apply Forall_forall. intros f Hf. unfold union_fields_ok in Hsz. rewrite forallb_forall in Hsz. specialize (Hsz f Hf).
      destruct (fst f); [|discriminate]. unfold named_field_ok in Hsz. apply andb_prop in Hsz. destruct Hsz as [Hsz Hs2]. apply andb_prop in Hsz. destruct Hsz as [Hsz _].
      apply (proj1 (Forall_forall _ _) IHfs f Hf).
      - unfold all_fields_ok in Hwf. rewrite forallb_forall in Hwf. apply Hwf. assumption.
      - auto.
      - rewrite forallb_forall in Hpl. apply Hpl. assumption.
      - destruct (is_void (snd f)); [discriminate|reflexivity]. }
    destruct (read_ok r (union_tag_width fs) Hr ltac:(lia)) as [R S1].
    destruct (read_bits r (union_tag_width fs)) as [tag r0]. cbn [fst snd] in *. subst r0.
    destruct (zlen fs <=? tag) eqn:C; [discriminate|].
    destruct (deser_variant deser fs (Z.to_nat tag) (r_adv r (union_tag_width fs))) as [[vv ra]|] eqn:E1; [|discriminate]. inversion E; subst.
    destruct (dec_variant fs IH' _ _ _ _ (rok_adv r (union_tag_width fs) Hr ltac:(lia)) E1) as (V & K & R1).
    split.
    + unfold good. cbn [validb canon]. rewrite V, K. replace ((0 <=? tag) && (tag <? zlen fs)) with true by lia. repeat split. discriminate.
    + rewrite r_align_to_adv by (rewrite max_align_fields; lia). apply rok_adv; [assumption|]. apply pad_len_range. rewrite max_align_fields. lia.
  - (* delimited *)
    apply andb_prop in Hwf. destruct Hwf as [Hwf _]. apply andb_prop in Hwf. destruct Hwf as [Hwf _].
    apply andb_prop in Hwf. destruct Hwf as [Hwi Hc]. rewrite (header_width_delim i Hc) in *.
    destruct Hsz as [Hsz|Hsz]; [|discriminate]. cbn [serializable] in Hsz. cbn [plain] in Hpl. apply andb_prop in Hpl. destruct Hpl as [Hpi Hx].
    assert (Hvi : is_void i = false) by (destruct i; try reflexivity; discriminate).
    destruct (read_ok r 32 Hr ltac:(lia)) as [R S1].
    destruct (read_bits r 32) as [nb r0]. cbn [fst snd] in *. subst r0.
    destruct (remaining_bits (r_adv r 32) <? nb * 8) eqn:C; [discriminate|].
    unfold bounded_subreader in E. cbn [rdata roff r_adv] in E.
    set (sub := {| rdata := rdata r; rstart := roff r + 32; roff := roff r + 32; rlimit := Some (nb * 8) |}) in *.
    assert (Rs : rok sub) by (split; [apply Hr|subst sub; cbn [roff]; destruct Hr; lia]).
    destruct (deser i sub) as [[vi ra]|] eqn:E1; [|discriminate]. inversion E; subst.
    destruct (IHi Hwi (or_introl Hsz) Hpi Hvi _ _ _ Rs E1) as [(A & B & Cn) _].
    split.
    + unfold good. cbn [validb canon]. rewrite A.
      pose proof (inner_le_extent i ext v Hwf0 Hsz A) as Le. pose proof (zlen_nonneg (enc i v 0)).
      change (2 ^ 35) with 34359738368 in Hx. rewrite (header_width_delim i Hc). change (2 ^ 32) with 4294967296.
      replace (zlen (enc i v 0) / 8 <? 4294967296) with true by lia. auto.
    + rewrite r_adv_adv. apply rok_adv; [assumption|]. lia.
Qed.

(* C07_valid_fixpoint (for types without float fields and with extents below 2^35 bits) *)
Theorem valid_fixpoint t b hdr v :
  wft t = true -> serializable t = true -> is_composite t = true -> hdr_ok t hdr = true -> plain t = true -> bytes_ok b ->
  deserialize t b hdr = Ok v ->
  validb t v = true /\ canon t v = v /\ exists bs, serialize t v hdr = Ok bs /\ deserialize t bs hdr = Ok v.
Proof.
  intros Hwf Hsz Hc Hh Hpl Hb E.
  assert (Rn : rok (r_new b)) by (split; [assumption|cbn [roff r_new]; lia]).
  assert (V : validb t v = true /\ canon t v = v).
  { destruct t; try discriminate; cbn [hdr_ok] in Hh; try (destruct hdr; [discriminate|]); cbn [deserialize] in E.
    - destruct (deser (TStruct nm fs) (r_new b)) as [[x r']|] eqn:E1; [|discriminate]. inversion E; subst.
      destruct (decoded_good _ Hwf (or_introl Hsz) Hpl eq_refl _ _ _ Rn E1) as [(A & B & _) _]. auto.
    - destruct (deser (TUnion nm fs) (r_new b)) as [[x r']|] eqn:E1; [|discriminate]. inversion E; subst.
      destruct (decoded_good _ Hwf (or_introl Hsz) Hpl eq_refl _ _ _ Rn E1) as [(A & B & _) _]. auto.
    - destruct hdr.
      + destruct (deser (TDelim t ext) (r_new b)) as [[x r']|] eqn:E1; [|discriminate]. inversion E; subst.
        destruct (decoded_good _ Hwf (or_introl Hsz) Hpl eq_refl _ _ _ Rn E1) as [(A & B & _) _]. auto.
      + destruct (deser t (r_new b)) as [[x r']|] eqn:E1; [|discriminate]. inversion E; subst.
        pose proof Hwf as Hwf0. cbn [wft] in Hwf. apply andb_prop in Hwf. destruct Hwf as [Hwf _]. apply andb_prop in Hwf. destruct Hwf as [Hwf _].
        apply andb_prop in Hwf. destruct Hwf as [Hwi Hci]. cbn [serializable] in Hsz. cbn [plain] in Hpl. apply andb_prop in Hpl. destruct Hpl as [Hpi Hx].
        assert (Hvi : is_void t = false) by (destruct t; try reflexivity; discriminate).
        destruct (decoded_good _ Hwi (or_introl Hsz) Hpi Hvi _ _ _ Rn E1) as [(A & B & _) _].
        cbn [validb canon]. rewrite A, B. split; [|reflexivity].
        pose proof (inner_le_extent t ext v Hwf0 Hsz A) as Le. pose proof (zlen_nonneg (enc t v 0)).
        change (2 ^ 35) with 34359738368 in Hx. rewrite (header_width_delim t Hci). change (2 ^ 32) with 4294967296.
        replace (zlen (enc t v 0) / 8 <? 4294967296) with true by lia. reflexivity. }
  destruct V as [V1 V2]. split; [assumption|]. split; [assumption|].
  destruct (serialize_total t v hdr Hwf Hc Hh V1) as (bs & Es). exists bs. split; [assumption|].
  pose proof (roundtrip t v hdr bs Hwf Hsz Hc Hh V1 Es) as R. rewrite V2 in R. exact R.
Qed.
