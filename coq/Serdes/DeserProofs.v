(* Round trip: a reader that sees the bits enc t v at its (aligned) position, inside its window, returns canon t v
   and advances by exactly the length of the representation. *)
From Coq Require Import ZArith List Bool Lia ZifyBool.
From PV Require Import BLS.Model Layout.Types Layout.Spec Layout.Proofs Layout.ProofsSpec.
From PV Require Import Serdes.Float Serdes.FloatProofs Serdes.Utf8 Serdes.Model Serdes.Bits Serdes.BitsProofs Serdes.WriterProofs
  Serdes.ReaderProofs Serdes.Spec Serdes.SerProofs Serdes.EncProofs.
Import ListNotations.
Open Scope Z_scope.

Ltac Zify.zify_post_hook ::= Z.to_euclidean_division_equations.

(* ---------- reader vocabulary ---------- *)
Definition rend (r : reader) : Z := match rlimit r with Some l => rstart r + l | None => 8 * zlen (rdata r) end.
Definition rok (r : reader) : Prop := bytes_ok (rdata r) /\ 0 <= roff r.
Definition sees (r : reader) (bits : list bool) : Prop :=
  forall j, 0 <= j < zlen bits -> rbit r (roff r + j) = bit_at bits j.

Lemma r_adv_0 r : r_adv r 0 = r.
Proof. destruct r. unfold r_adv. cbn. f_equal. lia. Qed.

Lemma r_adv_adv r a b : r_adv (r_adv r a) b = r_adv r (a + b).
Proof. unfold r_adv. cbn. f_equal. lia. Qed.

Lemma rbit_adv r n j : rbit (r_adv r n) j = rbit r j.
Proof. reflexivity. Qed.

Lemma rend_adv r n : rend (r_adv r n) = rend r.
Proof. reflexivity. Qed.

Lemma rok_adv r n : rok r -> 0 <= n -> rok (r_adv r n).
Proof. intros [A B] H. split; [exact A|]. unfold r_adv; cbn [roff]. lia. Qed.

Lemma roff_adv r n : roff (r_adv r n) = roff r + n.
Proof. reflexivity. Qed.

Lemma sees_app r a b : sees r (a ++ b) -> sees r a /\ sees (r_adv r (zlen a)) b.
Proof.
  intros H. pose proof (zlen_nonneg a). pose proof (zlen_nonneg b). split; intros j Hj.
  - rewrite H by (rewrite zlen_app; lia). rewrite bit_at_app by lia. replace (j <? zlen a) with true by lia. reflexivity.
  - rewrite rbit_adv, roff_adv. replace (roff r + zlen a + j) with (roff r + (zlen a + j)) by lia.
    rewrite H by (rewrite zlen_app; lia). rewrite bit_at_app by lia. replace (zlen a + j <? zlen a) with false by lia.
    f_equal. lia.
Qed.

Lemma within_below_rend r j : j < rend r -> within r j = true.
Proof. unfold within, rend. destruct (rlimit r); intros; lia. Qed.

Lemma remaining_rend r : remaining_bits r = Z.max 0 (rend r - roff r).
Proof. unfold remaining_bits, rend. destruct (rlimit r); lia. Qed.

Lemma r_align_to_adv r a : 1 <= a -> r_align_to r a = r_adv r (pad_len a (roff r)).
Proof.
  intros Ha. unfold r_align_to. replace (a <=? 0) with false by lia. destruct (roff r mod a =? 0) eqn:E.
  - rewrite pad_len_0 by lia. symmetry. apply r_adv_0.
  - rewrite pad_len_nz by lia. reflexivity.
Qed.

(* reading an n-bit field whose bits are the low bits of x *)
Lemma read_value r n x : rok r -> 0 <= n ->
  (forall k, 0 <= k < n -> rbit r (roff r + k) = Z.testbit x k) -> read_bits r n = (x mod 2 ^ n, r_adv r n).
Proof.
  intros [Hd Ho] Hn H. destruct (read_bits_spec r n Hd Hn Ho) as (S1 & S2 & S3).
  rewrite (surjective_pairing (read_bits r n)). f_equal; [|exact S1].
  apply Z.bits_inj'. intros k Hk. destruct (Z.lt_ge_cases k n).
  - rewrite Z.mod_pow2_bits_low by lia. rewrite S3 by lia. apply H. lia.
  - rewrite Z.mod_pow2_bits_high by lia. apply (bits_above n); lia.
Qed.

Lemma read_low_bits r n x rest : rok r -> 0 <= n -> sees r (low_bits (Z.to_nat n) x ++ rest) ->
  read_bits r n = (x mod 2 ^ n, r_adv r n).
Proof.
  intros Hr Hn Hs. apply read_value; auto. intros k Hk. apply sees_app in Hs. destruct Hs as [Hs _].
  rewrite Hs by (rewrite zlen_low_bits; lia). rewrite bit_at_low_bits by lia. replace (k <? Z.of_nat (Z.to_nat n)) with true by lia.
  reflexivity.
Qed.

Lemma low_bits_split a b x : low_bits (a + b) x = low_bits a x ++ low_bits b (x / 2 ^ Z.of_nat a).
Proof.
  apply bits_ext. { rewrite zlen_app, !zlen_low_bits. lia. }
  rewrite zlen_low_bits. intros j Hj. rewrite bit_at_app by lia. rewrite !bit_at_low_bits by (rewrite ?zlen_low_bits; lia).
  rewrite zlen_low_bits. replace (j <? Z.of_nat (a + b)) with true by lia. cbn [andb].
  destruct (j <? Z.of_nat a) eqn:D; [reflexivity|].
  rewrite bit_at_low_bits by lia. replace (j - Z.of_nat a <? Z.of_nat b) with true by lia. cbn [andb].
  rewrite Z.div_pow2_bits by lia. f_equal. lia.
Qed.

Lemma read_bytes_spec k : forall r x rest, rok r -> sees r (low_bits (8 * k) x ++ rest) ->
  read_bytes k r = (to_bytes_le k x, r_adv r (8 * Z.of_nat k)).
Proof.
  induction k as [|k IH]; intros r x rest Hr Hs.
  - cbn [read_bytes to_bytes_le]. rewrite r_adv_0. reflexivity.
  - cbn [read_bytes to_bytes_le]. replace (8 * S k)%nat with (8 + 8 * k)%nat in Hs by lia. rewrite low_bits_split in Hs.
    rewrite <- app_assoc in Hs. rewrite (read_low_bits r 8 x _ Hr ltac:(lia) Hs).
    apply sees_app in Hs. destruct Hs as [_ Hs]. rewrite zlen_low_bits in Hs. change (Z.of_nat 8) with 8 in Hs.
    change (2 ^ 8) with 256 in Hs. rewrite (IH (r_adv r 8) (x / 256) rest (rok_adv r 8 Hr ltac:(lia)) Hs).
    change (2 ^ 8) with 256. rewrite r_adv_adv. f_equal. f_equal. lia.
Qed.

Lemma from_to_bytes_le k : forall x, from_bytes_le (to_bytes_le k x) = x mod 2 ^ (8 * Z.of_nat k).
Proof.
  induction k as [|k IH]; intros x.
  - cbn. rewrite Z.mod_1_r. reflexivity.
  - cbn [to_bytes_le from_bytes_le]. rewrite IH. replace (8 * Z.of_nat (S k)) with (8 + 8 * Z.of_nat k) by lia.
    rewrite Z.pow_add_r by lia. change (2 ^ 8) with 256.
    rewrite (Z.rem_mul_r x 256 (2 ^ (8 * Z.of_nat k))); [reflexivity|lia|]. apply Z.pow_pos_nonneg; lia.
Qed.

(* ---------- primitives ---------- *)
Lemma pow2_double w : 1 <= w -> 2 ^ w = 2 * 2 ^ (w - 1).
Proof. intros. replace w with (1 + (w - 1)) at 1 by lia. rewrite Z.pow_add_r by lia. reflexivity. Qed.

Lemma deser_prim_ok p v r rest : prim_ok p = true -> valid_prim p v = true -> rok r -> sees r (enc_prim p v ++ rest) ->
  deser_prim p r = (canon_prim p v, r_adv r (zlen (enc_prim p v))).
Proof.
  intros Hp Hv Hr Hs. destruct p as [ | wd c | wd | wd c | | ]; unfold valid_prim in Hv; unfold deser_prim; unfold enc_prim, canon_prim in *.
  - (* bool *)
    destruct (bool_of v) as [b|] eqn:Eb; [|discriminate].
    assert (Hs' : sees r (low_bits (Z.to_nat 1) (Z.b2z b) ++ rest)).
    { destruct b; exact Hs. }
    rewrite (read_low_bits r 1 (Z.b2z b) rest Hr ltac:(lia) Hs'). change (zlen [b]) with 1.
    destruct b; reflexivity.
  - (* unsigned *)
    simpl in Hp. destruct (as_int v) as [z|] eqn:Ez; [|discriminate]. cbn [prim_width] in *.
    assert (0 < 2 ^ wd) by (apply Z.pow_pos_nonneg; lia).
    assert (R : 0 <= cast_int (PUInt wd c) z < 2 ^ wd).
    { unfold cast_int, clamp. destruct c; [lia|]. apply Z.mod_pos_bound. lia. }
    rewrite (read_low_bits r wd _ rest Hr ltac:(lia) Hs). rewrite zlen_low_bits.
    rewrite Z.mod_mod by lia. rewrite Z.mod_small by lia. f_equal. f_equal. lia.
  - (* signed *)
    simpl in Hp. destruct (as_int v) as [z|] eqn:Ez; [|discriminate]. cbn [prim_width] in *.
    assert (0 < 2 ^ (wd - 1)) by (apply Z.pow_pos_nonneg; lia). pose proof (pow2_double wd ltac:(lia)) as D.
    assert (R : - 2 ^ (wd - 1) <= cast_int (PSInt wd) z < 2 ^ (wd - 1)) by (unfold cast_int, clamp; lia).
    rewrite (read_low_bits r wd _ rest Hr ltac:(lia) Hs). rewrite zlen_low_bits.
    rewrite Z.mod_mod by lia. rewrite !shiftl_1 by lia.
    set (cz := cast_int (PSInt wd) z) in *.
    replace (Z.of_nat (Z.to_nat wd)) with wd by lia. f_equal. f_equal.
    destruct (Z.lt_ge_cases cz 0).
    + replace (cz mod 2 ^ wd) with (cz + 2 ^ wd) by (apply Z.mod_unique with (q := -1); lia).
      replace (2 ^ (wd - 1) <=? cz + 2 ^ wd) with true by lia. lia.
    + rewrite Z.mod_small by lia. replace (2 ^ (wd - 1) <=? cz) with false by lia. reflexivity.
  - (* float *)
    destruct v; try discriminate. simpl in Hp. assert (Hw : wd = 16 \/ wd = 32 \/ wd = 64) by lia.
    assert (E8 : Z.to_nat wd = (8 * Z.to_nat (wd / 8))%nat) by (destruct Hw as [ -> | [ -> | -> ] ]; reflexivity).
    rewrite E8 in Hs. rewrite (read_bytes_spec _ r _ rest Hr Hs). rewrite from_to_bytes_le.
    rewrite zlen_low_bits. pose proof (fcast_range c wd bits Hw) as R.
    replace (8 * Z.of_nat (Z.to_nat (wd / 8))) with wd by (destruct Hw as [ -> | [ -> | -> ] ]; reflexivity).
    rewrite Z.mod_small by lia. f_equal. f_equal. lia.
  - (* byte *)
    destruct (as_int v) as [z|] eqn:Ez; [|discriminate]. cbn [prim_width] in *. unfold cast_int in *.
    pose proof (Z.mod_pos_bound z 256 ltac:(lia)).
    rewrite (read_low_bits r 8 _ rest Hr ltac:(lia) Hs). rewrite zlen_low_bits. change (2 ^ 8) with 256.
    rewrite !Z.mod_mod by lia. reflexivity.
  - (* utf8 *)
    destruct (as_int v) as [z|] eqn:Ez; [|discriminate]. cbn [prim_width] in *. unfold cast_int in *.
    pose proof (Z.mod_pos_bound z 256 ltac:(lia)).
    rewrite (read_low_bits r 8 _ rest Hr ltac:(lia) Hs). rewrite zlen_low_bits. change (2 ^ 8) with 256.
    rewrite !Z.mod_mod by lia. reflexivity.
Qed.

(* ---------- capacities and variant counts fit their prefix / tag ---------- *)
Lemma cap_lt_prefix e n : wft (TVar e n) = true -> n < 2 ^ prefix_width (align e) n.
Proof.
  cbn [wft]. intros H. apply andb_prop in H. destruct H as [H Hb]. apply andb_prop in H. destruct H as [_ Hn].
  rewrite prefix_width_eq by lia. destruct (bitlen_spec n ltac:(lia)) as [[_ B] _].
  assert (2 ^ bitlen n <= 2 ^ 64) by (apply pow2_le; pose proof (bitlen_nonneg n); lia).
  apply spec_prefix_least. lia.
Qed.

Lemma variants_le_tag nm fs : wft (TUnion nm fs) = true -> zlen fs <= 2 ^ union_tag_width fs.
Proof.
  cbn [wft]. intros H. apply andb_prop in H. destruct H as [H Hb]. apply andb_prop in H. destruct H as [_ Hn].
  rewrite union_tag_eq by lia. unfold zlen.
  assert (Z.of_nat (length fs) <= 2 ^ 64).
  { destruct (Z.eq_dec (Z.of_nat (length fs)) 2) as [E|E]; [rewrite E; lia|].
    destruct (bitlen_spec (Z.of_nat (length fs) - 1) ltac:(lia)) as [[_ B] _].
    assert (2 ^ bitlen (Z.of_nat (length fs) - 1) <= 2 ^ 64) by (apply pow2_le; pose proof (bitlen_nonneg (Z.of_nat (length fs) - 1)); lia).
    lia. }
  apply spec_tag_least. assumption.
Qed.

(* ---------- the induction ---------- *)
Definition deser_ok (t : ty) : Prop := forall v r rest, validb t v = true -> rok r -> roff r mod align t = 0 ->
  sees r (enc t v (roff r) ++ rest) -> roff r + zlen (enc t v (roff r)) <= rend r ->
  deser t r = Ok (canon t v, r_adv r (zlen (enc t v (roff r)))).

Lemma deser_elems_ok e : deser_ok e -> keeps_align e ->
  forall vs r rest, forallb (validb e) vs = true -> rok r -> roff r mod align e = 0 ->
  sees r (enc_elems (enc e) vs (roff r) ++ rest) -> roff r + zlen (enc_elems (enc e) vs (roff r)) <= rend r ->
  deser_elems (deser e) (length vs) r = Ok (map (canon e) vs, r_adv r (zlen (enc_elems (enc e) vs (roff r)))).
Proof.
  intros He Ka. induction vs as [|v vs IH]; intros r rest Hv Hr Ha Hs Hw; cbn [length deser_elems map enc_elems] in *.
  - change (zlen (@nil bool)) with 0. rewrite r_adv_0. reflexivity.
  - apply andb_prop in Hv. destruct Hv as [Hv1 Hv2]. set (b := enc e v (roff r)) in *.
    pose proof (zlen_nonneg b). pose proof (zlen_nonneg (enc_elems (enc e) vs (roff r + zlen b))).
    rewrite zlen_app in Hw. rewrite <- app_assoc in Hs.
    rewrite (He v r _ Hv1 Hr Ha Hs ltac:(subst b; lia)). fold b.
    apply sees_app in Hs. destruct Hs as [_ Hs].
    rewrite (IH (r_adv r (zlen b)) rest Hv2 (rok_adv r (zlen b) Hr ltac:(lia)) (Ka v (roff r) Ha) Hs ltac:(rewrite rend_adv, roff_adv; lia)).
    rewrite roff_adv, r_adv_adv, zlen_app. reflexivity.
Qed.

Lemma zlen_pad a o : 1 <= a -> zlen (zero_bits (pad_len a o)) = pad_len a o.
Proof. intros. apply zlen_zero_bits. apply pad_len_range. assumption. Qed.

Lemma mod8_align t x : x mod 8 = 0 -> x mod align t = 0.
Proof. intros H. destruct (align_values t) as [E|E]; rewrite E; [apply Z.mod_1_r|exact H]. Qed.

Lemma deser_fields_ok fs : Forall (fun f => deser_ok (snd f)) fs -> all_fields_ok wft fs = true ->
  forall vs r rest, valid_fields validb fs vs = true -> rok r ->
  sees r (enc_fields enc fs vs (roff r) ++ rest) -> roff r + zlen (enc_fields enc fs vs (roff r)) <= rend r ->
  deser_fields deser fs r = Ok (canon_fields canon fs vs, r_adv r (zlen (enc_fields enc fs vs (roff r)))).
Proof.
  induction 1 as [|[nm t] fr Ht Hfr IH]; intros Hwf vs r rest Hv Hr Hs Hw; cbn [deser_fields enc_fields canon_fields valid_fields] in *.
  - change (zlen (@nil bool)) with 0. rewrite r_adv_0. reflexivity.
  - unfold all_fields_ok in Hwf. cbn [forallb snd] in Hwf. apply andb_prop in Hwf. destruct Hwf as [Hwt Hwr]. cbn [snd] in Ht.
    pose proof (align_pos t) as Hap. rewrite (r_align_to_adv r (align t) Hap).
    set (pl := pad_len (align t) (roff r)) in *. pose proof (pad_len_range (align t) (roff r) Hap) as Hpl. fold pl in Hpl.
    assert (Zp : zlen (zero_bits pl) = pl) by (apply zlen_zero_bits; lia).
    destruct nm as [nm|].
    + destruct vs as [|v vs']; [discriminate|]. apply andb_prop in Hv. destruct Hv as [Hv1 Hv2].
      set (v' := match v with VOmit => default_value t | _ => v end) in *. rewrite Zp in *.
      set (b := enc t v' (roff r + pl)) in *.
      pose proof (zlen_nonneg b). pose proof (zlen_nonneg (enc_fields enc fr vs' (roff r + pl + zlen b))).
      rewrite !zlen_app, Zp in Hw. rewrite <- !app_assoc in Hs. apply sees_app in Hs. destruct Hs as [_ Hs]. rewrite Zp in Hs.
      assert (Ha : roff (r_adv r pl) mod align t = 0) by (rewrite roff_adv; apply pad_len_aligned; assumption).
      rewrite (Ht v' (r_adv r pl) _ Hv1 (rok_adv r pl Hr ltac:(lia)) Ha Hs ltac:(rewrite rend_adv, roff_adv; fold b; lia)).
      rewrite roff_adv. fold b. apply sees_app in Hs. destruct Hs as [_ Hs].
      rewrite r_adv_adv. rewrite r_adv_adv in Hs.
      assert (Eo : roff (r_adv r (pl + zlen b)) = roff r + pl + zlen b) by (rewrite roff_adv; lia).
      rewrite (IH Hwr vs' (r_adv r (pl + zlen b)) rest Hv2 (rok_adv r (pl + zlen b) Hr ltac:(lia))).
      * rewrite Eo, r_adv_adv, !zlen_app, Zp. f_equal. f_equal. f_equal. lia.
      * rewrite Eo. exact Hs.
      * rewrite rend_adv, Eo. lia.
    + assert (Hvw : 0 <= void_width t).
      { destruct t; cbn [void_width]; try lia. simpl in Hwt. lia. }
      assert (Zv : zlen (zero_bits (void_width t)) = void_width t) by (apply zlen_zero_bits; lia).
      destruct (read_bits_spec (r_adv r pl) (void_width t) (proj1 Hr) Hvw ltac:(rewrite roff_adv; destruct Hr; lia)) as (S1 & _).
      rewrite S1, r_adv_adv.
      assert (Zpv : zlen (zero_bits pl ++ zero_bits (void_width t)) = pl + void_width t) by (rewrite zlen_app, Zp, Zv; reflexivity).
      rewrite zlen_app, Zpv in Hw. rewrite Zpv in Hs. rewrite zlen_app, Zpv.
      pose proof (zlen_nonneg (enc_fields enc fr vs (roff r + (pl + void_width t)))).
      rewrite <- (app_assoc (zero_bits pl ++ zero_bits (void_width t))) in Hs.
      apply sees_app in Hs. destruct Hs as [_ Hs]. rewrite Zpv in Hs.
      rewrite (IH Hwr vs (r_adv r (pl + void_width t)) rest Hv (rok_adv r (pl + void_width t) Hr ltac:(lia))).
      * rewrite roff_adv, r_adv_adv. reflexivity.
      * rewrite roff_adv. exact Hs.
      * rewrite rend_adv, roff_adv. lia.
Qed.

Lemma deser_variant_ok fs : Forall (fun f => deser_ok (snd f)) fs ->
  forall k v r rest, valid_variant validb fs k v = true -> rok r -> roff r mod 8 = 0 ->
  sees r (enc_variant enc fs k v (roff r) ++ rest) -> roff r + zlen (enc_variant enc fs k v (roff r)) <= rend r ->
  deser_variant deser fs k r = Ok (canon_variant canon fs k v, r_adv r (zlen (enc_variant enc fs k v (roff r)))).
Proof.
  induction 1 as [|f fr Hf Hfr IH]; intros k v r rest Hv Hr Ha Hs Hw; cbn [deser_variant enc_variant canon_variant valid_variant] in *; [discriminate|].
  destruct k as [|k]; [apply (Hf v r rest); auto; apply mod8_align; assumption|apply (IH k v r rest); assumption].
Qed.

Lemma canon_bytes_id vs : forall bs, byte_values vs = Some bs -> map (canon (TPrim PUtf8)) vs = vs.
Proof.
  induction vs as [|v r IH]; intros bs H; [reflexivity|]. cbn [byte_values] in H. destruct v; try discriminate.
  destruct ((0 <=? z) && (z <=? 255)) eqn:R; [|discriminate]. destruct (byte_values r) as [br|] eqn:Er; [|discriminate].
  cbn [map]. rewrite (IH br eq_refl). f_equal. cbn [canon canon_prim as_int cast_int]. rewrite Z.mod_small by lia. reflexivity.
Qed.

Lemma finish_array_canon e vs :
  (if is_utf8 e then match byte_values vs with Some bs => utf8_valid bs | None => false end else true) = true ->
  finish_array e (map (canon e) vs) = Ok (VList (map (canon e) vs)).
Proof.
  unfold finish_array. destruct (is_utf8 e) eqn:U; [|reflexivity]. destruct e; try discriminate. destruct p; try discriminate.
  destruct (byte_values vs) as [bs|] eqn:B; [|discriminate]. intros V. rewrite (canon_bytes_id vs bs B). rewrite B, V. reflexivity.
Qed.

Lemma serializable_fields_struct fs f : struct_fields_ok serializable fs = true -> In f fs ->
  (fst f = None /\ is_void (snd f) = true) \/ (fst f <> None /\ serializable (snd f) = true).
Proof.
  unfold struct_fields_ok. rewrite forallb_forall. intros H Hin. specialize (H f Hin). destruct (fst f).
  - right. split; [discriminate|]. unfold named_field_ok in H. apply andb_prop in H. apply H.
  - left. auto.
Qed.

Theorem deser_enc : forall t, wft t = true -> serializable t = true \/ is_void t = true -> deser_ok t.
Proof.
  induction t as [p|wd|e n IHe|e n IHe|nm fs IHfs|nm fs IHfs|i ext IHi] using ty_ind'; intros Hwf Hsz; unfold deser_ok; intros v r rest Hv Hr Ha Hs Hw;
    pose proof Hwf as Hwf0; cbn [wft] in Hwf; cbn [validb] in Hv; cbn [deser enc canon align] in *.
  - rewrite (deser_prim_ok p v r rest Hwf Hv Hr Hs). reflexivity.
  - assert (Zv : zlen (zero_bits wd) = wd) by (apply zlen_zero_bits; lia).
    destruct (read_bits_spec r wd (proj1 Hr) ltac:(lia) (proj2 Hr)) as (S1 & _). rewrite S1, Zv. reflexivity.
  - (* fixed array *)
    apply andb_prop in Hwf. destruct Hwf as [Hwe Hn]. destruct v; try discriminate.
    apply andb_prop in Hv. destruct Hv as [Hl Hvs].
    destruct Hsz as [Hsz|Hsz]; [|discriminate]. cbn [serializable] in Hsz. apply andb_prop in Hsz. destruct Hsz as [Hu Hse].
    replace (Z.to_nat n) with (length vs) by (unfold zlen in Hl; lia).
    rewrite (deser_elems_ok e (IHe Hwe (or_introl Hse)) (enc_aligned e Hwe) vs r rest Hvs Hr Ha Hs Hw).
    rewrite finish_array_canon; [reflexivity|]. destruct (is_utf8 e); [discriminate|reflexivity].
  - (* variable array *)
    pose proof (cap_lt_prefix e n Hwf0) as Hcap. pose proof (prefix_width_mod8 e n Hwf0) as [P1 P2].
    apply andb_prop in Hwf. destruct Hwf as [Hwf Hb]. apply andb_prop in Hwf. destruct Hwf as [Hwe Hn].
    destruct v; try discriminate. apply andb_prop in Hv. destruct Hv as [Hv Hu]. apply andb_prop in Hv. destruct Hv as [Hl Hvs].
    destruct Hsz as [Hsz|Hsz]; [|discriminate]. cbn [serializable] in Hsz.
    set (pw := prefix_width (align e) n) in *. pose proof (zlen_nonneg vs).
    rewrite <- app_assoc in Hs. rewrite (read_low_bits r pw (zlen vs) _ Hr ltac:(lia) Hs).
    rewrite Z.mod_small by lia. replace (n <? zlen vs) with false by lia.
    replace (Z.to_nat (zlen vs)) with (length vs) by (unfold zlen; lia).
    apply sees_app in Hs. destruct Hs as [_ Hs]. rewrite zlen_low_bits in Hs.
    replace (Z.of_nat (Z.to_nat pw)) with pw in Hs by lia.
    rewrite zlen_app, zlen_low_bits in Hw. replace (Z.of_nat (Z.to_nat pw)) with pw in Hw by lia.
    pose proof (zlen_nonneg (enc_elems (enc e) vs (roff r + pw))).
    assert (Ha' : roff (r_adv r pw) mod align e = 0).
    { rewrite roff_adv. destruct (align_values e) as [E|E]; rewrite E in *; [apply Z.mod_1_r|lia]. }
    rewrite (deser_elems_ok e (IHe Hwe (or_introl Hsz)) (enc_aligned e Hwe) vs (r_adv r pw) rest Hvs (rok_adv r pw Hr ltac:(lia)) Ha').
    + rewrite (finish_array_canon e vs Hu). rewrite roff_adv, r_adv_adv, zlen_app, zlen_low_bits.
      replace (Z.of_nat (Z.to_nat pw)) with pw by lia. reflexivity.
    + rewrite roff_adv. exact Hs.
    + rewrite rend_adv, roff_adv. lia.
  - (* structure *)
    destruct v; try discriminate. destruct Hsz as [Hsz|Hsz]; [|discriminate]. cbn [serializable] in Hsz.
    assert (IH' : Forall (fun f => deser_ok (snd f)) fs).
    { apply Forall_forall. intros f Hf. apply (proj1 (Forall_forall _ _) IHfs f Hf).
      - unfold all_fields_ok in Hwf. rewrite forallb_forall in Hwf. apply Hwf. assumption.
      - destruct (serializable_fields_struct fs f Hsz Hf) as [[_ A]|[_ A]]; auto. }
    rewrite max_align_fields in *.
    set (b := enc_fields enc fs vs (roff r)) in *. pose proof (zlen_nonneg b).
    pose proof (pad_len_range 8 (roff r + zlen b) ltac:(lia)) as Hpl.
    rewrite zlen_app, zlen_pad in Hw by lia. rewrite <- app_assoc in Hs.
    rewrite (deser_fields_ok fs IH' Hwf vs r _ Hv Hr Hs ltac:(fold b; lia)). fold b.
    rewrite (r_align_to_adv _ 8 ltac:(lia)). rewrite roff_adv, r_adv_adv, zlen_app, zlen_pad by lia. reflexivity.
  - (* union *)
    pose proof (variants_le_tag nm fs Hwf0) as Hnv. pose proof (tag_width_mod8 nm fs Hwf0) as [T1 T2].
    destruct v; try discriminate. apply andb_prop in Hv. destruct Hv as [Hk Hvv].
    apply andb_prop in Hwf. destruct Hwf as [Hwf _]. apply andb_prop in Hwf. destruct Hwf as [Hwf _].
    destruct Hsz as [Hsz|Hsz]; [|discriminate]. cbn [serializable] in Hsz.
    assert (IH' : Forall (fun f => deser_ok (snd f)) fs).
    { apply Forall_forall. intros f Hf. apply (proj1 (Forall_forall _ _) IHfs f Hf).
      - unfold all_fields_ok in Hwf. rewrite forallb_forall in Hwf. apply Hwf. assumption.
      - unfold union_fields_ok in Hsz. rewrite forallb_forall in Hsz. specialize (Hsz f Hf). destruct (fst f); [|discriminate].
        unfold named_field_ok in Hsz. apply andb_prop in Hsz. left. apply Hsz. }
    rewrite max_align_fields in *. set (tw := union_tag_width fs) in *.
    rewrite <- !app_assoc in Hs. rewrite (read_low_bits r tw k _ Hr ltac:(lia) Hs).
    rewrite Z.mod_small by lia. replace (zlen fs <=? k) with false by lia.
    apply sees_app in Hs. destruct Hs as [_ Hs]. rewrite zlen_low_bits in Hs. replace (Z.of_nat (Z.to_nat tw)) with tw in Hs by lia.
    set (b := enc_variant enc fs (Z.to_nat k) v (roff r + tw)) in *. pose proof (zlen_nonneg b).
    assert (Ztb : zlen (low_bits (Z.to_nat tw) k ++ b) = tw + zlen b) by (rewrite zlen_app, zlen_low_bits; lia).
    pose proof (pad_len_range 8 (roff r + (tw + zlen b)) ltac:(lia)) as Hpl.
    rewrite zlen_app, Ztb, zlen_pad in Hw by lia.
    rewrite (deser_variant_ok fs IH' (Z.to_nat k) v (r_adv r tw) (zero_bits (pad_len 8 (roff r + zlen (low_bits (Z.to_nat tw) k ++ b))) ++ rest) Hvv (rok_adv r tw Hr ltac:(lia))).
    + rewrite roff_adv. fold b. rewrite (r_align_to_adv _ 8 ltac:(lia)). rewrite roff_adv, !r_adv_adv.
      rewrite zlen_app, Ztb, zlen_pad by lia.
      rewrite roff_adv. replace (roff r + tw + zlen b) with (roff r + (tw + zlen b)) by lia. f_equal. f_equal. f_equal. lia.
    + rewrite roff_adv. lia.
    + rewrite roff_adv. exact Hs.
    + rewrite rend_adv, roff_adv. fold b. lia.
  - (* delimited *)
    apply andb_prop in Hwf. destruct Hwf as [Hwf _]. apply andb_prop in Hwf. destruct Hwf as [Hwf _].
    apply andb_prop in Hwf. destruct Hwf as [Hwi Hc]. apply andb_prop in Hv. destruct Hv as [Hv Hfit].
    destruct Hsz as [Hsz|Hsz]; [|discriminate]. cbn [serializable] in Hsz.
    assert (A8 : align i = 8) by (destruct i; try discriminate; cbn [align]; apply max_align_fields).
    rewrite (header_width_delim i Hc) in *. rewrite A8 in Ha.
    set (b := enc i v 0) in *. pose proof (zlen_nonneg b). pose proof (enc_composite_mod8 i v Hc) as M8. fold b in M8.
    rewrite <- app_assoc in Hs. rewrite (read_low_bits r 32 (zlen b / 8) _ Hr ltac:(lia) Hs).
    rewrite Z.mod_small by lia. rewrite remaining_rend, rend_adv, roff_adv.
    rewrite zlen_app, zlen_low_bits in Hw. change (Z.of_nat (Z.to_nat 32)) with 32 in Hw.
    replace (Z.max 0 (rend r - (roff r + 32)) <? zlen b / 8 * 8) with false by lia.
    unfold bounded_subreader. cbn [rdata roff r_adv].
    set (sub := {| rdata := rdata r; rstart := roff r + 32; roff := roff r + 32; rlimit := Some (zlen b / 8 * 8) |}).
    assert (Eb : enc i v (roff sub) = b). { subst b. apply enc_offset_mod. subst sub. cbn [roff]. lia. }
    apply sees_app in Hs. destruct Hs as [_ Hs]. rewrite zlen_low_bits in Hs. change (Z.of_nat (Z.to_nat 32)) with 32 in Hs.
    rewrite (IHi Hwi (or_introl Hsz) v sub [] Hv).
    + rewrite r_adv_adv, zlen_app, zlen_low_bits. change (Z.of_nat (Z.to_nat 32)) with 32.
      replace (zlen b / 8 * 8) with (zlen b) by lia. reflexivity.
    + split; [apply Hr|]. subst sub. cbn [roff]. destruct Hr. lia.
    + rewrite A8. subst sub. cbn [roff]. lia.
    + rewrite Eb, app_nil_r. intros j Hj. subst sub. unfold rbit, within. cbn [rlimit rstart roff rdata].
      replace (roff r + 32 + j <? roff r + 32 + zlen b / 8 * 8) with true by lia. cbn [andb].
      specialize (Hs j ltac:(rewrite zlen_app; pose proof (zlen_nonneg rest); lia)).
      rewrite rbit_adv, roff_adv in Hs. unfold rbit in Hs. rewrite within_below_rend in Hs by lia. cbn [andb] in Hs.
      rewrite Hs. rewrite bit_at_app by lia. replace (j <? zlen b) with true by lia. reflexivity.
    + rewrite Eb. subst sub. unfold rend. cbn [rlimit rstart roff]. lia.
Qed.
