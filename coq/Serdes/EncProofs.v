(* Properties of the bit-list encoding: it depends on the offset only modulo 8; it keeps the alignment. *)
From Coq Require Import ZArith List Bool Lia ZifyBool.
From PV Require Import BLS.Model Layout.Types Layout.Spec Layout.Proofs Layout.ProofsSpec.
From PV Require Import Serdes.Float Serdes.Utf8 Serdes.Model Serdes.Bits Serdes.BitsProofs Serdes.WriterProofs Serdes.Spec Serdes.SerProofs.
Import ListNotations.
Open Scope Z_scope.

Ltac Zify.zify_post_hook ::= Z.to_euclidean_division_equations.

Lemma pad_len_cong a o o' : a = 1 \/ a = 8 -> (o - o') mod 8 = 0 -> pad_len a o = pad_len a o'.
Proof. intros [->| ->] H; unfold pad_len; lia. Qed.

Definition off_indep (t : ty) : Prop := forall v o o', (o - o') mod 8 = 0 -> enc t v o = enc t v o'.

Lemma enc_elems_cong (Ee : val -> Z -> list bool) :
  (forall v o o', (o - o') mod 8 = 0 -> Ee v o = Ee v o') ->
  forall vs o o', (o - o') mod 8 = 0 -> enc_elems Ee vs o = enc_elems Ee vs o'.
Proof.
  intros H. induction vs as [|v r IH]; intros o o' C; cbn [enc_elems]; [reflexivity|].
  rewrite (H v o o' C). f_equal. apply IH. lia.
Qed.

Lemma enc_fields_cong fs : Forall (fun f => off_indep (snd f)) fs ->
  forall vs o o', (o - o') mod 8 = 0 -> enc_fields enc fs vs o = enc_fields enc fs vs o'.
Proof.
  induction 1 as [|[nm t] r Ht Hr IH]; intros vs o o' C; cbn [enc_fields]; [reflexivity|]. cbn [snd] in Ht.
  rewrite (pad_len_cong (align t) o o' (align_values t) C). destruct nm as [nm|].
  - destruct vs as [|v vs']; [reflexivity|].
    set (p := zero_bits (pad_len (align t) o')). set (v' := match v with VOmit => default_value t | _ => v end).
    rewrite (Ht v' (o + zlen p) (o' + zlen p)) by lia. f_equal. f_equal. apply IH. lia.
  - f_equal. apply IH. lia.
Qed.

Lemma enc_variant_cong fs : Forall (fun f => off_indep (snd f)) fs ->
  forall k v o o', (o - o') mod 8 = 0 -> enc_variant enc fs k v o = enc_variant enc fs k v o'.
Proof.
  induction 1 as [|f r Hf Hr IH]; intros k v o o' C; cbn [enc_variant]; [reflexivity|].
  destruct k; [apply Hf; assumption|apply IH; assumption].
Qed.

Theorem enc_offset_mod : forall t, off_indep t.
Proof.
  induction t as [p|wd|e n IHe|e n IHe|nm fs IHfs|nm fs IHfs|i ext IHi] using ty_ind'; unfold off_indep; intros v o o' C; cbn [enc]; try reflexivity.
  - destruct v; try reflexivity. apply enc_elems_cong; assumption.
  - destruct v; try reflexivity. f_equal. apply enc_elems_cong; [assumption|lia].
  - destruct v; try reflexivity. rewrite (enc_fields_cong fs IHfs vs o o' C). f_equal. f_equal.
    apply pad_len_cong; [rewrite max_align_fields; auto|lia].
  - destruct v; try reflexivity. rewrite (enc_variant_cong fs IHfs (Z.to_nat k) v (o + union_tag_width fs) (o' + union_tag_width fs)) by lia.
    f_equal. f_equal. apply pad_len_cong; [rewrite max_align_fields; auto|lia].
Qed.

(* ---------- widths are multiples of 8 ---------- *)
Lemma prefix_width_mod8 e n : wft (TVar e n) = true -> prefix_width (align e) n mod 8 = 0 /\ 8 <= prefix_width (align e) n.
Proof.
  cbn [wft]. intros H. apply andb_prop in H. destruct H as [H Hb]. apply andb_prop in H. destruct H as [_ Hn].
  rewrite prefix_width_eq by lia. destruct (spec_prefix_pos n) as [A [q B]]. lia.
Qed.

Lemma tag_width_mod8 nm fs : wft (TUnion nm fs) = true -> union_tag_width fs mod 8 = 0 /\ 8 <= union_tag_width fs.
Proof.
  cbn [wft]. intros H. apply andb_prop in H. destruct H as [H Hb]. apply andb_prop in H. destruct H as [_ Hn].
  rewrite union_tag_eq by lia. destruct (spec_tag_pos (Z.of_nat (length fs))) as [A [q B]]. lia.
Qed.

Lemma header_width_delim i : (match i with TStruct _ _ | TUnion _ _ => true | _ => false end) = true -> header_width (align i) = 32.
Proof. destruct i; try discriminate; intros _; cbn [align]; rewrite max_align_fields; reflexivity. Qed.

(* ---------- the encoding keeps the alignment ---------- *)
Definition keeps_align (t : ty) : Prop :=
  forall v o, o mod align t = 0 -> (o + zlen (enc t v o)) mod align t = 0.

Lemma enc_elems_aligned e : keeps_align e -> forall vs o, o mod align e = 0 -> (o + zlen (enc_elems (enc e) vs o)) mod align e = 0.
Proof.
  intros He. induction vs as [|v r IH]; intros o Ho; cbn [enc_elems].
  - change (zlen (@nil bool)) with 0. rewrite Z.add_0_r. exact Ho.
  - rewrite zlen_app, Z.add_assoc. apply IH. apply He. exact Ho.
Qed.

Theorem enc_aligned : forall t, wft t = true -> keeps_align t.
Proof.
  intros t Hwf. unfold keeps_align. intros v o Ho. destruct (align_values t) as [A|A].
  { rewrite A. apply Z.mod_1_r. }
  rewrite A in *.
  revert v o Ho A. induction t as [p|wd|e n IHe|e n IHe|nm fs _|nm fs _|i ext _] using ty_ind'; intros v o Ho A; cbn [align] in A; try discriminate.
  - cbn [wft] in Hwf. apply andb_prop in Hwf. destruct Hwf as [Hwe _]. cbn [enc]. destruct v; try (change (zlen (@nil bool)) with 0; rewrite Z.add_0_r; exact Ho).
    pose proof (enc_elems_aligned e) as H. rewrite A in H. apply H; [|exact Ho].
    unfold keeps_align. rewrite A. intros. apply IHe; assumption.
  - pose proof (prefix_width_mod8 e n Hwf) as [P1 P2].
    cbn [wft] in Hwf. apply andb_prop in Hwf. destruct Hwf as [Hwf _]. apply andb_prop in Hwf. destruct Hwf as [Hwe _].
    cbn [enc]. destruct v; try (change (zlen (@nil bool)) with 0; rewrite Z.add_0_r; exact Ho).
    rewrite zlen_app, zlen_low_bits, Z.add_assoc. replace (Z.of_nat (Z.to_nat (prefix_width (align e) n))) with (prefix_width (align e) n) by lia.
    pose proof (enc_elems_aligned e) as H. rewrite A in H. apply H; [|lia].
    unfold keeps_align. rewrite A. intros. apply IHe; assumption.
  - destruct (enc_composite_len (TStruct nm fs) v o eq_refl) as [H|H]; [exact H|]. rewrite H. change (zlen (@nil bool)) with 0. rewrite Z.add_0_r. exact Ho.
  - destruct (enc_composite_len (TUnion nm fs) v o eq_refl) as [H|H]; [exact H|]. rewrite H. change (zlen (@nil bool)) with 0. rewrite Z.add_0_r. exact Ho.
  - cbn [wft] in Hwf. apply andb_prop in Hwf. destruct Hwf as [Hwf _]. apply andb_prop in Hwf. destruct Hwf as [Hwf _].
    apply andb_prop in Hwf. destruct Hwf as [Hwi Hc]. cbn [enc]. rewrite zlen_app, zlen_low_bits. rewrite (header_width_delim i Hc).
    change (Z.of_nat (Z.to_nat 32)) with 32.
    destruct (enc_composite_len i v 0 Hc) as [H|H]; [|rewrite H; change (zlen (@nil bool)) with 0]; lia.
Qed.

Lemma enc_composite_mod8 i v : (match i with TStruct _ _ | TUnion _ _ => true | _ => false end) = true -> zlen (enc i v 0) mod 8 = 0.
Proof.
  intros Hc. destruct (enc_composite_len i v 0 Hc) as [H|H]; [exact H|rewrite H; reflexivity].
Qed.
