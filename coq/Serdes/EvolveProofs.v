(* C14 (wire part): data written with type t is read with any type t' such that [evolves t t'] as [conv t t' (canon t v)];
   the reader ends exactly where the writer ended.  Generalises the round trip (t' = t). *)
From Coq Require Import ZArith List Bool Lia ZifyBool.
From PV Require Import BLS.Model Layout.Types Layout.Spec Layout.Proofs Layout.ProofsSpec.
From PV Require Import Serdes.Float Serdes.Utf8 Serdes.Model Serdes.Bits Serdes.BitsProofs Serdes.WriterProofs Serdes.ReaderProofs
  Serdes.Spec Serdes.SerProofs Serdes.EncProofs Serdes.DeserProofs Serdes.Evolve Serdes.ProofsLayout Serdes.ZeroDecode.
Import ListNotations.
Open Scope Z_scope.

Ltac Zify.zify_post_hook ::= Z.to_euclidean_division_equations.

Definition deser_ok2 (t t' : ty) : Prop := forall v r rest, validb t v = true -> rok r -> roff r mod align t = 0 ->
  sees r (enc t v (roff r) ++ rest) -> roff r + zlen (enc t v (roff r)) <= rend r ->
  deser t' r = Ok (conv t t' (canon t v), r_adv r (zlen (enc t v (roff r)))).

Definition tok (t : ty) : Prop := wft t = true /\ (serializable t = true \/ is_void t = true).

Definition Q (t : ty) : Prop := wft t = true -> forall t', evolves t t' = true -> tok t' -> deser_ok2 t t'.

Lemma elems_ok2 e e' : deser_ok2 e e' -> keeps_align e ->
  forall vs r rest, forallb (validb e) vs = true -> rok r -> roff r mod align e = 0 ->
  sees r (enc_elems (enc e) vs (roff r) ++ rest) -> roff r + zlen (enc_elems (enc e) vs (roff r)) <= rend r ->
  deser_elems (deser e') (length vs) r = Ok (map (conv e e') (map (canon e) vs), r_adv r (zlen (enc_elems (enc e) vs (roff r)))).
Proof.
  intros He Ka. induction vs as [|v vs IH]; intros r rest Hv Hr Ha Hs Hw; cbn [length deser_elems map enc_elems] in *.
  - change (zlen (@nil bool)) with 0. rewrite r_adv_0. reflexivity.
  - apply andb_prop in Hv. destruct Hv as [Hv1 Hv2]. set (b := enc e v (roff r)) in *.
    pose proof (zlen_nonneg b). pose proof (zlen_nonneg (enc_elems (enc e) vs (roff r + zlen b))).
    rewrite zlen_app in Hw. rewrite <- app_assoc in Hs.
    rewrite (He v r _ Hv1 Hr Ha Hs ltac:(subst b; lia)). fold b.
    apply sees_app in Hs. destruct Hs as [_ Hs].
    rewrite (IH (r_adv r (zlen b)) rest Hv2 (rok_adv r (zlen b) Hr ltac:(lia)) (Ka v (roff r) Ha) Hs ltac:(rewrite rend_adv, roff_adv; lia)).
    rewrite roff_adv, r_adv_adv, zlen_app. reflexivity.
Qed.

Lemma evolves_void_width t t' : evolves t t' = true -> void_width t = void_width t'.
Proof.
  destruct t, t'; try discriminate; try (destruct t; discriminate); cbn [void_width]; try reflexivity.
  cbn [evolves]. intros H. apply Z.eqb_eq in H. exact H.
Qed.

Lemma struct_fields_tok gs g : all_fields_ok wft gs = true -> struct_fields_ok serializable gs = true -> In g gs -> tok (snd g).
Proof.
  intros Hw Hs Hin. split.
  - unfold all_fields_ok in Hw. rewrite forallb_forall in Hw. apply Hw. assumption.
  - destruct (serializable_fields_struct gs g Hs Hin) as [[_ A]|[_ A]]; auto.
Qed.

Lemma fields_zero_ok gs : all_fields_ok wft gs = true -> struct_fields_ok serializable gs = true -> Forall (fun f => zero_ok (snd f)) gs.
Proof.
  intros Hw Hs. apply Forall_forall. intros g Hg. destruct (struct_fields_tok gs g Hw Hs Hg) as [A B]. apply zero_decode; assumption.
Qed.

Lemma fields_ok2 fs : Forall (fun f => Q (snd f)) fs -> all_fields_ok wft fs = true ->
  forall gs, fields_prefix_evolve evolves fs gs = true -> all_fields_ok wft gs = true -> struct_fields_ok serializable gs = true ->
  forall vs r rest, valid_fields validb fs vs = true -> rok r ->
  sees r (enc_fields enc fs vs (roff r) ++ rest) -> roff r + zlen (enc_fields enc fs vs (roff r)) <= rend r ->
  ((length fs < length gs)%nat -> forall j, roff r + zlen (enc_fields enc fs vs (roff r)) <= j -> rbit r j = false) ->
  exists r', deser_fields deser gs r = Ok (conv_fields conv fs gs (canon_fields canon fs vs), r') /\
             (length fs = length gs -> r' = r_adv r (zlen (enc_fields enc fs vs (roff r)))).
Proof.
  induction 1 as [|[nm t] fr Ht Hfr IH]; intros Hwf gs Hev Hwg Hsg vs r rest Hv Hr Hs Hw Hz.
  - (* the writer's fields are exhausted: the reader's remaining fields see zeros *)
    cbn [enc_fields canon_fields conv_fields] in *. change (zlen (@nil bool)) with 0 in *. destruct gs as [|g gr].
    + cbn [deser_fields default_fields]. exists r. split; [reflexivity|]. intros _. symmetry. apply r_adv_0.
    + assert (ZRr : ZR r). { split; [assumption|]. intros j Hj. apply Hz; [simpl; lia|lia]. }
      destruct (zero_fields (g :: gr) (fields_zero_ok _ Hwg Hsg) Hwg r ZRr) as (r' & E & _). exists r'. split; [exact E|].
      simpl. discriminate.
  - destruct gs as [|[nm' t'] gr].
    + (* the reader knows fewer fields *)
      cbn [deser_fields]. exists r. split; [|simpl; discriminate]. cbn [canon_fields conv_fields].
      destruct nm; [destruct vs|]; reflexivity.
    + cbn [fields_prefix_evolve fst snd] in Hev. apply andb_prop in Hev. destruct Hev as [Hev Hevr]. apply andb_prop in Hev. destruct Hev as [Hk Het].
      unfold all_fields_ok in Hwf, Hwg. cbn [forallb snd] in Hwf, Hwg. apply andb_prop in Hwf. destruct Hwf as [Hwt Hwr].
      apply andb_prop in Hwg. destruct Hwg as [Hwt' Hwgr].
      assert (Tk : tok t') by (apply (struct_fields_tok ((nm', t') :: gr) (nm', t')); [unfold all_fields_ok; cbn [forallb snd]; rewrite Hwt', Hwgr; reflexivity|assumption|left; reflexivity]).
      assert (Hsgr : struct_fields_ok serializable gr = true).
      { unfold struct_fields_ok in *. cbn [forallb] in Hsg. apply andb_prop in Hsg. apply Hsg. }
      cbn [snd] in Ht. destruct (evolves_lay_eq t t' Het) as [_ Eal].
      cbn [deser_fields enc_fields canon_fields conv_fields valid_fields] in *.
      pose proof (align_pos t) as Hap. rewrite <- Eal. rewrite (r_align_to_adv r (align t) Hap).
      set (pl := pad_len (align t) (roff r)) in *. pose proof (pad_len_range (align t) (roff r) Hap) as Hpl. fold pl in Hpl.
      assert (Zp : zlen (zero_bits pl) = pl) by (apply zlen_zero_bits; lia).
      destruct nm as [nm|]; destruct nm' as [nm'|]; try discriminate.
      * destruct vs as [|v vs']; [discriminate|]. apply andb_prop in Hv. destruct Hv as [Hv1 Hv2].
        set (v' := match v with VOmit => default_value t | _ => v end) in *. rewrite Zp in *.
        set (b := enc t v' (roff r + pl)) in *.
        pose proof (zlen_nonneg b). pose proof (zlen_nonneg (enc_fields enc fr vs' (roff r + pl + zlen b))).
        rewrite !zlen_app, Zp in Hw. rewrite <- !app_assoc in Hs. apply sees_app in Hs. destruct Hs as [_ Hs]. rewrite Zp in Hs.
        assert (Ha : roff (r_adv r pl) mod align t = 0) by (rewrite roff_adv; apply pad_len_aligned; assumption).
        rewrite (Ht Hwt t' Het Tk v' (r_adv r pl) _ Hv1 (rok_adv r pl Hr ltac:(lia)) Ha Hs ltac:(rewrite rend_adv, roff_adv; fold b; lia)).
        rewrite roff_adv. fold b. apply sees_app in Hs. destruct Hs as [_ Hs].
        rewrite r_adv_adv. rewrite r_adv_adv in Hs.
        assert (Eo : roff (r_adv r (pl + zlen b)) = roff r + pl + zlen b) by (rewrite roff_adv; lia).
        destruct (IH Hwr gr Hevr Hwgr Hsgr vs' (r_adv r (pl + zlen b)) rest Hv2 (rok_adv r (pl + zlen b) Hr ltac:(lia))) as (r' & E & Hl).
        -- rewrite Eo. exact Hs.
        -- rewrite rend_adv, Eo. lia.
        -- intros Hlen j Hj. rewrite rbit_adv. apply Hz; [simpl; lia|]. rewrite Eo in Hj. rewrite !zlen_app, Zp. lia.
        -- rewrite E. exists r'. split; [reflexivity|]. intros Hlen. rewrite Hl by (simpl in Hlen; lia).
           rewrite Eo, r_adv_adv, !zlen_app, Zp. f_equal. lia.
      * assert (Hvw : 0 <= void_width t). { destruct t; cbn [void_width]; try lia. simpl in Hwt. lia. }
        rewrite <- (evolves_void_width t t' Het).
        assert (Zv : zlen (zero_bits (void_width t)) = void_width t) by (apply zlen_zero_bits; lia).
        destruct (read_bits_spec (r_adv r pl) (void_width t) (proj1 Hr) Hvw ltac:(rewrite roff_adv; destruct Hr; lia)) as (S1 & _).
        rewrite S1, r_adv_adv.
        assert (Zpv : zlen (zero_bits pl ++ zero_bits (void_width t)) = pl + void_width t) by (rewrite zlen_app, Zp, Zv; reflexivity).
        rewrite zlen_app, Zpv in Hw. rewrite Zpv in Hs.
        pose proof (zlen_nonneg (enc_fields enc fr vs (roff r + (pl + void_width t)))).
        rewrite <- (app_assoc (zero_bits pl ++ zero_bits (void_width t))) in Hs.
        apply sees_app in Hs. destruct Hs as [_ Hs]. rewrite Zpv in Hs.
        destruct (IH Hwr gr Hevr Hwgr Hsgr vs (r_adv r (pl + void_width t)) rest Hv (rok_adv r (pl + void_width t) Hr ltac:(lia))) as (r' & E & Hl).
        -- rewrite roff_adv. exact Hs.
        -- rewrite rend_adv, roff_adv. lia.
        -- intros Hlen j Hj. rewrite rbit_adv. apply Hz; [simpl; lia|]. rewrite roff_adv in Hj. rewrite zlen_app, Zpv. lia.
        -- rewrite E. exists r'. split; [reflexivity|]. intros Hlen. rewrite Hl by (simpl in Hlen; lia).
           rewrite roff_adv, r_adv_adv, zlen_app, Zpv. reflexivity.
Qed.

Lemma fields_evolve_prefix (E : ty -> ty -> bool) fs : forall gs, fields_evolve E fs gs = true ->
  fields_prefix_evolve E fs gs = true /\ length fs = length gs.
Proof.
  induction fs as [|f fr IH]; intros [|g gr] H; cbn [fields_evolve fields_prefix_evolve] in *; try discriminate; auto.
  apply andb_prop in H. destruct H as [H1 H2]. destruct (IH gr H2) as [A B]. rewrite H1, A. simpl. auto.
Qed.

Lemma variant_ok2 fs : Forall (fun f => Q (snd f)) fs -> all_fields_ok wft fs = true ->
  forall gs, fields_evolve evolves fs gs = true -> all_fields_ok wft gs = true -> union_fields_ok serializable gs = true ->
  forall k v r rest, valid_variant validb fs k v = true -> rok r -> roff r mod 8 = 0 ->
  sees r (enc_variant enc fs k v (roff r) ++ rest) -> roff r + zlen (enc_variant enc fs k v (roff r)) <= rend r ->
  deser_variant deser gs k r = Ok (conv_variant conv fs gs k (canon_variant canon fs k v), r_adv r (zlen (enc_variant enc fs k v (roff r)))).
Proof.
  induction 1 as [|f fr Hf Hfr IH]; intros Hwf gs Hev Hwg Hsg k v r rest Hv Hr Ha Hs Hw; cbn [valid_variant] in Hv; [discriminate|].
  destruct gs as [|g gr]; [discriminate|]. cbn [fields_evolve] in Hev. apply andb_prop in Hev. destruct Hev as [Hev Hevr].
  apply andb_prop in Hev. destruct Hev as [Hk Het].
  unfold all_fields_ok in Hwf, Hwg. cbn [forallb] in Hwf, Hwg. apply andb_prop in Hwf. destruct Hwf as [Hwt Hwr].
  apply andb_prop in Hwg. destruct Hwg as [Hwt' Hwgr].
  unfold union_fields_ok in Hsg. cbn [forallb] in Hsg. apply andb_prop in Hsg. destruct Hsg as [Hsg1 Hsgr].
  cbn [deser_variant enc_variant canon_variant conv_variant] in *. destruct k as [|k].
  - assert (Tk : tok (snd g)).
    { split; [assumption|]. destruct (fst g); [|discriminate]. unfold named_field_ok in Hsg1. apply andb_prop in Hsg1. left. apply Hsg1. }
    apply (Hf Hwt (snd g) Het Tk v r rest); auto. apply mod8_align. assumption.
  - apply (IH Hwr gr Hevr Hwgr Hsgr k v r rest); assumption.
Qed.

Lemma evolves_utf8 e e' : evolves e e' = true -> is_utf8 e' = is_utf8 e.
Proof.
  destruct e, e'; try discriminate; try (destruct e; discriminate); try reflexivity.
  cbn [evolves]. intros H. apply prim_eqb_eq in H. subst. reflexivity.
Qed.

Lemma conv_prim_id p t' v : conv (TPrim p) t' v = v.
Proof. reflexivity. Qed.

Lemma finish_array_conv e e' vs : evolves e e' = true ->
  (if is_utf8 e then match byte_values vs with Some bs => utf8_valid bs | None => false end else true) = true ->
  finish_array e' (map (conv e e') (map (canon e) vs)) = Ok (VList (map (conv e e') (map (canon e) vs))).
Proof.
  intros Hev. unfold finish_array. rewrite (evolves_utf8 e e' Hev). destruct (is_utf8 e) eqn:U; [|reflexivity].
  destruct e; try discriminate. destruct p; try discriminate.
  destruct (byte_values vs) as [bs|] eqn:B; [|discriminate]. intros V. rewrite (canon_bytes_id vs bs B).
  replace (map (conv (TPrim PUtf8) e') vs) with vs by (symmetry; apply map_id). rewrite B, V. reflexivity.
Qed.

Lemma union_tag_width_ext (fs gs : list (option str * ty)) : map (fun f => align (snd f)) fs = map (fun f => align (snd f)) gs ->
  union_tag_width fs = union_tag_width gs.
Proof.
  intros H. unfold union_tag_width. rewrite (fold_max_ext align 0 fs gs H).
  assert (L : length fs = length gs) by (rewrite <- (map_length (fun f => align (snd f)) fs), H, map_length; reflexivity).
  rewrite L. reflexivity.
Qed.

(* the induction: Q for every type, and Q for the fields of a structure (needed under a delimited wrapper) *)
Definition P (t : ty) : Prop := Q t /\ match t with TStruct _ fs => Forall (fun f => Q (snd f)) fs | _ => True end.

Lemma wft_fields_Q (fs : list (option str * ty)) : Forall (fun f => P (snd f)) fs -> Forall (fun f => Q (snd f)) fs.
Proof. intros H. eapply Forall_impl; [|exact H]. intros f [A _]. exact A. Qed.

Theorem evolve_deser : forall t, P t.
Proof.
  induction t as [p|wd|e n IHe|e n IHe|nm fs IHfs|nm fs IHfs|i ext IHi] using ty_ind'; (split; [|try exact I]);
    try (unfold Q; intros Hwf t' Hev [Hwf' Hsz'] v r rest Hv Hr Ha Hs Hw; pose proof Hwf as Hwf0; pose proof Hwf' as Hwf0').
  - (* primitive *)
    destruct t'; try discriminate. cbn [evolves] in Hev. apply prim_eqb_eq in Hev. subst p0.
    cbn [wft validb deser enc canon conv] in *. rewrite (deser_prim_ok p v r rest Hwf Hv Hr Hs). reflexivity.
  - destruct t'; try discriminate. cbn [evolves] in Hev. apply Z.eqb_eq in Hev. subst w.
    cbn [wft validb deser enc canon conv] in *.
    assert (Zv : zlen (zero_bits wd) = wd) by (apply zlen_zero_bits; lia).
    destruct (read_bits_spec r wd (proj1 Hr) ltac:(lia) (proj2 Hr)) as (S1 & _). rewrite S1, Zv. reflexivity.
  - (* fixed array *)
    destruct t' as [ | |e' n'| | | | ]; try discriminate. cbn [evolves] in Hev. apply andb_prop in Hev. destruct Hev as [Hn Hev]. apply Z.eqb_eq in Hn. subst n'.
    cbn [wft validb deser enc canon conv align] in *.
    apply andb_prop in Hwf. destruct Hwf as [Hwe Hn]. apply andb_prop in Hwf'. destruct Hwf' as [Hwe' _]. destruct v; try discriminate.
    apply andb_prop in Hv. destruct Hv as [Hl Hvs].
    destruct Hsz' as [Hsz'|Hsz']; [|discriminate]. cbn [serializable] in Hsz'. apply andb_prop in Hsz'. destruct Hsz' as [Hu Hse'].
    replace (Z.to_nat n) with (length vs) by (unfold zlen in Hl; lia).
    rewrite (elems_ok2 e e' (proj1 IHe Hwe e' Hev (conj Hwe' (or_introl Hse'))) (enc_aligned e Hwe) vs r rest Hvs Hr Ha Hs Hw).
    unfold finish_array. destruct (is_utf8 e'); [discriminate|reflexivity].
  - (* variable array *)
    destruct t' as [ | | |e' n'| | | ]; try discriminate. cbn [evolves] in Hev. apply andb_prop in Hev. destruct Hev as [Hn Hev]. apply Z.eqb_eq in Hn. subst n'.
    pose proof (cap_lt_prefix e n Hwf0) as Hcap. pose proof (prefix_width_mod8 e n Hwf0) as [P1 P2].
    destruct (evolves_lay_eq e e' Hev) as [_ Eal].
    cbn [wft validb deser enc canon conv align] in *. rewrite <- Eal.
    apply andb_prop in Hwf. destruct Hwf as [Hwf Hb]. apply andb_prop in Hwf. destruct Hwf as [Hwe Hn].
    apply andb_prop in Hwf'. destruct Hwf' as [Hwf' _]. apply andb_prop in Hwf'. destruct Hwf' as [Hwe' _].
    destruct v; try discriminate. apply andb_prop in Hv. destruct Hv as [Hv Hu]. apply andb_prop in Hv. destruct Hv as [Hl Hvs].
    destruct Hsz' as [Hsz'|Hsz']; [|discriminate]. cbn [serializable] in Hsz'.
    set (pw := prefix_width (align e) n) in *. pose proof (zlen_nonneg vs).
    rewrite <- app_assoc in Hs. rewrite (read_low_bits r pw (zlen vs) _ Hr ltac:(lia) Hs).
    rewrite Z.mod_small by lia. replace (n <? zlen vs) with false by lia.
    replace (Z.to_nat (zlen vs)) with (length vs) by (unfold zlen; lia).
    apply sees_app in Hs. destruct Hs as [_ Hs]. rewrite zlen_low_bits in Hs.
    replace (Z.of_nat (Z.to_nat pw)) with pw in Hs by lia.
    rewrite zlen_app, zlen_low_bits in Hw. replace (Z.of_nat (Z.to_nat pw)) with pw in Hw by lia.
    pose proof (zlen_nonneg (enc_elems (enc e) vs (roff r + pw))).
    assert (Ha' : roff (r_adv r pw) mod align e = 0).
    { rewrite roff_adv. destruct (align_values e) as [E|E]; rewrite E in *; [apply Z.mod_1_r|lia]. }
    rewrite (elems_ok2 e e' (proj1 IHe Hwe e' Hev (conj Hwe' (or_introl Hsz'))) (enc_aligned e Hwe) vs (r_adv r pw) rest Hvs (rok_adv r pw Hr ltac:(lia)) Ha').
    + rewrite (finish_array_conv e e' vs Hev Hu). rewrite roff_adv, r_adv_adv, zlen_app, zlen_low_bits.
      replace (Z.of_nat (Z.to_nat pw)) with pw by lia. reflexivity.
    + rewrite roff_adv. exact Hs.
    + rewrite rend_adv, roff_adv. lia.
  - (* structure *)
    destruct t' as [ | | | |nm' gs| | ]; try discriminate. cbn [evolves] in Hev.
    destruct (fields_evolve_prefix evolves fs gs Hev) as [Hpre Hlen].
    cbn [wft validb deser enc canon conv align] in *. destruct v; try discriminate.
    destruct Hsz' as [Hsz'|Hsz']; [|discriminate]. cbn [serializable] in Hsz'.
    rewrite !max_align_fields in *.
    set (b := enc_fields enc fs vs (roff r)) in *. pose proof (zlen_nonneg b).
    pose proof (pad_len_range 8 (roff r + zlen b) ltac:(lia)) as Hpl.
    rewrite zlen_app, zlen_pad in Hw by lia. rewrite <- app_assoc in Hs.
    destruct (fields_ok2 fs (wft_fields_Q fs IHfs) Hwf gs Hpre Hwf' Hsz' vs r _ Hv Hr Hs ltac:(fold b; lia)) as (r' & E & Hl).
    { intros Hlt. lia. }
    rewrite E. rewrite (Hl Hlen). fold b.
    rewrite (r_align_to_adv _ 8 ltac:(lia)). rewrite roff_adv, r_adv_adv, zlen_app, zlen_pad by lia. reflexivity.
  - apply wft_fields_Q. assumption.
  - (* union *)
    destruct t' as [ | | | | |nm' gs| ]; try discriminate. cbn [evolves] in Hev.
    pose proof (variants_le_tag nm fs Hwf0) as Hnv. pose proof (tag_width_mod8 nm fs Hwf0) as [T1 T2].
    destruct (evolves_union_fields nm nm' fs gs Hev) as [_ Eal]. pose proof (union_tag_width_ext fs gs Eal) as Etw.
    assert (Elen : zlen gs = zlen fs).
    { unfold zlen. f_equal. rewrite <- (map_length (fun f => align (snd f)) fs), Eal, map_length. reflexivity. }
    cbn [wft validb deser enc canon conv align] in *. destruct v; try discriminate. apply andb_prop in Hv. destruct Hv as [Hk Hvv].
    apply andb_prop in Hwf. destruct Hwf as [Hwf _]. apply andb_prop in Hwf. destruct Hwf as [Hwf _].
    apply andb_prop in Hwf'. destruct Hwf' as [Hwf' _]. apply andb_prop in Hwf'. destruct Hwf' as [Hwf' _].
    destruct Hsz' as [Hsz'|Hsz']; [|discriminate]. cbn [serializable] in Hsz'.
    rewrite !max_align_fields in *. rewrite <- Etw, Elen. set (tw := union_tag_width fs) in *.
    rewrite <- !app_assoc in Hs. rewrite (read_low_bits r tw k _ Hr ltac:(lia) Hs).
    rewrite Z.mod_small by lia. replace (zlen fs <=? k) with false by lia.
    apply sees_app in Hs. destruct Hs as [_ Hs]. rewrite zlen_low_bits in Hs. replace (Z.of_nat (Z.to_nat tw)) with tw in Hs by lia.
    set (b := enc_variant enc fs (Z.to_nat k) v (roff r + tw)) in *. pose proof (zlen_nonneg b).
    assert (Ztb : zlen (low_bits (Z.to_nat tw) k ++ b) = tw + zlen b) by (rewrite zlen_app, zlen_low_bits; lia).
    pose proof (pad_len_range 8 (roff r + (tw + zlen b)) ltac:(lia)) as Hpl.
    rewrite zlen_app, Ztb, zlen_pad in Hw by lia.
    rewrite (variant_ok2 fs (wft_fields_Q fs IHfs) Hwf gs Hev Hwf' Hsz' (Z.to_nat k) v (r_adv r tw)
               (zero_bits (pad_len 8 (roff r + zlen (low_bits (Z.to_nat tw) k ++ b))) ++ rest) Hvv (rok_adv r tw Hr ltac:(lia))).
    + rewrite roff_adv. fold b. rewrite (r_align_to_adv _ 8 ltac:(lia)). rewrite roff_adv, !r_adv_adv.
      rewrite zlen_app, Ztb, zlen_pad by lia.
      rewrite roff_adv. replace (roff r + tw + zlen b) with (roff r + (tw + zlen b)) by lia. f_equal. f_equal. f_equal. lia.
    + rewrite roff_adv. lia.
    + rewrite roff_adv. exact Hs.
    + rewrite rend_adv, roff_adv. fold b. lia.
  - (* delimited *)
    destruct t' as [ | | | | | |i' ext']; try discriminate; try (destruct i; discriminate).
    destruct IHi as [Qi Fi].
    cbn [wft] in Hwf, Hwf'.
    apply andb_prop in Hwf. destruct Hwf as [Hwf _]. apply andb_prop in Hwf. destruct Hwf as [Hwf _].
    apply andb_prop in Hwf. destruct Hwf as [Hwi Hc].
    apply andb_prop in Hwf'. destruct Hwf' as [Hwf' _]. apply andb_prop in Hwf'. destruct Hwf' as [Hwf' _].
    apply andb_prop in Hwf'. destruct Hwf' as [Hwi' Hc'].
    cbn [validb] in Hv. apply andb_prop in Hv. destruct Hv as [Hv Hfit].
    destruct Hsz' as [Hsz'|Hsz']; [|discriminate]. cbn [serializable] in Hsz'.
    assert (A8 : align i = 8) by (destruct i; try discriminate; cbn [align]; apply max_align_fields).
    cbn [deser enc canon conv align] in *.
    rewrite (header_width_delim i' Hc'). rewrite (header_width_delim i Hc) in *. rewrite A8 in Ha.
    set (b := enc i v 0) in *. pose proof (zlen_nonneg b). pose proof (enc_composite_mod8 i v Hc) as M8. fold b in M8.
    rewrite <- app_assoc in Hs. rewrite (read_low_bits r 32 (zlen b / 8) _ Hr ltac:(lia) Hs).
    rewrite Z.mod_small by lia. rewrite remaining_rend, rend_adv, roff_adv.
    rewrite zlen_app, zlen_low_bits in Hw. change (Z.of_nat (Z.to_nat 32)) with 32 in Hw.
    replace (Z.max 0 (rend r - (roff r + 32)) <? zlen b / 8 * 8) with false by lia.
    unfold bounded_subreader. cbn [rdata roff r_adv].
    set (sub := {| rdata := rdata r; rstart := roff r + 32; roff := roff r + 32; rlimit := Some (zlen b / 8 * 8) |}).
    apply sees_app in Hs. destruct Hs as [_ Hs]. rewrite zlen_low_bits in Hs. change (Z.of_nat (Z.to_nat 32)) with 32 in Hs.
    assert (Rs : rok sub) by (split; [apply Hr|subst sub; cbn [roff]; destruct Hr; lia]).
    assert (Ss : forall j, 0 <= j < zlen b -> rbit sub (roff sub + j) = bit_at b j).
    { intros j Hj. subst sub. unfold rbit, within. cbn [rlimit rstart roff rdata].
      replace (roff r + 32 + j <? roff r + 32 + zlen b / 8 * 8) with true by lia. cbn [andb].
      specialize (Hs j ltac:(rewrite zlen_app; pose proof (zlen_nonneg rest); lia)).
      rewrite rbit_adv, roff_adv in Hs. unfold rbit in Hs. rewrite within_below_rend in Hs by lia. cbn [andb] in Hs.
      rewrite Hs. rewrite bit_at_app by lia. replace (j <? zlen b) with true by lia. reflexivity. }
    assert (Fin : forall x p, deser i' sub = Ok (x, p) -> x = conv i i' (canon i v) ->
              match deser i' sub with Ok (v0, _) => Ok (v0, r_adv (r_adv r 32) (zlen b / 8 * 8)) | Err e => Err e end =
              Ok (conv i i' (canon i v), r_adv r (zlen (low_bits (Z.to_nat 32) (zlen b / 8) ++ b)))).
    { intros x p E Ex. rewrite E, Ex. rewrite r_adv_adv, zlen_app, zlen_low_bits. change (Z.of_nat (Z.to_nat 32)) with 32.
      replace (zlen b / 8 * 8) with (zlen b) by lia. reflexivity. }
    assert (C : (exists nm fs nm' gs, i = TStruct nm fs /\ i' = TStruct nm' gs) \/ ((ext =? ext') && evolves i i' = true)).
    { destruct i, i'; try (right; exact Hev); left; eauto 8. }
    destruct C as [(nm & fs & nm' & gs & -> & ->)|C].
    + (* the hole: a delimited structure read with a revision that has more / fewer trailing fields *)
      cbn [evolves] in Hev. apply andb_prop in Hev. destruct Hev as [_ Hpre].
      cbn [wft] in Hwi, Hwi'. cbn [serializable] in Hsz'. cbn [validb] in Hv. destruct v; try discriminate.
      subst b. cbn [enc] in *. rewrite max_align_fields in *.
      set (b0 := enc_fields enc fs vs 0) in *. pose proof (zlen_nonneg b0).
      pose proof (pad_len_range 8 (0 + zlen b0) ltac:(lia)) as Hpl.
      assert (Eb0 : enc_fields enc fs vs (roff sub) = b0).
      { subst b0. apply enc_fields_cong; [|subst sub; cbn [roff]; lia]. apply Forall_forall. intros f _. apply enc_offset_mod. }
      rewrite zlen_app, zlen_pad in Ss by lia. rewrite zlen_app, zlen_pad in M8, Hw by lia.
      destruct (fields_ok2 fs Fi Hwi gs Hpre Hwi' Hsz' vs sub (zero_bits (pad_len 8 (0 + zlen b0))) Hv Rs) as (r' & E & _).
      * rewrite Eb0. intros j Hj. rewrite zlen_app, zlen_pad in Hj by lia. apply Ss. lia.
      * rewrite Eb0. subst sub. unfold rend. cbn [rlimit rstart roff]. rewrite (max_align_fields fs), zlen_app, zlen_pad by lia. lia.
      * intros _ j Hj. rewrite Eb0 in Hj. destruct (Z.lt_ge_cases j (roff sub + (zlen b0 + pad_len 8 (0 + zlen b0)))).
        -- replace j with (roff sub + (j - roff sub)) by lia. rewrite Ss by lia. rewrite bit_at_app by lia.
           replace (j - roff sub <? zlen b0) with false by lia. apply bit_at_zero_bits.
        -- subst sub. unfold rbit, within. cbn [rlimit rstart roff] in *. rewrite ?(max_align_fields fs), zlen_app, zlen_pad in * by lia.
           replace (j <? roff r + 32 + (zlen b0 + pad_len 8 (0 + zlen b0)) / 8 * 8) with false by lia. reflexivity.
      * cbn [deser]. rewrite E. cbn [canon conv]. rewrite r_adv_adv, !zlen_app, zlen_low_bits, zlen_pad by lia.
        change (Z.of_nat (Z.to_nat 32)) with 32. fold b0.
        replace ((zlen b0 + pad_len 8 (0 + zlen b0)) / 8 * 8) with (zlen b0 + pad_len 8 (0 + zlen b0)) by lia. reflexivity.
    + apply andb_prop in C. destruct C as [_ Hev'].
      assert (Eb : enc i v (roff sub) = b). { subst b. apply enc_offset_mod. subst sub. cbn [roff]. lia. }
      assert (G : deser i' sub = Ok (conv i i' (canon i v), r_adv sub (zlen (enc i v (roff sub))))).
      { apply (Qi Hwi i' Hev' (conj Hwi' (or_introl Hsz')) v sub [] Hv Rs).
        - rewrite A8. subst sub. cbn [roff]. lia.
        - rewrite Eb, app_nil_r. exact Ss.
        - rewrite Eb. subst sub. unfold rend. cbn [rlimit rstart roff]. lia. }
      apply (Fin _ _ G eq_refl).
Qed.
