(* C14 (layout part): the layout of a container does not depend on the field list of a nested delimited structure. *)
From Coq Require Import ZArith List Bool Lia.
From PV Require Import BLS.Model Layout.Types Layout.Spec Layout.Proofs Serdes.Evolve.
Import ListNotations.
Open Scope Z_scope.

Lemma cast_eqb_eq c d : cast_eqb c d = true -> c = d.
Proof. destruct c, d; simpl; congruence. Qed.

Lemma prim_eqb_eq p q : prim_eqb p q = true -> p = q.
Proof.
  destruct p, q; simpl; try congruence; intros H;
    repeat (apply andb_prop in H; destruct H as [H ?]);
    repeat match goal with
           | X : (_ =? _) = true |- _ => apply Z.eqb_eq in X
           | X : cast_eqb _ _ = true |- _ => apply cast_eqb_eq in X
           end; subst; reflexivity.
Qed.

Definition lay_eq (t t' : ty) : Prop := bls t = bls t' /\ align t = align t'.

Lemma fields_evolve_maps fs : forall gs,
  Forall (fun f => forall t', evolves (snd f) t' = true -> lay_eq (snd f) t') fs ->
  fields_evolve evolves fs gs = true ->
  map (fun f => bls (snd f)) fs = map (fun f => bls (snd f)) gs /\
  map (fun f => align (snd f)) fs = map (fun f => align (snd f)) gs /\
  map (fun f => same_kind (fst f) None) fs = map (fun f => same_kind (fst f) None) gs.
Proof.
  induction fs as [|x fs IH]; intros [|y gs] HF H; simpl in *; try discriminate; auto.
  apply andb_prop in H. destruct H as [H H3]. apply andb_prop in H. destruct H as [H1 H2].
  inversion HF as [|? ? Hx HF']; subst.
  destruct (Hx _ H2) as [A B]. destruct (IH gs HF' H3) as (C & D & E).
  repeat split; f_equal; auto.
  destruct (fst x), (fst y); simpl in *; congruence.
Qed.

Lemma struct_agg_from_ext (B : ty -> op) (A : ty -> Z) (fs : list (option str * ty)) : forall gs acc,
  map (fun f => B (snd f)) fs = map (fun f => B (snd f)) gs ->
  map (fun f => A (snd f)) fs = map (fun f => A (snd f)) gs ->
  struct_agg_from B A acc fs = struct_agg_from B A acc gs.
Proof.
  induction fs as [|x fs IH]; intros [|y gs] acc H1 H2; simpl in *; try discriminate; auto.
  inversion H1. inversion H2. rewrite H0, H4. apply IH; assumption.
Qed.

Lemma struct_agg_ext (B : ty -> op) (A : ty -> Z) (fs gs : list (option str * ty)) :
  map (fun f => B (snd f)) fs = map (fun f => B (snd f)) gs ->
  map (fun f => A (snd f)) fs = map (fun f => A (snd f)) gs ->
  struct_agg B A fs = struct_agg B A gs.
Proof.
  destruct fs as [|x fs], gs as [|y gs]; simpl; intros H1 H2; try discriminate; auto.
  inversion H1. inversion H2. rewrite H0. apply struct_agg_from_ext; assumption.
Qed.

Lemma fold_max_ext (A : ty -> Z) z (fs gs : list (option str * ty)) :
  map (fun f => A (snd f)) fs = map (fun f => A (snd f)) gs ->
  fold_right (fun f acc => Z.max (A (snd f)) acc) z fs = fold_right (fun f acc => Z.max (A (snd f)) acc) z gs.
Proof.
  revert gs. induction fs as [|x fs IH]; intros [|y gs] H; simpl in *; try discriminate; auto.
  inversion H. rewrite H1. f_equal. apply IH. assumption.
Qed.

Lemma union_agg_ext (B : ty -> op) (A : ty -> Z) (fs gs : list (option str * ty)) :
  map (fun f => B (snd f)) fs = map (fun f => B (snd f)) gs ->
  map (fun f => A (snd f)) fs = map (fun f => A (snd f)) gs ->
  union_agg B A fs = union_agg B A gs.
Proof.
  intros H1 H2.
  assert (L : length fs = length gs) by (rewrite <- (map_length (fun f => B (snd f)) fs), H1, map_length; reflexivity).
  unfold union_agg.
  destruct fs as [|x [|x2 fs]], gs as [|y [|y2 gs]]; try (simpl in L; discriminate); auto.
  - simpl in H1. inversion H1. reflexivity.
  - rewrite (fold_max_ext A 0 _ _ H2). rewrite L. rewrite H1. reflexivity.
Qed.

Lemma evolves_lay_eq : forall t t', evolves t t' = true -> lay_eq t t'.
Proof.
  induction t as [p|w|e n IHt|e n IHt|nm fs IHfs|nm fs IHfs|t ext IHt] using ty_ind'; intros t' H; destruct t' as [p'|w'|e' n'|e' n'|nm' gs|nm' gs|t' ext']; try discriminate; try (destruct t; discriminate); cbn [evolves] in H.
  - apply prim_eqb_eq in H. subst. split; reflexivity.
  - apply Z.eqb_eq in H. subst. split; reflexivity.
  - apply andb_prop in H. destruct H as [H1 H2]. apply Z.eqb_eq in H1. subst.
    destruct (IHt _ H2) as [A B]. split; simpl; congruence.
  - apply andb_prop in H. destruct H as [H1 H2]. apply Z.eqb_eq in H1. subst.
    destruct (IHt _ H2) as [A B]. split; simpl; congruence.
  - destruct (fields_evolve_maps _ _ IHfs H) as (A & B & _). split; simpl.
    + rewrite (struct_agg_ext bls align _ _ A B). unfold max_align. rewrite (fold_max_ext align 8 _ _ B). reflexivity.
    + unfold max_align. apply fold_max_ext. assumption.
  - destruct (fields_evolve_maps _ _ IHfs H) as (A & B & _). split; simpl.
    + rewrite (union_agg_ext bls align _ _ A B). unfold max_align. rewrite (fold_max_ext align 8 _ _ B). reflexivity.
    + unfold max_align. apply fold_max_ext. assumption.
  - (* delimited: the set mentions only the alignment of the inner type and the extent *)
    assert (G : ext = ext' /\ align t = align t').
    { assert (C : (exists nm fs nm' gs, t = TStruct nm fs /\ t' = TStruct nm' gs) \/ ((ext =? ext') && evolves t t' = true)).
      { destruct t, t'; try (right; exact H); left; eauto 8. }
      destruct C as [(nm & fs & nm' & gs & -> & ->)|C].
      - simpl in H. apply andb_prop in H. destruct H as [H1 _]. apply Z.eqb_eq in H1. split; [exact H1|].
        cbn [align]. rewrite !max_align_fields. reflexivity.
      - apply andb_prop in C. destruct C as [H1 H2]. apply Z.eqb_eq in H1. split; [exact H1|]. exact (proj2 (IHt _ H2)). }
    destruct G as [G1 G2]. subst. split; simpl; rewrite G2; reflexivity.
Qed.

Lemma evolves_extent t t' : evolves t t' = true -> extent t = extent t'.
Proof.
  intros H. destruct (evolves_lay_eq _ _ H) as [A _].
  destruct t, t'; try discriminate; try (destruct t; discriminate); unfold extent; try (rewrite A; reflexivity).
  assert (C : (ext =? ext0) = true).
  { destruct t, t'; simpl in H; apply andb_prop in H; exact (proj1 H). }
  apply Z.eqb_eq in C. exact C.
Qed.

(* the per-field layout inputs of a structure / union container are equal too: every field offset is a function of
   the bit length sets and alignments of the preceding fields only *)
Lemma evolves_struct_fields nm nm' fs gs :
  evolves (TStruct nm fs) (TStruct nm' gs) = true ->
  map (fun f => bls (snd f)) fs = map (fun f => bls (snd f)) gs /\
  map (fun f => align (snd f)) fs = map (fun f => align (snd f)) gs.
Proof.
  simpl. intros H. destruct (fields_evolve_maps fs gs) as (A & B & _); auto.
  apply Forall_forall. intros f _ t' Ht. apply evolves_lay_eq. exact Ht.
Qed.

Lemma evolves_union_fields nm nm' fs gs :
  evolves (TUnion nm fs) (TUnion nm' gs) = true ->
  map (fun f => bls (snd f)) fs = map (fun f => bls (snd f)) gs /\
  map (fun f => align (snd f)) fs = map (fun f => align (snd f)) gs.
Proof.
  simpl. intros H. destruct (fields_evolve_maps fs gs) as (A & B & _); auto.
  apply Forall_forall. intros f _ t' Ht. apply evolves_lay_eq. exact Ht.
Qed.
