(* What [conv] does: nothing between equal types; at a hole it appends zero values (old -> new) or drops the fields
   the reader does not know (new -> old). *)
From Coq Require Import ZArith List Bool Lia.
From PV Require Import BLS.Model Layout.Types Layout.Proofs Serdes.Model Serdes.Spec Serdes.Evolve.
Import ListNotations.
Open Scope Z_scope.

Definition crefl (t : ty) : Prop := forall v, validb t v = true -> conv t t (canon t v) = canon t v.

Lemma conv_fields_refl fs : Forall (fun f => crefl (snd f)) fs ->
  forall vs, valid_fields validb fs vs = true -> conv_fields conv fs fs (canon_fields canon fs vs) = canon_fields canon fs vs.
Proof.
  induction 1 as [|[nm t] r Ht Hr IH]; intros vs Hv; cbn [conv_fields canon_fields valid_fields default_fields] in *; [reflexivity|].
  destruct nm as [nm|]; [|apply IH; assumption].
  destruct vs as [|v vs']; [discriminate|]. apply andb_prop in Hv. destruct Hv as [Hv1 Hv2]. cbn [snd] in *.
  rewrite (Ht _ Hv1), (IH _ Hv2). reflexivity.
Qed.

Theorem conv_refl : forall t, crefl t.
Proof.
  induction t as [p|wd|e n IHe|e n IHe|nm fs IHfs|nm fs IHfs|i ext IHi] using ty_ind'; unfold crefl; intros v Hv; cbn [validb] in Hv; cbn [conv canon]; try reflexivity.
  - destruct v; try reflexivity. apply andb_prop in Hv. destruct Hv as [_ Hv]. f_equal.
    induction vs as [|x r IH]; [reflexivity|]. cbn [forallb map] in *. apply andb_prop in Hv. destruct Hv as [H1 H2].
    rewrite (IHe x H1), (IH H2). reflexivity.
  - destruct v; try reflexivity. apply andb_prop in Hv. destruct Hv as [Hv _]. apply andb_prop in Hv. destruct Hv as [_ Hv]. f_equal.
    induction vs as [|x r IH]; [reflexivity|]. cbn [forallb map] in *. apply andb_prop in Hv. destruct Hv as [H1 H2].
    rewrite (IHe x H1), (IH H2). reflexivity.
  - destruct v; try reflexivity. f_equal. apply conv_fields_refl; assumption.
  - destruct v; try reflexivity. apply andb_prop in Hv. destruct Hv as [_ Hv]. f_equal.
    generalize dependent (Z.to_nat k). clear k.
    induction IHfs as [|f r Hf Hr IH]; intros k Hv; cbn [conv_variant canon_variant valid_variant] in *; [reflexivity|].
    destruct k as [|k]; [apply Hf; assumption|apply IH; assumption].
  - apply andb_prop in Hv. destruct Hv as [Hv _]. apply IHi. assumption.
Qed.

(* old -> new: the reader's additional trailing fields get the zero value *)
Lemma conv_fields_extend fs gs : forall vs, valid_fields validb fs vs = true ->
  conv_fields conv fs (fs ++ gs) (canon_fields canon fs vs) = canon_fields canon fs vs ++ default_fields default_value gs.
Proof.
  induction fs as [|[nm t] r IH]; intros vs Hv; cbn [conv_fields canon_fields valid_fields app] in *; [reflexivity|].
  destruct nm as [nm|]; [|apply IH; assumption].
  destruct vs as [|v vs']; [discriminate|]. apply andb_prop in Hv. destruct Hv as [Hv1 Hv2]. cbn [snd app].
  rewrite (conv_refl t _ Hv1), (IH _ Hv2). reflexivity.
Qed.

(* new -> old: the fields the reader does not know are dropped *)
Lemma conv_fields_restrict fs gs : forall vs, valid_fields validb (fs ++ gs) vs = true ->
  conv_fields conv (fs ++ gs) fs (canon_fields canon (fs ++ gs) vs) = canon_fields canon fs vs.
Proof.
  induction fs as [|[nm t] r IH]; intros vs Hv; cbn [conv_fields canon_fields valid_fields app] in *.
  - destruct gs as [|[nm t] gr]; cbn [conv_fields default_fields canon_fields]; [reflexivity|]. destruct nm; [destruct vs|]; reflexivity.
  - destruct nm as [nm|]; [|apply IH; assumption].
    destruct vs as [|v vs']; [discriminate|]. apply andb_prop in Hv. destruct Hv as [Hv1 Hv2]. cbn [snd].
    rewrite (conv_refl t _ Hv1), (IH _ Hv2). reflexivity.
Qed.

Theorem conv_old_to_new nm nm' fs gs x vs : valid_fields validb fs vs = true ->
  conv (TDelim (TStruct nm fs) x) (TDelim (TStruct nm' (fs ++ gs)) x) (canon (TDelim (TStruct nm fs) x) (VStruct vs)) =
  VStruct (canon_fields canon fs vs ++ default_fields default_value gs).
Proof. intros Hv. cbn [conv canon]. rewrite (conv_fields_extend fs gs vs Hv). reflexivity. Qed.

Theorem conv_new_to_old nm nm' fs gs x vs : valid_fields validb (fs ++ gs) vs = true ->
  conv (TDelim (TStruct nm (fs ++ gs)) x) (TDelim (TStruct nm' fs) x) (canon (TDelim (TStruct nm (fs ++ gs)) x) (VStruct vs)) =
  VStruct (canon_fields canon fs vs).
Proof. intros Hv. cbn [conv canon]. rewrite (conv_fields_restrict fs gs vs Hv). reflexivity. Qed.

(* [evolves] is reflexive, and a delimited structure evolves into any extension / prefix of itself with the same extent *)
Lemma prim_eqb_refl p : prim_eqb p p = true.
Proof. destruct p; cbn [prim_eqb]; try reflexivity; try (destruct c); cbn [cast_eqb]; rewrite ?Z.eqb_refl; reflexivity. Qed.

Lemma same_kind_refl a : same_kind a a = true.
Proof. destruct a; reflexivity. Qed.

Theorem evolves_refl : forall t, evolves t t = true.
Proof.
  induction t as [p|wd|e n IHe|e n IHe|nm fs IHfs|nm fs IHfs|i ext IHi] using ty_ind'; cbn [evolves].
  - apply prim_eqb_refl.
  - apply Z.eqb_refl.
  - rewrite Z.eqb_refl, IHe. reflexivity.
  - rewrite Z.eqb_refl, IHe. reflexivity.
  - induction IHfs as [|f r Hf Hr IH]; cbn [fields_evolve]; [reflexivity|]. rewrite same_kind_refl, Hf, IH. reflexivity.
  - induction IHfs as [|f r Hf Hr IH]; cbn [fields_evolve]; [reflexivity|]. rewrite same_kind_refl, Hf, IH. reflexivity.
  - destruct i; rewrite ?Z.eqb_refl, ?IHi; try reflexivity.
    cbn [evolves] in IHi. cbn [andb]. clear - IHi. induction fs as [|f r IH]; cbn [fields_prefix_evolve fields_evolve] in *; [reflexivity|].
    apply andb_prop in IHi. destruct IHi as [A B]. rewrite A, (IH B). reflexivity.
Qed.

Lemma prefix_evolve_app fs gs : fields_prefix_evolve evolves fs (fs ++ gs) = true /\ fields_prefix_evolve evolves (fs ++ gs) fs = true.
Proof.
  induction fs as [|f r [IH1 IH2]]; cbn [fields_prefix_evolve app].
  - split; [reflexivity|destruct gs; reflexivity].
  - rewrite same_kind_refl, evolves_refl, IH1, IH2. auto.
Qed.

Theorem hole_evolves nm nm' fs gs x :
  evolves (TDelim (TStruct nm fs) x) (TDelim (TStruct nm' (fs ++ gs)) x) = true /\
  evolves (TDelim (TStruct nm (fs ++ gs)) x) (TDelim (TStruct nm' fs) x) = true.
Proof. cbn [evolves]. rewrite Z.eqb_refl. destruct (prefix_evolve_app fs gs) as [A B]. rewrite A, B. auto. Qed.
