(* Converse of zero extension: if the longer input decodes, the shorter one decodes alike or fails with a delimiter
   header that exceeds the available data - nothing else. *)
From Coq Require Import ZArith List Bool Lia ZifyBool.
From PV Require Import BLS.Model Layout.Types Layout.Spec Layout.Proofs Layout.ProofsSpec.
From PV Require Import Serdes.Model Serdes.Bits Serdes.BitsProofs Serdes.WriterProofs Serdes.ReaderProofs Serdes.Spec Serdes.SerProofs
  Serdes.EncProofs Serdes.DeserProofs Serdes.DeserSim Serdes.ZeroExt.
Import ListNotations.
Open Scope Z_scope.

Ltac Zify.zify_post_hook ::= Z.to_euclidean_division_equations.

Lemma RS_sub_sym r1 r2 n : RS r1 r2 -> 0 <= n <= remaining_bits r1 ->
  RS (fst (bounded_subreader r2 n)) (fst (bounded_subreader r1 n)).
Proof.
  intros (A & B & C & D & E) Hn. unfold bounded_subreader. cbn [fst]. rewrite remaining_rend in Hn.
  repeat split; cbn [rdata roff]; try apply A; try apply B; try (destruct A, B; lia).
  - intros j Hj. unfold rbit, within. cbn [rlimit rstart rdata]. rewrite <- C. cbn [roff] in Hj.
    destruct (j <? roff r1 + n) eqn:W; [|reflexivity]. cbn [andb].
    rewrite <- (rbit_within_getbit r1 j) by lia. rewrite <- (rbit_within_getbit r2 j) by lia. symmetry. apply D. lia.
  - unfold rend. cbn [rlimit rstart]. lia.
Qed.

Definition conv_ok (t : ty) : Prop := forall r1 r2 v r2', RS r1 r2 -> deser t r2 = Ok (v, r2') ->
  (exists r1', deser t r1 = Ok (v, r1') /\ RS r1' r2') \/ deser t r1 = Err EDelimHeader.

Lemma conv_elems e : conv_ok e -> forall n r1 r2 vs r2', RS r1 r2 -> deser_elems (deser e) n r2 = Ok (vs, r2') ->
  (exists r1', deser_elems (deser e) n r1 = Ok (vs, r1') /\ RS r1' r2') \/ deser_elems (deser e) n r1 = Err EDelimHeader.
Proof.
  intros He. induction n as [|n IH]; intros r1 r2 vs r2' H E; cbn [deser_elems] in *.
  - inversion E; subst. left. eauto.
  - destruct (deser e r2) as [[v rb]|] eqn:E1; [|discriminate].
    destruct (deser_elems (deser e) n rb) as [[vs' rb']|] eqn:E2; [|discriminate]. inversion E; subst.
    destruct (He _ _ _ _ H E1) as [(ra & F1 & H1)|F1]; rewrite F1; [|right; reflexivity].
    destruct (IH _ _ _ _ H1 E2) as [(ra' & F2 & H2)|F2]; rewrite F2; [left; eauto|right; reflexivity].
Qed.

Lemma conv_fields fs : Forall (fun f => conv_ok (snd f)) fs -> all_fields_ok wft fs = true ->
  forall r1 r2 vs r2', RS r1 r2 -> deser_fields deser fs r2 = Ok (vs, r2') ->
  (exists r1', deser_fields deser fs r1 = Ok (vs, r1') /\ RS r1' r2') \/ deser_fields deser fs r1 = Err EDelimHeader.
Proof.
  induction 1 as [|[nm t] fr Ht Hfr IH]; intros Hwf r1 r2 vs r2' H E; cbn [deser_fields] in *.
  - inversion E; subst. left. eauto.
  - unfold all_fields_ok in Hwf. cbn [forallb snd] in Hwf. apply andb_prop in Hwf. destruct Hwf as [Hwt Hwr]. cbn [snd] in Ht.
    pose proof (RS_align r1 r2 (align t) H (align_pos t)) as Ha. destruct nm as [nm|].
    + destruct (deser t (r_align_to r2 (align t))) as [[v rb]|] eqn:E1; [|discriminate].
      destruct (deser_fields deser fr rb) as [[vs' rb']|] eqn:E2; [|discriminate]. inversion E; subst.
      destruct (Ht _ _ _ _ Ha E1) as [(ra & F1 & H1)|F1]; rewrite F1; [|right; reflexivity].
      destruct (IH Hwr _ _ _ _ H1 E2) as [(ra' & F2 & H2)|F2]; rewrite F2; [left; eauto|right; reflexivity].
    + assert (Hvw : 0 <= void_width t). { destruct t; cbn [void_width]; try lia. simpl in Hwt. lia. }
      destruct (RS_read _ _ (void_width t) Ha Hvw) as (_ & S1 & S2). rewrite S2 in E. rewrite S1.
      apply (IH Hwr _ _ _ _ (RS_adv _ _ _ Ha Hvw) E).
Qed.

Lemma conv_variant fs : Forall (fun f => conv_ok (snd f)) fs ->
  forall k r1 r2 v r2', RS r1 r2 -> deser_variant deser fs k r2 = Ok (v, r2') ->
  (exists r1', deser_variant deser fs k r1 = Ok (v, r1') /\ RS r1' r2') \/ deser_variant deser fs k r1 = Err EDelimHeader.
Proof.
  induction 1 as [|f fr Hf Hfr IH]; intros k r1 r2 v r2' H E; cbn [deser_variant] in *; [discriminate|].
  destruct k as [|k]; [apply (Hf _ _ _ _ H E)|apply (IH _ _ _ _ _ H E)].
Qed.

Theorem deser_sim_conv : forall t, wft t = true -> conv_ok t.
Proof.
  induction t as [p|wd|e n IHe|e n IHe|nm fs IHfs|nm fs IHfs|i ext IHi] using ty_ind'; intros Hwf; unfold conv_ok; intros r1 r2 v r2' H E;
    pose proof Hwf as Hwf0; cbn [wft] in Hwf; cbn [deser] in *.
  - (* primitives never fail: use the forward simulation on r1's own result *)
    left. destruct (deser_prim p r1) as [v1 r1'] eqn:E1.
    assert (F : deser (TPrim p) r1 = Ok (v1, r1')) by (cbn [deser]; rewrite E1; reflexivity).
    destruct (deser_sim (TPrim p) Hwf0 _ _ _ _ H F) as (rb & G & Hs). cbn [deser] in G. rewrite G in E. inversion E; subst. eauto.
  - left. destruct (RS_read _ _ wd H ltac:(lia)) as (_ & S1 & S2). rewrite S2 in E. rewrite S1. inversion E; subst.
    eexists; split; [reflexivity|]. apply RS_adv; [assumption|lia].
  - apply andb_prop in Hwf. destruct Hwf as [Hwe Hn].
    destruct (deser_elems (deser e) (Z.to_nat n) r2) as [[vs rb]|] eqn:E1; [|discriminate].
    destruct (finish_array e vs) eqn:Ef; [|discriminate]. inversion E; subst.
    destruct (conv_elems e (IHe Hwe) _ _ _ _ _ H E1) as [(ra & F1 & H1)|F1]; rewrite F1; [|right; reflexivity].
    rewrite Ef. left. eauto.
  - pose proof (prefix_width_mod8 e n Hwf0) as [_ P2].
    apply andb_prop in Hwf. destruct Hwf as [Hwf Hb]. apply andb_prop in Hwf. destruct Hwf as [Hwe Hn].
    destruct (RS_read_pair r1 r2 (prefix_width (align e) n) H ltac:(lia)) as (x & A & B). rewrite B in E. rewrite A.
    destruct (n <? x); [discriminate|].
    destruct (deser_elems (deser e) (Z.to_nat x) (r_adv r2 (prefix_width (align e) n))) as [[vs rb]|] eqn:E1; [|discriminate].
    destruct (finish_array e vs) eqn:Ef; [|discriminate]. inversion E; subst.
    destruct (conv_elems e (IHe Hwe) _ _ _ _ _ (RS_adv r1 r2 (prefix_width (align e) n) H ltac:(lia)) E1) as [(ra & F1 & H1)|F1]; rewrite F1; [|right; reflexivity].
    rewrite Ef. left. eauto.
  - assert (IH' : Forall (fun f => conv_ok (snd f)) fs).
    { apply Forall_forall. intros f Hf. apply (proj1 (Forall_forall _ _) IHfs f Hf).
      unfold all_fields_ok in Hwf. rewrite forallb_forall in Hwf. apply Hwf. assumption. }
    destruct (deser_fields deser fs r2) as [[vs rb]|] eqn:E1; [|discriminate]. inversion E; subst.
    destruct (conv_fields fs IH' Hwf _ _ _ _ H E1) as [(ra & F1 & H1)|F1]; rewrite F1; [|right; reflexivity].
    left. eexists; split; [reflexivity|]. apply RS_align; [assumption|]. rewrite max_align_fields. lia.
  - pose proof (tag_width_mod8 nm fs Hwf0) as [_ T2].
    apply andb_prop in Hwf. destruct Hwf as [Hwf _]. apply andb_prop in Hwf. destruct Hwf as [Hwf _].
    assert (IH' : Forall (fun f => conv_ok (snd f)) fs).
    { apply Forall_forall. intros f Hf. apply (proj1 (Forall_forall _ _) IHfs f Hf).
      unfold all_fields_ok in Hwf. rewrite forallb_forall in Hwf. apply Hwf. assumption. }
    destruct (RS_read_pair r1 r2 (union_tag_width fs) H ltac:(lia)) as (x & A & B). rewrite B in E. rewrite A.
    destruct (zlen fs <=? x); [discriminate|].
    destruct (deser_variant deser fs (Z.to_nat x) (r_adv r2 (union_tag_width fs))) as [[vv rb]|] eqn:E1; [|discriminate]. inversion E; subst.
    destruct (conv_variant fs IH' _ _ _ _ _ (RS_adv r1 r2 (union_tag_width fs) H ltac:(lia)) E1) as [(ra & F1 & H1)|F1]; rewrite F1; [|right; reflexivity].
    left. eexists; split; [reflexivity|]. apply RS_align; [assumption|]. rewrite max_align_fields. lia.
  - apply andb_prop in Hwf. destruct Hwf as [Hwf _]. apply andb_prop in Hwf. destruct Hwf as [Hwf _].
    apply andb_prop in Hwf. destruct Hwf as [Hwi Hc]. rewrite (header_width_delim i Hc) in *.
    destruct (RS_read_pair r1 r2 32 H ltac:(lia)) as (x & A & B). rewrite B in E. rewrite A.
    pose proof (RS_adv _ _ 32 H ltac:(lia)) as H0.
    destruct (remaining_bits (r_adv r2 32) <? x * 8) eqn:C2; [discriminate|].
    destruct (remaining_bits (r_adv r1 32) <? x * 8) eqn:C1; [right; reflexivity|]. left.
    assert (Hx : 0 <= x).
    { destruct H as (A1 & _). destruct (read_bits_spec r1 32 (proj1 A1) ltac:(lia) (proj2 A1)) as (_ & R & _). rewrite A in R. cbn [fst] in R. lia. }
    pose proof (RS_sub_sym _ _ (x * 8) H0 ltac:(lia)) as Hs.
    unfold bounded_subreader in *. cbn [fst snd] in *.
    destruct (deser i {| rdata := rdata (r_adv r2 32); rstart := roff (r_adv r2 32); roff := roff (r_adv r2 32); rlimit := Some (x * 8) |}) as [[vi rb]|] eqn:E1; [|discriminate].
    inversion E; subst.
    destruct (deser_sim i Hwi _ _ _ _ Hs E1) as (ra & F1 & _). rewrite F1.
    eexists; split; [reflexivity|]. apply RS_adv; [assumption|lia].
Qed.

Theorem zero_ext_conv t b n hdr v : wft t = true -> bytes_ok b ->
  deserialize t (b ++ zeros n) hdr = Ok v -> deserialize t b hdr = Ok v \/ deserialize t b hdr = Err EDelimHeader.
Proof.
  intros Hwf Hb. pose proof (RS_zero_ext b n Hb) as H.
  assert (G : forall t', wft t' = true -> forall v', (match deser t' (r_new (b ++ zeros n)) with Ok (x, _) => Ok x | Err e => Err e end) = Ok v' ->
              (match deser t' (r_new b) with Ok (x, _) => Ok x | Err e => Err e end) = Ok v' \/
              (match deser t' (r_new b) with Ok (x, _) => Ok x | Err e => Err e end) = Err EDelimHeader).
  { intros t' Hw' v' E. destruct (deser t' (r_new (b ++ zeros n))) as [[x r2']|] eqn:E2; [|discriminate]. inversion E; subst.
    destruct (deser_sim_conv t' Hw' _ _ _ _ H E2) as [(r1' & F & _)|F]; rewrite F; auto. }
  destruct t; cbn [deserialize]; try (destruct hdr; [discriminate|apply G; assumption]).
  cbn [wft] in Hwf. pose proof Hwf as Hwf0. apply andb_prop in Hwf. destruct Hwf as [Hwf _]. apply andb_prop in Hwf. destruct Hwf as [Hwf _].
  apply andb_prop in Hwf. destruct Hwf as [Hwi _].
  destruct hdr; apply G; assumption.
Qed.
