(* Executable model of pydsdl/_serdes.py (serialize / deserialize and the bit writer / reader underneath).
   Definitions only.  Shared by C06, C07, C14.

   Values.  Python objects are represented positionally (names play no role on the wire):
     bool -> VBool, int -> VInt, float -> VFlt (its IEEE binary64 bit pattern, see Float.v),
     list / bytes / str -> VList (bytes and str as the list of their (UTF-8) bytes),
     dict of a structure -> VStruct with one entry per NON-padding field in field order, VOmit when the key is absent,
     one-key dict of a union -> VUnion k v with k the index of the variant the key names (k out of range = unknown key).
   The harness converts between Python objects and this form using the field names of the type.
   Python-side input coercions that are not modelled (yield EShape, never generated): float for an integer field,
   int for a float field, list for a utf8 array, non-dict for a composite, unknown keys of a structure. *)
From Coq Require Import ZArith List Bool.
From PV Require Import BLS.Model Layout.Types Serdes.Float Serdes.Utf8.
Import ListNotations.
Open Scope Z_scope.

Inductive val :=
| VBool (b : bool)
| VInt (z : Z)
| VFlt (bits : Z)
| VList (vs : list val)
| VStruct (vs : list val)
| VUnion (k : Z) (v : val)
| VOmit.

(* ArrayLengthError, UnionFieldError, UnionTagError, DelimiterHeaderError are SerDesError; EUtf8 (UnicodeDecodeError) and
   EValue are ValueError; EType is TypeError; EShape marks an input outside the modelled domain. *)
Inductive err := EArrayLength | EUnionField | EUnionTag | EDelimHeader | EUtf8 | EValue | EType | EShape.
Inductive res (A : Type) := Ok (a : A) | Err (e : err).
Arguments Ok {A} a.
Arguments Err {A} e.

Definition bind {A B} (x : res A) (f : A -> res B) : res B := match x with Ok a => f a | Err e => Err e end.

(* ------------------------------------------------------------------------------------------------------------ *)
(* bytes <-> integers *)

Definition zlen {A} (l : list A) : Z := Z.of_nat (length l).
Definition zeros (n : Z) : list Z := repeat 0 (Z.to_nat n).

(* int.to_bytes(n, "little") for 0 <= v < 256^n *)
Fixpoint to_bytes_le (n : nat) (v : Z) : list Z :=
  match n with O => [] | S k => (v mod 256) :: to_bytes_le k (v / 256) end.
(* int.from_bytes(bs, "little") *)
Fixpoint from_bytes_le (bs : list Z) : Z :=
  match bs with [] => 0 | b :: r => b + 256 * from_bytes_le r end.

Fixpoint update_nth (n : nat) (f : Z -> Z) (l : list Z) : list Z :=
  match l with
  | [] => []
  | x :: r => match n with O => f x :: r | S k => x :: update_nth k f r end
  end.

(* ------------------------------------------------------------------------------------------------------------ *)
(* _BitWriter *)

Record writer := mkW { wbuf : list Z; woff : Z }.
Definition w_new : writer := mkW [] 0.

(* one iteration of the bit-wise loop: the bit at absolute position [pos] becomes [bit] *)
Definition put_bit (buf : list Z) (pos : Z) (bit : bool) : list Z :=
  let byte_index := pos / 8 in
  let bit_index := pos mod 8 in
  let buf1 := if zlen buf <=? byte_index then buf ++ [0] else buf in
  update_nth (Z.to_nat byte_index)
             (fun x => if bit then Z.lor x (Z.shiftl 1 bit_index) else Z.land x (Z.lnot (Z.shiftl 1 bit_index)))
             buf1.

(* for i in range(bit_length): ... ; the counter runs upwards from i *)
Fixpoint slow_loop (n : nat) (i : Z) (value off : Z) (buf : list Z) : list Z :=
  match n with
  | O => buf
  | S k => slow_loop k (i + 1) value off (put_bit buf (off + i) (Z.testbit value i))
  end.

Definition write_slow (w : writer) (value n : Z) : writer :=
  mkW (slow_loop (Z.to_nat n) 0 value (woff w) (wbuf w)) (woff w + n).

Definition write_bits (w : writer) (value n : Z) : writer :=
  if (woff w mod 8 =? 0) && (8 <=? n) then
    let full_bytes := n / 8 in
    let remaining := n mod 8 in
    let mask := Z.shiftl 1 (full_bytes * 8) - 1 in
    let byte_data := to_bytes_le (Z.to_nat full_bytes) (Z.land value mask) in
    let start_byte := woff w / 8 in
    let end_byte := start_byte + full_bytes in
    let buf := wbuf w in
    let buf' :=
      if zlen buf <=? start_byte then buf ++ zeros (start_byte - zlen buf) ++ byte_data
      else if end_byte <=? zlen buf then firstn (Z.to_nat start_byte) buf ++ byte_data ++ skipn (Z.to_nat end_byte) buf
      else let overlap := zlen buf - start_byte in
           firstn (Z.to_nat start_byte) buf ++ firstn (Z.to_nat overlap) byte_data ++ skipn (Z.to_nat overlap) byte_data in
    let w1 := mkW buf' (woff w + full_bytes * 8) in
    (* the recursive call has remaining < 8 and therefore takes the bit-wise path *)
    if 0 <? remaining then write_slow w1 (Z.shiftr value (full_bytes * 8)) remaining else w1
  else write_slow w value n.

Definition w_align_to (w : writer) (a : Z) : writer :=
  if a <=? 0 then w
  else let r := woff w mod a in
       if r =? 0 then w else write_bits w 0 (a - r).

Definition w_finish (w : writer) : list Z := wbuf w.

(* for byte_val in bytes: writer.write_bits(byte_val, 8) *)
Definition write_bytes (w : writer) (bs : list Z) : writer := fold_left (fun w b => write_bits w b 8) bs w.

(* ------------------------------------------------------------------------------------------------------------ *)
(* _BitReader *)

Record reader := mkR { rdata : list Z; rstart : Z; roff : Z; rlimit : option Z }.
Definition r_new (data : list Z) : reader := mkR data 0 0 None.
Definition r_adv (r : reader) (n : Z) : reader := mkR (rdata r) (rstart r) (roff r + n) (rlimit r).

(* data[i] if i < len(data) else 0 *)
Definition byte_at (data : list Z) (i : Z) : Z := nth (Z.to_nat i) data 0.

Fixpoint read_loop (n : nat) (i : Z) (data : list Z) (off : Z) (acc : Z) : Z :=
  match n with
  | O => acc
  | S k =>
      let byte_index := (off + i) / 8 in
      let bit_index := (off + i) mod 8 in
      let bit := Z.land (Z.shiftr (byte_at data byte_index) bit_index) 1 in
      read_loop k (i + 1) data off (Z.lor acc (Z.shiftl bit i))
  end.

Definition read_slow (r : reader) (n : Z) : Z * reader :=
  (read_loop (Z.to_nat n) 0 (rdata r) (roff r) 0, r_adv r n).

(* the part of read_bits after the limit logic *)
Definition read_raw (r : reader) (n : Z) : Z * reader :=
  if (roff r mod 8 =? 0) && (8 <=? n) then
    let full_bytes := n / 8 in
    let remaining := n mod 8 in
    let start_byte := roff r / 8 in
    let chunk := firstn (Z.to_nat full_bytes) (skipn (Z.to_nat start_byte) (rdata r)) in
    let chunk := chunk ++ zeros (full_bytes - zlen chunk) in
    let result := from_bytes_le chunk in
    let r1 := r_adv r (full_bytes * 8) in
    if 0 <? remaining then
      (* the recursive call re-computes the limit (still sufficient) and then takes the bit-wise path *)
      let (hi, r2) := read_slow r1 remaining in (Z.lor result (Z.shiftl hi (full_bytes * 8)), r2)
    else (result, r1)
  else read_slow r n.

Definition read_bits (r : reader) (n : Z) : Z * reader :=
  match rlimit r with
  | Some lim =>
      let consumed := roff r - rstart r in
      let available := Z.max 0 (lim - consumed) in
      if available =? 0 then (0, r_adv r n)
      else if available <? n then
        (* self.read_bits(available) passes the limit test and reads; then the offset is moved past the rest *)
        let (v, r1) := read_raw r available in (v, r_adv r1 (n - available))
      else read_raw r n
  | None => read_raw r n
  end.

Definition r_align_to (r : reader) (a : Z) : reader :=
  if a <=? 0 then r
  else let m := roff r mod a in
       if m =? 0 then r else r_adv r (a - m).

(* returns (sub-reader, advanced parent) *)
Definition bounded_subreader (r : reader) (n : Z) : reader * reader :=
  (mkR (rdata r) (roff r) (roff r) (Some n), r_adv r n).

Definition remaining_bits (r : reader) : Z :=
  match rlimit r with
  | Some lim => Z.max 0 (lim - (roff r - rstart r))
  | None => Z.max 0 (zlen (rdata r) * 8 - roff r)
  end.

(* ------------------------------------------------------------------------------------------------------------ *)
(* primitives *)

Definition as_int (v : val) : option Z :=
  match v with VInt z => Some z | VBool b => Some (if b then 1 else 0) | _ => None end.

Definition clamp (lo hi z : Z) : Z := Z.max lo (Z.min hi z).

Definition ser_prim (p : prim) (v : val) (w : writer) : res writer :=
  match p with
  | PBool =>
      match v with
      | VBool b => Ok (write_bits w (if b then 1 else 0) 1)
      | VInt z => Ok (write_bits w (if z =? 0 then 0 else 1) 1)
      | _ => Err EShape
      end
  | PFloat wd c =>
      match v with
      | VFlt b64 => Ok (write_bytes w (to_bytes_le (Z.to_nat (wd / 8)) (fcast c wd b64)))
      | _ => Err EShape
      end
  | PSInt wd =>
      match as_int v with
      | Some z =>
          let z1 := clamp (- 2 ^ (wd - 1)) (2 ^ (wd - 1) - 1) z in
          Ok (write_bits w (Z.land z1 (Z.shiftl 1 wd - 1)) wd)
      | None => Err EShape
      end
  | PUInt wd c =>
      match as_int v with
      | Some z =>
          let z1 := match c with Sat => clamp 0 (2 ^ wd - 1) z | Trunc => Z.land z (Z.shiftl 1 wd - 1) end in
          Ok (write_bits w z1 wd)
      | None => Err EShape
      end
  | PByte | PUtf8 =>
      match as_int v with
      | Some z => Ok (write_bits w (Z.land z 255) 8)
      | None => Err EShape
      end
  end.

Fixpoint read_bytes (n : nat) (r : reader) : list Z * reader :=
  match n with
  | O => ([], r)
  | S k => let (b, r1) := read_bits r 8 in let (bs, r2) := read_bytes k r1 in (b :: bs, r2)
  end.

Definition deser_prim (p : prim) (r : reader) : val * reader :=
  match p with
  | PBool => let (b, r1) := read_bits r 1 in (VBool (negb (b =? 0)), r1)
  | PFloat wd _ => let (bs, r1) := read_bytes (Z.to_nat (wd / 8)) r in (VFlt (fwiden wd (from_bytes_le bs)), r1)
  | PSInt wd =>
      let (raw, r1) := read_bits r wd in
      (VInt (if Z.shiftl 1 (wd - 1) <=? raw then raw - Z.shiftl 1 wd else raw), r1)
  | PUInt wd _ => let (raw, r1) := read_bits r wd in (VInt raw, r1)
  | PByte | PUtf8 => let (raw, r1) := read_bits r 8 in (VInt raw, r1)
  end.

(* ------------------------------------------------------------------------------------------------------------ *)
(* _default_value *)

Section Defaults.
Variable D : ty -> val.
Fixpoint default_fields (fs : list (option str * ty)) : list val :=
  match fs with
  | [] => []
  | (None, _) :: r => default_fields r
  | (Some _, t) :: r => D t :: default_fields r
  end.
End Defaults.

Fixpoint default_value (t : ty) : val :=
  match t with
  | TPrim PBool => VBool false
  | TPrim (PFloat _ _) => VFlt 0
  | TPrim _ => VInt 0
  | TVoid _ => VOmit
  | TFix e n => VList (repeat (default_value e) (Z.to_nat n))
  | TVar _ _ => VList []
  | TStruct _ fs => VStruct (default_fields default_value fs)
  | TUnion _ fs => match fs with [] => VOmit | f :: _ => VUnion 0 (default_value (snd f)) end
  | TDelim i _ => default_value i
  end.

(* ------------------------------------------------------------------------------------------------------------ *)
(* serialization *)

Definition is_utf8 (t : ty) : bool := match t with TPrim PUtf8 => true | _ => false end.

(* the bytes of a bytes / str value (elements outside 0..255 cannot come from bytes or str) *)
Fixpoint byte_values (vs : list val) : option (list Z) :=
  match vs with
  | [] => Some []
  | VInt z :: r => if (0 <=? z) && (z <=? 255) then option_map (cons z) (byte_values r) else None
  | _ => None
  end.

Definition void_width (t : ty) : Z := match t with TVoid w => w | _ => 0 end.

Section SerHelpers.
Variable SF : ty -> val -> writer -> res writer.

Section Elems.
Variable Se : val -> writer -> res writer.
Fixpoint ser_elems (vs : list val) (w : writer) : res writer :=
  match vs with
  | [] => Ok w
  | v :: r => match Se v w with Ok w1 => ser_elems r w1 | Err e => Err e end
  end.
End Elems.

(* for field in schema.fields: align; padding -> zeros; else value or default *)
Fixpoint ser_fields (fs : list (option str * ty)) (vs : list val) (w : writer) : res writer :=
  match fs with
  | [] => match vs with [] => Ok w | _ => Err EShape end
  | (None, t) :: r => ser_fields r vs (write_bits (w_align_to w (align t)) 0 (void_width t))
  | (Some _, t) :: r =>
      match vs with
      | [] => Err EShape
      | v :: vs' =>
          let v' := match v with VOmit => default_value t | _ => v end in
          match SF t v' (w_align_to w (align t)) with
          | Ok w1 => ser_fields r vs' w1
          | Err e => Err e
          end
      end
  end.

Fixpoint ser_variant (fs : list (option str * ty)) (k : nat) (v : val) (w : writer) : res writer :=
  match fs with
  | [] => Err EUnionField
  | f :: r => match k with O => SF (snd f) v w | S k' => ser_variant r k' v w end
  end.
End SerHelpers.

Fixpoint ser (t : ty) (v : val) (w : writer) {struct t} : res writer :=
  match t with
  | TPrim p => ser_prim p v w
  | TVoid wd => Ok (write_bits w 0 wd)
  | TFix e n =>
      match v with
      | VList vs => if zlen vs =? n then ser_elems (ser e) vs w else Err EArrayLength
      | _ => Err EShape
      end
  | TVar e n =>
      match v with
      | VList vs =>
          if is_utf8 e && negb (match byte_values vs with Some bs => utf8_valid bs | None => false end) then Err EValue
          else if zlen vs <=? n then ser_elems (ser e) vs (write_bits w (zlen vs) (prefix_width (align e) n))
          else Err EArrayLength
      | _ => Err EShape
      end
  | TStruct _ fs =>
      match v with
      | VStruct vs =>
          match ser_fields ser fs vs w with
          | Ok w1 => Ok (w_align_to w1 (max_align align fs))
          | Err e => Err e
          end
      | _ => Err EShape
      end
  | TUnion _ fs =>
      match v with
      | VUnion k x =>
          if (0 <=? k) && (k <? zlen fs) then
            match ser_variant ser fs (Z.to_nat k) x (write_bits w k (union_tag_width fs)) with
            | Ok w1 => Ok (w_align_to w1 (max_align align fs))
            | Err e => Err e
            end
          else Err EUnionField
      | _ => Err EShape
      end
  | TDelim i _ =>
      match ser i v w_new with
      | Ok wi =>
          let inner_bytes := w_finish wi in
          Ok (write_bytes (write_bits w (zlen inner_bytes) (header_width (align i))) inner_bytes)
      | Err e => Err e
      end
  end.

(* pydsdl.serialize(schema, obj, with_delimiter_header=hdr) *)
Definition serialize (t : ty) (v : val) (hdr : bool) : res (list Z) :=
  match t with
  | TDelim i _ =>
      if hdr then match ser t v w_new with Ok w => Ok (w_finish w) | Err e => Err e end
      else match ser i v w_new with Ok w => Ok (w_finish w) | Err e => Err e end
  | _ =>
      if hdr then Err EValue
      else match ser t v w_new with Ok w => Ok (w_finish w) | Err e => Err e end
  end.

(* ------------------------------------------------------------------------------------------------------------ *)
(* deserialization *)

Section DeserHelpers.
Variable DF : ty -> reader -> res (val * reader).

Section Elems.
Variable De : reader -> res (val * reader).
Fixpoint deser_elems (n : nat) (r : reader) : res (list val * reader) :=
  match n with
  | O => Ok ([], r)
  | S k =>
      match De r with
      | Ok (v, r1) => match deser_elems k r1 with Ok (vs, r2) => Ok (v :: vs, r2) | Err e => Err e end
      | Err e => Err e
      end
  end.
End Elems.

Fixpoint deser_fields (fs : list (option str * ty)) (r : reader) : res (list val * reader) :=
  match fs with
  | [] => Ok ([], r)
  | (None, t) :: rest => deser_fields rest (snd (read_bits (r_align_to r (align t)) (void_width t)))
  | (Some _, t) :: rest =>
      match DF t (r_align_to r (align t)) with
      | Ok (v, r1) => match deser_fields rest r1 with Ok (vs, r2) => Ok (v :: vs, r2) | Err e => Err e end
      | Err e => Err e
      end
  end.

Fixpoint deser_variant (fs : list (option str * ty)) (k : nat) (r : reader) : res (val * reader) :=
  match fs with
  | [] => Err EUnionTag
  | f :: rest => match k with O => DF (snd f) r | S k' => deser_variant rest k' r end
  end.
End DeserHelpers.

Definition finish_array (e : ty) (vs : list val) : res val :=
  if is_utf8 e then
    match byte_values vs with
    | Some bs => if utf8_valid bs then Ok (VList vs) else Err EUtf8
    | None => Err EShape
    end
  else Ok (VList vs).

Fixpoint deser (t : ty) (r : reader) {struct t} : res (val * reader) :=
  match t with
  | TPrim p => Ok (deser_prim p r)
  | TVoid wd => Ok (VOmit, snd (read_bits r wd))
  | TFix e n =>
      match deser_elems (deser e) (Z.to_nat n) r with
      | Ok (vs, r1) => match finish_array e vs with Ok v => Ok (v, r1) | Err x => Err x end
      | Err x => Err x
      end
  | TVar e n =>
      let (len, r0) := read_bits r (prefix_width (align e) n) in
      if n <? len then Err EArrayLength
      else match deser_elems (deser e) (Z.to_nat len) r0 with
           | Ok (vs, r1) => match finish_array e vs with Ok v => Ok (v, r1) | Err x => Err x end
           | Err x => Err x
           end
  | TStruct _ fs =>
      match deser_fields deser fs r with
      | Ok (vs, r1) => Ok (VStruct vs, r_align_to r1 (max_align align fs))
      | Err x => Err x
      end
  | TUnion _ fs =>
      let (tag, r0) := read_bits r (union_tag_width fs) in
      if zlen fs <=? tag then Err EUnionTag
      else match deser_variant deser fs (Z.to_nat tag) r0 with
           | Ok (v, r1) => Ok (VUnion tag v, r_align_to r1 (max_align align fs))
           | Err x => Err x
           end
  | TDelim i _ =>
      let (nbytes, r0) := read_bits r (header_width (align i)) in
      let nbits := nbytes * 8 in
      if remaining_bits r0 <? nbits then Err EDelimHeader
      else let (sub, r1) := bounded_subreader r0 nbits in
           match deser i sub with
           | Ok (v, _) => Ok (v, r1)
           | Err x => Err x
           end
  end.

(* pydsdl.deserialize(schema, data, with_delimiter_header=hdr) *)
Definition deserialize (t : ty) (data : list Z) (hdr : bool) : res val :=
  match t with
  | TDelim i _ =>
      if hdr then match deser t (r_new data) with Ok (v, _) => Ok v | Err e => Err e end
      else match deser i (r_new data) with Ok (v, _) => Ok v | Err e => Err e end
  | _ =>
      if hdr then Err EValue
      else match deser t (r_new data) with Ok (v, _) => Ok v | Err e => Err e end
  end.

(* ------------------------------------------------------------------------------------------------------------ *)
(* the types the codec is defined for: void only as padding, padding only in structures, byte only as an array
   element, utf8 only as the element of a variable-length array, composites at the top *)

Definition is_byte_like (t : ty) : bool := match t with TPrim PByte | TPrim PUtf8 => true | _ => false end.

Section Sz.
Variable Z0 : ty -> bool.
Definition is_void (t : ty) : bool := match t with TVoid _ => true | _ => false end.
Definition named_field_ok (f : option str * ty) : bool :=
  negb (is_void (snd f)) && negb (is_byte_like (snd f)) && Z0 (snd f).
Definition struct_fields_ok (fs : list (option str * ty)) : bool :=
  forallb (fun f => match fst f with None => is_void (snd f) | Some _ => named_field_ok f end) fs.
Definition union_fields_ok (fs : list (option str * ty)) : bool :=
  forallb (fun f => match fst f with None => false | Some _ => named_field_ok f end) fs.
End Sz.

Fixpoint serializable (t : ty) : bool :=
  match t with
  | TPrim _ => true
  | TVoid _ => false
  | TFix e _ => negb (is_utf8 e) && serializable e
  | TVar e _ => serializable e
  | TStruct _ fs => struct_fields_ok serializable fs
  | TUnion _ fs => union_fields_ok serializable fs
  | TDelim i _ => serializable i
  end.
