(* Range of the float cast: the pattern written into a w-bit float field is a w-bit number. *)
From Coq Require Import ZArith Bool Lia ZifyBool.
From PV Require Import Layout.Types Serdes.Float.
Open Scope Z_scope.

Ltac Zify.zify_post_hook ::= Z.to_euclidean_division_equations.

Definition fnonneg (x : fval) : Prop := match x with FFin _ m _ => 0 <= m | _ => True end.

Lemma rne_shift_nonneg m k : 0 <= m -> 0 <= rne_shift m k.
Proof.
  intros Hm. unfold rne_shift. destruct (0 <=? k) eqn:K.
  - apply Z.mul_nonneg_nonneg; [assumption|]. apply Z.pow_nonneg. lia.
  - assert (0 < 2 ^ (- k)) by (apply Z.pow_pos_nonneg; lia).
    assert (0 <= m / 2 ^ (- k)) by (apply Z.div_pos; lia).
    destruct (2 * (m mod 2 ^ (- k)) <? 2 ^ (- k)); [assumption|].
    destruct (2 ^ (- k) <? 2 * (m mod 2 ^ (- k))); [lia|]. destruct (Z.even (m / 2 ^ (- k))); lia.
Qed.

Lemma fdecode_nonneg w b : fnonneg (fdecode w b).
Proof.
  unfold fdecode. set (mb := f_mbits w). set (eb := f_ebits w).
  assert (0 <= mb) by (subst mb; unfold f_mbits; destruct (w =? 16); destruct (w =? 32); lia).
  assert (0 < 2 ^ mb) by (apply Z.pow_pos_nonneg; lia).
  pose proof (Z.mod_pos_bound b (2 ^ mb) H0).
  destruct ((b / 2 ^ mb) mod 2 ^ eb =? 2 ^ eb - 1); [destruct (b mod 2 ^ mb =? 0); exact I|].
  destruct ((b / 2 ^ mb) mod 2 ^ eb =? 0); simpl; lia.
Qed.

Lemma fclamp_nonneg w x : w = 16 \/ w = 32 \/ w = 64 -> fnonneg x -> fnonneg (fclamp w x).
Proof.
  intros Hw H. destruct x; simpl; auto. destruct (mag_gt m e (f_max_m w) (f_max_e w)); simpl; auto.
  destruct Hw as [ -> | [ -> | -> ] ]; vm_compute; discriminate.
Qed.

Lemma fencode_range w x : w = 16 \/ w = 32 \/ w = 64 -> fnonneg x -> 0 <= fencode w x < 2 ^ w.
Proof.
  intros Hw Hx.
  assert (S : forall s, f_sign w s = 0 \/ f_sign w s = 2 ^ (w - 1)) by (intros [|]; simpl; auto).
  assert (I : 0 <= f_inf w /\ f_nan w < 2 ^ (w - 1) /\ f_inf w <= f_nan w /\ 2 ^ w = 2 * 2 ^ (w - 1)).
  { destruct Hw as [ -> | [ -> | -> ] ]; vm_compute; repeat split; discriminate. }
  destruct I as (I0 & I1 & I2 & I3).
  destruct x as [|s|s m e]; cbn [fencode].
  - lia.
  - destruct (S s); lia.
  - destruct (m <=? 0); [destruct (S s); lia|].
    match goal with |- _ <= _ + Z.min ?b _ < _ => set (body := b) end.
    assert (B : 0 <= body).
    { subst body. set (mb := f_mbits w). set (eb := f_ebits w).
      set (pe := Z.max (Z.log2 m + e) (1 - (2 ^ (eb - 1) - 1))).
      pose proof (rne_shift_nonneg m (e - (pe - mb)) Hx) as R.
      destruct (rne_shift m (e - (pe - mb)) <? 2 ^ mb) eqn:C; [assumption|].
      assert (0 <= 2 ^ mb) by (apply Z.pow_nonneg; lia).
      assert (1 <= pe + (2 ^ (eb - 1) - 1)) by (subst pe; lia). nia. }
    destruct (S s); lia.
Qed.

Lemma fcast_range c w b : w = 16 \/ w = 32 \/ w = 64 -> 0 <= fcast c w b < 2 ^ w.
Proof.
  intros Hw. unfold fcast. apply fencode_range; [assumption|]. destruct c; [apply fclamp_nonneg; [assumption|]|]; apply fdecode_nonneg.
Qed.
