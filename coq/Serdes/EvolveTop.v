(* C14 at the top level: cross-revision decoding of whole byte strings; zero bytes decode to the zero value. *)
From Coq Require Import ZArith List Bool Lia ZifyBool.
From PV Require Import BLS.Model Layout.Types Layout.Spec Layout.Proofs Layout.ProofsSpec.
From PV Require Import Serdes.Model Serdes.Bits Serdes.BitsProofs Serdes.WriterProofs Serdes.ReaderProofs
  Serdes.Spec Serdes.SerProofs Serdes.EncProofs Serdes.DeserProofs Serdes.Roundtrip Serdes.Evolve Serdes.ProofsLayout Serdes.ZeroDecode
  Serdes.EvolveProofs Serdes.ZeroExt.
Import ListNotations.
Open Scope Z_scope.

Ltac Zify.zify_post_hook ::= Z.to_euclidean_division_equations.

(* the byte string is the representation of the type itself (a delimited type with its header, a sealed type without) *)
Definition framed (t : ty) (hdr : bool) : bool := match t with TDelim _ _ => hdr | _ => negb hdr end.

Lemma framed_spec_enc t v hdr : framed t hdr = true -> spec_enc t v hdr = enc t v 0.
Proof. destruct t; cbn [framed spec_enc]; intros H; try reflexivity. rewrite H. reflexivity. Qed.

Lemma framed_hdr_ok t hdr : framed t hdr = true -> hdr_ok t hdr = true.
Proof. destruct t; cbn [framed hdr_ok]; auto. Qed.

Lemma framed_deserialize t data hdr : framed t hdr = true -> is_composite t = true ->
  deserialize t data hdr = match deser t (r_new data) with Ok (v, _) => Ok v | Err e => Err e end.
Proof.
  destruct t; try discriminate; cbn [framed deserialize]; intros H _; try (destruct hdr; [discriminate|reflexivity]).
  rewrite H. reflexivity.
Qed.

Lemma evolves_framed t t' hdr : evolves t t' = true -> framed t hdr = framed t' hdr /\ is_composite t = is_composite t'.
Proof. destruct t, t'; try discriminate; try (destruct t; discriminate); auto. Qed.

(* written with t, read with t' (older or newer revision of nested delimited structures), whatever follows is ignored *)
Theorem cross_version t t' v hdr bytes extra :
  wft t = true -> is_composite t = true -> framed t hdr = true -> validb t v = true ->
  wft t' = true -> serializable t' = true -> evolves t t' = true ->
  bytes_ok extra -> serialize t v hdr = Ok bytes ->
  deserialize t' (bytes ++ extra) hdr = Ok (conv t t' (canon t v)).
Proof.
  intros Hwf Hc Hf Hv Hwf' Hsz' Hev Oe Hs.
  destruct (serialize_spec t v hdr Hwf Hc (framed_hdr_ok t hdr Hf) Hv) as (bytes' & E & Pk). rewrite Hs in E. inversion E; subst bytes'. clear E.
  rewrite (framed_spec_enc t v hdr Hf) in Pk. destruct Pk as (Ob & Lb & Gb).
  destruct (evolves_framed t t' hdr Hev) as [Ef Ec].
  rewrite (framed_deserialize t' _ hdr) by congruence.
  destruct (evolve_deser t) as [Qt _].
  pose proof (Qt Hwf t' Hev (conj Hwf' (or_introl Hsz')) v (r_new (bytes ++ extra)) [] Hv) as H. cbn [roff r_new] in H.
  rewrite H; [reflexivity| | | |].
  - split; [apply bytes_ok_app; assumption|]. cbn [roff r_new]. lia.
  - apply Z.mod_0_l. pose proof (align_pos t). lia.
  - rewrite app_nil_r. intros j Hj. unfold rbit, within. cbn [rlimit r_new rdata roff rstart andb]. replace (0 + j) with j by lia.
    rewrite getbit_app_l by lia. apply Gb. lia.
  - unfold rend. cbn [rlimit r_new rdata]. rewrite zlen_app. pose proof (zlen_nonneg extra). lia.
Qed.

(* zero bytes (also: no bytes at all) decode to the zero value of any type *)
Theorem zero_bytes_decode t n hdr : wft t = true -> serializable t = true -> is_composite t = true -> hdr_ok t hdr = true ->
  deserialize t (zeros n) hdr = Ok (default_value t).
Proof.
  intros Hwf Hsz Hc Hh.
  assert (Z0 : ZR (r_new (zeros n))).
  { split; [split; [apply bytes_ok_zeros|cbn [roff r_new]; lia]|]. intros j Hj. unfold rbit, within. cbn [rlimit r_new rdata andb].
    apply getbit_zeros. }
  assert (G : forall t', wft t' = true -> serializable t' = true ->
              (match deser t' (r_new (zeros n)) with Ok (x, _) => Ok x | Err e => Err e end) = Ok (default_value t')).
  { intros t' Hw' Hs'. destruct (zero_decode t' Hw' (or_introl Hs') _ Z0) as (r' & E & _). rewrite E. reflexivity. }
  destruct t; try discriminate; cbn [hdr_ok] in Hh; try (destruct hdr; [discriminate|]); cbn [deserialize]; try (apply G; assumption).
  cbn [wft] in Hwf. pose proof Hwf as Hwf0. apply andb_prop in Hwf. destruct Hwf as [Hwf _]. apply andb_prop in Hwf. destruct Hwf as [Hwf _].
  apply andb_prop in Hwf. destruct Hwf as [Hwi _]. cbn [serializable] in Hsz.
  destruct hdr; [apply (G (TDelim t ext)); assumption|apply (G t); assumption].
Qed.
