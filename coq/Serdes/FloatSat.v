(* The saturated float cast never yields an infinity from a finite value (binary16/32/64). *)
From Coq Require Import ZArith Bool Lia ZifyBool.
From PV Require Import Layout.Types Serdes.Float Serdes.FloatProofs Serdes.FloatIdem.
Open Scope Z_scope.
Ltac Zify.zify_post_hook ::= Z.to_euclidean_division_equations.

Lemma pow2_pos k : 0 <= k -> 0 < 2 ^ k.
Proof. intros. apply Z.pow_pos_nonneg; lia. Qed.

Lemma pow2_mono a b : 0 <= a <= b -> 2 ^ a <= 2 ^ b.
Proof. intros. apply Z.pow_le_mono_r; lia. Qed.

Lemma pow2_lt_inv a b : 0 <= a -> 0 <= b -> 2 ^ a < 2 ^ b -> a < b.
Proof. intros Ha Hb H. apply (Z.pow_lt_mono_r_iff 2); lia. Qed.

(* rounding a quotient that does not exceed the integer N does not exceed N *)
Lemma rne_le m j N : 0 <= m -> j < 0 -> 0 <= N -> m <= N * 2 ^ (- j) -> 0 <= rne_shift m j <= N.
Proof.
  intros Hm Hj HN H. split; [apply rne_shift_nonneg; assumption|]. unfold rne_shift. replace (0 <=? j) with false by lia.
  pose proof (pow2_pos (- j) ltac:(lia)) as D. set (d := 2 ^ (- j)) in *.
  pose proof (Z.div_mod m d ltac:(lia)) as DM. pose proof (Z.mod_pos_bound m d D) as RB.
  set (q := m / d) in *. set (r := m mod d) in *. clearbody q r d.
  assert (q <= N) by nia.
  destruct (2 * r <? d) eqn:C1; [assumption|]. assert (q < N) by nia.
  destruct (d <? 2 * r); [lia|]. destruct (Z.even q); lia.
Qed.

Lemma rne_exact m j : 0 <= j -> rne_shift m j = m * 2 ^ j.
Proof. intros. unfold rne_shift. replace (0 <=? j) with true by lia. reflexivity. Qed.

(* scaled mantissa bounds from the position of the leading bit *)
Lemma scaled_bounds m j : 0 < m -> 0 <= j -> 2 ^ (Z.log2 m + j) <= m * 2 ^ j < 2 ^ (Z.log2 m + 1 + j).
Proof.
  intros Hm Hj. destruct (Z.log2_spec m Hm) as [Lo Hi]. pose proof (Z.log2_nonneg m). pose proof (pow2_pos j Hj).
  replace (Z.succ (Z.log2 m)) with (Z.log2 m + 1) in Hi by lia.
  rewrite (Z.pow_add_r 2 (Z.log2 m) j) by lia. rewrite (Z.pow_add_r 2 (Z.log2 m + 1) j) by lia.
  split; [apply Z.mul_le_mono_nonneg_r; lia|apply Z.mul_lt_mono_pos_r; lia].
Qed.

Ltac sat_tac w :=
  let eb := eval vm_compute in (f_ebits w) in
  let mb := eval vm_compute in (f_mbits w) in
  let mb1 := eval vm_compute in (mb + 1) in
  let bias := eval vm_compute in (2 ^ (eb - 1) - 1) in
  let P := eval vm_compute in (2 ^ mb) in
  let P2 := eval vm_compute in (2 ^ (mb + 1)) in
  let Q := eval vm_compute in (2 ^ eb) in
  intros s m e Hm H; unfold f_max_m, f_max_e in H; unfold fencode, f_inf; consts w;
  destruct (m <=? 0) eqn:C0; [lia|]; assert (Hm' : 0 < m) by lia;
  set (L := Z.log2 m); pose proof (Z.log2_nonneg m) as HL0; fold L in HL0;
  destruct (Z.log2_spec m Hm') as [Lo Hi]; fold L in Lo, Hi; replace (Z.succ L) with (L + 1) in Hi by lia;
  match goal with |- _ + Z.min ?b _ < _ => assert (B : b < (Q - 1) * P); [|lia] end;
  unfold mag_gt in H; destruct (bias - mb <=? e) eqn:CA;
  [ set (t := e - (bias - mb)) in *; assert (Ht : 0 <= t) by (subst t; lia); pose proof (pow2_pos t Ht) as HT;
    assert (HmT : m * 2 ^ t <= P2 - 1) by lia;
    pose proof (scaled_bounds m t Hm' Ht) as [S1 S2]; fold L in S1, S2;
    assert (HLt : L + t < mb + 1) by (apply pow2_lt_inv; [lia|lia|]; replace (2 ^ (mb + 1)) with P2 by (vm_compute; reflexivity); lia);
    replace (Z.max (L + e) (1 - bias)) with (L + e) by lia; replace (e - (L + e - mb)) with (mb - L) by lia;
    rewrite rne_exact by lia; pose proof (scaled_bounds m (mb - L) Hm' ltac:(lia)) as [M1 M2]; fold L in M1, M2;
    replace (L + (mb - L)) with mb in M1 by lia; replace (L + 1 + (mb - L)) with mb1 in M2 by lia;
    replace (2 ^ mb) with P in M1 by (vm_compute; reflexivity); replace (2 ^ mb1) with P2 in M2 by (vm_compute; reflexivity);
    replace (m * 2 ^ (mb - L) <? P) with false by lia;
    destruct (Z.eq_dec (L + t) mb) as [E10|N10]; [replace (mb - L) with t in * by lia; lia|lia]
  | set (u := bias - mb - e) in *; assert (Hu : 0 < u) by (subst u; lia); pose proof (pow2_pos u ltac:(lia)) as HU;
    assert (HmU : m <= (P2 - 1) * 2 ^ u) by lia;
    assert (HLu : L < mb + 1 + u) by (apply pow2_lt_inv; [lia|lia|]; rewrite (Z.pow_add_r 2 (mb + 1) u) by lia; replace (2 ^ (mb + 1)) with P2 by (vm_compute; reflexivity); lia);
    destruct (Z.le_gt_cases (1 - bias) (L + e)) as [Cn|Cs];
    [ replace (Z.max (L + e) (1 - bias)) with (L + e) by lia; replace (e - (L + e - mb)) with (mb - L) by lia;
      destruct (Z.le_gt_cases L mb) as [Cj|Cj];
      [ rewrite rne_exact by lia; pose proof (scaled_bounds m (mb - L) Hm' ltac:(lia)) as [M1 M2]; fold L in M1, M2;
        replace (L + (mb - L)) with mb in M1 by lia; replace (L + 1 + (mb - L)) with mb1 in M2 by lia;
        replace (2 ^ mb) with P in M1 by (vm_compute; reflexivity); replace (2 ^ mb1) with P2 in M2 by (vm_compute; reflexivity);
        replace (m * 2 ^ (mb - L) <? P) with false by lia; lia
      | assert (R0 : m <= P2 * 2 ^ (- (mb - L)))
          by (replace (- (mb - L)) with (L - mb) by lia; replace P2 with (2 ^ (mb + 1)) by (vm_compute; reflexivity);
              rewrite <- Z.pow_add_r by lia; replace (mb + 1 + (L - mb)) with (L + 1) by lia; lia);
        destruct (Z.eq_dec (L + e) bias) as [E15|N15];
        [ assert (R1 : m <= (P2 - 1) * 2 ^ (- (mb - L))) by (replace (- (mb - L)) with u by (subst u; lia); exact HmU);
          pose proof (rne_le m (mb - L) (P2 - 1) Hm ltac:(lia) ltac:(lia) R1) as [Ra Rb];
          destruct (rne_shift m (mb - L) <? P); lia
        | pose proof (rne_le m (mb - L) P2 Hm ltac:(lia) ltac:(lia) R0) as [Ra Rb];
          destruct (rne_shift m (mb - L) <? P); lia ] ]
    | replace (Z.max (L + e) (1 - bias)) with (1 - bias) by lia;
      destruct (Z.le_gt_cases 0 (e - (1 - bias - mb))) as [Cj|Cj];
      [ rewrite rne_exact by lia; pose proof (scaled_bounds m (e - (1 - bias - mb)) Hm' Cj) as [M1 M2]; fold L in M1, M2;
        assert (2 ^ (L + 1 + (e - (1 - bias - mb))) <= 2 ^ mb) by (apply pow2_mono; lia);
        replace (2 ^ mb) with P in * by (vm_compute; reflexivity);
        replace (m * 2 ^ (e - (1 - bias - mb)) <? P) with true by lia; lia
      | assert (R0 : m <= P * 2 ^ (- (e - (1 - bias - mb))))
          by (replace P with (2 ^ mb) by (vm_compute; reflexivity); rewrite <- Z.pow_add_r by lia;
              assert (2 ^ (L + 1) <= 2 ^ (mb + - (e - (1 - bias - mb)))) by (apply pow2_mono; lia); lia);
        pose proof (rne_le m (e - (1 - bias - mb)) P Hm ltac:(lia) ltac:(lia) R0) as [Ra Rb];
        destruct (rne_shift m (e - (1 - bias - mb)) <? P); lia ] ] ].

Definition sat_stmt (w : Z) : Prop := forall s m e, 0 <= m -> mag_gt m e (f_max_m w) (f_max_e w) = false ->
  fencode w (FFin s m e) < f_sign w s + f_inf w.
Lemma sat_finite_16 : sat_stmt 16. Proof. unfold sat_stmt. sat_tac 16. Qed.
Lemma sat_finite_32 : sat_stmt 32. Proof. unfold sat_stmt. sat_tac 32. Qed.
Lemma sat_finite_64 : sat_stmt 64. Proof. unfold sat_stmt. sat_tac 64. Qed.

Theorem sat_never_inf w b s m e : w = 16 \/ w = 32 \/ w = 64 -> fdecode 64 b = FFin s m e ->
  fcast Sat w b < f_sign w s + f_inf w.
Proof.
  intros Hw H. unfold fcast. rewrite H. pose proof (fdecode_nonneg 64 b) as N. rewrite H in N. cbn [fnonneg] in N.
  unfold fclamp. destruct (mag_gt m e (f_max_m w) (f_max_e w)) eqn:C.
  - destruct Hw as [ -> | [ -> | -> ] ]; destruct s; vm_compute; reflexivity.
  - destruct Hw as [ -> | [ -> | -> ] ]; [apply sat_finite_16|apply sat_finite_32|apply sat_finite_64]; assumption.
Qed.
