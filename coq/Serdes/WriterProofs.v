(* The byte-buffer writer refines appending to a bit list: fast path, slow path, alignment, byte-wise copies. *)
From Coq Require Import ZArith List Bool Lia ZifyBool.
From PV Require Import Serdes.Model Serdes.Bits Serdes.BitsProofs.
Import ListNotations.
Open Scope Z_scope.

Ltac Zify.zify_post_hook ::= Z.to_euclidean_division_equations.

(* the buffer carries the L bits given by f, zero padded to whole bytes *)
Definition BRf (buf : list Z) (L : Z) (f : Z -> bool) : Prop :=
  0 <= L /\ zlen buf = (L + 7) / 8 /\ bytes_ok buf /\ forall j, 0 <= j -> getbit buf j = (j <? L) && f j.

Lemma BRf_ext buf L f g : (forall j, 0 <= j < L -> f j = g j) -> BRf buf L f -> BRf buf L g.
Proof.
  intros E (H0 & H1 & H2 & H3). repeat split; auto. intros j Hj. rewrite H3 by assumption.
  destruct (j <? L) eqn:C; simpl; auto. apply E. lia.
Qed.

Lemma set_byte_ok x k b : byte_ok x -> 0 <= k < 8 ->
  byte_ok (if b : bool then Z.lor x (Z.shiftl 1 k) else Z.land x (Z.lnot (Z.shiftl 1 k))).
Proof.
  intros Hx Hk. apply byte_ok_bits in Hx. destruct Hx as [H0 Hh]. apply byte_ok_bits. destruct b.
  - split. { apply Z.lor_nonneg. split; [lia|]. apply Z.shiftl_nonneg. lia. }
    intros i Hi. rewrite testbit_set by lia. rewrite Hh by lia. simpl. lia.
  - split. { apply Z.land_nonneg. left. lia. }
    intros i Hi. rewrite testbit_clear by lia. rewrite Hh by lia. reflexivity.
Qed.

Lemma put_bit_BRf buf L f b : BRf buf L f -> BRf (put_bit buf L b) (L + 1) (fun j => if j <? L then f j else b).
Proof.
  intros (H0 & H1 & H2 & H3). unfold put_bit.
  set (bi := L / 8). set (k := L mod 8).
  set (buf1 := if zlen buf <=? bi then buf ++ [0] else buf).
  assert (L1 : zlen buf1 = bi + 1).
  { subst buf1 bi. destruct (zlen buf <=? L / 8) eqn:C; [rewrite zlen_app; unfold zlen at 2; simpl|]; lia. }
  assert (O1 : bytes_ok buf1).
  { subst buf1. destruct (zlen buf <=? bi); auto. apply bytes_ok_app; auto. constructor; [unfold byte_ok; lia|constructor]. }
  assert (G1 : forall j, 0 <= j -> getbit buf1 j = (j <? L) && f j).
  { intros j Hj. subst buf1. destruct (zlen buf <=? bi) eqn:C; [|apply H3; assumption].
    destruct (Z.lt_ge_cases j (8 * zlen buf)).
    - rewrite getbit_app_l by lia. apply H3. assumption.
    - rewrite getbit_app_r by lia. rewrite getbit_cons by lia.
      assert (j <? L = false) by (subst bi; lia). rewrite H4. cbn [andb].
      destruct (j - 8 * zlen buf <? 8) eqn:C8; [apply Z.testbit_0_l|]. apply getbit_beyond. change (zlen (@nil Z)) with 0. lia. }
  clearbody buf1. clear H1 H2 H3.
  assert (Hk : 0 <= k < 8) by (subst k; lia).
  assert (Hbi : (Z.to_nat bi < length buf1)%nat) by (unfold zlen in L1; subst bi; lia).
  split; [lia|]. split. { unfold zlen. rewrite update_nth_length. fold (zlen buf1). subst bi. lia. }
  split. { apply update_nth_ok; auto. intros x Hx. apply (set_byte_ok x k b Hx Hk). }
  intros j Hj. unfold getbit. rewrite nth_update_nth by assumption.
  destruct (Nat.eqb (Z.to_nat (j / 8)) (Z.to_nat bi)) eqn:C.
  - apply Nat.eqb_eq in C. assert (Cj : j / 8 = bi) by (subst bi; lia).
    pose proof (G1 (8 * bi + j mod 8) ltac:(lia)) as Gj. unfold getbit in Gj.
    replace ((8 * bi + j mod 8) / 8) with bi in Gj by lia. replace ((8 * bi + j mod 8) mod 8) with (j mod 8) in Gj by lia.
    assert (Ej : 8 * bi + j mod 8 = j) by lia. rewrite Ej in Gj.
    destruct b.
    + rewrite testbit_set by lia. rewrite Gj. destruct (j mod 8 =? k) eqn:D.
      * assert (j = L) by (subst bi k; lia). subst j. replace (L <? L) with false by lia. replace (L <? L + 1) with true by lia. reflexivity.
      * rewrite orb_false_r. assert (j <> L) by (subst bi k; lia).
        destruct (j <? L) eqn:D1; [replace (j <? L + 1) with true by lia; reflexivity|]. replace (j <? L + 1) with false by lia. reflexivity.
    + rewrite testbit_clear by lia. rewrite Gj. destruct (j mod 8 =? k) eqn:D.
      * assert (j = L) by (subst bi k; lia). subst j. replace (L <? L) with false by lia. replace (L <? L + 1) with true by lia. reflexivity.
      * rewrite andb_true_r. assert (j <> L) by (subst bi k; lia).
        destruct (j <? L) eqn:D1; [replace (j <? L + 1) with true by lia; reflexivity|]. replace (j <? L + 1) with false by lia. reflexivity.
  - apply Nat.eqb_neq in C. assert (Cj : j / 8 <> bi) by (subst bi; lia).
    fold (getbit buf1 j). rewrite G1 by assumption. assert (j <> L) by (subst bi; intros ->; lia).
    destruct (j <? L) eqn:D1; [replace (j <? L + 1) with true by lia; reflexivity|].
    replace (j <? L + 1) with false by lia. reflexivity.
Qed.

Lemma slow_loop_BRf n : forall i buf f value off, 0 <= i -> BRf buf (off + i) f ->
  BRf (slow_loop n i value off buf) (off + i + Z.of_nat n) (fun j => if j <? off + i then f j else Z.testbit value (j - off)).
Proof.
  induction n as [|n IH]; intros i buf f value off Hi H.
  - cbn [slow_loop]. replace (off + i + Z.of_nat 0) with (off + i) by lia.
    eapply BRf_ext; [|exact H]. intros j Hj. cbv beta. replace (j <? off + i) with true by lia. reflexivity.
  - cbn [slow_loop]. pose proof (put_bit_BRf _ _ _ (Z.testbit value i) H) as H1.
    replace (off + i + 1) with (off + (i + 1)) in H1 by lia.
    pose proof (IH (i + 1) _ _ value off ltac:(lia) H1) as H2.
    replace (off + (i + 1) + Z.of_nat n) with (off + i + Z.of_nat (S n)) in H2 by lia.
    eapply BRf_ext; [|exact H2]. intros j Hj. cbv beta.
    destruct (j <? off + i) eqn:C1.
    + replace (j <? off + (i + 1)) with true by lia. reflexivity.
    + destruct (j <? off + (i + 1)) eqn:C2; [|reflexivity]. f_equal. lia.
Qed.

(* the writer represents the bit list bs *)
Definition WR (w : writer) (bs : list bool) : Prop := woff w = zlen bs /\ BRf (wbuf w) (zlen bs) (bit_at bs).

Lemma WR_new : WR w_new [].
Proof.
  split; [reflexivity|]. split; [unfold zlen; simpl; lia|]. split; [reflexivity|]. split; [constructor|].
  intros j Hj. rewrite getbit_beyond by (unfold zlen; simpl; lia). change (zlen (@nil bool)) with 0. replace (j <? 0) with false by lia. reflexivity.
Qed.

Lemma WR_append w bs L' f' cs buf' :
  WR w bs -> BRf buf' L' f' -> L' = zlen bs + zlen cs ->
  (forall j, 0 <= j < L' -> f' j = if j <? zlen bs then bit_at bs j else bit_at cs (j - zlen bs)) ->
  WR (mkW buf' L') (bs ++ cs).
Proof.
  intros [Hoff HB] H' HL Hf. split; cbn [woff wbuf]. { rewrite zlen_app. lia. }
  rewrite zlen_app. rewrite <- HL. eapply BRf_ext; [|exact H']. intros j Hj. rewrite Hf by assumption.
  rewrite bit_at_app by lia. reflexivity.
Qed.

Lemma write_slow_WR w bs value n : 0 <= n -> WR w bs -> WR (write_slow w value n) (bs ++ low_bits (Z.to_nat n) value).
Proof.
  intros Hn [Hoff HB]. unfold write_slow. rewrite Hoff.
  pose proof (slow_loop_BRf (Z.to_nat n) 0 (wbuf w) (bit_at bs) value (zlen bs) ltac:(lia)) as H.
  replace (zlen bs + 0) with (zlen bs) in H by lia. specialize (H HB).
  replace (zlen bs + Z.of_nat (Z.to_nat n)) with (zlen bs + n) in H by lia.
  eapply WR_append; [split; [exact Hoff|exact HB]|exact H|rewrite zlen_low_bits; lia|].
  intros j Hj. cbv beta. destruct (j <? zlen bs) eqn:C; [reflexivity|].
  rewrite bit_at_low_bits by lia. replace (j - zlen bs <? Z.of_nat (Z.to_nat n)) with true by lia. reflexivity.
Qed.

Lemma BRf_aligned_append buf L f data :
  BRf buf L f -> L mod 8 = 0 -> bytes_ok data ->
  BRf (buf ++ data) (L + 8 * zlen data) (fun j => if j <? L then f j else getbit data (j - L)).
Proof.
  intros (H0 & H1 & H2 & H3) HL Hd. pose proof (zlen_nonneg data). split; [lia|]. split. { rewrite zlen_app. lia. }
  split. { apply bytes_ok_app; assumption. }
  intros j Hj. assert (E8 : 8 * zlen buf = L) by lia.
  destruct (j <? L) eqn:C.
  - rewrite getbit_app_l by lia. rewrite H3 by assumption. rewrite C. replace (j <? L + 8 * zlen data) with true by lia. reflexivity.
  - rewrite getbit_app_r by lia. rewrite E8. destruct (j <? L + 8 * zlen data) eqn:D; [reflexivity|].
    simpl. apply getbit_beyond. lia.
Qed.

Lemma shiftl_1 k : 0 <= k -> Z.shiftl 1 k = 2 ^ k.
Proof. intros. rewrite Z.shiftl_mul_pow2 by lia. lia. Qed.

Lemma testbit_land_mask v k j : 0 <= k -> 0 <= j -> Z.testbit (Z.land v (Z.shiftl 1 k - 1)) j = (j <? k) && Z.testbit v j.
Proof.
  intros Hk Hj. rewrite shiftl_1 by assumption. replace (2 ^ k - 1) with (Z.ones k) by (rewrite Z.ones_equiv; lia).
  rewrite Z.land_spec. destruct (j <? k) eqn:C.
  - rewrite Z.ones_spec_low by lia. rewrite andb_true_r. reflexivity.
  - rewrite Z.ones_spec_high by lia. rewrite andb_false_r. reflexivity.
Qed.

Theorem write_bits_WR w bs value n : 0 <= n -> WR w bs -> WR (write_bits w value n) (bs ++ low_bits (Z.to_nat n) value).
Proof.
  intros Hn HW. unfold write_bits.
  destruct ((woff w mod 8 =? 0) && (8 <=? n)) eqn:C; [|apply write_slow_WR; assumption].
  apply andb_prop in C. destruct C as [C1 C2]. destruct HW as [Hoff HB].
  set (full := n / 8). set (rem := n mod 8).
  assert (Hfull : 0 <= full) by (subst full; lia).
  assert (Hlen : zlen (wbuf w) = woff w / 8) by (destruct HB as (_ & HB1 & _); rewrite Hoff; lia).
  replace (zlen (wbuf w) <=? woff w / 8) with true by lia.
  replace (woff w / 8 - zlen (wbuf w)) with 0 by lia. change (zeros 0) with (@nil Z). cbn [app].
  set (data := to_bytes_le (Z.to_nat full) (Z.land value (Z.shiftl 1 (full * 8) - 1))).
  assert (Ld : zlen data = full) by (subst data; unfold zlen; rewrite to_bytes_le_length; lia).
  pose proof (BRf_aligned_append _ _ _ data HB ltac:(lia) (to_bytes_le_ok _ _)) as HA.
  (* the bits written by the fast path *)
  assert (W1 : WR (mkW (wbuf w ++ data) (woff w + full * 8)) (bs ++ low_bits (Z.to_nat (full * 8)) value)).
  { eapply WR_append; [split; [exact Hoff|exact HB]| |rewrite zlen_low_bits; lia|].
    - replace (woff w + full * 8) with (zlen bs + 8 * zlen data) by lia. exact HA.
    - intros j Hj. cbv beta. destruct (j <? zlen bs) eqn:D; [reflexivity|].
      rewrite bit_at_low_bits by lia. replace (j - zlen bs <? Z.of_nat (Z.to_nat (full * 8))) with true by lia.
      subst data. rewrite getbit_to_bytes_le by lia. rewrite testbit_land_mask by lia.
      replace (j - zlen bs <? full * 8) with true by lia. reflexivity. }
  assert (Split : low_bits (Z.to_nat n) value = low_bits (Z.to_nat (full * 8)) value ++ low_bits (Z.to_nat rem) (Z.shiftr value (full * 8))).
  { apply bits_ext.
    - rewrite zlen_app, !zlen_low_bits. subst full rem. lia.
    - rewrite zlen_low_bits. intros j Hj. rewrite bit_at_app by lia. rewrite !bit_at_low_bits by (rewrite ?zlen_low_bits; lia).
      rewrite zlen_low_bits. replace (j <? Z.of_nat (Z.to_nat n)) with true by lia.
      destruct (j <? Z.of_nat (Z.to_nat (full * 8))) eqn:D; [reflexivity|].
      rewrite bit_at_low_bits by lia.
      replace (j - Z.of_nat (Z.to_nat (full * 8)) <? Z.of_nat (Z.to_nat rem)) with true by (subst full rem; lia).
      rewrite Z.shiftr_spec by lia. cbn [andb]. f_equal. lia. }
  destruct (0 <? rem) eqn:R.
  - rewrite Split, app_assoc. apply write_slow_WR; [subst rem; lia|exact W1].
  - assert (rem = 0) by (subst rem; lia). rewrite Split. rewrite H. change (Z.to_nat 0) with 0%nat.
    unfold low_bits at 2. cbn [seq map]. rewrite app_nil_r. exact W1.
Qed.

Lemma write_bits_off w v n : woff (write_bits w v n) = woff w + n.
Proof.
  unfold write_bits. destruct ((woff w mod 8 =? 0) && (8 <=? n)); [|reflexivity].
  destruct (0 <? n mod 8) eqn:R; unfold write_slow; cbn [woff]; lia.
Qed.

(* zero padding up to the next multiple of a *)
Lemma low_bits_0 n : low_bits n 0 = repeat false n.
Proof.
  apply bits_ext. { rewrite zlen_low_bits, zlen_repeat. reflexivity. }
  intros j Hj. rewrite zlen_low_bits in Hj. rewrite bit_at_low_bits by lia. rewrite Z.testbit_0_l, andb_false_r.
  unfold bit_at. symmetry. apply nth_repeat.
Qed.

Lemma pad_len_0 a o : 1 <= a -> o mod a = 0 -> pad_len a o = 0.
Proof. intros Ha H. unfold pad_len. rewrite Z.mod_opp_l_z by lia. reflexivity. Qed.

Lemma pad_len_nz a o : 1 <= a -> o mod a <> 0 -> pad_len a o = a - o mod a.
Proof. intros Ha H. unfold pad_len. rewrite Z.mod_opp_l_nz by lia. reflexivity. Qed.

Lemma pad_len_range a o : 1 <= a -> 0 <= pad_len a o < a.
Proof. intros. unfold pad_len. apply Z.mod_pos_bound. lia. Qed.

Lemma pad_len_aligned a o : 1 <= a -> (o + pad_len a o) mod a = 0.
Proof.
  intros Ha. unfold pad_len. rewrite Z.add_mod by lia. rewrite Z.mod_mod by lia. rewrite <- Z.add_mod by lia.
  replace (o + - o) with 0 by lia. apply Z.mod_0_l. lia.
Qed.

Theorem w_align_to_WR w bs a : 1 <= a -> WR w bs -> WR (w_align_to w a) (bs ++ zero_bits (pad_len a (zlen bs))).
Proof.
  intros Ha HW. unfold w_align_to. replace (a <=? 0) with false by lia.
  assert (Hoff : woff w = zlen bs) by (destruct HW; assumption). rewrite Hoff.
  destruct (zlen bs mod a =? 0) eqn:R.
  - rewrite pad_len_0 by lia. change (zero_bits 0) with (@nil bool). rewrite app_nil_r. exact HW.
  - rewrite pad_len_nz by lia. pose proof (Z.mod_pos_bound (zlen bs) a ltac:(lia)).
    pose proof (write_bits_WR w bs 0 (a - zlen bs mod a) ltac:(lia) HW) as H1.
    rewrite low_bits_0 in H1. exact H1.
Qed.

Lemma w_align_to_off w a : 1 <= a -> woff (w_align_to w a) = woff w + pad_len a (woff w).
Proof.
  intros Ha. unfold w_align_to. replace (a <=? 0) with false by lia. destruct (woff w mod a =? 0) eqn:R.
  - rewrite pad_len_0 by lia. lia.
  - rewrite write_bits_off. rewrite pad_len_nz by lia. reflexivity.
Qed.

(* for byte_val in bytes: write_bits(byte_val, 8) appends the bits of the byte string *)
Fixpoint bits_of_bytes (bs : list Z) : list bool :=
  match bs with [] => [] | b :: r => low_bits 8 b ++ bits_of_bytes r end.

Lemma zlen_bits_of_bytes bs : zlen (bits_of_bytes bs) = 8 * zlen bs.
Proof. induction bs as [|b r IH]; [reflexivity|]. cbn [bits_of_bytes]. rewrite zlen_app, zlen_low_bits, zlen_cons, IH. lia. Qed.

Lemma bit_at_bits_of_bytes bs : bytes_ok bs -> forall j, 0 <= j -> bit_at (bits_of_bytes bs) j = getbit bs j.
Proof.
  induction 1 as [|b r Hb Hr IH]; intros j Hj.
  - rewrite getbit_beyond by (unfold zlen; simpl; lia). apply bit_at_beyond. unfold zlen; simpl; lia.
  - cbn [bits_of_bytes]. rewrite bit_at_app by lia. rewrite zlen_low_bits. rewrite getbit_cons by lia.
    change (Z.of_nat 8) with 8. destruct (j <? 8) eqn:C.
    + rewrite bit_at_low_bits by lia. change (Z.of_nat 8) with 8. rewrite C. reflexivity.
    + apply IH. lia.
Qed.

Theorem write_bytes_WR data : forall w bs, WR w bs -> WR (write_bytes w data) (bs ++ bits_of_bytes data).
Proof.
  unfold write_bytes. induction data as [|b r IH]; intros w bs HW; cbn [fold_left bits_of_bytes].
  - rewrite app_nil_r. exact HW.
  - rewrite app_assoc. apply IH. apply (write_bits_WR w bs b 8 ltac:(lia) HW).
Qed.

Lemma write_bytes_off data : forall w, woff (write_bytes w data) = woff w + 8 * zlen data.
Proof.
  unfold write_bytes. induction data as [|b r IH]; intros w; cbn [fold_left].
  - unfold zlen; simpl; lia.
  - rewrite IH, write_bits_off, zlen_cons. lia.
Qed.

(* what finish() returns when a whole number of bytes has been written *)
Lemma WR_packs w bs : WR w bs -> zlen bs mod 8 = 0 -> packs (w_finish w) bs.
Proof.
  intros [Hoff (H0 & H1 & H2 & H3)] Hm. unfold w_finish. split; [assumption|]. split; [lia|].
  intros j Hj. rewrite H3 by assumption. destruct (j <? zlen bs) eqn:C; [reflexivity|]. simpl. symmetry. apply bit_at_beyond. lia.
Qed.

Lemma packs_bits_of_bytes bytes : bytes_ok bytes -> packs bytes (bits_of_bytes bytes).
Proof.
  intros H. split; [assumption|]. split; [rewrite zlen_bits_of_bytes; reflexivity|].
  intros j Hj. symmetry. apply bit_at_bits_of_bytes; assumption.
Qed.

Lemma packs_eq bytes bs : packs bytes bs -> bits_of_bytes bytes = bs.
Proof.
  intros (H1 & H2 & H3). apply bits_ext. { rewrite zlen_bits_of_bytes. exact H2. }
  intros j Hj. rewrite bit_at_bits_of_bytes by (auto; lia). apply H3. lia.
Qed.
