(* Readers that see the same bits decode alike: basis of zero extension (C07) and of confinement of sub-readers. *)
From Coq Require Import ZArith List Bool Lia ZifyBool.
From PV Require Import BLS.Model Layout.Types Layout.Spec Layout.Proofs Layout.ProofsSpec.
From PV Require Import Serdes.Model Serdes.Bits Serdes.BitsProofs Serdes.WriterProofs Serdes.ReaderProofs Serdes.Spec Serdes.SerProofs
  Serdes.EncProofs Serdes.DeserProofs.
Import ListNotations.
Open Scope Z_scope.

Ltac Zify.zify_post_hook ::= Z.to_euclidean_division_equations.

(* r2 sees everything r1 sees, at the same position, and has at least as much data left *)
Definition RS (r1 r2 : reader) : Prop :=
  rok r1 /\ rok r2 /\ roff r1 = roff r2 /\ (forall j, roff r1 <= j -> rbit r1 j = rbit r2 j) /\ rend r1 <= rend r2.

Lemma RS_adv r1 r2 n : RS r1 r2 -> 0 <= n -> RS (r_adv r1 n) (r_adv r2 n).
Proof.
  intros (A & B & C & D & E) Hn. repeat split; try (apply rok_adv; assumption); try (apply A); try (apply B).
  - rewrite !roff_adv. lia.
  - intros j Hj. rewrite !rbit_adv. apply D. rewrite roff_adv in Hj. lia.
  - rewrite !rend_adv. assumption.
Qed.

Lemma RS_read r1 r2 n : RS r1 r2 -> 0 <= n ->
  fst (read_bits r1 n) = fst (read_bits r2 n) /\ snd (read_bits r1 n) = r_adv r1 n /\ snd (read_bits r2 n) = r_adv r2 n.
Proof.
  intros (A & B & C & D & E) Hn.
  destruct (read_bits_spec r1 n (proj1 A) Hn (proj2 A)) as (S1 & R1 & T1).
  destruct (read_bits_spec r2 n (proj1 B) Hn (proj2 B)) as (S2 & R2 & T2).
  split; [|split; assumption]. apply Z.bits_inj'. intros k Hk. destruct (Z.lt_ge_cases k n).
  - rewrite T1, T2 by lia. rewrite <- C. apply D. lia.
  - rewrite (bits_above n), (bits_above n) by lia. reflexivity.
Qed.

Lemma RS_read_pair r1 r2 n : RS r1 r2 -> 0 <= n ->
  exists x, read_bits r1 n = (x, r_adv r1 n) /\ read_bits r2 n = (x, r_adv r2 n).
Proof.
  intros H Hn. destruct (RS_read r1 r2 n H Hn) as (A & B & C). exists (fst (read_bits r1 n)). split.
  - rewrite (surjective_pairing (read_bits r1 n)) at 1. rewrite B. reflexivity.
  - rewrite (surjective_pairing (read_bits r2 n)) at 1. rewrite C, A. reflexivity.
Qed.

Lemma RS_align r1 r2 a : RS r1 r2 -> 1 <= a -> RS (r_align_to r1 a) (r_align_to r2 a).
Proof.
  intros H Ha. rewrite !r_align_to_adv by assumption. destruct H as (A & B & C & D & E). rewrite <- C.
  apply RS_adv; [repeat split; try apply A; try apply B; auto|]. apply pad_len_range. assumption.
Qed.

Lemma RS_remaining r1 r2 : RS r1 r2 -> remaining_bits r1 <= remaining_bits r2.
Proof. intros (A & B & C & D & E). rewrite !remaining_rend. lia. Qed.

Lemma rbit_within_getbit r j : j < rend r -> rbit r j = getbit (rdata r) j.
Proof. intros H. unfold rbit. rewrite within_below_rend by assumption. reflexivity. Qed.

Lemma RS_sub r1 r2 n : RS r1 r2 -> 0 <= n <= remaining_bits r1 ->
  RS (fst (bounded_subreader r1 n)) (fst (bounded_subreader r2 n)) /\
  snd (bounded_subreader r1 n) = r_adv r1 n /\ snd (bounded_subreader r2 n) = r_adv r2 n.
Proof.
  intros (A & B & C & D & E) Hn. unfold bounded_subreader. cbn [fst snd]. split; [|split; reflexivity].
  rewrite remaining_rend in Hn.
  repeat split; cbn [rdata roff]; try apply A; try apply B; try (destruct A, B; lia).
  - intros j Hj. unfold rbit, within. cbn [rlimit rstart rdata]. rewrite <- C.
    destruct (j <? roff r1 + n) eqn:W; [|reflexivity]. cbn [andb].
    cbn [roff] in Hj. rewrite <- (rbit_within_getbit r1 j) by lia. rewrite <- (rbit_within_getbit r2 j) by lia. apply D. assumption.
  - unfold rend. cbn [rlimit rstart]. lia.
Qed.

(* ---------- the induction ---------- *)
Definition sim_ok (t : ty) : Prop := forall r1 r2 v r1', RS r1 r2 -> deser t r1 = Ok (v, r1') ->
  exists r2', deser t r2 = Ok (v, r2') /\ RS r1' r2'.

Lemma sim_elems e : sim_ok e -> forall n r1 r2 vs r1', RS r1 r2 -> deser_elems (deser e) n r1 = Ok (vs, r1') ->
  exists r2', deser_elems (deser e) n r2 = Ok (vs, r2') /\ RS r1' r2'.
Proof.
  intros He. induction n as [|n IH]; intros r1 r2 vs r1' H E; cbn [deser_elems] in *.
  - inversion E; subst. eauto.
  - destruct (deser e r1) as [[v ra]|] eqn:E1; [|discriminate].
    destruct (deser_elems (deser e) n ra) as [[vs' rb]|] eqn:E2; [|discriminate]. inversion E; subst.
    destruct (He _ _ _ _ H E1) as (ra2 & F1 & H1). rewrite F1.
    destruct (IH _ _ _ _ H1 E2) as (rb2 & F2 & H2). rewrite F2. eauto.
Qed.

Lemma sim_fields fs : Forall (fun f => sim_ok (snd f)) fs -> all_fields_ok wft fs = true ->
  forall r1 r2 vs r1', RS r1 r2 -> deser_fields deser fs r1 = Ok (vs, r1') ->
  exists r2', deser_fields deser fs r2 = Ok (vs, r2') /\ RS r1' r2'.
Proof.
  induction 1 as [|[nm t] fr Ht Hfr IH]; intros Hwf r1 r2 vs r1' H E; cbn [deser_fields] in *.
  - inversion E; subst. eauto.
  - unfold all_fields_ok in Hwf. cbn [forallb snd] in Hwf. apply andb_prop in Hwf. destruct Hwf as [Hwt Hwr]. cbn [snd] in Ht.
    pose proof (RS_align r1 r2 (align t) H (align_pos t)) as Ha. destruct nm as [nm|].
    + destruct (deser t (r_align_to r1 (align t))) as [[v ra]|] eqn:E1; [|discriminate].
      destruct (deser_fields deser fr ra) as [[vs' rb]|] eqn:E2; [|discriminate]. inversion E; subst.
      destruct (Ht _ _ _ _ Ha E1) as (ra2 & F1 & H1). rewrite F1.
      destruct (IH Hwr _ _ _ _ H1 E2) as (rb2 & F2 & H2). rewrite F2. eauto.
    + assert (Hvw : 0 <= void_width t). { destruct t; cbn [void_width]; try lia. simpl in Hwt. lia. }
      destruct (RS_read _ _ (void_width t) Ha Hvw) as (_ & S1 & S2). rewrite S1 in E. rewrite S2.
      apply (IH Hwr _ _ _ _ (RS_adv _ _ _ Ha Hvw) E).
Qed.

Lemma sim_variant fs : Forall (fun f => sim_ok (snd f)) fs ->
  forall k r1 r2 v r1', RS r1 r2 -> deser_variant deser fs k r1 = Ok (v, r1') ->
  exists r2', deser_variant deser fs k r2 = Ok (v, r2') /\ RS r1' r2'.
Proof.
  induction 1 as [|f fr Hf Hfr IH]; intros k r1 r2 v r1' H E; cbn [deser_variant] in *; [discriminate|].
  destruct k as [|k]; [apply (Hf _ _ _ _ H E)|apply (IH _ _ _ _ _ H E)].
Qed.

Theorem deser_sim : forall t, wft t = true -> sim_ok t.
Proof.
  induction t as [p|wd|e n IHe|e n IHe|nm fs IHfs|nm fs IHfs|i ext IHi] using ty_ind'; intros Hwf; unfold sim_ok; intros r1 r2 v r1' H E;
    pose proof Hwf as Hwf0; cbn [wft] in Hwf; cbn [deser] in *.
  - (* primitives *)
    inversion E as [E']. clear E. pose proof (prim_width_pos p Hwf) as Hp.
    destruct p as [ | wd c | wd | wd c | | ]; cbn [deser_prim prim_width] in *.
    + destruct (RS_read_pair r1 r2 1 H ltac:(lia)) as (x & A & B). rewrite A in E'. rewrite B. inversion E'; subst.
      eexists; split; [reflexivity|]. apply RS_adv; [assumption|lia].
    + destruct (RS_read_pair r1 r2 wd H ltac:(lia)) as (x & A & B). rewrite A in E'. rewrite B. inversion E'; subst.
      eexists; split; [reflexivity|]. apply RS_adv; [assumption|lia].
    + destruct (RS_read_pair r1 r2 wd H ltac:(lia)) as (x & A & B). rewrite A in E'. rewrite B. inversion E'; subst.
      eexists; split; [reflexivity|]. apply RS_adv; [assumption|lia].
    + assert (G : forall k ra rb, RS ra rb -> fst (read_bytes k ra) = fst (read_bytes k rb) /\ RS (snd (read_bytes k ra)) (snd (read_bytes k rb))).
      { induction k as [|k IH]; intros ra rb Hab; cbn [read_bytes]; [auto|].
        destruct (RS_read_pair ra rb 8 Hab ltac:(lia)) as (x & A & B). rewrite A, B.
        destruct (IH _ _ (RS_adv _ _ 8 Hab ltac:(lia))) as [G1 G2].
        destruct (read_bytes k (r_adv ra 8)) as [bs1 ra']. destruct (read_bytes k (r_adv rb 8)) as [bs2 rb']. cbn [fst snd] in *.
        subst. auto. }
      destruct (G (Z.to_nat (wd / 8)) r1 r2 H) as [G1 G2].
      destruct (read_bytes (Z.to_nat (wd / 8)) r1) as [bs1 ra]. destruct (read_bytes (Z.to_nat (wd / 8)) r2) as [bs2 rb]. cbn [fst snd] in *.
      inversion E'; subst. eauto.
    + destruct (RS_read_pair r1 r2 8 H ltac:(lia)) as (x & A & B). rewrite A in E'. rewrite B. inversion E'; subst.
      eexists; split; [reflexivity|]. apply RS_adv; [assumption|lia].
    + destruct (RS_read_pair r1 r2 8 H ltac:(lia)) as (x & A & B). rewrite A in E'. rewrite B. inversion E'; subst.
      eexists; split; [reflexivity|]. apply RS_adv; [assumption|lia].
  - destruct (RS_read _ _ wd H ltac:(lia)) as (_ & S1 & S2). rewrite S1 in E. rewrite S2. inversion E; subst.
    eexists; split; [reflexivity|]. apply RS_adv; [assumption|lia].
  - apply andb_prop in Hwf. destruct Hwf as [Hwe Hn].
    destruct (deser_elems (deser e) (Z.to_nat n) r1) as [[vs ra]|] eqn:E1; [|discriminate].
    destruct (sim_elems e (IHe Hwe) _ _ _ _ _ H E1) as (rb & F1 & H1). rewrite F1.
    destruct (finish_array e vs); [|discriminate]. inversion E; subst. eauto.
  - pose proof (prefix_width_mod8 e n Hwf0) as [_ P2].
    apply andb_prop in Hwf. destruct Hwf as [Hwf Hb]. apply andb_prop in Hwf. destruct Hwf as [Hwe Hn].
    destruct (RS_read_pair r1 r2 (prefix_width (align e) n) H ltac:(lia)) as (x & A & B). rewrite A in E. rewrite B.
    destruct (n <? x); [discriminate|].
    destruct (deser_elems (deser e) (Z.to_nat x) (r_adv r1 (prefix_width (align e) n))) as [[vs ra]|] eqn:E1; [|discriminate].
    destruct (sim_elems e (IHe Hwe) _ _ _ _ _ (RS_adv r1 r2 (prefix_width (align e) n) H ltac:(lia)) E1) as (rb & F1 & H1). rewrite F1.
    destruct (finish_array e vs); [|discriminate]. inversion E; subst. eauto.
  - assert (IH' : Forall (fun f => sim_ok (snd f)) fs).
    { apply Forall_forall. intros f Hf. apply (proj1 (Forall_forall _ _) IHfs f Hf).
      unfold all_fields_ok in Hwf. rewrite forallb_forall in Hwf. apply Hwf. assumption. }
    destruct (deser_fields deser fs r1) as [[vs ra]|] eqn:E1; [|discriminate]. inversion E; subst.
    destruct (sim_fields fs IH' Hwf _ _ _ _ H E1) as (rb & F1 & H1). rewrite F1.
    eexists; split; [reflexivity|]. apply RS_align; [assumption|]. rewrite max_align_fields. lia.
  - pose proof (tag_width_mod8 nm fs Hwf0) as [_ T2].
    apply andb_prop in Hwf. destruct Hwf as [Hwf _]. apply andb_prop in Hwf. destruct Hwf as [Hwf _].
    assert (IH' : Forall (fun f => sim_ok (snd f)) fs).
    { apply Forall_forall. intros f Hf. apply (proj1 (Forall_forall _ _) IHfs f Hf).
      unfold all_fields_ok in Hwf. rewrite forallb_forall in Hwf. apply Hwf. assumption. }
    destruct (RS_read_pair r1 r2 (union_tag_width fs) H ltac:(lia)) as (x & A & B). rewrite A in E. rewrite B.
    destruct (zlen fs <=? x); [discriminate|].
    destruct (deser_variant deser fs (Z.to_nat x) (r_adv r1 (union_tag_width fs))) as [[vv ra]|] eqn:E1; [|discriminate]. inversion E; subst.
    destruct (sim_variant fs IH' _ _ _ _ _ (RS_adv r1 r2 (union_tag_width fs) H ltac:(lia)) E1) as (rb & F1 & H1). rewrite F1.
    eexists; split; [reflexivity|]. apply RS_align; [assumption|]. rewrite max_align_fields. lia.
  - apply andb_prop in Hwf. destruct Hwf as [Hwf _]. apply andb_prop in Hwf. destruct Hwf as [Hwf _].
    apply andb_prop in Hwf. destruct Hwf as [Hwi Hc]. rewrite (header_width_delim i Hc) in *.
    destruct (RS_read_pair r1 r2 32 H ltac:(lia)) as (x & A & B). rewrite A in E. rewrite B.
    pose proof (RS_adv _ _ 32 H ltac:(lia)) as H0. pose proof (RS_remaining _ _ H0) as Hrem.
    destruct (remaining_bits (r_adv r1 32) <? x * 8) eqn:C1; [discriminate|].
    replace (remaining_bits (r_adv r2 32) <? x * 8) with false by lia.
    assert (Hx : 0 <= x).
    { destruct H as (A1 & _). destruct (read_bits_spec r1 32 (proj1 A1) ltac:(lia) (proj2 A1)) as (_ & R & _). rewrite A in R. cbn [fst] in R. lia. }
    destruct (RS_sub _ _ (x * 8) H0 ltac:(lia)) as (Hs & S1 & S2).
    destruct (bounded_subreader (r_adv r1 32) (x * 8)) as [sub1 p1]. destruct (bounded_subreader (r_adv r2 32) (x * 8)) as [sub2 p2].
    cbn [fst snd] in *. subst p1 p2.
    destruct (deser i sub1) as [[vi ra]|] eqn:E1; [|discriminate]. inversion E; subst.
    destruct (IHi Hwi _ _ _ _ Hs E1) as (rb & F1 & _). rewrite F1.
    eexists; split; [reflexivity|]. apply RS_adv; [assumption|lia].
Qed.
