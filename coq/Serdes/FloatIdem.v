(* Float casts on bit patterns: decoding a pattern and encoding it again is the identity; widening to binary64 and narrowing
   back is the identity (every non-NaN value of a format is a fixed point of the cast, in both cast modes); hence
   fwiden (fcast (fwiden bits)) = fwiden bits, which makes decoded float fields canonical (C07_valid_fixpoint).
   Constants 2^k are introduced through equations proved by vm_compute (never by conversion: the kernel's lazy conversion
   of 2^52 to a literal is extremely slow). *)
From Coq Require Import ZArith Bool Lia ZifyBool.
From PV Require Import Layout.Types Serdes.Float Serdes.FloatProofs.
Open Scope Z_scope.
Ltac Zify.zify_post_hook ::= Z.to_euclidean_division_equations.

Lemma sign_bit n P bits : 0 <= n -> 2 ^ n = P -> 0 <= bits < 2 * P ->
  (if Z.testbit bits n then P else 0) = (bits / P) * P /\ 0 <= bits / P <= 1.
Proof.
  intros Hn HP Hb. assert (0 < 2 ^ n) by (apply Z.pow_pos_nonneg; lia). rewrite Z.testbit_odd, Z.shiftr_div_pow2 by lia. rewrite HP in *.
  assert (R : 0 <= bits / P <= 1).
  { split; [apply Z.div_pos; lia|]. assert (bits / P < 2); [|lia]. apply Z.div_lt_upper_bound; lia. }
  split; [|exact R].
  assert (C : bits / P = 0 \/ bits / P = 1) by lia.
  destruct C as [C|C]; rewrite C; [change (Z.odd 0) with false|change (Z.odd 1) with true]; cbv iota; lia.
Qed.

Lemma log2_small m k P : 2 ^ k = P -> 0 < m < P -> 0 <= k -> 0 <= Z.log2 m < k.
Proof. intros HP Hm Hk. split; [apply Z.log2_nonneg|]. apply Z.log2_lt_pow2; [lia|]. rewrite HP. lia. Qed.

Lemma log2_exact m k P : 2 ^ k = P -> 0 <= k -> P <= m < 2 * P -> Z.log2 m = k.
Proof. intros HP Hk Hm. apply Z.log2_unique; [lia|]. rewrite Z.pow_succ_r by lia. rewrite HP. lia. Qed.

(* the shape of a finite value decoded from a w-bit pattern, and the fact that encoding it gives the pattern back *)
Definition wshape (w : Z) (m e : Z) : Prop :=
  let mb := f_mbits w in let bias := 2 ^ (f_ebits w - 1) - 1 in
  0 <= m < 2 ^ (mb + 1) /\ e <= bias - mb /\
  ((m < 2 ^ mb /\ e = 1 - bias - mb) \/ (2 ^ mb <= m /\ 1 - bias - mb <= e)).

Ltac rw_const t :=
  let v := eval vm_compute in t in
  let H := fresh "Hc" in
  assert (H : t = v) by (vm_compute; reflexivity); rewrite ?H in *; clear H.

Ltac consts w :=
  let eb := eval vm_compute in (f_ebits w) in
  let mb := eval vm_compute in (f_mbits w) in
  let n1 := eval vm_compute in (w - 1) in
  rw_const (f_ebits w); rw_const (f_mbits w); rw_const (eb + mb); rw_const (w - 1);
  rw_const (2 ^ (eb - 1) - 1); rw_const (2 ^ (mb + 1)); rw_const (2 ^ mb); rw_const (2 ^ eb); rw_const (2 ^ n1).

Ltac dec_enc_tac w :=
  let eb := eval vm_compute in (f_ebits w) in
  let mb := eval vm_compute in (f_mbits w) in
  let n1 := eval vm_compute in (w - 1) in
  let bias := eval vm_compute in (2 ^ (eb - 1) - 1) in
  let P := eval vm_compute in (2 ^ mb) in
  let Q := eval vm_compute in (2 ^ eb) in
  let SG := eval vm_compute in (2 ^ n1) in
  intros bits Hb; rw_const (2 ^ w);
  destruct (sign_bit n1 SG bits ltac:(lia) ltac:(vm_compute; reflexivity) ltac:(lia)) as [Sg Sr];
  unfold fdecode, wshape; consts w;
  set (sg := Z.testbit bits n1) in *;
  set (E := (bits / P) mod Q) in *; set (M := bits mod P) in *;
  assert (Dec : bits = (bits / SG) * SG + E * P + M /\ 0 <= E < Q /\ 0 <= M < P) by (subst E M; split; [|split]; lia);
  destruct Dec as (Dec & RE & RM); clearbody E M sg;
  match goal with |- context [if ?c then _ else _] => destruct c eqn:C1 end; [destruct (M =? 0) eqn:CM0; [unfold fencode, f_sign, f_inf; consts w; lia|exact I]|];
  match goal with |- context [if ?c then _ else _] => destruct c eqn:C0 end; (split; [|lia]); unfold fencode, f_sign, f_inf; consts w;
  [ destruct (M <=? 0) eqn:CM; [lia|];
    destruct (log2_small M mb P ltac:(vm_compute; reflexivity) ltac:(lia) ltac:(lia)) as [L0 L1];
    replace (Z.max (Z.log2 M + (1 - bias - mb)) (1 - bias)) with (1 - bias) by lia;
    replace (1 - bias - mb - (1 - bias - mb)) with 0 by lia; unfold rne_shift; change (0 <=? 0) with true; cbv iota; change (2 ^ 0) with 1;
    replace (M * 1 <? P) with true by lia; lia
  | destruct (P + M <=? 0) eqn:CM; [lia|];
    rewrite (log2_exact (P + M) mb P ltac:(vm_compute; reflexivity) ltac:(lia) ltac:(lia));
    replace (Z.max (mb + (E - bias - mb)) (1 - bias)) with (E - bias) by lia;
    replace (E - bias - mb - (E - bias - mb)) with 0 by lia; unfold rne_shift; change (0 <=? 0) with true; cbv iota; change (2 ^ 0) with 1;
    replace ((P + M) * 1 <? P) with false by lia; lia ].

Definition dec_enc_stmt (w : Z) : Prop := forall bits, 0 <= bits < 2 ^ w ->
  match fdecode w bits with FFin s m e => fencode w (FFin s m e) = bits /\ wshape w m e | FInf s => fencode w (FInf s) = bits | FNaN => True end.

Lemma dec_enc_16 : dec_enc_stmt 16. Proof. unfold dec_enc_stmt. dec_enc_tac 16. Qed.
Lemma dec_enc_32 : dec_enc_stmt 32. Proof. unfold dec_enc_stmt. dec_enc_tac 32. Qed.
Lemma dec_enc_64 : dec_enc_stmt 64. Proof. unfold dec_enc_stmt. dec_enc_tac 64. Qed.

(* ---------- widening to binary64 and decoding again: the same value with a 53-bit mantissa ---------- *)
Lemma mant_bounds m k : 0 < m -> Z.log2 m + k = 52 -> 0 <= k -> 4503599627370496 <= m * 2 ^ k < 9007199254740992.
Proof.
  intros Hm HL Hk. destruct (Z.log2_spec m Hm) as [Lo Hi]. pose proof (Z.log2_nonneg m).
  assert (T : 0 < 2 ^ k) by (apply Z.pow_pos_nonneg; lia).
  assert (E1 : 2 ^ Z.log2 m * 2 ^ k = 4503599627370496).
  { rewrite <- Z.pow_add_r by lia. rewrite HL. vm_compute. reflexivity. }
  assert (E2 : 2 ^ Z.succ (Z.log2 m) * 2 ^ k = 9007199254740992).
  { rewrite <- Z.pow_add_r by lia. replace (Z.succ (Z.log2 m) + k) with 53 by lia. vm_compute. reflexivity. }
  split; [rewrite <- E1; apply Z.mul_le_mono_nonneg_r; lia|rewrite <- E2; apply Z.mul_lt_mono_pos_r; lia].
Qed.

Lemma testbit_top n P b : 0 <= n -> 2 ^ n = P -> 0 <= b < 2 * P -> Z.testbit b n = (P <=? b).
Proof.
  intros Hn HP Hb. destruct (sign_bit n P b Hn HP Hb) as [A B]. destruct (Z.testbit b n); lia.
Qed.

Lemma widen_decode s m e : 0 < m -> Z.log2 m <= 52 -> -1022 <= Z.log2 m + e <= 1023 ->
  fdecode 64 (fencode 64 (FFin s m e)) = FFin s (m * 2 ^ (52 - Z.log2 m)) (e - (52 - Z.log2 m)).
Proof.
  intros Hm HL Hp. set (L := Z.log2 m) in *. set (k := 52 - L).
  pose proof (mant_bounds m k Hm ltac:(subst k L; lia) ltac:(subst k; lia)) as Hmant.
  unfold fencode. replace (m <=? 0) with false by lia. consts 64. fold L.
  replace (Z.max (L + e) (1 - 1023)) with (L + e) by lia. replace (e - (L + e - 52)) with k by (subst k; lia).
  unfold rne_shift. replace (0 <=? k) with true by (subst k; lia). set (mant := m * 2 ^ k) in *. clearbody mant.
  replace (mant <? 4503599627370496) with false by lia.
  unfold f_inf, f_sign. consts 64.
  replace (Z.min ((L + e + 1023) * 4503599627370496 + (mant - 4503599627370496)) ((2048 - 1) * 4503599627370496))
    with ((L + e + 1023) * 4503599627370496 + (mant - 4503599627370496)) by lia.
  set (sg := if s then 9223372036854775808 else 0).
  assert (Hsg : sg = 0 \/ sg = 9223372036854775808) by (subst sg; destruct s; auto).
  set (b := sg + ((L + e + 1023) * 4503599627370496 + (mant - 4503599627370496))).
  assert (Hb : 0 <= b < 2 * 9223372036854775808) by (subst b; lia).
  unfold fdecode. consts 64.
  rewrite (testbit_top 63 9223372036854775808 b ltac:(lia) ltac:(vm_compute; reflexivity) Hb).
  assert (EE : (b / 4503599627370496) mod 2048 = L + e + 1023) by (subst b; lia).
  assert (EM : b mod 4503599627370496 = mant - 4503599627370496) by (subst b; lia).
  rewrite EE, EM. replace (L + e + 1023 =? 2048 - 1) with false by lia. replace (L + e + 1023 =? 0) with false by lia.
  f_equal; [|lia|subst k; lia].
  subst b sg. destruct s; lia.
Qed.

Lemma widen_decode_zero s e : fdecode 64 (fencode 64 (FFin s 0 e)) = FFin s 0 (-1074).
Proof. destruct s; vm_compute; reflexivity. Qed.

(* ---------- clamping leaves values of the format alone ---------- *)
Lemma clamp_noop_gen Mx Ex m e k : 0 <= m <= Mx -> e <= Ex -> 0 <= k -> mag_gt (m * 2 ^ k) (e - k) Mx Ex = false.
Proof.
  intros Hm He Hk. unfold mag_gt. assert (T : 0 < 2 ^ k) by (apply Z.pow_pos_nonneg; lia).
  destruct (Ex <=? e - k) eqn:C.
  - assert (k = 0) by lia. assert (e = Ex) by lia. subst k e. replace (Ex - 0 - Ex) with 0 by lia. change (2 ^ 0) with 1. lia.
  - replace (Ex - (e - k)) with ((Ex - e) + k) by lia. rewrite Z.pow_add_r by lia.
    assert (U : 1 <= 2 ^ (Ex - e)) by (assert (0 < 2 ^ (Ex - e)) by (apply Z.pow_pos_nonneg; lia); lia).
    assert (m * 2 ^ k <= Mx * 2 ^ k) by (apply Z.mul_le_mono_nonneg_r; lia).
    assert (Mx * 2 ^ k * 1 <= Mx * 2 ^ k * 2 ^ (Ex - e)) by (apply Z.mul_le_mono_nonneg_l; [apply Z.mul_nonneg_nonneg; lia|lia]).
    apply Z.ltb_ge. replace (Mx * (2 ^ (Ex - e) * 2 ^ k)) with (Mx * 2 ^ k * 2 ^ (Ex - e)) by ring. lia.
Qed.

Lemma clamp_noop w s m e k : w = 16 \/ w = 32 \/ w = 64 -> wshape w m e -> 0 <= k ->
  fclamp w (FFin s (m * 2 ^ k) (e - k)) = FFin s (m * 2 ^ k) (e - k).
Proof.
  intros Hw Hs Hk. unfold fclamp. rewrite clamp_noop_gen; [reflexivity| |  |assumption];
    unfold wshape, f_max_m, f_max_e in *; destruct Hw as [ -> | [ -> | -> ] ]; [consts 16|consts 32|consts 64|consts 16|consts 32|consts 64]; lia.
Qed.

(* ---------- narrowing a scaled mantissa gives the same pattern ---------- *)
Ltac enc_scale_tac w :=
  let eb := eval vm_compute in (f_ebits w) in
  let mb := eval vm_compute in (f_mbits w) in
  let bias := eval vm_compute in (2 ^ (eb - 1) - 1) in
  let P := eval vm_compute in (2 ^ mb) in
  intros s m e Hs Hm; unfold wshape in Hs; consts w;
  set (L := Z.log2 m) in *; set (k := 52 - L);
  assert (HL : 0 <= L < mb + 1) by (subst L; apply (log2_small m (mb + 1) (2 * P)); [vm_compute; reflexivity|lia|lia]);
  pose proof (mant_bounds m k Hm ltac:(subst k L; lia) ltac:(subst k; lia)) as Hmant;
  assert (T : 0 < 2 ^ k) by (apply Z.pow_pos_nonneg; subst k; lia);
  unfold fencode; replace (m * 2 ^ k <=? 0) with false by lia; replace (m <=? 0) with false by lia; consts w;
  rewrite (log2_exact (m * 2 ^ k) 52 4503599627370496 ltac:(vm_compute; reflexivity) ltac:(lia) ltac:(lia)); fold L;
  replace (52 + (e - k)) with (L + e) by (subst k; lia);
  assert (J : e - (Z.max (L + e) (1 - bias) - mb) = 0);
  [ destruct Hs as (Hm2 & _ & [[Hsm He]|[Hno He]]);
    [ assert (L < mb) by (subst L; apply (log2_small m mb P); [vm_compute; reflexivity|lia|lia]); lia
    | assert (L = mb) by (subst L; apply (log2_exact m mb P); [vm_compute; reflexivity|lia|lia]); lia ]
  | replace (e - k - (Z.max (L + e) (1 - bias) - mb)) with (- k) by lia; rewrite J;
    unfold rne_shift; replace (0 <=? - k) with false by (subst k; lia); change (0 <=? 0) with true; cbv iota;
    replace (- - k) with k by lia; rewrite Z.div_mul by lia; rewrite Z.mod_mul by lia;
    replace (2 * 0 <? 2 ^ k) with true by lia; change (2 ^ 0) with 1; replace (m * 1) with m by lia; reflexivity ].

Lemma enc_scale_16 : forall s m e, wshape 16 m e -> 0 < m ->
  fencode 16 (FFin s (m * 2 ^ (52 - Z.log2 m)) (e - (52 - Z.log2 m))) = fencode 16 (FFin s m e).
Proof. enc_scale_tac 16. Qed.
Lemma enc_scale_32 : forall s m e, wshape 32 m e -> 0 < m ->
  fencode 32 (FFin s (m * 2 ^ (52 - Z.log2 m)) (e - (52 - Z.log2 m))) = fencode 32 (FFin s m e).
Proof. enc_scale_tac 32. Qed.

(* ---------- every non-NaN pattern is a fixed point of widen-then-cast ---------- *)
Lemma clamp_noop0 w s m e : w = 16 \/ w = 32 \/ w = 64 -> wshape w m e -> fclamp w (FFin s m e) = FFin s m e.
Proof.
  intros Hw Hs. pose proof (clamp_noop w s m e 0 Hw Hs ltac:(lia)) as H. change (2 ^ 0) with 1 in H.
  replace (m * 1) with m in H by lia. replace (e - 0) with e in H by lia. exact H.
Qed.

Lemma apply_cast_noop c w x : (match c with Sat => fclamp w x | Trunc => x end) = x -> fencode w (match c with Sat => fclamp w x | Trunc => x end) = fencode w x.
Proof. intros H. rewrite H. reflexivity. Qed.

Lemma cast_widen_narrow w c bits : w = 16 \/ w = 32 -> 0 <= bits < 2 ^ w -> fdecode w bits <> FNaN -> fcast c w (fwiden w bits) = bits.
Proof.
  intros Hw Hb Hn. unfold fwiden, fcast.
  assert (D : dec_enc_stmt w) by (destruct Hw as [ -> | -> ]; [apply dec_enc_16|apply dec_enc_32]).
  assert (Sc : forall s m e, wshape w m e -> 0 < m ->
               fencode w (FFin s (m * 2 ^ (52 - Z.log2 m)) (e - (52 - Z.log2 m))) = fencode w (FFin s m e))
    by (destruct Hw as [ -> | -> ]; [apply enc_scale_16|apply enc_scale_32]).
  specialize (D bits Hb). destruct (fdecode w bits) as [|s|s m e] eqn:E; [congruence| |].
  - rewrite <- D. destruct Hw as [ -> | -> ]; destruct s; destruct c; vm_compute; reflexivity.
  - destruct D as [D Sh]. destruct (Z.eq_dec m 0) as [->|Hm0].
    + rewrite widen_decode_zero. rewrite <- D. destruct Hw as [ -> | -> ]; destruct s; destruct c; vm_compute; reflexivity.
    + assert (Hm : 0 < m) by (unfold wshape in Sh; lia).
      assert (Bd : Z.log2 m <= 52 /\ -1022 <= Z.log2 m + e <= 1023).
      { pose proof (Z.log2_nonneg m). unfold wshape in Sh. destruct Hw as [ -> | -> ]; [consts 16|consts 32].
        - destruct (log2_small m (10 + 1) (2 * 1024) ltac:(vm_compute; reflexivity) ltac:(lia) ltac:(lia)). lia.
        - destruct (log2_small m (23 + 1) (2 * 8388608) ltac:(vm_compute; reflexivity) ltac:(lia) ltac:(lia)). lia. }
      destruct Bd as [B1 B2]. rewrite (widen_decode s m e Hm B1 B2).
      rewrite apply_cast_noop.
      * rewrite Sc by assumption. exact D.
      * destruct c; [|reflexivity]. apply clamp_noop; [destruct Hw; auto|assumption|lia].
Qed.

Lemma cast_widen_64 c bits : 0 <= bits < 2 ^ 64 -> fdecode 64 bits <> FNaN -> fcast c 64 (fwiden 64 bits) = bits.
Proof.
  intros Hb Hn. unfold fwiden, fcast. pose proof (dec_enc_64 bits Hb) as D.
  destruct (fdecode 64 bits) as [|s|s m e] eqn:E; [congruence| |].
  - rewrite D, E. rewrite <- D. destruct s; destruct c; vm_compute; reflexivity.
  - destruct D as [D Sh]. rewrite D, E. rewrite apply_cast_noop; [exact D|].
    destruct c; [|reflexivity]. apply clamp_noop0; auto.
Qed.

(* C06_cast_float, first part: every value of the field's format (NaN aside: one canonical NaN) survives the cast unchanged *)
Theorem cast_representable w c bits : w = 16 \/ w = 32 \/ w = 64 -> 0 <= bits < 2 ^ w -> fdecode w bits <> FNaN ->
  fcast c w (fwiden w bits) = bits.
Proof.
  intros [Hw|[Hw|Hw]] Hb Hn; [apply cast_widen_narrow; auto|apply cast_widen_narrow; auto|subst w; apply cast_widen_64; auto].
Qed.

Theorem fwiden_idem w c bits : w = 16 \/ w = 32 \/ w = 64 -> 0 <= bits < 2 ^ w ->
  fwiden w (fcast c w (fwiden w bits)) = fwiden w bits.
Proof.
  intros Hw Hb. destruct (fdecode w bits) as [|s|s m e] eqn:E.
  - unfold fwiden at 2 3. rewrite E. destruct Hw as [ -> | [ -> | -> ] ]; destruct c; vm_compute; reflexivity.
  - rewrite cast_representable; auto. congruence.
  - rewrite cast_representable; auto. congruence.
Qed.

(* NaN: any NaN pattern is cast to the canonical quiet NaN of the format; infinities pass in both modes *)
Lemma cast_nan c w : w = 16 \/ w = 32 \/ w = 64 -> fcast c w (fencode 64 FNaN) = f_nan w.
Proof. intros [ -> | [ -> | -> ] ]; destruct c; vm_compute; reflexivity. Qed.

Lemma cast_inf c w s : w = 16 \/ w = 32 \/ w = 64 -> fcast c w (fencode 64 (FInf s)) = fencode w (FInf s).
Proof. intros [ -> | [ -> | -> ] ]; destruct c; destruct s; vm_compute; reflexivity. Qed.
