(* Top-level statements about pydsdl.serialize / pydsdl.deserialize of the model. *)
From Coq Require Import ZArith List Bool Lia ZifyBool.
From PV Require Import BLS.Model Layout.Types Layout.Spec Layout.Proofs Layout.ProofsSpec.
From PV Require Import Serdes.Float Serdes.Utf8 Serdes.Model Serdes.Bits Serdes.BitsProofs Serdes.WriterProofs
  Serdes.ReaderProofs Serdes.Spec Serdes.SerProofs Serdes.EncProofs Serdes.DeserProofs.
Import ListNotations.
Open Scope Z_scope.

Ltac Zify.zify_post_hook ::= Z.to_euclidean_division_equations.

(* the header flag may only be given for a delimited type *)
Definition hdr_ok (t : ty) (hdr : bool) : bool := match t with TDelim _ _ => true | _ => negb hdr end.

Lemma is_composite_cases t : is_composite t = true ->
  (exists nm fs, t = TStruct nm fs) \/ (exists nm fs, t = TUnion nm fs) \/ (exists i ext, t = TDelim i ext).
Proof. destruct t; try discriminate; intros _; eauto 6. Qed.

Lemma spec_enc_mod8 t v hdr : wft t = true -> is_composite t = true -> zlen (spec_enc t v hdr) mod 8 = 0.
Proof.
  intros Hwf Hc. destruct t; try discriminate; cbn [spec_enc].
  - apply enc_composite_mod8. reflexivity.
  - apply enc_composite_mod8. reflexivity.
  - cbn [wft] in Hwf. apply andb_prop in Hwf. destruct Hwf as [Hwf _]. apply andb_prop in Hwf. destruct Hwf as [Hwf _].
    apply andb_prop in Hwf. destruct Hwf as [Hwi Hci]. pose proof (enc_composite_mod8 t v Hci).
    destruct hdr; [|assumption]. cbn [enc]. rewrite zlen_app, zlen_low_bits, (header_width_delim t Hci).
    change (Z.of_nat (Z.to_nat 32)) with 32. lia.
Qed.

(* C06_wire_spec *)
Theorem serialize_spec t v hdr : wft t = true -> is_composite t = true -> hdr_ok t hdr = true -> validb t v = true ->
  exists bytes, serialize t v hdr = Ok bytes /\ packs bytes (spec_enc t v hdr).
Proof.
  intros Hwf Hc Hh Hv. pose proof (spec_enc_mod8 t v hdr Hwf Hc) as M8.
  assert (G : forall t' , wft t' = true -> validb t' v = true -> zlen (enc t' v 0) mod 8 = 0 ->
              exists w, ser t' v w_new = Ok w /\ packs (w_finish w) (enc t' v 0)).
  { intros t' Hw' Hv' M. destruct (ser_enc t' Hw' v w_new [] Hv' WR_new) as (w & E & W). exists w. split; [exact E|].
    apply WR_packs; [exact W|exact M]. }
  destruct t; try discriminate; cbn [hdr_ok] in Hh; try (destruct hdr; [discriminate|]); cbn [spec_enc serialize] in *.
  - destruct (G _ Hwf Hv M8) as (w & E & P). rewrite E. eauto.
  - destruct (G _ Hwf Hv M8) as (w & E & P). rewrite E. eauto.
  - destruct hdr.
    + destruct (G _ Hwf Hv M8) as (w & E & P). rewrite E. eauto.
    + cbn [wft] in Hwf. apply andb_prop in Hwf. destruct Hwf as [Hwf _]. apply andb_prop in Hwf. destruct Hwf as [Hwf _].
      apply andb_prop in Hwf. destruct Hwf as [Hwi _]. cbn [validb] in Hv. apply andb_prop in Hv. destruct Hv as [Hv _].
      destruct (G _ Hwi Hv M8) as (w & E & P). rewrite E. eauto.
Qed.

Lemma deser_from_packs t v bytes extra : wft t = true -> serializable t = true -> validb t v = true ->
  packs bytes (enc t v 0) -> bytes_ok extra ->
  exists r', deser t (r_new (bytes ++ extra)) = Ok (canon t v, r').
Proof.
  intros Hwf Hsz Hv (Ob & Lb & Gb) Oe.
  pose proof (deser_enc t Hwf (or_introl Hsz) v (r_new (bytes ++ extra)) [] Hv) as H. cbn [roff r_new] in H.
  eexists. apply H.
  - split; [apply bytes_ok_app; assumption|]. cbn. lia.
  - apply Z.mod_0_l. pose proof (align_pos t). lia.
  - rewrite app_nil_r. intros j Hj. unfold rbit, within. cbn [rlimit r_new rdata roff rstart andb]. replace (0 + j) with j by lia.
    rewrite getbit_app_l by lia. apply Gb. lia.
  - unfold rend. cbn [rlimit r_new rdata]. rewrite zlen_app. pose proof (zlen_nonneg extra). lia.
Qed.

(* C06_roundtrip and C07_truncation_ser in one statement: whatever follows the representation is ignored *)
Theorem roundtrip_junk t v hdr bytes extra :
  wft t = true -> serializable t = true -> is_composite t = true -> hdr_ok t hdr = true -> validb t v = true ->
  bytes_ok extra -> serialize t v hdr = Ok bytes -> deserialize t (bytes ++ extra) hdr = Ok (canon t v).
Proof.
  intros Hwf Hsz Hc Hh Hv Oe Hs.
  destruct (serialize_spec t v hdr Hwf Hc Hh Hv) as (bytes' & E & P). rewrite Hs in E. inversion E; subst bytes'. clear E.
  destruct t; try discriminate; cbn [hdr_ok] in Hh; try (destruct hdr; [discriminate|]); cbn [spec_enc deserialize] in *.
  - destruct (deser_from_packs _ v bytes extra Hwf Hsz Hv P Oe) as (r' & E). rewrite E. reflexivity.
  - destruct (deser_from_packs _ v bytes extra Hwf Hsz Hv P Oe) as (r' & E). rewrite E. reflexivity.
  - destruct hdr.
    + destruct (deser_from_packs _ v bytes extra Hwf Hsz Hv P Oe) as (r' & E). rewrite E. reflexivity.
    + cbn [wft] in Hwf. apply andb_prop in Hwf. destruct Hwf as [Hwf _]. apply andb_prop in Hwf. destruct Hwf as [Hwf _].
      apply andb_prop in Hwf. destruct Hwf as [Hwi _]. cbn [validb] in Hv. apply andb_prop in Hv. destruct Hv as [Hv _].
      cbn [serializable] in Hsz.
      destruct (deser_from_packs _ v bytes extra Hwi Hsz Hv P Oe) as (r' & E). rewrite E. reflexivity.
Qed.

Corollary roundtrip t v hdr bytes :
  wft t = true -> serializable t = true -> is_composite t = true -> hdr_ok t hdr = true -> validb t v = true ->
  serialize t v hdr = Ok bytes -> deserialize t bytes hdr = Ok (canon t v).
Proof.
  intros. rewrite <- (app_nil_r bytes). eapply roundtrip_junk; eauto. constructor.
Qed.

(* serialize succeeds exactly on valid values is not claimed; it does succeed on every valid value *)
Corollary serialize_total t v hdr : wft t = true -> is_composite t = true -> hdr_ok t hdr = true -> validb t v = true ->
  exists bytes, serialize t v hdr = Ok bytes.
Proof. intros. destruct (serialize_spec t v hdr) as (b & E & _); eauto. Qed.
