(* C07_truncation in general: if deserialization of b succeeds and ends inside b, anything appended to b is ignored
   (also for representations that serialize would never produce, e.g. with non-zero padding bits). *)
From Coq Require Import ZArith List Bool Lia ZifyBool.
From PV Require Import BLS.Model Layout.Types Layout.Spec Layout.Proofs Layout.ProofsSpec.
From PV Require Import Serdes.Model Serdes.Bits Serdes.BitsProofs Serdes.WriterProofs Serdes.ReaderProofs Serdes.Spec Serdes.SerProofs
  Serdes.EncProofs Serdes.DeserProofs Serdes.DeserSim.
Import ListNotations.
Open Scope Z_scope.

Ltac Zify.zify_post_hook ::= Z.to_euclidean_division_equations.

Lemma read_adv r n : rok r -> 0 <= n -> 0 <= fst (read_bits r n) /\ snd (read_bits r n) = r_adv r n.
Proof. intros [A B] Hn. destruct (read_bits_spec r n A Hn B) as (S1 & R & _). split; [lia|assumption]. Qed.

(* ---------- the reader only moves forward ---------- *)
Definition mono_ok (t : ty) : Prop := forall r v r', rok r -> deser t r = Ok (v, r') -> roff r <= roff r' /\ rok r'.

Lemma mono_elems e : mono_ok e -> forall n r vs r', rok r -> deser_elems (deser e) n r = Ok (vs, r') -> roff r <= roff r' /\ rok r'.
Proof.
  intros He. induction n as [|n IH]; intros r vs r' Hr E; cbn [deser_elems] in E.
  - inversion E; subst. split; [lia|assumption].
  - destruct (deser e r) as [[v ra]|] eqn:E1; [|discriminate].
    destruct (deser_elems (deser e) n ra) as [[vs' rb]|] eqn:E2; [|discriminate]. inversion E; subst.
    destruct (He _ _ _ Hr E1) as [M1 R1]. destruct (IH _ _ _ R1 E2) as [M2 R2]. split; [lia|assumption].
Qed.

Lemma rok_align r a : rok r -> 1 <= a -> rok (r_align_to r a) /\ roff r <= roff (r_align_to r a).
Proof.
  intros Hr Ha. rewrite r_align_to_adv by assumption. pose proof (pad_len_range a (roff r) Ha).
  split; [apply rok_adv; [assumption|lia]|rewrite roff_adv; lia].
Qed.

Lemma mono_fields fs : Forall (fun f => mono_ok (snd f)) fs -> all_fields_ok wft fs = true ->
  forall r vs r', rok r -> deser_fields deser fs r = Ok (vs, r') -> roff r <= roff r' /\ rok r'.
Proof.
  induction 1 as [|[nm t] fr Ht Hfr IH]; intros Hwf r vs r' Hr E; cbn [deser_fields] in E.
  - inversion E; subst. split; [lia|assumption].
  - unfold all_fields_ok in Hwf. cbn [forallb snd] in Hwf. apply andb_prop in Hwf. destruct Hwf as [Hwt Hwr]. cbn [snd] in Ht.
    destruct (rok_align r (align t) Hr (align_pos t)) as [Ra Ma]. destruct nm as [nm|].
    + destruct (deser t (r_align_to r (align t))) as [[v ra]|] eqn:E1; [|discriminate].
      destruct (deser_fields deser fr ra) as [[vs' rb]|] eqn:E2; [|discriminate]. inversion E; subst.
      destruct (Ht _ _ _ Ra E1) as [M1 R1]. destruct (IH Hwr _ _ _ R1 E2) as [M2 R2]. split; [lia|assumption].
    + assert (Hvw : 0 <= void_width t). { destruct t; cbn [void_width]; try lia. simpl in Hwt. lia. }
      destruct (read_adv _ (void_width t) Ra Hvw) as [_ S1]. rewrite S1 in E.
      destruct (IH Hwr _ _ _ (rok_adv _ _ Ra Hvw) E) as [M2 R2]. rewrite roff_adv in M2. split; [lia|assumption].
Qed.

Lemma mono_variant fs : Forall (fun f => mono_ok (snd f)) fs ->
  forall k r v r', rok r -> deser_variant deser fs k r = Ok (v, r') -> roff r <= roff r' /\ rok r'.
Proof.
  induction 1 as [|f fr Hf Hfr IH]; intros k r v r' Hr E; cbn [deser_variant] in E; [discriminate|].
  destruct k as [|k]; [apply (Hf _ _ _ Hr E)|apply (IH _ _ _ _ Hr E)].
Qed.

Lemma mono_read_bytes k : forall r, rok r -> snd (read_bytes k r) = r_adv r (8 * Z.of_nat k).
Proof.
  induction k as [|k IH]; intros r Hr; cbn [read_bytes].
  - cbn [snd]. symmetry. apply r_adv_0.
  - destruct (read_adv r 8 Hr ltac:(lia)) as [_ S1]. destruct (read_bits r 8) as [b r1]. cbn [snd] in S1. subst r1.
    specialize (IH (r_adv r 8) (rok_adv r 8 Hr ltac:(lia))). destruct (read_bytes k (r_adv r 8)) as [bs r2]. cbn [snd] in *. subst r2.
    rewrite r_adv_adv. f_equal. lia.
Qed.

Theorem deser_mono : forall t, wft t = true -> mono_ok t.
Proof.
  induction t as [p|wd|e n IHe|e n IHe|nm fs IHfs|nm fs IHfs|i ext IHi] using ty_ind'; intros Hwf; unfold mono_ok; intros r v r' Hr E;
    pose proof Hwf as Hwf0; cbn [wft] in Hwf; cbn [deser] in E.
  - inversion E as [E']. clear E. pose proof (prim_width_pos p Hwf) as Hp.
    assert (G : forall n x ra, 0 <= n -> read_bits r n = (x, ra) -> roff r <= roff ra /\ rok ra).
    { intros n x ra Hn Er. destruct (read_adv r n Hr Hn) as [_ S1]. rewrite Er in S1. cbn [snd] in S1. subst ra.
      split; [rewrite roff_adv; lia|apply rok_adv; assumption]. }
    destruct p as [ | wd c | wd | wd c | | ]; cbn [deser_prim prim_width] in *.
    + destruct (read_bits r 1) as [x ra] eqn:Er. inversion E'; subst. apply (G 1 x r'); [lia|assumption].
    + destruct (read_bits r wd) as [x ra] eqn:Er. inversion E'; subst. apply (G wd x r'); [lia|assumption].
    + destruct (read_bits r wd) as [x ra] eqn:Er. inversion E'; subst. apply (G wd x r'); [lia|assumption].
    + pose proof (mono_read_bytes (Z.to_nat (wd / 8)) r Hr) as S1.
      destruct (read_bytes (Z.to_nat (wd / 8)) r) as [bs ra]. cbn [snd] in S1. inversion E'; subst.
      split; [rewrite roff_adv; lia|apply rok_adv; [assumption|lia]].
    + destruct (read_bits r 8) as [x ra] eqn:Er. inversion E'; subst. apply (G 8 x r'); [lia|assumption].
    + destruct (read_bits r 8) as [x ra] eqn:Er. inversion E'; subst. apply (G 8 x r'); [lia|assumption].
  - destruct (read_adv r wd Hr ltac:(lia)) as [_ S1]. rewrite S1 in E. inversion E; subst.
    split; [rewrite roff_adv; lia|apply rok_adv; [assumption|lia]].
  - apply andb_prop in Hwf. destruct Hwf as [Hwe Hn].
    destruct (deser_elems (deser e) (Z.to_nat n) r) as [[vs ra]|] eqn:E1; [|discriminate].
    destruct (finish_array e vs); [|discriminate]. inversion E; subst. apply (mono_elems e (IHe Hwe) _ _ _ _ Hr E1).
  - pose proof (prefix_width_mod8 e n Hwf0) as [_ P2].
    apply andb_prop in Hwf. destruct Hwf as [Hwf Hb]. apply andb_prop in Hwf. destruct Hwf as [Hwe Hn].
    destruct (read_adv r (prefix_width (align e) n) Hr ltac:(lia)) as [_ S1].
    destruct (read_bits r (prefix_width (align e) n)) as [len r0]. cbn [snd] in S1. subst r0.
    destruct (n <? len); [discriminate|].
    destruct (deser_elems (deser e) (Z.to_nat len) (r_adv r (prefix_width (align e) n))) as [[vs ra]|] eqn:E1; [|discriminate].
    destruct (finish_array e vs); [|discriminate]. inversion E; subst.
    destruct (mono_elems e (IHe Hwe) _ _ _ _ (rok_adv r (prefix_width (align e) n) Hr ltac:(lia)) E1) as [M R]. rewrite roff_adv in M.
    split; [lia|assumption].
  - assert (IH' : Forall (fun f => mono_ok (snd f)) fs).
    { apply Forall_forall. intros f Hf. apply (proj1 (Forall_forall _ _) IHfs f Hf).
      unfold all_fields_ok in Hwf. rewrite forallb_forall in Hwf. apply Hwf. assumption. }
    destruct (deser_fields deser fs r) as [[vs ra]|] eqn:E1; [|discriminate]. inversion E; subst.
    destruct (mono_fields fs IH' Hwf _ _ _ Hr E1) as [M R].
    destruct (rok_align ra (max_align align fs) R ltac:(rewrite max_align_fields; lia)) as [R2 M2]. split; [lia|assumption].
  - pose proof (tag_width_mod8 nm fs Hwf0) as [_ T2].
    apply andb_prop in Hwf. destruct Hwf as [Hwf _]. apply andb_prop in Hwf. destruct Hwf as [Hwf _].
    assert (IH' : Forall (fun f => mono_ok (snd f)) fs).
    { apply Forall_forall. intros f Hf. apply (proj1 (Forall_forall _ _) IHfs f Hf).
      unfold all_fields_ok in Hwf. rewrite forallb_forall in Hwf. apply Hwf. assumption. }
    destruct (read_adv r (union_tag_width fs) Hr ltac:(lia)) as [_ S1].
    destruct (read_bits r (union_tag_width fs)) as [tag r0]. cbn [snd] in S1. subst r0.
    destruct (zlen fs <=? tag); [discriminate|].
    destruct (deser_variant deser fs (Z.to_nat tag) (r_adv r (union_tag_width fs))) as [[vv ra]|] eqn:E1; [|discriminate]. inversion E; subst.
    destruct (mono_variant fs IH' _ _ _ _ (rok_adv r (union_tag_width fs) Hr ltac:(lia)) E1) as [M R]. rewrite roff_adv in M.
    destruct (rok_align ra (max_align align fs) R ltac:(rewrite max_align_fields; lia)) as [R2 M2]. split; [lia|assumption].
  - apply andb_prop in Hwf. destruct Hwf as [Hwf _]. apply andb_prop in Hwf. destruct Hwf as [Hwf _].
    apply andb_prop in Hwf. destruct Hwf as [Hwi Hc]. rewrite (header_width_delim i Hc) in *.
    destruct (read_adv r 32 Hr ltac:(lia)) as [Hx S1].
    destruct (read_bits r 32) as [nb r0]. cbn [fst snd] in *. subst r0.
    destruct (remaining_bits (r_adv r 32) <? nb * 8); [discriminate|].
    unfold bounded_subreader in E. destruct (deser i _) as [[vi ra]|]; [|discriminate]. inversion E; subst.
    rewrite r_adv_adv, roff_adv. split; [lia|apply rok_adv; [assumption|lia]].
Qed.

(* ---------- agreement below a bound ---------- *)
Definition RSB (B : Z) (r1 r2 : reader) : Prop :=
  rok r1 /\ rok r2 /\ roff r1 = roff r2 /\ (forall j, roff r1 <= j < B -> rbit r1 j = rbit r2 j) /\ rend r1 <= rend r2.

Lemma RSB_adv B r1 r2 n : RSB B r1 r2 -> 0 <= n -> RSB B (r_adv r1 n) (r_adv r2 n).
Proof.
  intros (A & C & D & E & F) Hn. repeat split; try (apply rok_adv; assumption); try apply A; try apply C.
  - rewrite !roff_adv. lia.
  - intros j Hj. rewrite !rbit_adv. apply E. rewrite roff_adv in Hj. lia.
  - rewrite !rend_adv. assumption.
Qed.

Lemma RSB_align B r1 r2 a : RSB B r1 r2 -> 1 <= a -> RSB B (r_align_to r1 a) (r_align_to r2 a).
Proof.
  intros H Ha. rewrite !r_align_to_adv by assumption. destruct H as (A & C & D & E & F). rewrite <- D.
  apply RSB_adv; [repeat split; try apply A; try apply C; auto|]. apply pad_len_range. assumption.
Qed.

Lemma RSB_read B r1 r2 n : RSB B r1 r2 -> 0 <= n -> roff r1 + n <= B ->
  exists x, 0 <= x /\ read_bits r1 n = (x, r_adv r1 n) /\ read_bits r2 n = (x, r_adv r2 n).
Proof.
  intros (A & C & D & E & F) Hn Hb.
  destruct (read_bits_spec r1 n (proj1 A) Hn (proj2 A)) as (S1 & R1 & T1).
  destruct (read_bits_spec r2 n (proj1 C) Hn (proj2 C)) as (S2 & R2 & T2).
  exists (fst (read_bits r1 n)). split; [lia|].
  assert (Eq : fst (read_bits r1 n) = fst (read_bits r2 n)).
  { apply Z.bits_inj'. intros k Hk. destruct (Z.lt_ge_cases k n).
    - rewrite T1, T2 by lia. rewrite <- D. apply E. lia.
    - rewrite (bits_above n), (bits_above n) by lia. reflexivity. }
  split.
  - rewrite (surjective_pairing (read_bits r1 n)) at 1. rewrite S1. reflexivity.
  - rewrite (surjective_pairing (read_bits r2 n)) at 1. rewrite S2, Eq. reflexivity.
Qed.

Definition trunc_ok (t : ty) : Prop := forall B r1 r2 v r1', RSB B r1 r2 -> deser t r1 = Ok (v, r1') -> roff r1' <= B ->
  exists r2', deser t r2 = Ok (v, r2') /\ RSB B r1' r2'.

Lemma trunc_elems e : trunc_ok e -> mono_ok e -> forall n B r1 r2 vs r1', RSB B r1 r2 -> deser_elems (deser e) n r1 = Ok (vs, r1') -> roff r1' <= B ->
  exists r2', deser_elems (deser e) n r2 = Ok (vs, r2') /\ RSB B r1' r2'.
Proof.
  intros He Me. induction n as [|n IH]; intros B r1 r2 vs r1' H E Hb; cbn [deser_elems] in *.
  - inversion E; subst. eauto.
  - destruct (deser e r1) as [[v ra]|] eqn:E1; [|discriminate].
    destruct (deser_elems (deser e) n ra) as [[vs' rb]|] eqn:E2; [|discriminate]. inversion E; subst.
    destruct (Me _ _ _ (proj1 H) E1) as [_ Ra]. destruct (mono_elems e Me _ _ _ _ Ra E2) as [M2 _].
    destruct (He _ _ _ _ _ H E1 ltac:(lia)) as (ra2 & F1 & H1). rewrite F1.
    destruct (IH _ _ _ _ _ H1 E2 Hb) as (rb2 & F2 & H2). rewrite F2. eauto.
Qed.

Lemma trunc_fields fs : Forall (fun f => trunc_ok (snd f)) fs -> all_fields_ok wft fs = true ->
  forall B r1 r2 vs r1', RSB B r1 r2 -> deser_fields deser fs r1 = Ok (vs, r1') -> roff r1' <= B ->
  exists r2', deser_fields deser fs r2 = Ok (vs, r2') /\ RSB B r1' r2'.
Proof.
  induction 1 as [|[nm t] fr Ht Hfr IH]; intros Hwf B r1 r2 vs r1' H E Hb; cbn [deser_fields] in *.
  - inversion E; subst. eauto.
  - pose proof Hwf as Hwf0. unfold all_fields_ok in Hwf. cbn [forallb snd] in Hwf. apply andb_prop in Hwf. destruct Hwf as [Hwt Hwr]. cbn [snd] in Ht.
    assert (Mfr : Forall (fun f => mono_ok (snd f)) fr).
    { apply Forall_forall. intros f Hf. apply deser_mono. rewrite forallb_forall in Hwr. apply Hwr. assumption. }
    pose proof (RSB_align B r1 r2 (align t) H (align_pos t)) as Ha. destruct nm as [nm|].
    + destruct (deser t (r_align_to r1 (align t))) as [[v ra]|] eqn:E1; [|discriminate].
      destruct (deser_fields deser fr ra) as [[vs' rb]|] eqn:E2; [|discriminate]. inversion E; subst.
      destruct (deser_mono t Hwt _ _ _ (proj1 Ha) E1) as [_ Ra]. destruct (mono_fields fr Mfr Hwr _ _ _ Ra E2) as [M2 _].
      destruct (Ht _ _ _ _ _ Ha E1 ltac:(lia)) as (ra2 & F1 & H1). rewrite F1.
      destruct (IH Hwr _ _ _ _ _ H1 E2 Hb) as (rb2 & F2 & H2). rewrite F2. eauto.
    + assert (Hvw : 0 <= void_width t). { destruct t; cbn [void_width]; try lia. simpl in Hwt. lia. }
      destruct (read_adv _ (void_width t) (proj1 Ha) Hvw) as [_ S1].
      destruct (read_adv _ (void_width t) (proj1 (proj2 Ha)) Hvw) as [_ S2]. rewrite S1 in E. rewrite S2.
      apply (IH Hwr _ _ _ _ _ (RSB_adv _ _ _ _ Ha Hvw) E Hb).
Qed.

Lemma trunc_variant fs : Forall (fun f => trunc_ok (snd f)) fs ->
  forall k B r1 r2 v r1', RSB B r1 r2 -> deser_variant deser fs k r1 = Ok (v, r1') -> roff r1' <= B ->
  exists r2', deser_variant deser fs k r2 = Ok (v, r2') /\ RSB B r1' r2'.
Proof.
  induction 1 as [|f fr Hf Hfr IH]; intros k B r1 r2 v r1' H E Hb; cbn [deser_variant] in *; [discriminate|].
  destruct k as [|k]; [apply (Hf _ _ _ _ _ H E Hb)|apply (IH _ _ _ _ _ _ H E Hb)].
Qed.

Theorem deser_trunc : forall t, wft t = true -> trunc_ok t.
Proof.
  induction t as [p|wd|e n IHe|e n IHe|nm fs IHfs|nm fs IHfs|i ext IHi] using ty_ind'; intros Hwf; unfold trunc_ok; intros B r1 r2 v r1' H E Hb;
    pose proof Hwf as Hwf0; cbn [wft] in Hwf; cbn [deser] in *.
  - inversion E as [E']. clear E. pose proof (prim_width_pos p Hwf) as Hp.
    assert (G : forall n x ra, 0 <= n -> read_bits r1 n = (x, ra) -> roff ra <= B ->
                exists rb, read_bits r2 n = (x, rb) /\ RSB B ra rb).
    { intros n x ra Hn Er Hra. destruct (read_adv r1 n (proj1 H) Hn) as [_ S1]. rewrite Er in S1. cbn [snd] in S1. subst ra.
      rewrite roff_adv in Hra. destruct (RSB_read B r1 r2 n H Hn Hra) as (y & _ & A1 & A2). rewrite Er in A1. inversion A1; subst y.
      eexists; split; [exact A2|]. apply RSB_adv; assumption. }
    destruct p as [ | wd c | wd | wd c | | ]; cbn [deser_prim prim_width] in *.
    + destruct (read_bits r1 1) as [x ra] eqn:Er. inversion E'; subst. destruct (G 1 x r1' ltac:(lia) Er Hb) as (rb & A & R). rewrite A. eauto.
    + destruct (read_bits r1 wd) as [x ra] eqn:Er. inversion E'; subst. destruct (G wd x r1' ltac:(lia) Er Hb) as (rb & A & R). rewrite A. eauto.
    + destruct (read_bits r1 wd) as [x ra] eqn:Er. inversion E'; subst. destruct (G wd x r1' ltac:(lia) Er Hb) as (rb & A & R). rewrite A. eauto.
    + assert (Gb : forall k ra rb, RSB B ra rb -> roff ra + 8 * Z.of_nat k <= B ->
                     fst (read_bytes k ra) = fst (read_bytes k rb) /\ RSB B (snd (read_bytes k ra)) (snd (read_bytes k rb))).
      { induction k as [|k IH]; intros ra rb Hab Hk; cbn [read_bytes]; [auto|].
        destruct (RSB_read B ra rb 8 Hab ltac:(lia) ltac:(lia)) as (x & _ & A1 & A2). rewrite A1, A2.
        destruct (IH _ _ (RSB_adv B _ _ 8 Hab ltac:(lia)) ltac:(rewrite roff_adv; lia)) as [G1 G2].
        destruct (read_bytes k (r_adv ra 8)) as [bs1 ra']. destruct (read_bytes k (r_adv rb 8)) as [bs2 rb']. cbn [fst snd] in *.
        subst. auto. }
      pose proof (mono_read_bytes (Z.to_nat (wd / 8)) r1 (proj1 H)) as S1.
      destruct (read_bytes (Z.to_nat (wd / 8)) r1) as [bs1 ra] eqn:Er. cbn [snd] in S1. inversion E'; subst.
      rewrite roff_adv in Hb. destruct (Gb (Z.to_nat (wd / 8)) r1 r2 H Hb) as [G1 G2]. rewrite Er in G1, G2. cbn [fst snd] in *.
      destruct (read_bytes (Z.to_nat (wd / 8)) r2) as [bs2 rb]. cbn [fst snd] in *. subst. eauto.
    + destruct (read_bits r1 8) as [x ra] eqn:Er. inversion E'; subst. destruct (G 8 x r1' ltac:(lia) Er Hb) as (rb & A & R). rewrite A. eauto.
    + destruct (read_bits r1 8) as [x ra] eqn:Er. inversion E'; subst. destruct (G 8 x r1' ltac:(lia) Er Hb) as (rb & A & R). rewrite A. eauto.
  - destruct (read_adv r1 wd (proj1 H) ltac:(lia)) as [_ S1]. destruct (read_adv r2 wd (proj1 (proj2 H)) ltac:(lia)) as [_ S2].
    rewrite S1 in E. rewrite S2. inversion E; subst. eexists; split; [reflexivity|]. apply RSB_adv; [assumption|lia].
  - apply andb_prop in Hwf. destruct Hwf as [Hwe Hn].
    destruct (deser_elems (deser e) (Z.to_nat n) r1) as [[vs ra]|] eqn:E1; [|discriminate].
    destruct (finish_array e vs) eqn:Ef; [|discriminate]. inversion E; subst.
    destruct (trunc_elems e (IHe Hwe) (deser_mono e Hwe) _ _ _ _ _ _ H E1 Hb) as (rb & F1 & H1). rewrite F1, Ef. eauto.
  - pose proof (prefix_width_mod8 e n Hwf0) as [_ P2].
    apply andb_prop in Hwf. destruct Hwf as [Hwf Hbl]. apply andb_prop in Hwf. destruct Hwf as [Hwe Hn].
    set (pw := prefix_width (align e) n) in *.
    destruct (read_adv r1 pw (proj1 H) ltac:(lia)) as [_ S1].
    destruct (read_bits r1 pw) as [len r0] eqn:Er. cbn [snd] in S1. subst r0.
    destruct (n <? len) eqn:C; [discriminate|].
    destruct (deser_elems (deser e) (Z.to_nat len) (r_adv r1 pw)) as [[vs ra]|] eqn:E1; [|discriminate].
    destruct (finish_array e vs) eqn:Ef; [|discriminate]. inversion E; subst.
    destruct (mono_elems e (deser_mono e Hwe) _ _ _ _ (rok_adv r1 pw (proj1 H) ltac:(lia)) E1) as [M _]. rewrite roff_adv in M.
    destruct (RSB_read B r1 r2 pw H ltac:(lia) ltac:(lia)) as (y & _ & A1 & A2). rewrite Er in A1. inversion A1; subst y. rewrite A2, C.
    destruct (trunc_elems e (IHe Hwe) (deser_mono e Hwe) _ _ _ _ _ _ (RSB_adv B r1 r2 pw H ltac:(lia)) E1 Hb) as (rb & F1 & H1). rewrite F1, Ef. eauto.
  - assert (IH' : Forall (fun f => trunc_ok (snd f)) fs).
    { apply Forall_forall. intros f Hf. apply (proj1 (Forall_forall _ _) IHfs f Hf).
      unfold all_fields_ok in Hwf. rewrite forallb_forall in Hwf. apply Hwf. assumption. }
    destruct (deser_fields deser fs r1) as [[vs ra]|] eqn:E1; [|discriminate]. inversion E; subst.
    assert (Mf : Forall (fun f => mono_ok (snd f)) fs).
    { apply Forall_forall. intros f Hf. apply deser_mono. unfold all_fields_ok in Hwf. rewrite forallb_forall in Hwf. apply Hwf. assumption. }
    destruct (mono_fields fs Mf Hwf _ _ _ (proj1 H) E1) as [_ Ra].
    destruct (rok_align ra (max_align align fs) Ra ltac:(rewrite max_align_fields; lia)) as [_ M2].
    destruct (trunc_fields fs IH' Hwf _ _ _ _ _ H E1 ltac:(lia)) as (rb & F1 & H1). rewrite F1.
    eexists; split; [reflexivity|]. apply RSB_align; [assumption|]. rewrite max_align_fields. lia.
  - pose proof (tag_width_mod8 nm fs Hwf0) as [_ T2].
    apply andb_prop in Hwf. destruct Hwf as [Hwf _]. apply andb_prop in Hwf. destruct Hwf as [Hwf _].
    assert (IH' : Forall (fun f => trunc_ok (snd f)) fs).
    { apply Forall_forall. intros f Hf. apply (proj1 (Forall_forall _ _) IHfs f Hf).
      unfold all_fields_ok in Hwf. rewrite forallb_forall in Hwf. apply Hwf. assumption. }
    assert (Mf : Forall (fun f => mono_ok (snd f)) fs).
    { apply Forall_forall. intros f Hf. apply deser_mono. unfold all_fields_ok in Hwf. rewrite forallb_forall in Hwf. apply Hwf. assumption. }
    set (tw := union_tag_width fs) in *.
    destruct (read_adv r1 tw (proj1 H) ltac:(lia)) as [_ S1].
    destruct (read_bits r1 tw) as [tag r0] eqn:Er. cbn [snd] in S1. subst r0.
    destruct (zlen fs <=? tag) eqn:C; [discriminate|].
    destruct (deser_variant deser fs (Z.to_nat tag) (r_adv r1 tw)) as [[vv ra]|] eqn:E1; [|discriminate]. inversion E; subst.
    destruct (mono_variant fs Mf _ _ _ _ (rok_adv r1 tw (proj1 H) ltac:(lia)) E1) as [M Ra]. rewrite roff_adv in M.
    destruct (rok_align ra (max_align align fs) Ra ltac:(rewrite max_align_fields; lia)) as [_ M2].
    destruct (RSB_read B r1 r2 tw H ltac:(lia) ltac:(lia)) as (y & _ & A1 & A2). rewrite Er in A1. inversion A1; subst y. rewrite A2, C.
    destruct (trunc_variant fs IH' _ _ _ _ _ _ (RSB_adv B r1 r2 tw H ltac:(lia)) E1 ltac:(lia)) as (rb & F1 & H1). rewrite F1.
    eexists; split; [reflexivity|]. apply RSB_align; [assumption|]. rewrite max_align_fields. lia.
  - apply andb_prop in Hwf. destruct Hwf as [Hwf _]. apply andb_prop in Hwf. destruct Hwf as [Hwf _].
    apply andb_prop in Hwf. destruct Hwf as [Hwi Hc]. rewrite (header_width_delim i Hc) in *.
    destruct (read_adv r1 32 (proj1 H) ltac:(lia)) as [Hx S1].
    destruct (read_bits r1 32) as [nb r0] eqn:Er. cbn [fst snd] in *. subst r0.
    destruct (remaining_bits (r_adv r1 32) <? nb * 8) eqn:C1; [discriminate|].
    unfold bounded_subreader in E. cbn [rdata roff r_adv] in E.
    set (sub1 := {| rdata := rdata r1; rstart := roff r1 + 32; roff := roff r1 + 32; rlimit := Some (nb * 8) |}) in *.
    destruct (deser i sub1) as [[vi ra]|] eqn:E1; [|discriminate]. inversion E; subst.
    rewrite r_adv_adv, roff_adv in Hb.
    destruct (RSB_read B r1 r2 32 H ltac:(lia) ltac:(lia)) as (y & _ & A1 & A2). rewrite Er in A1. inversion A1; subst y. rewrite A2.
    pose proof (RSB_adv B r1 r2 32 H ltac:(lia)) as H0. destruct H0 as (Ra & Rb & Eo & Ag & Re).
    rewrite remaining_rend in C1. rewrite remaining_rend.
    replace (Z.max 0 (rend (r_adv r2 32) - roff (r_adv r2 32)) <? nb * 8) with false by lia.
    unfold bounded_subreader. cbn [rdata roff r_adv].
    set (sub2 := {| rdata := rdata r2; rstart := roff r2 + 32; roff := roff r2 + 32; rlimit := Some (nb * 8) |}).
    assert (Hs : RS sub1 sub2).
    { subst sub1 sub2. unfold RS, rok, rend, rbit, within. cbn [rdata roff rlimit rstart]. destruct Ra, Rb. rewrite !roff_adv in *.
      repeat split; auto; try lia. intros j Hj. replace (roff r2 + 32) with (roff r1 + 32) by lia.
      destruct (j <? roff r1 + 32 + nb * 8) eqn:W; [|reflexivity]. cbn [andb].
      rewrite !rend_adv in *.
      rewrite <- (rbit_within_getbit r1 j) by lia. rewrite <- (rbit_within_getbit r2 j) by lia.
      specialize (Ag j). rewrite !rbit_adv in Ag. apply Ag. lia. }
    destruct (deser_sim i Hwi _ _ _ _ Hs E1) as (rb & F1 & _). rewrite F1.
    eexists; split; [reflexivity|]. rewrite !r_adv_adv. apply RSB_adv; [assumption|lia].
Qed.

(* ---------- top level ---------- *)
Lemma RSB_junk b junk : bytes_ok b -> bytes_ok junk -> RSB (8 * zlen b) (r_new b) (r_new (b ++ junk)).
Proof.
  intros Hb Hj. unfold RSB, rok, r_new, rend, rbit, within. cbn [rdata roff rlimit rstart andb].
  repeat split; auto; try lia.
  - apply bytes_ok_app; assumption.
  - intros j Hjj. symmetry. apply getbit_app_l. lia.
  - rewrite zlen_app. pose proof (zlen_nonneg junk). lia.
Qed.

(* the offset at which deserialize stops *)
Definition consumed (t : ty) (data : list Z) (hdr : bool) : option Z :=
  let go t' := match deser t' (r_new data) with Ok (_, r') => Some (roff r') | Err _ => None end in
  match t with
  | TDelim i _ => if hdr then go t else go i
  | _ => if hdr then None else go t
  end.

Theorem truncation t b hdr v c junk : wft t = true -> bytes_ok b -> bytes_ok junk ->
  deserialize t b hdr = Ok v -> consumed t b hdr = Some c -> c <= 8 * zlen b ->
  deserialize t (b ++ junk) hdr = Ok v.
Proof.
  intros Hwf Hb Hj E Hc Hle. pose proof (RSB_junk b junk Hb Hj) as H.
  assert (G : forall t', wft t' = true ->
              (match deser t' (r_new b) with Ok (x, _) => Ok x | Err e => Err e end) = Ok v ->
              (match deser t' (r_new b) with Ok (_, r') => Some (roff r') | Err _ => None end) = Some c ->
              (match deser t' (r_new (b ++ junk)) with Ok (x, _) => Ok x | Err e => Err e end) = Ok v).
  { intros t' Hw' E' C'. destruct (deser t' (r_new b)) as [[x r1']|] eqn:E1; [|discriminate]. inversion E'; inversion C'; subst.
    destruct (deser_trunc t' Hw' _ _ _ _ _ H E1 Hle) as (r2' & F & _). rewrite F. reflexivity. }
  destruct t; cbn [deserialize consumed] in *; try (destruct hdr; [discriminate|apply G; assumption]).
  cbn [wft] in Hwf. pose proof Hwf as Hwf0. apply andb_prop in Hwf. destruct Hwf as [Hwf _]. apply andb_prop in Hwf. destruct Hwf as [Hwf _].
  apply andb_prop in Hwf. destruct Hwf as [Hwi _].
  destruct hdr; apply G; assumption.
Qed.
