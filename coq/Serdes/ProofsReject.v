(* C07 (rejection part): lengths, tags and headers above the limit are rejected, never clamped. *)
From Coq Require Import ZArith List Bool Lia.
From PV Require Import BLS.Model Layout.Types Serdes.Model.
Import ListNotations.
Open Scope Z_scope.

Lemma rejects_array e n r :
  n < fst (read_bits r (prefix_width (align e) n)) -> deser (TVar e n) r = Err EArrayLength.
Proof.
  intros H. cbn [deser]. destruct (read_bits r (prefix_width (align e) n)) as [len r0]. cbn [fst snd] in H.
  destruct (n <? len) eqn:E; [reflexivity|]. apply Z.ltb_ge in E. lia.
Qed.

Lemma rejects_tag nm fs r :
  zlen fs <= fst (read_bits r (union_tag_width fs)) -> deser (TUnion nm fs) r = Err EUnionTag.
Proof.
  intros H. cbn [deser]. destruct (read_bits r (union_tag_width fs)) as [tag r0]. cbn [fst snd] in H.
  destruct (zlen fs <=? tag) eqn:E; [reflexivity|]. apply Z.leb_gt in E. lia.
Qed.

Lemma rejects_header i ext r :
  remaining_bits (snd (read_bits r (header_width (align i)))) < 8 * fst (read_bits r (header_width (align i))) ->
  deser (TDelim i ext) r = Err EDelimHeader.
Proof.
  intros H. cbn [deser]. destruct (read_bits r (header_width (align i))) as [nb r0]. cbn [fst snd] in H.
  destruct (remaining_bits r0 <? nb * 8) eqn:E; [reflexivity|]. apply Z.ltb_ge in E. lia.
Qed.

(* accepted lengths / tags / headers are within the limit *)
Lemma accepts_array e n r v r' :
  deser (TVar e n) r = Ok (v, r') -> fst (read_bits r (prefix_width (align e) n)) <= n.
Proof.
  cbn [deser]. destruct (read_bits r (prefix_width (align e) n)) as [len r0]. simpl.
  destruct (n <? len) eqn:E; [discriminate|]. apply Z.ltb_ge in E. intros _. exact E.
Qed.

Lemma accepts_tag nm fs r v r' :
  deser (TUnion nm fs) r = Ok (v, r') -> fst (read_bits r (union_tag_width fs)) < zlen fs.
Proof.
  cbn [deser]. destruct (read_bits r (union_tag_width fs)) as [tag r0]. simpl.
  destruct (zlen fs <=? tag) eqn:E; [discriminate|]. apply Z.leb_gt in E. intros _. exact E.
Qed.

Lemma accepts_header i ext r v r' :
  deser (TDelim i ext) r = Ok (v, r') ->
  8 * fst (read_bits r (header_width (align i))) <= remaining_bits (snd (read_bits r (header_width (align i)))).
Proof.
  cbn [deser]. destruct (read_bits r (header_width (align i))) as [nb r0]. cbn [fst snd].
  destruct (remaining_bits r0 <? nb * 8) eqn:E; [discriminate|]. apply Z.ltb_ge in E. intros _. lia.
Qed.

Lemma serialize_header_flag_sealed t v :
  (match t with TDelim _ _ => false | _ => true end) = true -> serialize t v true = Err EValue.
Proof. destruct t; simpl; intros H; try reflexivity; discriminate. Qed.

Lemma deserialize_header_flag_sealed t d :
  (match t with TDelim _ _ => false | _ => true end) = true -> deserialize t d true = Err EValue.
Proof. destruct t; simpl; intros H; try reflexivity; discriminate. Qed.
