(* C08_sound_wrt_codec: the offsets computed by iterate_fields_with_offsets (Layout/Offsets.v) are sound for the codec
   (Serdes/Model.v): the bit position at which the serializer writes field i of a structure / the selected variant of
   a union / the fields of a delimited object is an element of the offset set of that field.

   The link to the codec is an instrumented copy of ser_fields that additionally records the writer's bit offset at the
   moment each field is written (after its alignment step); erasing the record gives ser_fields back ([tr_erase]). *)
From Coq Require Import ZArith List Bool Lia ZifyBool.
From PV Require Import Util.ListSet Util.Sumset BLS.Model BLS.Den BLS.Proofs Layout.Types Layout.Spec Layout.Proofs Layout.ProofsSpec
  Layout.Offsets Layout.OffsetsProofs.
From PV Require Import Serdes.Float Serdes.Utf8 Serdes.Model Serdes.Bits Serdes.BitsProofs Serdes.WriterProofs Serdes.ReaderProofs
  Serdes.Spec Serdes.SerProofs Serdes.EncProofs Serdes.DeserProofs Serdes.Roundtrip Serdes.LenProofs.
Import ListNotations.
Open Scope Z_scope.

Ltac Zify.zify_post_hook ::= Z.to_euclidean_division_equations.

(* ser_fields with a record of the bit offset at which every field (padding fields included) starts *)
Fixpoint ser_fields_tr (fs : list (option str * ty)) (vs : list val) (w : writer) : res writer * list Z :=
  match fs with
  | [] => (match vs with [] => Ok w | _ => Err EShape end, [])
  | (None, t) :: r =>
      let w1 := w_align_to w (align t) in
      let (res, tr) := ser_fields_tr r vs (write_bits w1 0 (void_width t)) in (res, woff w1 :: tr)
  | (Some _, t) :: r =>
      match vs with
      | [] => (Err EShape, [])
      | v :: vs' =>
          let v' := match v with VOmit => default_value t | _ => v end in
          let w1 := w_align_to w (align t) in
          match ser t v' w1 with
          | Ok w2 => let (res, tr) := ser_fields_tr r vs' w2 in (res, woff w1 :: tr)
          | Err e => (Err e, [woff w1])
          end
      end
  end.

Lemma tr_erase fs : forall vs w, fst (ser_fields_tr fs vs w) = ser_fields ser fs vs w.
Proof.
  induction fs as [|[nm t] r IH]; intros vs w; cbn [ser_fields_tr ser_fields]; [reflexivity|]. destruct nm as [nm|].
  - destruct vs as [|v vs']; [reflexivity|].
    destruct (ser t match v with VOmit => default_value t | _ => v end (w_align_to w (align t))) as [w2|e]; [|reflexivity].
    specialize (IH vs' w2). destruct (ser_fields_tr r vs' w2). exact IH.
  - specialize (IH vs (write_bits (w_align_to w (align t)) 0 (void_width t))).
    destruct (ser_fields_tr r vs (write_bits (w_align_to w (align t)) 0 (void_width t))). exact IH.
Qed.

Lemma pad_shift8 a s z : a = 1 \/ a = 8 -> s mod 8 = 0 -> pad a (s + z) = s + pad a z.
Proof. intros [ -> | -> ] H; unfold pad; lia. Qed.

Lemma WR_off w bs : WR w bs -> woff w = zlen bs.
Proof. intros [A _]. exact A. Qed.

(* every recorded start is the aligned end of a threading of the preceding fields with one of their LenSpec lengths;
   s is an additive shift (a multiple of 8) between the writer's own offsets and the positions of interest *)
Lemma tr_thread fs : Forall (fun f => len_ok (snd f)) fs -> all_fields_ok wft fs = true -> struct_fields_ok serializable fs = true ->
  forall vs w bs s, WR w bs -> s mod 8 = 0 -> valid_fields validb fs vs = true ->
  length (snd (ser_fields_tr fs vs w)) = length fs /\
  forall i x, nth_error (snd (ser_fields_tr fs vs w)) i = Some x ->
  exists f e, nth_error fs i = Some f /\ thread_ok LenSpec spec_align (firstn i fs) (s + zlen bs) e /\ s + x = pad (spec_align (snd f)) e.
Proof.
  induction 1 as [|[nm t] r Ht Hr IH]; intros Hwf Hsz vs w bs s HW Hs Hv; cbn [ser_fields_tr valid_fields] in *.
  - split; [reflexivity|]. intros i x H. destruct i; discriminate.
  - unfold all_fields_ok in Hwf. cbn [forallb snd] in Hwf. apply andb_prop in Hwf. destruct Hwf as [Hwt Hwr].
    unfold struct_fields_ok in Hsz. cbn [forallb fst snd] in Hsz. apply andb_prop in Hsz. destruct Hsz as [Hst Hsr].
    cbn [snd] in Ht. pose proof (align_pos t) as Hap. pose proof (align_values t) as Hav.
    pose proof (w_align_to_WR w bs (align t) Hap HW) as W1.
    set (pl := pad_len (align t) (zlen bs)) in *. pose proof (pad_len_range (align t) (zlen bs) Hap) as Hpl. fold pl in Hpl.
    assert (Zp : zlen (zero_bits pl) = pl) by (apply zlen_zero_bits; lia).
    assert (Ew1 : woff (w_align_to w (align t)) = zlen bs + pl) by (rewrite (WR_off _ _ W1), zlen_app, Zp; reflexivity).
    assert (Start : s + (zlen bs + pl) = pad (spec_align t) (s + zlen bs)).
    { rewrite <- (align_is_spec t Hwt). rewrite (pad_shift8 _ _ _ Hav Hs). rewrite (pad_pad_len _ _ Hav). fold pl. lia. }
    destruct nm as [nm|].
    + destruct vs as [|v vs']; [discriminate|]. apply andb_prop in Hv. destruct Hv as [Hv1 Hv2].
      set (v' := match v with VOmit => default_value t | _ => v end) in *.
      destruct (ser_enc t Hwt v' _ _ Hv1 W1) as (w2 & E2 & W2). rewrite E2.
      set (b := enc t v' (zlen (bs ++ zero_bits pl))) in *.
      assert (Lb : LenSpec t (zlen b)).
      { subst b. apply Ht; [assumption|]. rewrite zlen_app, Zp. subst pl. apply pad_len_aligned. assumption. }
      destruct (IH Hwr Hsr vs' w2 _ s W2 Hs Hv2) as [IL IN].
      destruct (ser_fields_tr r vs' w2) as [res tr]. cbn [snd] in *. split; [simpl; lia|].
      intros i x H. destruct i as [|j]; cbn [nth_error firstn thread_ok] in *.
      * inversion H; subst x. exists (Some nm, t), (s + zlen bs). cbn [snd]. rewrite Ew1. auto.
      * destruct (IN j x H) as (f & e & Hf & T & Hx). exists f, e. split; [exact Hf|]. split; [|exact Hx].
        exists (zlen b). cbn [snd]. split; [exact Lb|]. rewrite <- Start. rewrite !zlen_app, Zp in T.
        replace (s + (zlen bs + pl) + zlen b) with (s + (zlen bs + pl + zlen b)) by lia. exact T.
    + destruct t; try discriminate. cbn [void_width align] in *. simpl in Hwt.
      assert (Zv : zlen (zero_bits w0) = w0) by (apply zlen_zero_bits; lia).
      pose proof (write_bits_WR _ _ 0 w0 ltac:(lia) W1) as W2. rewrite (low_bits_zero _ w0 eq_refl) in W2.
      destruct (IH Hwr Hsr vs _ _ s W2 Hs Hv) as [IL IN].
      destruct (ser_fields_tr r vs (write_bits (w_align_to w 1) 0 w0)) as [res tr]. cbn [snd] in *. split; [simpl; lia|].
      intros i x H. destruct i as [|j]; cbn [nth_error firstn thread_ok] in *.
      * inversion H; subst x. exists (None, TVoid w0), (s + zlen bs). cbn [snd]. rewrite Ew1. auto.
      * destruct (IN j x H) as (f & e & Hf & T & Hx). exists f, e. split; [exact Hf|]. split; [|exact Hx].
        exists w0. cbn [snd LenSpec]. split; [reflexivity|]. rewrite <- Start. rewrite !zlen_app, Zp, Zv in T.
        replace (s + (zlen bs + pl) + w0) with (s + (zlen bs + pl + w0)) by lia. exact T.
Qed.

Lemma struct_len_oks fs : all_fields_ok wft fs = true -> struct_fields_ok serializable fs = true -> Forall (fun f => len_ok (snd f)) fs.
Proof.
  intros Hw Hs. apply Forall_forall. intros f Hf. apply enc_len_spec.
  - unfold all_fields_ok in Hw. rewrite forallb_forall in Hw. apply Hw. assumption.
  - destruct (serializable_fields_struct fs f Hs Hf) as [[_ A]|[_ A]]; auto.
Qed.

(* ---------- structures ---------- *)
(* the enclosing composite / array / top level has brought the writer to the structure's alignment (8) before the
   structure is serialized: w_align_to w 8.  B is any set of base offsets that contains the writer's bit length. *)
Theorem struct_offsets_sound nm fs B vs w bs :
  wft (TStruct nm fs) = true -> serializable (TStruct nm fs) = true -> validb (TStruct nm fs) (VStruct vs) = true ->
  WR w bs -> Den B (zlen bs) ->
  let tr := snd (ser_fields_tr fs vs (w_align_to w 8)) in
  fst (ser_fields_tr fs vs (w_align_to w 8)) = ser_fields ser fs vs (w_align_to w 8) /\
  length tr = length fs /\
  forall i f O x, nth_error (field_offsets (TStruct nm fs) B) i = Some (f, O) -> nth_error tr i = Some x -> Den O x.
Proof.
  intros Hwf Hsz Hv HW HB tr. split; [apply tr_erase|].
  pose proof Hwf as Hwf0. cbn [wft serializable validb] in Hwf, Hsz, Hv.
  pose proof (w_align_to_WR w bs 8 ltac:(lia) HW) as W0.
  destruct (tr_thread fs (struct_len_oks fs Hwf Hsz) Hwf Hsz vs _ _ 0 W0 eq_refl Hv) as [L N]. split; [exact L|].
  intros i f O x HO Hx. destruct (struct_offsets_spec nm fs B Hwf0) as [_ Sp]. apply (Sp i f O HO x).
  destruct (N i x Hx) as (f' & e & Hf' & T & Ex). unfold StructOff. exists f', (zlen bs), e.
  rewrite zlen_app, zlen_pad in T by lia. rewrite <- (pad_pad_len 8 (zlen bs)) in T by auto. cbn [Z.add] in *.
  repeat split; auto.
Qed.

(* ---------- unions ---------- *)
Theorem union_offsets_sound nm fs B k w bs f O :
  wft (TUnion nm fs) = true -> WR w bs -> Den B (zlen bs) -> In (f, O) (field_offsets (TUnion nm fs) B) ->
  (* the selected variant is written right after the tag *)
  Den O (woff (write_bits (w_align_to w 8) k (union_tag_width fs))).
Proof.
  intros Hwf HW HB Hin. destruct (union_offsets_spec nm fs B Hwf) as [_ Sp]. apply (Sp f O Hin). unfold UnionOff.
  exists (zlen bs). split; [assumption|]. rewrite write_bits_off, w_align_to_off by lia. rewrite (WR_off _ _ HW).
  rewrite (pad_pad_len 8 (zlen bs)) by auto. cbn [wft] in Hwf. apply andb_prop in Hwf. destruct Hwf as [Hwf Hb]. apply andb_prop in Hwf. destruct Hwf as [_ Hn].
  rewrite union_tag_eq by lia. reflexivity.
Qed.

(* ---------- delimited structures ---------- *)
(* the inner structure goes through a temporary writer (offsets from 0) and is copied right after the 32-bit header:
   inner field i ends up at (offset after the header) + (its offset in the temporary writer) *)
Theorem delim_offsets_sound nm fs ext B vs w bs :
  wft (TDelim (TStruct nm fs) ext) = true -> serializable (TStruct nm fs) = true -> validb (TStruct nm fs) (VStruct vs) = true ->
  WR w bs -> Den B (zlen bs) ->
  let after_header := woff (write_bits (w_align_to w 8) 0 (header_width (align (TStruct nm fs)))) in
  let tr := snd (ser_fields_tr fs vs w_new) in
  length tr = length fs /\
  forall i f O x, nth_error (field_offsets (TDelim (TStruct nm fs) ext) B) i = Some (f, O) -> nth_error tr i = Some x -> Den O (after_header + x).
Proof.
  intros Hwf Hsz Hv HW HB after_header tr.
  assert (Hwi : wft (TStruct nm fs) = true).
  { cbn [wft] in Hwf. apply andb_prop in Hwf. destruct Hwf as [Hwf _]. apply andb_prop in Hwf. destruct Hwf as [Hwf _]. apply andb_prop in Hwf. apply Hwf. }
  assert (Eah : after_header = pad 8 (zlen bs) + 32).
  { subst after_header. rewrite write_bits_off, w_align_to_off by lia. rewrite (WR_off _ _ HW). rewrite (pad_pad_len 8 (zlen bs)) by auto.
    cbn [align]. rewrite max_align_fields. reflexivity. }
  pose proof Hwi as Hwi0. cbn [wft serializable validb] in Hwi, Hsz, Hv.
  assert (S8 : after_header mod 8 = 0). { rewrite Eah. unfold pad. lia. }
  destruct (tr_thread fs (struct_len_oks fs Hwi Hsz) Hwi Hsz vs w_new [] after_header WR_new S8 Hv) as [L N]. split; [exact L|].
  intros i f O x HO Hx. destruct (delim_offsets_spec (TStruct nm fs) ext B Hwf) as [E _]. rewrite E in HO.
  destruct (struct_offsets_spec nm fs (Cat [B; Leaf [32]]) Hwi0) as [_ Sp]. apply (Sp i f O HO). unfold StructOff.
  destruct (N i x Hx) as (f' & e & Hf' & T & Ex). exists f', (zlen bs + 32), e. change (zlen (@nil bool)) with 0 in T. rewrite Z.add_0_r in T.
  assert (Ep : pad 8 (zlen bs + 32) = after_header). { rewrite Eah. unfold pad. lia. }
  rewrite Ep. repeat split; auto.
  apply Den_cat2. exists (zlen bs), 32. repeat split; auto. apply Den_leaf1. reflexivity.
Qed.
