(* C14_zero_decode: a reader that sees only zero bits from its position on decodes the zero value of any type
   (0 / false / +0.0 / empty array / first variant / header 0 - recursively), at any offset, with or without limit. *)
From Coq Require Import ZArith List Bool Lia ZifyBool.
From PV Require Import BLS.Model Layout.Types Layout.Spec Layout.Proofs Layout.ProofsSpec.
From PV Require Import Serdes.Float Serdes.Utf8 Serdes.Model Serdes.Bits Serdes.BitsProofs Serdes.WriterProofs Serdes.ReaderProofs
  Serdes.Spec Serdes.SerProofs Serdes.EncProofs Serdes.DeserProofs.
Import ListNotations.
Open Scope Z_scope.

Ltac Zify.zify_post_hook ::= Z.to_euclidean_division_equations.

Definition zeros_ahead (r : reader) : Prop := forall j, roff r <= j -> rbit r j = false.
(* a reader in good state that sees zeros only *)
Definition ZR (r : reader) : Prop := rok r /\ zeros_ahead r.

Lemma ZR_adv r n : ZR r -> 0 <= n -> ZR (r_adv r n).
Proof.
  intros [A B] Hn. split; [apply rok_adv; assumption|]. intros j Hj. rewrite rbit_adv. apply B. rewrite roff_adv in Hj. lia.
Qed.

Lemma ZR_align r a : ZR r -> 1 <= a -> ZR (r_align_to r a).
Proof. intros H Ha. rewrite r_align_to_adv by assumption. apply ZR_adv; [assumption|]. apply pad_len_range. assumption. Qed.

Lemma ZR_read r n : ZR r -> 0 <= n -> read_bits r n = (0, r_adv r n).
Proof.
  intros [A B] Hn. destruct (read_bits_spec r n (proj1 A) Hn (proj2 A)) as (S1 & R & T).
  rewrite (surjective_pairing (read_bits r n)). f_equal; [|exact S1].
  apply Z.bits_inj'. intros k Hk. rewrite Z.testbit_0_l. destruct (Z.lt_ge_cases k n).
  - rewrite T by lia. apply B. lia.
  - apply (bits_above n); lia.
Qed.

Lemma ZR_sub r : ZR r -> ZR (fst (bounded_subreader r 0)).
Proof.
  intros [A B]. unfold bounded_subreader. cbn [fst]. split; [split; [apply A|cbn [roff]; destruct A; lia]|].
  intros j Hj. cbn [roff] in Hj. unfold rbit, within. cbn [rlimit rstart]. replace (j <? roff r + 0) with false by lia. reflexivity.
Qed.

Lemma fwiden_0 w : w = 16 \/ w = 32 \/ w = 64 -> fwiden w 0 = 0.
Proof. intros [ -> | [ -> | -> ] ]; reflexivity. Qed.

Definition zero_ok (t : ty) : Prop := forall r, ZR r -> exists r', deser t r = Ok (default_value t, r') /\ ZR r'.

Lemma zero_elems e : zero_ok e -> forall n r, ZR r ->
  exists r', deser_elems (deser e) n r = Ok (repeat (default_value e) n, r') /\ ZR r'.
Proof.
  intros He. induction n as [|n IH]; intros r H; cbn [deser_elems repeat].
  - eauto.
  - destruct (He r H) as (r1 & E1 & H1). rewrite E1. destruct (IH r1 H1) as (r2 & E2 & H2). rewrite E2. eauto.
Qed.

Lemma zero_fields fs : Forall (fun f => zero_ok (snd f)) fs -> all_fields_ok wft fs = true ->
  forall r, ZR r -> exists r', deser_fields deser fs r = Ok (default_fields default_value fs, r') /\ ZR r'.
Proof.
  induction 1 as [|[nm t] fr Ht Hfr IH]; intros Hwf r H; cbn [deser_fields default_fields].
  - eauto.
  - unfold all_fields_ok in Hwf. cbn [forallb snd] in Hwf. apply andb_prop in Hwf. destruct Hwf as [Hwt Hwr]. cbn [snd] in Ht.
    pose proof (ZR_align r (align t) H (align_pos t)) as Ha. destruct nm as [nm|].
    + destruct (Ht _ Ha) as (r1 & E1 & H1). rewrite E1. destruct (IH Hwr r1 H1) as (r2 & E2 & H2). rewrite E2. eauto.
    + assert (Hvw : 0 <= void_width t). { destruct t; cbn [void_width]; try lia. simpl in Hwt. lia. }
      rewrite (ZR_read _ _ Ha Hvw). cbn [snd]. apply (IH Hwr). apply ZR_adv; assumption.
Qed.

Theorem zero_decode : forall t, wft t = true -> serializable t = true \/ is_void t = true -> zero_ok t.
Proof.
  induction t as [p|wd|e n IHe|e n IHe|nm fs IHfs|nm fs IHfs|i ext IHi] using ty_ind'; intros Hwf Hsz; unfold zero_ok; intros r H;
    pose proof Hwf as Hwf0; cbn [wft] in Hwf; cbn [deser default_value].
  - pose proof (prim_width_pos p Hwf) as Hp. destruct p as [ | wd c | wd | wd c | | ]; cbn [deser_prim prim_width] in *.
    + rewrite (ZR_read r 1 H ltac:(lia)). eexists; split; [reflexivity|]. apply ZR_adv; [assumption|lia].
    + rewrite (ZR_read r wd H ltac:(lia)). eexists; split; [reflexivity|]. apply ZR_adv; [assumption|lia].
    + rewrite (ZR_read r wd H ltac:(lia)). rewrite shiftl_1 by lia.
      assert (0 < 2 ^ (wd - 1)) by (apply Z.pow_pos_nonneg; lia). replace (2 ^ (wd - 1) <=? 0) with false by lia.
      eexists; split; [reflexivity|]. apply ZR_adv; [assumption|lia].
    + assert (G : forall k r0, ZR r0 -> fst (read_bytes k r0) = repeat 0 k /\ ZR (snd (read_bytes k r0))).
      { induction k as [|k IH]; intros r0 H0; cbn [read_bytes repeat]; [auto|].
        rewrite (ZR_read r0 8 H0 ltac:(lia)). destruct (IH _ (ZR_adv r0 8 H0 ltac:(lia))) as [G1 G2].
        destruct (read_bytes k (r_adv r0 8)) as [bs r1]. cbn [fst snd] in *. subst. auto. }
      destruct (G (Z.to_nat (wd / 8)) r H) as [G1 G2].
      destruct (read_bytes (Z.to_nat (wd / 8)) r) as [bs r1]. cbn [fst snd] in *. subst bs.
      assert (Z0 : forall k, from_bytes_le (repeat 0 k) = 0) by (induction k as [|k IHk]; cbn [repeat from_bytes_le]; [reflexivity|rewrite IHk; reflexivity]).
      rewrite Z0. simpl in Hwf. rewrite fwiden_0 by lia. eauto.
    + rewrite (ZR_read r 8 H ltac:(lia)). eexists; split; [reflexivity|]. apply ZR_adv; [assumption|lia].
    + rewrite (ZR_read r 8 H ltac:(lia)). eexists; split; [reflexivity|]. apply ZR_adv; [assumption|lia].
  - rewrite (ZR_read r wd H ltac:(lia)). eexists; split; [reflexivity|]. apply ZR_adv; [assumption|lia].
  - apply andb_prop in Hwf. destruct Hwf as [Hwe Hn].
    destruct Hsz as [Hsz|Hsz]; [|discriminate]. cbn [serializable] in Hsz. apply andb_prop in Hsz. destruct Hsz as [Hu Hse].
    destruct (zero_elems e (IHe Hwe (or_introl Hse)) (Z.to_nat n) r H) as (r1 & E1 & H1). rewrite E1.
    unfold finish_array. destruct (is_utf8 e); [discriminate|]. eauto.
  - pose proof (prefix_width_mod8 e n Hwf0) as [_ P2].
    rewrite (ZR_read r (prefix_width (align e) n) H ltac:(lia)).
    apply andb_prop in Hwf. destruct Hwf as [Hwf Hb]. apply andb_prop in Hwf. destruct Hwf as [Hwe Hn].
    replace (n <? 0) with false by lia. cbn [Z.to_nat deser_elems].
    assert (F : finish_array e [] = Ok (VList [])). { unfold finish_array. destruct (is_utf8 e); reflexivity. }
    rewrite F. eexists; split; [reflexivity|]. apply ZR_adv; [assumption|lia].
  - destruct Hsz as [Hsz|Hsz]; [|discriminate]. cbn [serializable] in Hsz.
    assert (IH' : Forall (fun f => zero_ok (snd f)) fs).
    { apply Forall_forall. intros f Hf. apply (proj1 (Forall_forall _ _) IHfs f Hf).
      - unfold all_fields_ok in Hwf. rewrite forallb_forall in Hwf. apply Hwf. assumption.
      - destruct (serializable_fields_struct fs f Hsz Hf) as [[_ A]|[_ A]]; auto. }
    destruct (zero_fields fs IH' Hwf r H) as (r1 & E1 & H1). rewrite E1.
    eexists; split; [reflexivity|]. apply ZR_align; [assumption|]. rewrite max_align_fields. lia.
  - pose proof (tag_width_mod8 nm fs Hwf0) as [_ T2].
    rewrite (ZR_read r (union_tag_width fs) H ltac:(lia)).
    apply andb_prop in Hwf. destruct Hwf as [Hwf Hb]. apply andb_prop in Hwf. destruct Hwf as [Hwf Hn].
    destruct Hsz as [Hsz|Hsz]; [|discriminate]. cbn [serializable] in Hsz.
    destruct fs as [|f fr]; [simpl in Hn; lia|].
    replace (zlen (f :: fr) <=? 0) with false by (rewrite zlen_cons; pose proof (zlen_nonneg fr); lia).
    cbn [Z.to_nat deser_variant].
    inversion IHfs as [|? ? Hf _]; subst.
    unfold all_fields_ok in Hwf. cbn [forallb] in Hwf. apply andb_prop in Hwf. destruct Hwf as [Hwf1 _].
    unfold union_fields_ok in Hsz. cbn [forallb] in Hsz. apply andb_prop in Hsz. destruct Hsz as [Hsz1 _].
    destruct (fst f); [|discriminate]. unfold named_field_ok in Hsz1. apply andb_prop in Hsz1. destruct Hsz1 as [_ Hsz1].
    destruct (Hf Hwf1 (or_introl Hsz1) _ (ZR_adv r (union_tag_width (f :: fr)) H ltac:(lia))) as (r1 & E1 & H1). rewrite E1.
    eexists; split; [reflexivity|]. apply ZR_align; [assumption|]. rewrite max_align_fields. lia.
  - apply andb_prop in Hwf. destruct Hwf as [Hwf _]. apply andb_prop in Hwf. destruct Hwf as [Hwf _].
    apply andb_prop in Hwf. destruct Hwf as [Hwi Hc]. rewrite (header_width_delim i Hc).
    destruct Hsz as [Hsz|Hsz]; [|discriminate]. cbn [serializable] in Hsz.
    rewrite (ZR_read r 32 H ltac:(lia)). change (0 * 8) with 0.
    pose proof (ZR_adv r 32 H ltac:(lia)) as H0. rewrite remaining_rend.
    replace (Z.max 0 (rend (r_adv r 32) - roff (r_adv r 32)) <? 0) with false by lia.
    pose proof (ZR_sub _ H0) as Hs. destruct (bounded_subreader (r_adv r 32) 0) as [sub p] eqn:Eb.
    assert (Ep : p = r_adv (r_adv r 32) 0) by (unfold bounded_subreader in Eb; inversion Eb; reflexivity).
    cbn [fst] in Hs. destruct (IHi Hwi (or_introl Hsz) sub Hs) as (r1 & E1 & _). rewrite E1.
    eexists; split; [reflexivity|]. subst p. apply ZR_adv; [assumption|lia].
Qed.
