(* C06_length_in_bls: the length of the representation of a valid value is one of the Specification's lengths of
   its type (LenSpec), hence an element of the bit length set. *)
From Coq Require Import ZArith List Bool Lia ZifyBool.
From PV Require Import Util.ListSet Util.Sumset BLS.Model BLS.Den BLS.Proofs Layout.Types Layout.Spec Layout.Proofs Layout.ProofsSpec.
From PV Require Import Serdes.Float Serdes.Utf8 Serdes.Model Serdes.Bits Serdes.BitsProofs Serdes.WriterProofs Serdes.ReaderProofs
  Serdes.Spec Serdes.SerProofs Serdes.EncProofs Serdes.DeserProofs Serdes.Roundtrip.
Import ListNotations.
Open Scope Z_scope.

Ltac Zify.zify_post_hook ::= Z.to_euclidean_division_equations.

Lemma pad_pad_len a x : a = 1 \/ a = 8 -> pad a x = x + pad_len a x.
Proof. intros [ -> | -> ]; unfold pad, pad_len; lia. Qed.

Lemma pad_len_shift8 a o x : a = 1 \/ a = 8 -> o mod 8 = 0 -> pad_len a (o + x) = pad_len a x.
Proof. intros [ -> | -> ] H; unfold pad_len; lia. Qed.

Lemma zlen_enc_prim p v : prim_ok p = true -> valid_prim p v = true -> zlen (enc_prim p v) = prim_width p.
Proof.
  intros Hp Hv. pose proof (prim_width_pos p Hp) as Hw.
  destruct p as [ | wd c | wd | wd c | | ]; unfold valid_prim in Hv; unfold enc_prim, canon_prim; cbn [prim_width] in *.
  - destruct (bool_of v); [reflexivity|discriminate].
  - destruct (as_int v); [|discriminate]. rewrite zlen_low_bits. lia.
  - destruct (as_int v); [|discriminate]. rewrite zlen_low_bits. lia.
  - destruct v; try discriminate. rewrite zlen_low_bits. lia.
  - destruct (as_int v); [|discriminate]. rewrite zlen_low_bits. reflexivity.
  - destruct (as_int v); [|discriminate]. rewrite zlen_low_bits. reflexivity.
Qed.

Definition len_ok (t : ty) : Prop := forall v o, validb t v = true -> o mod align t = 0 -> LenSpec t (zlen (enc t v o)).

Lemma enc_elems_lens e : len_ok e -> keeps_align e -> forall vs o, forallb (validb e) vs = true -> o mod align e = 0 ->
  exists ys, length ys = length vs /\ Forall (LenSpec e) ys /\ zlen (enc_elems (enc e) vs o) = zsum ys.
Proof.
  intros He Ka. induction vs as [|v r IH]; intros o Hv Ho; cbn [enc_elems].
  - exists []. repeat split; auto.
  - cbn [forallb] in Hv. apply andb_prop in Hv. destruct Hv as [Hv1 Hv2].
    destruct (IH (o + zlen (enc e v o)) Hv2 (Ka v o Ho)) as (ys & L & F & S).
    exists (zlen (enc e v o) :: ys). repeat split.
    + simpl. lia.
    + constructor; [apply He; assumption|assumption].
    + rewrite zlen_app, S. reflexivity.
Qed.

(* laying out the fields from relative offset rel (the structure starts at a multiple of 8) *)
Lemma enc_fields_thread fs : Forall (fun f => len_ok (snd f)) fs -> all_fields_ok wft fs = true -> struct_fields_ok serializable fs = true ->
  forall vs o rel, o mod 8 = 0 -> valid_fields validb fs vs = true ->
  thread_ok LenSpec spec_align fs rel (rel + zlen (enc_fields enc fs vs (o + rel))).
Proof.
  induction 1 as [|[nm t] fr Ht Hfr IH]; intros Hwf Hsz vs o rel Ho Hv; cbn [enc_fields thread_ok valid_fields] in *.
  - change (zlen (@nil bool)) with 0. lia.
  - unfold all_fields_ok in Hwf. cbn [forallb snd] in Hwf. apply andb_prop in Hwf. destruct Hwf as [Hwt Hwr].
    unfold struct_fields_ok in Hsz. cbn [forallb fst snd] in Hsz. apply andb_prop in Hsz. destruct Hsz as [Hst Hsr].
    cbn [snd] in Ht. cbn [snd]. pose proof (align_pos t) as Hap. rewrite <- (align_is_spec t Hwt).
    rewrite (pad_len_shift8 (align t) o rel (align_values t) Ho).
    set (pl := pad_len (align t) rel). pose proof (pad_len_range (align t) rel Hap) as Hpl. fold pl in Hpl.
    assert (Zp : zlen (zero_bits pl) = pl) by (apply zlen_zero_bits; lia).
    rewrite (pad_pad_len (align t) rel (align_values t)). fold pl.
    destruct nm as [nm|].
    + destruct vs as [|v vs']; [discriminate|]. apply andb_prop in Hv. destruct Hv as [Hv1 Hv2].
      set (v' := match v with VOmit => default_value t | _ => v end) in *. rewrite Zp.
      set (b := enc t v' (o + rel + pl)).
      exists (zlen b). split.
      * subst b. apply Ht; [assumption|].
        assert ((rel + pl) mod align t = 0) by (subst pl; apply pad_len_aligned; assumption).
        destruct (align_values t) as [E|E]; rewrite E in *; [apply Z.mod_1_r|lia].
      * specialize (IH Hwr Hsr vs' o (rel + pl + zlen b) Ho Hv2).
        rewrite !zlen_app, Zp. replace (o + (rel + pl + zlen b)) with (o + rel + pl + zlen b) in IH by lia.
        replace (rel + (pl + (zlen b + zlen (enc_fields enc fr vs' (o + rel + pl + zlen b)))))
          with (rel + pl + zlen b + zlen (enc_fields enc fr vs' (o + rel + pl + zlen b))) by lia. exact IH.
    + destruct t; try discriminate. cbn [void_width]. simpl in Hwt.
      assert (Zv : zlen (zero_bits w) = w) by (apply zlen_zero_bits; lia).
      exists w. split; [reflexivity|].
      specialize (IH Hwr Hsr vs o (rel + pl + w) Ho Hv).
      rewrite !zlen_app, Zp, Zv. replace (o + (rel + pl + w)) with (o + rel + (pl + w)) in IH by lia.
      replace (rel + (pl + w + zlen (enc_fields enc fr vs (o + rel + (pl + w)))))
        with (rel + pl + w + zlen (enc_fields enc fr vs (o + rel + (pl + w)))) by lia. exact IH.
Qed.

Lemma enc_variant_ok fs : Forall (fun f => len_ok (snd f)) fs ->
  forall k v o, valid_variant validb fs k v = true -> o mod 8 = 0 -> variant_ok LenSpec fs (zlen (enc_variant enc fs k v o)).
Proof.
  induction 1 as [|f fr Hf Hfr IH]; intros k v o Hv Ho; cbn [valid_variant enc_variant variant_ok] in *; [discriminate|].
  destruct k as [|k]; [left; apply Hf; [assumption|apply mod8_align; assumption]|right; apply IH; assumption].
Qed.

Theorem enc_len_spec : forall t, wft t = true -> serializable t = true \/ is_void t = true -> len_ok t.
Proof.
  induction t as [p|wd|e n IHe|e n IHe|nm fs IHfs|nm fs IHfs|i ext IHi] using ty_ind'; intros Hwf Hsz; unfold len_ok; intros v o Hv Ho;
    pose proof Hwf as Hwf0; cbn [wft] in Hwf; cbn [validb] in Hv; cbn [enc LenSpec align] in *.
  - apply zlen_enc_prim; assumption.
  - apply zlen_zero_bits. lia.
  - apply andb_prop in Hwf. destruct Hwf as [Hwe Hn]. destruct v; try discriminate.
    apply andb_prop in Hv. destruct Hv as [Hl Hvs].
    destruct Hsz as [Hsz|Hsz]; [|discriminate]. cbn [serializable] in Hsz. apply andb_prop in Hsz. destruct Hsz as [_ Hse].
    destruct (enc_elems_lens e (IHe Hwe (or_introl Hse)) (enc_aligned e Hwe) vs o Hvs Ho) as (ys & L & F & S).
    exists ys. repeat split; auto. unfold zlen in Hl. lia.
  - pose proof (prefix_width_mod8 e n Hwf0) as [P1 P2].
    apply andb_prop in Hwf. destruct Hwf as [Hwf Hb]. apply andb_prop in Hwf. destruct Hwf as [Hwe Hn].
    destruct v; try discriminate. apply andb_prop in Hv. destruct Hv as [Hv _]. apply andb_prop in Hv. destruct Hv as [Hl Hvs].
    destruct Hsz as [Hsz|Hsz]; [|discriminate]. cbn [serializable] in Hsz.
    assert (Ho' : (o + prefix_width (align e) n) mod align e = 0).
    { destruct (align_values e) as [E|E]; rewrite E in *; [apply Z.mod_1_r|lia]. }
    destruct (enc_elems_lens e (IHe Hwe (or_introl Hsz)) (enc_aligned e Hwe) vs _ Hvs Ho') as (ys & L & F & S).
    exists ys. repeat split; auto. { unfold zlen in Hl. lia. }
    rewrite zlen_app, zlen_low_bits, S. rewrite <- (prefix_width_eq e n) by lia. lia.
  - destruct v; try discriminate. destruct Hsz as [Hsz|Hsz]; [|discriminate]. cbn [serializable] in Hsz.
    rewrite max_align_fields in *.
    assert (IH' : Forall (fun f => len_ok (snd f)) fs).
    { apply Forall_forall. intros f Hf. apply (proj1 (Forall_forall _ _) IHfs f Hf).
      - unfold all_fields_ok in Hwf. rewrite forallb_forall in Hwf. apply Hwf. assumption.
      - destruct (serializable_fields_struct fs f Hsz Hf) as [[_ A]|[_ A]]; auto. }
    pose proof (enc_fields_thread fs IH' Hwf Hsz vs o 0 Ho Hv) as T. rewrite Z.add_0_r in T. cbn [Z.add] in T.
    set (b := enc_fields enc fs vs o) in *. exists (zlen b). split; [exact T|].
    pose proof (zlen_nonneg b). rewrite zlen_app, zlen_pad by lia. rewrite pad_pad_len by auto.
    rewrite (pad_len_shift8 8 o (zlen b)) by (auto; lia). reflexivity.
  - pose proof (tag_width_mod8 nm fs Hwf0) as [T1 T2].
    destruct v; try discriminate. apply andb_prop in Hv. destruct Hv as [Hk Hvv].
    apply andb_prop in Hwf. destruct Hwf as [Hwf Hb]. apply andb_prop in Hwf. destruct Hwf as [Hwf Hn].
    destruct Hsz as [Hsz|Hsz]; [|discriminate]. cbn [serializable] in Hsz.
    rewrite max_align_fields in *.
    assert (IH' : Forall (fun f => len_ok (snd f)) fs).
    { apply Forall_forall. intros f Hf. apply (proj1 (Forall_forall _ _) IHfs f Hf).
      - unfold all_fields_ok in Hwf. rewrite forallb_forall in Hwf. apply Hwf. assumption.
      - unfold union_fields_ok in Hsz. rewrite forallb_forall in Hsz. specialize (Hsz f Hf). destruct (fst f); [|discriminate].
        unfold named_field_ok in Hsz. apply andb_prop in Hsz. left. apply Hsz. }
    set (tw := union_tag_width fs) in *.
    pose proof (enc_variant_ok fs IH' (Z.to_nat k) v (o + tw) Hvv ltac:(lia)) as V.
    set (b := enc_variant enc fs (Z.to_nat k) v (o + tw)) in *. exists (zlen b). split; [exact V|].
    pose proof (zlen_nonneg b).
    assert (Ztb : zlen (low_bits (Z.to_nat tw) k ++ b) = tw + zlen b) by (rewrite zlen_app, zlen_low_bits; lia).
    rewrite zlen_app, Ztb, zlen_pad by lia.
    rewrite <- (union_tag_eq fs) by lia. fold tw. rewrite pad_pad_len by auto.
    rewrite (pad_len_shift8 8 o (tw + zlen b)) by (auto; lia). lia.
  - apply andb_prop in Hwf. destruct Hwf as [Hwf Hext]. apply andb_prop in Hwf. destruct Hwf as [Hwf Hdiv].
    apply andb_prop in Hwf. destruct Hwf as [Hwi Hc]. apply andb_prop in Hv. destruct Hv as [Hv _].
    destruct Hsz as [Hsz|Hsz]; [|discriminate]. cbn [serializable] in Hsz.
    assert (A8 : align i = 8) by (destruct i; try discriminate; cbn [align]; apply max_align_fields).
    rewrite (header_width_delim i Hc). pose proof (enc_composite_mod8 i v Hc) as M8.
    pose proof (IHi Hwi (or_introl Hsz) v 0 Hv ltac:(rewrite A8; reflexivity)) as Li.
    apply (bls_is_spec i Hwi) in Li. destruct (wf_bls i Hwi) as [Wf _]. destruct (omax_ok (bls i) Wf) as [_ Mx].
    pose proof (Mx _ Li) as Hle.
    assert (Eext : extent i = omax (bls i)) by (destruct i; try discriminate; reflexivity).
    pose proof (zlen_nonneg (enc i v 0)).
    exists (zlen (enc i v 0) / 8). split; [|rewrite zlen_app, zlen_low_bits; change (Z.of_nat (Z.to_nat 32)) with 32; lia].
    rewrite A8 in Hdiv. split; [lia|]. apply Z.div_le_mono; lia.
Qed.

(* C06_length_in_bls *)
Theorem length_in_bls t v hdr bytes :
  wft t = true -> serializable t = true -> is_composite t = true -> hdr_ok t hdr = true -> validb t v = true ->
  serialize t v hdr = Ok bytes -> Den (bls (payload_type t hdr)) (8 * zlen bytes).
Proof.
  intros Hwf Hsz Hc Hh Hv Hs.
  destruct (serialize_spec t v hdr Hwf Hc Hh Hv) as (bytes' & E & (_ & L & _)). rewrite Hs in E. inversion E; subst bytes'. rewrite L.
  assert (G : forall t', wft t' = true -> serializable t' = true -> validb t' v = true -> Den (bls t') (zlen (enc t' v 0))).
  { intros t' Hw' Hs' Hv'. apply (bls_is_spec t' Hw'). apply (enc_len_spec t' Hw' (or_introl Hs')); [assumption|].
    apply Z.mod_0_l. pose proof (align_pos t'). lia. }
  destruct t; try discriminate; cbn [hdr_ok] in Hh; try (destruct hdr; [discriminate|]); cbn [spec_enc payload_type]; try (apply G; assumption).
  destruct hdr; [apply G; assumption|].
  cbn [wft] in Hwf. apply andb_prop in Hwf. destruct Hwf as [Hwf _]. apply andb_prop in Hwf. destruct Hwf as [Hwf _].
  apply andb_prop in Hwf. destruct Hwf as [Hwi _]. cbn [validb] in Hv. apply andb_prop in Hv. destruct Hv as [Hv _].
  apply G; assumption.
Qed.

(* the inner representation of a delimited type never exceeds the extent: with an extent below 2^35 bits the header
   always fits (the only semantic side condition in validb) *)
Lemma inner_le_extent i ext v : wft (TDelim i ext) = true -> serializable i = true -> validb i v = true -> zlen (enc i v 0) <= ext.
Proof.
  intros Hwf Hsz Hv. cbn [wft] in Hwf.
  apply andb_prop in Hwf. destruct Hwf as [Hwf Hext]. apply andb_prop in Hwf. destruct Hwf as [Hwf Hdiv].
  apply andb_prop in Hwf. destruct Hwf as [Hwi Hc].
  assert (A8 : align i = 8) by (destruct i; try discriminate; cbn [align]; apply max_align_fields).
  pose proof (enc_len_spec i Hwi (or_introl Hsz) v 0 Hv ltac:(rewrite A8; reflexivity)) as Li.
  apply (bls_is_spec i Hwi) in Li. destruct (wf_bls i Hwi) as [Wf _]. destruct (omax_ok (bls i) Wf) as [_ Mx].
  pose proof (Mx _ Li) as Hle.
  assert (Eext : extent i = omax (bls i)) by (destruct i; try discriminate; reflexivity). lia.
Qed.
