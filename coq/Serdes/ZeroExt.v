(* C07: implicit zero extension and confinement of bounded sub-readers, at the top level. *)
From Coq Require Import ZArith List Bool Lia ZifyBool.
From PV Require Import BLS.Model Layout.Types Layout.Proofs.
From PV Require Import Serdes.Model Serdes.Bits Serdes.BitsProofs Serdes.ReaderProofs Serdes.DeserProofs Serdes.DeserSim.
Import ListNotations.
Open Scope Z_scope.

Ltac Zify.zify_post_hook ::= Z.to_euclidean_division_equations.

Lemma getbit_zeros n j : getbit (zeros n) j = false.
Proof.
  unfold getbit, zeros. destruct (Nat.lt_ge_cases (Z.to_nat (j / 8)) (Z.to_nat n)).
  - rewrite nth_repeat. apply Z.testbit_0_l.
  - rewrite nth_overflow by (rewrite repeat_length; assumption). apply Z.testbit_0_l.
Qed.

Lemma getbit_app_zeros b n j : 0 <= j -> getbit (b ++ zeros n) j = getbit b j.
Proof.
  intros Hj. destruct (Z.lt_ge_cases j (8 * zlen b)).
  - apply getbit_app_l. lia.
  - rewrite getbit_app_r by lia. rewrite getbit_zeros. symmetry. apply getbit_beyond. lia.
Qed.

Lemma RS_zero_ext b n : bytes_ok b -> RS (r_new b) (r_new (b ++ zeros n)).
Proof.
  intros Hb. unfold RS, rok, r_new, rend, rbit, within. cbn [rdata roff rlimit rstart andb].
  repeat split; auto; try lia.
  - apply bytes_ok_app; [assumption|apply bytes_ok_zeros].
  - intros j Hj. symmetry. apply getbit_app_zeros. assumption.
  - rewrite zlen_app. pose proof (zlen_nonneg (zeros n)). lia.
Qed.

Theorem zero_ext t b n hdr v : wft t = true -> bytes_ok b ->
  deserialize t b hdr = Ok v -> deserialize t (b ++ zeros n) hdr = Ok v.
Proof.
  intros Hwf Hb. pose proof (RS_zero_ext b n Hb) as H.
  assert (G : forall t', wft t' = true -> forall v', (match deser t' (r_new b) with Ok (x, _) => Ok x | Err e => Err e end) = Ok v' ->
              (match deser t' (r_new (b ++ zeros n)) with Ok (x, _) => Ok x | Err e => Err e end) = Ok v').
  { intros t' Hw' v' E. destruct (deser t' (r_new b)) as [[x r1']|] eqn:E1; [|discriminate]. inversion E; subst.
    destruct (deser_sim t' Hw' _ _ _ _ H E1) as (r2' & F & _). rewrite F. reflexivity. }
  destruct t; cbn [deserialize]; try (destruct hdr; [discriminate|apply G; assumption]).
  cbn [wft] in Hwf. pose proof Hwf as Hwf0. apply andb_prop in Hwf. destruct Hwf as [Hwf _]. apply andb_prop in Hwf. destruct Hwf as [Hwf _].
  apply andb_prop in Hwf. destruct Hwf as [Hwi _].
  destruct hdr; apply G; assumption.
Qed.

(* a bounded sub-reader's result does not depend on anything outside its window *)
Theorem confinement t r1 r2 n v r1' : wft t = true -> rok r1 -> rok r2 -> roff r1 = roff r2 -> 0 <= n ->
  (forall j, roff r1 <= j < roff r1 + n -> getbit (rdata r1) j = getbit (rdata r2) j) ->
  deser t (fst (bounded_subreader r1 n)) = Ok (v, r1') ->
  exists r2', deser t (fst (bounded_subreader r2 n)) = Ok (v, r2').
Proof.
  intros Hwf A B C Hn D E.
  assert (H : RS (fst (bounded_subreader r1 n)) (fst (bounded_subreader r2 n))).
  { unfold bounded_subreader, RS, rok, rend, rbit, within. cbn [fst rdata roff rlimit rstart]. destruct A, B.
    repeat split; auto; try lia. intros j Hj. rewrite <- C. destruct (j <? roff r1 + n) eqn:W; [|reflexivity]. cbn [andb]. apply D. lia. }
  destruct (deser_sim t Hwf _ _ _ _ H E) as (r2' & F & _). eauto.
Qed.
