(* Values that are encoded without clamping, wrapping, rounding or defaults: deserialize returns them unchanged.
   Definitions only. *)
From Coq Require Import ZArith List Bool.
From PV Require Import BLS.Model Layout.Types Serdes.Float Serdes.Model Serdes.Spec.
Import ListNotations.
Open Scope Z_scope.

Definition exact_prim (p : prim) (v : val) : bool :=
  match p, v with
  | PBool, VBool _ => true
  | PUInt w _, VInt z => (0 <=? z) && (z <? 2 ^ w)
  | PSInt w, VInt z => (- 2 ^ (w - 1) <=? z) && (z <? 2 ^ (w - 1))
  | (PByte | PUtf8), VInt z => (0 <=? z) && (z <? 256)
  | PFloat w c, VFlt b => fwiden w (fcast c w b) =? b       (* representable in the field's format (every NaN: the canonical one) *)
  | _, _ => false
  end.

Section ExactFields.
Variable X : ty -> val -> bool.
Fixpoint exact_fields (fs : list (option str * ty)) (vs : list val) : bool :=
  match fs with
  | [] => match vs with [] => true | _ => false end
  | (None, _) :: r => exact_fields r vs
  | (Some _, t) :: r => match vs with [] => false | v :: vs' => X t v && exact_fields r vs' end
  end.
Fixpoint exact_variant (fs : list (option str * ty)) (k : nat) (v : val) : bool :=
  match fs with
  | [] => false
  | f :: r => match k with O => X (snd f) v | S k' => exact_variant r k' v end
  end.
End ExactFields.

Fixpoint exactb (t : ty) (v : val) {struct t} : bool :=
  match t with
  | TPrim p => exact_prim p v
  | TVoid _ => false
  | TFix e _ | TVar e _ => match v with VList vs => forallb (exactb e) vs | _ => false end
  | TStruct _ fs => match v with VStruct vs => exact_fields exactb fs vs | _ => false end
  | TUnion _ fs => match v with VUnion k x => (0 <=? k) && exact_variant exactb fs (Z.to_nat k) x | _ => false end
  | TDelim i _ => exactb i v
  end.

(* every extent below 2^35 bits: the byte length of a nested object always fits its 32-bit delimiter header *)
Fixpoint small_ext (t : ty) : bool :=
  match t with
  | TPrim _ | TVoid _ => true
  | TFix e _ | TVar e _ => small_ext e
  | TStruct _ fs | TUnion _ fs => forallb (fun f => small_ext (snd f)) fs
  | TDelim i ext => small_ext i && (ext <? 2 ^ 35)
  end.
