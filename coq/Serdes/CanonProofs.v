(* Facts about canon: exact values are unchanged; default values are valid and canonical; integer casts. *)
From Coq Require Import ZArith List Bool Lia ZifyBool.
From PV Require Import Util.ListSet Util.Sumset BLS.Model BLS.Den BLS.Proofs Layout.Types Layout.Spec Layout.Proofs Layout.ProofsSpec.
From PV Require Import Serdes.Float Serdes.Utf8 Serdes.Model Serdes.Bits Serdes.BitsProofs Serdes.WriterProofs Serdes.ReaderProofs
  Serdes.Spec Serdes.SerProofs Serdes.EncProofs Serdes.DeserProofs Serdes.Roundtrip Serdes.LenProofs Serdes.Exact.
Import ListNotations.
Open Scope Z_scope.

Ltac Zify.zify_post_hook ::= Z.to_euclidean_division_equations.

(* ---------- exact values ---------- *)
Lemma canon_exact_prim p v : prim_ok p = true -> exact_prim p v = true -> canon_prim p v = v.
Proof.
  intros Hp H. pose proof (prim_width_pos p Hp) as Hw.
  destruct p as [ | wd c | wd | wd c | | ]; destruct v; try discriminate; cbn [exact_prim canon_prim bool_of as_int cast_int prim_width] in *.
  - reflexivity.
  - assert (0 < 2 ^ wd) by (apply Z.pow_pos_nonneg; lia). f_equal. destruct c; unfold clamp; [lia|]. apply Z.mod_small. lia.
  - f_equal. unfold clamp. lia.
  - apply Z.eqb_eq in H. rewrite H. reflexivity.
  - f_equal. apply Z.mod_small. lia.
  - f_equal. apply Z.mod_small. lia.
Qed.

Lemma exact_not_omit : forall t, exactb t VOmit = false.
Proof. induction t; cbn [exactb]; try reflexivity; [destruct p; reflexivity|assumption]. Qed.

Lemma canon_exact : forall t, wft t = true -> forall v, exactb t v = true -> canon t v = v.
Proof.
  induction t as [p|wd|e n IHe|e n IHe|nm fs IHfs|nm fs IHfs|i ext IHi] using ty_ind'; intros Hwf v H; cbn [wft] in Hwf; cbn [exactb canon] in *; try discriminate.
  - apply canon_exact_prim; assumption.
  - apply andb_prop in Hwf. destruct Hwf as [Hwe _]. destruct v; try discriminate. f_equal.
    induction vs as [|x r IH]; [reflexivity|]. cbn [forallb map] in *. apply andb_prop in H. destruct H as [H1 H2].
    rewrite (IHe Hwe x H1), (IH H2). reflexivity.
  - apply andb_prop in Hwf. destruct Hwf as [Hwf _]. apply andb_prop in Hwf. destruct Hwf as [Hwe _]. destruct v; try discriminate. f_equal.
    induction vs as [|x r IH]; [reflexivity|]. cbn [forallb map] in *. apply andb_prop in H. destruct H as [H1 H2].
    rewrite (IHe Hwe x H1), (IH H2). reflexivity.
  - destruct v; try discriminate. f_equal. unfold all_fields_ok in Hwf. revert vs H.
    induction IHfs as [|[nm' t] r Ht Hr IH]; intros vs H; cbn [exact_fields canon_fields forallb snd] in *.
    + destruct vs; [reflexivity|discriminate].
    + apply andb_prop in Hwf. destruct Hwf as [Hwt Hwr]. destruct nm' as [nm'|]; [|apply IH; assumption].
      destruct vs as [|x vs']; [discriminate|]. apply andb_prop in H. destruct H as [H1 H2]. cbn [snd] in Ht.
      assert (Ex : x <> VOmit). { intros ->. rewrite exact_not_omit in H1. discriminate. }
      replace (match x with VOmit => default_value t | _ => x end) with x by (destruct x; auto; congruence).
      rewrite (Ht Hwt x H1), (IH Hwr vs' H2). reflexivity.
  - destruct v; try discriminate. apply andb_prop in H. destruct H as [Hk H]. f_equal.
    apply andb_prop in Hwf. destruct Hwf as [Hwf _]. apply andb_prop in Hwf. destruct Hwf as [Hwf _]. unfold all_fields_ok in Hwf.
    generalize dependent (Z.to_nat k). clear Hk k.
    induction IHfs as [|f r Hf Hr IH]; intros k H; cbn [exact_variant canon_variant forallb] in *; [reflexivity|].
    apply andb_prop in Hwf. destruct Hwf as [Hwt Hwr]. destruct k as [|k]; [apply Hf; assumption|apply IH; assumption].
  - apply andb_prop in Hwf. destruct Hwf as [Hwf _]. apply andb_prop in Hwf. destruct Hwf as [Hwf _].
    apply andb_prop in Hwf. destruct Hwf as [Hwi _]. apply IHi; assumption.
Qed.

(* ---------- integer casts ---------- *)
Lemma cast_in_range p z : (match p with
                           | PUInt w _ => 0 <= z < 2 ^ w
                           | PSInt w => - 2 ^ (w - 1) <= z < 2 ^ (w - 1)
                           | PByte | PUtf8 => 0 <= z < 256
                           | _ => True end) -> cast_int p z = z.
Proof.
  destruct p as [ | wd c | wd | wd c | | ]; cbn [cast_int]; intros H; try reflexivity; unfold clamp; try lia.
  destruct c; [lia|]. apply Z.mod_small. lia.
Qed.

Lemma cast_saturated_unsigned w z : 0 <= w -> cast_int (PUInt w Sat) z = if z <? 0 then 0 else if 2 ^ w - 1 <? z then 2 ^ w - 1 else z.
Proof. intros Hw. cbn [cast_int]. unfold clamp. assert (0 < 2 ^ w) by (apply Z.pow_pos_nonneg; lia).
  destruct (z <? 0) eqn:A; destruct (2 ^ w - 1 <? z) eqn:B; lia. Qed.

Lemma cast_saturated_signed w z : 1 <= w ->
  cast_int (PSInt w) z = if z <? - 2 ^ (w - 1) then - 2 ^ (w - 1) else if 2 ^ (w - 1) - 1 <? z then 2 ^ (w - 1) - 1 else z.
Proof. intros Hw. cbn [cast_int]. unfold clamp. assert (0 < 2 ^ (w - 1)) by (apply Z.pow_pos_nonneg; lia).
  destruct (z <? - 2 ^ (w - 1)) eqn:A; destruct (2 ^ (w - 1) - 1 <? z) eqn:B; lia. Qed.

Lemma cast_truncated w z : cast_int (PUInt w Trunc) z = z mod 2 ^ w.
Proof. reflexivity. Qed.

(* ---------- default values ---------- *)
Lemma fit_of_small i ext v : wft (TDelim i ext) = true -> serializable i = true -> validb i v = true -> ext < 2 ^ 35 ->
  (zlen (enc i v 0) / 8 <? 2 ^ header_width (align i)) = true.
Proof.
  intros Hwf Hsz Hv Hx. pose proof (inner_le_extent i ext v Hwf Hsz Hv) as Le. pose proof (zlen_nonneg (enc i v 0)).
  cbn [wft] in Hwf. apply andb_prop in Hwf. destruct Hwf as [Hwf _]. apply andb_prop in Hwf. destruct Hwf as [Hwf _].
  apply andb_prop in Hwf. destruct Hwf as [_ Hc]. rewrite (header_width_delim i Hc).
  change (2 ^ 35) with 34359738368 in Hx. change (2 ^ 32) with 4294967296. lia.
Qed.

Definition dgood (t : ty) : Prop := validb t (default_value t) = true /\ canon t (default_value t) = default_value t.

Lemma default_prim p : prim_ok p = true -> dgood (TPrim p).
Proof.
  intros Hp. pose proof (prim_width_pos p Hp) as Hw. unfold dgood.
  destruct p as [ | wd c | wd | wd c | | ]; cbn [default_value validb valid_prim canon canon_prim bool_of as_int cast_int prim_width] in *.
  - auto.
  - split; [reflexivity|]. f_equal. assert (0 < 2 ^ wd) by (apply Z.pow_pos_nonneg; lia). destruct c; unfold clamp; [lia|]. apply Z.mod_0_l. lia.
  - split; [reflexivity|]. f_equal. assert (0 < 2 ^ (wd - 1)) by (apply Z.pow_pos_nonneg; lia). unfold clamp. lia.
  - split; [reflexivity|]. simpl in Hp. assert (Hc : wd = 16 \/ wd = 32 \/ wd = 64) by lia.
    destruct Hc as [ -> | [ -> | -> ] ]; destruct c; reflexivity.
  - split; reflexivity.
  - split; reflexivity.
Qed.

Lemma forallb_repeat {A} (f : A -> bool) x n : f x = true -> forallb f (repeat x n) = true.
Proof. intros H. induction n; cbn [repeat forallb]; [reflexivity|]. rewrite H, IHn. reflexivity. Qed.

Lemma map_repeat_fix {A} (f : A -> A) x n : f x = x -> map f (repeat x n) = repeat x n.
Proof. intros H. induction n; cbn [repeat map]; [reflexivity|]. rewrite H, IHn. reflexivity. Qed.

Lemma omit_default t : match default_value t with VOmit => default_value t | _ => default_value t end = default_value t.
Proof. destruct (default_value t); reflexivity. Qed.

Theorem default_good : forall t, wft t = true -> serializable t = true -> small_ext t = true -> dgood t.
Proof.
  induction t as [p|wd|e n IHe|e n IHe|nm fs IHfs|nm fs IHfs|i ext IHi] using ty_ind'; intros Hwf Hsz Hse; pose proof Hwf as Hwf0;
    cbn [wft serializable small_ext] in *; try discriminate.
  - apply default_prim. assumption.
  - apply andb_prop in Hwf. destruct Hwf as [Hwe Hn]. apply andb_prop in Hsz. destruct Hsz as [Hu Hs].
    destruct (IHe Hwe Hs Hse) as [A B]. unfold dgood. cbn [default_value validb canon].
    rewrite (forallb_repeat _ _ _ A), (map_repeat_fix _ _ _ B). unfold zlen. rewrite repeat_length.
    replace (Z.of_nat (Z.to_nat n) =? n) with true by lia. auto.
  - apply andb_prop in Hwf. destruct Hwf as [Hwf _]. apply andb_prop in Hwf. destruct Hwf as [Hwe Hn].
    unfold dgood. cbn [default_value validb canon forallb map byte_values]. change (zlen (@nil val)) with 0.
    replace (0 <=? n) with true by lia. destruct (is_utf8 e); auto.
  - unfold dgood. cbn [default_value validb canon]. unfold all_fields_ok, struct_fields_ok in *.
    assert (G : valid_fields validb fs (default_fields default_value fs) = true /\
                canon_fields canon fs (default_fields default_value fs) = default_fields default_value fs).
    { induction IHfs as [|[nm' t] r Ht Hr IH]; cbn [valid_fields canon_fields default_fields forallb fst snd] in *; [auto|].
      apply andb_prop in Hwf. destruct Hwf as [Hwt Hwr]. apply andb_prop in Hsz. destruct Hsz as [Hst Hsr]. apply andb_prop in Hse. destruct Hse as [Het Her].
      destruct nm' as [nm'|]; [|apply IH; assumption].
      unfold named_field_ok in Hst. cbn [snd] in Hst, Ht. apply andb_prop in Hst. destruct Hst as [_ Hst].
      destruct (Ht Hwt Hst Het) as [A B]. destruct (IH Hwr Hsr Her Hwr) as [C D].
      rewrite omit_default, A, B, C, D. auto. }
    destruct G as [G1 G2]. rewrite G1, G2. auto.
  - apply andb_prop in Hwf. destruct Hwf as [Hwf _]. apply andb_prop in Hwf. destruct Hwf as [Hwf Hn].
    unfold dgood. destruct fs as [|f r]; [simpl in Hn; lia|]. cbn [default_value validb canon valid_variant canon_variant Z.to_nat].
    inversion IHfs as [|? ? Hf _]; subst. unfold all_fields_ok, union_fields_ok in *. cbn [forallb] in *.
    apply andb_prop in Hwf. destruct Hwf as [Hwt _]. apply andb_prop in Hsz. destruct Hsz as [Hst _]. apply andb_prop in Hse. destruct Hse as [Het _].
    destruct (fst f); [|discriminate]. unfold named_field_ok in Hst. apply andb_prop in Hst. destruct Hst as [_ Hst].
    destruct (Hf Hwt Hst Het) as [A B]. rewrite A, B. rewrite zlen_cons. pose proof (zlen_nonneg r).
    replace ((0 <=? 0) && (0 <? 1 + zlen r)) with true by lia. auto.
  - apply andb_prop in Hse. destruct Hse as [Hsi Hx].
    assert (Hwi : wft i = true).
    { apply andb_prop in Hwf. destruct Hwf as [Hwf _]. apply andb_prop in Hwf. destruct Hwf as [Hwf _]. apply andb_prop in Hwf. apply Hwf. }
    destruct (IHi Hwi Hsz Hsi) as [A B]. unfold dgood. cbn [default_value validb canon]. rewrite A, B.
    rewrite (fit_of_small i ext _ Hwf0 Hsz A ltac:(lia)). auto.
Qed.

(* validity is a pure shape condition when extents are small: the semantic conjunct of validb (header fits) follows *)
Lemma delim_valid_of_inner i ext v : wft (TDelim i ext) = true -> serializable i = true -> ext < 2 ^ 35 ->
  validb i v = true -> validb (TDelim i ext) v = true.
Proof. intros Hwf Hsz Hx Hv. cbn [validb]. rewrite Hv, (fit_of_small i ext v Hwf Hsz Hv Hx). reflexivity. Qed.
