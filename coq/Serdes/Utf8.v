(* Well-formed UTF-8 byte sequences (Unicode Table 3-7 / RFC 3629), which is what CPython's strict
   bytes.decode("utf-8") accepts: no overlong forms, no surrogates, nothing above U+10FFFF, no truncated sequence.
   Definitions only. *)
From Coq Require Import ZArith List Bool.
Import ListNotations.
Open Scope Z_scope.

Definition inr (lo hi x : Z) : bool := (lo <=? x) && (x <=? hi).
Definition cont (x : Z) : bool := inr 128 191 x.

Fixpoint utf8_valid (l : list Z) : bool :=
  match l with
  | [] => true
  | a :: r1 =>
      if inr 0 127 a then utf8_valid r1
      else match r1 with
      | [] => false
      | b :: r2 =>
          if inr 194 223 a then cont b && utf8_valid r2
          else match r2 with
          | [] => false
          | c :: r3 =>
              if inr 224 239 a then
                (if a =? 224 then inr 160 191 b else if a =? 237 then inr 128 159 b else cont b) && cont c && utf8_valid r3
              else match r3 with
              | [] => false
              | d :: r4 =>
                  if inr 240 244 a then
                    (if a =? 240 then inr 144 191 b else if a =? 244 then inr 128 143 b else cont b)
                    && cont c && cont d && utf8_valid r4
                  else false
              end
          end
      end
  end.
