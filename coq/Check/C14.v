(* Comparer for C14 case files: a container written with one revision of a nested delimited type and read with the
   other; plus the layout observables of both revisions. *)
From Coq Require Import ZArith List Bool.
From PV Require Import Util.ListSet BLS.Model Layout.Types Serdes.Model Serdes.ValEq Serdes.Evolve Check.Compare Check.C06.
Import ListNotations.
Open Scope Z_scope.

(* min, max of the bit length set and the extent, as reported by the implementation *)
Inductive lobs := LObs (mn mx ext : Z).

Definition check_lobs (t : ty) (o : lobs) : bool :=
  match o with LObs mn mx ext => (mn =? omin (bls t)) && (mx =? omax (bls t)) && (ext =? extent t) end.

(* written with tw, read with tr *)
Inductive case := Case (tw tr : ty) (v : val) (lw lr : lobs) (o : C06.sobs).

Definition check_case (c : case) : bool :=
  match c with
  | Case tw tr v lw lr o =>
      C06.type_ok tw && C06.type_ok tr && evolves tw tr && check_lobs tw lw && check_lobs tr lr &&
      match serialize tw v false, o with
      | Ok bs, C06.SBytes bs' back => list_eqb bs bs' && C06.check_dobs (deserialize tr bs false) back
      | Err e, C06.SErr c => ecls_eqb (C06.cls e) c
      | _, _ => false
      end
  end.
