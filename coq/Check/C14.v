(* Comparer for C14 case files: a container written with one revision of a nested delimited type and read with the
   other; plus the layout observables of both revisions. *)
From Coq Require Import ZArith List Bool.
From PV Require Import Util.ListSet BLS.Model Layout.Types Serdes.Model Serdes.ValEq Check.Compare Check.C06.
Import ListNotations.
Open Scope Z_scope.

(* min, max of the bit length set and the extent, as reported by the implementation *)
Inductive lobs := LObs (mn mx ext : Z).

Definition check_lobs (t : ty) (o : lobs) : bool :=
  match o with LObs mn mx ext => (mn =? omin (bls t)) && (mx =? omax (bls t)) && (ext =? extent t) end.

(* "t2 is t1 with nested delimited structures replaced by revisions with a longer or shorter field list":
   same shape everywhere else, same extent at the replaced places, one field list a prefix of the other *)
Fixpoint is_prefix (a b : list (option str * ty)) (E : ty -> ty -> bool) : bool :=
  match a, b with
  | [], _ => true
  | x :: a', y :: b' =>
      (match fst x, fst y with None, None => true | Some _, Some _ => true | _, _ => false end)
      && E (snd x) (snd y) && is_prefix a' b' E
  | _ :: _, [] => false
  end.

Definition prim_eqb (p q : prim) : bool :=
  match p, q with
  | PBool, PBool | PByte, PByte | PUtf8, PUtf8 => true
  | PUInt w c, PUInt w' c' | PFloat w c, PFloat w' c' =>
      (w =? w') && match c, c' with Sat, Sat | Trunc, Trunc => true | _, _ => false end
  | PSInt w, PSInt w' => w =? w'
  | _, _ => false
  end.

Section Ev.
Variable E : ty -> ty -> bool.
Fixpoint fields_evolve (a b : list (option str * ty)) : bool :=
  match a, b with
  | [], [] => true
  | x :: a', y :: b' =>
      (match fst x, fst y with None, None => true | Some _, Some _ => true | _, _ => false end)
      && E (snd x) (snd y) && fields_evolve a' b'
  | _, _ => false
  end.
(* equal up to evolution on the common prefix, anything afterwards on either side *)
Fixpoint fields_prefix_evolve (a b : list (option str * ty)) : bool :=
  match a, b with
  | [], _ => true
  | _, [] => true
  | x :: a', y :: b' =>
      (match fst x, fst y with None, None => true | Some _, Some _ => true | _, _ => false end)
      && E (snd x) (snd y) && fields_prefix_evolve a' b'
  end.
End Ev.

Fixpoint evolves (t1 t2 : ty) {struct t1} : bool :=
  match t1, t2 with
  | TPrim p, TPrim q => prim_eqb p q
  | TVoid w, TVoid w' => w =? w'
  | TFix e n, TFix e' n' => (n =? n') && evolves e e'
  | TVar e n, TVar e' n' => (n =? n') && evolves e e'
  | TStruct _ fs, TStruct _ gs => fields_evolve evolves fs gs
  | TUnion _ fs, TUnion _ gs => fields_evolve evolves fs gs
  | TDelim (TStruct _ fs) x, TDelim (TStruct _ gs) x' => (x =? x') && fields_prefix_evolve evolves fs gs
  | TDelim i x, TDelim i' x' => (x =? x') && evolves i i'
  | _, _ => false
  end.

(* written with tw, read with tr *)
Inductive case := Case (tw tr : ty) (v : val) (lw lr : lobs) (o : C06.sobs).

Definition check_case (c : case) : bool :=
  match c with
  | Case tw tr v lw lr o =>
      C06.type_ok tw && C06.type_ok tr && evolves tw tr && check_lobs tw lw && check_lobs tr lr &&
      match serialize tw v false, o with
      | Ok bs, C06.SBytes bs' back => list_eqb bs bs' && C06.check_dobs (deserialize tr bs false) back
      | Err e, C06.SErr c => ecls_eqb (C06.cls e) c
      | _, _ => false
      end
  end.
