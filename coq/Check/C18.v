(* Comparer for C18 case files. *)
From Coq Require Import ZArith List Bool.
From PV Require Import Util.ListSet Util.Sumset BLS.Model Layout.Types EqHash.Model Check.Compare.
Import ListNotations.
Open Scope Z_scope.

Record pobs := { eq_ab : bool; eq_ba : bool; ne_ab : bool; eq_aa : bool; eq_bb : bool; hash_same : bool }.

Definition consistent (model_eq : bool) (o : pobs) : bool :=
  Bool.eqb (eq_ab o) model_eq && Bool.eqb (eq_ba o) model_eq && Bool.eqb (ne_ab o) (negb model_eq)
  && eq_aa o && eq_bb o && (implb model_eq (hash_same o)).

Inductive item :=
| PTypes (a b : ty) (o : pobs)
| PFields (a b : option str * ty) (o : pobs)
| PConsts (a b : (option str * ty) * cval) (o : pobs)
| PSets (a b : op) (o : pobs)
| PValues (a b : cval) (o : pobs)
| PValueSets (a b : list cval) (o : pobs).      (* DSDL set values: equal iff equal as sets *)

Definition vset_incl (a b : list cval) : bool := forallb (fun x => existsb (cval_eqb x) b) a.

Definition check_item (it : item) : bool :=
  match it with
  | PTypes a b o => wft a && wft b && consistent (ty_eq a b) o
  | PFields a b o => consistent (field_eq a b) o
  | PConsts a b o => consistent (const_eq a b) o
  | PValues a b o => consistent (cval_eqb a b) o
  | PValueSets a b o => consistent (vset_incl a b && vset_incl b a) o
  | PSets a b o => wfb a && wfb b && consistent ((omin a =? omin b) && (omax a =? omax b) && list_eqb (omodf a 32) (omodf b 32)) o
  end.

Definition case := list item.
Definition check_case (c : case) : bool := forallb check_item c.
