(* Comparer for C12 case files: the model's verdict on (type, initialiser value) must equal what the implementation did. *)
From Coq Require Import ZArith QArith List Bool.
From PV Require Import Expr.Values Const.Model Check.Compare.
Import ListNotations.

(* how the pair reached the implementation: pydsdl.Constant(type, name, value) or a definition text read from disk *)
Inductive chan := ViaCtor | ViaText.

(* observation: accepted with Constant.value.native_value (numerator, denominator of the Fraction, or the bool),
   or rejected with an exception of the given coarse class *)
Inductive obs := OAccRat (n : Z) (d : positive) | OAccBool (b : bool) | ORej (c : ecls).

Definition case := (chan * ctype * value * obs)%type.

Definition model (ch : chan) (t : ctype) (v : value) : cres :=
  match ch with ViaCtor => const_check t v | ViaText => const_text t v end.

Definition check_case (c : case) : bool :=
  match c with
  | (ch, t, v, o) =>
    match model ch t v, o with
    | COk (VRat q), OAccRat n d => (Qnum (Qred q) =? n)%Z && (Qden (Qred q) =? d)%positive
    | COk (VBool b), OAccBool b' => Bool.eqb b b'
    | CRej, ORej e => ecls_eqb e CInvalidDefinition
    | _, _ => false
    end
  end.
