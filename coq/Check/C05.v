(* Comparer for C05 case files: the implementation's verdict on a definition must be the model's verdict, and a
   rejection must be an InvalidDefinitionError. *)
From Coq Require Import ZArith List Bool.
From PV Require Import Util.ListSet BLS.Model Layout.Types Rules.Names Rules.Defn Rules.Accept Check.Compare.
Import ListNotations.
Open Scope Z_scope.

Inductive obs := OAccept | OReject (c : ecls).

Record case := mkCase { c_env : env; c_defn : defn; c_obs : obs }.

Definition check_case (c : case) : bool :=
  match c_obs c with
  | OAccept => accept (c_env c) (c_defn c)
  | OReject CInvalidDefinition => negb (accept (c_env c) (c_defn c))
  | OReject _ => false
  end.
