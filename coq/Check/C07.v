(* Comparer for C07 case files: what the implementation's deserialize makes of a hostile byte string (decoded value or
   coarse exception class) must equal the model's result. *)
From Coq Require Import ZArith List Bool.
From PV Require Import Util.ListSet BLS.Model Layout.Types Serdes.Model Serdes.ValEq Check.Compare Check.C06.
Import ListNotations.
Open Scope Z_scope.

Inductive case := Case (t : ty) (hdr : bool) (data : list Z) (o : C06.dobs).

Definition bytes_ok (data : list Z) : bool := forallb (fun b => (0 <=? b) && (b <=? 255)) data.

Definition check_case (c : case) : bool :=
  match c with
  | Case t hdr data o => C06.type_ok t && bytes_ok data && C06.check_dobs (deserialize t data hdr) o
  end.
