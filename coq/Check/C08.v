(* Comparer for C08 case files. *)
From Coq Require Import ZArith List Bool.
From PV Require Import Util.ListSet Util.Sumset BLS.Model Layout.Types Layout.Offsets Check.Compare.
Import ListNotations.
Open Scope Z_scope.

Record fobs := { f_min : Z; f_max : Z; f_mods : list (Z * list Z); f_exp : option (list Z) }.

Definition check_op (O : op) (o : fobs) : bool :=
  wfb O && (omin O =? f_min o) && (omax O =? f_max o)
  && forallb (fun dl => list_eqb (snd dl) (omodf O (fst dl))) (f_mods o)
  && (match f_exp o with Some l => list_eqb l (oexpandf O) | None => true end).

Definition str_eqb (a b : option str) : bool :=
  match a, b with Some x, Some y => list_eqb x y | None, None => true | _, _ => false end.

Fixpoint all2b {A B} (f : A -> B -> bool) (l1 : list A) (l2 : list B) : bool :=
  match l1, l2 with
  | [], [] => true
  | x :: r1, y :: r2 => f x y && all2b f r1 r2
  | _, _ => false
  end.

Inductive item :=
| IFields (t : ty) (base : op) (names : list (option str)) (obs : list fobs)
| IElems (t : ty) (base : op) (obs : list (Z * fobs))
| IIntr (is_union : bool) (fs : list field) (vals : list Z)
| IAttr (t : ty) (bl : option (list Z)) (ext : option Z).

Definition check_item (it : item) : bool :=
  match it with
  | IFields t base names obs =>
      wft t && wfb base &&
      all2b str_eqb (map (fun fo => fst (fst fo)) (field_offsets t base)) names &&
      all2b (fun fo o => check_op (snd fo) o) (field_offsets t base) obs
  | IElems t base obs =>
      wft t && wfb base &&
      match t with
      | TFix e n => list_eqb (map fst obs) (map Z.of_nat (seq 0 (length obs))) && forallb (fun io => (0 <=? fst io) && (fst io <? n) && check_op (elem_offset e base (fst io)) (snd io)) obs
      | _ => false
      end
  | IIntr u fs vals => forallb (fun f => wft (snd f)) fs && list_eqb vals (oexpandf (offset_intrinsic u fs))
  | IAttr t bl ext =>
      wft t && (match bl with Some l => list_eqb l (oexpandf (bls t)) | None => true end)
      && (match ext with Some e => e =? extent t | None => true end)
  end.

Definition case := list item.
Definition check_case (c : case) : bool := forallb check_item c.
