(* Comparer for C09 case files (and the shared part of the C10 / C19 comparers): a case is a directory tree with
   abstract definition texts plus a list of calls of read_namespace / read_files with what the implementation
   returned; the model (Namespace/Reader.v, Namespace/Listing.v) is evaluated on the same call and compared. *)
From Coq Require Import ZArith List Bool.
From PV Require Import Namespace.Reader Namespace.Listing Check.Compare.
Import ListNotations.
Open Scope Z_scope.

(* what the runner reads off a returned CompositeType: source file, full name, version, and the same for the
   composite types of its fields (through arrays), in field order *)
Inductive otree := ONode (file : Z) (nm : str) (maj min : Z) (kids : list otree).

Inductive obs :=
| OOk (direct trans : list otree) (deliv : list (Z * Z * Z)) (opened : list Z)
| OErr (c : ecls).

Record case := mkCase {
  cfiles : list fent;
  ctexts : list (Z * list item);
  cqueries : list (query * obs)
}.

Definition txt_of (l : list (Z * list item)) (f : Z) : list item :=
  match find (fun p => fst p =? f) l with Some p => snd p | None => [] end.

(* Two files of one directory that encode the same name and version (A.1.0.dsdl + A.1.0.uavcan, or with a port-ID
   prefix) are read in the iteration order of a Python set; when their composites are equal one of them survives
   (open finding F5b).  File ids are compared up to this choice; the generator gives such twins identical texts. *)
Definition twin (a b : fent) : bool :=
  is_prefix (fdir a) (fdir b) && is_prefix (fdir b) (fdir a) && str_eqb (fshort a) (fshort b) &&
  (fmaj a =? fmaj b) && (fmin a =? fmin b) && globbed a && globbed b.
Definition canon (files : list fent) (f : Z) : Z :=
  match find (fun x => fid x =? f) files with
  | Some x => fold_right (fun y acc => if twin x y then Z.min (fid y) acc else acc) f files
  | None => f
  end.
Definition has_twins (files : list fent) : bool :=
  existsb (fun a => existsb (fun b => negb (fid a =? fid b) && twin a b) files) files.

Fixpoint tree_match (cf : Z -> Z) (t : ctree) (o : otree) : bool :=
  match t, o with
  | Node f n a b _ ks, ONode f' n' a' b' ks' =>
      (cf f =? cf f') && str_eqb n n' && (a =? a') && (b =? b') &&
      (fix go (l : list ctree) (l' : list otree) : bool :=
         match l, l' with
         | [], [] => true
         | x :: r, y :: r' => tree_match cf x y && go r r'
         | _, _ => false
         end) ks ks'
  end.

Fixpoint trees_match (cf : Z -> Z) (l : list ctree) (l' : list otree) : bool :=
  match l, l' with
  | [], [] => true
  | x :: r, y :: r' => tree_match cf x y && trees_match cf r r'
  | _, _ => false
  end.

(* as sets: same number, every observed tree is one of the model's *)
Definition trees_match_set (cf : Z -> Z) (l : list ctree) (l' : list otree) : bool :=
  (length l =? length l')%nat && forallb (fun o => existsb (fun t => tree_match cf t o) l) l'.

Definition is_ns (q : query) : bool := match q with QNamespace _ _ _ => true | _ => false end.

(* every error of the model except the two that the theorems exclude stands for an InvalidDefinitionError *)
Definition real_err (e : rerr) : bool := match e with EFuel | EUnreachable => false | _ => true end.

Definition model (c : case) (q : query) : res output := run_query (txt_of (ctexts c)) (cfiles c) q.

(* C09: which definitions the references were resolved to (the trees), or that the call failed with
   InvalidDefinitionError.  Order and the direct / transitive split are C10's subject: compared as one set. *)
Definition check_query (c : case) (qo : query * obs) : bool :=
  let q := fst qo in
  let cf := canon (cfiles c) in
  match model c q, snd qo with
  | Ok out, OOk d t _ _ =>
      if is_ns q then trees_match_set cf (odirect out) d
      else trees_match_set cf (odirect out ++ otrans out) (d ++ t)
  | Err e, OErr CInvalidDefinition => real_err e
  | _, _ => false
  end.

Definition check_case (c : case) : bool := forallb (check_query c) (cqueries c).
