(* Helpers used by the generated case files. *)
From Coq Require Import ZArith List Bool.
Import ListNotations.

Section M.
Context {A : Type} (f : A -> bool).
Fixpoint mism_from (i : nat) (l : list A) : list nat :=
  match l with [] => [] | x :: r => if f x then mism_from (S i) r else i :: mism_from (S i) r end.
Definition mismatches (l : list A) : list nat := mism_from 0 l.
End M.

(* result of running the implementation on a case *)
Inductive ecls := CInvalidDefinition | CSerDes | CValueError | CTypeError | CInternal | COther.
Definition ecls_eqb (a b : ecls) : bool :=
  match a, b with
  | CInvalidDefinition, CInvalidDefinition | CSerDes, CSerDes | CValueError, CValueError
  | CTypeError, CTypeError | CInternal, CInternal | COther, COther => true
  | _, _ => false
  end.
