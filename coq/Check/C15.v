(* Comparer for C15 case files: a directory tree and a list of read_files / read_namespace calls with the
   implementation's answers; the model must predict every answer (identities as a set, or the rejection class). *)
From Coq Require Import ZArith List Bool.
From PV Require Import Util.ListSet Namespace.Paths Check.Compare.
Import ListNotations.
Open Scope Z_scope.

Inductive call :=
| CFiles (cwd : list comp) (targets roots lookups : list path)
| CNamespace (cwd : list comp) (root : path) (lookups : list path).

(* ids: the returned types; secs: request_type and response_type of every returned service type *)
Inductive obsv := OOk (ids : list ident) (secs : list ident) | OErr (e : ecls).

(* the two sections of a service share its version, file and root namespace directory; they have no port-ID and are
   named <service>.Request / <service>.Response (C15_points_back_sections: this is what CompositeType.__init__ computes) *)
Definition sections_of_ident (fs : fsys) (i : ident) : list ident :=
  if file_is_service fs (i_file i)
  then [mkId (i_name i ++ REQUEST) (i_major i) (i_minor i) None (i_file i) (i_root i);
        mkId (i_name i ++ RESPONSE) (i_major i) (i_minor i) None (i_file i) (i_root i)]
  else [].

Record case := mkCase { tree : fsys; calls : list (call * obsv) }.

Definition opt_eqb (a b : option Z) : bool :=
  match a, b with Some x, Some y => x =? y | None, None => true | _, _ => false end.

Definition ident_eqb (a b : ident) : bool :=
  list_eqb (i_name a) (i_name b) && (i_major a =? i_major b) && (i_minor a =? i_minor b)
  && opt_eqb (i_port a) (i_port b) && strs_eqb (i_file a) (i_file b) && strs_eqb (i_root a) (i_root b).

Definition same_set (a b : list ident) : bool :=
  Nat.eqb (length a) (length b) && forallb (fun x => existsb (ident_eqb x) b) a && forallb (fun x => existsb (ident_eqb x) a) b.

Definition run_call (fs : fsys) (c : call) : res (list ident) :=
  match c with
  | CFiles cwd ts rs ls => read_files fs cwd ts rs ls
  | CNamespace cwd r ls => read_namespace fs cwd r ls
  end.

Definition check_call (fs : fsys) (co : call * obsv) : bool :=
  match run_call fs (fst co), snd co with
  | Ok ids, OOk ids' secs' => same_set ids ids' && same_set (flat_map (sections_of_ident fs) ids) secs'
  | Err RInvalid, OErr CInvalidDefinition => true
  | Err RValueError, OErr CValueError => true
  | Err ROther, OErr COther => true
  | _, _ => false
  end.

Definition check_case (c : case) : bool := forallb (check_call (tree c)) (calls c).

(* short constructors for the generated files *)
Definition I (n : str) (mj mn : Z) (p : option Z) (f r : list comp) : ident := mkId n mj mn p f r.
