(* Comparer for C10 case files: the ORDERED lists of (source file, full name, version, nested types) returned by
   read_namespace (direct) and read_files (direct, transitive), or rejection with InvalidDefinitionError, must be
   the model's (Namespace/Listing.v run_query). *)
From Coq Require Import ZArith List Bool.
From PV Require Import Namespace.Reader Namespace.Listing Check.Compare Check.C09.
Import ListNotations.
Open Scope Z_scope.

Definition case := C09.case.

Definition check_query (c : case) (qo : query * obs) : bool :=
  let q := fst qo in
  let cf := canon (cfiles c) in
  match model c q, snd qo with
  | Ok out, OOk d t _ _ => trees_match cf (odirect out) d && (is_ns q || trees_match cf (otrans out) t)
  | Err e, OErr CInvalidDefinition => real_err e
  | _, _ => false
  end.

Definition check_case (c : case) : bool := forallb (check_query c) (cqueries c).
