(* Comparer for C06 case files: the implementation's serialized bytes and the value it decodes from them must equal
   the model's. *)
From Coq Require Import ZArith List Bool.
From PV Require Import Util.ListSet BLS.Model Layout.Types Serdes.Model Serdes.ValEq Check.Compare.
Import ListNotations.
Open Scope Z_scope.

Definition cls (e : err) : ecls :=
  match e with
  | EArrayLength | EUnionField | EUnionTag | EDelimHeader => CSerDes
  | EUtf8 | EValue => CValueError
  | EType => CTypeError
  | EShape => COther
  end.

(* what deserialize did *)
Inductive dobs := DVal (v : val) | DErr (c : ecls).
(* what serialize did, and what deserialize made of the produced bytes *)
Inductive sobs := SBytes (bs : list Z) (back : dobs) | SErr (c : ecls).

Definition check_dobs (m : res val) (o : dobs) : bool :=
  match m, o with
  | Ok v, DVal v' => val_eqb v v'
  | Err e, DErr c => ecls_eqb (cls e) c
  | _, _ => false
  end.

(* a step of a history on ONE type object: serialize a value / deserialize a byte string; the model is pure, so every step is
   judged on its own, whatever the application did with earlier results *)
Inductive step := SSer (v : val) (hdr : bool) (o : sobs) | SDes (data : list Z) (hdr : bool) (o : dobs).

Inductive case := Case (t : ty) (v : val) (hdr : bool) (o : sobs) | Hist (t : ty) (steps : list step).

Definition type_ok (t : ty) : bool := wft t && serializable t && is_composite t.

Definition check_ser (t : ty) (v : val) (hdr : bool) (o : sobs) : bool :=
  match serialize t v hdr, o with
  | Ok bs, SBytes bs' back => list_eqb bs bs' && check_dobs (deserialize t bs hdr) back
  | Err e, SErr c => ecls_eqb (cls e) c
  | _, _ => false
  end.

Definition check_step (t : ty) (s : step) : bool :=
  match s with
  | SSer v hdr o => check_ser t v hdr o
  | SDes data hdr o => forallb (fun b => (0 <=? b) && (b <=? 255)) data && check_dobs (deserialize t data hdr) o
  end.

Definition check_case (c : case) : bool :=
  match c with
  | Case t v hdr o => type_ok t && check_ser t v hdr o
  | Hist t steps => type_ok t && forallb (check_step t) steps
  end.
