(* Comparer for C04 case files: the text fed to the implementation is the rendering of the case's expression tree
   (token lists compared here), and what the implementation delivered through the chosen channel must be what the
   model's evaluation of that tree yields. *)
From Coq Require Import ZArith QArith List Bool.
From PV Require Import Expr.Values Expr.Syntax Expr.Literals Expr.Sem Expr.Eval Expr.Grammar Expr.Parser Const.Model Check.Compare.
Import ListNotations.

(* where the expression stands in the definition text *)
Inductive chan :=
| ChPrint                  (* @print e            value channel: the text given to print_output_handler, parsed back *)
| ChAssert                 (* @assert e           passes iff e is the boolean true *)
| ChConst (t : ctype)      (* <t> X = e           Constant.value *)
| ChCap (mode : Z)         (* uint8[e] / uint8[<=e] / uint8[<e]  (mode 0/1/2): capacity of the field type *)
| ChExtent.                (* @extent e           extent of the (empty) delimited type *)

Inductive obs := OVal (v : value) | OPass | OInt (z : Z) | ORej (c : ecls).

(* constants declared before the statement: name, declared type, initialiser value *)
Definition envdecl := (list Z * ctype * value)%type.

Definition case := (list envdecl * expr * list token * chan * obs)%type.

Fixpoint build_env (ds : list envdecl) : option env :=
  match ds with
  | [] => Some []
  | (n, t, v) :: r =>
      match const_text t v, build_env r with
      | COk v', Some g => Some ((n, v') :: g)
      | _, _ => None
      end
  end.

Inductive mres := MVal (v : value) | MPass | MInt (z : Z) | MRej.

Definition int_of (v : value) : option Z :=
  match v with VRat q => if is_int q then Some (qnum q) else None | _ => None end.

Definition chan_model (ch : chan) (v : value) : mres :=
  match ch with
  | ChPrint => MVal v
  | ChAssert => match v with VBool true => MPass | _ => MRej end
  | ChConst t => match const_text t v with COk v' => MVal v' | CRej => MRej end
  | ChCap m =>
      match int_of v with
      | Some n =>
          let c := (if m =? 2 then n - 1 else n)%Z in
          if (1 <=? c)%Z && ((m =? 0)%Z || (c <? 2 ^ 64)%Z) then MInt c else MRej
      | None => MRej
      end
  | ChExtent =>
      match int_of v with
      | Some n => if (0 <=? n)%Z && (n mod 8 =? 0)%Z then MInt n else MRej
      | None => MRej
      end
  end.

Definition agree (m : mres) (o : obs) : bool :=
  match m, o with
  | MVal v, OVal v' => value_eqb v v'
  | MPass, OPass => true
  | MInt a, OInt b => (a =? b)%Z
  | MRej, ORej c => ecls_eqb c CInvalidDefinition
  | _, _ => false
  end.

Definition model (ds : list envdecl) (e : expr) : option res :=
  match build_env ds with Some g => Some (eval g e) | None => None end.

(* the tokens fed are the model's rendering of the tree, and the deterministic PEG model parses them back to that tree *)
Definition text_ok (e : expr) (toks : list token) : bool :=
  tokens_eqb (render_min e) toks &&
  match parse_expr toks with Some e' => expr_eqb e' (parenthesize e) | None => false end.

Definition check_case (c : case) : bool :=
  match c with
  | (ds, e, toks, ch, o) =>
      text_ok e toks &&
      match model ds e with
      | None => false
      | Some (Ok v) => agree (chan_model ch v) o
      | Some Rej => agree MRej o
      | Some Unspec => match o with ORej c => ecls_eqb c CInvalidDefinition | _ => true end
      end
  end.
