(* Comparer for C03 case files: the line machine is run on the abstract lines of a definition and its model is compared
   with what pydsdl returned for the rendered text (every formatting variant returned the same - checked by the harness). *)
From Coq Require Import ZArith List Bool.
From PV Require Import Builder.Lines Builder.Syntax Check.Compare.
Import ListNotations.
Open Scope Z_scope.

Definition xline := line tyx text Z.
Definition xmodel := model tyx text.

Record osect := OSect {
  o_union : bool;
  o_extent : option Z;                            (* Some e: DelimitedType.extent as declared *)
  o_doc : text;
  o_fields : list (text * text * text);           (* str(data_type), name ("" for padding), doc *)
  o_consts : list (text * text * text * text);    (* str(data_type), name, str(value), doc *)
  o_attrs : list text                             (* names in the order of CompositeType.attributes *)
}.
Record oobs := OObs { o_deprecated : bool; o_req : osect; o_resp : option osect }.
Inductive iobs := IOk (o : oobs) | IErr.

Definition case := (list xline * iobs)%type.

Definition view_field (ad : attr tyx text * text) : text * text * text :=
  match fst ad with
  | AField t n => (ty_str t, n, snd ad)
  | APad t => (ty_str t, [], snd ad)
  | AConst t n _ => (ty_str t, n, snd ad)
  end.
Definition view_const (ad : attr tyx text * text) : text * text * text * text :=
  match fst ad with
  | AConst t n v => (ty_str t, n, v, snd ad)
  | AField t n => (ty_str t, n, [], snd ad)
  | APad t => (ty_str t, [], [], snd ad)
  end.
Definition attr_name (ad : attr tyx text * text) : text :=
  match fst ad with AField _ n => n | APad _ => [] | AConst _ n _ => n end.
(* DataSchemaBuilder.attributes: fields, then constants *)
Definition view_sect (k : sect tyx text) : osect :=
  OSect (k_union _ _ k) (k_extent _ _ k) (k_doc _ _ k) (map view_field (k_fields _ _ k)) (map view_const (k_consts _ _ k))
        (map attr_name (k_fields _ _ k ++ k_consts _ _ k)).
Definition view (m : xmodel) : oobs :=
  OObs (m_deprecated _ _ m) (view_sect (m_req _ _ m)) (option_map view_sect (m_resp _ _ m)).

Definition run_lines (ls : list xline) : option oobs :=
  match run tyx text Z unit (fun _ w => (w, None)) (fun _ _ w => w) ls tt with
  | Ok (m, _) => Some (view m)
  | Err _ _ => None
  end.

Section Eq.
Context {A : Type} (eq : A -> A -> bool).
Fixpoint leqb (a b : list A) : bool :=
  match a, b with
  | [], [] => true
  | x :: a', y :: b' => eq x y && leqb a' b'
  | _, _ => false
  end.
Definition oeqb (a b : option A) : bool :=
  match a, b with Some x, Some y => eq x y | None, None => true | _, _ => false end.
End Eq.

Definition f3eqb (a b : text * text * text) : bool :=
  match a, b with (a1, a2, a3), (b1, b2, b3) => text_eqb a1 b1 && text_eqb a2 b2 && text_eqb a3 b3 end.
Definition c4eqb (a b : text * text * text * text) : bool :=
  match a, b with (a1, a2, a3, a4), (b1, b2, b3, b4) => text_eqb a1 b1 && text_eqb a2 b2 && text_eqb a3 b3 && text_eqb a4 b4 end.
Definition osect_eqb (a b : osect) : bool :=
  Bool.eqb (o_union a) (o_union b) && oeqb Z.eqb (o_extent a) (o_extent b) && text_eqb (o_doc a) (o_doc b)
  && leqb f3eqb (o_fields a) (o_fields b) && leqb c4eqb (o_consts a) (o_consts b) && leqb text_eqb (o_attrs a) (o_attrs b).
Definition oobs_eqb (a b : oobs) : bool :=
  Bool.eqb (o_deprecated a) (o_deprecated b) && osect_eqb (o_req a) (o_req b) && oeqb osect_eqb (o_resp a) (o_resp b).

Definition check_case (c : case) : bool :=
  match run_lines (fst c), snd c with
  | Some m, IOk o => oobs_eqb m o
  | None, IErr => true
  | _, _ => false
  end.
