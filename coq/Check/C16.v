(* Comparer for C16 case files: every logged modulo() call of the implementation enumerated no more than the cost
   model says (one-sided: the proven bounds are upper bounds, and a rewrite that enumerates less keeps the property), produced no more residues than its divisor, and numeric expansion was never invoked. *)
From Coq Require Import ZArith List Bool.
From PV Require Import Util.ListSet Util.Sumset BLS.Model BLS.Cost Check.Compare.
Import ListNotations.
Open Scope Z_scope.

Record call := { c_kind : okind; c_div : Z; c_k : Z; c_sizes : list Z; c_local : Z; c_out : Z }.

Definition check_call (c : call) : bool :=
  (1 <=? c_div c) && (c_out c <=? c_div c) && (c_local c <=? local_cost (c_kind c) (c_sizes c) (c_k c) (c_div c))
  && forallb (fun s => s <=? Z.lcm 8 (c_div c)) (c_sizes c)     (* children's residue sets are bounded by the divisor reaching them *)
  && (match c_kind c with KCat => (Nat.leb (length (c_sizes c)) 2) && (c_local c <=? c_div c * c_div c) | _ => true end).

Record variant := { v_cap : Z; v_total : Z; v_expands : Z; v_queried : list Z; v_calls : list call }.

(* every divisor that reaches any operator is a queried divisor or its lcm with the byte (alignments are 1 or 8): no query
   is ever answered through a larger modulus than its own *)
Definition divisor_ok (queried : list Z) (c : call) : bool :=
  existsb (fun q => (c_div c =? q) || (c_div c =? Z.lcm 8 q)) queried.

Definition check_variant (v : variant) : bool :=
  (v_expands v =? 0) && forallb check_call (v_calls v) && forallb (divisor_ok (v_queried v)) (v_calls v)
  && (v_total v =? zsum (map c_local (v_calls v))).

Definition case := list variant.
Definition check_case (c : case) : bool := forallb check_variant c.
