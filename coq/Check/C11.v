(* Comparer for C11 case files: the implementation's verdict on a set of definitions must be the model's. *)
From Coq Require Import ZArith List Bool.
From PV Require Import Util.ListSet Namespace.CrossRules Check.Compare.
Import ListNotations.
Open Scope Z_scope.

(* observation: None = the call returned; Some c = it raised an exception of class c *)
Record case := mkCase { direct : list summary; transitive : list summary; obs : option ecls }.

Definition check_case (c : case) : bool :=
  match run (direct c) (transitive c), obs c with
  | Accept, None => true
  | Reject, Some CInvalidDefinition => true
  | _, _ => false
  end.

(* short constructors for the generated files *)
Definition M (n : list Z) (mj mn : Z) (e : Z) (s : bool) (p : option Z) : summary :=
  mkSum n mj mn (Msg (mkLay e s)) p.
Definition S (n : list Z) (mj mn : Z) (e1 : Z) (s1 : bool) (e2 : Z) (s2 : bool) (p : option Z) : summary :=
  mkSum n mj mn (Svc (mkLay e1 s1) (mkLay e2 s2)) p.
