(* Comparer for C17 case files: the reader model is run on a namespace of abstract files; the predicted error
   (class, path, line) and the predicted deliveries to the print handler are compared with the observation. *)
From Coq Require Import ZArith List Bool.
From PV Require Import Builder.Lines Builder.Reader Check.Compare Check.C03.
Import ListNotations.
Open Scope Z_scope.

Definition yline := line unit unit Z.
Definition yfile := file unit unit.

(* outcome of read_namespace: success, or the class of the exception with Error.path (relative to the scratch root) and Error.line *)
Inductive outc := ROk | RErr (c : ecls) (path : option text) (ln : option Z).

Record case := Case {
  files : list yfile;
  lookups : list Z;          (* numbers of all files reachable through the lookup list *)
  targets : list Z;          (* numbers of the files of the root namespace, in the order _read_definitions visits them *)
  out : outc;
  deliveries : list delivery
}.

Definition deq (a b : delivery) : bool :=
  match a, b with (p, n, s), (q, m, t) => text_eqb p q && (n =? m) && text_eqb s t end.

Definition check_case (c : case) : bool :=
  let (ps, r) := read_ns unit unit (files c) (lookups c) (targets c) in
  leqb deq ps (deliveries c) &&
  match r, out c with
  | None, ROk => true
  | Some e, RErr CInvalidDefinition p n => oeqb text_eqb (e_path e) p && oeqb Z.eqb (e_line e) n
  | _, _ => false
  end.
