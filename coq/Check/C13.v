(* Comparer for C13 case files.  Structured cases (an expression statement with known failure modes) are compared with
   the outcome class the model predicts; for arbitrary texts / file names there is no model prediction: the case
   only records the outcome class of the implementation, which has to be "a model" or "InvalidDefinitionError". *)
From Coq Require Import ZArith QArith List Bool.
From PV Require Import Expr.Values Expr.Syntax Expr.Sem Expr.Eval Expr.Grammar Const.Model Outcome.Model Check.Compare Check.C04.
Import ListNotations.

(* what the implementation did: returned type models, or raised an exception of the given coarse class *)
Inductive iout := IModel | IErr (c : ecls).

Definition outcome_of_impl (o : iout) : outcome :=
  match o with
  | IModel => OValue
  | IErr CInvalidDefinition => OInvalid
  | IErr CInternal => OInternal
  | IErr _ => OOther
  end.

Definition outcome_eqb (a b : outcome) : bool :=
  match a, b with OValue, OValue | OInvalid, OInvalid | OInternal, OInternal | OOther, OOther => true | _, _ => false end.

Inductive case :=
| Structured (ds : list C04.envdecl) (e : expr) (toks : list token) (ch : C04.chan) (o : iout)
| Hostile (o : iout).

Definition accepts (ch : C04.chan) (v : value) : bool :=
  match C04.chan_model ch v with C04.MRej => false | _ => true end.

Definition check_case (c : case) : bool :=
  match c with
  | Structured ds e toks ch o =>
      C04.text_ok e toks &&
      match C04.model ds e with
      | Some r => existsb (outcome_eqb (outcome_of_impl o)) (predicted r (accepts ch))
      | None => false
      end
  | Hostile o =>
      match outcome_of_impl o with OValue | OInvalid => true | _ => false end
  end.
