(* Comparer for C02 case files. *)
From Coq Require Import ZArith List Bool.
From PV Require Import Util.ListSet Util.Sumset BLS.Model Layout.Types Check.Compare.
Import ListNotations.
Open Scope Z_scope.

Record tobs := {
  o_align : Z; o_min : Z; o_max : Z;
  o_mods : list (Z * list Z);      (* divisor, sorted residues *)
  o_exp : option (list Z);         (* numeric expansion when small *)
  o_extent : option Z;             (* composites *)
  o_aux : option Z                 (* prefix width (variable arrays) / tag width (unions) / header width (delimited) *)
}.

Definition opt_eqb (a b : option Z) : bool :=
  match a, b with Some x, Some y => x =? y | None, None => true | _, _ => false end.

Definition model_aux (t : ty) : option Z :=
  match t with
  | TVar e n => Some (prefix_width (align e) n)
  | TUnion _ fs => Some (union_tag_width fs)
  | TDelim i _ => Some (header_width (align i))
  | _ => None
  end.

Definition model_extent (t : ty) : option Z := if is_composite t then Some (extent t) else None.

Inductive nodeobs := Accepted (o : tobs) | Rejected.

Definition check_node (n : ty * nodeobs) : bool :=
  let t := fst n in
  match snd n with
  | Rejected => negb (wft t)
  | Accepted o =>
      wft t && (align t =? o_align o) && (omin (bls t) =? o_min o) && (omax (bls t) =? o_max o)
      && forallb (fun dl => list_eqb (snd dl) (omodf (bls t) (fst dl))) (o_mods o)
      && (match o_exp o with Some l => list_eqb l (oexpandf (bls t)) | None => true end)
      && opt_eqb (model_extent t) (o_extent o) && opt_eqb (model_aux t) (o_aux o)
  end.

Definition case := list (ty * nodeobs).
Definition check_case (c : case) : bool := forallb check_node c.
