(* Comparer for C19 case files: the complete observable outcome of a call - returned types, the calls of the print
   handler (path it was called with, file the directive is in, line) in order, and the set of definition files whose
   text was read - must be the model's.  (That the outcome is unchanged when a file outside the closure is
   replaced is evaluated by the runner on the implementation; the model's `opened` list is what C19_opened_in_closure
   bounds.) *)
From Coq Require Import ZArith List Bool.
From PV Require Import Namespace.Reader Namespace.Listing Check.Compare Check.C09.
Import ListNotations.
Open Scope Z_scope.

Definition case := C09.case.

Fixpoint zinsert (x : Z) (l : list Z) : list Z :=
  match l with [] => [x] | y :: r => if x <=? y then x :: l else y :: zinsert x r end.
Definition zsort (l : list Z) : list Z := fold_right zinsert [] l.
Fixpoint zdedupe (l : list Z) : list Z :=
  match l with
  | x :: ((y :: _) as r) => if x =? y then zdedupe r else x :: zdedupe r
  | _ => l
  end.
Fixpoint zlist_eqb (a b : list Z) : bool :=
  match a, b with [], [] => true | x :: a', y :: b' => (x =? y) && zlist_eqb a' b' | _, _ => false end.

Definition triple_leb (a b : Z * Z * Z) : bool :=
  let '(a1, a2, a3) := a in let '(b1, b2, b3) := b in
  (a1 <? b1) || ((a1 =? b1) && ((a2 <? b2) || ((a2 =? b2) && (a3 <=? b3)))).
Definition triple_eqb (a b : Z * Z * Z) : bool :=
  let '(a1, a2, a3) := a in let '(b1, b2, b3) := b in (a1 =? b1) && (a2 =? b2) && (a3 =? b3).
Fixpoint triples_eqb (a b : list (Z * Z * Z)) : bool :=
  match a, b with [], [] => true | x :: a', y :: b' => triple_eqb x y && triples_eqb a' b' | _, _ => false end.

(* with twins (see Check/C09.v) the order in which the two files are read is the iteration order of a Python set:
   handler calls are then compared as a multiset and up to the choice of the twin *)
Definition canon3 (cf : Z -> Z) (x : Z * Z * Z) : Z * Z * Z := let '(a, b, c) := x in (cf a, cf b, c).
Definition deliv_match (cf : Z -> Z) (twins : bool) (m o : list (Z * Z * Z)) : bool :=
  if twins then triples_eqb (isort triple_leb (map (canon3 cf) m)) (isort triple_leb (map (canon3 cf) o)) else triples_eqb m o.

Definition check_query (c : case) (qo : query * obs) : bool :=
  let q := fst qo in
  let cf := canon (cfiles c) in
  match model c q, snd qo with
  | Ok out, OOk d t dl op =>
      trees_match cf (odirect out) d && (is_ns q || trees_match cf (otrans out) t) &&
      deliv_match cf (has_twins (cfiles c)) (odeliv out) dl &&
      zlist_eqb (zdedupe (zsort (oopened out))) (zdedupe (zsort op))
  | Err e, OErr CInvalidDefinition => real_err e
  | _, _ => false
  end.

Definition check_case (c : case) : bool := forallb (check_query c) (cqueries c).
