(* Comparer for C01 case files: every observation of the implementation must equal the model's value. *)
From Coq Require Import ZArith List Bool.
From PV Require Import Util.ListSet Util.Sumset BLS.Model Check.Compare.
Import ListNotations.
Open Scope Z_scope.

Inductive qy := YMin | YMax | YFixed | YMod (d : Z) | YAligned (d : Z) | YExp | YLen.
Inductive ob := BInt (z : Z) | BSet (l : list Z) | BBool (b : bool).

Definition check_q (t : op) (qo : qy * ob) : bool :=
  match qo with
  | (YMin, BInt z) => z =? omin t
  | (YMax, BInt z) => z =? omax t
  | (YFixed, BBool b) => Bool.eqb b (fixed t)
  | (YMod d, BSet l) => list_eqb l (omodf t d)
  | (YAligned d, BBool b) => Bool.eqb b (list_eqb (omodf t d) [0])
  | (YExp, BSet l) => list_eqb l (oexpandf t)
  | (YLen, BInt z) => z =? Z.of_nat (length (oexpandf t))
  | _ => false
  end.

(* a case is a history: a list of (node of the tree, queries made on that node, in order) *)
Definition case := list (op * list (qy * ob)).
Definition check_node (n : op * list (qy * ob)) : bool := wfb (fst n) && forallb (check_q (fst n)) (snd n).
Definition check_case (c : case) : bool := forallb check_node c.
