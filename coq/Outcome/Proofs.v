(* C13 - proofs about the outcome model *)
From Coq Require Import ZArith QArith List Bool Lia.
From PV Require Import Expr.Values Expr.Syntax Expr.Literals Expr.Sem Expr.Eval Outcome.Model.
Import ListNotations.

(* ---------------------------------------------------------------- arithmetic handlers *)
(* with the current handlers nothing but InvalidOperandError leaves _generic_arithmetic, whatever the float path does *)
Lemma arith_only_invalid : forall fl o p q x,
  is_arith o = true -> generic_arithmetic fl HCurrent o p q = RExc x -> x = XInvalid.
Proof.
  intros fl o p q x Ha H. unfold generic_arithmetic in H.
  destruct (raw_arith fl o p q) as [v| |y] eqn:R; try discriminate.
  - inversion H; reflexivity.
  - destruct y; try (inversion H; reflexivity).
    all: destruct o; try discriminate Ha; cbn [raw_arith] in R.
    all: try discriminate R.
    all: try (destruct (q_is_zero q); discriminate R).
    all: destruct (is_int q); [destruct (py_pow_int p (qnum q)); discriminate R|].
    all: destruct (fl p q); discriminate R.
Qed.

Lemma arith_never_complex : forall fl o p q, generic_arithmetic fl HCurrent o p q <> RComplexVal.
Proof.
  intros fl o p q H. unfold generic_arithmetic in H.
  destruct (raw_arith fl o p q) as [v| |y]; try discriminate. destruct y; discriminate.
Qed.

(* the evaluation model of C04 (Expr/Eval.v) classifies exactly these behaviours *)
Lemma arith_agrees : forall fl o p q, is_arith o = true ->
  match meth_rat o p (VRat q) with
  | DOk v => exists x, generic_arithmetic fl HCurrent o p q = RVal x /\ v = qnorm x
  | DInvalid => generic_arithmetic fl HCurrent o p q = RExc XInvalid
  | DUnspec => (exists x, generic_arithmetic fl HCurrent o p q = RVal x) \/ generic_arithmetic fl HCurrent o p q = RExc XInvalid
  | DUndef => False
  end.
Proof.
  intros fl o p q Ha. destruct o; try discriminate Ha; cbn [meth_rat rat_arith].
  - eexists; split; reflexivity.
  - eexists; split; reflexivity.
  - eexists; split; reflexivity.
  - unfold generic_arithmetic, raw_arith. destruct (q_is_zero q); [reflexivity|eexists; split; reflexivity].
  - unfold generic_arithmetic, raw_arith. destruct (q_is_zero q); [reflexivity|eexists; split; reflexivity].
  - unfold generic_arithmetic, raw_arith. destruct (is_int q).
    + destruct (py_pow_int p (qnum q)); [eexists; split; reflexivity|reflexivity].
    + destruct (fl p q); [left; eexists; reflexivity|right; reflexivity|right; reflexivity|right; reflexivity].
Qed.

(* regression statement for F4: without the handlers added by the repair a complex result / an overflow leaves
   _generic_arithmetic as a foreign exception, which the funnel turns into InternalError *)
Lemma before_F4_leaks :
  (forall fl p q, is_int q = false -> fl p q = FComplex -> generic_arithmetic fl HBeforeF4 BPow p q = RExc XValueError)
  /\ (forall fl p q, is_int q = false -> fl p q = FOverflow -> generic_arithmetic fl HBeforeF4 BPow p q = RExc XOverflow)
  /\ surfaced SVisit XValueError = (OInternal, true) /\ surfaced SVisit XOverflow = (OInternal, true).
Proof.
  repeat split.
  - intros fl p q Hq Hf. unfold generic_arithmetic, raw_arith. rewrite Hq, Hf. reflexivity.
  - intros fl p q Hq Hf. unfold generic_arithmetic, raw_arith. rewrite Hq, Hf. reflexivity.
Qed.

(* ---------------------------------------------------------------- string literal handlers *)
Lemma str_only_invalid : forall l st x, str_run_x HCurrent st l = Some x -> x = XInvalid.
Proof.
  induction l as [|c r IH]; intros st x H; cbn in H.
  - destruct st; try discriminate; inversion H; reflexivity.
  - destruct st as [| |n acc].
    + destruct (c =? 92)%Z; eapply IH; eassumption.
    + destruct (c =? 117)%Z; [eapply IH; eassumption|].
      destruct (c =? 85)%Z; [eapply IH; eassumption|].
      destruct (simple_escape c); [eapply IH; eassumption|inversion H; reflexivity].
    + destruct n as [|n]; [inversion H; reflexivity|].
      destruct (digit_val c); [|inversion H; reflexivity].
      destruct n as [|n].
      * destruct (py_chr (acc * 16 + z)); [inversion H; reflexivity|eapply IH; eassumption].
      * eapply IH; eassumption.
Qed.

Lemma py_chr_range : forall n, py_chr n = None <-> (n <=? 1114111)%Z = true.
Proof.
  intros n. unfold py_chr. destruct (n <=? 1114111)%Z; [tauto|].
  destruct (n <? 2147483648)%Z; split; discriminate.
Qed.

(* the literal decoder of C04 fails exactly when the implementation raises (and then it is a DSDLSyntaxError) *)
Lemma str_agrees : forall l st out, str_run_x HCurrent st l = None <-> str_run st l out <> None.
Proof.
  induction l as [|c r IH]; intros st out; cbn.
  - destruct st; split; try discriminate; try congruence.
  - destruct st as [| |n acc].
    + destruct (c =? 92)%Z; apply IH.
    + destruct (c =? 117)%Z; [apply IH|]. destruct (c =? 85)%Z; [apply IH|].
      destruct (simple_escape c); [apply IH|]. split; [discriminate|congruence].
    + destruct n as [|n]; [split; [discriminate|congruence]|].
      destruct (digit_val c); [|split; [discriminate|congruence]].
      destruct n as [|n]; [|apply IH].
      unfold py_chr. destruct (acc * 16 + z <=? 1114111)%Z; [apply IH|].
      destruct (acc * 16 + z <? 2147483648)%Z; split; try discriminate; congruence.
Qed.

(* regression statement for the chr() part of F4 *)
Lemma before_F4_chr_leaks :
  str_run_x HBeforeF4 SNorm [92; 85; 48; 48; 49; 49; 48; 48; 48; 48]%Z = Some XValueError
  /\ str_run_x HCurrent SNorm [92; 85; 48; 48; 49; 49; 48; 48; 48; 48]%Z = Some XInvalid.
Proof. split; vm_compute; reflexivity. Qed.

(* ---------------------------------------------------------------- the funnel *)
Definition handled_in_parser (x : pyexc) : bool :=
  match x with XParse | XRecursion | XUnicodeDecode => true | _ => false end.

Lemma funnel_invalid : forall st x,
  fst (surfaced st x) = OInvalid <-> x = XInvalid \/ (handled_in_parser x = true /\ st <> SVisit).
Proof.
  intros st x. destruct st; destruct x; cbn; split; intros H; try discriminate; try tauto.
  all: try (right; split; [reflexivity|discriminate]).
  all: try (destruct H as [H|[H1 H2]]; try discriminate; try congruence).
Qed.

Lemma funnel_other : forall st x, fst (surfaced st x) = OOther <-> x = XSystemExit.
Proof. intros st x. destruct st; destruct x; cbn; split; intros H; try discriminate; try reflexivity. Qed.

Lemma funnel_internal : forall st x,
  fst (surfaced st x) = OInternal <-> x <> XInvalid /\ x <> XSystemExit /\ (handled_in_parser x = true -> st = SVisit).
Proof.
  intros st x. destruct st; destruct x; cbn; split; intros H; try discriminate; try reflexivity.
  all: try (repeat split; try discriminate; try reflexivity; intros; discriminate).
  all: try (destruct H as [H1 [H2 H3]]; try congruence; try (specialize (H3 eq_refl); discriminate)).
Qed.

(* InvalidDefinitionError and InternalError always carry the path of the definition being read *)
Lemma funnel_path : forall st x, fst (surfaced st x) <> OOther -> snd (surfaced st x) = true.
Proof. intros st x. destruct st; destruct x; cbn; intros H; try reflexivity; exfalso; apply H; reflexivity. Qed.

Lemma outside_parser : forall x,
  surfaced_outside_parser x =
  if is_error x then (outcome_of x, true)
  else match x with XUnicodeDecode => (OInvalid, true) | XSystemExit => (OOther, false) | _ => (OInternal, true) end.
Proof. intros x. destruct x; reflexivity. Qed.

(* ---------------------------------------------------------------- expressions *)
Lemma predicted_classes : forall r acc o, In o (predicted r acc) -> o = OValue \/ o = OInvalid.
Proof.
  intros r acc o H. destruct r as [v| |]; cbn in H.
  - destruct (acc v); destruct H as [H|[]]; subst; auto.
  - destruct H as [H|[]]; subst; auto.
  - destruct H as [H|[H|[]]]; subst; auto.
Qed.

(* the rejection of an expression, wherever the statement stands, reaches the caller as InvalidDefinitionError with
   the path attached *)
Lemma rejection_surfaces : forall st, surfaced st XInvalid = (OInvalid, true).
Proof. destruct st; reflexivity. Qed.

(* failure modes of layers that are NOT modelled (the PEG engine's recursion, the file system, the symbolic layout
   layer): repaired ones surface as invalid definitions; what remains unhandled *)
Lemma repaired_leaks :
  surfaced SGrammar XRecursion = (OInvalid, true)
  /\ surfaced SFlush XRecursion = (OInvalid, true)
  /\ surfaced_outside_parser XUnicodeDecode = (OInvalid, true).
Proof. repeat split. Qed.

Lemma remaining_leaks :
  surfaced SVisit XRecursion = (OInternal, true)
  /\ surfaced_outside_parser XOSError = (OInternal, true)
  /\ surfaced_outside_parser XRecursion = (OInternal, true)
  /\ surfaced_outside_funnel XRecursion = (OOther, false)
  /\ surfaced SVisit XValueError = (OInternal, true)
  /\ surfaced_outside_parser XValueError = (OInternal, true)
  /\ surfaced SVisit XOverflow = (OInternal, true)
  /\ surfaced SVisit XMemoryOrSystem = (OInternal, true).
Proof. repeat split. Qed.
