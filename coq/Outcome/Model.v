(* C13 - outcome classes and the exception funnel of pydsdl, with the Python-level failure modes of the modelled
   layers made explicit.  Definitions only.

   Layers (innermost first):
     Fraction arithmetic inside Rational._generic_arithmetic          (_expression/_primitive.py)
     chr()/iterator/dict lookups inside _parse_string_literal          (_parser.py)
     parsimonious NodeVisitor.visit: wraps everything but unwrapped_exceptions into VisitationError
     _parser.parse: Error passes, ParseError -> DSDLSyntaxError, VisitationError -> InternalError
     DSDLDefinition.read / _read_definitions: Error passes with the path attached, MemoryError/SystemError pass,
       anything else -> InternalError with the path *)
From Coq Require Import ZArith QArith List Bool.
From PV Require Import Expr.Values Expr.Syntax Expr.Literals Expr.Sem Expr.Eval.
Import ListNotations.

(* what the caller of read_namespace / read_files sees *)
Inductive outcome := OValue | OInvalid | OInternal | OOther.

(* exceptions travelling through the layers *)
Inductive pyexc :=
| XInvalid            (* any subclass of _error.InvalidDefinitionError *)
| XInternalError      (* _error.InternalError *)
| XParse              (* parsimonious.ParseError *)
| XVisitation         (* parsimonious.VisitationError *)
| XZeroDivision | XOverflow | XValueError | XKeyError | XStopIteration | XUnicodeEncode | XUnicodeDecode
| XAssertion | XTypeError | XRecursion | XOSError
| XMemoryOrSystem     (* MemoryError, SystemError: let through by the visitor and by DSDLDefinition.read *)
| XSystemExit.        (* not an Exception: never caught *)

Definition is_error (x : pyexc) : bool := match x with XInvalid | XInternalError => true | _ => false end.

(* ---- innermost layer 1: Rational._generic_arithmetic ---- *)
(* float ** float as Fraction.__pow__ falls back to it for a non-integer exponent: the possible behaviours *)
Inductive fres :=
| FVal (q : Q)        (* a finite float, converted exactly by Rational(result) *)
| FComplex            (* negative base: a complex number is returned, not raised *)
| FZeroDivision       (* 0.0 ** negative *)
| FOverflow.          (* float(a) or the result does not fit: OverflowError *)

(* result of impl(self._value, right._value) *)
Inductive raw := RVal (q : Q) | RComplexVal | RExc (x : pyexc).

Section Arith.
Variable fl : Q -> Q -> fres.       (* binary floating point is not modelled: any function *)

Definition raw_arith (o : binop) (p q : Q) : raw :=
  match o with
  | BAdd => RVal (Qplus p q)
  | BSub => RVal (Qminus p q)
  | BMul => RVal (Qmult p q)
  | BDiv => if q_is_zero q then RExc XZeroDivision else RVal (Qdiv p q)
  | BMod => if q_is_zero q then RExc XZeroDivision else RVal (py_mod p q)
  | BPow =>
      if is_int q then match py_pow_int p (qnum q) with Some x => RVal x | None => RExc XZeroDivision end
      else match fl p q with
           | FVal x => RVal x
           | FComplex => RComplexVal
           | FZeroDivision => RExc XZeroDivision
           | FOverflow => RExc XOverflow
           end
  | _ => RExc XTypeError        (* not an arithmetic operator: never called *)
  end.

(* which handlers are present *)
Inductive handlers := HCurrent | HBeforeF4.

(* try: result = impl(..)  except ZeroDivisionError -> InvalidOperandError
                           except (OverflowError, ValueError) -> InvalidOperandError      [added by the F4 repair]
   if isinstance(result, complex) -> InvalidOperandError                                   [added by the F4 repair]
   before the repair a complex result reached Rational.__init__ and raised ValueError there *)
Definition generic_arithmetic (h : handlers) (o : binop) (p q : Q) : raw :=
  match raw_arith o p q with
  | RVal x => RVal x
  | RComplexVal => match h with HCurrent => RExc XInvalid | HBeforeF4 => RExc XValueError end
  | RExc XZeroDivision => RExc XInvalid
  | RExc XOverflow | RExc XValueError => match h with HCurrent => RExc XInvalid | HBeforeF4 => raw_arith o p q end
  | r => r
  end.
End Arith.

(* ---- innermost layer 2: _parse_string_literal ---- *)
(* chr(int(h, 16)) *)
Definition py_chr (n : Z) : option pyexc :=
  if (n <=? 1114111)%Z then None else if (n <? 2147483648)%Z then Some XValueError else Some XOverflow.

(* the escape decoder with raw exceptions; the model of Expr/Literals.v returns None for all of them *)
Fixpoint str_run_x (h : handlers) (st : sstate) (l : list Z) : option pyexc :=
  match l with
  | [] => match st with SNorm => None | _ => Some XInvalid end      (* StopIteration caught -> DSDLSyntaxError *)
  | c :: r =>
      match st with
      | SNorm => if (c =? 92)%Z then str_run_x h SEsc r else str_run_x h SNorm r
      | SEsc =>
          if (c =? 117)%Z then str_run_x h (SHex 4 0) r
          else if (c =? 85)%Z then str_run_x h (SHex 8 0) r
          else match simple_escape c with Some _ => str_run_x h SNorm r | None => Some XInvalid end   (* KeyError caught *)
      | SHex (S n) acc =>
          match digit_val c with
          | Some d =>
              let acc' := (acc * 16 + d)%Z in
              match n with
              | O => match py_chr acc' with
                     | None => str_run_x h SNorm r
                     | Some x => match h with HCurrent => Some XInvalid | HBeforeF4 => Some x end
                     end
              | _ => str_run_x h (SHex n acc') r
              end
          | None => Some XInvalid
          end
      | SHex O _ => Some XInvalid
      end
  end.

(* ---- the funnel ---- *)
(* where in _parser.parse the exception arises *)
Inductive stage := SGrammar (* _get_grammar().parse(text) *) | SVisit (* pr.visit(tree) *) | SFlush (* pr.flush() *).

(* NodeVisitor.visit: unwrapped_exceptions = (Error, SystemError, MemoryError, SystemExit) *)
Definition visit_wrap (x : pyexc) : pyexc :=
  if is_error x then x else match x with XMemoryOrSystem | XSystemExit => x | _ => XVisitation end.

Definition parse_funnel (st : stage) (x : pyexc) : pyexc :=
  let x1 := match st with SVisit => visit_wrap x | _ => x end in
  match x1 with
  | XParse => XInvalid                    (* DSDLSyntaxError *)
  | XRecursion => XInvalid                (* DSDLSyntaxError "nested too deeply" (repair F17); not reached from SVisit *)
  | XVisitation => XInternalError
  | y => y
  end.

(* DSDLDefinition.read: returns the exception and whether a path is attached *)
Definition definition_funnel (x : pyexc) : pyexc * bool :=
  if is_error x then (x, true)
  else match x with
       | XUnicodeDecode => (XInvalid, true)      (* the file is not UTF-8 (repair F19) *)
       | XMemoryOrSystem | XSystemExit => (x, false)
       | _ => (XInternalError, true)
       end.

(* the try/except around target_definition.read(...) in _read_definitions: "except Exception" also catches
   MemoryError and SystemError *)
Definition reader_funnel (x : pyexc) : pyexc * bool :=
  if is_error x then (x, true)
  else match x with
       | XSystemExit => (x, false)
       | _ => (XInternalError, true)
       end.

Definition outcome_of (x : pyexc) : outcome :=
  match x with XInvalid => OInvalid | XInternalError => OInternal | _ => OOther end.

(* an exception x raised at stage st of _parser.parse while a definition is read *)
Definition surfaced (st : stage) (x : pyexc) : outcome * bool :=
  let (y, p) := definition_funnel (parse_funnel st x) in
  let (z, p') := reader_funnel y in (outcome_of z, p || p').

(* an exception raised outside _parser.parse but inside DSDLDefinition.read (reading the file, finalize) *)
Definition surfaced_outside_parser (x : pyexc) : outcome * bool :=
  let (y, p) := definition_funnel x in
  let (z, p') := reader_funnel y in (outcome_of z, p || p').

(* an exception raised in the body of _read_definitions / read_namespace outside every try block
   (e.g. hashing the freshly built composite when it is added to the result set) *)
Definition surfaced_outside_funnel (x : pyexc) : outcome * bool := (outcome_of x, false).

(* ---- outcome predicted for an expression statement from the evaluation model of C04 ---- *)
(* the set of outcome classes the model allows for a definition whose only fallible part is the expression *)
Definition predicted (r : res) (accepts : value -> bool) : list outcome :=
  match r with
  | Ok v => if accepts v then [OValue] else [OInvalid]
  | Rej => [OInvalid]
  | Unspec => [OValue; OInvalid]
  end.
