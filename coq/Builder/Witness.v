(* Builder/Witness.v - concrete namespaces: the open finding F3 (print path) as a refutation of the full print property,
   and the repaired findings F1, F2, F8, F12 as positive regression examples of the model. *)
From Coq Require Import ZArith List Bool.
From PV Require Import Builder.Lines Builder.Reader Builder.ReaderProofs.
Import ListNotations.
Open Scope Z_scope.

Definition uline := line unit unit Z.
Definition ufile := file unit unit.

Definition fld (n : text) (cf : bool) : stmt unit unit Z := Stmt [PIdent] (XAttr (AField tt n) cf).
Definition ref (d : Z) (n : text) : stmt unit unit Z := Stmt [PIdent; PRead d; PIdent] (XAttr (AField tt n) false).
Definition sealed : stmt unit unit Z := Stmt [PIdent] (XDir KSealed GNone []).
Definition print (sh : text) : stmt unit unit Z := Stmt [PIdent] (XDir KPrint GOther sh).
Definition L (x : stmt unit unit Z) : uline := Line (Some x) false None 0.
Definition Lc (c : text) : uline := Line None false (Some c) 0.

Definition pA : text := [110; 115; 47; 65; 46; 49; 46; 48].   (* "ns/A.1.0" *)
Definition pZ : text := [110; 115; 47; 90; 46; 49; 46; 48].   (* "ns/Z.1.0" *)
Definition t222 : text := [50; 50; 50].

(* ns/A.1.0 = "Z.1.0 z\n@sealed", ns/Z.1.0 = "uint8 a\n@sealed\n@print 222" (known_findings.json, F3) *)
Definition fA : ufile := File 1 pA None [L (ref 2 [122]); L sealed].
Definition fZ : ufile := File 2 pZ None [L (fld [97] false); L sealed; L (print t222)].

(* the full print property: every delivery names a directive of the file whose path it carries, and no directive is
   delivered twice *)
Definition delivery_ok (fs : list ufile) (d : delivery) : bool :=
  match d with (p, n, s) =>
    existsb (fun f => text_eqb (f_path _ _ f) p &&
                      existsb (fun ns => (fst ns =? n) && text_eqb (snd ns) s) (print_dirs unit unit 1 (f_lines _ _ f))) fs
  end.
Fixpoint count_text (s : text) (ps : list delivery) : nat :=
  match ps with [] => O | (_, _, t) :: r => (if text_eqb s t then 1 else 0) + count_text s r end.
Definition deliveries_ok (fs : list ufile) (ps : list delivery) : bool :=
  forallb (delivery_ok fs) ps && forallb (fun d => match d with (_, _, s) => Nat.eqb (count_text s ps) 1 end) ps.

(* A is read first, Z is parsed as its dependency under A's handler: (A's path, 3, "222") *)
Lemma f3_wrong_path : read_ns unit unit [fA; fZ] [1; 2] [1; 2] = ([(pA, 3, t222)], None).
Proof. vm_compute. reflexivity. Qed.

(* named so that the dependency sorts first: it is read as a target, and again through its lookup twin *)
Lemma f3_twice : read_ns unit unit [fA; fZ] [1; 2] [2; 1] = ([(pZ, 3, t222); (pA, 3, t222)], None).
Proof. vm_compute. reflexivity. Qed.

Lemma print_refuted : exists (fs : list ufile) lk ts ps, read_ns unit unit fs lk ts = (ps, None) /\ deliveries_ok fs ps = false.
Proof. exists [fA; fZ], [1; 2], [1; 2], [(pA, 3, t222)]. split; vm_compute; reflexivity. Qed.

Lemma print_refuted_twice : exists (fs : list ufile) lk ts ps, read_ns unit unit fs lk ts = (ps, None)
  /\ forallb (fun d => match d with (_, _, s) => Nat.eqb (count_text s ps) 1 end) ps = false.
Proof. exists [fA; fZ], [1; 2], [2; 1], [(pZ, 3, t222); (pA, 3, t222)]. split; vm_compute; reflexivity. Qed.

(* F12 (repaired): Z lacks @sealed; the error raised by its finalize() keeps line None through the referrer A, whose
   referring statement stands on line 3 *)
Definition fA3 : ufile := File 1 pA None [empty_line; empty_line; L (ref 2 [122]); L sealed].
Definition fZbad : ufile := File 2 pZ None [L (fld [97] false); empty_line].
Lemma finalize_line_example : read_ns unit unit [fA3; fZbad] [1; 2] [1; 2] = ([], Some (ELoc (Some pZ) None)).
Proof. vm_compute. reflexivity. Qed.

(* F2 (repaired): "uint8 truncated\n# c\n# d\nuint8 b\n@sealed" is reported at line 1 *)
Lemma f2_example : read_ns unit unit [File 1 pA None [L (fld [116] true); Lc [32; 99]; Lc [32; 100]; L (fld [98] false); L sealed]] [1] [1]
  = ([], Some (ELoc (Some pA) (Some 1))).
Proof. vm_compute. reflexivity. Qed.

(* F1 (repaired): "@sealed\nuint8 X = 256" without final line feed is rejected, at line 2 *)
Lemma f1_example : read_ns unit unit [File 1 pA None [L sealed; L (Stmt [PIdent] (XAttr (AConst tt [88] tt) true))]] [1] [1]
  = ([], Some (ELoc (Some pA) (Some 2))).
Proof. vm_compute. reflexivity. Qed.

(* F8 (repaired): "@print 'a<LF>b'<LF>@assert false" fails at line 3 *)
Lemma f8_example : read_ns unit unit [File 1 pA None [Line (Some (print [97])) false None 1; L (Stmt [PIdent] (XDir KAssert (GBool false) []))]] [1] [1]
  = ([(pA, 1, [97])], Some (ELoc (Some pA) (Some 3))).
Proof. vm_compute. reflexivity. Qed.
