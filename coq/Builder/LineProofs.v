(* Builder/LineProofs.v - where errors get their line: the counter invariant and the case analysis of step_line. *)
From Coq Require Import ZArith List Bool Lia.
From PV Require Import Builder.Lines Builder.Basics.
Import ListNotations.
Open Scope Z_scope.

Section LineProofs.
Variables T V D W : Type.
Variable read_dep : D -> W -> W * option eloc.
Variable emit : Z -> text -> W -> W.

Notation st := (st T V W).
Notation line := (line T V D).
Notation flush := (flush T V W).
Notation step_pre := (step_pre T V D W read_dep).
Notation run_pre := (run_pre T V D W read_dep).
Notation do_dir := (do_dir T V W emit).
Notation do_act := (do_act T V W emit).
Notation do_stmt := (do_stmt T V D W read_dep emit).
Notation step_line := (step_line T V D W read_dep emit).
Notation run_from := (run_from T V D W read_dep emit).
Notation run_upto := (run_upto T V D W read_dep emit).
Notation next_line := (next_line T V D W).
Notation line_no := (line_no T V W).

(* the physical line on which the line after ls starts when ls starts on line n: a statement with k raw line feeds inside
   string literals occupies k + 1 physical lines *)
Fixpoint phys_after (n : Z) (ls : list line) : Z :=
  match ls with
  | [] => n
  | l :: r => phys_after (n + 1 + l_extra T V D l) r
  end.

Lemma flush_line : forall s s1 : st, flush s = Ok s1 -> line_no s1 = line_no s.
Proof.
  intros [c h p cl cu d ln w] s1. unfold Lines.flush. cbn.
  destruct h.
  - intros E; inversion E; reflexivity.
  - destruct p as [[[a cf] k]|]; [destruct (commit_fails T V a cf cu)|]; intros E; inversion E; reflexivity.
Qed.

Lemma step_pre_line : forall p (s s1 : st), step_pre p s = Ok s1 -> line_no s1 = line_no s.
Proof.
  intros p s s1. destruct p; cbn.
  - apply flush_line.
  - intros E; inversion E; reflexivity.
  - discriminate.
  - destruct (read_dep d (world T V W s)) as [w [e|]]; [discriminate|]. intros E; inversion E; reflexivity.
Qed.

Lemma run_pre_line : forall ps (s s1 : st), run_pre ps s = Ok s1 -> line_no s1 = line_no s.
Proof.
  induction ps as [|p ps IH]; intros s s1; cbn.
  - intros E; inversion E; reflexivity.
  - destruct (step_pre p s) eqn:E1; [|discriminate]. cbn. intros E. rewrite (IH _ _ E). eapply step_pre_line; eauto.
Qed.

Lemma do_act_line : forall x (s s1 : st), do_act x s = Ok s1 -> line_no s1 = line_no s.
Proof.
  intros x s s1. unfold Lines.do_act. destruct (flush s) as [f|] eqn:Ef; [|discriminate]. cbn.
  rewrite <- (flush_line _ _ Ef).
  destruct x.
  - destruct (c_mode T V (cur T V W f)) as [[|e]|]; unfold raise_here, raise_at; intros E; inversion E; reflexivity.
  - intros E. apply (do_dir_frame T V W emit) in E. tauto.
  - cbn. destruct (closed T V W f); unfold raise_here, raise_at; intros E; inversion E. reflexivity.
Qed.

Lemma step_line_line : forall l (s s1 : st), step_line l s = Ok s1 -> line_no s1 = line_no s.
Proof.
  intros l s s1. unfold Lines.step_line.
  assert (A : forall s0 : st, line_no (add_comment T V D W l s0) = line_no s0).
  { intros s0. unfold add_comment. destruct (l_comment T V D l); reflexivity. }
  destruct (l_stmt T V D l) as [x|].
  - unfold Lines.do_stmt. destruct (run_pre (s_pre T V D x) s) as [s2|] eqn:E2; [|discriminate]. cbn.
    destruct (do_act (s_act T V D x) s2) as [s3|] eqn:E3; [|discriminate]. cbn.
    rewrite <- (run_pre_line _ _ _ E2), <- (do_act_line _ _ _ E3), <- (A s3).
    destruct (is_empty_text T V D l); [apply flush_line|intros E; inversion E; reflexivity].
  - cbn. rewrite <- (A s). destruct (is_empty_text T V D l); [apply flush_line|intros E; inversion E; reflexivity].
Qed.

(* the counter while the line after ls is visited is the physical line on which that line starts *)
Theorem line_counter : forall ls (s s1 : st), run_upto ls s = Ok s1 -> line_no s1 = phys_after (line_no s) ls.
Proof.
  induction ls as [|l r IH]; intros s s1; cbn.
  - intros E; inversion E; reflexivity.
  - destruct (step_line l s) as [s2|] eqn:E2; [|discriminate]. cbn. intros E.
    rewrite (IH _ _ E). unfold Lines.next_line. cbn. rewrite (step_line_line _ _ _ E2). reflexivity.
Qed.

(* ------------------------------------------------------------------------------------------------------------ *)
(* where an error raised while one line is visited gets its location *)

Notation pending := (pending T V W).
Notation world := (world T V W).

Inductive cls (s : st) (e : eloc) : Prop :=
| cls_here : e = ELoc None (Some (line_no s)) -> cls s e                                   (* raised by the visited statement *)
| cls_queued : forall a cf n, pending s = Some (a, cf, n) ->
               e = ELoc None (Some n) -> cls s e                                           (* raised by constructing the queued attribute *)
| cls_dep : forall d w0 w1 e0, read_dep d w0 = (w1, Some e0) -> e = inject_line e0 (line_no s) -> cls s e.  (* came out of a nested read *)

Lemma flush_err : forall (s : st) e w, flush s = Err e w ->
  header T V W s = false /\ exists a cf n, pending s = Some (a, cf, n) /\ commit_fails T V a cf (cur T V W s) = true /\ e = ELoc None (Some n) /\ w = world s.
Proof.
  intros [c h p cl cu d ln w0] e w. unfold Lines.flush. cbn.
  destruct h; [discriminate|].
  destruct p as [[[a cf] k]|]; [|discriminate].
  destruct (commit_fails T V a cf cu) eqn:E; [|discriminate].
  unfold raise_at. cbn. intros H. inversion H. split; [reflexivity|]. exists a, cf, k. auto.
Qed.

Lemma flush_pending : forall s s1 : st, flush s = Ok s1 -> pending s1 = pending s \/ pending s1 = None.
Proof.
  intros [c h p cl cu d ln w] s1. unfold Lines.flush. cbn.
  destruct h.
  - intros E; inversion E; left; reflexivity.
  - destruct p as [[[a cf] k]|]; [destruct (commit_fails T V a cf cu)|]; intros E; inversion E; right; reflexivity.
Qed.

(* a later state of the same line: same counter; the queued attribute is the same or gone *)
Definition later (s s2 : st) : Prop := line_no s2 = line_no s /\ (pending s2 = None \/ pending s2 = pending s).

Lemma later_refl : forall s, later s s.
Proof. intros s. split; auto. Qed.

Lemma later_trans : forall s s2 s3, later s s2 -> later s2 s3 -> later s s3.
Proof.
  intros s s2 s3 [L1 P1] [L2 P2]. split; [congruence|].
  destruct P2 as [P2|P2]; [left; exact P2|]. destruct P1 as [P1|P1]; [left|right]; congruence.
Qed.

Lemma cls_later : forall s s2 e, later s s2 -> cls s2 e -> cls s e.
Proof.
  intros s s2 e [L P] C. destruct C as [H|a cf n H He|d w0 w1 e0 H He].
  - apply cls_here. congruence.
  - destruct P as [P|P]; [congruence|]. apply (cls_queued s e a cf n); [congruence|exact He].
  - eapply cls_dep; eauto. congruence.
Qed.

Lemma flush_later : forall s s1 : st, flush s = Ok s1 -> later s s1.
Proof. intros s s1 E. split; [eapply flush_line; eauto|]. destruct (flush_pending _ _ E); auto. Qed.

Lemma flush_cls : forall (s : st) e w, flush s = Err e w -> cls s e.
Proof. intros s e w E. destruct (flush_err _ _ _ E) as (_ & a & cf & n & P & _ & He & _). eapply cls_queued; eauto. Qed.

Lemma step_pre_later : forall p (s s1 : st), step_pre p s = Ok s1 -> later s s1.
Proof.
  intros p s s1. destruct p; cbn.
  - apply flush_later.
  - intros E; inversion E. split; auto.
  - discriminate.
  - destruct (read_dep d (world s)) as [w [e|]]; [discriminate|]. intros E; inversion E. split; auto.
Qed.

Lemma step_pre_cls : forall p (s : st) e w, step_pre p s = Err e w -> cls s e.
Proof.
  intros p s e w. destruct p; cbn.
  - apply flush_cls.
  - discriminate.
  - unfold raise_here, raise_at. intros E; inversion E. apply cls_here. reflexivity.
  - destruct (read_dep d (world s)) as [w1 [e0|]] eqn:R; [|discriminate]. intros E; inversion E. eapply cls_dep; eauto.
Qed.

Lemma run_pre_later : forall ps (s s1 : st), run_pre ps s = Ok s1 -> later s s1.
Proof.
  induction ps as [|p ps IH]; intros s s1; cbn.
  - intros E; inversion E. apply later_refl.
  - destruct (step_pre p s) eqn:E1; [|discriminate]. cbn. intros E.
    eapply later_trans; [eapply step_pre_later; eauto|eapply IH; eauto].
Qed.

Lemma run_pre_cls : forall ps (s : st) e w, run_pre ps s = Err e w -> cls s e.
Proof.
  induction ps as [|p ps IH]; intros s e w; cbn.
  - discriminate.
  - destruct (step_pre p s) as [s1|e1 w1] eqn:E1; cbn.
    + intros E. eapply cls_later; [eapply step_pre_later; eauto|eapply IH; eauto].
    + intros E; inversion E; subst. eapply step_pre_cls; eauto.
Qed.

Lemma do_dir_cls : forall k g sh (s : st) e w, do_dir k g sh s = Err e w -> e = ELoc None (Some (line_no s)).
Proof.
  intros k g sh s e w. unfold Lines.do_dir, raise_here, raise_at.
  destruct k.
  - discriminate.
  - destruct g as [|[|]| |]; intros E; inversion E; reflexivity.
  - destruct (c_mode T V (cur T V W s)); [|destruct g]; intros E; inversion E; reflexivity.
  - destruct (c_mode T V (cur T V W s)); [|destruct g]; intros E; inversion E; reflexivity.
  - destruct g; try (intros E; inversion E; reflexivity). destruct (_ || _); intros E; inversion E; reflexivity.
  - destruct g; try (intros E; inversion E; reflexivity). destruct (_ || _); intros E; inversion E; reflexivity.
  - intros E; inversion E; reflexivity.
Qed.

Lemma do_act_cls : forall x (s : st) e w, do_act x s = Err e w -> cls s e.
Proof.
  intros x s e w. unfold Lines.do_act. destruct (flush s) as [f|e1 w1] eqn:Ef; cbn.
  - pose proof (flush_later _ _ Ef) as L. intros E. eapply cls_later; [exact L|]. apply cls_here.
    destruct x.
    + destruct (c_mode T V (cur T V W f)) as [[|z]|]; unfold raise_here, raise_at in E; inversion E; reflexivity.
    + eapply do_dir_cls; eauto.
    + cbn in E. destruct (closed T V W f); unfold raise_here, raise_at in E; inversion E; reflexivity.
  - intros E; inversion E; subst. eapply flush_cls; eauto.
Qed.

Lemma do_act_later : forall x (s s1 : st), do_act x s = Ok s1 -> line_no s1 = line_no s.
Proof. exact do_act_line. Qed.

Lemma do_stmt_cls : forall x (s : st) e w, do_stmt x s = Err e w -> cls s e.
Proof.
  intros x s e w. unfold Lines.do_stmt. destruct (run_pre (s_pre T V D x) s) as [s2|e1 w1] eqn:E2; cbn.
  - intros E. eapply cls_later; [eapply run_pre_later; eauto|eapply do_act_cls; eauto].
  - intros E; inversion E; subst. eapply run_pre_cls; eauto.
Qed.

(* C17, one line: an error that leaves step_line carries the line of this statement, or the line remembered with the
   queued attribute whose construction failed, or it came out of a nested read (then it already has the other file's path) *)
Theorem step_line_cls : forall l (s : st) e w, step_line l s = Err e w -> cls s e.
Proof.
  intros l s e w. unfold Lines.step_line, is_empty_text.
  destruct (l_stmt T V D l) as [x|].
  - destruct (do_stmt x s) as [s3|e1 w1] eqn:E3; cbn.
    + discriminate.
    + intros E; inversion E; subst. eapply do_stmt_cls; eauto.
  - cbn. assert (L : later s (add_comment T V D W l s)).
    { unfold add_comment. destruct (l_comment T V D l); split; auto. }
    destruct (l_comment T V D l); [discriminate|].
    destruct (negb (l_blanks T V D l)); [|discriminate]. intros E.
    eapply cls_later; [exact L|eapply flush_cls; eauto].
Qed.

End LineProofs.
