(* Builder/LineProofs.v - where errors get their line: the counter invariant and the case analysis of step_line. *)
From Coq Require Import ZArith List Bool Lia.
From PV Require Import Builder.Lines Builder.Basics.
Import ListNotations.
Open Scope Z_scope.

Section LineProofs.
Variables T V D W : Type.
Variable read_dep : D -> W -> W * option eloc.
Variable emit : Z -> text -> W -> W.

Notation st := (st T V W).
Notation line := (line T V D).
Notation flush := (flush T V W).
Notation step_pre := (step_pre T V D W read_dep).
Notation run_pre := (run_pre T V D W read_dep).
Notation do_dir := (do_dir T V W emit).
Notation do_act := (do_act T V W emit).
Notation do_stmt := (do_stmt T V D W read_dep emit).
Notation step_line := (step_line T V D W read_dep emit).
Notation run_from := (run_from T V D W read_dep emit).
Notation run_upto := (run_upto T V D W read_dep emit).
Notation next_line := (next_line T V D W).
Notation line_no := (line_no T V W).

(* the physical line on which the line after ls starts when ls starts on line n: a statement with k raw line feeds inside
   string literals occupies k + 1 physical lines *)
Fixpoint phys_after (n : Z) (ls : list line) : Z :=
  match ls with
  | [] => n
  | l :: r => phys_after (n + 1 + l_extra T V D l) r
  end.

Lemma flush_line : forall s s1 : st, flush s = Ok s1 -> line_no s1 = line_no s.
Proof.
  intros [c h p cl cu d ln w] s1. unfold Lines.flush. cbn.
  destruct h.
  - intros E; inversion E; reflexivity.
  - destruct p as [[[a cf] k]|]; [destruct (commit_fails T V a cf cu)|]; intros E; inversion E; reflexivity.
Qed.

Lemma step_pre_line : forall p (s s1 : st), step_pre p s = Ok s1 -> line_no s1 = line_no s.
Proof.
  intros p s s1. destruct p; cbn.
  - apply flush_line.
  - intros E; inversion E; reflexivity.
  - discriminate.
  - destruct (read_dep d (world T V W s)) as [w [e|]]; [discriminate|]. intros E; inversion E; reflexivity.
Qed.

Lemma run_pre_line : forall ps (s s1 : st), run_pre ps s = Ok s1 -> line_no s1 = line_no s.
Proof.
  induction ps as [|p ps IH]; intros s s1; cbn.
  - intros E; inversion E; reflexivity.
  - destruct (step_pre p s) eqn:E1; [|discriminate]. cbn. intros E. rewrite (IH _ _ E). eapply step_pre_line; eauto.
Qed.

Lemma do_act_line : forall x (s s1 : st), do_act x s = Ok s1 -> line_no s1 = line_no s.
Proof.
  intros x s s1. unfold Lines.do_act. destruct (flush s) as [f|] eqn:Ef; [|discriminate]. cbn.
  rewrite <- (flush_line _ _ Ef).
  destruct x.
  - destruct (c_mode T V (cur T V W f)) as [[|e]|]; unfold raise_here, raise_at; intros E; inversion E; reflexivity.
  - intros E. apply (do_dir_frame T V W emit) in E. tauto.
  - cbn. destruct (closed T V W f); unfold raise_here, raise_at; intros E; inversion E. reflexivity.
Qed.

Lemma step_line_line : forall l (s s1 : st), step_line l s = Ok s1 -> line_no s1 = line_no s.
Proof.
  intros l s s1. unfold Lines.step_line.
  assert (A : forall s0 : st, line_no (add_comment T V D W l s0) = line_no s0).
  { intros s0. unfold add_comment. destruct (l_comment T V D l); reflexivity. }
  destruct (l_stmt T V D l) as [x|].
  - unfold Lines.do_stmt. destruct (run_pre (s_pre T V D x) s) as [s2|] eqn:E2; [|discriminate]. cbn.
    destruct (do_act (s_act T V D x) s2) as [s3|] eqn:E3; [|discriminate]. cbn.
    rewrite <- (run_pre_line _ _ _ E2), <- (do_act_line _ _ _ E3), <- (A s3).
    destruct (is_empty_text T V D l); [apply flush_line|intros E; inversion E; reflexivity].
  - cbn. rewrite <- (A s). destruct (is_empty_text T V D l); [apply flush_line|intros E; inversion E; reflexivity].
Qed.

(* the counter while the line after ls is visited is the physical line on which that line starts *)
Theorem line_counter : forall ls (s s1 : st), run_upto ls s = Ok s1 -> line_no s1 = phys_after (line_no s) ls.
Proof.
  induction ls as [|l r IH]; intros s s1; cbn.
  - intros E; inversion E; reflexivity.
  - destruct (step_line l s) as [s2|] eqn:E2; [|discriminate]. cbn. intros E.
    rewrite (IH _ _ E). unfold Lines.next_line. cbn. rewrite (step_line_line _ _ _ E2). reflexivity.
Qed.

(* ------------------------------------------------------------------------------------------------------------ *)
(* where an error raised while one line is visited gets its location *)

Notation pending := (pending T V W).
Notation world := (world T V W).

Inductive cls (s : st) (e : eloc) : Prop :=
| cls_here : e = ELoc None (Some (line_no s)) -> cls s e                                   (* raised by the visited statement *)
| cls_queued : forall a cf n, pending s = Some (a, cf, n) ->
               e = ELoc None (Some n) -> cls s e                                           (* raised by constructing the queued attribute *)
| cls_dep : forall d w0 w1 e0, read_dep d w0 = (w1, Some e0) -> e = inject_line e0 (line_no s) -> cls s e.  (* came out of a nested read *)

Lemma flush_err : forall (s : st) e w, flush s = Err e w ->
  header T V W s = false /\ exists a cf n, pending s = Some (a, cf, n) /\ commit_fails T V a cf (cur T V W s) = true /\ e = ELoc None (Some n) /\ w = world s.
Proof.
  intros [c h p cl cu d ln w0] e w. unfold Lines.flush. cbn.
  destruct h; [discriminate|].
  destruct p as [[[a cf] k]|]; [|discriminate].
  destruct (commit_fails T V a cf cu) eqn:E; [|discriminate].
  unfold raise_at. cbn. intros H. inversion H. split; [reflexivity|]. exists a, cf, k. auto.
Qed.

Lemma flush_pending : forall s s1 : st, flush s = Ok s1 -> pending s1 = pending s \/ pending s1 = None.
Proof.
  intros [c h p cl cu d ln w] s1. unfold Lines.flush. cbn.
  destruct h.
  - intros E; inversion E; left; reflexivity.
  - destruct p as [[[a cf] k]|]; [destruct (commit_fails T V a cf cu)|]; intros E; inversion E; right; reflexivity.
Qed.

(* a later state of the same line: same counter; the queued attribute is the same or gone *)
Definition later (s s2 : st) : Prop := line_no s2 = line_no s /\ (pending s2 = None \/ pending s2 = pending s).

Lemma later_refl : forall s, later s s.
Proof. intros s. split; auto. Qed.

Lemma later_trans : forall s s2 s3, later s s2 -> later s2 s3 -> later s s3.
Proof.
  intros s s2 s3 [L1 P1] [L2 P2]. split; [congruence|].
  destruct P2 as [P2|P2]; [left; exact P2|]. destruct P1 as [P1|P1]; [left|right]; congruence.
Qed.

Lemma cls_later : forall s s2 e, later s s2 -> cls s2 e -> cls s e.
Proof.
  intros s s2 e [L P] C. destruct C as [H|a cf n H He|d w0 w1 e0 H He].
  - apply cls_here. congruence.
  - destruct P as [P|P]; [congruence|]. apply (cls_queued s e a cf n); [congruence|exact He].
  - eapply cls_dep; eauto. congruence.
Qed.

Lemma flush_later : forall s s1 : st, flush s = Ok s1 -> later s s1.
Proof. intros s s1 E. split; [eapply flush_line; eauto|]. destruct (flush_pending _ _ E); auto. Qed.

Lemma flush_cls : forall (s : st) e w, flush s = Err e w -> cls s e.
Proof. intros s e w E. destruct (flush_err _ _ _ E) as (_ & a & cf & n & P & _ & He & _). eapply cls_queued; eauto. Qed.

Lemma step_pre_later : forall p (s s1 : st), step_pre p s = Ok s1 -> later s s1.
Proof.
  intros p s s1. destruct p; cbn.
  - apply flush_later.
  - intros E; inversion E. split; auto.
  - discriminate.
  - destruct (read_dep d (world s)) as [w [e|]]; [discriminate|]. intros E; inversion E. split; auto.
Qed.

Lemma step_pre_cls : forall p (s : st) e w, step_pre p s = Err e w -> cls s e.
Proof.
  intros p s e w. destruct p; cbn.
  - apply flush_cls.
  - discriminate.
  - unfold raise_here, raise_at. intros E; inversion E. apply cls_here. reflexivity.
  - destruct (read_dep d (world s)) as [w1 [e0|]] eqn:R; [|discriminate]. intros E; inversion E. eapply cls_dep; eauto.
Qed.

Lemma run_pre_later : forall ps (s s1 : st), run_pre ps s = Ok s1 -> later s s1.
Proof.
  induction ps as [|p ps IH]; intros s s1; cbn.
  - intros E; inversion E. apply later_refl.
  - destruct (step_pre p s) eqn:E1; [|discriminate]. cbn. intros E.
    eapply later_trans; [eapply step_pre_later; eauto|eapply IH; eauto].
Qed.

Lemma run_pre_cls : forall ps (s : st) e w, run_pre ps s = Err e w -> cls s e.
Proof.
  induction ps as [|p ps IH]; intros s e w; cbn.
  - discriminate.
  - destruct (step_pre p s) as [s1|e1 w1] eqn:E1; cbn.
    + intros E. eapply cls_later; [eapply step_pre_later; eauto|eapply IH; eauto].
    + intros E; inversion E; subst. eapply step_pre_cls; eauto.
Qed.

Lemma do_dir_cls : forall k g sh (s : st) e w, do_dir k g sh s = Err e w -> e = ELoc None (Some (line_no s)).
Proof.
  intros k g sh s e w. unfold Lines.do_dir, raise_here, raise_at.
  destruct k.
  - discriminate.
  - destruct g as [|[|]| |]; intros E; inversion E; reflexivity.
  - destruct (c_mode T V (cur T V W s)); [|destruct g]; intros E; inversion E; reflexivity.
  - destruct (c_mode T V (cur T V W s)); [|destruct g]; intros E; inversion E; reflexivity.
  - destruct g; try (intros E; inversion E; reflexivity). destruct (_ || _); intros E; inversion E; reflexivity.
  - destruct g; try (intros E; inversion E; reflexivity). destruct (_ || _); intros E; inversion E; reflexivity.
  - intros E; inversion E; reflexivity.
Qed.

Lemma do_act_cls : forall x (s : st) e w, do_act x s = Err e w -> cls s e.
Proof.
  intros x s e w. unfold Lines.do_act. destruct (flush s) as [f|e1 w1] eqn:Ef; cbn.
  - pose proof (flush_later _ _ Ef) as L. intros E. eapply cls_later; [exact L|]. apply cls_here.
    destruct x.
    + destruct (c_mode T V (cur T V W f)) as [[|z]|]; unfold raise_here, raise_at in E; inversion E; reflexivity.
    + eapply do_dir_cls; eauto.
    + cbn in E. destruct (closed T V W f); unfold raise_here, raise_at in E; inversion E; reflexivity.
  - intros E; inversion E; subst. eapply flush_cls; eauto.
Qed.

Lemma do_act_later : forall x (s s1 : st), do_act x s = Ok s1 -> line_no s1 = line_no s.
Proof. exact do_act_line. Qed.

Lemma do_stmt_cls : forall x (s : st) e w, do_stmt x s = Err e w -> cls s e.
Proof.
  intros x s e w. unfold Lines.do_stmt. destruct (run_pre (s_pre T V D x) s) as [s2|e1 w1] eqn:E2; cbn.
  - intros E. eapply cls_later; [eapply run_pre_later; eauto|eapply do_act_cls; eauto].
  - intros E; inversion E; subst. eapply run_pre_cls; eauto.
Qed.

(* C17, one line: an error that leaves step_line carries the line of this statement, or the line remembered with the
   queued attribute whose construction failed, or it came out of a nested read (then it already has the other file's path) *)
Theorem step_line_cls : forall l (s : st) e w, step_line l s = Err e w -> cls s e.
Proof.
  intros l s e w. unfold Lines.step_line, is_empty_text.
  destruct (l_stmt T V D l) as [x|].
  - destruct (do_stmt x s) as [s3|e1 w1] eqn:E3; cbn.
    + discriminate.
    + intros E; inversion E; subst. eapply do_stmt_cls; eauto.
  - cbn. assert (L : later s (add_comment T V D W l s)).
    { unfold add_comment. destruct (l_comment T V D l); split; auto. }
    destruct (l_comment T V D l); [discriminate|].
    destruct (negb (l_blanks T V D l)); [|discriminate]. intros E.
    eapply cls_later; [exact L|eapply flush_cls; eauto].
Qed.

(* ------------------------------------------------------------------------------------------------------------ *)
(* the first failing line *)

Lemma run_from_err : forall ls (s : st) e w, run_from ls s = Err e w ->
  exists p l r s', ls = p ++ l :: r /\ run_upto p s = Ok s' /\ step_line l s' = Err e w.
Proof.
  induction ls as [|l r IH]; intros s e w; cbn.
  - discriminate.
  - destruct (step_line l s) as [s1|e1 w1] eqn:E1; cbn.
    + destruct r as [|l2 r2]; [discriminate|]. intros E.
      destruct (IH _ _ _ E) as (p & l' & r' & s' & Hl & Hp & Hs).
      exists (l :: p), l', r', s'. split; [cbn; rewrite Hl; reflexivity|]. split; [|exact Hs].
      cbn. rewrite E1. cbn. exact Hp.
    + intros E; inversion E; subst. exists [], l, r, s. auto.
Qed.

Lemma run_from_ok : forall ls (s s' : st), ls <> [] -> run_from ls s = Ok s' ->
  exists p l s0, ls = p ++ [l] /\ run_upto p s = Ok s0 /\ step_line l s0 = Ok s'.
Proof.
  intros ls s s' NE E. destruct (exists_last NE) as (p & l & ->).
  rewrite (run_from_last T V D W read_dep emit) in E.
  destruct (run_upto p s) as [s0|] eqn:Ep; [|discriminate]. cbn in E.
  exists p, l, s0. auto.
Qed.

(* ------------------------------------------------------------------------------------------------------------ *)
(* the line remembered with the queued attribute is the line of its statement *)

Definition quiet (l : line) : Prop := l_stmt T V D l = None /\ is_empty_text T V D l = false.

(* q = (a, cf, n) was queued by a statement of ls (which starts on line n0) and nothing has flushed since *)
Definition queued_at (ls : list line) (n0 : Z) (q : attr T V * bool * Z) : Prop :=
  exists p1 l1 r1 pre, ls = p1 ++ l1 :: r1 /\ l_stmt T V D l1 = Some (Stmt pre (XAttr (fst (fst q)) (snd (fst q))))
    /\ snd q = phys_after n0 p1 /\ Forall quiet r1.

Lemma flush_good_pending : forall s f : st, good T V W s -> flush s = Ok f -> pending f = None.
Proof.
  intros [c h p cl cu d ln w] f G. unfold good in G. cbn in G. unfold Lines.flush. cbn.
  destruct h.
  - rewrite (G eq_refl). intros E; inversion E; reflexivity.
  - destruct p as [[[a cf] k]|]; [destruct (commit_fails T V a cf cu)|]; intros E; inversion E; reflexivity.
Qed.

Lemma do_act_pending : forall x (s s1 : st) q, good T V W s -> do_act x s = Ok s1 -> pending s1 = Some q ->
  header T V W s1 = false /\ exists a cf, x = XAttr a cf /\ q = (a, cf, line_no s).
Proof.
  intros x s s1 q G. unfold Lines.do_act. destruct (flush s) as [f|] eqn:Ef; [|discriminate]. cbn.
  pose proof (flush_good_pending _ _ G Ef) as Pf. pose proof (flush_line _ _ Ef) as Lf.
  pose proof (flush_good T V W _ _ Ef) as Hf.
  destruct x.
  - destruct (c_mode T V (cur T V W f)) as [[|z]|]; unfold raise_here, raise_at; intros E; inversion E; cbn;
      intros Q; inversion Q; (split; [exact Hf|]); exists a, cfault; rewrite Lf; auto.
  - intros E Q. apply (do_dir_frame T V W emit) in E. destruct E as (_ & P & _). congruence.
  - cbn. destruct (closed T V W f); unfold raise_here, raise_at; intros E; inversion E. cbn. congruence.
Qed.

Lemma step_line_pending : forall l (s s1 : st) q, good T V W s -> step_line l s = Ok s1 -> pending s1 = Some q ->
  (header T V W s1 = false /\ exists pre a cf, l_stmt T V D l = Some (Stmt pre (XAttr a cf)) /\ q = (a, cf, line_no s))
  \/ (quiet l /\ pending s = Some q /\ header T V W s1 = header T V W s).
Proof.
  intros l s s1 q G. unfold Lines.step_line, quiet, is_empty_text.
  assert (A : forall s0 : st, pending (add_comment T V D W l s0) = pending s0 /\ header T V W (add_comment T V D W l s0) = header T V W s0).
  { intros s0. unfold add_comment. destruct (l_comment T V D l); auto. }
  destruct (l_stmt T V D l) as [[pre x]|].
  - unfold Lines.do_stmt. cbn [s_pre s_act]. destruct (run_pre pre s) as [s2|] eqn:E2; [|discriminate]. cbn.
    destruct (do_act x s2) as [s3|] eqn:E3; [|discriminate]. cbn. intros E Q. inversion E; subst.
    destruct (A s3) as [A1 A2]. rewrite A1 in Q.
    pose proof (run_pre_good T V D W read_dep _ _ _ G E2) as G2.
    destruct (do_act_pending _ _ _ _ G2 E3 Q) as (H3 & a & cf & -> & ->).
    left. split; [congruence|]. exists pre, a, cf. split; [reflexivity|].
    rewrite (run_pre_line _ _ _ E2). reflexivity.
  - cbn. destruct (A s) as [A1 A2].
    destruct (l_comment T V D l) eqn:Ec.
    + intros E Q. inversion E; subst. right. rewrite A1 in Q. auto.
    + destruct (negb (l_blanks T V D l)).
      * intros E Q. exfalso.
        assert (G' : good T V W (add_comment T V D W l s)) by (unfold add_comment; rewrite Ec; exact G).
        rewrite (flush_good_pending _ _ G' E) in Q. discriminate.
      * intros E Q. inversion E; subst. right. rewrite A1 in Q. auto.
Qed.

Lemma queued_at_cons : forall l r n0 q, queued_at r (n0 + 1 + l_extra T V D l) q -> queued_at (l :: r) n0 q.
Proof.
  intros l r n0 q (p1 & l1 & r1 & pre & H1 & H2 & H3 & H4).
  exists (l :: p1), l1, r1, pre. split; [cbn; rewrite H1; reflexivity|]. auto.
Qed.

Lemma pending_origin : forall ls (s s' : st) q, good T V W s -> run_upto ls s = Ok s' -> pending s' = Some q ->
  queued_at ls (line_no s) q \/ (pending s = Some q /\ Forall quiet ls).
Proof.
  induction ls as [|l r IH]; intros s s' q G; cbn.
  - intros E Q. inversion E; subst. right. auto.
  - destruct (step_line l s) as [s1|] eqn:E1; [|discriminate]. cbn. intros E Q.
    pose proof (step_line_good T V D W read_dep emit _ _ _ G E1) as G1.
    assert (G1' : good T V W (next_line l s1)) by exact G1.
    destruct (IH _ _ _ G1' E Q) as [H|[H1 H2]].
    + left. apply queued_at_cons. cbn in H. rewrite (step_line_line _ _ _ E1) in H. exact H.
    + cbn in H1. destruct (step_line_pending _ _ _ _ G E1 H1) as [(_ & pre & a & cf & Hs & ->)|(Hq & Hp & _)].
      * left. exists [], l, r, pre. cbn. auto.
      * right. split; [exact Hp|]. constructor; assumption.
Qed.

(* C17_line_commit, part 1: in every reachable state the remembered line is the physical line of the attribute statement *)
Theorem pending_line : forall p w (s : st) q, run_upto p (init T V W w) = Ok s -> pending s = Some q -> queued_at p 1 q.
Proof.
  intros p w s q E Q. destruct (pending_origin _ _ _ _ (good_init T V W w) E Q) as [H|[H _]]; [exact H|discriminate].
Qed.

(* the complete characterisation of the location of an error raised while line l (which follows p) is visited *)
Theorem error_location : forall p l w (s : st) e w', run_upto p (init T V W w) = Ok s -> step_line l s = Err e w' ->
  e = ELoc None (Some (phys_after 1 p))
  \/ (exists q, queued_at p 1 q /\ e = ELoc None (Some (snd q)))
  \/ (exists d w0 w1 e0, read_dep d w0 = (w1, Some e0) /\ e = inject_line e0 (phys_after 1 p)).
Proof.
  intros p l w s e w' E1 E2. pose proof (line_counter _ _ _ E1) as L. cbn in L.
  destruct (step_line_cls _ _ _ _ E2) as [H|a cf n H He|d w0 w1 e0 H He].
  - left. congruence.
  - right. left. exists (a, cf, n). split; [eapply pending_line; eauto|exact He].
  - right. right. exists d, w0, w1, e0. split; [exact H|congruence].
Qed.

Theorem error_location_here : forall p l w (s : st) e w', run_upto p (init T V W w) = Ok s ->
  pending s = None -> (forall d w0, snd (read_dep d w0) = None) -> step_line l s = Err e w' -> e = ELoc None (Some (phys_after 1 p)).
Proof.
  intros p l w s e w' E P R Es.
  destruct (step_line_cls _ _ _ _ Es) as [H|a cf n H He|d w0 w1 e0 H He].
  - rewrite H. rewrite (line_counter _ _ _ E). reflexivity.
  - congruence.
  - specialize (R d w0). rewrite H in R. discriminate.
Qed.

(* ... and of an error raised after the last line: parse()'s final flush or finalize() *)
Theorem finish_location : forall ls w (s : st) e w', run_upto ls (init T V W w) = Ok s ->
  Lines.finish T V W s = Err e w' ->
  e = no_loc \/ (exists q, queued_at ls 1 q /\ e = ELoc None (Some (snd q))).
Proof.
  intros ls w s e w' E1. unfold Lines.finish. destruct (flush s) as [f|e1 w1] eqn:Ef; cbn.
  - unfold Lines.finalize. intros E. left.
    destruct (closed T V W f); [destruct (close T V s0); [destruct (close T V (cur T V W f))|]|destruct (close T V (cur T V W f))];
      inversion E; reflexivity.
  - intros E; inversion E; subst. right.
    destruct (flush_err _ _ _ Ef) as (_ & a & cf & n & P & _ & He & _).
    exists (a, cf, n). split; [eapply pending_line; eauto|exact He].
Qed.

(* ------------------------------------------------------------------------------------------------------------ *)
(* a queued attribute whose construction raises cannot be lost, and the error carries the line of its statement *)

Notation run := (Lines.run T V D W read_dep emit).
Notation finish := (Lines.finish T V W).

(* the queued attribute will raise when constructed, and it was queued on line n *)
Definition doomed (n : Z) (s : st) : Prop :=
  header T V W s = false /\ exists a, pending s = Some (a, true, n).

Lemma doomed_flush : forall n (s : st), doomed n s -> flush s = Err (ELoc None (Some n)) (world s).
Proof.
  intros n [c h p cl cu d ln w] (H & a & P). cbn in H, P. subst. unfold Lines.flush. cbn. reflexivity.
Qed.

(* the statement visits an identifier (or nothing) first: its first effect is a flush *)
Definition flush_first (x : stmt T V D) : Prop :=
  match s_pre T V D x with [] => True | PIdent :: _ => True | _ => False end.

Lemma doomed_stmt : forall n x (s : st), doomed n s -> flush_first x -> do_stmt x s = Err (ELoc None (Some n)) (world s).
Proof.
  intros n [pre act] s Dm F. unfold flush_first in F. cbn in F. unfold Lines.do_stmt. cbn [s_pre s_act].
  destruct pre as [|[| | |d] pre]; try contradiction.
  - cbn. unfold Lines.do_act. rewrite (doomed_flush _ _ Dm). reflexivity.
  - cbn. rewrite (doomed_flush _ _ Dm). reflexivity.
Qed.

Lemma doomed_quiet : forall n l (s : st), doomed n s -> quiet l -> exists s1, step_line l s = Ok s1 /\ doomed n s1 /\ line_no s1 = line_no s.
Proof.
  intros n l s Dm [Q1 Q2]. unfold Lines.step_line. rewrite Q1, Q2. cbn.
  exists (add_comment T V D W l s). split; [reflexivity|]. unfold add_comment. destruct (l_comment T V D l); auto.
Qed.

Lemma doomed_line : forall n l (s : st), doomed n s -> (forall x, l_stmt T V D l = Some x -> flush_first x) ->
  (exists s1, step_line l s = Ok s1 /\ doomed n s1) \/ exists w, step_line l s = Err (ELoc None (Some n)) w.
Proof.
  intros n l s Dm F. destruct (l_stmt T V D l) as [x|] eqn:Es.
  - right. unfold Lines.step_line. rewrite Es. rewrite (doomed_stmt _ _ _ Dm (F x eq_refl)). cbn. eauto.
  - destruct (is_empty_text T V D l) eqn:Em.
    + right. unfold Lines.step_line. rewrite Es, Em. cbn.
      assert (Dm' : doomed n (add_comment T V D W l s)) by (unfold add_comment; destruct (l_comment T V D l); exact Dm).
      rewrite (doomed_flush _ _ Dm'). eauto.
    + left. destruct (doomed_quiet n l s Dm (conj Es Em)) as (s1 & H1 & H2 & _). eauto.
Qed.

Lemma doomed_run : forall n r (s : st), doomed n s -> Forall (fun l => forall x, l_stmt T V D l = Some x -> flush_first x) r ->
  (exists s1, run_from r s = Ok s1 /\ doomed n s1) \/ exists w, run_from r s = Err (ELoc None (Some n)) w.
Proof.
  induction r as [|l r IH]; intros s Dm F.
  - left. exists s. auto.
  - inversion F as [|? ? F1 F2]; subst. cbn.
    destruct (doomed_line n l s Dm F1) as [(s1 & E1 & D1)|(w & E1)]; rewrite E1; cbn.
    + destruct r as [|l2 r2]; [left; eauto|]. apply IH; [exact D1|exact F2].
    + right. eauto.
Qed.

(* C17_line_commit: an attribute statement on the line after p whose construction will raise (cfault) - if it is queued
   at all, the run ends with an error at exactly that physical line, whatever follows (comments, blank lines, the end of
   the text with or without line feed), provided the following statements begin by visiting an identifier or have no
   sub-expressions (every statement of the grammar except those that start with a literal capacity / width fault) *)
Theorem commit_line : forall p l r pre a w (s0 s1 : st),
  run_upto p (init T V W w) = Ok s0 -> l_stmt T V D l = Some (Stmt pre (XAttr a true)) -> step_line l s0 = Ok s1 ->
  Forall (fun l' => forall x, l_stmt T V D l' = Some x -> flush_first x) r ->
  exists w', run (p ++ l :: r) w = Err (ELoc None (Some (phys_after 1 p))) w'.
Proof.
  intros p l r pre a w s0 s1 E0 Hs E1 F.
  pose proof (run_upto_good T V D W read_dep emit _ _ _ (good_init T V W w) E0) as G0.
  pose proof (line_counter _ _ _ E0) as L0. cbn in L0.
  assert (Dm : doomed (phys_after 1 p) s1).
  { pose proof E1 as E1'. unfold Lines.step_line in E1'. rewrite Hs in E1'. unfold Lines.do_stmt in E1'. cbn [s_pre s_act] in E1'.
    destruct (run_pre pre s0) as [s2|] eqn:E2; [|discriminate]. cbn in E1'.
    destruct (do_act (XAttr a true) s2) as [s3|] eqn:E3; [|discriminate]. cbn in E1'.
    unfold is_empty_text in E1'. rewrite Hs in E1'. inversion E1'; subst. clear E1'.
    pose proof (run_pre_good T V D W read_dep _ _ _ G0 E2) as G2.
    unfold Lines.do_act in E3. destruct (flush s2) as [f|] eqn:Ef; [|discriminate]. cbn in E3.
    pose proof (flush_good T V W _ _ Ef) as Hf. pose proof (flush_line _ _ Ef) as Lf. pose proof (run_pre_line _ _ _ E2) as L2.
    destruct (c_mode T V (cur T V W f)) as [[|z]|]; unfold raise_here, raise_at in E3; inversion E3; subst; clear E3;
      (split; [unfold add_comment; destruct (l_comment T V D l); exact Hf|]); exists a;
      unfold add_comment; destruct (l_comment T V D l); cbn; rewrite Lf, L2, L0; reflexivity. }
  unfold Lines.run. rewrite (run_from_split T V D W read_dep emit). rewrite E0. cbn [Lines.bind].
  destruct r as [|l2 r2].
  - cbn [Lines.run_from]. rewrite E1. cbn [Lines.bind]. unfold Lines.finish. rewrite (doomed_flush _ _ Dm). cbn [Lines.bind]. eauto.
  - assert (Dm' : doomed (phys_after 1 p) (next_line l s1)) by exact Dm.
    change (run_from (l :: l2 :: r2) s0) with (Lines.bind W (step_line l s0) (fun s1 => run_from (l2 :: r2) (next_line l s1))).
    rewrite E1. cbn [Lines.bind].
    destruct (doomed_run _ (l2 :: r2) _ Dm' F) as [(s2 & E2 & D2)|(w2 & E2)]; rewrite E2; cbn [Lines.bind].
    + unfold Lines.finish. rewrite (doomed_flush _ _ D2). cbn [Lines.bind]. eauto.
    + eauto.
Qed.

(* without any condition on what follows: the run never succeeds (F1 cannot come back) *)
Lemma doomed_any_line : forall n l (s s1 : st), doomed n s -> step_line l s = Ok s1 -> exists m, doomed m s1.
Proof.
  intros n l s s1 Dm. destruct (l_stmt T V D l) as [[pre act]|] eqn:Es.
  - unfold Lines.step_line. rewrite Es. unfold Lines.do_stmt. cbn [s_pre s_act].
    assert (P : forall ps (s2 s3 : st), doomed n s2 -> run_pre ps s2 = Ok s3 -> doomed n s3).
    { induction ps as [|q ps IH]; intros s2 s3 D2; cbn.
      - intros E; inversion E; subst; exact D2.
      - destruct q; cbn.
        + rewrite (doomed_flush _ _ D2). discriminate.
        + apply IH. exact D2.
        + discriminate.
        + destruct (read_dep d (world s2)) as [w1 [e1|]]; [discriminate|]. cbn. apply IH. exact D2. }
    destruct (run_pre pre s) as [s2|] eqn:E2; [|discriminate]. cbn.
    unfold Lines.do_act. rewrite (doomed_flush _ _ (P _ _ _ Dm E2)). discriminate.
  - destruct (is_empty_text T V D l) eqn:Em.
    + unfold Lines.step_line. rewrite Es, Em. cbn.
      assert (Dm' : doomed n (add_comment T V D W l s)) by (unfold add_comment; destruct (l_comment T V D l); exact Dm).
      rewrite (doomed_flush _ _ Dm'). discriminate.
    + destruct (doomed_quiet n l s Dm (conj Es Em)) as (s1' & H1 & H2 & _). intros E. exists n. congruence.
Qed.

Theorem commit_not_lost : forall p l r pre a w, l_stmt T V D l = Some (Stmt pre (XAttr a true)) ->
  forall m w', run (p ++ l :: r) w <> Ok (m, w').
Proof.
  intros p l r pre a w Hs m w' E. unfold Lines.run in E. rewrite (run_from_split T V D W read_dep emit) in E.
  destruct (run_upto p (init T V W w)) as [s0|] eqn:E0; [|discriminate]. cbn [Lines.bind] in E.
  pose proof (run_upto_good T V D W read_dep emit _ _ _ (good_init T V W w) E0) as G0.
  change (run_from (l :: r) s0) with (Lines.bind W (step_line l s0) (fun s1 => match r with [] => Ok s1 | _ :: _ => run_from r (next_line l s1) end)) in E.
  destruct (step_line l s0) as [s1|] eqn:E1; [|discriminate]. cbn [Lines.bind] in E.
  assert (Dm : exists n, doomed n s1).
  { pose proof E1 as E1'. unfold Lines.step_line in E1'. rewrite Hs in E1'. unfold Lines.do_stmt in E1'. cbn [s_pre s_act] in E1'.
    destruct (run_pre pre s0) as [s2|] eqn:E2; [|discriminate]. cbn in E1'.
    destruct (do_act (XAttr a true) s2) as [s3|] eqn:E3; [|discriminate]. cbn in E1'.
    unfold is_empty_text in E1'. rewrite Hs in E1'. inversion E1'; subst. clear E1'.
    unfold Lines.do_act in E3. destruct (flush s2) as [f|] eqn:Ef; [|discriminate]. cbn in E3.
    pose proof (flush_good T V W _ _ Ef) as Hf.
    exists (line_no f).
    destruct (c_mode T V (cur T V W f)) as [[|z]|]; unfold raise_here, raise_at in E3; inversion E3; subst; clear E3;
      (split; [unfold add_comment; destruct (l_comment T V D l); exact Hf|]); exists a;
      unfold add_comment; destruct (l_comment T V D l); reflexivity. }
  destruct Dm as (n & Dm).
  assert (R : forall r0 (s s' : st) k, doomed k s -> run_from r0 s = Ok s' -> exists k', doomed k' s').
  { induction r0 as [|l0 r0 IH]; intros s s' k Dk; cbn.
    - intros E'; inversion E'; subst. eauto.
    - destruct (step_line l0 s) as [s2|] eqn:E2; [|discriminate]. cbn.
      destruct (doomed_any_line _ _ _ _ Dk E2) as (k2 & D2).
      destruct r0 as [|l3 r3]; [intros E'; inversion E'; subst; eauto|].
      apply (IH _ _ k2). exact D2. }
  destruct r as [|l2 r2].
  - cbn [Lines.bind] in E. unfold Lines.finish in E. rewrite (doomed_flush _ _ Dm) in E. discriminate.
  - destruct (run_from (l2 :: r2) (next_line l s1)) as [s2|] eqn:E2; [|discriminate]. cbn [Lines.bind] in E.
    assert (Dm' : doomed n (next_line l s1)) by exact Dm.
    destruct (R _ _ _ n Dm' E2) as (k & Dk). unfold Lines.finish in E. rewrite (doomed_flush _ _ Dk) in E. discriminate.
Qed.

End LineProofs.
