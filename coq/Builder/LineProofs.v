(* Builder/LineProofs.v - where errors get their line: the counter invariant and the case analysis of step_line. *)
From Coq Require Import ZArith List Bool Lia.
From PV Require Import Builder.Lines Builder.Basics.
Import ListNotations.
Open Scope Z_scope.

Section LineProofs.
Variables T V D W : Type.
Variable read_dep : D -> W -> W * option eloc.
Variable emit : Z -> text -> W -> W.

Notation st := (st T V W).
Notation line := (line T V D).
Notation flush := (flush T V W).
Notation step_pre := (step_pre T V D W read_dep).
Notation run_pre := (run_pre T V D W read_dep).
Notation do_dir := (do_dir T V W emit).
Notation do_act := (do_act T V W emit).
Notation do_stmt := (do_stmt T V D W read_dep emit).
Notation step_line := (step_line T V D W read_dep emit).
Notation run_from := (run_from T V D W read_dep emit).
Notation run_upto := (run_upto T V D W read_dep emit).
Notation next_line := (next_line T V D W).
Notation line_no := (line_no T V W).

(* the physical line on which the line after ls starts when ls starts on line n: a statement with k raw line feeds inside
   string literals occupies k + 1 physical lines *)
Fixpoint phys_after (n : Z) (ls : list line) : Z :=
  match ls with
  | [] => n
  | l :: r => phys_after (n + 1 + l_extra T V D l) r
  end.

Lemma flush_line : forall s s1 : st, flush s = Ok s1 -> line_no s1 = line_no s.
Proof.
  intros [c h p cl cu d ln w] s1. unfold Lines.flush. cbn.
  destruct h.
  - intros E; inversion E; reflexivity.
  - destruct p as [[[a cf] k]|]; [destruct (commit_fails T V a cf cu)|]; intros E; inversion E; reflexivity.
Qed.

Lemma step_pre_line : forall p (s s1 : st), step_pre p s = Ok s1 -> line_no s1 = line_no s.
Proof.
  intros p s s1. destruct p; cbn.
  - apply flush_line.
  - intros E; inversion E; reflexivity.
  - discriminate.
  - destruct (read_dep d (world T V W s)) as [w [e|]]; [discriminate|]. intros E; inversion E; reflexivity.
Qed.

Lemma run_pre_line : forall ps (s s1 : st), run_pre ps s = Ok s1 -> line_no s1 = line_no s.
Proof.
  induction ps as [|p ps IH]; intros s s1; cbn.
  - intros E; inversion E; reflexivity.
  - destruct (step_pre p s) eqn:E1; [|discriminate]. cbn. intros E. rewrite (IH _ _ E). eapply step_pre_line; eauto.
Qed.

Lemma do_act_line : forall x (s s1 : st), do_act x s = Ok s1 -> line_no s1 = line_no s.
Proof.
  intros x s s1. unfold Lines.do_act. destruct (flush s) as [f|] eqn:Ef; [|discriminate]. cbn.
  rewrite <- (flush_line _ _ Ef).
  destruct x.
  - destruct (c_mode T V (cur T V W f)) as [[|e]|]; unfold raise_here, raise_at; intros E; inversion E; reflexivity.
  - intros E. apply (do_dir_frame T V W emit) in E. tauto.
  - cbn. destruct (closed T V W f); unfold raise_here, raise_at; intros E; inversion E. reflexivity.
Qed.

Lemma step_line_line : forall l (s s1 : st), step_line l s = Ok s1 -> line_no s1 = line_no s.
Proof.
  intros l s s1. unfold Lines.step_line.
  assert (A : forall s0 : st, line_no (add_comment T V D W l s0) = line_no s0).
  { intros s0. unfold add_comment. destruct (l_comment T V D l); reflexivity. }
  destruct (l_stmt T V D l) as [x|].
  - unfold Lines.do_stmt. destruct (run_pre (s_pre T V D x) s) as [s2|] eqn:E2; [|discriminate]. cbn.
    destruct (do_act (s_act T V D x) s2) as [s3|] eqn:E3; [|discriminate]. cbn.
    rewrite <- (run_pre_line _ _ _ E2), <- (do_act_line _ _ _ E3), <- (A s3).
    destruct (is_empty_text T V D l); [apply flush_line|intros E; inversion E; reflexivity].
  - cbn. rewrite <- (A s). destruct (is_empty_text T V D l); [apply flush_line|intros E; inversion E; reflexivity].
Qed.

(* the counter while the line after ls is visited is the physical line on which that line starts *)
Theorem line_counter : forall ls (s s1 : st), run_upto ls s = Ok s1 -> line_no s1 = phys_after (line_no s) ls.
Proof.
  induction ls as [|l r IH]; intros s s1; cbn.
  - intros E; inversion E; reflexivity.
  - destruct (step_line l s) as [s2|] eqn:E2; [|discriminate]. cbn. intros E.
    rewrite (IH _ _ E). unfold Lines.next_line. cbn. rewrite (step_line_line _ _ _ E2). reflexivity.
Qed.

End LineProofs.
