(* Builder/Reader.v - who reads which file when, under which print handler, and where an error gets its path:
   _namespace_reader._read_definitions (target loop, file_pool, functools.partial(print_handler, target.file_path)),
   DSDLDefinition.read (cache per object, self-removal from the lookup list, path injection),
   DataTypeBuilder.resolve_versioned_data_type (lookup, visitor callback, handler handed down unchanged).
   DEFINITIONS ONLY.

   Files are identified by numbers.  Every file of the root namespace exists twice as an object: once in the target list
   and once in the lookup list ("twin"); only the object that was read caches its composite. *)
From Coq Require Import ZArith List Bool.
From PV Require Import Builder.Lines.
Import ListNotations.
Open Scope Z_scope.

Definition memz (x : Z) (l : list Z) : bool := existsb (Z.eqb x) l.
Definition removez (x : Z) (l : list Z) : list Z := filter (fun y => negb (Z.eqb x y)) l.

(* one delivery to the print handler: path, line, text *)
Definition delivery := (text * Z * text)%type.

Record world := World {
  prints : list delivery;     (* in order of delivery *)
  cached : list Z;            (* lookup objects holding a composite (_cached_type) *)
  pool : list Z;              (* file_pool: paths already bound to an object *)
  wanted : list Z             (* _pending_definitions of the current target *)
}.
Definition world0 : world := World [] [] [] [].
Definition add_print (d : delivery) (w : world) := World (prints w ++ [d]) (cached w) (pool w) (wanted w).
Definition add_cached (i : Z) (w : world) := World (prints w) (i :: cached w) (pool w) (wanted w).
Definition add_wanted (i : Z) (w : world) :=
  if memz i (pool w) || memz i (wanted w) then w else World (prints w) (cached w) (pool w) (i :: wanted w).
(* after a target has been read: it and its pending dependencies enter the pool (the latter as lookup twins, which
   are cache hits at level 1 and therefore produce nothing) *)
Definition settle (t : Z) (w : world) := World (prints w) (cached w) (t :: wanted w ++ pool w) [] .

Section Reader.
Variables T V : Type.

Record file := File {
  f_id : Z;
  f_path : text;
  f_syntax : option (option Z);        (* the text does not parse: Some (Some n) - parsimonious reports line n (not modelled);
                                          Some None - nested too deeply for the PEG engine (RecursionError): no line is claimed *)
  f_lines : list (line T V Z)          (* a reference names the number of the file it resolves to *)
}.

Fixpoint find_file (fs : list file) (i : Z) : option file :=
  match fs with
  | [] => None
  | f :: r => if f_id f =? i then Some f else find_file r i
  end.

(* sentinel for "out of fuel" (never produced when fuel > number of files: the lookup list shrinks at every level) *)
Definition out_of_fuel : eloc := ELoc (Some [0]) (Some (-1)).

(* obj.read(lookups, ..., handler) for an object without cached composite: returns the world and the error, if any.
   bound = the path the print handler was bound to by _read_definitions *)
Fixpoint read_obj (fuel : nat) (fs : list file) (bound : text) (lookups : list Z) (i : Z) (w : world) : world * option eloc :=
  match fuel with
  | O => (w, Some out_of_fuel)
  | S fuel' =>
      match find_file fs i with
      | None => (w, Some out_of_fuel)
      | Some f =>
          let lk := removez i lookups in                                   (* filter(lambda d: d != self, ...) *)
          let dep := fun (d : Z) (w0 : world) =>
            if memz d lk then
              let w1 := add_wanted d w0 in                                 (* visitor.on_definition *)
              if memz d (cached w1) then (w1, None)                        (* cache hit: nothing is parsed *)
              else match read_obj fuel' fs bound lk d w1 with
                   | (w2, None) => (add_cached d w2, None)
                   | (w2, Some e) => (w2, Some e)
                   end
            else (w0, Some no_loc)                                         (* UndefinedDataTypeError, raised in the referrer *)
          in
          match f_syntax f with
          | Some n => (w, Some (ELoc (Some (f_path f)) n))
          | None =>
              match run T V Z world dep (fun n s w0 => add_print (bound, n, s) w0) (f_lines f) w with
              | Ok (_, w') => (w', None)
              | Err e w' => (w', Some (fill_path e (f_path f)))
              end
          end
      end
  end.

(* the loop over the sorted targets at level 0 *)
Fixpoint read_targets (fuel : nat) (fs : list file) (lookups targets : list Z) (w : world) : world * option eloc :=
  match targets with
  | [] => (w, None)
  | t :: r =>
      if memz t (pool w) then read_targets fuel fs lookups r w        (* its lookup twin was read as a dependency: skipped *)
      else
        let bound := match find_file fs t with Some f => f_path f | None => [] end in
        match read_obj fuel fs bound lookups t w with
        | (w1, Some e) => (w1, Some e)
        | (w1, None) => read_targets fuel fs lookups r (settle t w1)
        end
  end.

Definition read_ns (fs : list file) (lookups targets : list Z) : list delivery * option eloc :=
  let (w, r) := read_targets (S (length fs)) fs lookups targets world0 in (prints w, r).

End Reader.

Arguments File {T V}.
