(* Builder/Spec.v - what a definition text says, declaratively (no machine state): the attribute statements in source
   order with the comments that belong to them, the header comments, the directives, the service split.
   DEFINITIONS ONLY. *)
From Coq Require Import ZArith List Bool.
From PV Require Import Builder.Lines.
Import ListNotations.
Open Scope Z_scope.

Section Spec.
Variables T V D : Type.
Notation line := (line T V D).
Notation attr := (attr T V).

(* the comment on the line itself *)
Definition own (l : line) : list text := match l_comment T V D l with Some c => [c] | None => [] end.

(* a line that neither holds a statement nor is the empty text: a comment line or a blanks-only line *)
Definition quietb (l : line) : bool :=
  match l_stmt T V D l with Some _ => false | None => negb (is_empty_text T V D l) end.

(* the comments of the run of quiet lines at the beginning of ls: they continue whatever precedes them *)
Fixpoint lead (ls : list line) : list text :=
  match ls with
  | l :: r => if quietb l then own l ++ lead r else []
  | [] => []
  end.

(* joining comment texts as _ParseTreeProcessor.visit_comment does *)
Definition mkdoc_from (b : text) (cs : list text) : text := fold_left cappend cs b.
Definition mkdoc (cs : list text) : text := mkdoc_from [] cs.

Definition attr_of (l : line) : option attr :=
  match l_stmt T V D l with Some (Stmt _ (XAttr a _)) => Some a | _ => None end.
Definition dir_of (l : line) : option (dkind * darg) :=
  match l_stmt T V D l with Some (Stmt _ (XDir k g _)) => Some (k, g) | _ => None end.
Definition is_marker (l : line) : bool :=
  match l_stmt T V D l with Some (Stmt _ XMarker) => true | _ => false end.

(* doc_of: the comment on the statement's line and the comment lines that follow, up to the next statement or empty line *)
Fixpoint attrs_of (ls : list line) : list (attr * text) :=
  match ls with
  | [] => []
  | l :: r => match attr_of l with
              | Some a => (a, mkdoc (own l ++ lead r)) :: attrs_of r
              | None => attrs_of r
              end
  end.

(* the attribute statements in source order *)
Fixpoint stmt_attrs (ls : list line) : list attr :=
  match ls with
  | [] => []
  | l :: r => match attr_of l with Some a => a :: stmt_attrs r | None => stmt_attrs r end
  end.

Definition is_field (ad : attr * text) : bool := fieldlike T V (fst ad).
Definition is_const (ad : attr * text) : bool := negb (fieldlike T V (fst ad)).

Definition has_dir (k : dkind) (ls : list line) : bool :=
  existsb (fun l => match dir_of l with
                    | Some (k', _) => match k, k' with
                                      | KUnion, KUnion | KDeprecated, KDeprecated => true
                                      | _, _ => false
                                      end
                    | None => false end) ls.

Definition mode_of_dir (kg : dkind * darg) : list mode :=
  match kg with
  | (KSealed, GNone) => [MSealed]
  | (KExtent, GInt z) => [MDelimited z]
  | _ => []
  end.
Fixpoint mode_dirs (ls : list line) : list mode :=
  match ls with
  | [] => []
  | l :: r => (match dir_of l with Some kg => mode_of_dir kg | None => [] end) ++ mode_dirs r
  end.

(* the lines before the first service marker, and the marker line with what follows it *)
Fixpoint split_marker (ls : list line) : list line * option (line * list line) :=
  match ls with
  | [] => ([], None)
  | l :: r => if is_marker l then ([], Some (l, r))
              else let (a, b) := split_marker r in (l :: a, b)
  end.

(* one schema of the returned composite mirrors the lines ls of its section; hdr = the comments in front of it *)
Definition mirrors (hdr : list text) (ls : list line) (k : sect T V) : Prop :=
  k_fields T V k = filter is_field (attrs_of ls)
  /\ k_consts T V k = filter is_const (attrs_of ls)
  /\ k_doc T V k = mkdoc hdr
  /\ k_union T V k = has_dir KUnion ls
  /\ exists mo, mode_dirs ls = [mo] /\ k_extent T V k = match mo with MSealed => None | MDelimited z => Some z end.

End Spec.
