(* Builder/RenderProofs.v - C03_render: the canonical text of a model is accepted and reads back as that model. *)
From Coq Require Import ZArith List Bool Lia.
From PV Require Import Builder.Lines Builder.Basics Builder.Spec Builder.Mirror Builder.Accept Builder.Render.
Import ListNotations.
Open Scope Z_scope.

(* ---- docs ---- *)

Lemma join_split : forall d, exists seg segs, split10 d = seg :: segs /\ seg ++ concat (map (cons 10) segs) = d
  /\ (match d with [] => True | x :: _ => x <> 10 -> seg <> [] end).
Proof.
  induction d as [|x r IH].
  - exists [], []. cbn. auto.
  - destruct IH as (seg & segs & E & J & _). cbn. rewrite E. destruct (x =? 10) eqn:Ex.
    + apply Z.eqb_eq in Ex. subst x. exists [], (seg :: segs). cbn. rewrite J. split; [reflexivity|]. split; [reflexivity|]. intros H; congruence.
    + exists (x :: seg), segs. cbn. rewrite J. split; [reflexivity|]. split; [reflexivity|]. intros _; discriminate.
Qed.

Lemma fold_cappend_ne : forall segs buf, buf <> [] ->
  fold_left cappend (map (cons 32) segs) buf = buf ++ concat (map (cons 10) segs).
Proof.
  induction segs as [|seg segs IH]; intros buf NE; cbn.
  - rewrite app_nil_r. reflexivity.
  - assert (E : cappend buf (32 :: seg) = buf ++ 10 :: seg).
    { unfold cappend. destruct buf; [congruence|]. reflexivity. }
    rewrite E. rewrite IH; [|destruct buf; discriminate]. rewrite <- app_assoc. reflexivity.
Qed.

Lemma mkdoc_doc_lines : forall d, wf_doc d -> mkdoc (doc_lines d) = d.
Proof.
  intros d Hw. destruct d as [|x r]; [reflexivity|].
  unfold doc_lines. destruct (join_split (x :: r)) as (seg & segs & E & J & N). rewrite E.
  assert (Hx : x <> 10) by (intros ->; exact Hw).
  specialize (N Hx). unfold mkdoc, mkdoc_from. cbn [map fold_left].
  assert (E1 : cappend [] (32 :: seg) = seg) by reflexivity. rewrite E1.
  rewrite fold_cappend_ne; [exact J|exact N].
Qed.

Section RenderProofs.
Variables T V D W : Type.
Variable read_dep : D -> W -> W * option eloc.
Variable emit : Z -> text -> W -> W.

Notation line := (line T V D).
Notation cline := (cline T V D).
Notation sline := (sline T V D).
Notation render_attr := (render_attr T V D).
Notation render_sect := (render_sect T V D).
Notation render := (render T V D).
Notation mode_line := (mode_line T V D).
Notation lead := (lead T V D).
Notation own := (own T V D).
Notation attrs_of := (attrs_of T V D).
Notation has_dir := (has_dir T V D).
Notation mode_dirs := (mode_dirs T V D).
Notation split_marker := (split_marker T V D).
Notation run_ab := (run_ab T V D).
Notation step_ab := (step_ab T V D).

(* ---- the spec functions on rendered lines ---- *)

Definition starts_stmt (ls : list line) : Prop := match ls with l :: _ => l_stmt T V D l <> None | [] => False end.

Lemma lead_clines : forall cs rest, lead (map cline cs ++ rest) = cs ++ lead rest.
Proof. induction cs as [|c cs IH]; intros rest; cbn; [reflexivity|]. rewrite IH. reflexivity. Qed.

Lemma lead_starts : forall ls, starts_stmt ls -> lead ls = [].
Proof. intros [|l r] H; [contradiction|]. cbn in *. unfold quietb. destruct (l_stmt T V D l); [reflexivity|congruence]. Qed.

Lemma attrs_of_clines : forall cs rest, attrs_of (map cline cs ++ rest) = attrs_of rest.
Proof. induction cs as [|c cs IH]; intros rest; cbn; [reflexivity|]. apply IH. Qed.

Lemma starts_render_attr : forall ad rest, starts_stmt (render_attr ad ++ rest).
Proof. intros ad rest. unfold Render.render_attr. destruct (doc_lines (snd ad)); cbn; discriminate. Qed.

Lemma starts_flat : forall ads rest, starts_stmt rest -> starts_stmt (flat_map render_attr ads ++ rest).
Proof. intros [|ad ads] rest H; [exact H|]. cbn. rewrite <- app_assoc. apply starts_render_attr. Qed.

Lemma attrs_of_render_attr : forall ad rest, wf_doc (snd ad) -> starts_stmt rest ->
  attrs_of (render_attr ad ++ rest) = ad :: attrs_of rest.
Proof.
  intros [a d] rest Hw Hs. unfold Render.render_attr. cbn [fst snd].
  pose proof (mkdoc_doc_lines d Hw) as Hd. destruct (doc_lines d) as [|c cs] eqn:Ed.
  - cbn. rewrite (lead_starts _ Hs). cbn in Hd. rewrite <- Hd. reflexivity.
  - cbn [app attrs_of Spec.attrs_of]. unfold attr_of. cbn [l_stmt Render.sline].
    rewrite attrs_of_clines. f_equal. f_equal. unfold Spec.own at 1. cbn [l_comment Render.sline].
    rewrite lead_clines, (lead_starts _ Hs), app_nil_r. exact Hd.
Qed.

Lemma attrs_of_flat : forall ads rest, Forall (fun ad => wf_doc (snd ad)) ads -> starts_stmt rest ->
  attrs_of (flat_map render_attr ads ++ rest) = ads ++ attrs_of rest.
Proof.
  induction ads as [|ad ads IH]; intros rest F Hs; [reflexivity|].
  inversion F as [|? ? F1 F2]; subst. cbn [flat_map]. rewrite <- app_assoc.
  rewrite attrs_of_render_attr; [|exact F1|apply starts_flat; exact Hs]. rewrite IH; auto.
Qed.

Lemma has_dir_app : forall k a b, has_dir k (a ++ b) = has_dir k a || has_dir k b.
Proof. intros. unfold Spec.has_dir. apply existsb_app. Qed.

Lemma has_dir_clines : forall k cs, has_dir k (map cline cs) = false.
Proof. intros k. induction cs as [|c cs IH]; cbn; [reflexivity|]. exact IH. Qed.

Lemma has_dir_flat : forall k ads, has_dir k (flat_map render_attr ads) = false.
Proof.
  intros k. induction ads as [|ad ads IH]; [reflexivity|]. cbn [flat_map]. rewrite has_dir_app, IH, orb_false_r.
  unfold Render.render_attr. destruct (doc_lines (snd ad)); cbn; [reflexivity|]. apply has_dir_clines.
Qed.

Lemma mode_dirs_app : forall a b, mode_dirs (a ++ b) = mode_dirs a ++ mode_dirs b.
Proof. induction a as [|l a IH]; intros b; cbn; [reflexivity|]. rewrite IH, app_assoc. reflexivity. Qed.

Lemma mode_dirs_clines : forall cs, mode_dirs (map cline cs) = [].
Proof. induction cs as [|c cs IH]; cbn; [reflexivity|]. exact IH. Qed.

Lemma mode_dirs_flat : forall ads, mode_dirs (flat_map render_attr ads) = [].
Proof.
  induction ads as [|ad ads IH]; [reflexivity|]. cbn [flat_map]. rewrite mode_dirs_app, IH, app_nil_r.
  unfold Render.render_attr. destruct (doc_lines (snd ad)); cbn; [reflexivity|]. apply mode_dirs_clines.
Qed.

Lemma no_marker_app : forall a b, no_marker T V D a -> no_marker T V D b -> no_marker T V D (a ++ b).
Proof. intros. apply Forall_app. split; assumption. Qed.

Lemma no_marker_clines : forall cs, no_marker T V D (map cline cs).
Proof. induction cs; constructor; [reflexivity|assumption]. Qed.

Lemma no_marker_flat : forall ads, no_marker T V D (flat_map render_attr ads).
Proof.
  induction ads as [|ad ads IH]; [constructor|]. cbn [flat_map]. apply no_marker_app; [|exact IH].
  unfold Render.render_attr. destruct (doc_lines (snd ad)); [constructor; [reflexivity|constructor]|].
  constructor; [reflexivity|apply no_marker_clines].
Qed.

Lemma no_marker_sect : forall dep k, no_marker T V D (render_sect dep k).
Proof.
  intros dep k. unfold Render.render_sect. repeat apply no_marker_app.
  - apply no_marker_clines.
  - destruct dep; [constructor; [reflexivity|constructor]|constructor].
  - destruct (k_union T V k); [constructor; [reflexivity|constructor]|constructor].
  - apply no_marker_flat.
  - constructor; [|constructor]. unfold Render.mode_line. destruct (k_extent T V k); reflexivity.
Qed.

Lemma split_no_marker : forall ls, no_marker T V D ls -> split_marker ls = (ls, None).
Proof.
  induction ls as [|l r IH]; intros M; [reflexivity|]. inversion M as [|? ? M1 M2]; subst. cbn. rewrite M1, (IH M2). reflexivity.
Qed.

Lemma split_at_marker : forall a ml b, no_marker T V D a -> is_marker T V D ml = true -> split_marker (a ++ ml :: b) = (a, Some (ml, b)).
Proof.
  induction a as [|l a IH]; intros ml b M Hm.
  - cbn. rewrite Hm. reflexivity.
  - inversion M as [|? ? M1 M2]; subst. cbn. rewrite M1, (IH _ _ M2 Hm). reflexivity.
Qed.

(* the tail of a section after its header comments starts with a statement *)
Definition sect_tail (dep : bool) (k : sect T V) : list line :=
  (if dep then [sline (XDir KDeprecated GNone []) None] else [])
  ++ (if k_union T V k then [sline (XDir KUnion GNone []) None] else [])
  ++ flat_map render_attr (k_fields T V k ++ k_consts T V k)
  ++ [mode_line k].

Lemma starts_mode_line : forall k, starts_stmt [mode_line k].
Proof. intros k. cbn. discriminate. Qed.

Lemma starts_sect_tail : forall dep k, starts_stmt (sect_tail dep k).
Proof.
  intros dep k. unfold sect_tail. destruct dep; [cbn; discriminate|]. destruct (k_union T V k); [cbn; discriminate|].
  cbn [app]. apply starts_flat. apply starts_mode_line.
Qed.

Lemma render_sect_tail : forall dep k, render_sect dep k = map cline (doc_lines (k_doc T V k)) ++ sect_tail dep k.
Proof. reflexivity. Qed.

Lemma filter_all : forall (A : Type) (f : A -> bool) l, Forall (fun x => f x = true) l -> filter f l = l.
Proof. intros A f l F. induction F as [|x l H _ IH]; cbn; [reflexivity|]. rewrite H, IH. reflexivity. Qed.
Lemma filter_none : forall (A : Type) (f : A -> bool) l, Forall (fun x => f x = false) l -> filter f l = [].
Proof. intros A f l F. induction F as [|x l H _ IH]; cbn; [reflexivity|]. rewrite H, IH. reflexivity. Qed.

Lemma filter_field_app : forall (fs cs : list (attr T V * text)),
  Forall (fun ad => fieldlike T V (fst ad) = true) fs -> Forall (fun ad => fieldlike T V (fst ad) = false) cs ->
  filter (is_field T V) (fs ++ cs) = fs /\ filter (is_const T V) (fs ++ cs) = cs.
Proof.
  intros fs cs Ff Fc. rewrite !filter_app. unfold is_field, is_const.
  rewrite (filter_all _ _ fs Ff), (filter_none _ _ cs Fc), app_nil_r.
  rewrite (filter_none _ (fun ad => negb (fieldlike T V (fst ad))) fs), (filter_all _ (fun ad => negb (fieldlike T V (fst ad))) cs).
  - auto.
  - eapply Forall_impl; [|exact Fc]. cbn. intros a H. rewrite H. reflexivity.
  - eapply Forall_impl; [|exact Ff]. cbn. intros a H. rewrite H. reflexivity.
Qed.

(* a schema that mirrors the rendering of k is k *)
Lemma mirrors_render : forall dep k hdr k', wf_sect T V k -> mirrors T V D hdr (render_sect dep k) k' ->
  mkdoc hdr = k_doc T V k -> k' = k.
Proof.
  intros dep k hdr k' (Wf & Wc & Wd & Wu) (M1 & M2 & M3 & M4 & mo & M5 & M6) Hh.
  rewrite render_sect_tail in *. rewrite attrs_of_clines in M1, M2.
  assert (Hw : Forall (fun ad => wf_doc (snd ad)) (k_fields T V k ++ k_consts T V k)).
  { apply Forall_app. split; [eapply Forall_impl; [|exact Wf]|eapply Forall_impl; [|exact Wc]]; cbn; tauto. }
  assert (At : attrs_of (sect_tail dep k) = k_fields T V k ++ k_consts T V k).
  { assert (Am : attrs_of [mode_line k] = []) by (unfold Render.mode_line; destruct (k_extent T V k); reflexivity).
    unfold sect_tail. destruct dep; destruct (k_union T V k); cbn [app attrs_of Spec.attrs_of];
      unfold attr_of; cbn [l_stmt Render.sline s_act];
      rewrite (attrs_of_flat _ _ Hw (starts_mode_line k)), Am, app_nil_r; reflexivity. }
  rewrite At in M1, M2.
  destruct (filter_field_app (k_fields T V k) (k_consts T V k)) as [F1 F2].
  { eapply Forall_impl; [|exact Wf]; cbn; tauto. } { eapply Forall_impl; [|exact Wc]; cbn; tauto. }
  rewrite F1 in M1. rewrite F2 in M2.
  assert (Hu : has_dir KUnion (map cline (doc_lines (k_doc T V k)) ++ sect_tail dep k) = k_union T V k).
  { rewrite has_dir_app, has_dir_clines. unfold sect_tail. cbn [orb].
    rewrite !has_dir_app, has_dir_flat. destruct dep, (k_union T V k); cbn; unfold Render.mode_line; destruct (k_extent T V k); reflexivity. }
  assert (Hm : mode_dirs (map cline (doc_lines (k_doc T V k)) ++ sect_tail dep k)
               = [match k_extent T V k with Some z => MDelimited z | None => MSealed end]).
  { rewrite mode_dirs_app, mode_dirs_clines. unfold sect_tail. cbn [app].
    rewrite !mode_dirs_app, mode_dirs_flat. destruct dep, (k_union T V k); cbn; unfold Render.mode_line; destruct (k_extent T V k); reflexivity. }
  rewrite Hu in M4. rewrite Hm in M5. inversion M5; subst mo.
  destruct k' as [u' e' d' f' c'], k as [u e d f c]. cbn in *. subst.
  f_equal. destruct e; reflexivity.
Qed.

(* ---- the rendering passes the checker ---- *)

Notation ab := Accept.ab.

Lemma run_ab_app : forall a b x, run_ab (a ++ b) x = match run_ab a x with Some y => run_ab b y | None => None end.
Proof.
  induction a as [|l a IH]; intros b x; cbn; [reflexivity|]. destruct (step_ab l x); [apply IH|reflexivity].
Qed.

Lemma run_ab_clines : forall cs a, run_ab (map cline cs) a = Some a.
Proof. induction cs as [|c cs IH]; intros a; cbn; [reflexivity|]. apply IH. Qed.

Definition nfl (ads : list (attr T V * text)) : nat := length (filter (is_field T V) ads).

Lemma run_ab_attr : forall ad sn u nf d r q,
  run_ab (render_attr ad) (Ab sn None u nf d r q) = Some (Ab true None u (if fieldlike T V (fst ad) then S nf else nf) d r q).
Proof.
  intros ad sn u nf d r q. unfold Render.render_attr. destruct (doc_lines (snd ad)) as [|c cs]; cbn.
  - reflexivity.
  - apply run_ab_clines.
Qed.

Lemma run_ab_flat : forall ads sn u nf d r q, exists sn',
  run_ab (flat_map render_attr ads) (Ab sn None u nf d r q) = Some (Ab sn' None u (nf + nfl ads) d r q).
Proof.
  induction ads as [|ad ads IH]; intros sn u nf d r q.
  - exists sn. cbn. rewrite Nat.add_0_r. reflexivity.
  - cbn [flat_map]. rewrite run_ab_app, run_ab_attr.
    destruct (IH true u (if fieldlike T V (fst ad) then S nf else nf) d r q) as (sn' & E). exists sn'. rewrite E.
    unfold nfl, is_field. cbn [filter]. destruct (fieldlike T V (fst ad)); cbn [length]; rewrite ?Nat.add_succ_r; reflexivity.
Qed.

Lemma run_ab_sect : forall dep k d r q, (dep = true -> d = false /\ r = false) ->
  exists sn', run_ab (render_sect dep k) (Ab false None false 0 d r q)
              = Some (Ab sn' (Some (match k_extent T V k with Some z => MDelimited z | None => MSealed end)) (k_union T V k)
                         (nfl (k_fields T V k ++ k_consts T V k)) (d || dep) r q).
Proof.
  intros dep k d r q Hd. unfold Render.render_sect.
  rewrite run_ab_app, run_ab_clines.
  assert (E1 : run_ab (if dep then [sline (XDir KDeprecated GNone []) None] else []) (Ab false None false 0 d r q)
               = Some (Ab false None false 0 (d || dep) r q)).
  { destruct dep; cbn; [|rewrite orb_false_r; reflexivity]. destruct (Hd eq_refl) as [-> ->]. reflexivity. }
  rewrite run_ab_app, E1.
  assert (E2 : run_ab (if k_union T V k then [sline (XDir KUnion GNone []) None] else []) (Ab false None false 0 (d || dep) r q)
               = Some (Ab false None (k_union T V k) 0 (d || dep) r q)).
  { destruct (k_union T V k); reflexivity. }
  rewrite run_ab_app, E2, run_ab_app.
  destruct (run_ab_flat (k_fields T V k ++ k_consts T V k) false (k_union T V k) 0 (d || dep) r q) as (sn' & E3). rewrite E3.
  exists sn'. unfold Render.mode_line. destruct (k_extent T V k); reflexivity.
Qed.

Lemma nfl_wf : forall k, wf_sect T V k -> nfl (k_fields T V k ++ k_consts T V k) = length (k_fields T V k).
Proof.
  intros k (Wf & Wc & _). unfold nfl.
  destruct (filter_field_app (k_fields T V k) (k_consts T V k)) as [F1 _].
  { eapply Forall_impl; [|exact Wf]; cbn; tauto. } { eapply Forall_impl; [|exact Wc]; cbn; tauto. }
  rewrite F1. reflexivity.
Qed.

Lemma sect_ok_wf : forall k mo, wf_sect T V k -> sect_ok (Some mo) (k_union T V k) (length (k_fields T V k)) = true.
Proof.
  intros k mo (_ & _ & _ & Wu). unfold sect_ok. destruct (k_union T V k); [|reflexivity].
  specialize (Wu eq_refl). destruct (Nat.ltb_spec (length (k_fields T V k)) 2); [lia|reflexivity].
Qed.

Lemma okb_render : forall m, wf_model T V m -> okb T V D (render m) = true.
Proof.
  intros m [Wq Ws]. unfold okb, Render.render. rewrite run_ab_app.
  destruct (run_ab_sect (m_deprecated T V m) (m_req T V m) false false true) as (s1 & E1); [auto|].
  unfold ab0. rewrite E1. rewrite (nfl_wf _ Wq). cbn [orb].
  destruct (m_resp T V m) as [k|].
  - cbn [run_ab step_ab l_stmt Render.sline forallb a_resp a_mode a_union a_nf a_dep].
    destruct (run_ab_sect false k (m_deprecated T V m) true
                (sect_ok (Some (match k_extent T V (m_req T V m) with Some z => MDelimited z | None => MSealed end))
                         (k_union T V (m_req T V m)) (length (k_fields T V (m_req T V m))))) as (s2 & E2); [discriminate|].
    rewrite E2. cbn [a_reqok a_mode a_union a_nf]. rewrite (nfl_wf _ Ws), !sect_ok_wf; auto.
  - cbn [run_ab a_reqok a_mode a_union a_nf]. rewrite sect_ok_wf; auto.
Qed.

Lemma has_dir_dep_sect : forall dep k, has_dir KDeprecated (render_sect dep k) = dep.
Proof.
  intros dep k. unfold Render.render_sect. rewrite !has_dir_app, has_dir_clines, has_dir_flat.
  destruct dep, (k_union T V k); cbn; unfold Render.mode_line; destruct (k_extent T V k); reflexivity.
Qed.

Lemma lead_sect : forall dep k, lead (render_sect dep k) = doc_lines (k_doc T V k).
Proof. intros dep k. rewrite render_sect_tail, lead_clines, (lead_starts _ (starts_sect_tail dep k)), app_nil_r. reflexivity. Qed.

(* C03_render *)
Theorem render_reads_back : forall m w, wf_model T V m -> exists w', Lines.run T V D W read_dep emit (render m) w = Ok (m, w').
Proof.
  intros m w Wm. destruct (okb_accepts T V D W read_dep emit _ w (okb_render m Wm)) as (m' & w' & E).
  exists w'. rewrite E. f_equal. f_equal.
  destruct (mirror T V D W read_dep emit _ _ _ _ E) as [Hd Hs]. destruct Wm as [Wq Ws].
  unfold Render.render in Hd, Hs.
  destruct (m_resp T V m) as [k|] eqn:Er.
  - rewrite (split_at_marker _ (sline XMarker None) _ (no_marker_sect _ _) eq_refl) in Hs.
    destruct Hs as (Mq & k' & Ek' & Mk & _).
    rewrite has_dir_app, has_dir_dep_sect in Hd. change (sline XMarker None :: render_sect false k) with ([sline XMarker None] ++ render_sect false k) in Hd.
    rewrite has_dir_app, has_dir_dep_sect in Hd. cbn in Hd. rewrite !orb_false_r in Hd.
    pose proof (mirrors_render _ _ _ _ Wq Mq) as Hq. rewrite lead_sect in Hq. specialize (Hq (mkdoc_doc_lines _ (proj1 (proj2 (proj2 Wq))))).
    pose proof (mirrors_render _ _ _ _ Ws Mk) as Hk. rewrite lead_sect in Hk. cbn [app] in Hk.
    specialize (Hk (mkdoc_doc_lines _ (proj1 (proj2 (proj2 Ws))))).
    destruct m' as [d' q' r'], m as [d q r]. cbn in *. subst. reflexivity.
  - rewrite app_nil_r in Hd, Hs. rewrite (split_no_marker _ (no_marker_sect _ _)) in Hs. destruct Hs as (Mq & Hn).
    rewrite has_dir_dep_sect in Hd.
    pose proof (mirrors_render _ _ _ _ Wq Mq) as Hq. rewrite lead_sect in Hq. specialize (Hq (mkdoc_doc_lines _ (proj1 (proj2 (proj2 Wq))))).
    destruct m' as [d' q' r'], m as [d q r]. cbn in *. subst. reflexivity.
Qed.

End RenderProofs.
