(* Builder/ExtraFull.v - C03: an extra comment line or empty line changes neither acceptance nor anything but docs.
   Simulation that ignores docs, the comment buffer and line numbers; for empty lines (an earlier flush) the two runs
   are related "up to a pending flush", which needs that a statement visits an identifier before it evaluates _offset_
   (true of every statement of the grammar: _offset_ is an identifier). *)
From Coq Require Import ZArith List Bool Lia.
From PV Require Import Builder.Lines Builder.Basics Builder.Blank Builder.Extra.
Import ListNotations.
Open Scope Z_scope.

Section ExtraFull.
Variables T V D W : Type.
Variable read_dep : D -> W -> W * option eloc.
Variable emit : Z -> text -> W -> W.
Hypothesis emit_blind : forall n n' t w, emit n t w = emit n' t w.

Notation st := (st T V W).
Notation line := (line T V D).
Notation schema := (schema T V).
Notation flush := (flush T V W).
Notation step_pre := (step_pre T V D W read_dep).
Notation run_pre := (run_pre T V D W read_dep).
Notation do_dir := (do_dir T V W emit).
Notation do_act := (do_act T V W emit).
Notation do_stmt := (do_stmt T V D W read_dep emit).
Notation step_line := (step_line T V D W read_dep emit).
Notation run_from := (run_from T V D W read_dep emit).
Notation run_upto := (run_upto T V D W read_dep emit).
Notation next_line := (next_line T V D W).
Notation run := (Lines.run T V D W read_dep emit).
Notation finish := (Lines.finish T V W).
Notation psim := (psim T V).

(* schemas equal up to docs *)
Definition sdoc (c1 c2 : schema) : Prop :=
  map fst (c_fields T V c1) = map fst (c_fields T V c2) /\ map fst (c_consts T V c1) = map fst (c_consts T V c2)
  /\ c_mode T V c1 = c_mode T V c2 /\ c_union T V c1 = c_union T V c2 /\ c_offset T V c1 = c_offset T V c2.
Definition osdoc (o1 o2 : option schema) : Prop :=
  match o1, o2 with Some a, Some b => sdoc a b | None, None => True | _, _ => False end.

Inductive dsim : st -> st -> Prop :=
| dsim_intro : forall c1 c2 h p1 p2 cl1 cl2 cu1 cu2 d ln1 ln2 w, psim p1 p2 -> osdoc cl1 cl2 -> sdoc cu1 cu2 ->
    dsim (St T V W c1 h p1 cl1 cu1 d ln1 w) (St T V W c2 h p2 cl2 cu2 d ln2 w).

Definition rdsim (r1 r2 : res W st) : Prop :=
  match r1, r2 with
  | Ok s1, Ok s2 => dsim s1 s2
  | Err _ w1, Err _ w2 => w1 = w2
  | _, _ => False
  end.

Lemma sdoc_refl : forall c, sdoc c c.
Proof. intros c. repeat split. Qed.
Lemma osdoc_refl : forall o, osdoc o o.
Proof. intros [c|]; cbn; [apply sdoc_refl|exact I]. Qed.
Lemma dsim_refl : forall s, dsim s s.
Proof. intros [c h p cl cu d ln w]. constructor; [apply psim_refl|apply osdoc_refl|apply sdoc_refl]. Qed.

Lemma sdoc_trans : forall a b c, sdoc a b -> sdoc b c -> sdoc a c.
Proof. intros a b c (A1 & A2 & A3 & A4 & A5) (B1 & B2 & B3 & B4 & B5). repeat split; congruence. Qed.
Lemma sdoc_sym : forall a b, sdoc a b -> sdoc b a.
Proof. intros a b (A1 & A2 & A3 & A4 & A5). repeat split; congruence. Qed.

Lemma bind_rdsim : forall (r1 r2 : res W st) (f g : st -> res W st),
  rdsim r1 r2 -> (forall s1 s2, dsim s1 s2 -> rdsim (f s1) (g s2)) -> rdsim (Lines.bind W r1 f) (Lines.bind W r2 g).
Proof. intros [s1|e1 w1] [s2|e2 w2] f g H K; cbn in *; try contradiction; auto. Qed.

Lemma sdoc_set_doc : forall d1 d2 c1 c2, sdoc c1 c2 -> sdoc (set_doc T V d1 c1) (set_doc T V d2 c2).
Proof. intros d1 d2 c1 c2 H. exact H. Qed.

Lemma sdoc_add_attr : forall a d1 d2 c1 c2, sdoc c1 c2 -> sdoc (add_attr T V a d1 c1) (add_attr T V a d2 c2).
Proof.
  intros a d1 d2 c1 c2 (A1 & A2 & A3 & A4 & A5). unfold Lines.add_attr. destruct (fieldlike T V a); repeat split; cbn; try assumption;
    rewrite !map_app; cbn; congruence.
Qed.

Lemma sdoc_commit_fails : forall a cf c1 c2, sdoc c1 c2 -> commit_fails T V a cf c1 = commit_fails T V a cf c2.
Proof. intros a cf c1 c2 (_ & _ & _ & A4 & A5). unfold commit_fails. rewrite A4, A5. reflexivity. Qed.

Lemma sdoc_has_attrs : forall c1 c2, sdoc c1 c2 -> has_attrs T V c1 = has_attrs T V c2.
Proof.
  intros c1 c2 (A1 & A2 & _). unfold has_attrs.
  destruct (c_fields T V c1), (c_fields T V c2); try discriminate; destruct (c_consts T V c1), (c_consts T V c2); try discriminate; reflexivity.
Qed.

Lemma flush_dsim : forall s t, dsim s t -> rdsim (flush s) (flush t).
Proof.
  intros s t H. destruct H as [c1 c2 h p1 p2 cl1 cl2 cu1 cu2 d ln1 ln2 w P Cl Cu]. unfold Lines.flush. cbn.
  destruct h.
  - cbn. constructor; [exact P|exact Cl|exact Cu].
  - destruct p1 as [[[a cf] n]|], p2 as [[[a' cf'] n']|]; cbn in P; try contradiction.
    + destruct P as [-> ->]. rewrite (sdoc_commit_fails a' cf' _ _ Cu). destruct (commit_fails T V a' cf' cu2); cbn; [reflexivity|].
      constructor; [exact I|exact Cl|apply sdoc_add_attr; exact Cu].
    + cbn. constructor; [exact I|exact Cl|exact Cu].
Qed.

Lemma step_pre_dsim : forall p s t, dsim s t -> rdsim (step_pre p s) (step_pre p t).
Proof.
  intros p s t H. destruct p; cbn.
  - apply flush_dsim; exact H.
  - destruct H as [c1 c2 h p1 p2 cl1 cl2 cu1 cu2 d ln1 ln2 w P Cl Cu]. cbn. constructor; try assumption.
    destruct Cu as (A1 & A2 & A3 & A4 & A5). repeat split; assumption.
  - destruct H. cbn. reflexivity.
  - destruct H as [c1 c2 h p1 p2 cl1 cl2 cu1 cu2 dd ln1 ln2 w P Cl Cu]. cbn. destruct (read_dep d w) as [w1 [e|]]; cbn; [reflexivity|].
    constructor; assumption.
Qed.

Lemma run_pre_dsim : forall ps s t, dsim s t -> rdsim (run_pre ps s) (run_pre ps t).
Proof.
  induction ps as [|p ps IH]; intros s t H; cbn; [exact H|].
  apply bind_rdsim; [apply step_pre_dsim; exact H|exact IH].
Qed.

Lemma do_dir_dsim : forall k g sh s t, dsim s t -> rdsim (do_dir k g sh s) (do_dir k g sh t).
Proof.
  intros k g sh s t H. destruct H as [c1 c2 h p1 p2 cl1 cl2 cu1 cu2 d ln1 ln2 w P Cl Cu].
  pose proof (sdoc_has_attrs _ _ Cu) as Ha. pose proof Cu as (A1 & A2 & A3 & A4 & A5).
  assert (SM : forall m, sdoc (set_mode T V m cu1) (set_mode T V m cu2)) by (intros m; repeat split; assumption).
  assert (SU : sdoc (set_union T V cu1) (set_union T V cu2)) by (repeat split; assumption).
  unfold Lines.do_dir, raise_here, raise_at. destruct k; cbn.
  - rewrite (emit_blind ln1 ln2). unfold set_world. cbn. constructor; assumption.
  - destruct g as [|[|]| |]; cbn; try reflexivity. constructor; assumption.
  - rewrite A3. destruct (c_mode T V cu2); [reflexivity|]. destruct g; cbn; try reflexivity. constructor; try assumption. apply SM.
  - rewrite A3. destruct (c_mode T V cu2); [reflexivity|]. destruct g; cbn; try reflexivity. constructor; try assumption. apply SM.
  - destruct g; cbn; try reflexivity. rewrite A4, Ha. destruct (_ || _); cbn; [reflexivity|]. constructor; try assumption.
  - destruct g; cbn; try reflexivity. rewrite Ha.
    assert (Ec : (match cl1 with Some _ => true | None => false end) = (match cl2 with Some _ => true | None => false end)).
    { destruct cl1, cl2; cbn in Cl; try contradiction; reflexivity. }
    rewrite Ec. destruct (_ || _); cbn; [reflexivity|]. constructor; assumption.
  - reflexivity.
Qed.

(* the handler part of do_act, after its flush *)
Definition act_body (x : action T V) (s1 : st) : res W st :=
  match x with
  | XAttr a cf =>
      match c_mode T V (cur T V W s1) with
      | Some (MDelimited _) => raise_here T V W s1
      | _ => Ok (set_pending T V W (Some (a, cf, line_no T V W s1)) s1)
      end
  | XDir k g shown => do_dir k g shown s1
  | XMarker =>
      let s2 := set_header T V W true s1 in
      match closed T V W s2 with
      | Some _ => raise_here T V W s2
      | None => Ok (open_response T V W s2)
      end
  end.

Lemma do_act_body : forall x s, do_act x s = Lines.bind W (flush s) (act_body x).
Proof. reflexivity. Qed.

Lemma act_body_dsim : forall x s1 t1, dsim s1 t1 -> rdsim (act_body x s1) (act_body x t1).
Proof.
  intros x s1 t1 H1. destruct x.
  - destruct H1 as [c1 c2 h p1 p2 cl1 cl2 cu1 cu2 d ln1 ln2 w P Cl Cu]. cbn.
    pose proof Cu as (_ & _ & A3 & _). rewrite A3. destruct (c_mode T V cu2) as [[|z]|]; cbn; try reflexivity;
      constructor; cbn; auto.
  - apply do_dir_dsim. exact H1.
  - destruct H1 as [c1 c2 h p1 p2 cl1 cl2 cu1 cu2 d ln1 ln2 w P Cl Cu]. cbn.
    destruct cl1, cl2; cbn in Cl; try contradiction; cbn; [reflexivity|]. constructor; [exact P|exact Cu|apply sdoc_refl].
Qed.

Lemma do_act_dsim : forall x s t, dsim s t -> rdsim (do_act x s) (do_act x t).
Proof.
  intros x s t H. rewrite !do_act_body. apply bind_rdsim; [apply flush_dsim; exact H|]. apply act_body_dsim.
Qed.

Lemma add_comment_dsim : forall l l' s t, dsim s t -> dsim (add_comment T V D W l s) (add_comment T V D W l' t).
Proof.
  intros l l' s t H. unfold add_comment. destruct H. destruct (l_comment T V D l), (l_comment T V D l'); constructor; assumption.
Qed.

Lemma step_line_dsim : forall l s t, dsim s t -> rdsim (step_line l s) (step_line l t).
Proof.
  intros l s t H. unfold Lines.step_line. apply bind_rdsim.
  - destruct (l_stmt T V D l) as [x|]; [|exact H]. unfold Lines.do_stmt.
    apply bind_rdsim; [apply run_pre_dsim; exact H|]. intros; apply do_act_dsim; assumption.
  - intros s1 t1 H1. pose proof (add_comment_dsim l l _ _ H1) as A.
    destruct (is_empty_text T V D l); [apply flush_dsim; exact A|exact A].
Qed.

Lemma next_line_dsim : forall l l' s t, dsim s t -> dsim (next_line l s) (next_line l' t).
Proof. intros l l' s t H. destruct H. constructor; assumption. Qed.

Lemma run_from_dsim : forall ls s t, dsim s t -> rdsim (run_from ls s) (run_from ls t).
Proof.
  induction ls as [|l r IH]; intros s t H; cbn [Lines.run_from]; [exact H|].
  apply bind_rdsim; [apply step_line_dsim; exact H|]. intros s1 t1 H1.
  destruct r; [exact H1|]. apply IH. apply next_line_dsim. exact H1.
Qed.

(* what C03 observes modulo docs *)
Definition outcome_undoc (r : res W (model T V * W)) :=
  match r with Ok (m, w) => Some (undoc T V m, w) | Err _ _ => None end.

Lemma close_sdoc : forall c1 c2, sdoc c1 c2 ->
  match close T V c1, close T V c2 with
  | Some k1, Some k2 => undoc_sect T V k1 = undoc_sect T V k2
  | None, None => True
  | _, _ => False
  end.
Proof.
  intros c1 c2 (A1 & A2 & A3 & A4 & A5). unfold close. rewrite A3, A4.
  assert (L : length (c_fields T V c1) = length (c_fields T V c2)).
  { rewrite <- (map_length fst (c_fields T V c1)), A1, map_length. reflexivity. }
  rewrite L. destruct (c_mode T V c2) as [mo|]; [|exact I].
  destruct (c_union T V c2 && _); [exact I|]. unfold undoc_sect. cbn. rewrite A1, A2. reflexivity.
Qed.

Lemma finish_dsim : forall s t, dsim s t -> outcome_undoc (finish s) = outcome_undoc (finish t).
Proof.
  intros s t H. unfold Lines.finish. pose proof (flush_dsim _ _ H) as F.
  destruct (flush s) as [s1|e1 w1], (flush t) as [t1|e2 w2]; cbn in F; try contradiction; cbn [Lines.bind]; [|reflexivity].
  destruct F as [c1 c2 h p1 p2 cl1 cl2 cu1 cu2 d ln1 ln2 w P Cl Cu]. unfold Lines.finalize. cbn.
  pose proof (close_sdoc _ _ Cu) as Hc.
  destruct cl1 as [q1|], cl2 as [q2|]; cbn in Cl; try contradiction.
  - pose proof (close_sdoc _ _ Cl) as Hq.
    destruct (close T V q1), (close T V q2); try contradiction; destruct (close T V cu1), (close T V cu2); try contradiction; cbn; try reflexivity.
    unfold undoc. cbn. rewrite Hq, Hc. reflexivity.
  - destruct (close T V cu1), (close T V cu2); try contradiction; cbn; try reflexivity. unfold undoc. cbn. rewrite Hc. reflexivity.
Qed.

(* a comment line inserted anywhere: same acceptance, same model up to docs, same world *)
Theorem comment_lines : forall p x r w, l_stmt T V D x = None -> l_comment T V D x <> None -> p ++ r <> [] ->
  outcome_undoc (run (p ++ x :: r) w) = outcome_undoc (run (p ++ r) w).
Proof.
  intros p x r w Hs Hc NE. unfold Lines.run. rewrite (run_from_split T V D W read_dep emit).
  assert (SX : forall s : st, step_line x s = Ok (add_comment T V D W x s)).
  { intros s. unfold Lines.step_line, is_empty_text. rewrite Hs. cbn. destruct (l_comment T V D x); [reflexivity|congruence]. }
  destruct r as [|l2 r2].
  - rewrite app_nil_r in *. cbn [Lines.run_from].
    destruct (exists_last NE) as (p0 & l0 & ->).
    rewrite (run_upto_app T V D W read_dep emit), (run_from_last T V D W read_dep emit).
    destruct (run_upto p0 (init T V W w)) as [s0|] eqn:E0; cbn [Lines.bind Basics.run_upto]; [|reflexivity].
    destruct (step_line l0 s0) as [s1|] eqn:E1; cbn [Lines.bind]; [|reflexivity].
    rewrite SX. cbn [Lines.bind]. apply finish_dsim.
    unfold add_comment. destruct (l_comment T V D x); destruct s1; constructor; try apply psim_refl; try apply osdoc_refl; apply sdoc_refl.
  - rewrite (run_from_split T V D W read_dep emit).
    destruct (run_upto p (init T V W w)) as [s0|] eqn:E0; cbn [Lines.bind]; [|reflexivity].
    change (run_from (x :: l2 :: r2) s0) with (Lines.bind W (step_line x s0) (fun s1 => run_from (l2 :: r2) (next_line x s1))).
    rewrite SX. cbn [Lines.bind].
    assert (S : dsim (next_line x (add_comment T V D W x s0)) s0).
    { unfold add_comment. destruct (l_comment T V D x); destruct s0; constructor; try apply psim_refl; try apply osdoc_refl; apply sdoc_refl. }
    pose proof (run_from_dsim (l2 :: r2) _ _ S) as R.
    destruct (run_from (l2 :: r2) (next_line x (add_comment T V D W x s0))) as [s1|e1 w1], (run_from (l2 :: r2) s0) as [t1|e2 w2];
      cbn in R; try contradiction; cbn [Lines.bind]; [|reflexivity].
    apply finish_dsim. exact R.
Qed.

(* ---- an empty line: the flush happens earlier ---- *)

Notation good := (good T V W).

Lemma psim_sym : forall p q, psim p q -> psim q p.
Proof. intros [[[a cf] n]|] [[[a' cf'] n']|]; cbn; try tauto. intros [-> ->]; auto. Qed.
Lemma psim_trans : forall p q r, psim p q -> psim q r -> psim p r.
Proof. intros [[[a cf] n]|] [[[a' cf'] n']|] [[[a'' cf''] n'']|]; cbn; try tauto. intros [-> ->] [-> ->]; auto. Qed.
Lemma osdoc_sym : forall a b, osdoc a b -> osdoc b a.
Proof. intros [a|] [b|]; cbn; try tauto. apply sdoc_sym. Qed.
Lemma osdoc_trans : forall a b c, osdoc a b -> osdoc b c -> osdoc a c.
Proof. intros [a|] [b|] [c|]; cbn; try tauto. apply sdoc_trans. Qed.
Lemma dsim_sym : forall s t, dsim s t -> dsim t s.
Proof. intros s t H. destruct H. constructor; [apply psim_sym|apply osdoc_sym|apply sdoc_sym]; assumption. Qed.
Lemma dsim_trans : forall s t u, dsim s t -> dsim t u -> dsim s u.
Proof.
  intros s t u H1 H2. destruct H1 as [c1 c2 h p1 p2 cl1 cl2 cu1 cu2 d ln1 ln2 w P Cl Cu]. inversion H2; subst.
  constructor; [eapply psim_trans|eapply osdoc_trans|eapply sdoc_trans]; eauto.
Qed.

Lemma dsim_world : forall s t, dsim s t -> Lines.world T V W s = Lines.world T V W t.
Proof. intros s t H. destruct H. reflexivity. Qed.

(* b still has to flush; a is what b will be after that flush (up to docs and line numbers) *)
Definition early (a b : st) : Prop := good b /\ exists b', flush b = Ok b' /\ dsim a b'.
Definition rel (a b : st) : Prop := dsim a b \/ early a b.

Definition rrel (r1 r2 : res W st) : Prop :=
  match r1, r2 with
  | Ok s1, Ok s2 => rel s1 s2
  | Err _ w1, Err _ w2 => w1 = w2
  | _, _ => False
  end.

Lemma rdsim_rrel : forall r1 r2, rdsim r1 r2 -> rrel r1 r2.
Proof. intros [s1|e1 w1] [s2|e2 w2] H; cbn in *; try contradiction; [left; exact H|exact H]. Qed.

(* from a state that still has to flush: the flush on the b side, the same (idempotent) flush on the a side *)
Lemma early_flush : forall a b, early a b -> exists a' b', flush a = Ok a' /\ flush b = Ok b' /\ dsim a' b'.
Proof.
  intros a b (G & b' & Fb & Hd).
  pose proof (flush_idem T V W _ _ G Fb) as Fi.
  pose proof (flush_dsim _ _ Hd) as R. rewrite Fi in R.
  destruct (flush a) as [a'|] eqn:Fa; cbn in R; [|contradiction]. exists a', b'. auto.
Qed.

(* no _offset_ (and nothing else that looks at the schema) before the first identifier *)
Fixpoint gl_pre (ps : list (pre D)) : Prop :=
  match ps with
  | [] => True
  | PIdent :: _ => True
  | POffset :: _ => False
  | PRaise :: _ => True
  | PRead _ :: r => gl_pre r
  end.
Definition gl_line (l : line) : Prop := forall x, l_stmt T V D l = Some x -> gl_pre (s_pre T V D x).

Lemma early_set_world : forall w a b, early a b -> early (set_world T V W w a) (set_world T V W w b).
Proof.
  intros w a b (G & b' & Fb & Hd). split; [destruct b; exact G|].
  exists (set_world T V W w b'). split.
  - destruct b as [c h p cl cu d ln w0]. unfold Lines.flush in *. cbn in *. destruct h.
    + inversion Fb; reflexivity.
    + destruct p as [[[at_ cf] n]|]; [destruct (commit_fails T V at_ cf cu)|]; inversion Fb; reflexivity.
  - destruct Hd. constructor; assumption.
Qed.

Lemma do_stmt_early : forall ps act a b, early a b -> gl_pre ps ->
  rdsim (Lines.bind W (run_pre ps a) (do_act act)) (Lines.bind W (run_pre ps b) (do_act act)).
Proof.
  induction ps as [|p ps IH]; intros act a b E G.
  - cbn [Lines.run_pre Lines.bind]. rewrite !do_act_body.
    destruct (early_flush _ _ E) as (a' & b' & Fa & Fb & Hd). rewrite Fa, Fb. cbn [Lines.bind].
    apply act_body_dsim. exact Hd.
  - destruct p; cbn in G; try contradiction; cbn [Lines.run_pre Lines.step_pre].
    + (* identifier: the flush *)
      destruct (early_flush _ _ E) as (a' & b' & Fa & Fb & Hd). rewrite Fa, Fb. cbn [Lines.bind].
      apply bind_rdsim; [apply run_pre_dsim; exact Hd|]. intros; apply do_act_dsim; assumption.
    + (* raise *)
      destruct E as (_ & b' & Fb & Hd). cbn. unfold raise_here, raise_at. cbn.
      rewrite (dsim_world _ _ Hd). destruct b as [c h q cl cu dd ln w]. unfold Lines.flush in Fb. cbn in *. destruct h.
      * inversion Fb; reflexivity.
      * destruct q as [[[at_ cf] n]|]; [destruct (commit_fails T V at_ cf cu)|]; inversion Fb; reflexivity.
    + (* a nested read: same world, same result *)
      assert (Wab : Lines.world T V W a = Lines.world T V W b).
      { destruct E as (_ & b' & Fb & Hd). rewrite (dsim_world _ _ Hd).
        destruct b as [c h q cl cu dd ln w]. unfold Lines.flush in Fb. cbn in *. destruct h.
        - inversion Fb; reflexivity.
        - destruct q as [[[at_ cf] n]|]; [destruct (commit_fails T V at_ cf cu)|]; inversion Fb; reflexivity. }
      rewrite Wab. destruct (read_dep d (Lines.world T V W b)) as [w1 [e|]]; cbn [Lines.bind]; [reflexivity|].
      apply IH; [apply early_set_world; exact E|exact G].
Qed.

Lemma step_line_rel : forall l a b, rel a b -> gl_line l -> rrel (step_line l a) (step_line l b).
Proof.
  intros l a b [Hd|E] G; [apply rdsim_rrel; apply step_line_dsim; exact Hd|].
  unfold Lines.step_line, is_empty_text.
  destruct (l_stmt T V D l) as [[ps act]|] eqn:Es.
  - (* a statement: after it both sides have flushed *)
    unfold Lines.do_stmt. cbn [s_pre s_act].
    pose proof (do_stmt_early ps act a b E (G _ Es)) as R.
    destruct (Lines.bind W (run_pre ps a) (do_act act)) as [a1|ea wa], (Lines.bind W (run_pre ps b) (do_act act)) as [b1|eb wb];
      cbn in R; try contradiction; cbn [Lines.bind]; [|exact R].
    left. apply add_comment_dsim. exact R.
  - cbn [Lines.bind]. destruct E as (Gb & b' & Fb & Hd).
    destruct (l_comment T V D l) as [c|] eqn:Ec.
    + (* comment line: still early *)
      cbn. right. split; [unfold add_comment; rewrite Ec; destruct b; exact Gb|].
      assert (S : dsim (add_comment T V D W l b) b) by (unfold add_comment; rewrite Ec; destruct b; constructor; try apply psim_refl; try apply osdoc_refl; apply sdoc_refl).
      pose proof (flush_dsim _ _ S) as R. rewrite Fb in R.
      destruct (flush (add_comment T V D W l b)) as [b1|] eqn:F1; cbn in R; [|contradiction].
      exists b1. split; [reflexivity|].
      eapply dsim_trans; [|apply dsim_sym; exact R].
      eapply dsim_trans; [|exact Hd]. unfold add_comment. rewrite Ec. destruct a; constructor; try apply psim_refl; try apply osdoc_refl; apply sdoc_refl.
    + assert (Aa : add_comment T V D W l a = a) by (unfold add_comment; rewrite Ec; reflexivity).
      assert (Ab : add_comment T V D W l b = b) by (unfold add_comment; rewrite Ec; reflexivity).
      rewrite Aa, Ab. destruct (negb (l_blanks T V D l)).
      * (* empty line: both flush *)
        destruct (early_flush a b (conj Gb (ex_intro _ b' (conj Fb Hd)))) as (a' & b'' & Fa & Fb' & Hd').
        rewrite Fa, Fb'. cbn. left. exact Hd'.
      * cbn. right. split; [exact Gb|]. exists b'. auto.
Qed.

Lemma rel_next_line : forall l l' a b, rel a b -> rel (next_line l a) (next_line l' b).
Proof.
  intros l l' a b [Hd|(G & b' & Fb & Hd)]; [left; apply next_line_dsim; exact Hd|].
  right. split; [destruct b; exact G|]. exists (next_line l' b'). split.
  - destruct b as [c h q cl cu dd ln w]. unfold Lines.flush in *. cbn in *. destruct h.
    + inversion Fb; reflexivity.
    + destruct q as [[[at_ cf] n]|]; [destruct (commit_fails T V at_ cf cu)|]; inversion Fb; reflexivity.
  - destruct Hd. constructor; assumption.
Qed.

Lemma run_from_rel : forall ls a b, rel a b -> Forall gl_line ls -> rrel (run_from ls a) (run_from ls b).
Proof.
  induction ls as [|l r IH]; intros a b R F; cbn [Lines.run_from]; [exact R|].
  inversion F as [|? ? F1 F2]; subst.
  pose proof (step_line_rel l a b R F1) as S.
  destruct (step_line l a) as [a1|ea wa], (step_line l b) as [b1|eb wb]; cbn in S; try contradiction; cbn [Lines.bind]; [|exact S].
  destruct r; [exact S|]. apply IH; [apply rel_next_line; exact S|exact F2].
Qed.

Lemma finish_rel : forall a b, rel a b -> outcome_undoc (finish a) = outcome_undoc (finish b).
Proof.
  intros a b [Hd|(G & b' & Fb & Hd)]; [apply finish_dsim; exact Hd|].
  rewrite (finish_dsim _ _ Hd). rewrite <- (flush_finish T V W b G). rewrite Fb. reflexivity.
Qed.

(* if the early flush fails, the late one fails too: nothing can change the queued attribute or the flags add_field looks at *)
Lemma flush_fails_later : forall ls (s : st), (exists e w, flush s = Err e w) -> Forall gl_line ls ->
  outcome_undoc (Lines.bind W (run_from ls s) finish) = None.
Proof.
  assert (FW : forall (s : st) w, (exists e w0, flush s = Err e w0) -> exists e w0, flush (set_world T V W w s) = Err e w0).
  { intros [c h q cl cu d ln w0] w (e & w1 & E). unfold Lines.flush in *. cbn in *. destruct h; [discriminate|].
    destruct q as [[[at_ cf] n]|]; [|discriminate]. destruct (commit_fails T V at_ cf cu); [|discriminate]. unfold raise_at. cbn. eauto. }
  assert (FC : forall (s : st) l, (exists e w0, flush s = Err e w0) -> exists e w0, flush (add_comment T V D W l s) = Err e w0).
  { intros [c h q cl cu d ln w0] l (e & w1 & E). unfold add_comment. destruct (l_comment T V D l); [|eauto].
    unfold Lines.flush in *. cbn in *. destruct h; [discriminate|].
    destruct q as [[[at_ cf] n]|]; [|discriminate]. destruct (commit_fails T V at_ cf cu); [|discriminate]. unfold raise_at. cbn. eauto. }
  assert (FN : forall (s : st) l, (exists e w0, flush s = Err e w0) -> exists e w0, flush (next_line l s) = Err e w0).
  { intros [c h q cl cu d ln w0] l (e & w1 & E). unfold Lines.flush in *. cbn in *. destruct h; [discriminate|].
    destruct q as [[[at_ cf] n]|]; [|discriminate]. destruct (commit_fails T V at_ cf cu); [|discriminate]. unfold raise_at. cbn. eauto. }
  assert (ST : forall l (s : st), (exists e w0, flush s = Err e w0) -> gl_line l ->
               match step_line l s with Ok s1 => exists e w0, flush s1 = Err e w0 | Err _ _ => True end).
  { intros l s Hf G. unfold Lines.step_line, is_empty_text. destruct (l_stmt T V D l) as [[ps act]|] eqn:Es.
    - unfold Lines.do_stmt. cbn [s_pre s_act]. specialize (G _ Es). cbn in G.
      assert (P : forall ps (s0 : st), (exists e w0, flush s0 = Err e w0) -> gl_pre ps ->
                   match Lines.bind W (run_pre ps s0) (do_act act) with Ok _ => False | Err _ _ => True end).
      { induction ps0 as [|p ps0 IH]; intros s0 (e & w0 & E0) G0.
        - cbn. unfold Lines.do_act. rewrite E0. exact I.
        - destruct p; cbn in G0; try contradiction; cbn [Lines.run_pre Lines.step_pre].
          + rewrite E0. exact I.
          + exact I.
          + destruct (read_dep d (Lines.world T V W s0)) as [w1 [e1|]]; cbn [Lines.bind]; [exact I|].
            apply IH; [apply FW; eauto|exact G0]. }
      specialize (P ps s Hf G). destruct (Lines.bind W (run_pre ps s) (do_act act)); [contradiction|exact I].
    - cbn [Lines.bind]. destruct (FC s l Hf) as (e & w0 & E). destruct (l_comment T V D l).
      + eauto.
      + destruct (negb (l_blanks T V D l)); [rewrite E; exact I|eauto]. }
  induction ls as [|l r IH]; intros s Hf F.
  - cbn. unfold Lines.finish. destruct Hf as (e & w & E). rewrite E. reflexivity.
  - inversion F as [|? ? F1 F2]; subst. cbn [Lines.run_from].
    pose proof (ST l s Hf F1) as S. destruct (step_line l s) as [s1|e w]; cbn [Lines.bind]; [|reflexivity].
    destruct r as [|l2 r2].
    + cbn [Lines.bind]. unfold Lines.finish. destruct S as (e & w & E). rewrite E. reflexivity.
    + apply IH; [apply FN; exact S|exact F2].
Qed.

(* C03_extra_lines for empty lines *)
Theorem empty_lines : forall p r w, Forall gl_line r -> p ++ r <> [] ->
  outcome_undoc (run (p ++ empty_line :: r) w) = outcome_undoc (run (p ++ r) w).
Proof.
  intros p r w G NE. unfold Lines.run. rewrite (run_from_split T V D W read_dep emit).
  destruct r as [|l2 r2].
  - rewrite app_nil_r in *. cbn [Lines.run_from].
    destruct (exists_last NE) as (p0 & l0 & ->).
    rewrite (run_upto_app T V D W read_dep emit), (run_from_last T V D W read_dep emit).
    destruct (run_upto p0 (init T V W w)) as [s0|] eqn:E0; cbn [Lines.bind Basics.run_upto]; [|reflexivity].
    pose proof (run_upto_good T V D W read_dep emit _ _ _ (good_init T V W w) E0) as G0.
    destruct (step_line l0 s0) as [s1|] eqn:E1; cbn [Lines.bind]; [|reflexivity].
    pose proof (step_line_good T V D W read_dep emit _ _ _ G0 E1) as G1.
    rewrite (step_empty_line T V D W read_dep emit).
    unfold Lines.next_line. rewrite (flush_set_line T V W).
    destruct (flush s1) as [f|e w0] eqn:Ef; cbn [Lines.bind].
    + rewrite (finish_set_line T V W). rewrite <- (flush_finish T V W s1 G1), Ef. cbn [Lines.bind]. reflexivity.
    + unfold Lines.finish. rewrite Ef. reflexivity.
  - rewrite (run_from_split T V D W read_dep emit).
    destruct (run_upto p (init T V W w)) as [s0|] eqn:E0; cbn [Lines.bind]; [|reflexivity].
    pose proof (run_upto_good T V D W read_dep emit _ _ _ (good_init T V W w) E0) as G0.
    change (run_from (empty_line :: l2 :: r2) s0) with (Lines.bind W (step_line empty_line s0) (fun s1 => run_from (l2 :: r2) (next_line empty_line s1))).
    rewrite (step_empty_line T V D W read_dep emit).
    destruct (flush s0) as [f|e w0] eqn:Ef; cbn [Lines.bind].
    + assert (R : rel (next_line empty_line f) s0).
      { right. split; [exact G0|]. exists f. split; [exact Ef|]. destruct f. constructor; try apply psim_refl; try apply osdoc_refl; apply sdoc_refl. }
      pose proof (run_from_rel (l2 :: r2) _ _ R G) as RR.
      destruct (run_from (l2 :: r2) (next_line empty_line f)) as [a1|ea wa], (run_from (l2 :: r2) s0) as [b1|eb wb];
        cbn in RR; try contradiction; cbn [Lines.bind]; [|reflexivity].
      apply finish_rel. exact RR.
    + symmetry. apply flush_fails_later; [eauto|exact G].
Qed.

End ExtraFull.
