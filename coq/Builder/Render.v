(* Builder/Render.v - the canonical text of a model (what harness/props/c03.py `canonical_text` writes, line by line).
   DEFINITIONS ONLY. *)
From Coq Require Import ZArith List Bool.
From PV Require Import Builder.Lines.
Import ListNotations.
Open Scope Z_scope.

(* the lines of a doc text: split at line feeds (always at least one segment) *)
Fixpoint split10 (d : text) : list text :=
  match d with
  | [] => [[]]
  | x :: r => match split10 r with
              | seg :: segs => if x =? 10 then [] :: seg :: segs else (x :: seg) :: segs
              | [] => [[x]]
              end
  end.
(* one comment per doc line: "# line" *)
Definition doc_lines (d : text) : list text := match d with [] => [] | _ => map (cons 32) (split10 d) end.
(* docs the comment buffer can produce: never a leading line feed *)
Definition wf_doc (d : text) : Prop := match d with 10 :: _ => False | _ => True end.

Section Render.
Variables T V D : Type.
Notation line := (line T V D).

Definition cline (c : text) : line := Line None false (Some c) 0.
Definition sline (x : action T V) (c : option text) : line := Line (Some (Stmt [] x)) false c 0.

Definition render_attr (ad : attr T V * text) : list line :=
  match doc_lines (snd ad) with
  | [] => [sline (XAttr (fst ad) false) None]
  | c :: cs => sline (XAttr (fst ad) false) (Some c) :: map cline cs
  end.

Definition mode_line (k : sect T V) : line :=
  sline (match k_extent T V k with Some z => XDir KExtent (GInt z) [] | None => XDir KSealed GNone [] end) None.

Definition render_sect (dep : bool) (k : sect T V) : list line :=
  map cline (doc_lines (k_doc T V k))
  ++ (if dep then [sline (XDir KDeprecated GNone []) None] else [])
  ++ (if k_union T V k then [sline (XDir KUnion GNone []) None] else [])
  ++ flat_map render_attr (k_fields T V k ++ k_consts T V k)
  ++ [mode_line k].

Definition render (m : model T V) : list line :=
  render_sect (m_deprecated T V m) (m_req T V m)
  ++ match m_resp T V m with
     | None => []
     | Some k => sline XMarker None :: render_sect false k
     end.

(* models the machine can return *)
Definition wf_sect (k : sect T V) : Prop :=
  Forall (fun ad => fieldlike T V (fst ad) = true /\ wf_doc (snd ad)) (k_fields T V k)
  /\ Forall (fun ad => fieldlike T V (fst ad) = false /\ wf_doc (snd ad)) (k_consts T V k)
  /\ wf_doc (k_doc T V k)
  /\ (k_union T V k = true -> (2 <= length (k_fields T V k))%nat).
Definition wf_model (m : model T V) : Prop :=
  wf_sect (m_req T V m) /\ match m_resp T V m with Some k => wf_sect k | None => True end.

End Render.
