(* Builder/Syntax.v - concrete payloads used by the C03 correspondence: a type as written and its normalised text
   (str(SerializableType)).  DEFINITIONS ONLY. *)
From Coq Require Import ZArith List Bool.
From PV Require Import Builder.Lines.
Import ListNotations.
Open Scope Z_scope.

(* cast mode as written: absent means saturated *)
Inductive castx := CDefault | CSat | CTrunc.

Inductive scalarx :=
| XBool | XByte | XUtf8
| XUInt (w : Z) (c : castx)
| XSInt (w : Z) (c : castx)
| XFloat (w : Z) (c : castx)
| XVoid (w : Z)
| XRef (full_name : text) (major minor : Z).      (* full name after resolution of a relative reference *)

(* the three bracket forms; the capacity is the evaluated expression *)
Inductive arrx := RNone | RFix (n : Z) | RIncl (n : Z) | RExcl (n : Z).

Record tyx := Tyx { t_scalar : scalarx; t_arr : arrx }.

(* decimal digits of a non-negative number *)
Fixpoint digits (fuel : nat) (n : Z) (acc : text) : text :=
  match fuel with
  | O => acc
  | S f => let acc' := (48 + n mod 10) :: acc in if n <? 10 then acc' else digits f (n / 10) acc'
  end.
Definition dec (n : Z) : text :=
  if n <? 0 then 45 :: digits (S (Z.to_nat (Z.log2 (- n))) + 1) (- n) []
  else digits (S (Z.to_nat (Z.log2 n)) + 1) n [].

Definition t_saturated : text := [115; 97; 116; 117; 114; 97; 116; 101; 100; 32].   (* "saturated " *)
Definition t_truncated : text := [116; 114; 117; 110; 99; 97; 116; 101; 100; 32].   (* "truncated " *)
Definition cast_str (c : castx) : text := match c with CTrunc => t_truncated | _ => t_saturated end.

Definition scalar_str (s : scalarx) : text :=
  match s with
  | XBool => [98; 111; 111; 108]
  | XByte => [98; 121; 116; 101]
  | XUtf8 => [117; 116; 102; 56]
  | XUInt w c => cast_str c ++ [117; 105; 110; 116] ++ dec w
  | XSInt w c => cast_str c ++ [105; 110; 116] ++ dec w
  | XFloat w c => cast_str c ++ [102; 108; 111; 97; 116] ++ dec w
  | XVoid w => [118; 111; 105; 100] ++ dec w
  | XRef n ma mi => n ++ [46] ++ dec ma ++ [46] ++ dec mi
  end.

(* "[<n]" is stored as capacity n - 1 and printed in the inclusive form *)
Definition ty_str (t : tyx) : text :=
  scalar_str (t_scalar t) ++
  match t_arr t with
  | RNone => []
  | RFix n => [91] ++ dec n ++ [93]
  | RIncl n => [91; 60; 61] ++ dec n ++ [93]
  | RExcl n => [91; 60; 61] ++ dec (n - 1) ++ [93]
  end.

(* the normal form of a type as written: explicit cast mode, inclusive bound *)
Definition cast_norm (c : castx) : castx := match c with CTrunc => CTrunc | _ => CSat end.
Definition ty_norm (t : tyx) : tyx :=
  Tyx (match t_scalar t with
       | XUInt w c => XUInt w (cast_norm c) | XSInt w c => XSInt w (cast_norm c) | XFloat w c => XFloat w (cast_norm c)
       | s => s end)
      (match t_arr t with RExcl n => RIncl (n - 1) | a => a end).
