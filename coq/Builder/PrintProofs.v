(* Builder/PrintProofs.v - C17, deliveries: outside the F3 pattern (a @print inside a definition that is referenced by
   another one) every directive of every target is delivered exactly once, in order, with its own path and line. *)
From Coq Require Import ZArith List Bool Lia.
From PV Require Import Builder.Lines Builder.Basics Builder.LineProofs Builder.Reader Builder.ReaderProofs.
Import ListNotations.
Open Scope Z_scope.

Section Pi.
Variables T V D W P : Type.
Variable read_dep : D -> W -> W * option eloc.
Variable emit : Z -> text -> W -> W.
Variable pi : W -> list P.                 (* the part of the world that records deliveries *)
Variable tag : Z -> text -> P.
Hypothesis pi_emit : forall n t w, pi (emit n t w) = pi w ++ [tag n t].

Notation st := (st T V W).
Notation line := (line T V D).
Notation wld := (Lines.world T V W).

(* d is read by some statement of ls *)
Definition reads_of (ls : list line) (d : D) : Prop :=
  exists l x, In l ls /\ l_stmt T V D l = Some x /\ In (PRead d) (s_pre T V D x).

Section Lines.
Variable ls0 : list line.
Hypothesis pi_read : forall d w, reads_of ls0 d -> pi (fst (read_dep d w)) = pi w.

Lemma flush_pi : forall s s1 : st, flush T V W s = Ok s1 -> wld s1 = wld s.
Proof. exact (flush_world T V W). Qed.

Lemma flush_pi_err : forall (s : st) e w, flush T V W s = Err e w -> w = wld s.
Proof. intros s e w E. destruct (flush_err T V W _ _ _ E) as (_ & a & cf & n & _ & _ & _ & H). exact H. Qed.

Lemma run_pre_pi : forall ps (s : st), (forall d, In (PRead d) ps -> reads_of ls0 d) ->
  match run_pre T V D W read_dep ps s with Ok s1 => pi (wld s1) = pi (wld s) | Err _ w => pi w = pi (wld s) end.
Proof.
  induction ps as [|p ps IH]; intros s Hr; cbn; [reflexivity|].
  assert (Hr' : forall d, In (PRead d) ps -> reads_of ls0 d) by (intros d Hd; apply Hr; right; exact Hd).
  destruct p; cbn.
  - destruct (flush T V W s) as [f|e w] eqn:Ef; cbn.
    + specialize (IH f Hr'). rewrite (flush_pi _ _ Ef) in IH. exact IH.
    + rewrite (flush_pi_err _ _ _ Ef). reflexivity.
  - specialize (IH (with_cur T V W (set_offset T V) s) Hr'). destruct s; exact IH.
  - reflexivity.
  - pose proof (pi_read d (wld s) (Hr d (or_introl eq_refl))) as Hp.
    destruct (read_dep d (wld s)) as [w1 [e|]]; cbn in *.
    + exact Hp.
    + specialize (IH (set_world T V W w1 s) Hr'). destruct s; cbn in *. rewrite Hp in IH. exact IH.
Qed.

Definition own_tag (n : Z) (l : line) : list P := match own_print T V D l with Some sh => [tag n sh] | None => [] end.

Lemma step_line_pi : forall l (s : st), In l ls0 ->
  match step_line T V D W read_dep emit l s with
  | Ok s1 => pi (wld s1) = pi (wld s) ++ own_tag (line_no T V W s) l
  | Err _ w => pi w = pi (wld s)
  end.
Proof.
  intros l s Hin. unfold step_line, own_tag, own_print, is_empty_text.
  assert (A : forall s0 : st, wld (add_comment T V D W l s0) = wld s0).
  { intros s0. unfold add_comment. destruct (l_comment T V D l); reflexivity. }
  destruct (l_stmt T V D l) as [[pre act]|] eqn:Es.
  - unfold do_stmt. cbn [s_pre s_act].
    assert (Hr : forall d, In (PRead d) pre -> reads_of ls0 d).
    { intros d Hd. exists l, (Stmt pre act). auto. }
    pose proof (run_pre_pi pre s Hr) as Hp.
    destruct (run_pre T V D W read_dep pre s) as [s2|e w] eqn:E2; cbn [bind]; [|exact Hp].
    pose proof (run_pre_line T V D W read_dep _ _ _ E2) as L2.
    unfold do_act. destruct (flush T V W s2) as [f|e w] eqn:Ef; cbn [bind].
    2:{ rewrite (flush_pi_err _ _ _ Ef). exact Hp. }
    pose proof (flush_pi _ _ Ef) as Wf. pose proof (flush_line T V W _ _ Ef) as Lf.
    destruct act as [a cf|k g sh|].
    + destruct (c_mode T V (cur T V W f)) as [[|z]|]; unfold raise_here, raise_at; cbn [bind]; rewrite ?A; cbn; rewrite ?app_nil_r; congruence.
    + destruct (do_dir T V W emit k g sh f) as [s3|e w] eqn:E3; cbn [bind].
      * rewrite A. rewrite (do_dir_world T V W emit _ _ _ _ _ E3). destruct k; rewrite ?app_nil_r, ?pi_emit; congruence.
      * assert (Hw : w = wld f).
        { revert E3. unfold do_dir, raise_here, raise_at. destruct k; try discriminate;
            repeat match goal with |- context [match ?x with _ => _ end] => destruct x end; intros E; inversion E; reflexivity. }
        subst w. congruence.
    + cbn. destruct (closed T V W f); unfold raise_here, raise_at; cbn [bind]; rewrite ?A; cbn; rewrite ?app_nil_r; congruence.
  - cbn [bind]. rewrite app_nil_r. destruct (l_comment T V D l) eqn:Ec.
    + apply (f_equal pi). apply A.
    + destruct (negb (l_blanks T V D l)).
      * destruct (flush T V W (add_comment T V D W l s)) as [f|e w] eqn:Ef.
        -- rewrite (flush_pi _ _ Ef), A. reflexivity.
        -- rewrite (flush_pi_err _ _ _ Ef), A. reflexivity.
      * apply (f_equal pi). apply A.
Qed.

Fixpoint tags (n : Z) (ls : list line) : list P :=
  match ls with
  | [] => []
  | l :: r => own_tag n l ++ tags (n + 1 + l_extra T V D l) r
  end.

Lemma tags_app : forall a b n, tags n (a ++ b) = tags n a ++ tags (phys_after T V D n a) b.
Proof. induction a as [|l a IH]; intros b n; cbn; [reflexivity|]. rewrite IH, app_assoc. reflexivity. Qed.

Lemma firstn_app_exact : forall (A : Type) (a b : list A), firstn (length a) (a ++ b) = a.
Proof. intros A a b. rewrite firstn_app, Nat.sub_diag, firstn_all. cbn. apply app_nil_r. Qed.

Lemma run_upto_pi : forall ls (s : st), incl ls ls0 ->
  match run_upto T V D W read_dep emit ls s with
  | Ok s1 => pi (wld s1) = pi (wld s) ++ tags (line_no T V W s) ls
  | Err _ w => exists k, pi w = pi (wld s) ++ firstn k (tags (line_no T V W s) ls)
  end.
Proof.
  induction ls as [|l r IH]; intros s Hi; cbn [run_upto].
  - cbn. rewrite app_nil_r. reflexivity.
  - assert (Hl : In l ls0) by (apply Hi; left; reflexivity).
    assert (Hr : incl r ls0) by (intros x Hx; apply Hi; right; exact Hx).
    pose proof (step_line_pi l s Hl) as Hs.
    destruct (step_line T V D W read_dep emit l s) as [s1|e w] eqn:E1; cbn [bind].
    + specialize (IH (next_line T V D W l s1) Hr).
      assert (Ln : line_no T V W (next_line T V D W l s1) = line_no T V W s + 1 + l_extra T V D l).
      { cbn. rewrite (step_line_line T V D W read_dep emit _ _ _ E1). reflexivity. }
      assert (Wn : wld (next_line T V D W l s1) = wld s1) by reflexivity.
      rewrite Ln, Wn in IH. cbn [tags].
      destruct (run_upto T V D W read_dep emit r (next_line T V D W l s1)) as [s2|e w].
      * rewrite IH, Hs, app_assoc. reflexivity.
      * destruct IH as (k & Hk). exists (length (own_tag (line_no T V W s) l) + k)%nat.
        rewrite Hk, Hs, <- app_assoc. f_equal. rewrite firstn_app_2. reflexivity.
    + exists 0%nat. cbn. rewrite app_nil_r. exact Hs.
Qed.

Hypothesis ls0_ne : ls0 <> [].

(* what the deliveries look like after run(): all own directives, in order, with their physical lines - or, when the
   run fails, an initial part of them *)
Theorem run_pi : forall w,
  match run T V D W read_dep emit ls0 w with
  | Ok (_, w') => pi w' = pi w ++ tags 1 ls0
  | Err _ w' => exists k, pi w' = pi w ++ firstn k (tags 1 ls0)
  end.
Proof.
  intros w. unfold run. destruct (exists_last ls0_ne) as (p & l & E0).
  assert (Hp : incl p ls0) by (rewrite E0; intros x Hx; apply in_or_app; left; exact Hx).
  assert (Hl : In l ls0) by (rewrite E0; apply in_or_app; right; left; reflexivity).
  assert (Er : run_from T V D W read_dep emit ls0 (init T V W w) = bind W (run_upto T V D W read_dep emit p (init T V W w)) (step_line T V D W read_dep emit l)).
  { rewrite E0 at 1. apply (run_from_last T V D W read_dep emit). }
  rewrite Er. clear Er.
  pose proof (run_upto_pi p (init T V W w) Hp) as Hu. cbn [line_no init] in Hu.
  assert (Tg : tags 1 ls0 = tags 1 p ++ own_tag (phys_after T V D 1 p) l).
  { rewrite E0, tags_app. cbn. rewrite app_nil_r. reflexivity. }
  destruct (run_upto T V D W read_dep emit p (init T V W w)) as [s0|e w0] eqn:Eu; cbn [bind].
  - pose proof (line_counter T V D W read_dep emit _ _ _ Eu) as Lc. cbn in Lc.
    pose proof (step_line_pi l s0 Hl) as Hs. rewrite Lc in Hs.
    destruct (step_line T V D W read_dep emit l s0) as [s1|e w1] eqn:E1; cbn [bind].
    + assert (Full : pi (wld s1) = pi w ++ tags 1 ls0).
      { rewrite Hs, Hu, Tg. cbn. rewrite app_assoc. reflexivity. }
      unfold finish. destruct (flush T V W s1) as [f|e w2] eqn:Ef; cbn [bind].
      * unfold finalize. pose proof (flush_pi _ _ Ef) as Wf.
        destruct (closed T V W f) as [c0|]; [destruct (close T V c0); [destruct (close T V (cur T V W f))|]|destruct (close T V (cur T V W f))];
          try (rewrite Wf; exact Full); exists (length (tags 1 ls0)); rewrite firstn_all, Wf; exact Full.
      * exists (length (tags 1 ls0)). rewrite firstn_all, (flush_pi_err _ _ _ Ef). exact Full.
    + exists (length (tags 1 p)). rewrite Tg, firstn_app_exact, Hs, Hu. reflexivity.
  - destruct Hu as (k & Hk). exists (Nat.min k (length (tags 1 p))).
    rewrite Hk, Tg. f_equal. rewrite firstn_app.
    destruct (Nat.le_ge_cases k (length (tags 1 p))).
    + rewrite Nat.min_l by lia. replace (k - length (tags 1 p))%nat with 0%nat by lia. cbn. rewrite app_nil_r. reflexivity.
    + rewrite Nat.min_r by lia. rewrite !firstn_all2 by lia. cbn.
      replace (length (tags 1 p) - length (tags 1 p))%nat with 0%nat by lia. cbn. rewrite app_nil_r. reflexivity.
Qed.

End Lines.
End Pi.

(* a property of the world that dependency reads and the print handler preserve is preserved by run() *)
Section Inv.
Variables T V D W : Type.
Variable read_dep : D -> W -> W * option eloc.
Variable emit : Z -> text -> W -> W.
Variable Q : W -> Prop.
Notation st := (st T V W).
Notation line := (line T V D).
Notation wld := (Lines.world T V W).
Variable ls0 : list line.
Hypothesis Q_read : forall d w, reads_of T V D ls0 d -> Q w -> Q (fst (read_dep d w)).
Hypothesis Q_emit : forall n t w, Q w -> Q (emit n t w).

Definition Qres {A : Type} (wf : A -> W) (r : res W A) : Prop := match r with Ok a => Q (wf a) | Err _ w => Q w end.

Lemma run_pre_inv : forall ps (s : st), (forall d, In (PRead d) ps -> reads_of T V D ls0 d) -> Q (wld s) ->
  Qres wld (run_pre T V D W read_dep ps s).
Proof.
  induction ps as [|p ps IH]; intros s Hr Hq; cbn; [exact Hq|].
  assert (Hr' : forall d, In (PRead d) ps -> reads_of T V D ls0 d) by (intros d Hd; apply Hr; right; exact Hd).
  destruct p; cbn.
  - destruct (flush T V W s) as [f|e w] eqn:Ef; cbn.
    + apply IH; [exact Hr'|]. rewrite (flush_world T V W _ _ Ef). exact Hq.
    + rewrite (flush_pi_err T V W _ _ _ Ef). exact Hq.
  - apply IH; [exact Hr'|]. destruct s; exact Hq.
  - exact Hq.
  - pose proof (Q_read d (wld s) (Hr d (or_introl eq_refl)) Hq) as Hp.
    destruct (read_dep d (wld s)) as [w1 [e|]]; cbn in *; [exact Hp|].
    apply IH; [exact Hr'|]. destruct s; exact Hp.
Qed.

Lemma step_line_inv : forall l (s : st), In l ls0 -> Q (wld s) -> Qres wld (step_line T V D W read_dep emit l s).
Proof.
  intros l s Hin Hq. unfold step_line, is_empty_text.
  assert (A : forall s0 : st, wld (add_comment T V D W l s0) = wld s0).
  { intros s0. unfold add_comment. destruct (l_comment T V D l); reflexivity. }
  assert (FL : forall s0 : st, Q (wld s0) -> Qres wld (flush T V W s0)).
  { intros s0 H0. destruct (flush T V W s0) as [f|e w] eqn:Ef; cbn; [rewrite (flush_world T V W _ _ Ef)|rewrite (flush_pi_err T V W _ _ _ Ef)]; exact H0. }
  destruct (l_stmt T V D l) as [[pre act]|] eqn:Es.
  - unfold do_stmt. cbn [s_pre s_act].
    assert (Hr : forall d, In (PRead d) pre -> reads_of T V D ls0 d).
    { intros d Hd. exists l, (Stmt pre act). auto. }
    pose proof (run_pre_inv pre s Hr Hq) as Hp.
    destruct (run_pre T V D W read_dep pre s) as [s2|e w] eqn:E2; cbn [bind]; [|exact Hp]. cbn in Hp.
    unfold do_act. pose proof (FL s2 Hp) as Hf. destruct (flush T V W s2) as [f|e w] eqn:Ef; cbn [bind]; [|exact Hf]. cbn in Hf.
    destruct act as [a cf|k g sh|].
    + destruct (c_mode T V (cur T V W f)) as [[|z]|]; unfold raise_here, raise_at; cbn; rewrite ?A; exact Hf.
    + destruct (do_dir T V W emit k g sh f) as [s3|e w] eqn:E3; cbn [bind].
      * cbn. rewrite A, (do_dir_world T V W emit _ _ _ _ _ E3). destruct k; try exact Hf. apply Q_emit. exact Hf.
      * assert (Hw : w = wld f).
        { revert E3. unfold do_dir, raise_here, raise_at. destruct k; try discriminate;
            repeat match goal with |- context [match ?x with _ => _ end] => destruct x end; intros E; inversion E; reflexivity. }
        subst w. exact Hf.
    + cbn. destruct (closed T V W f); unfold raise_here, raise_at; cbn; rewrite ?A; exact Hf.
  - cbn [bind]. destruct (l_comment T V D l) eqn:Ec.
    + cbn. rewrite A. exact Hq.
    + destruct (negb (l_blanks T V D l)); [apply FL|cbn]; rewrite A; exact Hq.
Qed.

Lemma run_from_inv : forall ls (s : st), incl ls ls0 -> Q (wld s) -> Qres wld (run_from T V D W read_dep emit ls s).
Proof.
  induction ls as [|l r IH]; intros s Hi Hq; cbn [run_from]; [exact Hq|].
  assert (Hl : In l ls0) by (apply Hi; left; reflexivity).
  assert (Hr : incl r ls0) by (intros x Hx; apply Hi; right; exact Hx).
  pose proof (step_line_inv l s Hl Hq) as Hs.
  destruct (step_line T V D W read_dep emit l s) as [s1|e w]; cbn [bind]; [|exact Hs]. cbn in Hs.
  destruct r; [exact Hs|]. apply IH; [exact Hr|exact Hs].
Qed.

Theorem run_inv : forall w, Q w -> Qres (fun mw => snd mw) (run T V D W read_dep emit ls0 w).
Proof.
  intros w Hq. unfold run.
  pose proof (run_from_inv ls0 (init T V W w) (incl_refl _) Hq) as Hr.
  destruct (run_from T V D W read_dep emit ls0 (init T V W w)) as [s|e w1]; cbn [bind]; [|exact Hr]. cbn in Hr.
  unfold finish. destruct (flush T V W s) as [f|e w2] eqn:Ef; cbn [bind].
  - unfold finalize. pose proof (flush_world T V W _ _ Ef) as Wf.
    destruct (closed T V W f) as [c0|]; [destruct (close T V c0); [destruct (close T V (cur T V W f))|]|destruct (close T V (cur T V W f))];
      cbn; rewrite Wf; exact Hr.
  - cbn. rewrite (flush_pi_err T V W _ _ _ Ef). exact Hr.
Qed.

End Inv.

(* ---- the namespace: outside the F3 pattern the print property holds in full ---- *)
Section ReaderPrints.
Variables T V : Type.
Notation file := (file T V).
Notation read_obj := (read_obj T V).
Notation find_file := (find_file T V).
Variable fs : list file.

(* some definition of the namespace refers to d *)
Definition referenced (d : Z) : Prop := exists f, In f fs /\ reads_of T V Z (f_lines T V f) d.
Definition print_free (f : file) : Prop := print_dirs T V 1 (f_lines T V f) = [].
(* the complement of the F3 pattern: no definition that contains a @print is referred to *)
Hypothesis deps_print_free : forall d f, referenced d -> find_file fs d = Some f -> print_free f.

Definition own_deliveries (f : file) : list delivery :=
  map (fun ns => (f_path T V f, fst ns, snd ns)) (print_dirs T V 1 (f_lines T V f)).

Lemma tags_print_dirs : forall bound ls n,
  tags T V Z delivery (fun n t => (bound, n, t)) n ls = map (fun ns => (bound, fst ns, snd ns)) (print_dirs T V n ls).
Proof.
  intros bound. induction ls as [|l r IH]; intros n; cbn; [reflexivity|]. rewrite map_app, IH. f_equal.
  unfold own_tag. destruct (own_print T V Z l); reflexivity.
Qed.

(* bookkeeping that a read may do: the pool is untouched, only referenced definitions become wanted *)
Definition book (w0 w : world) : Prop :=
  pool w = pool w0 /\ forall j, In j (wanted w) -> In j (wanted w0) \/ referenced j.

Lemma book_refl : forall w, book w w.
Proof. intros w. split; auto. Qed.
Lemma book_trans : forall a b c, book a b -> book b c -> book a c.
Proof. intros a b c [P1 W1] [P2 W2]. split; [congruence|]. intros j Hj. destruct (W2 j Hj) as [H|H]; auto. Qed.

Lemma book_add_wanted : forall d w, referenced d -> book w (add_wanted d w).
Proof.
  intros d w R. unfold add_wanted. destruct (memz d (pool w) || memz d (wanted w)); [apply book_refl|].
  split; [reflexivity|]. cbn. intros j [->|H]; auto.
Qed.

(* the closure that read_obj hands to the line machine *)
Definition depf (fuel : nat) (bound : text) (lk : list Z) (d : Z) (w0 : world) : world * option eloc :=
  if memz d lk then
    let w1 := add_wanted d w0 in
    if memz d (cached w1) then (w1, None)
    else match read_obj fuel fs bound lk d w1 with
         | (w2, None) => (add_cached d w2, None)
         | (w2, Some e) => (w2, Some e)
         end
  else (w0, Some no_loc).

Lemma read_obj_unfold : forall fuel bound lookups i w, read_obj (S fuel) fs bound lookups i w =
  match find_file fs i with
  | None => (w, Some out_of_fuel)
  | Some f =>
      match f_syntax T V f with
      | Some n => (w, Some (ELoc (Some (f_path T V f)) n))
      | None =>
          match run T V Z world (depf fuel bound (removez i lookups)) (fun n s w0 => add_print (bound, n, s) w0) (f_lines T V f) w with
          | Ok (_, w') => (w', None)
          | Err e w' => (w', Some (fill_path e (f_path T V f)))
          end
      end
  end.
Proof. reflexivity. Qed.

Lemma run_nil : forall (rd : Z -> world -> world * option eloc) em w,
  match run T V Z world rd em [] w with Ok (_, w') => w' = w | Err _ w' => w' = w end.
Proof. intros. vm_compute. reflexivity. Qed.

(* what one read does to the deliveries: it appends (an initial part of) the file's own directives, tagged with the
   bound path - given that the definitions it refers to are print-free *)
Lemma read_obj_prints : forall fuel bound lk i w,
  let r := read_obj fuel fs bound lk i w in
  book w (fst r) /\
  match find_file fs i with
  | Some f =>
      let own := map (fun ns => (bound, fst ns, snd ns)) (print_dirs T V 1 (f_lines T V f)) in
      (exists k, prints (fst r) = prints w ++ firstn k own) /\ (snd r = None -> prints (fst r) = prints w ++ own)
  | None => prints (fst r) = prints w
  end.
Proof.
  induction fuel as [|fuel IH]; intros bound lk i w.
  - cbn. split; [apply book_refl|]. destruct (find_file fs i); [|reflexivity].
    split; [exists 0%nat; cbn; rewrite app_nil_r; reflexivity|discriminate].
  - cbn zeta. rewrite read_obj_unfold. destruct (find_file fs i) as [f|] eqn:Ef; [|split; [apply book_refl|reflexivity]].
    destruct (find_file_In T V _ _ _ Ef) as [Hin _].
    destruct (f_syntax T V f); [cbn; split; [apply book_refl|]; split; [exists 0%nat; cbn; rewrite app_nil_r; reflexivity|discriminate]|].
    set (dep := depf fuel bound (removez i lk)). set (em := fun (n : Z) (s : text) (w0 : world) => add_print (bound, n, s) w0).
    (* the closure preserves the deliveries and does only bookkeeping *)
    assert (Hdep : forall d w0, reads_of T V Z (f_lines T V f) d -> prints (fst (dep d w0)) = prints w0 /\ book w0 (fst (dep d w0))).
    { intros d w0 Hr. assert (Rd : referenced d) by (exists f; auto).
      unfold dep, depf. destruct (memz d (removez i lk)); [|cbn; split; [reflexivity|apply book_refl]].
      pose proof (book_add_wanted d w0 Rd) as B1.
      assert (P1 : prints (add_wanted d w0) = prints w0) by (unfold add_wanted; destruct (_ || _); reflexivity).
      destruct (memz d (cached (add_wanted d w0))); [cbn; auto|].
      specialize (IH bound (removez i lk) d (add_wanted d w0)). cbn zeta in IH. destruct IH as [B2 Hp].
      assert (P2 : prints (fst (read_obj fuel fs bound (removez i lk) d (add_wanted d w0))) = prints w0).
      { destruct (find_file fs d) as [fd|] eqn:Efd; [|congruence].
        pose proof (deps_print_free d fd Rd Efd) as Pf. unfold print_free in Pf. rewrite Pf in Hp. cbn in Hp.
        destruct Hp as [(k & Hk) _]. rewrite Hk, P1. destruct k; cbn; apply app_nil_r. }
      destruct (read_obj fuel fs bound (removez i lk) d (add_wanted d w0)) as [w2 [e|]]; cbn in *.
      - split; [exact P2|eapply book_trans; eauto].
      - split; [exact P2|]. eapply book_trans; [exact B1|]. destruct B2 as [Bp Bw]. split; [exact Bp|exact Bw]. }
    destruct (f_lines T V f) as [|l0 ls0] eqn:El.
    + pose proof (run_nil dep em w) as Hn. destruct (run T V Z world dep em [] w) as [[m w']|e w']; cbn; subst w';
        (split; [apply book_refl|]); split; try (exists 0%nat); cbn; rewrite ?app_nil_r; auto.
    + rewrite <- El in *.
      assert (NE : f_lines T V f <> []) by (rewrite El; discriminate).
      pose proof (run_pi T V Z world delivery dep em prints (fun n t => (bound, n, t))
                   (fun n t w0 => eq_refl) (f_lines T V f) (fun d w0 Hr => proj1 (Hdep d w0 Hr)) NE w) as Hpi.
      pose proof (run_inv T V Z world dep em (book w) (f_lines T V f)
                   (fun d w0 Hr Hq => book_trans _ _ _ Hq (proj2 (Hdep d w0 Hr)))
                   (fun n t w0 Hq => Hq) w (book_refl w)) as Hbk.
      rewrite tags_print_dirs in Hpi.
      destruct (run T V Z world dep em (f_lines T V f) w) as [[m w']|e w']; cbn in *.
      * split; [exact Hbk|]. split; [|intros _; exact Hpi].
        exists (length (map (fun ns => (bound, fst ns, snd ns)) (print_dirs T V 1 (f_lines T V f)))). rewrite firstn_all. exact Hpi.
      * split; [exact Hbk|]. split; [exact Hpi|discriminate].
Qed.

Definition target_deliveries (t : Z) : list delivery :=
  match find_file fs t with Some f => own_deliveries f | None => [] end.

(* every definition bound in the pool is an earlier target or is referred to by some definition *)
Definition pool_ok (w : world) (done : list Z) : Prop :=
  wanted w = [] /\ forall j, In j (pool w) -> In j done \/ referenced j.

Lemma read_targets_prints : forall fuel lk ts w done w',
  pool_ok w done -> NoDup ts -> (forall t, In t ts -> ~ In t done) ->
  read_targets T V (S fuel) fs lk ts w = (w', None) ->
  prints w' = prints w ++ flat_map target_deliveries ts.
Proof.
  intros fuel lk. induction ts as [|t r IH]; intros w done w' [Hw Hp] ND Hd.
  - cbn. intros E; inversion E. rewrite app_nil_r. reflexivity.
  - inversion ND as [|? ? Nt Nr]; subst.
    assert (Hd' : forall t', In t' r -> ~ In t' (t :: done)).
    { intros t' Ht' [->|H]; [contradiction|]. apply (Hd t'); [right; exact Ht'|exact H]. }
    cbn [Reader.read_targets flat_map]. destruct (memz t (pool w)) eqn:Em.
    + (* skipped: its lookup twin was read as a dependency, so it is referenced, hence print-free *)
      intros E. apply (memz_In) in Em. destruct (Hp t Em) as [H|H]; [exfalso; apply (Hd t); [left; reflexivity|exact H]|].
      assert (Et : target_deliveries t = []).
      { unfold target_deliveries. destruct (find_file fs t) as [f|] eqn:Ef; [|reflexivity].
        unfold own_deliveries. rewrite (deps_print_free t f H Ef). reflexivity. }
      rewrite Et. cbn [app]. apply (IH w done w' (conj Hw Hp) Nr); [|exact E].
      intros t' Ht'. apply Hd. right. exact Ht'.
    + pose proof (read_obj_prints (S fuel) (match find_file fs t with Some f => f_path T V f | None => [] end) lk t w) as Hr.
      cbn zeta in Hr. destruct Hr as [[Bp Bw] Hq].
      destruct (Reader.read_obj T V (S fuel) fs (match find_file fs t with Some f => f_path T V f | None => [] end) lk t w) as [w1 [e|]] eqn:Eo;
        [discriminate|]. cbn [fst snd] in *.
      intros E.
      assert (Pk : pool_ok (settle t w1) (t :: done)).
      { split; [reflexivity|]. cbn. intros j [->|Hj]; [left; left; reflexivity|].
        apply in_app_or in Hj. destruct Hj as [Hj|Hj].
        - destruct (Bw j Hj) as [H|H]; [rewrite Hw in H; destruct H|right; exact H].
        - rewrite Bp in Hj. destruct (Hp j Hj) as [H|H]; [left; right; exact H|right; exact H]. }
      rewrite (IH (settle t w1) (t :: done) w' Pk Nr Hd' E). cbn [prints settle].
      unfold target_deliveries at 2. destruct (find_file fs t) as [f|] eqn:Ef.
      * destruct Hq as [_ Hq]. rewrite (Hq eq_refl). unfold own_deliveries. rewrite <- app_assoc. reflexivity.
      * rewrite Hq. reflexivity.
Qed.

(* C17_print_once_here outside the F3 pattern: after a successful read_namespace the handler has received exactly the
   directives of the targets, target by target in reading order, each once, with its own path and physical line *)
Theorem prints_outside_f3 : forall lk ts ps, NoDup ts ->
  read_ns T V fs lk ts = (ps, None) -> ps = flat_map target_deliveries ts.
Proof.
  intros lk ts ps ND. unfold read_ns.
  destruct (read_targets T V (S (length fs)) fs lk ts world0) as [w r] eqn:E. intros H; inversion H; subst.
  rewrite (read_targets_prints (length fs) lk ts world0 [] w); [reflexivity| |exact ND| |exact E].
  - split; [reflexivity|]. intros j [].
  - intros t _ [].
Qed.

End ReaderPrints.
