(* Builder/ReaderProofs.v - an error keeps the path and the line of the innermost file in which it was raised; the
   print handler is called once per evaluated directive with the directive's own line. *)
From Coq Require Import ZArith List Bool Lia.
From PV Require Import Builder.Lines Builder.Basics Builder.LineProofs Builder.Reader.
Import ListNotations.
Open Scope Z_scope.

Section Machine.
Variables T V D W : Type.
Variable read_dep : D -> W -> W * option eloc.
Variable emit : Z -> text -> W -> W.

(* an error that leaves run() is local (no path yet) or is, unchanged, the error of a nested read that already has a path *)
Lemma run_err_origin : forall ls w e w', run T V D W read_dep emit ls w = Err e w' ->
  e_path e = None \/ exists d w0 w1, read_dep d w0 = (w1, Some e) /\ e_path e <> None.
Proof.
  intros ls w e w'. unfold run.
  destruct (run_from T V D W read_dep emit ls (init T V W w)) as [s|e1 w1] eqn:E1; cbn.
  - unfold finish. destruct (flush T V W s) as [f|e2 w2] eqn:Ef; cbn.
    + unfold finalize. intros E. left.
      destruct (closed T V W f); [destruct (close T V s0); [destruct (close T V (cur T V W f))|]|destruct (close T V (cur T V W f))];
        inversion E; reflexivity.
    + intros E; inversion E; subst. left. destruct (flush_err T V W _ _ _ Ef) as (_ & a & cf & n & _ & _ & He & _). subst. reflexivity.
  - intros E; inversion E; subst.
    destruct (run_from_err T V D W read_dep emit _ _ _ _ E1) as (p & l & r & s' & _ & _ & Hs).
    destruct (step_line_cls T V D W read_dep emit _ _ _ _ Hs) as [H|a cf n H He|d w0 w2 e0 H He].
    + left. subst. reflexivity.
    + left. subst. reflexivity.
    + unfold inject_line in He. destruct (e_path e0) eqn:Ep.
      * right. subst. exists d, w0, w2. split; [exact H|congruence].
      * left. subst. unfold fill_line. destruct (e_line e0); cbn; auto.
Qed.

(* ---- @print: one call of the handler per evaluated directive, with the line of the directive ---- *)

Notation st := (st T V W).
Notation line := (line T V D).

Lemma flush_world : forall s s1 : st, flush T V W s = Ok s1 -> Lines.world T V W s1 = Lines.world T V W s.
Proof.
  intros [c h p cl cu d ln w] s1. unfold flush. cbn.
  destruct h.
  - intros E; inversion E; reflexivity.
  - destruct p as [[[a cf] k]|]; [destruct (commit_fails T V a cf cu)|]; intros E; inversion E; reflexivity.
Qed.

Theorem print_once_here : forall l pre g shown (s s1 : st),
  l_stmt T V D l = Some (Stmt pre (XDir KPrint g shown)) -> step_line T V D W read_dep emit l s = Ok s1 ->
  exists s2, run_pre T V D W read_dep pre s = Ok s2 /\ Lines.world T V W s1 = emit (line_no T V W s) shown (Lines.world T V W s2).
Proof.
  intros l pre g shown s s1 Hs. unfold step_line, is_empty_text. rewrite Hs. unfold do_stmt. cbn [s_pre s_act].
  destruct (run_pre T V D W read_dep pre s) as [s2|] eqn:E2; [|discriminate]. cbn [bind].
  unfold do_act. destruct (flush T V W s2) as [f|] eqn:Ef; [|discriminate]. cbn [bind do_dir].
  intros E. exists s2. split; [reflexivity|].
  inversion E; subst. clear E.
  rewrite <- (flush_world _ _ Ef), <- (run_pre_line T V D W read_dep _ _ _ E2), <- (flush_line T V W _ _ Ef).
  unfold add_comment. destruct (l_comment T V D l); reflexivity.
Qed.

(* a definition without versioned types: the world changes only through its own @print directives *)
Definition no_reads (l : line) : Prop :=
  forall x, l_stmt T V D l = Some x -> Forall (fun p => match p with PRead _ => False | _ => True end) (s_pre T V D x).

Definition own_print (l : line) : option text :=
  match l_stmt T V D l with Some (Stmt _ (XDir KPrint _ sh)) => Some sh | _ => None end.

Fixpoint emit_all (n : Z) (ls : list line) (w : W) : W :=
  match ls with
  | [] => w
  | l :: r => emit_all (n + 1 + l_extra T V D l) r (match own_print l with Some sh => emit n sh w | None => w end)
  end.

Lemma run_pre_world : forall ps (s s1 : st), Forall (fun p => match p with PRead _ => False | _ => True end) ps ->
  run_pre T V D W read_dep ps s = Ok s1 -> Lines.world T V W s1 = Lines.world T V W s.
Proof.
  induction ps as [|p ps IH]; intros s s1 F; cbn.
  - intros E; inversion E; reflexivity.
  - inversion F as [|? ? F1 F2]; subst.
    destruct p; cbn; try contradiction.
    + destruct (flush T V W s) as [f|] eqn:Ef; [|discriminate]. cbn. intros E. rewrite (IH _ _ F2 E). apply flush_world; exact Ef.
    + intros E. rewrite (IH _ _ F2 E). reflexivity.
    + discriminate.
Qed.

Lemma do_dir_world : forall k g sh (s s1 : st), do_dir T V W emit k g sh s = Ok s1 ->
  Lines.world T V W s1 = match k with KPrint => emit (line_no T V W s) sh (Lines.world T V W s) | _ => Lines.world T V W s end.
Proof.
  intros k g sh s s1. unfold do_dir, raise_here, raise_at.
  destruct k.
  - intros E; inversion E; reflexivity.
  - destruct g as [|[|]| |]; intros E; inversion E; reflexivity.
  - destruct (c_mode T V (cur T V W s)); [discriminate|]. destruct g; intros E; inversion E; reflexivity.
  - destruct (c_mode T V (cur T V W s)); [discriminate|]. destruct g; intros E; inversion E; reflexivity.
  - destruct g; try discriminate. destruct (_ || _); intros E; inversion E; reflexivity.
  - destruct g; try discriminate. destruct (_ || _); intros E; inversion E; reflexivity.
  - discriminate.
Qed.

Lemma step_line_world : forall l (s s1 : st), no_reads l -> step_line T V D W read_dep emit l s = Ok s1 ->
  Lines.world T V W s1 = match own_print l with Some sh => emit (line_no T V W s) sh (Lines.world T V W s) | None => Lines.world T V W s end.
Proof.
  intros l s s1 NR. unfold step_line, own_print, is_empty_text.
  assert (A : forall s0 : st, Lines.world T V W (add_comment T V D W l s0) = Lines.world T V W s0).
  { intros s0. unfold add_comment. destruct (l_comment T V D l); reflexivity. }
  destruct (l_stmt T V D l) as [[pre act]|] eqn:Es.
  - unfold do_stmt. cbn [s_pre s_act]. destruct (run_pre T V D W read_dep pre s) as [s2|] eqn:E2; [|discriminate]. cbn [bind].
    pose proof (run_pre_world _ _ _ (NR _ Es) E2) as W2. cbn in W2.
    pose proof (run_pre_line T V D W read_dep _ _ _ E2) as L2.
    unfold do_act. destruct (flush T V W s2) as [f|] eqn:Ef; [|discriminate]. cbn [bind].
    pose proof (flush_world _ _ Ef) as Wf. pose proof (flush_line T V W _ _ Ef) as Lf.
    destruct act as [a cf|k g sh|].
    + destruct (c_mode T V (cur T V W f)) as [[|z]|]; unfold raise_here, raise_at; intros E; inversion E; rewrite A; cbn; congruence.
    + destruct (do_dir T V W emit k g sh f) as [s3|] eqn:E3; [|discriminate]. cbn [bind]. intros E; inversion E; subst.
      rewrite A. rewrite (do_dir_world _ _ _ _ _ E3). destruct k; congruence.
    + cbn. destruct (closed T V W f); unfold raise_here, raise_at; intros E; inversion E. rewrite A. cbn. congruence.
  - cbn [bind]. destruct (l_comment T V D l) eqn:Ec.
    + intros E; inversion E. apply A.
    + destruct (negb (l_blanks T V D l)).
      * intros E. rewrite (flush_world _ _ E). apply A.
      * intros E; inversion E. apply A.
Qed.

Lemma run_upto_world : forall ls (s s1 : st), Forall no_reads ls -> run_upto T V D W read_dep emit ls s = Ok s1 ->
  Lines.world T V W s1 = emit_all (line_no T V W s) ls (Lines.world T V W s).
Proof.
  induction ls as [|l r IH]; intros s s1 F; cbn.
  - intros E; inversion E; reflexivity.
  - inversion F as [|? ? F1 F2]; subst.
    destruct (step_line T V D W read_dep emit l s) as [s2|] eqn:E2; [|discriminate]. cbn [bind]. intros E.
    rewrite (IH _ _ F2 E). cbn. rewrite (step_line_line T V D W read_dep emit _ _ _ E2).
    rewrite (step_line_world _ _ _ F1 E2). reflexivity.
Qed.

(* C17_print_once_here for a definition without dependencies: after a successful read the handler has been called exactly
   once per @print directive, in order, with the physical line of the directive and str(value) *)
Theorem prints_of_leaf : forall ls w m w', ls <> [] -> Forall no_reads ls ->
  run T V D W read_dep emit ls w = Ok (m, w') -> w' = emit_all 1 ls w.
Proof.
  intros ls w m w' NE F. unfold run.
  destruct (run_from T V D W read_dep emit ls (init T V W w)) as [s|] eqn:E1; [|discriminate]. cbn [bind].
  destruct (exists_last NE) as (p & l & ->).
  rewrite (run_from_last T V D W read_dep emit) in E1.
  destruct (run_upto T V D W read_dep emit p (init T V W w)) as [s0|] eqn:E0; [|discriminate]. cbn [bind] in E1.
  assert (U : run_upto T V D W read_dep emit (p ++ [l]) (init T V W w) = Ok (next_line T V D W l s)).
  { rewrite (run_upto_app T V D W read_dep emit). rewrite E0. cbn. rewrite E1. reflexivity. }
  pose proof (run_upto_world _ _ _ F U) as Hw. cbn in Hw.
  unfold finish. destruct (flush T V W s) as [f|] eqn:Ef; [|discriminate]. cbn [bind].
  unfold finalize. intros E.
  assert (Wf : Lines.world T V W f = w').
  { destruct (closed T V W f); [destruct (close T V s1); [destruct (close T V (cur T V W f))|]|destruct (close T V (cur T V W f))];
      inversion E; reflexivity. }
  rewrite <- Wf, (flush_world _ _ Ef). exact Hw.
Qed.

End Machine.

Section ReaderProofs.
Variables T V : Type.
Notation file := (file T V).
Notation read_obj := (read_obj T V).
Notation read_targets := (read_targets T V).
Notation find_file := (find_file T V).

Lemma find_file_In : forall fs i f, find_file fs i = Some f -> In f fs /\ f_id T V f = i.
Proof.
  induction fs as [|g fs IH]; intros i f; cbn.
  - discriminate.
  - destruct (f_id T V g =? i) eqn:E.
    + intros H; inversion H; subst. split; [left; reflexivity|apply Z.eqb_eq; exact E].
    + intros H. destruct (IH _ _ H). split; [right; assumption|assumption].
Qed.

(* e was raised while file f itself was being processed: by parsimonious (syntax), or by its own statements / flush /
   finalize (the run of its lines ended with a local error e0); the reported error is e0 with f's path *)
Inductive origin (fs : list file) (e : eloc) : Prop :=
| origin_syntax : forall f n, In f fs -> f_syntax T V f = Some n -> e = ELoc (Some (f_path T V f)) n -> origin fs e
| origin_local : forall f rd em w e0 w', In f fs -> f_syntax T V f = None ->
    run T V Z world rd em (f_lines T V f) w = Err e0 w' -> e_path e0 = None ->
    e = ELoc (Some (f_path T V f)) (e_line e0) -> origin fs e.

Definition resolvable (fs : list file) (ids : list Z) : Prop := forall i, In i ids -> find_file fs i <> None.

Lemma memz_In : forall x l, memz x l = true <-> In x l.
Proof.
  intros x l. unfold memz. rewrite existsb_exists. split.
  - intros (y & H1 & H2). apply Z.eqb_eq in H2. subst. exact H1.
  - intros H. exists x. split; [exact H|apply Z.eqb_refl].
Qed.

Lemma filter_len_le : forall (A : Type) (f : A -> bool) l, (length (filter f l) <= length l)%nat.
Proof. intros A f l. induction l as [|x l IH]; cbn; [lia|]. destruct (f x); cbn; lia. Qed.

Lemma removez_In : forall x y l, In y (removez x l) -> In y l.
Proof. intros x y l H. unfold removez in H. apply filter_In in H. tauto. Qed.

Lemma removez_length : forall x l, In x l -> (length (removez x l) < length l)%nat.
Proof.
  intros x l. unfold removez. induction l as [|y l IH]; intros H; [destruct H|].
  cbn. destruct (x =? y) eqn:E; cbn.
  - pose proof (filter_len_le _ (fun y0 => negb (x =? y0)) l). lia.
  - destruct H as [H|H]; [subst; rewrite Z.eqb_refl in E; discriminate|]. specialize (IH H). lia.
Qed.

Lemma removez_length_le : forall x l, (length (removez x l) <= length l)%nat.
Proof. intros x l. unfold removez. apply filter_len_le. Qed.

(* C17_path_innermost: whatever the depth, the error that comes out of a read is the error of the file in which it was
   raised, with that file's path and the line (or absence of a line) it had there *)
Theorem read_obj_origin : forall fuel fs bound lk i w w' e,
  resolvable fs lk -> find_file fs i <> None -> (length (removez i lk) < fuel)%nat ->
  read_obj fuel fs bound lk i w = (w', Some e) -> origin fs e.
Proof.
  induction fuel as [|fuel IH]; intros fs bound lk i w w' e R Ri L; [lia|].
  cbn. destruct (find_file fs i) as [f|] eqn:Ef; [|congruence].
  destruct (find_file_In _ _ _ Ef) as [Hin _].
  destruct (f_syntax T V f) as [n|] eqn:Es.
  - intros H; inversion H; subst. eapply origin_syntax; eauto.
  - match goal with |- context [run T V Z world ?d ?m (f_lines T V f) w] => set (dep := d); set (em := m) end.
    destruct (run T V Z world dep em (f_lines T V f) w) as [[m w1]|e0 w1] eqn:Er.
    + discriminate.
    + intros H; inversion H; subst. clear H.
      destruct (run_err_origin T V Z world dep em _ _ _ _ Er) as [Hp|(d & w0 & w2 & Hd & Hp)].
      * eapply origin_local; eauto. unfold fill_path. rewrite Hp. reflexivity.
      * assert (Hfill : fill_path e0 (f_path T V f) = e0).
        { unfold fill_path. destruct (e_path e0); [reflexivity|congruence]. }
        rewrite Hfill. unfold dep in Hd.
        destruct (memz d (removez i lk)) eqn:Em.
        -- destruct (memz d (cached (add_wanted d w0))); [discriminate|].
           destruct (Reader.read_obj T V fuel fs bound (removez i lk) d (add_wanted d w0)) as [w3 [e1|]] eqn:Ei; [|discriminate].
           inversion Hd; subst.
           apply memz_In in Em.
           eapply (IH fs bound (removez i lk) d); [| | |exact Ei].
           ++ intros j Hj. apply R. eapply removez_In; eauto.
           ++ apply R. eapply removez_In; eauto.
           ++ pose proof (removez_length d _ Em). lia.
        -- inversion Hd; subst. cbn in Hp. congruence.
Qed.

Theorem read_targets_origin : forall fuel fs lk ts w w' e,
  resolvable fs lk -> resolvable fs ts -> (length lk < fuel)%nat ->
  read_targets fuel fs lk ts w = (w', Some e) -> origin fs e.
Proof.
  intros fuel fs lk ts. induction ts as [|t r IH]; intros w w' e R Rt L; cbn.
  - discriminate.
  - assert (Rr : resolvable fs r) by (intros j Hj; apply Rt; right; exact Hj).
    destruct (memz t (pool w)); [apply IH; assumption|].
    destruct (read_obj fuel fs _ lk t w) as [w1 [e1|]] eqn:Eo.
    + intros H; inversion H; subst. eapply read_obj_origin; [exact R| | |exact Eo].
      * apply Rt. left. reflexivity.
      * pose proof (removez_length_le t lk). lia.
    + apply IH; assumption.
Qed.

Theorem read_ns_origin : forall fs lk ts ps e,
  resolvable fs lk -> resolvable fs ts -> (length lk <= length fs)%nat ->
  read_ns T V fs lk ts = (ps, Some e) -> origin fs e.
Proof.
  intros fs lk ts ps e R Rt L. unfold read_ns.
  destruct (read_targets (S (length fs)) fs lk ts world0) as [w r] eqn:E. intros H; inversion H; subst.
  eapply read_targets_origin; [exact R|exact Rt| |exact E]. lia.
Qed.

(* ---- deliveries ---- *)

(* the @print directives of a definition: physical line and text *)
Fixpoint print_dirs (n : Z) (ls : list (line T V Z)) : list (Z * text) :=
  match ls with
  | [] => []
  | l :: r => (match own_print T V Z l with Some sh => [(n, sh)] | None => [] end) ++ print_dirs (n + 1 + l_extra T V Z l) r
  end.

Definition deliver (bound : text) (n : Z) (s : text) (w : world) : world := add_print (bound, n, s) w.

Lemma emit_all_prints : forall bound ls n w,
  prints (emit_all T V Z world (deliver bound) n ls w) = prints w ++ map (fun ns => (bound, fst ns, snd ns)) (print_dirs n ls)
  /\ cached (emit_all T V Z world (deliver bound) n ls w) = cached w /\ pool (emit_all T V Z world (deliver bound) n ls w) = pool w
  /\ wanted (emit_all T V Z world (deliver bound) n ls w) = wanted w.
Proof.
  intros bound. induction ls as [|l r IH]; intros n w; cbn.
  - rewrite app_nil_r. auto.
  - destruct (own_print T V Z l) as [sh|]; cbn.
    + destruct (IH (n + 1 + l_extra T V Z l) (deliver bound n sh w)) as (H1 & H2 & H3 & H4).
      rewrite H1, H2, H3, H4. cbn. rewrite <- app_assoc. auto.
    + apply IH.
Qed.

(* C17_print_once_here, partial: a definition without dependencies that is read as a target gets each of its directives
   delivered exactly once, in order, with its own path and physical line *)
Theorem leaf_target_prints : forall fuel fs lk t f w w',
  find_file fs t = Some f -> f_syntax T V f = None -> f_lines T V f <> [] -> Forall (no_reads T V Z) (f_lines T V f) ->
  memz t (pool w) = false ->
  read_targets (S fuel) fs lk [t] w = (w', None) ->
  prints w' = prints w ++ map (fun ns => (f_path T V f, fst ns, snd ns)) (print_dirs 1 (f_lines T V f)).
Proof.
  intros fuel fs lk t f w w' Ef Es NE NR Hp. cbn. rewrite Hp, Ef, Es.
  match goal with |- context [run T V Z world ?d ?m (f_lines T V f) w] => set (dep := d); set (em := m) end.
  destruct (run T V Z world dep em (f_lines T V f) w) as [[m w1]|e0 w1] eqn:Er; [|discriminate].
  intros H; inversion H; subst. clear H.
  pose proof (prints_of_leaf T V Z world dep em _ _ _ _ NE NR Er) as Hw. subst w1.
  unfold settle. cbn [prints].
  destruct (emit_all_prints (f_path T V f) (f_lines T V f) 1 w) as (H1 & _). exact H1.
Qed.
End ReaderProofs.
