(* Builder/Accept.v - a sufficient syntactic condition for the line machine to accept (used by C03_render):
   statements that only visit identifiers, attributes whose construction succeeds, directives in their places,
   exactly one serialization mode per section with @extent after the last attribute, unions with two variants. *)
From Coq Require Import ZArith List Bool Lia.
From PV Require Import Builder.Lines Builder.Basics Builder.Spec Builder.Mirror.
Import ListNotations.
Open Scope Z_scope.

Section Accept.
Variables T V D W : Type.
Variable read_dep : D -> W -> W * option eloc.
Variable emit : Z -> text -> W -> W.

Notation st := (st T V W).
Notation line := (line T V D).
Notation schema := (schema T V).
Notation flush := (flush T V W).
Notation run_pre := (run_pre T V D W read_dep).
Notation do_dir := (do_dir T V W emit).
Notation do_act := (do_act T V W emit).
Notation step_line := (step_line T V D W read_dep emit).
Notation run_from := (run_from T V D W read_dep emit).
Notation run_upto := (run_upto T V D W read_dep emit).
Notation next_line := (next_line T V D W).
Notation good := (good T V W).
Notation header := (header T V W).
Notation pending := (pending T V W).
Notation comment := (comment T V W).
Notation cur := (cur T V W).
Notation closed := (closed T V W).
Notation deprecated := (deprecated T V W).
Notation flushed := (flushed T V W).

(* the abstract state of the checker *)
Record ab := Ab {
  a_seen : bool;            (* an attribute statement has been seen in this section *)
  a_mode : option mode;
  a_union : bool;
  a_nf : nat;               (* fields and paddings of this section *)
  a_dep : bool;
  a_resp : bool;            (* the marker has been seen *)
  a_reqok : bool            (* the request section can be closed *)
}.
Definition ab0 : ab := Ab false None false 0 false false true.
Definition sect_ok (m : option mode) (u : bool) (nf : nat) : bool :=
  match m with None => false | Some _ => negb (u && Nat.ltb nf 2) end.

Definition is_ident (p : pre D) : bool := match p with PIdent => true | _ => false end.

Definition step_ab (l : line) (a : ab) : option ab :=
  match l_stmt T V D l with
  | None => Some a
  | Some (Stmt pre act) =>
      if forallb is_ident pre then
        match act with
        | XAttr at_ cf =>
            if cf then None else
            match a_mode a with
            | Some (MDelimited _) => None
            | _ => Some (Ab true (a_mode a) (a_union a) (if fieldlike T V at_ then S (a_nf a) else a_nf a) (a_dep a) (a_resp a) (a_reqok a))
            end
        | XDir KPrint _ _ => Some a
        | XDir KAssert (GBool true) _ => Some a
        | XDir KExtent (GInt z) _ =>
            match a_mode a with None => Some (Ab (a_seen a) (Some (MDelimited z)) (a_union a) (a_nf a) (a_dep a) (a_resp a) (a_reqok a)) | Some _ => None end
        | XDir KSealed GNone _ =>
            match a_mode a with None => Some (Ab (a_seen a) (Some MSealed) (a_union a) (a_nf a) (a_dep a) (a_resp a) (a_reqok a)) | Some _ => None end
        | XDir KUnion GNone _ =>
            if a_union a || a_seen a then None else Some (Ab (a_seen a) (a_mode a) true (a_nf a) (a_dep a) (a_resp a) (a_reqok a))
        | XDir KDeprecated GNone _ =>
            if a_dep a || a_resp a || a_seen a then None else Some (Ab (a_seen a) (a_mode a) (a_union a) (a_nf a) true (a_resp a) (a_reqok a))
        | XDir _ _ _ => None
        | XMarker => if a_resp a then None else Some (Ab false None false 0 (a_dep a) true (sect_ok (a_mode a) (a_union a) (a_nf a)))
        end
      else None
  end.

Fixpoint run_ab (ls : list line) (a : ab) : option ab :=
  match ls with
  | [] => Some a
  | l :: r => match step_ab l a with Some a' => run_ab r a' | None => None end
  end.

Definition okb (ls : list line) : bool :=
  match run_ab ls ab0 with
  | Some a => a_reqok a && sect_ok (a_mode a) (a_union a) (a_nf a)
  | None => false
  end.

(* the simulation *)
Definition is_some {A : Type} (o : option A) : bool := match o with Some _ => true | None => false end.

Record R (s : st) (a : ab) : Prop := {
  r_good : good s;
  r_seen : a_seen a = has_attrs T V (flushed s);
  r_mode : a_mode a = c_mode T V (cur s);
  r_union : a_union a = c_union T V (cur s);
  r_nf : a_nf a = length (c_fields T V (flushed s));
  r_dep : a_dep a = deprecated s;
  r_resp : a_resp a = is_some (closed s);
  r_reqok : forall c, closed s = Some c -> a_reqok a = is_some (close T V c);
  r_off : c_offset T V (cur s) = false;
  r_cf : forall at_ cf n, pending s = Some (at_, cf, n) -> cf = false
}.

Lemma R_init : forall w, R (init T V W w) ab0.
Proof. intros w. constructor; try reflexivity; try discriminate. exact (good_init T V W w). Qed.

(* under R a flush succeeds and lands in the flushed schema *)
Lemma R_flush : forall s a, R s a -> exists f, flush s = Ok f /\ cur f = flushed s /\ header f = false /\ pending f = None
  /\ comment f = [] /\ closed f = closed s /\ deprecated f = deprecated s /\ line_no T V W f = line_no T V W s
  /\ c_offset T V (cur f) = false.
Proof.
  intros [c h p cl cu d ln w] a HR. destruct HR as [G _ _ _ _ _ _ _ Ho Hc]. unfold Basics.good in G. cbn in *.
  unfold Lines.flush, Mirror.flushed. cbn. destruct h.
  - rewrite (G eq_refl). eexists. split; [reflexivity|]. cbn. rewrite Ho. auto 10.
  - destruct p as [[[at_ cf] n]|].
    + rewrite (Hc _ _ _ eq_refl). unfold commit_fails. rewrite Ho. cbn. rewrite andb_false_r. cbn.
      eexists. split; [reflexivity|]. cbn. split; [reflexivity|]. unfold Lines.add_attr. destruct (fieldlike T V at_); cbn; auto 10.
    + eexists. split; [reflexivity|]. cbn. auto 10.
Qed.

Lemma run_pre_idents : forall pre s a, R s a -> forallb is_ident pre = true ->
  exists s2, run_pre pre s = Ok s2 /\ R s2 a /\ line_no T V W s2 = line_no T V W s.
Proof.
  induction pre as [|p pre IH]; intros s a HR Hp; cbn.
  - exists s. auto.
  - cbn in Hp. apply andb_prop in Hp. destruct Hp as [Hp1 Hp2]. destruct p; try discriminate. cbn.
    destruct (R_flush _ _ HR) as (f & Ef & K1 & K2 & K3 & K4 & K5 & K6 & K7 & K8). rewrite Ef. cbn.
    assert (FF : flushed f = flushed s).
    { unfold Mirror.flushed at 1. rewrite K2, K3. exact K1. }
    assert (HRf : R f a).
    { pose proof (flags_flushed T V W s) as FL. unfold Mirror.flags in FL. inversion FL as [[Fm Fu]].
      destruct HR. constructor.
      - apply (good_header_false T V W). exact K2.
      - rewrite FF. assumption.
      - rewrite K1, Fm. assumption.
      - rewrite K1, Fu. assumption.
      - rewrite FF. assumption.
      - rewrite K6. assumption.
      - rewrite K5. assumption.
      - rewrite K5. assumption.
      - exact K8.
      - rewrite K3. discriminate. }
    destruct (IH f a HRf Hp2) as (s2 & E2 & R2 & L2). exists s2. split; [exact E2|]. split; [exact R2|congruence].
Qed.

Lemma R_flush' : forall s a, R s a -> exists f, flush s = Ok f /\ R f a /\ header f = false /\ pending f = None
  /\ comment f = [] /\ line_no T V W f = line_no T V W s /\ flushed f = cur f.
Proof.
  intros s a HR. destruct (R_flush _ _ HR) as (f & Ef & K1 & K2 & K3 & K4 & K5 & K6 & K7 & K8).
  assert (FF : flushed f = flushed s) by (unfold Mirror.flushed at 1; rewrite K2, K3; exact K1).
  exists f. split; [exact Ef|]. split; [|rewrite FF; auto 10].
  pose proof (flags_flushed T V W s) as FL. unfold Mirror.flags in FL. inversion FL as [[Fm Fu]].
  destruct HR. constructor.
  - apply (good_header_false T V W). exact K2.
  - rewrite FF. assumption.
  - rewrite K1, Fm. assumption.
  - rewrite K1, Fu. assumption.
  - rewrite FF. assumption.
  - rewrite K6. assumption.
  - rewrite K5. assumption.
  - rewrite K5. assumption.
  - exact K8.
  - rewrite K3. discriminate.
Qed.

(* R does not look at the text of the comment buffer, the line counter or the world *)
Lemma has_attrs_flushed_buf : forall b (s : st),
  has_attrs T V (flushed (set_buf T V W b s)) = has_attrs T V (flushed s)
  /\ length (c_fields T V (flushed (set_buf T V W b s))) = length (c_fields T V (flushed s)).
Proof.
  intros b [c h p cl cu d ln w]. unfold Mirror.flushed. cbn. destruct h; [auto|].
  destruct p as [[[at_ cf] n]|]; [|auto]. unfold Lines.add_attr, has_attrs. destruct (fieldlike T V at_); cbn;
    rewrite ?app_length; cbn; split; try reflexivity.
  - destruct (c_fields T V cu); reflexivity.
  - destruct (c_consts T V cu), (c_fields T V cu); reflexivity.
Qed.

Lemma R_set_buf : forall b s a, R s a -> R (set_buf T V W b s) a.
Proof.
  intros b s a HR. destruct (has_attrs_flushed_buf b s) as [H1 H2]. destruct HR. constructor; try (destruct s; assumption).
  - rewrite H1. assumption.
  - rewrite H2. assumption.
Qed.

Lemma R_add_comment : forall l s a, R s a -> R (add_comment T V D W l s) a.
Proof. intros l s a HR. unfold add_comment. destruct (l_comment T V D l); [apply R_set_buf|]; exact HR. Qed.

Lemma R_next_line : forall l s a, R s a -> R (next_line l s) a.
Proof. intros l s a HR. destruct HR. constructor; destruct s; assumption. Qed.

Lemma R_world : forall w' s a, R s a -> R (set_world T V W w' s) a.
Proof. intros w' s a HR. destruct HR. constructor; destruct s; assumption. Qed.

Lemma sect_ok_close : forall c : schema, sect_ok (c_mode T V c) (c_union T V c) (length (c_fields T V c)) = is_some (close T V c).
Proof.
  intros c. unfold sect_ok, close. destruct (c_mode T V c); [|reflexivity].
  destruct (c_union T V c && Nat.ltb (length (c_fields T V c)) 2); reflexivity.
Qed.

Lemma R_do_act : forall act s a a' l pre, R s a -> l_stmt T V D l = Some (Stmt pre act) ->
  (match act with
   | XAttr at_ cf => if cf then None else match a_mode a with Some (MDelimited _) => None | _ =>
        Some (Ab true (a_mode a) (a_union a) (if fieldlike T V at_ then S (a_nf a) else a_nf a) (a_dep a) (a_resp a) (a_reqok a)) end
   | XDir KPrint _ _ => Some a
   | XDir KAssert (GBool true) _ => Some a
   | XDir KExtent (GInt z) _ => match a_mode a with None => Some (Ab (a_seen a) (Some (MDelimited z)) (a_union a) (a_nf a) (a_dep a) (a_resp a) (a_reqok a)) | Some _ => None end
   | XDir KSealed GNone _ => match a_mode a with None => Some (Ab (a_seen a) (Some MSealed) (a_union a) (a_nf a) (a_dep a) (a_resp a) (a_reqok a)) | Some _ => None end
   | XDir KUnion GNone _ => if a_union a || a_seen a then None else Some (Ab (a_seen a) (a_mode a) true (a_nf a) (a_dep a) (a_resp a) (a_reqok a))
   | XDir KDeprecated GNone _ => if a_dep a || a_resp a || a_seen a then None else Some (Ab (a_seen a) (a_mode a) (a_union a) (a_nf a) true (a_resp a) (a_reqok a))
   | XDir _ _ _ => None
   | XMarker => if a_resp a then None else Some (Ab false None false 0 (a_dep a) true (sect_ok (a_mode a) (a_union a) (a_nf a)))
   end = Some a') ->
  exists s3, do_act act s = Ok s3 /\ R s3 a'.
Proof.
  intros act s a a' l pre HR _ Hab. unfold Lines.do_act.
  destruct (R_flush' _ _ HR) as (f & Ef & Rf & K2 & K3 & K4 & K7 & FF). rewrite Ef. cbn [Lines.bind].
  destruct Rf as [G Hs Hm Hu Hn Hd Hr Hq Ho Hc]. rewrite FF in Hs, Hn.
  destruct act as [at_ cf|k g sh|].
  - (* attribute *)
    destruct cf; [discriminate|]. rewrite Hm in Hab.
    assert (NM : match c_mode T V (cur f) with Some (MDelimited _) => False | _ => True end).
    { destruct (c_mode T V (cur f)) as [[|z]|]; try exact I. discriminate. }
    assert (E3 : (match c_mode T V (cur f) with Some (MDelimited _) => raise_here T V W f | _ => Ok (set_pending T V W (Some (at_, false, line_no T V W f)) f) end)
                 = Ok (set_pending T V W (Some (at_, false, line_no T V W f)) f)).
    { destruct (c_mode T V (cur f)) as [[|z]|]; try reflexivity. contradiction. }
    rewrite E3. eexists. split; [reflexivity|].
    assert (Ea : a' = Ab true (c_mode T V (cur f)) (a_union a) (if fieldlike T V at_ then S (a_nf a) else a_nf a) (a_dep a) (a_resp a) (a_reqok a)).
    { destruct (c_mode T V (cur f)) as [[|z]|]; try contradiction; inversion Hab; reflexivity. }
    subst a'. destruct f as [c h p cl cu d ln w]. cbn in *. subst.
    constructor; cbn; try assumption; try reflexivity.
    + apply (good_header_false T V W). reflexivity.
    + unfold Mirror.flushed. cbn. unfold Lines.add_attr, has_attrs. destruct (fieldlike T V at_); cbn.
      * destruct (c_fields T V cu); reflexivity.
      * destruct (c_consts T V cu), (c_fields T V cu); reflexivity.
    + unfold Mirror.flushed. cbn. unfold Lines.add_attr. destruct (fieldlike T V at_); cbn; rewrite ?app_length; cbn; lia.
    + intros ? ? ? E; inversion E; reflexivity.
  - (* directive *)
    assert (Rf : R f a) by (constructor; rewrite ?FF; assumption).
    unfold Lines.do_dir, raise_here, raise_at.
    destruct k.
    + inversion Hab; subst. eexists. split; [reflexivity|]. apply R_world. exact Rf.
    + destruct g as [|[|]| |]; try discriminate. inversion Hab; subst. eexists. split; [reflexivity|]. exact Rf.
    + destruct g; try discriminate. rewrite Hm in Hab. destruct (c_mode T V (cur f)) eqn:Em; [discriminate|].
      inversion Hab; subst. eexists. split; [reflexivity|].
      destruct f as [c h p cl cu d ln w]. cbn in *. subst. constructor; cbn; try assumption; try reflexivity; try discriminate;
        try (apply (good_header_false T V W); reflexivity).
    + destruct g; try discriminate. rewrite Hm in Hab. destruct (c_mode T V (cur f)) eqn:Em; [discriminate|].
      inversion Hab; subst. eexists. split; [reflexivity|].
      destruct f as [c h p cl cu d ln w]. cbn in *. subst. constructor; cbn; try assumption; try reflexivity; try discriminate;
        try (apply (good_header_false T V W); reflexivity).
    + destruct g; try discriminate. rewrite Hu, Hs in Hab. destruct (c_union T V (cur f) || has_attrs T V (cur f)) eqn:Eu; [discriminate|].
      inversion Hab; subst. eexists. split; [reflexivity|].
      destruct f as [c h p cl cu d ln w]. cbn in *. subst. constructor; cbn; try assumption; try reflexivity; try discriminate;
        try (apply (good_header_false T V W); reflexivity).
    + destruct g; try discriminate. rewrite Hd, Hr, Hs in Hab.
      assert (Ec : (match closed f with Some _ => true | None => false end) = is_some (closed f)) by reflexivity.
      rewrite Ec. destruct (deprecated f || is_some (closed f) || has_attrs T V (cur f)) eqn:Eu; [discriminate|].
      inversion Hab; subst. eexists. split; [reflexivity|].
      destruct f as [c h p cl cu d ln w]. cbn in *. subst. constructor; cbn; try assumption; try reflexivity; try discriminate;
        try (apply (good_header_false T V W); reflexivity).
    + discriminate.
  - (* marker *)
    rewrite Hr in Hab. destruct (closed f) eqn:Ecl; [discriminate|]. cbn in Hab. inversion Hab; subst. clear Hab.
    cbn. rewrite Ecl. eexists. split; [reflexivity|].
    destruct f as [c h p cl cu d ln w]. cbn in *. subst.
    constructor; cbn; try reflexivity; try assumption; try discriminate.
    + intros _. reflexivity.
    + intros c0 E; inversion E; subst. rewrite Hm, Hu, Hn. apply sect_ok_close.
Qed.

Lemma R_step : forall l s a a', R s a -> step_ab l a = Some a' -> exists s1, step_line l s = Ok s1 /\ R s1 a'.
Proof.
  intros l s a a' HR. unfold step_ab, Lines.step_line, is_empty_text.
  destruct (l_stmt T V D l) as [[pre act]|] eqn:Es.
  - destruct (forallb is_ident pre) eqn:Ep; [|discriminate]. intros Hab.
    unfold Lines.do_stmt. cbn [s_pre s_act].
    destruct (run_pre_idents _ _ _ HR Ep) as (s2 & E2 & R2 & _). rewrite E2. cbn [Lines.bind].
    destruct (R_do_act act s2 a a' l pre R2 Es Hab) as (s3 & E3 & R3). rewrite E3. cbn [Lines.bind].
    eexists. split; [reflexivity|]. apply R_add_comment. exact R3.
  - intros Hab; inversion Hab; subst. cbn [Lines.bind].
    pose proof (R_add_comment l _ _ HR) as RA.
    destruct (l_comment T V D l); [eexists; split; [reflexivity|exact RA]|].
    destruct (negb (l_blanks T V D l)); [|eexists; split; [reflexivity|exact RA]].
    destruct (R_flush' _ _ RA) as (f & Ef & Rf & _). exists f. auto.
Qed.

Lemma R_run : forall ls s a a', R s a -> run_ab ls a = Some a' -> exists s', run_from ls s = Ok s' /\ R s' a'.
Proof.
  induction ls as [|l r IH]; intros s a a' HR; cbn [run_ab Lines.run_from].
  - intros E; inversion E; subst. exists s. auto.
  - destruct (step_ab l a) as [a1|] eqn:Ea; [|discriminate]. intros Hr.
    destruct (R_step _ _ _ _ HR Ea) as (s1 & E1 & R1). rewrite E1. cbn [Lines.bind].
    destruct r as [|l2 r2].
    + cbn in Hr. inversion Hr; subst. exists s1. auto.
    + apply (IH (next_line l s1) a1 a'); [apply R_next_line; exact R1|exact Hr].
Qed.

(* a text that passes the checker is accepted *)
Theorem okb_accepts : forall ls w, okb ls = true -> exists m w', Lines.run T V D W read_dep emit ls w = Ok (m, w').
Proof.
  intros ls w. unfold okb. destruct (run_ab ls ab0) as [a|] eqn:Ea; [|discriminate]. intros Hok.
  apply andb_prop in Hok. destruct Hok as [Hq Hs].
  destruct (R_run _ _ _ _ (R_init w) Ea) as (s' & E' & R'). unfold Lines.run. rewrite E'. cbn [Lines.bind].
  unfold Lines.finish. destruct (R_flush' _ _ R') as (f & Ef & Rf & _ & _ & _ & _ & FF). rewrite Ef. cbn [Lines.bind].
  destruct Rf as [G Hse Hm Hu Hn Hd Hr Hqq Ho Hc]. rewrite FF in Hn.
  rewrite Hm, Hu, Hn, sect_ok_close in Hs.
  unfold Lines.finalize. destruct (closed f) as [c|] eqn:Ecl.
  - rewrite (Hqq c eq_refl) in Hq. destruct (close T V c); [|discriminate]. destruct (close T V (cur f)); [|discriminate]. eauto.
  - destruct (close T V (cur f)); [|discriminate]. eauto.
Qed.

End Accept.
