(* Builder/Extra.v - C03: extra comment lines and empty lines change docs only.  Consequence of the mirror theorem:
   everything but the docs is a function of the statements alone. *)
From Coq Require Import ZArith List Bool Lia.
From PV Require Import Builder.Lines Builder.Basics Builder.Spec Builder.Mirror.
Import ListNotations.
Open Scope Z_scope.

Section Extra.
Variables T V D W : Type.
Variable read_dep : D -> W -> W * option eloc.
Variable emit : Z -> text -> W -> W.

Notation line := (line T V D).
Notation stmt := (stmt T V D).
Notation run := (Lines.run T V D W read_dep emit).

(* the statements of a text, in order *)
Fixpoint sk (ls : list line) : list stmt :=
  match ls with
  | [] => []
  | l :: r => match l_stmt T V D l with Some x => x :: sk r | None => sk r end
  end.

Lemma sk_app : forall a b, sk (a ++ b) = sk a ++ sk b.
Proof. induction a as [|l a IH]; intros b; cbn; [reflexivity|]. destruct (l_stmt T V D l); cbn; rewrite IH; reflexivity. Qed.

Definition sline (x : stmt) : line := Line (Some x) false None 0.

(* the spec functions look at the statements only *)
Lemma stmt_attrs_sk : forall ls, stmt_attrs T V D ls = stmt_attrs T V D (map sline (sk ls)).
Proof.
  induction ls as [|l r IH]; cbn; [reflexivity|]. unfold attr_of. destruct (l_stmt T V D l) as [x|] eqn:E; [|exact IH].
  cbn. destruct x as [pre [a cf|k g sh|]]; cbn; unfold attr_of in IH; congruence.
Qed.

Lemma has_dir_sk : forall k ls, has_dir T V D k ls = has_dir T V D k (map sline (sk ls)).
Proof.
  intros k. induction ls as [|l r IH]; cbn; [reflexivity|]. unfold has_dir, dir_of in *. destruct (l_stmt T V D l) as [x|] eqn:E.
  - cbn. rewrite IH. reflexivity.
  - cbn. exact IH.
Qed.

Lemma mode_dirs_sk : forall ls, mode_dirs T V D ls = mode_dirs T V D (map sline (sk ls)).
Proof.
  induction ls as [|l r IH]; cbn; [reflexivity|]. unfold dir_of in *. destruct (l_stmt T V D l) as [x|] eqn:E.
  - cbn. rewrite IH. reflexivity.
  - cbn. exact IH.
Qed.

Definition smarker (x : stmt) : bool := match s_act T V D x with XMarker => true | _ => false end.
Fixpoint ssplit (xs : list stmt) : list stmt * option (list stmt) :=
  match xs with
  | [] => ([], None)
  | x :: r => if smarker x then ([], Some r) else let (a, b) := ssplit r in (x :: a, b)
  end.

Lemma split_marker_sk : forall ls rq rest, split_marker T V D ls = (rq, rest) ->
  ssplit (sk ls) = (sk rq, match rest with Some (_, rs) => Some (sk rs) | None => None end).
Proof.
  induction ls as [|l r IH]; intros rq rest; cbn.
  - intros E; inversion E; reflexivity.
  - unfold is_marker. destruct (l_stmt T V D l) as [[pre act]|] eqn:Es.
    + destruct act as [at_ cf|k g sh|]; cbn.
      * destruct (split_marker T V D r) as [aa bb]. intros E; inversion E; subst. cbn. rewrite Es. rewrite (IH _ _ eq_refl). reflexivity.
      * destruct (split_marker T V D r) as [aa bb]. intros E; inversion E; subst. cbn. rewrite Es. rewrite (IH _ _ eq_refl). reflexivity.
      * intros E; inversion E; subst. reflexivity.
    + destruct (split_marker T V D r) as [aa bb]. intros E; inversion E; subst. cbn. rewrite Es. apply IH. reflexivity.
Qed.

(* a schema without its docs *)
Definition undoc_sect (k : sect T V) := (k_union T V k, k_extent T V k, map fst (k_fields T V k), map fst (k_consts T V k)).
Definition undoc (m : model T V) := (m_deprecated T V m, undoc_sect (m_req T V m), option_map undoc_sect (m_resp T V m)).

Lemma mirrors_undoc : forall h1 h2 ls1 ls2 k1 k2, mirrors T V D h1 ls1 k1 -> mirrors T V D h2 ls2 k2 -> sk ls1 = sk ls2 ->
  undoc_sect k1 = undoc_sect k2.
Proof.
  intros h1 h2 ls1 ls2 k1 k2 M1 M2 E.
  destruct (mirrors_once T V D _ _ _ M1) as [F1 C1]. destruct (mirrors_once T V D _ _ _ M2) as [F2 C2].
  destruct M1 as (_ & _ & _ & U1 & mo1 & Mo1 & X1). destruct M2 as (_ & _ & _ & U2 & mo2 & Mo2 & X2).
  unfold undoc_sect. rewrite F1, F2, C1, C2, U1, U2, X1, X2.
  rewrite (stmt_attrs_sk ls1), (stmt_attrs_sk ls2), (has_dir_sk _ ls1), (has_dir_sk _ ls2), E.
  rewrite (mode_dirs_sk ls1) in Mo1. rewrite (mode_dirs_sk ls2) in Mo2. rewrite E in Mo1. rewrite Mo1 in Mo2. inversion Mo2. reflexivity.
Qed.

(* whenever two texts with the same statements are both accepted, their models differ in docs only *)
Theorem same_statements : forall ls1 ls2 w1 w2 m1 m2 w1' w2', sk ls1 = sk ls2 ->
  run ls1 w1 = Ok (m1, w1') -> run ls2 w2 = Ok (m2, w2') -> undoc m1 = undoc m2.
Proof.
  intros ls1 ls2 w1 w2 m1 m2 w1' w2' E R1 R2.
  destruct (mirror T V D W read_dep emit _ _ _ _ R1) as [D1 S1]. destruct (mirror T V D W read_dep emit _ _ _ _ R2) as [D2 S2].
  destruct (split_marker T V D ls1) as [rq1 rest1] eqn:E1. destruct (split_marker T V D ls2) as [rq2 rest2] eqn:E2.
  pose proof (split_marker_sk _ _ _ E1) as K1. pose proof (split_marker_sk _ _ _ E2) as K2. rewrite E in K1. rewrite K1 in K2.
  unfold undoc. rewrite D1, D2, (has_dir_sk _ ls1), (has_dir_sk _ ls2), E.
  destruct rest1 as [[ml1 rs1]|], rest2 as [[ml2 rs2]|]; try discriminate.
  - inversion K2 as [[Kq Ks]]. destruct S1 as (Q1 & k1 & P1 & Mk1 & _). destruct S2 as (Q2 & k2 & P2 & Mk2 & _).
    rewrite P1, P2. cbn. rewrite (mirrors_undoc _ _ _ _ _ _ Q1 Q2 Kq), (mirrors_undoc _ _ _ _ _ _ Mk1 Mk2 Ks). reflexivity.
  - inversion K2 as [Kq]. destruct S1 as (Q1 & P1). destruct S2 as (Q2 & P2). rewrite P1, P2. cbn. rewrite (mirrors_undoc _ _ _ _ _ _ Q1 Q2 Kq). reflexivity.
Qed.

(* C03_extra_lines (partial): a comment line or an empty line inserted anywhere changes docs only - provided both texts
   are accepted.  Not proved here: that acceptance itself is unaffected (it is for the statements of the grammar, where
   every _offset_ follows an identifier; for arbitrary event lists an earlier flush can change what add_field sees). *)
Theorem extra_lines : forall p x r w m1 m2 w1 w2, l_stmt T V D x = None ->
  run (p ++ x :: r) w = Ok (m1, w1) -> run (p ++ r) w = Ok (m2, w2) -> undoc m1 = undoc m2.
Proof.
  intros p x r w m1 m2 w1 w2 Hx R1 R2. eapply same_statements; [|exact R1|exact R2].
  rewrite !sk_app. cbn. rewrite Hx. reflexivity.
Qed.

End Extra.
