(* Builder/Blank.v - C03_blank_lines: a blanks-only line inserted anywhere changes nothing but line numbers.
   The two runs are related by a simulation that ignores the line counter and the line remembered with the queued
   attribute.  Hypothesis: the world does not depend on the line numbers given to the print handler. *)
From Coq Require Import ZArith List Bool Lia.
From PV Require Import Builder.Lines Builder.Basics.
Import ListNotations.
Open Scope Z_scope.

Section Blank.
Variables T V D W : Type.
Variable read_dep : D -> W -> W * option eloc.
Variable emit : Z -> text -> W -> W.
Hypothesis emit_blind : forall n n' t w, emit n t w = emit n' t w.

Notation st := (st T V W).
Notation line := (line T V D).
Notation flush := (flush T V W).
Notation step_pre := (step_pre T V D W read_dep).
Notation run_pre := (run_pre T V D W read_dep).
Notation do_dir := (do_dir T V W emit).
Notation do_act := (do_act T V W emit).
Notation do_stmt := (do_stmt T V D W read_dep emit).
Notation step_line := (step_line T V D W read_dep emit).
Notation run_from := (run_from T V D W read_dep emit).
Notation run_upto := (run_upto T V D W read_dep emit).
Notation next_line := (next_line T V D W).
Notation run := (Lines.run T V D W read_dep emit).
Notation finish := (Lines.finish T V W).

Definition psim (p1 p2 : option (attr T V * bool * Z)) : Prop :=
  match p1, p2 with
  | None, None => True
  | Some (a, cf, _), Some (a', cf', _) => a = a' /\ cf = cf'
  | _, _ => False
  end.

Inductive sim : st -> st -> Prop :=
| sim_intro : forall c h p1 p2 cl cu d ln1 ln2 w, psim p1 p2 ->
    sim (St T V W c h p1 cl cu d ln1 w) (St T V W c h p2 cl cu d ln2 w).

(* results agree: both succeed in related states, or both fail (possibly at different line numbers) in the same world *)
Definition rsim (r1 r2 : res W st) : Prop :=
  match r1, r2 with
  | Ok s1, Ok s2 => sim s1 s2
  | Err _ w1, Err _ w2 => w1 = w2
  | _, _ => False
  end.

Lemma psim_refl : forall p, psim p p.
Proof. intros [[[a cf] n]|]; cbn; auto. Qed.
Lemma sim_refl : forall s, sim s s.
Proof. intros [c h p cl cu d ln w]. constructor. apply psim_refl. Qed.

Lemma bind_rsim : forall (r1 r2 : res W st) (f g : st -> res W st),
  rsim r1 r2 -> (forall s1 s2, sim s1 s2 -> rsim (f s1) (g s2)) -> rsim (Lines.bind W r1 f) (Lines.bind W r2 g).
Proof. intros [s1|e1 w1] [s2|e2 w2] f g H K; cbn in *; try contradiction; auto. Qed.

Lemma flush_sim : forall s t, sim s t -> rsim (flush s) (flush t).
Proof.
  intros s t H. destruct H as [c h p1 p2 cl cu d ln1 ln2 w P]. unfold Lines.flush. cbn.
  destruct h.
  - cbn. constructor. exact P.
  - destruct p1 as [[[a cf] n]|], p2 as [[[a' cf'] n']|]; cbn in P; try contradiction.
    + destruct P as [-> ->]. destruct (commit_fails T V a' cf' cu); cbn; [reflexivity|]. constructor. exact I.
    + cbn. constructor. exact I.
Qed.

Lemma step_pre_sim : forall p s t, sim s t -> rsim (step_pre p s) (step_pre p t).
Proof.
  intros p s t H. destruct p; cbn.
  - apply flush_sim; exact H.
  - destruct H. cbn. constructor. assumption.
  - destruct H. cbn. reflexivity.
  - destruct H as [c h p1 p2 cl cu dd ln1 ln2 w P]. cbn. destruct (read_dep d w) as [w1 [e|]]; cbn; [reflexivity|].
    constructor. exact P.
Qed.

Lemma run_pre_sim : forall ps s t, sim s t -> rsim (run_pre ps s) (run_pre ps t).
Proof.
  induction ps as [|p ps IH]; intros s t H; cbn.
  - exact H.
  - apply bind_rsim; [apply step_pre_sim; exact H|exact IH].
Qed.

Lemma do_dir_sim : forall k g sh s t, sim s t -> rsim (do_dir k g sh s) (do_dir k g sh t).
Proof.
  intros k g sh s t H. destruct H as [c h p1 p2 cl cu d ln1 ln2 w P].
  unfold Lines.do_dir, raise_here, raise_at. destruct k; cbn.
  - rewrite (emit_blind ln1 ln2). constructor. exact P.
  - destruct g as [|[|]| |]; cbn; try reflexivity. constructor. exact P.
  - destruct (c_mode T V cu); [reflexivity|]. destruct g; cbn; try reflexivity. constructor. exact P.
  - destruct (c_mode T V cu); [reflexivity|]. destruct g; cbn; try reflexivity. constructor. exact P.
  - destruct g; cbn; try reflexivity. destruct (_ || _); cbn; [reflexivity|]. constructor. exact P.
  - destruct g; cbn; try reflexivity. destruct (_ || _); cbn; [reflexivity|]. constructor. exact P.
  - reflexivity.
Qed.

Lemma do_act_sim : forall x s t, sim s t -> rsim (do_act x s) (do_act x t).
Proof.
  intros x s t H. unfold Lines.do_act. apply bind_rsim; [apply flush_sim; exact H|].
  intros s1 t1 H1. destruct x.
  - destruct H1 as [c h p1 p2 cl cu d ln1 ln2 w P]. cbn. destruct (c_mode T V cu) as [[|z]|]; cbn; try reflexivity;
      constructor; cbn; auto.
  - apply do_dir_sim. exact H1.
  - destruct H1 as [c h p1 p2 cl cu d ln1 ln2 w P]. cbn. destruct cl; cbn; [reflexivity|]. constructor. exact P.
Qed.

Lemma step_line_sim : forall l s t, sim s t -> rsim (step_line l s) (step_line l t).
Proof.
  intros l s t H. unfold Lines.step_line. apply bind_rsim.
  - destruct (l_stmt T V D l) as [x|]; [|exact H]. unfold Lines.do_stmt.
    apply bind_rsim; [apply run_pre_sim; exact H|]. intros; apply do_act_sim; assumption.
  - intros s1 t1 H1.
    assert (A : sim (add_comment T V D W l s1) (add_comment T V D W l t1)).
    { unfold add_comment. destruct (l_comment T V D l); [|exact H1]. destruct H1. constructor. assumption. }
    destruct (is_empty_text T V D l); [apply flush_sim; exact A|exact A].
Qed.

Lemma next_line_sim : forall l l' s t, sim s t -> sim (next_line l s) (next_line l' t).
Proof. intros l l' s t H. destruct H. constructor. assumption. Qed.

Lemma run_from_sim : forall ls s t, sim s t -> rsim (run_from ls s) (run_from ls t).
Proof.
  induction ls as [|l r IH]; intros s t H; cbn [Lines.run_from].
  - exact H.
  - apply bind_rsim; [apply step_line_sim; exact H|]. intros s1 t1 H1.
    destruct r; [exact H1|]. apply IH. apply next_line_sim. exact H1.
Qed.

Lemma run_upto_sim : forall ls s t, sim s t -> rsim (run_upto ls s) (run_upto ls t).
Proof.
  induction ls as [|l r IH]; intros s t H; cbn [Basics.run_upto].
  - exact H.
  - apply bind_rsim; [apply step_line_sim; exact H|]. intros s1 t1 H1. apply IH. apply next_line_sim. exact H1.
Qed.

(* what C03 observes of a run: the model, or the fact that it was rejected *)
Definition outcome (r : res W (model T V * W)) : option (model T V * W) :=
  match r with Ok x => Some x | Err _ _ => None end.

Lemma finish_sim : forall s t, sim s t -> outcome (finish s) = outcome (finish t).
Proof.
  intros s t H. unfold Lines.finish. pose proof (flush_sim _ _ H) as F.
  destruct (flush s) as [s1|e1 w1], (flush t) as [t1|e2 w2]; cbn in F; try contradiction; cbn; [|reflexivity].
  destruct F as [c h p1 p2 cl cu d ln1 ln2 w P]. reflexivity.
Qed.

Definition blank_line : line := Line None true None 0.

Lemma step_blank : forall s : st, step_line blank_line s = Ok s.
Proof. intros [c h p cl cu d ln w]. reflexivity. Qed.

(* C03_blank_lines *)
Theorem blank_lines : forall p r w, p ++ r <> [] ->
  outcome (run (p ++ blank_line :: r) w) = outcome (run (p ++ r) w).
Proof.
  intros p r w NE. unfold Lines.run. rewrite (run_from_split T V D W read_dep emit).
  destruct r as [|l2 r2].
  - (* the blank line is the last line *)
    rewrite app_nil_r in *. cbn [Lines.run_from]. 
    destruct (exists_last NE) as (p0 & l0 & ->).
    rewrite (run_upto_app T V D W read_dep emit), (run_from_last T V D W read_dep emit).
    destruct (run_upto p0 (init T V W w)) as [s0|] eqn:E0; cbn [Lines.bind Basics.run_upto]; [|reflexivity].
    destruct (step_line l0 s0) as [s1|] eqn:E1; cbn [Lines.bind]; [|reflexivity].
    rewrite step_blank. cbn [Lines.bind]. apply finish_sim. destruct s1. constructor. apply psim_refl.
  - rewrite (run_from_split T V D W read_dep emit).
    destruct (run_upto p (init T V W w)) as [s0|] eqn:E0; cbn [Lines.bind]; [|reflexivity].
    change (run_from (blank_line :: l2 :: r2) s0) with (Lines.bind W (step_line blank_line s0) (fun s1 => run_from (l2 :: r2) (next_line blank_line s1))).
    rewrite step_blank. cbn [Lines.bind].
    assert (S : sim (next_line blank_line s0) s0) by (destruct s0; constructor; apply psim_refl).
    pose proof (run_from_sim (l2 :: r2) _ _ S) as R.
    destruct (run_from (l2 :: r2) (next_line blank_line s0)) as [s1|e1 w1], (run_from (l2 :: r2) s0) as [t1|e2 w2];
      cbn in R; try contradiction; cbn [Lines.bind]; [|reflexivity].
    apply finish_sim. exact R.
Qed.

End Blank.
